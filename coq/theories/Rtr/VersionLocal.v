(* VersionLocal.v - C13: where the version changes and how a wrong version is refused (local facts
   about receive_pdu, handle_error_pdu, sync_first, check_size and the FAST_RECONNECT state). *)
From RtrV Require Import Base.CSem Gen.Generated Rtr.RtrModel Rtr.RelFrame Rtr.VersionProofs.
Local Open Scope Z_scope.

(* ---------- the socket fields are not touched by the transport primitives ---------- *)
Definition SameSk (w w' : world) : Prop := sk w' = sk w /\ pfx w' = pfx w /\ keys w' = keys w.
Lemma SameSk_refl w : SameSk w w. Proof. unfold SameSk; auto. Qed.
Lemma SameSk_trans a b c : SameSk a b -> SameSk b c -> SameSk a c.
Proof. unfold SameSk. intros (H1 & H2 & H3) (H4 & H5 & H6). repeat split; congruence. Qed.

Lemma tr_recv_same len t w : rel SameSk (tr_recv len t) w.
Proof.
  unfold rel, tr_recv. destruct (tr_recv_evs _ _ _ _ _) as [[[[[c|b]|] es] t'] tr]; try destruct (c =? -99);
    unfold SameSk; simpl; auto.
Qed.

Lemma tr_recv_all_loop_same fuel : forall len e acc w, rel SameSk (tr_recv_all_loop fuel len e acc) w.
Proof.
  induction fuel as [|f IH]; intros; cbn [tr_recv_all_loop]; [apply (rel_ret SameSk SameSk_refl)|].
  destruct (zlen acc >=? len); [apply (rel_ret SameSk SameSk_refl)|].
  apply (rel_bind SameSk SameSk_trans); [unfold rel; unfold_prims; apply SameSk_refl|].
  intros t0 w0 Heq. unfold_prims_in Heq. injection Heq as <- <-.
  apply (rel_bind SameSk SameSk_trans); [apply tr_recv_same|].
  intros r w1 Heq. destruct r; [apply (rel_ret SameSk SameSk_refl)|apply IH].
Qed.

Lemma tr_recv_all_same len t w : rel SameSk (tr_recv_all len t) w.
Proof.
  unfold tr_recv_all. apply (rel_bind SameSk SameSk_trans); [unfold rel; unfold_prims; apply SameSk_refl|].
  intros t0 w0 Heq. unfold_prims_in Heq. injection Heq as <- <-. apply tr_recv_all_loop_same.
Qed.

(* ---------- End of Data is accepted only in its own format ---------- *)
Theorem eod_format p : nthb p 1 = c_EOD ->
  check_size p = true <-> ((nthb p 0 = 0 /\ get32 p 4 = 12) \/ (nthb p 0 = 1 /\ get32 p 4 = 24)).
Proof.
  intros Hty. unfold check_size. rewrite Hty.
  change (c_EOD =? c_SERIAL_NOTIFY) with false. change (c_EOD =? c_CACHE_RESPONSE) with false.
  change (c_EOD =? c_IPV4_PREFIX) with false. change (c_EOD =? c_IPV6_PREFIX) with false.
  change (c_EOD =? c_EOD) with true. cbv iota.
  change sizeof_pdu_end_of_data_v0 with 12. change sizeof_pdu_end_of_data_v1 with 24.
  rewrite orb_true_iff, !andb_true_iff, !Z.eqb_eq. tauto.
Qed.

(* ---------- cause 2: Unsupported-Version error report carrying a lower supported version ---------- *)
Theorem error_report_downgrade p w :
  get16 p 2 = c_UNSUPPORTED_PROTOCOL_VER -> 0 <= nthb p 0 -> nthb p 0 <= 1 -> nthb p 0 < version (sk w) ->
  st (sk w) <> c_RTR_SHUTDOWN -> st (sk w) <> c_RTR_FAST_RECONNECT ->
  exists w', handle_error_pdu p w = Ok tt w' /\ version (sk w') = nthb p 0 /\ st (sk w') = c_RTR_FAST_RECONNECT /\
             pfx w' = pfx w /\ keys w' = keys w.
Proof.
  intros Hc H0 H1 Hlt Hs1 Hs2. unfold handle_error_pdu. rewrite Hc.
  change (c_UNSUPPORTED_PROTOCOL_VER =? c_NO_DATA_AVAIL) with false.
  change (c_UNSUPPORTED_PROTOCOL_VER =? c_UNSUPPORTED_PROTOCOL_VER) with true. cbv iota.
  unfold_prims. change c_RTR_PROTOCOL_MAX_SUPPORTED_VERSION with 1. change c_RTR_PROTOCOL_MIN_SUPPORTED_VERSION with 0.
  assert (E : (nthb p 0 <=? 1) && (nthb p 0 >=? 0) && (nthb p 0 <? version (sk w)) = true).
  { assert (A1 : (nthb p 0 <=? 1) = true) by (apply Z.leb_le; lia).
    assert (A2 : (nthb p 0 >=? 0) = true) by (apply Z.geb_le; lia).
    assert (A3 : (nthb p 0 <? version (sk w)) = true) by (apply Z.ltb_lt; lia).
    rewrite A1, A2, A3. reflexivity. }
  rewrite E. unfold change_state. unfold_prims. cbn [sk st upd_version].
  assert (E1 : (st (sk w) =? c_RTR_FAST_RECONNECT) = false) by (apply Z.eqb_neq; exact Hs2).
  assert (E2 : (st (sk w) =? c_RTR_SHUTDOWN) = false) by (apply Z.eqb_neq; exact Hs1).
  rewrite E1, E2. eexists. split; [reflexivity|]. cbn. auto.
Qed.

Lemma change_state_ver ns w :
  match change_state ns w with Ok _ w' | Exc _ w' => version (sk w') = version (sk w) end.
Proof.
  unfold change_state. unfold_prims.
  destruct (st (sk w) =? ns); [simpl; reflexivity|]. destruct (st (sk w) =? c_RTR_SHUTDOWN); simpl; reflexivity.
Qed.

(* an error report that does not qualify never changes the version *)
Theorem error_report_other p w :
  ~ (get16 p 2 = c_UNSUPPORTED_PROTOCOL_VER /\ 0 <= nthb p 0 <= 1 /\ nthb p 0 < version (sk w)) ->
  match handle_error_pdu p w with Ok _ w' | Exc _ w' => version (sk w') = version (sk w) end.
Proof.
  intros Hn. unfold handle_error_pdu.
  destruct (get16 p 2 =? c_NO_DATA_AVAIL) eqn:E1.
  - apply change_state_ver.
  - destruct (get16 p 2 =? c_UNSUPPORTED_PROTOCOL_VER) eqn:E2.
    + unfold_prims. change c_RTR_PROTOCOL_MAX_SUPPORTED_VERSION with 1. change c_RTR_PROTOCOL_MIN_SUPPORTED_VERSION with 0.
      destruct ((nthb p 0 <=? 1) && (nthb p 0 >=? 0) && (nthb p 0 <? version (sk w))) eqn:E3.
      * exfalso. apply Hn. apply Z.eqb_eq in E2.
        apply andb_true_iff in E3 as [E3 E5]. apply andb_true_iff in E3 as [E3 E4].
        apply Z.leb_le in E3. apply Z.geb_le in E4. apply Z.ltb_lt in E5. lia.
      * apply change_state_ver.
    + apply change_state_ver.
Qed.

(* ---------- FAST_RECONNECT reconnects at once: no sleep before the next connection attempt ---------- *)
Theorem fast_reconnect_no_sleep fuel w : st (sk w) = c_RTR_FAST_RECONNECT ->
  exists w', fsm_step fuel w = Ok tt w' /\ now w' = now w /\ st (sk w') = c_RTR_CONNECTING /\
             out w' = TState c_RTR_CONNECTING :: TClose :: out w /\ version (sk w') = version (sk w).
Proof.
  intros Hs. unfold fsm_step. unfold_prims. rewrite Hs.
  change (c_RTR_FAST_RECONNECT =? c_RTR_CONNECTING) with false. change (c_RTR_FAST_RECONNECT =? c_RTR_RESET) with false.
  change (c_RTR_FAST_RECONNECT =? c_RTR_SYNC) with false. change (c_RTR_FAST_RECONNECT =? c_RTR_ESTABLISHED) with false.
  change (c_RTR_FAST_RECONNECT =? c_RTR_FAST_RECONNECT) with true. cbv iota.
  unfold change_state. unfold_prims. cbn [sk st]. rewrite Hs.
  change (c_RTR_FAST_RECONNECT =? c_RTR_CONNECTING) with false. change (c_RTR_FAST_RECONNECT =? c_RTR_SHUTDOWN) with false.
  cbv iota. eexists. split; [reflexivity|]. cbn. auto.
Qed.

(* ---------- sending never raises an exception ---------- *)
Lemma tr_send_all_loop_ok fuel : forall b tot w, exists r w', tr_send_all_loop fuel b tot w = Ok r w'.
Proof.
  induction fuel as [|f IH]; intros b tot w; cbn [tr_send_all_loop]; [unfold ret; eauto|].
  destruct b as [|x b]; [unfold ret; eauto|].
  unfold bind at 1. unfold tr_send at 1.
  destruct (sends w) as [|y ys]; cbn [fst snd].
  - destruct (1000000 <? 0) eqn:E; [discriminate E|].
    match goal with |- context [if ?c <? 0 then _ else _] => destruct (c <? 0) end; [unfold ret; eauto|].
    match goal with |- context [if ?c =? 0 then _ else _] => destruct (c =? 0) end; [unfold ret; eauto|apply IH].
  - destruct (y <? 0).
    + destruct (y <? 0); [unfold ret; eauto|]. destruct (y =? 0); [unfold ret; eauto|apply IH].
    + match goal with |- context [if ?c <? 0 then _ else _] => destruct (c <? 0) end; [unfold ret; eauto|].
      match goal with |- context [if ?c =? 0 then _ else _] => destruct (c =? 0) end; [unfold ret; eauto|apply IH].
Qed.

Lemma send_pdu_ok b w : exists r w', send_pdu b w = Ok r w'.
Proof.
  unfold send_pdu. unfold_prims. destruct (st (sk w) =? c_RTR_SHUTDOWN); [eauto|].
  unfold tr_send_all. destruct (tr_send_all_loop_ok (length b) b 0 w) as (r & w' & H). rewrite H. eauto.
Qed.

Lemma send_error_pdu_ok enc c t w : exists r w', send_error_pdu enc c t w = Ok r w'.
Proof.
  unfold send_error_pdu. unfold_prims. destruct (_ && _); [eauto|]. apply send_pdu_ok.
Qed.

(* sending changes neither the socket fields nor the tables *)
Lemma tr_send_same b w : rel SameSk (tr_send b) w.
Proof. unfold rel, tr_send. destruct (sends w); destruct (_ <? 0); unfold SameSk; simpl; auto. Qed.

Lemma tr_send_all_loop_same fuel : forall b tot w, rel SameSk (tr_send_all_loop fuel b tot) w.
Proof.
  induction fuel as [|f IH]; intros; cbn [tr_send_all_loop]; [apply (rel_ret SameSk SameSk_refl)|].
  destruct b; [apply (rel_ret SameSk SameSk_refl)|].
  apply (rel_bind SameSk SameSk_trans); [apply tr_send_same|].
  intros r w1 Heq. destruct (r <? 0); [apply (rel_ret SameSk SameSk_refl)|].
  destruct (r =? 0); [apply (rel_ret SameSk SameSk_refl)|apply IH].
Qed.

Lemma send_error_pdu_same enc c t w : rel SameSk (send_error_pdu enc c t) w.
Proof.
  unfold send_error_pdu.
  apply (rel_bind SameSk SameSk_trans); [unfold rel; unfold_prims; apply SameSk_refl|].
  intros s w0 Heq. unfold_prims_in Heq. injection Heq as <- <-.
  destruct (_ && _); [apply (rel_ret SameSk SameSk_refl)|].
  unfold send_pdu.
  apply (rel_bind SameSk SameSk_trans); [unfold rel; unfold_prims; apply SameSk_refl|].
  intros s w0 Heq. unfold_prims_in Heq. injection Heq as <- <-.
  destruct (_ =? _); [apply (rel_ret SameSk SameSk_refl)|].
  apply (rel_bind SameSk SameSk_trans); [apply tr_send_all_loop_same|].
  intros. apply (rel_ret SameSk SameSk_refl).
Qed.

(* ---------- enforcement: a PDU (not the first of the connection, not an Error Report) whose version
   differs from the negotiated one is answered with an Unexpected-Protocol-Version report carrying
   its header; nothing of it is applied: tables and socket fields stay as they are ---------- *)
Theorem wrong_version_refused t w h w1 :
  st (sk w) <> c_RTR_SHUTDOWN -> tr_recv_all 8 t w = Ok (inr h) w1 ->
  8 <= get32 h 4 -> get32 h 4 <= c_RTR_MAX_PDU_LEN -> nthb h 1 <> c_ERROR ->
  has_recv (sk w) = true -> nthb h 0 <> version (sk w) ->
  exists r w2, send_error_pdu h c_UNEXPECTED_PROTOCOL_VERSION [] w1 = Ok r w2 /\
               receive_pdu t w = Ok (inl (-1)) w2 /\ sk w2 = sk w /\ pfx w2 = pfx w /\ keys w2 = keys w.
Proof.
  intros Hst Hrecv Hl1 Hl2 Hty Hhr Hver.
  pose proof (tr_recv_all_same 8 t w) as Hs. unfold rel in Hs. rewrite Hrecv in Hs. destruct Hs as (Hs1 & Hs2 & Hs3).
  destruct (send_error_pdu_ok h c_UNEXPECTED_PROTOCOL_VERSION [] w1) as (r & w2 & Hsend).
  pose proof (send_error_pdu_same h c_UNEXPECTED_PROTOCOL_VERSION [] w1) as Hs'. unfold rel in Hs'. rewrite Hsend in Hs'.
  destruct Hs' as (Ht1 & Ht2 & Ht3).
  exists r, w2. split; [exact Hsend|]. split; [|repeat split; congruence].
  unfold receive_pdu. unfold bind at 1. unfold get_sk at 1.
  assert (E0 : (st (sk w) =? c_RTR_SHUTDOWN) = false) by (apply Z.eqb_neq; exact Hst). rewrite E0.
  unfold bind at 1. rewrite Hrecv.
  assert (E1 : (get32 h 4 <? 8) = false) by (apply Z.ltb_ge; lia). rewrite E1.
  assert (E2 : (get32 h 4 >? c_RTR_MAX_PDU_LEN) = false) by (rewrite Z.gtb_ltb; apply Z.ltb_ge; lia). rewrite E2.
  unfold bind at 1. unfold bind at 1. unfold get_sk at 1. rewrite Hs1, Hhr. unfold ret at 1.
  unfold bind at 1. unfold get_sk at 1. rewrite Hs1.
  assert (E3 : negb (nthb h 0 =? version (sk w)) && negb (nthb h 1 =? c_ERROR) = true).
  { apply andb_true_iff. split; apply negb_true_iff; apply Z.eqb_neq; assumption. }
  rewrite E3. unfold bind at 1. rewrite Hsend. reflexivity.
Qed.

(* ---------- cause 3: the cache closes the connection before any session exists ---------- *)
Theorem closed_before_session f w w1 :
  receive_pdu c_RTR_RECV_TIMEOUT w = Ok (inl (-4)) w1 ->
  st (sk w1) <> c_RTR_SHUTDOWN -> st (sk w1) <> c_RTR_FAST_RECONNECT -> st (sk w1) <> c_RTR_ERROR_TRANSPORT ->
  exists w2, sync_first (S f) w = Ok None w2 /\ pfx w2 = pfx w1 /\ keys w2 = keys w1 /\
    ((req_sess (sk w1) = true /\ 0 < version (sk w1) /\
      version (sk w2) = version (sk w1) - 1 /\ st (sk w2) = c_RTR_FAST_RECONNECT) \/
     (~ (req_sess (sk w1) = true /\ 0 < version (sk w1)) /\
      version (sk w2) = version (sk w1) /\ st (sk w2) = c_RTR_ERROR_TRANSPORT)).
Proof.
  intros Hr Hs1 Hs2 Hs3. cbn [sync_first]. unfold bind at 1. rewrite Hr.
  unfold bind at 1. unfold get_sk at 1.
  change (-4 =? -4) with true. change c_RTR_PROTOCOL_MIN_SUPPORTED_VERSION with 0. cbn [andb].
  assert (E1 : (st (sk w1) =? c_RTR_SHUTDOWN) = false) by (apply Z.eqb_neq; exact Hs1).
  assert (E2 : (st (sk w1) =? c_RTR_FAST_RECONNECT) = false) by (apply Z.eqb_neq; exact Hs2).
  assert (E3 : (st (sk w1) =? c_RTR_ERROR_TRANSPORT) = false) by (apply Z.eqb_neq; exact Hs3).
  destruct (req_sess (sk w1)) eqn:Er; cbn [andb].
  - destruct (version (sk w1) >? 0) eqn:Ev.
    + rewrite Z.gtb_ltb in Ev. apply Z.ltb_lt in Ev.
      unfold change_state. unfold_prims. cbn [sk st upd_version]. rewrite E1, E2.
      eexists. split; [reflexivity|]. cbn. split; [reflexivity|]. split; [reflexivity|]. left. auto.
    + rewrite Z.gtb_ltb in Ev. apply Z.ltb_ge in Ev.
      change ((-4 =? -2) || true) with true. cbv iota.
      unfold change_state. unfold_prims. rewrite E1, E3.
      eexists. split; [reflexivity|]. cbn. split; [reflexivity|]. split; [reflexivity|]. right. split; [lia|auto].
  - change ((-4 =? -2) || true) with true. cbv iota.
    unfold change_state. unfold_prims. rewrite E1, E3.
    eexists. split; [reflexivity|]. cbn. split; [reflexivity|]. split; [reflexivity|]. right. split; [|auto].
    intros [H _]. discriminate.
Qed.

(* ---------- cause 1: the first PDU of a connection carries a lower supported version ---------- *)
Definition hdr_ok (h : list byte) : Prop := 8 <= get32 h 4 /\ get32 h 4 <= c_RTR_MAX_PDU_LEN.

Theorem first_pdu_version t w h w1 :
  st (sk w) <> c_RTR_SHUTDOWN -> tr_recv_all 8 t w = Ok (inr h) w1 -> hdr_ok h -> has_recv (sk w) = false ->
  let v' := if (version (sk w) =? 1) && (nthb h 0 =? 0) && negb (nthb h 1 =? c_ERROR) then 0 else version (sk w) in
  match receive_pdu t w with
  | Ok _ w' | Exc _ w' => version (sk w') = v' /\ has_recv (sk w') = true
  end.
Proof.
  intros Hst Hrecv [Hl1 Hl2] Hhr v'.
  pose proof (tr_recv_all_same 8 t w) as Hs. unfold rel in Hs. rewrite Hrecv in Hs. destruct Hs as (Hs1 & Hs2 & Hs3).
  unfold receive_pdu. unfold bind at 1. unfold get_sk at 1.
  assert (E0 : (st (sk w) =? c_RTR_SHUTDOWN) = false) by (apply Z.eqb_neq; exact Hst). rewrite E0.
  unfold bind at 1. rewrite Hrecv.
  assert (E1 : (get32 h 4 <? 8) = false) by (apply Z.ltb_ge; lia). rewrite E1.
  assert (E2 : (get32 h 4 >? c_RTR_MAX_PDU_LEN) = false) by (rewrite Z.gtb_ltb; apply Z.ltb_ge; lia). rewrite E2.
  unfold bind at 1. unfold bind at 1. unfold get_sk at 1. rewrite Hs1, Hhr. unfold set_sk at 1.
  (* from here on the socket has version v' and has_recv = true; nothing below changes those two fields *)
  set (w1' := mkW (upd_hasrecv (if (version (sk w) =? 1) && (nthb h 0 =? 0) && negb (nthb h 1 =? c_ERROR)
                                then upd_version (sk w) 0 else sk w) true)
                  (pfx w1) (keys w1) (evs w1) (opens w1) (sends w1) (now w1) (out w1)).
  assert (Hv : version (sk w1') = v' /\ has_recv (sk w1') = true).
  { unfold w1', v'. cbn [sk]. destruct (_ && _); cbn; auto. }
  clearbody w1'.
  (* the rest of receive_pdu keeps version and has_recv: a frame argument *)
  assert (Hframe : forall (m : world -> res (Z + list byte)),
             (forall x, match m x with Ok _ x' | Exc _ x' => version (sk x') = version (sk x) /\ has_recv (sk x') = has_recv (sk x) end) ->
             match m w1' with Ok _ w' | Exc _ w' => version (sk w') = v' /\ has_recv (sk w') = true end).
  { intros m Hm. specialize (Hm w1'). destruct (m w1'); destruct Hm as [-> ->]; exact Hv. }
  apply Hframe. clear. intros x.
  pose (K := fun a b : world => version (sk b) = version (sk a) /\ has_recv (sk b) = has_recv (sk a)).
  assert (Krefl : forall a, K a a) by (unfold K; auto).
  assert (Ktrans : forall a b c, K a b -> K b c -> K a c) by (unfold K; intros a b c [? ?] [? ?]; split; congruence).
  assert (KS : forall a b, SameSk a b -> K a b) by (unfold K, SameSk; intros a b (-> & _); auto).
  assert (Kcs : forall ns a, rel K (change_state ns) a).
  { intros ns a. unfold rel, change_state. unfold_prims.
    destruct (st (sk a) =? ns); [apply Krefl|]. destruct (st (sk a) =? c_RTR_SHUTDOWN); [apply Krefl|]. unfold K. cbn. auto. }
  assert (Kse : forall e c tx a, rel K (send_error_pdu e c tx) a).
  { intros e c tx a. pose proof (send_error_pdu_same e c tx a) as H. unfold rel in *. destruct (send_error_pdu e c tx a); apply KS; exact H. }
  assert (Kra : forall l tt a, rel K (tr_recv_all l tt) a).
  { intros l tt a. pose proof (tr_recv_all_same l tt a) as H. unfold rel in *. destruct (tr_recv_all l tt a); apply KS; exact H. }
  assert (Kre : forall c a, rel K (recv_err c) a).
  { intros c a. unfold recv_err.
    destruct (c =? -1); [apply (rel_bind K Ktrans); [apply Kcs|intros; apply (rel_ret K Krefl)]|].
    destruct (c =? -2); [apply (rel_ret K Krefl)|]. destruct (c =? -3); [apply (rel_ret K Krefl)|].
    destruct (c =? -4); [apply (rel_ret K Krefl)|].
    apply (rel_bind K Ktrans); [apply Kcs|intros; apply (rel_ret K Krefl)]. }
  change (rel K (mdo s <- get_sk;
                 if negb (nthb h 0 =? version s) && negb (nthb h 1 =? c_ERROR)
                 then mdo _ <- send_error_pdu h c_UNEXPECTED_PROTOCOL_VERSION []; ret (inl (-1))
                 else mdo rest <- (if get32 h 4 - 8 >? 0
                                   then mdo s2 <- get_sk; if st s2 =? c_RTR_SHUTDOWN then ret (inl (-1)) else tr_recv_all (get32 h 4 - 8) c_RTR_RECV_TIMEOUT
                                   else ret (inr []));
                      match rest with
                      | inl c => recv_err c
                      | inr body => let p := h ++ body in
                                    if check_size p then ret (inr p)
                                    else mdo _ <- send_error_pdu h c_CORRUPT_DATA txt_too_small; mdo _ <- change_state c_RTR_ERROR_FATAL; ret (inl (-1))
                      end) x).
  apply (rel_bind K Ktrans); [unfold rel; unfold_prims; apply Krefl|].
  intros s x0 Heq. unfold_prims_in Heq. injection Heq as <- <-.
  destruct (_ && _).
  - apply (rel_bind K Ktrans); [apply Kse|intros; apply (rel_ret K Krefl)].
  - apply (rel_bind K Ktrans).
    + destruct (_ >? 0); [|apply (rel_ret K Krefl)].
      apply (rel_bind K Ktrans); [unfold rel; unfold_prims; apply Krefl|].
      intros s2 x1 Heq. unfold_prims_in Heq. injection Heq as <- <-.
      destruct (_ =? _); [apply (rel_ret K Krefl)|apply Kra].
    + intros rest x1 _. destruct rest as [c|body]; [apply Kre|].
      cbv zeta. destruct (check_size _); [apply (rel_ret K Krefl)|].
      apply (rel_bind K Ktrans); [apply Kse|]. intros.
      apply (rel_bind K Ktrans); [apply Kcs|]. intros. apply (rel_ret K Krefl).
Qed.
