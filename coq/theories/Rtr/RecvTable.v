(* RecvTable.v - C04: what the records that reach the prefix table satisfy, in the vocabulary of the
   trie proofs (Pfx/TrieInv.v [key_ok], used by Pfx/PfxProofs.v [rec_ok]). *)
From RtrV Require Import Base.CSem Gen.Generated Rtr.RtrModel Rtr.RecvBase Rtr.SendBase Rtr.RecvProofs Pfx.TrieModel Pfx.TrieInv.
Local Open Scope Z_scope.

(* The length part of the table's precondition holds for every stored prefix PDU; the remaining part
   (host bits zero) is exactly what the receive path does NOT check. *)
Theorem stored_prefix_key_ok (p : list byte) :
  Forall byte_ok p -> pdu_ok p -> nthb p 1 = c_IPV4_PREFIX \/ nthb p 1 = c_IPV6_PREFIX -> prefix_lengths_valid p = true ->
  let '(v6, bits, len, mx, asn, _) := prec_of_pdu p in
  let W := if v6 then 128%nat else 32%nat in
  List.length bits = W /\ (Z.to_nat len <= W)%nat /\ (Z.to_nat mx <= W)%nat /\
  (key_ok W bits (Z.to_nat len) <-> skipn (Z.to_nat len) bits = repeat false (W - Z.to_nat len)).
Proof.
  intros Hb Hok Ht Hv. pose proof (stored_prefix_lengths p Hb Hok Ht Hv) as H.
  destruct (prec_of_pdu p) as [[[[[v6 bits] len] mx] asn] src]. cbv zeta in *.
  destruct H as (Hl & Hlen & Hmx & _).
  assert (HW : List.length bits = (if v6 then 128%nat else 32%nat)) by (destruct v6; lia).
  assert (H1 : (Z.to_nat len <= (if v6 then 128 else 32))%nat) by (destruct v6; lia).
  assert (H2 : (Z.to_nat mx <= (if v6 then 128 else 32))%nat) by (destruct v6; lia).
  split; [exact HW|]. split; [exact H1|]. split; [exact H2|].
  unfold key_ok. split; [intros (_ & _ & H); exact H|intros H; repeat split; assumption].
Qed.

(* Since rtr_prefix_pdu_is_valid also rejects prefixes with a bit set behind their length, the whole precondition of
   the trie theorems holds for every record that reaches the prefix table through a cache response. *)
Lemma forallb_negb_repeat (l : list bool) : forallb negb l = true -> l = repeat false (List.length l).
Proof.
  induction l as [|b l IH]; [reflexivity|]. cbn [forallb List.length repeat]. intros H.
  apply andb_true_iff in H. destruct H as [Hb Hl]. destruct b; [discriminate|]. f_equal. exact (IH Hl).
Qed.

Theorem stored_prefix_is_key_ok (p : list byte) :
  Forall byte_ok p -> pdu_ok p -> nthb p 1 = c_IPV4_PREFIX \/ nthb p 1 = c_IPV6_PREFIX -> prefix_lengths_valid p = true ->
  let '(v6, bits, len, mx, asn, _) := prec_of_pdu p in
  key_ok (if v6 then 128%nat else 32%nat) bits (Z.to_nat len).
Proof.
  intros Hb Hok Ht Hv. pose proof (stored_prefix_key_ok p Hb Hok Ht Hv) as H.
  assert (Hz : prefix_host_bits_zero p = true).
  { unfold prefix_lengths_valid in Hv. apply andb_true_iff in Hv. destruct Hv as [_ Hv]. exact Hv. }
  unfold prefix_host_bits_zero in Hz. unfold prec_of_pdu in *.
  destruct (nthb p 1 =? c_IPV6_PREFIX) eqn:E6; cbv zeta iota in *;
    destruct H as (HW & H1 & _ & Hiff); apply Hiff;
    rewrite (forallb_negb_repeat _ Hz), skipn_length, HW; reflexivity.
Qed.
