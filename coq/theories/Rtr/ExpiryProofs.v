(* ExpiryProofs.v - C07: data that can no longer be refreshed expires; stopping a socket removes its data.
   - purge and stop written out as explicit world transformers (purge_outdated_eq, rtr_stop_eq')
   - the invariant Inv (Rtr/ExpirySync.v) holds in every world the state machine can reach (run_fsm_Inv)
   - last_update is the code's own bookkeeping; the ghost "time of the last SYNC -> ESTABLISHED transition
     since the last stop" is history; tracks: in every reachable world last_update is the ghost or 0, and
     0 means the socket holds no records and will ask with a Reset Query
   - expire_at_connect / stop_purges / others_untouched: the three clauses of the property. *)
From Coq Require Import Permutation.
From RtrV Require Import Base.CSem Gen.Generated Rtr.RtrModel Rtr.RelFrame Rtr.ExpiryTac Rtr.SyncSets Rtr.ExpiryFrames
  Rtr.ExpirySync Rtr.ConvergeStutter.
Local Open Scope Z_scope.

(* ---------- removal of the socket's records, explicitly ---------- *)
(* the removal callbacks, in trace order (oldest first): prefixes, then router keys *)
Definition removal_callbacks (w : world) : list titem :=
  map (TPfx false) (own_p (pfx w)) ++ (if spki_src_remove_notifies then map (TKey false) (own_k (keys w)) else []).

Definition removed (w : world) : world :=
  mkW (sk w) (oth_p (pfx w)) (oth_k (keys w)) (evs w) (opens w) (sends w) (now w) (rev (removal_callbacks w) ++ out w).

Lemma src_remove_all_eq' w : src_remove_all w = Ok tt (removed w).
Proof.
  unfold src_remove_all, removed, removal_callbacks. unfold_prims. cbn [sk pfx keys evs opens sends now out].
  rewrite rev_app_distr, <- app_assoc. reflexivity.
Qed.

(* rtr_purge_outdated_records *)
Definition expired (w : world) : bool :=
  negb (last_update (sk w) =? 0) && (last_update (sk w) + expire_iv (sk w) <? now w).

Definition purged (w : world) : world :=
  with_sk (removed w) (upd_resetting (upd_last (upd_serial (upd_req (sk w) true) 0) 0) true).

Lemma purge_outdated_eq' w : purge_outdated w = Ok tt (if expired w then purged w else w).
Proof.
  unfold purge_outdated, expired. unfold bind at 1, get_sk. unfold bind at 1, get_now.
  destruct (last_update (sk w) =? 0); cbn [negb andb]; [reflexivity|].
  destruct (last_update (sk w) + expire_iv (sk w) <? now w); [|reflexivity].
  unfold bind. rewrite src_remove_all_eq'. reflexivity.
Qed.

(* the strict boundary: purge iff more than expire_iv has passed since last_update *)
Lemma expired_iff w : expired w = true <-> last_update (sk w) <> 0 /\ now w - last_update (sk w) > expire_iv (sk w).
Proof.
  unfold expired. rewrite andb_true_iff, negb_true_iff, Z.eqb_neq, Z.ltb_lt. split; intros [A B]; split; auto; lia.
Qed.

Lemma own_oth_p X : own_p (oth_p X) = [].
Proof. apply own_oth_nil. Qed.
Lemma own_oth_k X : own_k (oth_k X) = [].
Proof. apply own_oth_nil. Qed.
Lemma oth_oth_p X : oth_p (oth_p X) = oth_p X.
Proof. apply oth_oth. Qed.
Lemma oth_oth_k X : oth_k (oth_k X) = oth_k X.
Proof. apply oth_oth. Qed.

Lemma removed_no_data w : no_data (removed w).
Proof. unfold no_data, removed. cbn [pfx keys]. split; [apply own_oth_p|apply own_oth_k]. Qed.

Lemma Inv_purged w : Inv w -> Inv (purged w).
Proof.
  intros (Ht & HP & HK & HD). unfold Inv, purged, removed, with_sk. cbn [sk pfx keys].
  split; [|split; [apply NoDup_oth_p, HP|split; [apply NoDup_oth_k, HK|intros _; split; [apply own_oth_p|apply own_oth_k]]]].
  destruct Ht as (T1 & T2 & T3 & T4 & T5 & T6). unfold Tm, env_ok.
  cbn [sk evs now retry_iv last_update req_sess resetting upd_resetting upd_last upd_serial upd_req].
  repeat split; auto; try lia.
Qed.

Lemma Inv_purge w : Inv w -> Inv (if expired w then purged w else w).
Proof. intros H. destruct (expired w); [apply Inv_purged, H|exact H]. Qed.

(* rtr_stop *)
Definition stop_sk (s : sock) : sock := upd_st (upd_last (upd_serial (upd_req s true) 0) 0) c_RTR_CLOSED.

(* rtr_change_socket_state as a world transformer *)
Definition state_changed (ns : Z) (w : world) : world :=
  if (st (sk w) =? ns) || (st (sk w) =? c_RTR_SHUTDOWN) then w
  else with_out (with_sk w (upd_st (sk w) ns)) (TState ns :: out w).
Lemma change_state_eq' ns w : change_state ns w = Ok tt (state_changed ns w).
Proof.
  unfold change_state, state_changed. unfold_prims.
  destruct (st (sk w) =? ns); [reflexivity|]. destruct (st (sk w) =? c_RTR_SHUTDOWN); reflexivity.
Qed.

Definition stopped (w : world) : world :=
  let w2 := state_changed c_RTR_SHUTDOWN (with_out w (TStopping :: out w)) in
  let w3 := with_out w2 (TClose :: out w2) in
  with_sk (removed w3) (stop_sk (sk w3)).

Lemma rtr_stop_eq' w : rtr_stop w = Ok tt (stopped w).
Proof.
  unfold rtr_stop, stopped.
  rewrite (bind_eq (emit TStopping) _ w tt (with_out w (TStopping :: out w)) eq_refl).
  rewrite (bind_eq _ _ _ _ _ (change_state_eq' _ _)).
  set (w2 := state_changed _ _).
  unfold tr_close. rewrite (bind_eq (emit TClose) _ w2 tt (with_out w2 (TClose :: out w2)) eq_refl).
  set (w3 := with_out w2 _).
  rewrite (bind_eq (modify_sk _) _ w3 tt (with_sk w3 (upd_last (upd_serial (upd_req (sk w3) true) 0) 0)) eq_refl).
  rewrite (bind_eq _ _ _ _ _ (src_remove_all_eq' _)).
  reflexivity.
Qed.

Lemma stopped_facts w :
  let w' := stopped w in
  no_data w' /\ req_sess (sk w') = true /\ serial (sk w') = 0 /\ last_update (sk w') = 0 /\ st (sk w') = c_RTR_CLOSED /\
  pfx w' = oth_p (pfx w) /\ keys w' = oth_k (keys w) /\
  now w' = now w /\ evs w' = evs w /\ opens w' = opens w /\ retry_iv (sk w') = retry_iv (sk w) /\
  expire_iv (sk w') = expire_iv (sk w) /\ resetting (sk w') = resetting (sk w).
Proof.
  unfold stopped, state_changed, no_data, stop_sk, removed, with_sk, with_out.
  cbn [sk out]. destruct ((st (sk w) =? c_RTR_SHUTDOWN) || (st (sk w) =? c_RTR_SHUTDOWN));
    cbn [sk pfx keys evs opens now out st req_sess serial last_update retry_iv expire_iv resetting upd_st upd_last upd_serial upd_req];
    repeat split; auto using own_oth_p, own_oth_k.
Qed.

(* exactly the socket's records are reported removed, after STOPPING / the state change / CLOSE *)
Lemma stopped_out w : exists pre, out (stopped w) = rev (removal_callbacks w) ++ pre ++ out w /\
  Forall (fun t => match t with TPfx _ _ | TKey _ _ => False | _ => True end) pre.
Proof.
  unfold stopped, state_changed, removed, removal_callbacks, with_sk, with_out.
  cbn [sk out]. destruct ((st (sk w) =? c_RTR_SHUTDOWN) || (st (sk w) =? c_RTR_SHUTDOWN)); cbn [sk pfx keys out].
  - exists [TClose; TStopping]. split; [reflexivity|repeat constructor].
  - exists [TClose; TState c_RTR_SHUTDOWN; TStopping]. split; [reflexivity|repeat constructor].
Qed.

Lemma Inv_stopped w : Tm w -> NoDup (pfx w) -> NoDup (keys w) -> Tm (stopped w) /\ Inv (stopped w).
Proof.
  intros (T1 & T2 & T3 & T4 & T5 & T6) HP HK.
  pose proof (stopped_facts w) as H. cbv zeta in H.
  destruct H as (A & B & C & D & S & P & Kk & N1 & E1 & O1 & R1 & X1 & Z1).
  assert (Ht : Tm (stopped w)).
  { unfold Tm, env_ok. rewrite E1, R1, N1, D, B. repeat split; auto; try lia. }
  split; [exact Ht|]. unfold Inv. rewrite P, Kk.
  split; [exact Ht|]. split; [apply NoDup_oth_p, HP|]. split; [apply NoDup_oth_k, HK|]. intros _. exact A.
Qed.

(* ---------- C07_others: purge and stop leave the records of other sources exactly in place ---------- *)
Theorem others_untouched w :
  oth_p (pfx (purged w)) = oth_p (pfx w) /\ oth_k (keys (purged w)) = oth_k (keys w) /\
  oth_p (pfx (stopped w)) = oth_p (pfx w) /\ oth_k (keys (stopped w)) = oth_k (keys w) /\
  pfx (purged w) = oth_p (pfx w) /\ keys (purged w) = oth_k (keys w).
Proof.
  pose proof (stopped_facts w) as H. cbv zeta in H. destruct H as (_ & _ & _ & _ & _ & P & Kk & _).
  rewrite P, Kk. unfold purged, removed, with_sk. cbn [pfx keys]. rewrite !oth_oth_p, !oth_oth_k. auto 10.
Qed.

(* ---------- the K /\ T frame ---------- *)
Definition KT (w w' : world) : Prop := K w w' /\ TmR w w'.
Lemma KT_refl w : KT w w. Proof. split; [apply K_refl|apply TmR_refl]. Qed.
Lemma KT_trans a b c : KT a b -> KT b c -> KT a c.
Proof. intros [A1 A2] [B1 B2]. split; [eapply K_trans|eapply TmR_trans]; eauto. Qed.
Lemma Inv_KT w w' : Inv w -> KT w w' -> Inv w'.
Proof. intros HI [HK HT]. eapply Inv_K; [exact HI|apply HT, HI|exact HK]. Qed.

Lemma hoareE_KT {A} (m : world -> res A) w : relK m w -> relT m w -> hoareE m w (fun _ w' => KT w w') (KT w).
Proof. intros. apply (hoareE_of_rel2 K TmR); assumption. Qed.

Lemma with_sk_KT w s :
  last_update s = last_update (sk w) -> retry_iv s = retry_iv (sk w) ->
  (last_update s = 0 -> req_sess s = true) -> (req_sess s = false -> resetting s = false) -> KT w (with_sk w s).
Proof.
  intros H1 H2 H3 H4. split.
  - unfold K, with_sk. cbn [pfx keys sk]. auto.
  - intros Ht. split; [apply Tm_with_sk; auto|cbn [now with_sk]; lia].
Qed.
Lemma with_out_KT w o : KT w (with_out w o).
Proof. split; [unfold K, with_out; cbn [pfx keys sk]; auto|]. unfold TmR, Tm, env_ok, with_out. cbn [sk evs now]. intros H; split; [exact H|lia]. Qed.

(* all the straight-line pieces of fsm_step that only send, open, close or change the state *)
Ltac kt_frame :=
  apply hoareE_KT; [repeat kstep; try klem|repeat tstep; try tlem4].

Lemma sleep_KT w n : 0 <= n -> KT w (mkW (sk w) (pfx w) (keys w) (evs w) (opens w) (sends w) (now w + n) (TSleep n :: out w)).
Proof.
  intros Hn. split; [unfold K; cbn [pfx keys sk]; auto|].
  unfold TmR, Tm, env_ok. cbn [sk evs now]. intros (T1 & T2 & T3 & T4 & T5 & T6). repeat split; auto; lia.
Qed.

(* ---------- C07 invariant: one iteration ---------- *)
Theorem fsm_step_Inv fuel w : Inv w -> hoareE (fsm_step fuel) w (fun _ w' => Inv w') Inv.
Proof.
  intros HI. unfold fsm_step. apply hoareE_get_sk. cbv zeta.
  assert (FR : forall (m : world -> res unit) w1, Inv w1 -> relK m w1 -> relT m w1 -> hoareE m w1 (fun _ w' => Inv w') Inv).
  { intros m w1 HI1 HK HT. eapply hoareE_conseq; [apply hoareE_KT; assumption| |]; cbv beta; intros; eapply Inv_KT; eauto. }
  destruct (st (sk w) =? c_RTR_CONNECTING).
  { apply hoareE_set_sk. set (w0 := with_sk w _).
    assert (HI0 : Inv w0) by (eapply Inv_KT; [exact HI|apply with_sk_KT; cbn [last_update retry_iv req_sess resetting upd_hasrecv]; auto; apply HI]).
    unfold hoareE, bind at 1. rewrite purge_outdated_eq'.
    apply (FR _ _ (Inv_purge w0 HI0)); [repeat kstep; try klem|repeat tstep; try tlem4]. }
  destruct (st (sk w) =? c_RTR_RESET).
  { apply FR; [exact HI|repeat kstep; try klem|repeat tstep; try tlem4]. }
  destruct (st (sk w) =? c_RTR_SYNC).
  { eapply hoareE_bind2; [apply rtr_sync_inv_spec, HI|cbv beta; intros w' H; apply H|].
    cbv beta. intros r w1 (HI1 & _). apply FR; [exact HI1|repeat kstep; try klem|repeat tstep; try tlem4]. }
  destruct (st (sk w) =? c_RTR_ESTABLISHED).
  { apply FR; [exact HI|repeat kstep; try klem; apply wait_for_sync_K|repeat tstep; try tlem4; apply wait_for_sync_T]. }
  destruct (st (sk w) =? c_RTR_FAST_RECONNECT).
  { apply FR; [exact HI|unfold tr_close; repeat kstep; try klem; kprim|unfold tr_close; repeat tstep; try tlem4; tprim]. }
  destruct (st (sk w) =? c_RTR_ERROR_NO_DATA_AVAIL).
  { apply hoareE_set_sk. set (w0 := with_sk w _).
    assert (HI0 : Inv w0).
    { eapply Inv_KT; [exact HI|apply with_sk_KT; cbn [last_update retry_iv req_sess resetting upd_serial upd_req]; auto; intros; discriminate]. }
    eapply hoareE_bind2; [apply hoareE_KT; [apply change_state_K|apply change_state_T]|cbv beta; intros; eapply Inv_KT; eauto|].
    cbv beta. intros [] w1 HKT1. assert (HI1 : Inv w1) by (eapply Inv_KT; eauto).
    unfold hoareE, bind at 1, do_sleep. rewrite purge_outdated_eq'. apply Inv_purge.
    eapply Inv_KT; [exact HI1|apply sleep_KT]. apply HI. }
  destruct (st (sk w) =? c_RTR_ERROR_NO_INCR_UPDATE_AVAIL).
  { apply hoareE_set_sk. set (w0 := with_sk w _).
    assert (HI0 : Inv w0).
    { eapply Inv_KT; [exact HI|apply with_sk_KT; cbn [last_update retry_iv req_sess resetting upd_serial upd_req]; auto; intros; discriminate]. }
    eapply hoareE_bind2; [apply hoareE_KT; [apply change_state_K|apply change_state_T]|cbv beta; intros; eapply Inv_KT; eauto|].
    cbv beta. intros [] w1 HKT1. assert (HI1 : Inv w1) by (eapply Inv_KT; eauto).
    unfold hoareE. rewrite purge_outdated_eq'. apply Inv_purge, HI1. }
  destruct ((st (sk w) =? c_RTR_ERROR_TRANSPORT) || (st (sk w) =? c_RTR_ERROR_FATAL)).
  { unfold tr_close. apply hoareE_emit.
    eapply hoareE_bind2; [apply hoareE_KT; [apply change_state_K|apply change_state_T]| |]; cbv beta.
    - intros w1 HKT1. eapply Inv_KT; [|exact HKT1]. eapply Inv_KT; [exact HI|apply with_out_KT].
    - intros [] w1 HKT1. unfold hoareE, do_sleep.
      eapply Inv_KT; [|apply sleep_KT; apply HI]. eapply Inv_KT; [|exact HKT1]. eapply Inv_KT; [exact HI|apply with_out_KT]. }
  apply hoareE_ret. exact HI.
Qed.

(* ---------- every reachable world satisfies Inv ---------- *)
Lemma stop_restart_eq' w :
  stop_restart w = Ok tt (with_sk (with_out (stopped w) (TDump 1 [st (sk (stopped w)); version (sk (stopped w)); session_id (sk (stopped w));
      if req_sess (sk (stopped w)) then 1 else 0; serial (sk (stopped w)); last_update (sk (stopped w)); refresh_iv (sk (stopped w));
      expire_iv (sk (stopped w)); retry_iv (sk (stopped w)); if resetting (sk (stopped w)) then 1 else 0; now (stopped w)]
      (pfx (stopped w)) (keys (stopped w)) :: out (stopped w))) (upd_st (sk (stopped w)) c_RTR_CONNECTING)).
Proof.
  unfold stop_restart. rewrite (bind_eq _ _ _ _ _ (rtr_stop_eq' w)). reflexivity.
Qed.

Lemma Inv_stop_restart w w' : Tm w -> NoDup (pfx w) -> NoDup (keys w) -> stop_restart w = Ok tt w' ->
  Inv w' /\ last_update (sk w') = 0 /\ no_data w' /\ req_sess (sk w') = true /\ st (sk w') = c_RTR_CONNECTING.
Proof.
  intros Ht HP HK E. rewrite stop_restart_eq' in E.
  destruct (Inv_stopped w Ht HP HK) as [_ HI].
  pose proof (stopped_facts w) as H. cbv zeta in H. destruct H as (A & B & C & D & _).
  remember (stopped w) as ws. clear Heqws. injection E as <-.
  split; [|cbn [sk pfx keys with_sk with_out last_update req_sess st upd_st]; auto].
  eapply Inv_KT; [exact HI|]. eapply KT_trans; [apply with_out_KT|].
  apply with_sk_KT; cbn [sk with_out last_update retry_iv req_sess resetting upd_st]; auto.
  rewrite B. discriminate.
Qed.

Theorem fsm_iter_Inv fuel w : Inv w -> Inv (fst (fsm_iter fuel w)).
Proof.
  intros HI. pose proof (fsm_step_Inv fuel w HI) as H. unfold hoareE in H. unfold fsm_iter.
  destruct (fsm_step fuel w) as [a w'|[why|] w']; cbn [fst]; try exact H.
  destruct H as (Ht & HP & HK & _).
  destruct (stop_restart w') as [[] w2|e w2] eqn:Es.
  - cbn [fst]. eapply Inv_stop_restart; eauto.
  - rewrite stop_restart_eq' in Es. discriminate.
Qed.

Theorem run_fsm_Inv n fuel : forall w, Inv w -> Inv (run_fsm n fuel w).
Proof.
  induction n as [|n IH]; intros w HI; [exact HI|].
  rewrite run_fsm_iter. pose proof (fsm_iter_Inv fuel w HI) as H.
  destruct (fsm_iter fuel w) as [w' [|]]; cbn [fst] in H; [apply IH, H|exact H].
Qed.

(* the initial world of a run (rtr_init, then the thread sets CONNECTING) *)
Definition start_world (refresh expire retry mode : Z) (P : list prec) (K0 : list krec) (es : list ev) (os : list bool) (ss : list Z) (o : list titem) : world :=
  mkW (upd_st (init_sock refresh expire retry mode) c_RTR_CONNECTING) P K0 es os ss 1000 o.

Lemma Inv_start refresh expire retry mode P K0 es os ss o :
  0 <= retry -> Forall ev_ok es -> NoDup P -> NoDup K0 -> own_p P = [] -> own_k K0 = [] ->
  Inv (start_world refresh expire retry mode P K0 es os ss o).
Proof.
  intros Hr He HP HK Ho1 Ho2. unfold Inv, Tm, env_ok, no_data, start_world, init_sock.
  cbn [sk pfx keys evs now retry_iv last_update req_sess resetting upd_st]. repeat split; auto; try lia.
Qed.

(* ---------- C07_last_update_tracks: the bookkeeping follows the history ---------- *)
(* what one iteration may do to last_update *)
Definition track (w w' : world) : Prop :=
  (st (sk w) = c_RTR_SYNC /\ st (sk w') = c_RTR_ESTABLISHED /\ last_update (sk w') = now w' /\ req_sess (sk w') = false) \/
  (~ (st (sk w) = c_RTR_SYNC /\ st (sk w') = c_RTR_ESTABLISHED) /\ last_update (sk w') = last_update (sk w)) \/
  (st (sk w) <> c_RTR_SYNC /\ last_update (sk w') = 0 /\ last_update (sk w) <> 0).

Definition track_interrupted (w w' : world) : Prop :=
  last_update (sk w') = last_update (sk w) \/ (st (sk w) <> c_RTR_SYNC /\ last_update (sk w') = 0 /\ last_update (sk w) <> 0).

Lemma track_K w w' : K w w' -> (st (sk w) = c_RTR_SYNC -> st (sk w') <> c_RTR_ESTABLISHED) -> track w w'.
Proof. intros (_ & _ & HL) Hs. right. left. split; [intros [A B]; exact (Hs A B)|exact HL]. Qed.

(* the expiry check either leaves last_update alone or zeroes a non-zero one *)
Lemma purge_last w : let w1 := if expired w then purged w else w in
  last_update (sk w1) = last_update (sk w) \/ (last_update (sk w1) = 0 /\ last_update (sk w) <> 0).
Proof.
  cbv zeta. destruct (expired w) eqn:Ex; [right|left; reflexivity].
  apply expired_iff in Ex. split; [reflexivity|apply Ex].
Qed.

(* outside rtr_sync, last_update is only ever left alone or zeroed by the expiry check *)
Definition LU (w w' : world) : Prop :=
  last_update (sk w') = last_update (sk w) \/ (last_update (sk w') = 0 /\ last_update (sk w) <> 0).
Lemma LU_refl w : LU w w. Proof. left; reflexivity. Qed.
Lemma LU_trans a b c : LU a b -> LU b c -> LU a c.
Proof. unfold LU. intros [H1|[H1 H1']] [H2|[H2 H2']]; try (left; congruence); right; split; congruence. Qed.
Lemma K_LU a b : K a b -> LU a b. Proof. intros (_ & _ & H). left. exact H. Qed.
Lemma relK_LU {A} (m : world -> res A) w : relK m w -> rel LU m w.
Proof. unfold rel. destruct (m w); apply K_LU. Qed.
Ltac lstep := rstep LU LU_refl LU_trans.
Ltac llem := match goal with
  | |- rel LU purge_outdated _ => unfold rel; rewrite purge_outdated_eq'; apply purge_last
  | |- rel LU wait_for_sync _ => apply relK_LU, wait_for_sync_K
  | |- rel LU _ _ => apply relK_LU; klem
  end.
Ltac lprim := unfold rel; unfold_prims; unfold LU; sk_simpl; auto.

Theorem fsm_step_tracks fuel w : Inv w -> live w ->
  hoareE (fsm_step fuel) w (fun _ w' => track w w') (track_interrupted w).
Proof.
  intros HI Hl. pose proof (live_not_shutdown w Hl) as Hns.
  destruct (st (sk w) =? c_RTR_SYNC) eqn:Esync.
  - (* the only place where last_update is set *)
    apply Z.eqb_eq in Esync. unfold fsm_step. apply hoareE_get_sk. cbv zeta.
    rewrite Esync. cbn [Z.eqb Pos.eqb].
    eapply hoareE_bind2; [apply rtr_sync_inv_spec, HI| |]; cbv beta.
    + intros w' [_ HL]. left. exact HL.
    + intros r w1 (HI1 & HE1 & [(-> & HL & Hq)|(Hr & HL)]).
      * cbn [Z.eqb]. unfold hoareE. rewrite change_state_eq'. left.
        assert (Hst : (st (sk w1) =? c_RTR_ESTABLISHED) || (st (sk w1) =? c_RTR_SHUTDOWN) = false).
        { destruct HE1 as [HE1|HE1]; [rewrite HE1, Esync; reflexivity|].
          unfold err_b in HE1. repeat (apply orb_true_iff in HE1; destruct HE1 as [HE1|HE1]); apply Z.eqb_eq in HE1; rewrite HE1; reflexivity. }
        unfold state_changed. rewrite Hst. cbn [sk with_sk with_out now st last_update req_sess upd_st]. auto.
      * destruct (r =? 0) eqn:Er; [apply Z.eqb_eq in Er; contradiction|]. apply hoareE_ret.
        right. left. split; [|exact HL]. intros [_ B].
        destruct HE1 as [HE1|HE1]; [rewrite HE1, Esync in B; discriminate|]. rewrite B in HE1. discriminate.
  - apply Z.eqb_neq in Esync.
    assert (HLU : rel LU (fsm_step fuel) w).
    { unfold fsm_step. repeat lstep; try llem; try (lprim; fail).
      all: try (apply Z.eqb_eq in Heqb1; contradiction). }
    unfold rel in HLU. unfold hoareE. destruct (fsm_step fuel w) as [a w'|e w'].
    + destruct HLU as [H|[H1 H2]]; [right; left; split; [intros [A _]; contradiction|exact H]|right; right; auto].
    + destruct HLU as [H|[H1 H2]]; [left; exact H|right; auto].
Qed.

(* ---------- the ghost: time of the last SYNC -> ESTABLISHED transition since the last stop (0 = none) ---------- *)
Definition ghost_next (fuel : nat) (w : world) (g : Z) : Z :=
  match fsm_step fuel w with
  | Ok _ w1 => if (st (sk w) =? c_RTR_SYNC) && (st (sk w1) =? c_RTR_ESTABLISHED) then now w1 else g
  | Exc XStop _ => 0
  | Exc (XEnd _) _ => g
  end.

Fixpoint run_ghost (n fuel : nat) (w : world) (g : Z) : world * Z :=
  match n with
  | O => (w, g)
  | S n' => let '(w', go) := fsm_iter fuel w in
            let g' := ghost_next fuel w g in
            if go then run_ghost n' fuel w' g' else (w', g')
  end.

Lemma run_ghost_fst n fuel : forall w g, fst (run_ghost n fuel w g) = run_fsm n fuel w.
Proof.
  induction n as [|n IH]; intros w g; [reflexivity|].
  cbn [run_ghost]. rewrite run_fsm_iter. destruct (fsm_iter fuel w) as [w' [|]]; [apply IH|reflexivity].
Qed.

(* last_update is the ghost, or it is 0 (and then, by Inv, the socket holds nothing and requests a session) *)
Definition tracks (w : world) (g : Z) : Prop := last_update (sk w) = g \/ last_update (sk w) = 0.

Lemma live_iter fuel w : live w -> live (fst (fsm_iter fuel w)) \/ snd (fsm_iter fuel w) = false.
Proof.
  intros Hl. pose proof (fsm_step_F fuel w) as HF. unfold rel in HF. unfold fsm_iter.
  destruct (fsm_step fuel w) as [a w'|[why|] w']; cbn [fst snd]; [left; apply HF, Hl|right; reflexivity|].
  destruct (stop_restart_eq w') as (w2 & -> & Hs & _). left. cbn [fst]. unfold live. rewrite Hs. reflexivity.
Qed.

Theorem iter_tracks fuel w g : Inv w -> live w -> tracks w g ->
  tracks (fst (fsm_iter fuel w)) (ghost_next fuel w g).
Proof.
  intros HI Hl Ht. pose proof (fsm_step_tracks fuel w HI Hl) as H. pose proof (fsm_step_Inv fuel w HI) as HI'.
  unfold hoareE in H, HI'. unfold fsm_iter, ghost_next, tracks in *.
  destruct (fsm_step fuel w) as [a w'|[why|] w']; cbn [fst].
  - destruct H as [(A & B & C & _)|[(A & B)|(A & B & C)]].
    + rewrite A, B. cbn. left. exact C.
    + assert (Hc : (st (sk w) =? c_RTR_SYNC) && (st (sk w') =? c_RTR_ESTABLISHED) = false).
      { apply andb_false_iff. destruct (st (sk w) =? c_RTR_SYNC) eqn:E1; [|auto]. right.
        apply Z.eqb_eq in E1. apply Z.eqb_neq. intros E2. apply A. auto. }
      rewrite Hc, B. exact Ht.
    + right. exact B.
  - destruct H as [H|(A & B & C)]; [rewrite H; exact Ht|right; exact B].
  - destruct HI' as (Htm & HP & HK & _).
    destruct (stop_restart w') as [[] w2|e w2] eqn:Es; cbn [fst].
    + left. eapply Inv_stop_restart; eauto.
    + rewrite stop_restart_eq' in Es. discriminate.
Qed.

Theorem run_tracks n fuel : forall w g, Inv w -> live w -> tracks w g ->
  let '(w', g') := run_ghost n fuel w g in Inv w' /\ tracks w' g'.
Proof.
  induction n as [|n IH]; intros w g HI Hl Ht; [cbn; auto|].
  cbn [run_ghost].
  pose proof (iter_tracks fuel w g HI Hl Ht) as H1. pose proof (fsm_iter_Inv fuel w HI) as H2.
  pose proof (live_iter fuel w Hl) as H3.
  destruct (fsm_iter fuel w) as [w' go]. cbn [fst snd] in *.
  destruct go; [|auto]. apply IH; auto. destruct H3 as [H3|H3]; [exact H3|discriminate].
Qed.

(* ---------- C07_expire: the expiry check at every (re)connect ---------- *)
(* the world in which tr_open is called *)
Definition at_open (w : world) : world :=
  let w0 := with_sk w (upd_hasrecv (sk w) false) in if expired w0 then purged w0 else w0.

(* what the CONNECTING state does after the check *)
Definition connect_rest : world -> res unit :=
  mdo ok <- tr_open;
  if negb ok then change_state c_RTR_ERROR_TRANSPORT
  else mdo s1 <- get_sk;
       if req_sess s1 then change_state c_RTR_RESET
       else mdo r <- send_serial_query;
            if r =? 0 then change_state c_RTR_SYNC else change_state c_RTR_ERROR_FATAL.

Theorem expire_at_connect fuel w : st (sk w) = c_RTR_CONNECTING ->
  fsm_step fuel w = connect_rest (at_open w) /\
  (expired w = true ->
     no_data (at_open w) /\ req_sess (sk (at_open w)) = true /\ serial (sk (at_open w)) = 0 /\
     last_update (sk (at_open w)) = 0 /\
     pfx (at_open w) = oth_p (pfx w) /\ keys (at_open w) = oth_k (keys w) /\
     out (at_open w) = rev (removal_callbacks w) ++ out w) /\
  (expired w = false -> pfx (at_open w) = pfx w /\ keys (at_open w) = keys w /\ out (at_open w) = out w /\
                        req_sess (sk (at_open w)) = req_sess (sk w)).
Proof.
  intros Hst. split.
  - unfold fsm_step. unfold bind at 1, get_sk. cbv zeta. rewrite Hst. const_dec.
    unfold bind at 1, set_sk. unfold bind at 1. rewrite purge_outdated_eq'. reflexivity.
  - unfold at_open. set (w0 := with_sk w _).
    assert (Hx : expired w0 = expired w) by reflexivity. rewrite Hx.
    split; intros Ex; rewrite Ex.
    + unfold purged, removed, removal_callbacks, no_data, with_sk. subst w0.
      cbn [sk pfx keys out with_sk req_sess serial last_update upd_resetting upd_last upd_serial upd_req].
      repeat split; auto using own_oth_p, own_oth_k.
    + subst w0. cbn [pfx keys out sk with_sk req_sess upd_hasrecv]. auto.
Qed.

(* the same in terms of history: g is the time of the last successful synchronisation since the last stop *)
Theorem expire_history w g : Inv w -> tracks w g ->
  (g = 0 \/ now w - g > expire_iv (sk w)) ->
  no_data (at_open w) /\ req_sess (sk (at_open w)) = true.
Proof.
  intros HI Ht Hg. unfold at_open. set (w0 := with_sk w _).
  assert (Hx : expired w0 = expired w) by reflexivity. rewrite Hx.
  assert (H0 : last_update (sk w) = 0 -> no_data w0 /\ req_sess (sk w0) = true /\ expired w = false).
  { intros H. destruct HI as ((_ & _ & _ & _ & T5 & _) & _ & _ & HD).
    split; [apply HD, H|]. split; [apply T5, H|]. unfold expired. rewrite H. reflexivity. }
  destruct Ht as [Ht|Ht]; [|destruct (H0 Ht) as (A & B & ->); auto].
  destruct Hg as [Hg|Hg]; [rewrite Hg in Ht; destruct (H0 Ht) as (A & B & ->); auto|].
  destruct (Z.eq_dec (last_update (sk w)) 0) as [Hz|Hz]; [destruct (H0 Hz) as (A & B & ->); auto|].
  assert (Ex : expired w = true) by (apply expired_iff; split; [exact Hz|rewrite Ht; exact Hg]).
  rewrite Ex. unfold purged, removed, no_data, with_sk.
  cbn [sk pfx keys req_sess upd_resetting upd_last upd_serial upd_req]. auto using own_oth_p, own_oth_k.
Qed.

(* with a session requested the connection goes through RESET, i.e. restarts with a Reset Query *)
Lemma connect_rest_reset w r : opens w = true :: r -> req_sess (sk w) = true -> st (sk w) = c_RTR_CONNECTING ->
  exists w', connect_rest w = Ok tt w' /\ st (sk w') = c_RTR_RESET /\
             out w' = TState c_RTR_RESET :: TOpen true (now w) :: out w /\ sends w' = sends w.
Proof.
  intros Ho Hq Hst. unfold connect_rest, tr_open. unfold bind at 1. rewrite Ho. cbn [negb].
  unfold bind at 1, get_sk. cbn [sk]. rewrite Hq. rewrite change_state_eq'. unfold state_changed. cbn [sk].
  rewrite Hst. const_dec. eexists. split; [reflexivity|]. cbn [sk with_sk with_out st upd_st out sends]. auto.
Qed.

Definition reset_query_bytes (s : sock) : list byte := [version s mod 256; c_RESET_QUERY] ++ enc16 0 ++ enc32 8.

Lemma tr_send_all_whole b w : sends w = [] -> 0 < zlen b <= 8192 ->
  tr_send_all b w = Ok (zlen b) (with_out w (TSend b :: out w)).
Proof.
  intros Hs Hl. unfold tr_send_all. destruct b as [|x b]; [unfold zlen in Hl; cbn in Hl; lia|].
  cbn [List.length tr_send_all_loop]. unfold bind at 1. unfold tr_send. rewrite Hs.
  assert (Hn : Z.min (zlen (x :: b)) (Z.min 1000000 8192) = zlen (x :: b)) by lia.
  cbn [Z.ltb Z.compare]. rewrite Hn.
  assert (Hf : Z.to_nat (zlen (x :: b)) = List.length (x :: b)) by (unfold zlen; apply Nat2Z.id).
  rewrite Hf, firstn_all.
  assert (H1 : zlen (x :: b) <? 0 = false) by (apply Z.ltb_ge; unfold zlen; lia).
  assert (H2 : zlen (x :: b) =? 0 = false) by (apply Z.eqb_neq; unfold zlen; cbn [List.length]; lia).
  rewrite H1, H2, skipn_all. destruct (List.length b); cbn [tr_send_all_loop]; unfold ret, with_out; rewrite Hs, Z.add_0_l; reflexivity.
Qed.

Lemma send_pdu_whole b w : st (sk w) <> c_RTR_SHUTDOWN -> sends w = [] -> 0 < zlen b <= 8192 ->
  send_pdu b w = Ok 0 (with_out w (TSend b :: out w)).
Proof.
  intros Hst Hs Hl. unfold send_pdu. rewrite (bind_eq get_sk _ w (sk w) w eq_refl).
  destruct (st (sk w) =? c_RTR_SHUTDOWN) eqn:E; [apply Z.eqb_eq in E; contradiction|].
  rewrite (bind_eq _ _ _ _ _ (tr_send_all_whole b w Hs Hl)). unfold ret.
  assert (H : zlen b >? 0 = true) by (apply Z.gtb_lt; lia). rewrite H. reflexivity.
Qed.

Theorem reset_sends_reset_query fuel w : st (sk w) = c_RTR_RESET -> sends w = [] ->
  exists w', fsm_step fuel w = Ok tt w' /\ st (sk w') = c_RTR_SYNC /\
             out w' = TState c_RTR_SYNC :: TSend (reset_query_bytes (sk w)) :: out w.
Proof.
  intros Hst Hs.
  assert (Hns : st (sk w) <> c_RTR_SHUTDOWN) by (rewrite Hst; discriminate).
  assert (Hq : send_reset_query w = Ok 0 (with_out w (TSend (reset_query_bytes (sk w)) :: out w))).
  { unfold send_reset_query. rewrite (bind_eq get_sk _ w (sk w) w eq_refl).
    fold (reset_query_bytes (sk w)).
    rewrite (bind_eq _ _ _ _ _ (send_pdu_whole (reset_query_bytes (sk w)) w Hns Hs ltac:(unfold zlen; cbn [reset_query_bytes List.length app enc16 enc32]; lia))).
    reflexivity. }
  unfold fsm_step. rewrite (bind_eq get_sk _ w (sk w) w eq_refl). cbv zeta. rewrite Hst. const_dec.
  rewrite (bind_eq _ _ _ _ _ Hq). cbn [Z.eqb].
  rewrite change_state_eq'. unfold state_changed. cbn [sk with_out]. rewrite Hst. const_dec.
  eexists. split; [reflexivity|]. cbn [sk st with_sk with_out upd_st out]. auto.
Qed.

(* ---------- C07_stop ---------- *)
Theorem stop_purges w :
  rtr_stop w = Ok tt (stopped w) /\
  no_data (stopped w) /\ req_sess (sk (stopped w)) = true /\ serial (sk (stopped w)) = 0 /\
  last_update (sk (stopped w)) = 0 /\ st (sk (stopped w)) = c_RTR_CLOSED /\
  pfx (stopped w) = oth_p (pfx w) /\ keys (stopped w) = oth_k (keys w) /\
  (exists pre, out (stopped w) = rev (removal_callbacks w) ++ pre ++ out w /\
               Forall (fun t => match t with TPfx _ _ | TKey _ _ => False | _ => True end) pre).
Proof.
  split; [apply rtr_stop_eq'|]. pose proof (stopped_facts w) as H. cbv zeta in H.
  destruct H as (A & B & C & D & S & P & Kk & _).
  split; [exact A|]. split; [exact B|]. split; [exact C|]. split; [exact D|]. split; [exact S|]. split; [exact P|]. split; [exact Kk|]. apply stopped_out.
Qed.

(* ---------- a failed synchronisation keeps the timestamp (repair d3720d6) ---------- *)
Theorem failed_sync_keeps_timestamp fuel w : Inv w ->
  match rtr_sync fuel w with
  | Ok r w' => r <> 0 -> last_update (sk w') = last_update (sk w) /\ Inv w'
  | Exc _ w' => last_update (sk w') = last_update (sk w) /\ Inv w'
  end.
Proof.
  intros HI. pose proof (rtr_sync_inv_spec fuel w HI) as H. unfold hoareE in H.
  destruct (rtr_sync fuel w) as [r w'|e w'].
  - destruct H as (HI' & _ & [(-> & _)|(_ & HL)]); [intros Hr; contradiction|auto].
  - destruct H as [HI' HL]. auto.
Qed.

(* ---------- Example: a reload interrupted half-way still expires ----------
   sync at t=1000 (one prefix, serial 5); the refresh timer fires at 4600; the cache answers the Serial Query
   with Cache Reset; the reload (Cache Response, one other prefix) is cut by a transport error; the cache
   stays unreachable; at the first connection attempt after 1000 + 7200 the old record is purged. *)
Definition ex_CR : list byte := [1;3;0;42;0;0;0;8].
Definition ex_PA : list byte := [1;4;0;0;0;0;0;20; 1;24;24;0; 10;0;0;0; 0;0;253;232].
Definition ex_PB : list byte := [1;4;0;0;0;0;0;20; 1;16;16;0; 10;1;0;0; 0;0;253;233].
Definition ex_EOD : list byte := [1;7;0;42;0;0;0;24; 0;0;0;5; 0;0;14;16; 0;0;2;88; 0;0;28;32].
Definition ex_CRST : list byte := [1;8;0;0;0;0;0;8].
Definition ex_evs : list ev :=
  [EvData (ex_CR ++ ex_PA ++ ex_EOD); EvWait 3601; EvData ex_CRST; EvData (ex_CR ++ ex_PB); EvErr 1; EvWait 100000].
Definition ex_w0 : world :=
  start_world 3600 7200 600 0 [] [] ex_evs [true; true; false; false; false; false; false; true] [] [].

Example ex_w0_Inv : Inv ex_w0 /\ live ex_w0.
Proof.
  split; [|reflexivity]. apply Inv_start; try (constructor; fail); try reflexivity; [lia|].
  unfold ex_evs, ex_CR, ex_PA, ex_PB, ex_EOD, ex_CRST. cbn [app].
  repeat first [apply Forall_nil | apply Forall_cons; [cbn [ev_ok]|]].
  all: try exact I; try lia; try (unfold byte_ok; lia).
Qed.

Example interrupted_reload_still_expires :
  let w3 := run_fsm 3 100 ex_w0 in     (* first synchronisation done *)
  let w8 := run_fsm 8 100 ex_w0 in     (* the reload was cut by the transport error *)
  let w21 := run_fsm 21 100 ex_w0 in   (* CONNECTING again, more than expire_iv after the last success *)
  let w22 := run_fsm 22 100 ex_w0 in
  (st (sk w3) = c_RTR_ESTABLISHED /\ last_update (sk w3) = 1000 /\ List.length (own_p (pfx w3)) = 1%nat) /\
  (st (sk w8) = c_RTR_ERROR_TRANSPORT /\ last_update (sk w8) = 1000 /\ pfx w8 = pfx w3 /\ req_sess (sk w8) = true) /\
  (st (sk w21) = c_RTR_CONNECTING /\ now w21 = 8261 /\ expired w21 = true /\ pfx w21 = pfx w3) /\
  (pfx w22 = [] /\ last_update (sk w22) = 0 /\ req_sess (sk w22) = true /\ serial (sk w22) = 0).
Proof. vm_compute. repeat split; reflexivity. Qed.
