(* SendExamples.v - concrete runs showing that the hypotheses of the C14 site theorems are satisfiable and
   what the conclusions look like (closed terms, vm_compute). *)
From RtrV Require Import Base.CSem Gen.Generated Rtr.RtrModel Rtr.RecvBase Rtr.SendBase Rtr.RecvProofs Rtr.SendProofs Rtr.SendSites.
Local Open Scope Z_scope.

Definition ex_cr (s : Z) : list byte := [1; 3] ++ enc16 s ++ enc32 8.
Definition ex_eod (s sn : Z) : list byte := [1; 7] ++ enc16 s ++ enc32 24 ++ enc32 sn ++ enc32 3600 ++ enc32 600 ++ enc32 7200.
Definition ex_notify (s sn : Z) : list byte := [1; 0] ++ enc16 s ++ enc32 12 ++ enc32 sn.
Definition ex_v4 (flags plen : Z) : list byte := [1; 4; 0; 0] ++ enc32 20 ++ [flags; plen; 24; 0; 10; 0; 0; 0] ++ enc32 65000.

Definition ex_run (es : list ev) (ss : list Z) : list titem := run_script 12 100 3600 7200 600 0 [] [] es [true; true; true] ss.
Definition ex_reports (tr : list titem) : list (list byte) :=
  flat_map (fun t => match t with TSend b => if nthb b 1 =? c_ERROR then [b] else [] | _ => [] end) tr.

(* a clean exchange, then a Cache Response of session 43 instead of 42: one report, code 0, nothing encapsulated *)
Example ex_wrong_session :
  ex_reports (ex_run [EvData (ex_cr 42 ++ ex_v4 1 8 ++ ex_eod 42 5); EvData (ex_notify 42 6); EvData (ex_cr 43)] []) =
  [error_report 1 c_CORRUPT_DATA [] txt_wrong_session].
Proof. vm_compute. reflexivity. Qed.

(* the same record announced twice: one report, code 7, the whole PDU *)
Example ex_duplicate :
  ex_reports (ex_run [EvData (ex_cr 42 ++ ex_v4 1 8 ++ ex_v4 1 8 ++ ex_eod 42 5)] []) =
  [error_report 1 c_DUPLICATE_ANNOUNCEMENT (ex_v4 1 8) []].
Proof. vm_compute. reflexivity. Qed.

(* prefix length 33: one report, code 0, the whole PDU and the text; byte-wise writes do not change the bytes *)
Example ex_prefix_len :
  sent_of (ex_run [EvData (ex_cr 42 ++ ex_v4 1 33)] (repeat 1 200)) =
  reset_query_bytes (init_sock 3600 7200 600 0) ++ error_report 1 c_CORRUPT_DATA (ex_v4 1 33) txt_pfx_len ++
  reset_query_bytes (init_sock 3600 7200 600 0).
Proof. vm_compute. reflexivity. Qed.

(* End of Data of session 7 in session 42 *)
Example ex_eod_session :
  ex_reports (ex_run [EvData (ex_cr 42 ++ ex_eod 7 5)] []) =
  [error_report 1 c_CORRUPT_DATA (ex_eod 7 5) (txt_eod_session 42 7)].
Proof. vm_compute. reflexivity. Qed.

(* a send error after 5 bytes of the report: the attempt is a proper prefix *)
Example ex_truncated :
  sent_of (ex_run [EvData [1; 3; 0; 42; 0; 0; 0; 7]] [1000; 5; -1]) =
  reset_query_bytes (init_sock 3600 7200 600 0) ++ firstn 5 (error_report 1 c_CORRUPT_DATA [1; 3; 0; 42; 0; 0; 0; 7] txt_too_small) ++
  reset_query_bytes (init_sock 3600 7200 600 0).
Proof. vm_compute. reflexivity. Qed.
