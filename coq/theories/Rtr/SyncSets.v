(* SyncSets.v - C03: the set arithmetic behind "apply a delta / undo it".
   A generic development over any record type with a decidable equality (instantiated below for
   prefix records and router keys): the model's apply loop computes [fold_left delta], stops at the
   first update that does not apply, and undoing the applied prefix most-recent-first always succeeds
   and restores a duplicate-free table up to order. *)
From Coq Require Import Permutation.
From RtrV Require Import Base.CSem Gen.Generated Rtr.RtrModel.
Local Open Scope Z_scope.

Section Gen.
Variable A : Type.
Variable eqb : A -> A -> bool.
Hypothesis eqb_eq : forall a b, eqb a b = true <-> a = b.
Variable item : bool -> A -> titem.
Variable of_pdu : list byte -> A.
Variable src : A -> Z.
Hypothesis src_of_pdu : forall p, src (of_pdu p) = 1.

Definition gmem (r : A) (X : list A) := existsb (eqb r) X.
Definition grem (r : A) (X : list A) := filter (fun x => negb (eqb r x)) X.

Definition gupd (live : bool) (flags : Z) (r : A) (X : list A) : list A * Z * list titem :=
  if flags =? 1 then (if gmem r X then (X, 1, []) else (X ++ [r], 0, if live then [item true r] else []))
  else if flags =? 0 then (if gmem r X then (grem r X, 0, if live then [item false r] else []) else (X, 2, []))
  else (X, 3, []).

Fixpoint gapply (live : bool) (ps : list (list byte)) (X : list A) (done : list (list byte))
  : list A * list titem * option (list byte * Z * list (list byte)) :=
  match ps with
  | [] => (X, [], None)
  | p :: rest =>
    let '(X', c, t) := gupd live (pdu_flags p) (of_pdu p) X in
    if c =? 0 then let '(X2, t2, f) := gapply live rest X' (p :: done) in (X2, t ++ t2, f)
    else (X, [], Some (p, c, done))
  end.

Fixpoint gundo (live : bool) (done : list (list byte)) (X : list A) : list A * list titem * bool :=
  match done with
  | [] => (X, [], true)
  | p :: rest =>
    let '(X', c, t) := gupd live (1 - pdu_flags p) (of_pdu p) X in
    if c =? 0 then let '(X2, t2, ok) := gundo live rest X' in (X2, t ++ t2, ok) else (X, [], false)
  end.

(* ---- the Spec: plain set arithmetic ---- *)
(* one PDU: an announcement adds its record, anything else (a withdrawal) removes it *)
Definition delta (X : list A) (p : list byte) : list A :=
  if pdu_flags p =? 1 then X ++ [of_pdu p] else grem (of_pdu p) X.
Definition apply_delta (old : list A) (pdus : list (list byte)) : list A := fold_left delta pdus old.
Definition announced (pdus : list (list byte)) : list A := apply_delta [] pdus.

(* a PDU applies to X: announcement of an absent record or withdrawal of a present one *)
Definition step_ok (X : list A) (p : list byte) : Prop :=
  (pdu_flags p = 1 /\ ~ In (of_pdu p) X) \/ (pdu_flags p = 0 /\ In (of_pdu p) X).
Fixpoint applies (ps : list (list byte)) (X : list A) : Prop :=
  match ps with
  | [] => True
  | p :: r => step_ok X p /\ applies r (delta X p)
  end.

Definition own (X : list A) := filter (fun r => src r =? 1) X.
Definition oth (X : list A) := filter (fun r => negb (src r =? 1)) X.

(* ---- membership / removal ---- *)
Lemma gmem_In r X : gmem r X = true <-> In r X.
Proof.
  unfold gmem. rewrite existsb_exists. split.
  - intros (x & Hx & E). apply eqb_eq in E. now subst.
  - intros H. exists r. split; [exact H|now apply eqb_eq].
Qed.
Lemma gmem_false r X : gmem r X = false <-> ~ In r X.
Proof. rewrite <- gmem_In. destruct (gmem r X); split; congruence. Qed.

Lemma eqb_refl r : eqb r r = true. Proof. now apply eqb_eq. Qed.
Lemma eqb_neq a b : eqb a b = false <-> a <> b.
Proof. rewrite <- eqb_eq. destruct (eqb a b); split; congruence. Qed.

Lemma In_grem r x X : In x (grem r X) <-> In x X /\ x <> r.
Proof.
  unfold grem. rewrite filter_In. split; intros [H1 H2]; split; auto.
  - apply negb_true_iff, eqb_neq in H2. congruence.
  - apply negb_true_iff, eqb_neq. congruence.
Qed.
Lemma grem_notin r X : ~ In r X -> grem r X = X.
Proof.
  induction X as [|x X IH]; intros H; [reflexivity|]. cbn [grem filter].
  destruct (eqb r x) eqn:E; cbn [negb].
  - apply eqb_eq in E. subst. exfalso. apply H. now left.
  - f_equal. apply IH. intros Hi. apply H. now right.
Qed.
Lemma grem_app r X Y : grem r (X ++ Y) = grem r X ++ grem r Y.
Proof. unfold grem. apply filter_app. Qed.
Lemma grem_single r : grem r [r] = [].
Proof. cbn [grem filter]. now rewrite eqb_refl. Qed.

Lemma NoDup_filter {B} (f : B -> bool) (X : list B) : NoDup X -> NoDup (filter f X).
Proof.
  induction 1 as [|x X Hx Hn IH]; cbn [filter]; [constructor|].
  destruct (f x); [constructor; [|exact IH]|exact IH].
  intros Hi. apply filter_In in Hi. tauto.
Qed.
Lemma NoDup_snoc (r : A) X : NoDup X -> ~ In r X -> NoDup (X ++ [r]).
Proof.
  intros Hn Hr. apply (Permutation_NoDup (l := r :: X)); [apply Permutation_cons_append|]. now constructor.
Qed.

Lemma Permutation_filter' {B} (f : B -> bool) (X Y : list B) : Permutation X Y -> Permutation (filter f X) (filter f Y).
Proof.
  induction 1; cbn [filter].
  - constructor.
  - destruct (f x); [now constructor|assumption].
  - destruct (f x), (f y); first [apply Permutation_refl | apply perm_swap].
  - eapply Permutation_trans; eauto.
Qed.

Lemma perm_readd r X : NoDup X -> In r X -> Permutation (grem r X ++ [r]) X.
Proof.
  intros Hn Hi. eapply Permutation_trans; [apply Permutation_sym, Permutation_cons_append|].
  induction Hn as [|x X Hx Hn IH]; [destruct Hi|].
  cbn [grem filter]. destruct (eqb r x) eqn:E; cbn [negb].
  - apply eqb_eq in E. subst x. fold (grem r X). rewrite grem_notin by exact Hx. apply Permutation_refl.
  - fold (grem r X). destruct Hi as [->|Hi]; [rewrite eqb_refl in E; discriminate|].
    eapply Permutation_trans; [apply perm_swap|]. constructor. now apply IH.
Qed.

(* ---- delta preserves duplicate-freedom when it applies ---- *)
Lemma delta_NoDup X p : NoDup X -> step_ok X p -> NoDup (delta X p).
Proof.
  intros Hn [[Hf Hi]|[Hf Hi]]; unfold delta; rewrite Hf; cbn [Z.eqb Pos.eqb].
  - now apply NoDup_snoc.
  - now apply NoDup_filter.
Qed.

Lemma applies_app a b X : applies (a ++ b) X <-> applies a X /\ applies b (fold_left delta a X).
Proof.
  revert X. induction a as [|p a IH]; intros X; cbn [app applies fold_left]; [tauto|].
  rewrite IH. tauto.
Qed.

Lemma applies_NoDup ps : forall X, NoDup X -> applies ps X -> NoDup (fold_left delta ps X).
Proof.
  induction ps as [|p ps IH]; intros X Hn Ha; cbn [fold_left]; [exact Hn|].
  destruct Ha as [H1 H2]. apply IH; [now apply delta_NoDup|exact H2].
Qed.

(* ---- one update ---- *)
Lemma gupd_ok live fl r X X' c t :
  gupd live fl r X = (X', c, t) -> c = 0 ->
  (fl = 1 /\ ~ In r X /\ X' = X ++ [r] /\ t = (if live then [item true r] else [])) \/
  (fl = 0 /\ In r X /\ X' = grem r X /\ t = (if live then [item false r] else [])).
Proof.
  unfold gupd. intros H Hc.
  destruct (fl =? 1) eqn:E1.
  - apply Z.eqb_eq in E1. destruct (gmem r X) eqn:M; inversion H; subst; try congruence.
    left. apply gmem_false in M. auto.
  - destruct (fl =? 0) eqn:E0.
    + apply Z.eqb_eq in E0. destruct (gmem r X) eqn:M; inversion H; subst; try congruence.
      right. apply gmem_In in M. auto.
    + inversion H; subst; congruence.
Qed.

Lemma gupd_fail live fl r X X' c t :
  gupd live fl r X = (X', c, t) -> c <> 0 ->
  X' = X /\ t = [] /\
  ((c = 1 /\ fl = 1 /\ In r X) \/ (c = 2 /\ fl = 0 /\ ~ In r X) \/ (c = 3 /\ fl <> 1 /\ fl <> 0)).
Proof.
  unfold gupd. intros H Hc.
  destruct (fl =? 1) eqn:E1.
  - apply Z.eqb_eq in E1. destruct (gmem r X) eqn:M; inversion H; subst; try congruence.
    apply gmem_In in M. auto 10.
  - apply Z.eqb_neq in E1. destruct (fl =? 0) eqn:E0.
    + apply Z.eqb_eq in E0. destruct (gmem r X) eqn:M; inversion H; subst; try congruence.
      apply gmem_false in M. auto 10.
    + apply Z.eqb_neq in E0. inversion H; subst. auto 10.
Qed.

(* ---- the apply loop ---- *)
(* why a PDU fails to apply: 1 duplicate announcement, 2 unknown withdrawal, 3 invalid flags *)
Definition fail_code (X : list A) (p : list byte) (c : Z) : Prop :=
  (c = 1 /\ pdu_flags p = 1 /\ In (of_pdu p) X) \/ (c = 2 /\ pdu_flags p = 0 /\ ~ In (of_pdu p) X) \/
  (c = 3 /\ pdu_flags p <> 1 /\ pdu_flags p <> 0).

Lemma gapply_spec live ps : forall X done,
  match gapply live ps X done with
  | (X', t, None) => X' = fold_left delta ps X /\ applies ps X
  | (X', t, Some (bad, c, d)) =>
      exists pre post, ps = pre ++ bad :: post /\ d = rev pre ++ done /\
                       X' = fold_left delta pre X /\ applies pre X /\ fail_code X' bad c
  end.
Proof.
  induction ps as [|p ps IH]; intros X done; cbn [gapply]; [cbn; auto|].
  destruct (gupd live (pdu_flags p) (of_pdu p) X) as [[X1 c] t] eqn:E.
  destruct (c =? 0) eqn:Ec.
  - apply Z.eqb_eq in Ec.
    assert (Hd : X1 = delta X p /\ step_ok X p).
    { destruct (gupd_ok _ _ _ _ _ _ _ E Ec) as [(Hf & Hi & -> & _)|(Hf & Hi & -> & _)];
        unfold delta, step_ok; rewrite Hf; cbn [Z.eqb Pos.eqb]; auto. }
    destruct Hd as [-> Hok].
    specialize (IH (delta X p) (p :: done)).
    destruct (gapply live ps (delta X p) (p :: done)) as [[X2 t2] [[[bad c2] d]|]].
    + destruct IH as (pre & post & -> & -> & -> & Ha & Hf).
      exists (p :: pre), post. cbn [app rev fold_left applies]. rewrite <- app_assoc. cbn [app]. repeat split; auto.
    + destruct IH as [-> Ha]. cbn [fold_left applies]. repeat split; auto.
  - apply Z.eqb_neq in Ec.
    destruct (gupd_fail _ _ _ _ _ _ _ E Ec) as (-> & -> & Hc).
    exists [], ps. cbn [app rev fold_left applies]. unfold fail_code. repeat split; auto.
Qed.

(* the emitted callbacks do not depend on the table order; nothing is emitted on shadow tables *)
Lemma gapply_shadow_silent ps : forall X done, snd (fst (gapply false ps X done)) = [].
Proof.
  induction ps as [|p ps IH]; intros X done; cbn [gapply]; [reflexivity|].
  destruct (gupd false (pdu_flags p) (of_pdu p) X) as [[X1 c] t] eqn:E.
  destruct (c =? 0) eqn:Ec; [|reflexivity].
  apply Z.eqb_eq in Ec.
  assert (t = []) by (destruct (gupd_ok _ _ _ _ _ _ _ E Ec) as [(_ & _ & _ & ->)|(_ & _ & _ & ->)]; reflexivity).
  subst t. specialize (IH X1 (p :: done)). destruct (gapply false ps X1 (p :: done)) as [[X2 t2] f]. exact IH.
Qed.

(* ---- the undo loop ---- *)
Lemma gundo_app live a : forall b X,
  gundo live (a ++ b) X =
  let '(X1, t1, ok1) := gundo live a X in
  if ok1 then let '(X2, t2, ok2) := gundo live b X1 in (X2, t1 ++ t2, ok2) else (X1, t1, false).
Proof.
  induction a as [|p a IH]; intros b X; cbn [app gundo].
  - destruct (gundo live b X) as [[X2 t2] ok2]. reflexivity.
  - destruct (gupd live (1 - pdu_flags p) (of_pdu p) X) as [[X' c] t].
    destruct (c =? 0); [|reflexivity].
    rewrite IH. destruct (gundo live a X') as [[X1 t1] ok1].
    destruct ok1; [|reflexivity].
    destruct (gundo live b X1) as [[X2 t2] ok2]. now rewrite app_assoc.
Qed.

Lemma gundo_one live p Y X :
  NoDup X -> step_ok X p -> Permutation Y (delta X p) ->
  exists Y2 t2, gundo live [p] Y = (Y2, t2, true) /\ Permutation Y2 X.
Proof.
  intros Hn Hs Hp. cbn [gundo]. unfold gupd.
  destruct Hs as [[Hf Hi]|[Hf Hi]]; unfold delta in Hp; rewrite Hf in *; change (1 - 1) with 0; change (1 - 0) with 1; cbn [Z.eqb Pos.eqb] in *.
  - (* it was announced: withdraw it *)
    assert (M : gmem (of_pdu p) Y = true).
    { apply gmem_In. eapply Permutation_in; [apply Permutation_sym, Hp|]. apply in_or_app. right. now left. }
    rewrite M. cbn [Z.eqb]. eexists _, _. split; [rewrite app_nil_r; reflexivity|].
    eapply Permutation_trans; [apply (Permutation_filter' _ _ _ Hp)|].
    fold (grem (of_pdu p) (X ++ [of_pdu p])). rewrite grem_app, grem_single, app_nil_r, grem_notin by exact Hi.
    apply Permutation_refl.
  - (* it was withdrawn: announce it again *)
    assert (M : gmem (of_pdu p) Y = false).
    { apply gmem_false. intros Hy. eapply Permutation_in in Hy; [|exact Hp]. apply In_grem in Hy. tauto. }
    rewrite M. cbn [Z.eqb]. eexists _, _. split; [rewrite app_nil_r; reflexivity|].
    eapply Permutation_trans; [apply Permutation_app_tail, Hp|]. now apply perm_readd.
Qed.

(* undoing, most recent first, everything that [applies] succeeds and restores the table up to order *)
Lemma gundo_spec live ps : forall X Y,
  NoDup X -> applies ps X -> Permutation Y (fold_left delta ps X) ->
  exists Y2 t2, gundo live (rev ps) Y = (Y2, t2, true) /\ Permutation Y2 X.
Proof.
  induction ps as [|p ps IH]; intros X Y Hn Ha Hp; cbn [rev fold_left] in *.
  - exists Y, []. auto.
  - destruct Ha as [Hs Ha].
    destruct (IH (delta X p) Y (delta_NoDup _ _ Hn Hs) Ha Hp) as (Y1 & t1 & E1 & P1).
    destruct (gundo_one live p Y1 X Hn Hs P1) as (Y2 & t2 & E2 & P2).
    rewrite gundo_app, E1, E2. eexists _, _. split; [reflexivity|exact P2].
Qed.

(* on a shadow table the undo is silent *)
Lemma gundo_shadow_silent d : forall X, snd (fst (gundo false d X)) = [].
Proof.
  induction d as [|p d IH]; intros X; cbn [gundo]; [reflexivity|].
  destruct (gupd false (1 - pdu_flags p) (of_pdu p) X) as [[X1 c] t] eqn:E.
  destruct (c =? 0) eqn:Ec; [|reflexivity].
  apply Z.eqb_eq in Ec.
  assert (t = []) by (destruct (gupd_ok _ _ _ _ _ _ _ E Ec) as [(_ & _ & _ & ->)|(_ & _ & _ & ->)]; reflexivity).
  subst t. specialize (IH X1). destruct (gundo false d X1) as [[X2 t2] ok]. exact IH.
Qed.

(* ---- sources: only records of source 1 are ever touched ---- *)
Lemma own_oth_nil X : own (oth X) = [].
Proof.
  unfold own, oth. induction X as [|x X IH]; cbn [filter]; [reflexivity|].
  destruct (src x =? 1) eqn:E; cbn [negb filter]; [exact IH|]. now rewrite E.
Qed.
Lemma oth_oth X : oth (oth X) = oth X.
Proof.
  unfold oth. induction X as [|x X IH]; cbn [filter]; [reflexivity|].
  destruct (src x =? 1) eqn:E; cbn [negb filter]; [exact IH|]. rewrite E. cbn [negb]. now rewrite IH.
Qed.
Lemma own_own_nil X : own (oth X) = [] /\ oth (own X) = [].
Proof.
  split; [apply own_oth_nil|]. unfold own, oth. induction X as [|x X IH]; cbn [filter]; [reflexivity|].
  destruct (src x =? 1) eqn:E; cbn [negb filter]; [|exact IH]. rewrite E. exact IH.
Qed.

Lemma filter_grem (f : A -> bool) r X : filter f (grem r X) = grem r (filter f X).
Proof.
  unfold grem. induction X as [|x X IH]; cbn [filter]; [reflexivity|].
  destruct (eqb r x) eqn:E, (f x) eqn:F; cbn [negb filter]; rewrite ?E, ?F; cbn [negb]; rewrite ?IH; reflexivity.
Qed.

Lemma oth_grem r X : src r = 1 -> oth (grem r X) = oth X.
Proof.
  intros Hs. unfold oth. rewrite filter_grem. apply grem_notin.
  intros Hi. apply filter_In in Hi. destruct Hi as [_ Hi]. rewrite Hs in Hi. discriminate.
Qed.

Lemma oth_delta X p : oth (delta X p) = oth X.
Proof.
  unfold delta. destruct (pdu_flags p =? 1).
  - unfold oth. rewrite filter_app. cbn [filter]. rewrite src_of_pdu. cbn. apply app_nil_r.
  - apply oth_grem, src_of_pdu.
Qed.
Lemma own_delta X p : own (delta X p) = delta (own X) p.
Proof.
  unfold delta. destruct (pdu_flags p =? 1).
  - unfold own. rewrite filter_app. cbn [filter]. rewrite src_of_pdu. reflexivity.
  - unfold own. apply filter_grem.
Qed.

Lemma oth_fold ps : forall X, oth (fold_left delta ps X) = oth X.
Proof. induction ps as [|p ps IH]; intros X; cbn [fold_left]; [reflexivity|]. now rewrite IH, oth_delta. Qed.
Lemma own_fold ps : forall X, own (fold_left delta ps X) = fold_left delta ps (own X).
Proof. induction ps as [|p ps IH]; intros X; cbn [fold_left]; [reflexivity|]. now rewrite IH, own_delta. Qed.

Lemma oth_perm X Y : Permutation X Y -> Permutation (oth X) (oth Y).
Proof. apply Permutation_filter'. Qed.

(* the loops themselves never touch a record of another source (exact, order included) *)
Lemma gupd_oth live fl p X : oth (fst (fst (gupd live fl (of_pdu p) X))) = oth X.
Proof.
  unfold gupd. destruct (fl =? 1); [|destruct (fl =? 0)]; try destruct (gmem (of_pdu p) X); cbn [fst]; try reflexivity.
  - unfold oth. rewrite filter_app. cbn [filter]. rewrite src_of_pdu. cbn. apply app_nil_r.
  - apply oth_grem, src_of_pdu.
Qed.

Lemma gundo_oth live d : forall X, oth (fst (fst (gundo live d X))) = oth X.
Proof.
  induction d as [|p d IH]; intros X; cbn [gundo]; [reflexivity|].
  pose proof (gupd_oth live (1 - pdu_flags p) p X) as H1.
  destruct (gupd live (1 - pdu_flags p) (of_pdu p) X) as [[X' c] t]. cbn [fst] in H1.
  destruct (c =? 0); [|reflexivity].
  specialize (IH X'). destruct (gundo live d X') as [[X2 t2] ok]. cbn [fst] in *. congruence.
Qed.

Lemma gundo_spec_oth live ps X :
  NoDup X -> applies ps X ->
  exists Y2 t2, gundo live (rev ps) (fold_left delta ps X) = (Y2, t2, true) /\ Permutation Y2 X /\ oth Y2 = oth X.
Proof.
  intros Hn Ha. destruct (gundo_spec live ps X _ Hn Ha (Permutation_refl _)) as (Y2 & t2 & E & P).
  exists Y2, t2. repeat split; auto.
  pose proof (gundo_oth live (rev ps) (fold_left delta ps X)) as H. rewrite E in H. cbn [fst] in H.
  now rewrite H, oth_fold.
Qed.

(* when every PDU is an announcement the announced set is just the list of records *)
Lemma announced_all_flags_1 pdus :
  Forall (fun p => pdu_flags p = 1) pdus -> announced pdus = map of_pdu pdus.
Proof.
  unfold announced, apply_delta.
  assert (G : forall X, Forall (fun p => pdu_flags p = 1) pdus -> fold_left delta pdus X = X ++ map of_pdu pdus).
  { induction pdus as [|p ps IH]; intros X H; cbn [fold_left map]; [now rewrite app_nil_r|].
    inversion H; subst. rewrite IH by assumption. unfold delta.
    match goal with Hf : pdu_flags p = 1 |- _ => rewrite Hf end. cbn [Z.eqb Pos.eqb]. now rewrite <- app_assoc. }
  intros H. now rewrite G.
Qed.

End Gen.

(* ---------- instances ---------- *)
Lemma list_eqb_eq {B} (e : B -> B -> bool) (He : forall a b, e a b = true <-> a = b) :
  forall a b, list_eqb e a b = true <-> a = b.
Proof.
  induction a as [|x a IH]; destruct b as [|y b]; cbn [list_eqb]; try (split; congruence).
  rewrite andb_true_iff, He, IH. split; [intros [-> ->]; reflexivity|intros H; inversion H; auto].
Qed.

Lemma bool_eqb_eq a b : Bool.eqb a b = true <-> a = b.
Proof. destruct a, b; cbn; split; congruence. Qed.

Lemma prec_eqb_eq (a b : prec) : prec_eqb a b = true <-> a = b.
Proof.
  destruct a as [[[[[fa pa] la] ma] aa] sa], b as [[[[[fb pb] lb] mb] ab] sb]. unfold prec_eqb.
  rewrite !andb_true_iff, !Z.eqb_eq, bool_eqb_eq, (list_eqb_eq Bool.eqb bool_eqb_eq).
  split; [intros (((((-> & ->) & ->) & ->) & ->) & ->); reflexivity|intros H; inversion H; auto 10].
Qed.

Lemma krec_eqb_eq (a b : krec) : krec_eqb a b = true <-> a = b.
Proof.
  destruct a as [[[aa ka] pa] sa], b as [[[ab kb] pb] sb]. unfold krec_eqb.
  rewrite !andb_true_iff, !Z.eqb_eq, !(list_eqb_eq Z.eqb Z.eqb_eq).
  split; [intros (((-> & ->) & ->) & ->); reflexivity|intros H; inversion H; auto 10].
Qed.

Lemma psrc_of_pdu p : psrc (prec_of_pdu p) = 1. Proof. reflexivity. Qed.
Lemma ksrc_of_pdu p : ksrc (krec_of_pdu p) = 1. Proof. reflexivity. Qed.

(* the model's loops are the generic ones *)
Lemma upd_pfx_gen live fl r X : upd_pfx live fl r X = gupd prec prec_eqb TPfx live fl r X.
Proof. reflexivity. Qed.
Lemma upd_key_gen live fl r X : upd_key live fl r X = gupd krec krec_eqb TKey live fl r X.
Proof. reflexivity. Qed.

Lemma apply_pfx_gen live ps : forall X d, apply_pfx live ps X d = gapply prec prec_eqb TPfx prec_of_pdu live ps X d.
Proof.
  induction ps as [|p ps IH]; intros X d; cbn [apply_pfx gapply]; [reflexivity|].
  rewrite upd_pfx_gen. destruct (gupd _ _ _ _ _ _ _) as [[X' c] t]. destruct (c =? 0); [|reflexivity]. now rewrite IH.
Qed.
Lemma apply_keys_gen live ps : forall X d, apply_keys live ps X d = gapply krec krec_eqb TKey krec_of_pdu live ps X d.
Proof.
  induction ps as [|p ps IH]; intros X d; cbn [apply_keys gapply]; [reflexivity|].
  rewrite upd_key_gen. destruct (gupd _ _ _ _ _ _ _) as [[X' c] t]. destruct (c =? 0); [|reflexivity]. now rewrite IH.
Qed.
Lemma undo_pfx_gen live d : forall X, undo_pfx live d X = gundo prec prec_eqb TPfx prec_of_pdu live d X.
Proof.
  induction d as [|p d IH]; intros X; cbn [undo_pfx gundo]; [reflexivity|].
  rewrite upd_pfx_gen. destruct (gupd _ _ _ _ _ _ _) as [[X' c] t]. destruct (c =? 0); [|reflexivity]. now rewrite IH.
Qed.
Lemma undo_keys_gen live d : forall X, undo_keys live d X = gundo krec krec_eqb TKey krec_of_pdu live d X.
Proof.
  induction d as [|p d IH]; intros X; cbn [undo_keys gundo]; [reflexivity|].
  rewrite upd_key_gen. destruct (gupd _ _ _ _ _ _ _) as [[X' c] t]. destruct (c =? 0); [|reflexivity]. now rewrite IH.
Qed.

(* ---------- the Spec vocabulary of C03, per table ---------- *)
Notation delta_p := (delta prec prec_eqb prec_of_pdu).
Notation delta_k := (delta krec krec_eqb krec_of_pdu).
Definition apply_delta_p : list prec -> list (list byte) -> list prec := apply_delta prec prec_eqb prec_of_pdu.
Definition apply_delta_k : list krec -> list (list byte) -> list krec := apply_delta krec krec_eqb krec_of_pdu.
Definition announced_p : list (list byte) -> list prec := announced prec prec_eqb prec_of_pdu.
Definition announced_k : list (list byte) -> list krec := announced krec krec_eqb krec_of_pdu.
Definition own_p : list prec -> list prec := own prec psrc.
Definition oth_p : list prec -> list prec := oth prec psrc.
Definition own_k : list krec -> list krec := own krec ksrc.
Definition oth_k : list krec -> list krec := oth krec ksrc.
Notation applies_p := (applies prec prec_eqb prec_of_pdu).
Notation applies_k := (applies krec krec_eqb krec_of_pdu).

(* instance forms *)
Lemma oth_fold_p ps X : oth_p (fold_left delta_p ps X) = oth_p X.
Proof. apply (oth_fold prec prec_eqb prec_eqb_eq prec_of_pdu psrc psrc_of_pdu). Qed.
Lemma oth_fold_k ps X : oth_k (fold_left delta_k ps X) = oth_k X.
Proof. apply (oth_fold krec krec_eqb krec_eqb_eq krec_of_pdu ksrc ksrc_of_pdu). Qed.
Lemma own_fold_p ps X : own_p (fold_left delta_p ps X) = fold_left delta_p ps (own_p X).
Proof. apply (own_fold prec prec_eqb prec_of_pdu psrc psrc_of_pdu). Qed.
Lemma own_fold_k ps X : own_k (fold_left delta_k ps X) = fold_left delta_k ps (own_k X).
Proof. apply (own_fold krec krec_eqb krec_of_pdu ksrc ksrc_of_pdu). Qed.
Lemma gundo_spec_oth_p live ps X :
  NoDup X -> applies_p ps X ->
  exists Y2 t2, undo_pfx live (rev ps) (fold_left delta_p ps X) = (Y2, t2, true) /\ Permutation Y2 X /\ oth_p Y2 = oth_p X.
Proof. rewrite undo_pfx_gen. apply (gundo_spec_oth prec prec_eqb prec_eqb_eq TPfx prec_of_pdu psrc psrc_of_pdu). Qed.
Lemma gundo_spec_oth_k live ps X :
  NoDup X -> applies_k ps X ->
  exists Y2 t2, undo_keys live (rev ps) (fold_left delta_k ps X) = (Y2, t2, true) /\ Permutation Y2 X /\ oth_k Y2 = oth_k X.
Proof. rewrite undo_keys_gen. apply (gundo_spec_oth krec krec_eqb krec_eqb_eq TKey krec_of_pdu ksrc ksrc_of_pdu). Qed.
