(* ConvergeLoop.v - C08: the closed loop.  From every live world that satisfies the invariant, with a transport that
   works and a truthful cache that answers the client's queries and is otherwise silent, the client is synchronised
   after at most 8 iterations of the state machine and within max(refresh_iv, 60 + retry_iv) <= recovery_bound of
   protocol time; the records of other sources are where they were.

   Statement: Rtr/ConvergeProofs.v [C08_converge_full].  As written there it is false (C08_converge_full_false below):
   Inv does not bound refresh_interval from below, and with a negative refresh_interval recovery_bound is negative.
   The repair is ONE added hypothesis, 0 <= refresh_iv (sk w) (C08_converge_full_repaired, proved:
   C08_converge_full_holds); Rtr/RefreshInv.v proves that it holds in every world run_fsm reaches from rtr_init
   (converge_reachable below needs neither Inv nor the added hypothesis).  The theorem actually proved, converge_loop,
   is stronger in every other respect: 8 iterations instead of 16, one entry of the open script instead of 16,
   silence > loop_bound instead of 16 * recovery_bound, time <= loop_bound <= recovery_bound.

   How: reach_sync / one_good_exchange of ConvergeProofs.v speak about run_fsm on a script that already holds the
   answer; here every step lemma is restated for fsm_step with what it keeps (qstep: script, clock, version, the
   client's data and its pointer into the cache's history - or a Reset Query is due), and the iterations are glued with
   [reaches] (run_with_cache n, continuing).  After the first answer has been put on the script the invariant Inv is
   no longer available (env_ok: cache_ok does not promise that data PDUs consist of bytes); Rtr/ConvergeWeak.v has
   the exchange theorems under the part of Inv they use. *)
From Coq Require Import Permutation.
From RtrV Require Import Base.CSem Gen.Generated Rtr.RtrModel Rtr.RelFrame Rtr.ExpiryTac Rtr.SyncSets Rtr.ExpiryFrames
  Rtr.ExpirySync Rtr.ConvergeStutter Rtr.ExpiryProofs Rtr.CacheSpec Rtr.ConvergeRecv Rtr.ConvergeProofs Rtr.ConvergeWeak
  Rtr.RefreshInv.
Local Open Scope Z_scope.

(* ---------- run_with_cache, one iteration at a time ---------- *)
(* the cache's answer to the pending query is put in front of the receive script *)
Definition inject (c : cache) (w1 : world) : world :=
  mkW (sk w1) (pfx w1) (keys w1) (EvData (concat (answer c (pending_query w1))) :: evs w1)
      (opens w1) (sends w1) (now w1) (out w1).

(* n iterations of the closed loop lead from w to w' (and the loop goes on from there) *)
Definition reaches (n fuel : nat) (c : cache) (w w' : world) : Prop :=
  forall m, run_with_cache (n + m) fuel c w = run_with_cache m fuel c w'.

Lemma reaches_refl fuel c w : reaches 0 fuel c w w.
Proof. intros m. reflexivity. Qed.

Lemma reaches_trans n1 n2 fuel c a b d : reaches n1 fuel c a b -> reaches n2 fuel c b d -> reaches (n1 + n2) fuel c a d.
Proof. intros H1 H2 m. rewrite <- Nat.add_assoc, H1, H2. reflexivity. Qed.

Lemma reaches_final n fuel c w w' : reaches n fuel c w w' -> run_with_cache n fuel c w = w'.
Proof. intros H. specialize (H 0%nat). rewrite Nat.add_0_r in H. exact H. Qed.

Lemma rwc_S n fuel c w w1 : fsm_step fuel w = Ok tt w1 ->
  run_with_cache (S n) fuel c w =
  run_with_cache n fuel c (if negb (st (sk w) =? c_RTR_SYNC) && (st (sk w1) =? c_RTR_SYNC) then inject c w1 else w1).
Proof. intros E. cbn [run_with_cache]. rewrite E. reflexivity. Qed.

(* an iteration that starts in SYNC, or does not end there: nothing is injected *)
Lemma step_plain fuel c w w1 : fsm_step fuel w = Ok tt w1 ->
  st (sk w) = c_RTR_SYNC \/ st (sk w1) <> c_RTR_SYNC -> reaches 1 fuel c w w1.
Proof.
  intros E H m. change (1 + m)%nat with (S m). rewrite (rwc_S _ _ _ _ _ E).
  destruct H as [H|H]; [rewrite H, Z.eqb_refl; reflexivity|].
  apply Z.eqb_neq in H. rewrite H, andb_false_r. reflexivity.
Qed.

(* an iteration that enters SYNC (a query has just been sent): the cache answers *)
Lemma step_enter fuel c w w1 : fsm_step fuel w = Ok tt w1 ->
  st (sk w) <> c_RTR_SYNC -> st (sk w1) = c_RTR_SYNC -> reaches 1 fuel c w (inject c w1).
Proof.
  intros E H0 H1 m. change (1 + m)%nat with (S m). rewrite (rwc_S _ _ _ _ _ E).
  apply Z.eqb_neq in H0. rewrite H0, H1, Z.eqb_refl. reflexivity.
Qed.

(* ---------- what the steps that do not receive keep ---------- *)
(* the client's data and its pointer into the cache's history are untouched, or a Reset Query is due *)
Definition dkeep (w w1 : world) : Prop :=
  req_sess (sk w1) = true \/
  (req_sess (sk w1) = req_sess (sk w) /\ session_id (sk w1) = session_id (sk w) /\ serial (sk w1) = serial (sk w) /\
   pfx w1 = pfx w /\ keys w1 = keys w).

Definition qstep (t : Z) (w w1 : world) : Prop :=
  evs w1 = evs w /\ sends w1 = sends w /\ now w1 = now w + t /\ version (sk w1) = version (sk w) /\
  retry_iv (sk w1) = retry_iv (sk w) /\ dkeep w w1 /\ oth_p (pfx w1) = oth_p (pfx w) /\ oth_k (keys w1) = oth_k (keys w).

Lemma dkeep_trans a b d : dkeep a b -> dkeep b d -> dkeep a d.
Proof.
  unfold dkeep. intros H1 [H2|(B1 & B2 & B3 & B4 & B5)]; [left; exact H2|].
  destruct H1 as [H1|(A1 & A2 & A3 & A4 & A5)]; [left; congruence|].
  right. repeat split; congruence.
Qed.

Lemma qstep_trans t1 t2 a b d : qstep t1 a b -> qstep t2 b d -> qstep (t1 + t2) a d.
Proof.
  unfold qstep. intros (A1 & A2 & A3 & A4 & A5 & A6 & A7 & A8) (B1 & B2 & B3 & B4 & B5 & B6 & B7 & B8).
  split; [congruence|]. split; [congruence|]. split; [lia|]. split; [congruence|]. split; [congruence|].
  split; [eapply dkeep_trans; eauto|]. split; congruence.
Qed.

Lemma qstep_trans0 a b d : qstep 0 a b -> qstep 0 b d -> qstep 0 a d.
Proof. intros H1 H2. replace 0 with (0 + 0) by reflexivity. eapply qstep_trans; eauto. Qed.

Lemma snapshot_dkeep c w w1 : snapshot_hyp c w -> dkeep w w1 -> snapshot_hyp c w1.
Proof.
  unfold snapshot_hyp, snapshot. intros H [Hk|(K1 & K2 & K3 & K4 & K5)] old Hq Hs Hl; [congruence|].
  rewrite K4, K5. apply H; congruence.
Qed.

Lemma dkeep_core w w1 : core (sk w1) = core (sk w) -> pfx w1 = pfx w -> keys w1 = keys w -> dkeep w w1.
Proof.
  intros Hc HP HK. destruct (core_fields _ _ Hc) as (_ & F2 & F3 & F4 & _). right. auto.
Qed.

(* ---------- the quiet steps again, saying what they keep ---------- *)
Ltac qfin :=
  unfold qstep, dkeep;
  cbn [sk pfx keys evs opens sends now with_sk with_out st version retry_iv session_id serial req_sess
       upd_st upd_hasrecv upd_resetting upd_last upd_serial upd_req];
  rewrite ?Z.add_0_r, ?oth_oth_p, ?oth_oth_k;
  repeat match goal with
         | |- _ /\ _ => split
         | |- _ = _ => reflexivity
         | |- true = true \/ _ => left; reflexivity
         | |- _ \/ (_ /\ _) => right
         end.

Lemma err_step_s f w : st (sk w) = c_RTR_ERROR_TRANSPORT \/ st (sk w) = c_RTR_ERROR_FATAL ->
  exists w1, fsm_step f w = Ok tt w1 /\ st (sk w1) = c_RTR_CONNECTING /\ opens w1 = opens w /\ qstep (retry_iv (sk w)) w w1.
Proof.
  intros Hst. unfold fsm_step. rewrite (bind_eq get_sk _ w (sk w) w eq_refl). cbv zeta.
  assert (Hc : exists w1, (mdo _ <- tr_close; mdo _ <- change_state c_RTR_CONNECTING; do_sleep (retry_iv (sk w))) w = Ok tt w1 /\
            st (sk w1) = c_RTR_CONNECTING /\ opens w1 = opens w /\ qstep (retry_iv (sk w)) w w1).
  { unfold tr_close. rewrite (bind_eq (emit TClose) _ w tt (with_out w (TClose :: out w)) eq_refl).
    rewrite (bind_eq _ _ _ _ _ (change_state_eq' _ _)). unfold state_changed, do_sleep. cbn [sk with_out].
    destruct Hst as [-> | ->]; const_dec; (eexists; split; [reflexivity|]); qfin. }
  destruct Hst as [H|H]; rewrite H; const_dec; exact Hc.
Qed.

Lemma fast_step_s f w : st (sk w) = c_RTR_FAST_RECONNECT ->
  exists w1, fsm_step f w = Ok tt w1 /\ st (sk w1) = c_RTR_CONNECTING /\ opens w1 = opens w /\ qstep 0 w w1.
Proof.
  intros Hst. unfold fsm_step. rewrite (bind_eq get_sk _ w (sk w) w eq_refl). cbv zeta. rewrite Hst. const_dec.
  unfold tr_close. rewrite (bind_eq (emit TClose) _ w tt (with_out w (TClose :: out w)) eq_refl).
  rewrite change_state_eq'. unfold state_changed. cbn [sk with_out]. rewrite Hst. const_dec.
  eexists. split; [reflexivity|]. qfin.
Qed.

Lemma no_data_step_s f w : st (sk w) = c_RTR_ERROR_NO_DATA_AVAIL ->
  exists w1, fsm_step f w = Ok tt w1 /\ st (sk w1) = c_RTR_RESET /\ opens w1 = opens w /\ qstep (retry_iv (sk w)) w w1.
Proof.
  intros Hst. unfold fsm_step. rewrite (bind_eq get_sk _ w (sk w) w eq_refl). cbv zeta. rewrite Hst. const_dec.
  rewrite (bind_eq (set_sk _) _ w tt (with_sk w (upd_serial (upd_req (sk w) true) 0)) eq_refl).
  rewrite (bind_eq _ _ _ _ _ (change_state_eq' _ _)). unfold do_sleep at 1.
  match goal with |- exists _, bind ?m _ ?x = _ /\ _ => rewrite (bind_eq m _ x tt _ eq_refl) end.
  rewrite purge_outdated_eq'.
  unfold state_changed. cbn [sk with_sk st upd_serial upd_req]. rewrite Hst. const_dec.
  match goal with |- exists _, Ok tt (if expired ?x then _ else _) = _ /\ _ => set (w1 := x) end.
  exists (if expired w1 then purged w1 else w1). split; [reflexivity|].
  destruct (expired w1); unfold purged, removed, with_sk; subst w1; qfin.
Qed.

(* NO_INCR: also used after the cache's answer has been put on the script, hence the weak invariant *)
Lemma no_incr_step_s f w : st (sk w) = c_RTR_ERROR_NO_INCR_UPDATE_AVAIL ->
  exists w1, fsm_step f w = Ok tt w1 /\ st (sk w1) = c_RTR_RESET /\ req_sess (sk w1) = true /\ opens w1 = opens w /\
             qstep 0 w w1 /\ (WInv w -> WInv w1).
Proof.
  intros Hst. unfold fsm_step. rewrite (bind_eq get_sk _ w (sk w) w eq_refl). cbv zeta. rewrite Hst. const_dec.
  rewrite (bind_eq (set_sk _) _ w tt (with_sk w (upd_serial (upd_req (sk w) true) 0)) eq_refl).
  rewrite (bind_eq _ _ _ _ _ (change_state_eq' _ _)). rewrite purge_outdated_eq'.
  unfold state_changed. cbn [sk with_sk st upd_serial upd_req]. rewrite Hst. const_dec.
  match goal with |- exists _, Ok tt (if expired ?x then _ else _) = _ /\ _ => set (w1 := x) end.
  exists (if expired w1 then purged w1 else w1). split; [reflexivity|].
  destruct (expired w1); unfold purged, removed, with_sk; subst w1.
  - qfin. intros (A & B & _ & _). unfold WInv, no_data.
    cbn [sk pfx keys with_sk with_out last_update req_sess resetting upd_st upd_resetting upd_last upd_serial upd_req].
    split; [apply NoDup_oth_p, A|]. split; [apply NoDup_oth_k, B|]. split; [intros _; split; [apply own_oth_p|apply own_oth_k]|discriminate].
  - qfin. intros (A & B & C & _). unfold WInv, no_data in *.
    cbn [sk pfx keys with_sk with_out last_update req_sess resetting upd_st upd_resetting upd_last upd_serial upd_req].
    split; [exact A|]. split; [exact B|]. split; [exact C|discriminate].
Qed.

Lemma connecting_step_s f w os : st (sk w) = c_RTR_CONNECTING -> opens w = true :: os -> sends w = [] ->
  exists w1, fsm_step f w = Ok tt w1 /\ (st (sk w1) = c_RTR_RESET \/ st (sk w1) = c_RTR_SYNC) /\ opens w1 = os /\ qstep 0 w w1.
Proof.
  intros Hst Ho Hs. destruct (expire_at_connect f w Hst) as (E & _). rewrite E.
  set (wo := at_open w).
  assert (Fo : opens wo = true :: os /\ sends wo = [] /\ st (sk wo) = c_RTR_CONNECTING /\ qstep 0 w wo).
  { subst wo. unfold at_open. set (w0 := with_sk w _).
    destruct (expired w0); unfold purged, removed, with_sk; subst w0;
      (split; [exact Ho|]); (split; [exact Hs|]); (split; [exact Hst|]); qfin. }
  destruct Fo as (Fo1 & Fo2 & Fo3 & Fo4).
  destruct (req_sess (sk wo)) eqn:Eq.
  - unfold connect_rest, tr_open. unfold bind at 1. rewrite Fo1. cbn [negb].
    rewrite (bind_eq get_sk _ _ _ _ eq_refl). cbn [sk]. rewrite Eq, change_state_eq'. unfold state_changed. cbn [sk]. rewrite Fo3. const_dec.
    eexists. split; [reflexivity|]. split; [left; reflexivity|]. split; [reflexivity|].
    eapply qstep_trans0; [exact Fo4|]. qfin.
  - (* Serial Query *)
    set (w1 := mkW (sk wo) (pfx wo) (keys wo) (evs wo) os (sends wo) (now wo) (TOpen true (now wo) :: out wo)).
    assert (Hns : st (sk w1) <> c_RTR_SHUTDOWN) by (subst w1; cbn [sk]; rewrite Fo3; discriminate).
    assert (Hq : send_serial_query w1 = Ok 0 (with_out w1 (TSend (serial_query_bytes (sk w1)) :: out w1))).
    { unfold send_serial_query. rewrite (bind_eq get_sk _ w1 (sk w1) w1 eq_refl). fold (serial_query_bytes (sk w1)).
      rewrite (bind_eq _ _ _ _ _ (send_pdu_whole (serial_query_bytes (sk w1)) w1 Hns Fo2
                                   ltac:(unfold zlen; cbn [serial_query_bytes List.length app enc16 enc32]; lia))).
      reflexivity. }
    unfold connect_rest, tr_open. unfold bind at 1. rewrite Fo1. cbn [negb]. fold w1.
    rewrite (bind_eq get_sk _ w1 (sk w1) w1 eq_refl). replace (req_sess (sk w1)) with false by (symmetry; exact Eq).
    rewrite (bind_eq _ _ _ _ _ Hq). cbn [Z.eqb]. rewrite change_state_eq'. unfold state_changed. cbn [sk with_out].
    replace (st (sk w1)) with c_RTR_CONNECTING by (symmetry; exact Fo3). const_dec.
    eexists. split; [reflexivity|]. split; [right; reflexivity|]. split; [reflexivity|].
    eapply qstep_trans0; [exact Fo4|]. subst w1. qfin.
Qed.

Lemma reset_step_s f w : st (sk w) = c_RTR_RESET -> sends w = [] ->
  exists w1, fsm_step f w = Ok tt w1 /\ st (sk w1) = c_RTR_SYNC /\ opens w1 = opens w /\ qstep 0 w w1 /\
             core (sk w1) = core (sk w) /\ pfx w1 = pfx w /\ keys w1 = keys w.
Proof.
  intros Hst Hs. destruct (reset_step f w Hst Hs) as (w3 & E & A1 & A2 & A3 & A4 & A5 & A6 & A7 & A8 & A9 & _).
  exists w3. split; [exact E|]. split; [exact A1|]. split; [exact A7|].
  destruct (core_fields _ _ A2) as (V & _ & _ & _ & _ & _ & R & _).
  split; [|auto]. unfold qstep. rewrite Z.add_0_r, A8, Hs.
  split; [exact A6|]. split; [reflexivity|]. split; [exact A9|]. split; [exact V|]. split; [exact R|].
  split; [apply dkeep_core; assumption|]. rewrite A4, A5. auto.
Qed.

(* ---------- every error / reconnect state: back in SYNC, with the query sent and the answer on its way ---------- *)
(* w1 is the world in which SYNC is entered, before the cache's answer is put on the script *)
Definition arrives (t : Z) (w w1 : world) : Prop :=
  st (sk w1) = c_RTR_SYNC /\ Inv w1 /\ qstep t w w1.

Theorem reach_sync_loop f c w os : Inv w -> recovering (st (sk w)) -> opens w = true :: os -> sends w = [] ->
  exists n t w1, (n <= 3)%nat /\ (t = 0 \/ t = retry_iv (sk w)) /\ reaches n f c w (inject c w1) /\ arrives t w w1.
Proof.
  intros HI Hrec Ho Hs.
  assert (FromReset : forall w0, Inv w0 -> st (sk w0) = c_RTR_RESET -> sends w0 = [] ->
            exists w1, reaches 1 f c w0 (inject c w1) /\ arrives 0 w0 w1).
  { intros w0 HI0 Hst0 Hs0. destruct (reset_step_s f w0 Hst0 Hs0) as (w1 & E1 & S1 & _ & Q1 & _).
    exists w1. split; [apply step_enter; [exact E1|rewrite Hst0; discriminate|exact S1]|].
    split; [exact S1|]. split; [eapply Inv_step; eauto|exact Q1]. }
  assert (FromConn : forall w0, Inv w0 -> st (sk w0) = c_RTR_CONNECTING -> opens w0 = true :: os -> sends w0 = [] ->
            exists n w1, (n <= 2)%nat /\ reaches n f c w0 (inject c w1) /\ arrives 0 w0 w1).
  { intros w0 HI0 Hst0 Ho0 Hs0. destruct (connecting_step_s f w0 os Hst0 Ho0 Hs0) as (w1 & E1 & [S1|S1] & _ & Q1).
    - pose proof (Inv_step _ _ _ _ HI0 E1) as HI1.
      destruct (FromReset w1 HI1 S1 ltac:(destruct Q1 as (_ & -> & _); exact Hs0)) as (w2 & R2 & A1 & A2 & A3).
      exists 2%nat, w2. split; [lia|]. split.
      + change 2%nat with (1 + 1)%nat. eapply reaches_trans; [|exact R2].
        apply step_plain; [exact E1|right; rewrite S1; discriminate].
      + split; [exact A1|]. split; [exact A2|eapply qstep_trans0; eauto].
    - exists 1%nat, w1. split; [lia|]. split; [apply step_enter; [exact E1|rewrite Hst0; discriminate|exact S1]|].
      split; [exact S1|]. split; [eapply Inv_step; eauto|exact Q1]. }
  destruct Hrec as [H|[H|[H|[H|[H|H]]]]].
  - destruct (FromConn w HI H Ho Hs) as (n & w1 & Hn & R & A). exists n, 0, w1. split; [lia|]. split; [left; reflexivity|]. auto.
  - destruct (FromReset w HI H Hs) as (w1 & R & A). exists 1%nat, 0, w1. split; [lia|]. split; [left; reflexivity|]. auto.
  - destruct (fast_step_s f w H) as (w1 & E1 & S1 & O1 & Q1). pose proof (Inv_step _ _ _ _ HI E1) as HI1.
    destruct (FromConn w1 HI1 S1 ltac:(rewrite O1; exact Ho) ltac:(destruct Q1 as (_ & -> & _); exact Hs)) as (n & w2 & Hn & R & A1 & A2 & A3).
    exists (S n), 0, w2. split; [lia|]. split; [left; reflexivity|]. split.
    + change (S n) with (1 + n)%nat. eapply reaches_trans; [|exact R]. apply step_plain; [exact E1|right; rewrite S1; discriminate].
    + split; [exact A1|]. split; [exact A2|eapply qstep_trans0; eauto].
  - destruct (no_data_step_s f w H) as (w1 & E1 & S1 & O1 & Q1). pose proof (Inv_step _ _ _ _ HI E1) as HI1.
    destruct (FromReset w1 HI1 S1 ltac:(destruct Q1 as (_ & -> & _); exact Hs)) as (w2 & R & A1 & A2 & A3).
    exists 2%nat, (retry_iv (sk w)), w2. split; [lia|]. split; [right; reflexivity|]. split.
    + change 2%nat with (1 + 1)%nat. eapply reaches_trans; [|exact R]. apply step_plain; [exact E1|right; rewrite S1; discriminate].
    + split; [exact A1|]. split; [exact A2|]. replace (retry_iv (sk w)) with (retry_iv (sk w) + 0) by lia. eapply qstep_trans; eauto.
  - destruct (no_incr_step_s f w H) as (w1 & E1 & S1 & _ & O1 & Q1 & _). pose proof (Inv_step _ _ _ _ HI E1) as HI1.
    destruct (FromReset w1 HI1 S1 ltac:(destruct Q1 as (_ & -> & _); exact Hs)) as (w2 & R & A1 & A2 & A3).
    exists 2%nat, 0, w2. split; [lia|]. split; [left; reflexivity|]. split.
    + change 2%nat with (1 + 1)%nat. eapply reaches_trans; [|exact R]. apply step_plain; [exact E1|right; rewrite S1; discriminate].
    + split; [exact A1|]. split; [exact A2|eapply qstep_trans0; eauto].
  - destruct (err_step_s f w H) as (w1 & E1 & S1 & O1 & Q1). pose proof (Inv_step _ _ _ _ HI E1) as HI1.
    destruct (FromConn w1 HI1 S1 ltac:(rewrite O1; exact Ho) ltac:(destruct Q1 as (_ & -> & _); exact Hs)) as (n & w2 & Hn & R & A1 & A2 & A3).
    exists (S n), (retry_iv (sk w)), w2. split; [lia|]. split; [right; reflexivity|]. split.
    + change (S n) with (1 + n)%nat. eapply reaches_trans; [|exact R]. apply step_plain; [exact E1|right; rewrite S1; discriminate].
    + split; [exact A1|]. split; [exact A2|]. replace (retry_iv (sk w)) with (retry_iv (sk w) + 0) by lia. eapply qstep_trans; eauto.
Qed.

(* ---------- in SYNC with the answer on the script: synchronised after 1 or 4 iterations, no time passes ---------- *)
Lemma delivers_inject X tl : delivers (EvData X :: tl) (X ++ []) tl.
Proof. exists [X]. split; reflexivity. Qed.

(* the same in front of a script from which everything has been read *)
Lemma delivers_inject_more X es tl : delivers es [] tl -> delivers (EvData X :: es) (X ++ []) tl.
Proof. intros (chunks & -> & Hc). exists (X :: chunks). split; [reflexivity|]. cbn [concat]. rewrite Hc. reflexivity. Qed.

Lemma not_served_answer c w : served c (pending_query w) = false ->
  req_sess (sk w) = false /\ concat (answer c (pending_query w)) = cache_reset_pdu c ++ [].
Proof.
  unfold pending_query. destruct (req_sess (sk w)); cbn [served]; [discriminate|]. intros H. split; [reflexivity|].
  unfold answer. destruct (session_id (sk w) =? c_session c); [|reflexivity].
  destruct (lookup (serial (sk w)) (c_hist c)); [discriminate|reflexivity].
Qed.

Theorem answered f c w1 :
  cache_ok c -> st (sk w1) = c_RTR_SYNC -> WInv w1 -> version (sk w1) = c_ver c -> snapshot_hyp c w1 -> sends w1 = [] ->
  (List.length (c_data c) < f)%nat -> (forall k old, In (k, old) (c_hist c) -> (List.length (delta_pdus old (c_data c)) < f)%nat) ->
  exists n w', (n <= 4)%nat /\ reaches n (S f) c (inject c w1) w' /\ synced c w1 w'.
Proof.
  intros Hc Hst HW Hv Hsn Hs Hf Hfd.
  set (wi := inject c w1).
  assert (HWi : WInv wi) by exact HW.
  assert (Hsti : st (sk wi) = c_RTR_SYNC) by exact Hst.
  assert (Hvi : version (sk wi) = c_ver c) by exact Hv.
  assert (Hd : delivers (evs wi) (concat (answer c (pending_query w1)) ++ []) (evs w1)) by apply delivers_inject.
  destruct (served c (pending_query w1)) eqn:Esv.
  - (* the cache serves the query: one iteration *)
    unfold pending_query in Hd, Esv. destruct (req_sess (sk w1)) eqn:Eq.
    + destruct (good_reset_exchange_w f wi c [] (evs w1) HWi Hsti Eq Hvi Hc Hd Hf)
        as (w' & E & R1 & R2 & R3 & R4 & R5 & R6 & R7 & R8 & R9 & R10 & R11 & R12 & _).
      exists 1%nat, w'. split; [lia|]. split; [apply step_plain; [exact E|left; exact Hsti]|].
      unfold synced. auto 12.
    + cbn [served] in Esv. apply andb_true_iff in Esv. destruct Esv as [Es El]. apply Z.eqb_eq in Es.
      destruct (lookup (serial (sk w1)) (c_hist c)) as [old|] eqn:Elk; [|discriminate].
      destruct (good_serial_exchange_w f wi c old [] (evs w1) HWi Hsti Eq Hvi Hc Es Elk (Hsn old Eq Es Elk) Hd (Hfd _ _ (lookup_In _ _ _ Elk)))
        as (w' & E & R1 & R2 & R3 & R4 & R5 & R6 & R7 & R8 & R9 & R10 & R11 & R12 & _).
      exists 1%nat, w'. split; [lia|]. split; [apply step_plain; [exact E|left; exact Hsti]|].
      unfold synced. auto 12.
  - (* Cache Reset; NO_INCR; RESET; the Reset Query is answered *)
    destruct (not_served_answer c w1 Esv) as (Eq & Ea). rewrite Ea, app_nil_r in Hd.
    pose proof Hc as (Cv & _).
    destruct (sync_cache_reset f wi c [] (evs w1) Hsti Hvi Cv Hd) as (w2 & E2 & T2 & C2 & P2 & K2 & O2 & N2 & M2 & D2).
    assert (HW2 : WInv w2) by (eapply WInv_core; eauto).
    destruct (no_incr_step_s (S f) w2 T2) as (w3 & E3 & T3 & Q3 & O3 & (Ev3 & N3 & M3 & V3 & _ & _ & OP3 & OK3) & HW3). specialize (HW3 HW2).
    rewrite Z.add_0_r in M3.
    destruct (reset_step_s (S f) w3 T3 ltac:(rewrite N3, N2; exact Hs)) as (w4 & E4 & T4 & O4 & (Ev4 & N4 & M4 & V4 & _ & _ & OP4 & OK4) & C4 & P4 & K4).
    rewrite Z.add_0_r in M4.
    destruct (core_fields _ _ C2) as (F1 & _). destruct (core_fields _ _ C4) as (_ & _ & G3 & _).
    set (w5 := inject c w4).
    assert (HW5 : WInv w5) by (eapply WInv_core; [exact C4|exact P4|exact K4|exact HW3]).
    assert (Hq5 : req_sess (sk w5) = true) by (change (req_sess (sk w4) = true); rewrite G3; exact Q3).
    assert (Hv5 : version (sk w5) = c_ver c) by (change (version (sk w4) = c_ver c); rewrite V4, V3, F1; exact Hv).
    assert (Hd5 : delivers (evs w5) (concat (answer c QReset) ++ []) (evs w1)).
    { subst w5. unfold inject. cbn [evs]. unfold pending_query. rewrite G3, Q3.
      apply delivers_inject_more. rewrite Ev4, Ev3. exact D2. }
    destruct (good_reset_exchange_w f w5 c [] (evs w1) HW5 T4 Hq5 Hv5 Hc Hd5 Hf)
      as (w' & E5 & R1 & R2 & R3 & R4 & R5 & R6 & R7 & R8 & R9 & R10 & R11 & R12 & _).
    exists 4%nat, w'. split; [lia|]. split.
    + change 4%nat with (1 + (1 + (1 + 1)))%nat.
      eapply reaches_trans; [apply step_plain; [exact E2|left; exact Hsti]|].
      eapply reaches_trans; [apply step_plain; [exact E3|right; rewrite T3; discriminate]|].
      eapply reaches_trans; [apply step_enter; [exact E4|rewrite T3; discriminate|exact T4]|].
      apply step_plain; [exact E5|left; exact T4].
    + unfold synced. change (now w5) with (now w4) in R9, R10. rewrite M4, M3, M2 in R9, R10. change (now wi) with (now w1) in R9, R10.
      change (pfx w5) with (pfx w4) in R4. change (keys w5) with (keys w4) in R5.
      rewrite OP4, OP3, P2 in R4. rewrite OK4, OK3, K2 in R5. change (pfx wi) with (pfx w1) in R4. change (keys wi) with (keys w1) in R5.
      auto 12.
Qed.

(* ---------- the closed loop from every live world ---------- *)
Lemma live_cases w : live w ->
  st (sk w) = c_RTR_ESTABLISHED \/ st (sk w) = c_RTR_SYNC \/ recovering (st (sk w)).
Proof. unfold live, live_b, recovering. rewrite !orb_true_iff, !Z.eqb_eq. tauto. Qed.

Lemma opens_head w : (forall k, nth k (opens w) true = true) -> (1 <= List.length (opens w))%nat -> exists os, opens w = true :: os.
Proof.
  intros Hn Hl. destruct (opens w) as [|b os]; [cbn in Hl; lia|]. specialize (Hn 0%nat). cbn in Hn. subst b. eauto.
Qed.

(* what is claimed at the end: synchronised at this very moment, in time, records of other sources as they were *)
Definition converged (c : cache) (B : Z) (w w' : world) : Prop :=
  synced c w' w' /\ now w' - now w <= B /\ oth_p (pfx w') = oth_p (pfx w) /\ oth_k (keys w') = oth_k (keys w).

Lemma finish c w w1 w' t B : synced c w1 w' -> now w1 = now w + t -> t <= B ->
  oth_p (pfx w1) = oth_p (pfx w) -> oth_k (keys w1) = oth_k (keys w) -> converged c B w w'.
Proof.
  intros (S1 & S2 & S3 & S4 & S5 & S6 & S7 & S8 & S9 & S10) Hn Ht HP HK. unfold converged, synced.
  split; [rewrite S10; auto 12|]. split; [lia|]. split; congruence.
Qed.

(* the worst cases: the refresh timer (from ESTABLISHED), or the receive timeout and one retry sleep (from SYNC) *)
Definition loop_bound (s : sock) : Z := Z.max (refresh_iv s) (c_RTR_RECV_TIMEOUT + retry_iv s).

Theorem converge_loop (c : cache) (f : nat) (w : world) (silence : Z) :
  cache_ok c -> Inv w -> live w -> version (sk w) = c_ver c -> snapshot_hyp c w ->
  (List.length (c_data c) < f)%nat -> (forall k old, In (k, old) (c_hist c) -> (List.length (delta_pdus old (c_data c)) < f)%nat) ->
  0 <= refresh_iv (sk w) ->
  (forall k, nth k (opens w) true = true) -> (1 <= List.length (opens w))%nat -> sends w = [] ->
  evs w = [EvWait silence] -> loop_bound (sk w) < silence ->
  exists n, (n <= 8)%nat /\ converged c (loop_bound (sk w)) w (run_with_cache n (S f) c w).
Proof.
  intros Hc HI Hl Hv Hsn Hf Hfd Hrf Hon Hol Hs Hev Hsil.
  destruct (opens_head w Hon Hol) as (os & Ho).
  pose proof HI as ((_ & Tr & _ & Tl & _) & _).
  unfold loop_bound in *. change c_RTR_RECV_TIMEOUT with 60 in *.
  destruct (live_cases w Hl) as [Hst|[Hst|Hrec]].
  - (* ESTABLISHED: the refresh timer runs out, the Serial Query is sent *)
    pose proof (established_quiet (S f) w silence [] Hst Hs) as Hq. cbv zeta in Hq.
    set (wait := Z.max 0 (last_update (sk w) + refresh_iv (sk w) - now w)) in *.
    assert (Hw : wait <= refresh_iv (sk w)) by (subst wait; lia).
    destruct (Hq Hev ltac:(lia)) as (w1 & E1 & S1 & N1 & O1 & M1 & P1 & K1 & C1 & Ev1).
    destruct (core_fields _ _ C1) as (F1 & _).
    destruct (answered f c w1 Hc S1 ltac:(eapply WInv_core; [exact C1|exact P1|exact K1|apply Inv_WInv, HI])
                ltac:(rewrite F1; exact Hv) ltac:(eapply snapshot_dkeep; [exact Hsn|apply dkeep_core; assumption]) M1 Hf Hfd)
      as (n2 & w' & Hn2 & R2 & Sy).
    exists (1 + n2)%nat. split; [lia|].
    rewrite (reaches_final _ _ _ _ _ (reaches_trans _ _ _ _ _ _ _ (step_enter _ c _ _ E1 ltac:(rewrite Hst; discriminate) S1) R2)).
    eapply finish; [exact Sy|exact N1|lia|rewrite P1; reflexivity|rewrite K1; reflexivity].
  - (* SYNC, nothing comes: receive timeout, ERROR_TRANSPORT, reconnect *)
    destruct (sync_quiet f w silence [] Hst Hev ltac:(change c_RTR_RECV_TIMEOUT with 60; lia))
      as (w1 & E1 & S1 & N1 & O1 & M1 & P1 & K1 & C1 & Ev1).
    change c_RTR_RECV_TIMEOUT with 60 in N1.
    pose proof (Inv_step _ _ _ _ HI E1) as HI1.
    destruct (core_fields _ _ C1) as (F1 & _ & _ & _ & _ & _ & F7 & _).
    destruct (reach_sync_loop (S f) c w1 os HI1 ltac:(unfold recovering; rewrite S1; tauto) ltac:(rewrite O1; exact Ho) ltac:(rewrite M1; exact Hs))
      as (n1 & t & w2 & Hn1 & Ht & R1 & (S2 & I2 & (Ev2 & M2 & N2 & V2 & _ & D2 & OP2 & OK2))).
    destruct (answered f c w2 Hc S2 (Inv_WInv _ I2) ltac:(rewrite V2, F1; exact Hv)
                ltac:(eapply snapshot_dkeep; [|exact D2]; eapply snapshot_dkeep; [exact Hsn|apply dkeep_core; assumption])
                ltac:(rewrite M2, M1; exact Hs) Hf Hfd)
      as (n2 & w' & Hn2 & R2 & Sy).
    exists (1 + (n1 + n2))%nat. split; [lia|].
    rewrite (reaches_final _ _ _ _ _ (reaches_trans _ _ _ _ _ _ _ (step_plain _ c _ _ E1 (or_introl Hst)) (reaches_trans _ _ _ _ _ _ _ R1 R2))).
    eapply (finish c w w2 w' (60 + t)); [exact Sy|lia|rewrite F7 in Ht; lia|rewrite OP2, P1; reflexivity|rewrite OK2, K1; reflexivity].
  - (* an error / reconnect state *)
    destruct (reach_sync_loop (S f) c w os HI Hrec Ho Hs)
      as (n1 & t & w2 & Hn1 & Ht & R1 & (S2 & I2 & (Ev2 & M2 & N2 & V2 & _ & D2 & OP2 & OK2))).
    destruct (answered f c w2 Hc S2 (Inv_WInv _ I2) ltac:(rewrite V2; exact Hv) ltac:(eapply snapshot_dkeep; eauto)
                ltac:(rewrite M2; exact Hs) Hf Hfd)
      as (n2 & w' & Hn2 & R2 & Sy).
    exists (n1 + n2)%nat. split; [lia|].
    rewrite (reaches_final _ _ _ _ _ (reaches_trans _ _ _ _ _ _ _ R1 R2)).
    eapply (finish c w w2 w' t); [exact Sy|exact N2|lia|exact OP2|exact OK2].
Qed.

(* ---------- C08_converge_full ---------- *)
(* As written in Rtr/ConvergeProofs.v the statement is FALSE: the invariant Inv says nothing about refresh_interval
   (Tm keeps 0 <= retry_interval only), so a world with a negative refresh_interval satisfies all hypotheses while
   recovery_bound is negative - and the clock never runs backwards.  A witness, by computation: *)
Definition cx_w : world :=
  start_world (-1000) 7200 600 0 [] [] [EvWait 1] (repeat true 16) [] [].

Lemma all_true_16 k : nth k (repeat true 16) true = true.
Proof. cbn [repeat]. do 16 (destruct k as [|k]; [reflexivity|]). destruct k; reflexivity. Qed.

Lemma ex_cache_sizes : (List.length (c_data ex_cache) < 3)%nat /\
  (forall k old, In (k, old) (c_hist ex_cache) -> (List.length (delta_pdus old (c_data ex_cache)) < 3)%nat).
Proof. split; [vm_compute; lia|]. intros k old [E|[]]. inversion E; subst. vm_compute. lia. Qed.

Theorem C08_converge_full_false : ~ C08_converge_full.
Proof.
  intros H.
  assert (HI : Inv cx_w).
  { apply Inv_start; try (constructor; fail); try reflexivity; [lia|]. constructor; [cbn [ev_ok]; lia|constructor]. }
  destruct (H ex_cache 3%nat cx_w 1 ex_cache_ok HI eq_refl eq_refl) as (n & Hn & _ & Ht).
  - intros old Hq. discriminate Hq.
  - apply ex_cache_sizes.
  - apply ex_cache_sizes.
  - exact all_true_16.
  - cbn. lia.
  - reflexivity.
  - reflexivity.
  - vm_compute. reflexivity.
  - do 17 (destruct n as [|n]; [vm_compute in Ht; exact (Ht eq_refl)|]). lia.
Qed.

(* The repair: the hypothesis 0 <= refresh_iv (sk w).  It holds in every world the client can be in: rtr_init accepts
   refresh_interval in [1, 86400] only (init_ok) and the only assignment (apply_eod_intervals) stores a 32-bit field
   of a received PDU, a bound of the range, or the old value: Rtr/RefreshInv.v run_fsm_refresh / reachable_refresh.
   Everything else is as in C08_converge_full. *)
Definition C08_converge_full_repaired : Prop :=
  forall (c : cache) (f : nat) (w : world) (silence : Z),
    cache_ok c -> Inv w -> live w -> version (sk w) = c_ver c -> snapshot_hyp c w ->
    (List.length (c_data c) < f)%nat -> (forall k old, In (k, old) (c_hist c) -> (List.length (delta_pdus old (c_data c)) < f)%nat) ->
    0 <= refresh_iv (sk w) ->
    (forall k, nth k (opens w) true = true) -> (16 <= List.length (opens w))%nat -> sends w = [] ->
    evs w = [EvWait silence] -> 16 * recovery_bound (sk w) < silence ->
    exists n, (n <= 16)%nat /\
      let w' := run_with_cache n (S f) c w in
      synced c w' w' /\ now w' - now w <= recovery_bound (sk w).

Lemma loop_bound_le s : 0 <= refresh_iv s -> 0 <= retry_iv s -> 0 <= loop_bound s <= recovery_bound s.
Proof. unfold loop_bound, recovery_bound. change c_RTR_RECV_TIMEOUT with 60. lia. Qed.

Theorem C08_converge_full_holds : C08_converge_full_repaired.
Proof.
  intros c f w silence Hc HI Hl Hv Hsn Hf Hfd Hrf Hon Hol Hs Hev Hsil.
  pose proof HI as ((_ & Tr & _) & _).
  destruct (loop_bound_le (sk w) Hrf Tr) as (B0 & B1).
  destruct (converge_loop c f w silence Hc HI Hl Hv Hsn Hf Hfd Hrf Hon ltac:(lia) Hs Hev ltac:(lia)) as (n & Hn & Sy & Ht & _).
  exists n. split; [lia|]. cbv zeta. split; [exact Sy|lia].
Qed.

(* ---------- Examples: the hypotheses are satisfiable and the witness runs ---------- *)
(* (1) a fresh socket in CONNECTING: CONNECTING -> RESET -> SYNC (Reset Query answered) -> ESTABLISHED *)
Definition lp_w0 : world :=
  start_world 3600 7200 600 0 [] [] [EvWait 100000] (repeat true 16) [] [].

Lemma lp_w0_Inv : Inv lp_w0.
Proof. apply Inv_start; try (constructor; fail); try reflexivity; [lia|]. constructor; [cbn [ev_ok]; lia|constructor]. Qed.

Ltac by_computation :=
  repeat match goal with
         | |- _ /\ _ => split
         | |- Permutation _ _ => vm_compute; apply Permutation_refl
         | |- _ <= _ => vm_compute; discriminate
         | |- _ = _ => vm_compute; reflexivity
         end.

Example converge_loop_example_connecting :
  (cache_ok ex_cache /\ Inv lp_w0 /\ live lp_w0 /\ version (sk lp_w0) = c_ver ex_cache /\ snapshot_hyp ex_cache lp_w0 /\
   0 <= refresh_iv (sk lp_w0) /\ (forall k, nth k (opens lp_w0) true = true) /\ (16 <= List.length (opens lp_w0))%nat /\
   sends lp_w0 = [] /\ evs lp_w0 = [EvWait 100000] /\ 16 * recovery_bound (sk lp_w0) < 100000) /\
  (let w' := run_with_cache 3 4 ex_cache lp_w0 in
   converged ex_cache 0 lp_w0 w' /\ pfx w' = [prec_of_pdu ex_PA] /\ serial (sk w') = 5 /\ now w' = 1000).
Proof.
  split.
  { split; [exact ex_cache_ok|]. split; [exact lp_w0_Inv|]. split; [reflexivity|]. split; [reflexivity|].
    split; [intros old Hq; discriminate Hq|].
    split; [vm_compute; discriminate|]. split; [exact all_true_16|]. split; [cbn; lia|]. split; [reflexivity|]. split; [reflexivity|].
    vm_compute. reflexivity. }
  cbv zeta. unfold converged, synced. by_computation.
Qed.

(* all hypotheses of C08_converge_full_repaired in one place *)
Definition loop_hyps (c : cache) (f : nat) (w : world) (silence : Z) : Prop :=
  cache_ok c /\ Inv w /\ live w /\ version (sk w) = c_ver c /\ snapshot_hyp c w /\
  (List.length (c_data c) < f)%nat /\ (forall k old, In (k, old) (c_hist c) -> (List.length (delta_pdus old (c_data c)) < f)%nat) /\
  0 <= refresh_iv (sk w) /\
  (forall k, nth k (opens w) true = true) /\ (16 <= List.length (opens w))%nat /\ sends w = [] /\
  evs w = [EvWait silence] /\ 16 * recovery_bound (sk w) < silence.

Theorem loop_hyps_converge c f w silence : loop_hyps c f w silence ->
  exists n, (n <= 8)%nat /\ converged c (loop_bound (sk w)) w (run_with_cache n (S f) c w).
Proof.
  intros (Hc & HI & Hl & Hv & Hsn & Hf & Hfd & Hrf & Hon & Hol & Hs & Hev & Hsil).
  pose proof HI as ((_ & Tr & _) & _). destruct (loop_bound_le (sk w) Hrf Tr) as (B0 & B1).
  apply (converge_loop c f w silence); auto; lia.
Qed.

(* (2) ESTABLISHED with the data of serial 5; the cache has moved on to serial 6 and remembers 5: the refresh timer runs
       out, the Serial Query is answered with the delta.  snapshot_hyp is not vacuous here.
   (3) the same client, a cache with another session id: Cache Reset, then the full reload - 5 iterations.
   (4) SYNC and the answer never comes: receive timeout, ERROR_TRANSPORT, retry sleep, reconnect, RESET, SYNC, answered. *)
Definition lp_est : world :=
  run_fsm 3 100 (start_world 3600 7200 600 0 [] [] [EvData (ex_CR ++ ex_PA ++ ex_EOD); EvWait 100000] (repeat true 17) [] []).
Definition lp_sync : world :=
  run_fsm 2 100 (start_world 3600 7200 600 0 [] [] [EvWait 100000] (repeat true 17) [] []).
Definition ex_cache6 : cache := mkCache 1 42 6 [ex_PA; ex_PB] [(5, [ex_PA]); (6, [ex_PA; ex_PB])] ex_tail.
Definition ex_cache43 : cache := mkCache 1 43 1 [ex_PB] [(1, [ex_PB])] ex_tail.

Lemma lp_est_Inv : Inv lp_est.
Proof.
  apply run_fsm_Inv, Inv_start; try (constructor; fail); try reflexivity; [lia|].
  unfold ex_CR, ex_PA, ex_EOD. cbn [app].
  repeat first [apply Forall_nil | apply Forall_cons; [cbn [ev_ok]|]].
  all: try exact I; try lia; try (unfold byte_ok; lia).
Qed.
Lemma lp_sync_Inv : Inv lp_sync.
Proof.
  apply run_fsm_Inv, Inv_start; try (constructor; fail); try reflexivity; [lia|]. constructor; [cbn [ev_ok]; lia|constructor].
Qed.

Lemma ex_dataset_PAB : dataset_ok 1 [ex_PA; ex_PB].
Proof.
  split; [constructor; [exact ex_PA_ok|constructor; [exact ex_PB_ok|constructor]]|].
  split; vm_compute; [|constructor].
  constructor; [intros [H|[]]; discriminate H|]. constructor; [intros []|constructor].
Qed.
Lemma ex_dataset_PB : dataset_ok 1 [ex_PB].
Proof. split; [constructor; [exact ex_PB_ok|constructor]|]. split; vm_compute; repeat constructor. intros []. Qed.

Lemma ex_cache6_ok : cache_ok ex_cache6.
Proof.
  unfold cache_ok. cbn [c_ver c_session c_serial c_data c_hist c_eod_tail ex_cache6].
  split; [right; reflexivity|]. split; [lia|]. split; [lia|]. split; [exact ex_dataset_PAB|].
  split; [constructor; [exact ex_dataset_PA|constructor; [exact ex_dataset_PAB|constructor]]|].
  split; [unfold pdu_ok; pdu_facts|].
  unfold ex_tail. repeat (apply Forall_cons; [lia|]). apply Forall_nil.
Qed.
Lemma ex_cache43_ok : cache_ok ex_cache43.
Proof.
  unfold cache_ok. cbn [c_ver c_session c_serial c_data c_hist c_eod_tail ex_cache43].
  split; [right; reflexivity|]. split; [lia|]. split; [lia|]. split; [exact ex_dataset_PB|].
  split; [constructor; [exact ex_dataset_PB|constructor]|].
  split; [unfold pdu_ok; pdu_facts|].
  unfold ex_tail. repeat (apply Forall_cons; [lia|]). apply Forall_nil.
Qed.

Ltac opens16 := match goal with |- forall k, nth k (opens ?w) true = true =>
  let E := fresh in assert (E : opens w = repeat true 16) by (vm_compute; reflexivity); rewrite E; exact all_true_16 end.

Example converge_loop_example_established :
  loop_hyps ex_cache6 3 lp_est 100000 /\
  (let w' := run_with_cache 2 4 ex_cache6 lp_est in
   converged ex_cache6 3600 lp_est w' /\ pfx w' = [prec_of_pdu ex_PA; prec_of_pdu ex_PB] /\ serial (sk w') = 6 /\ now w' = 4600).
Proof.
  split.
  { split; [exact ex_cache6_ok|]. split; [exact lp_est_Inv|]. split; [vm_compute; reflexivity|]. split; [vm_compute; reflexivity|].
    split.
    { intros old Hq Hs Hl. vm_compute in Hl. injection Hl as <-. split; vm_compute; apply Permutation_refl. }
    split; [vm_compute; lia|].
    split; [intros k old [E|[E|[]]]; inversion E; subst; vm_compute; lia|].
    split; [vm_compute; discriminate|]. split; [opens16|]. split; [vm_compute; lia|].
    split; [vm_compute; reflexivity|]. split; [vm_compute; reflexivity|]. vm_compute. reflexivity. }
  cbv zeta. unfold converged, synced. by_computation.
Qed.

Example converge_loop_example_cache_reset :
  loop_hyps ex_cache43 3 lp_est 100000 /\
  (let w' := run_with_cache 5 4 ex_cache43 lp_est in
   converged ex_cache43 3600 lp_est w' /\ pfx w' = [prec_of_pdu ex_PB] /\ session_id (sk w') = 43 /\ serial (sk w') = 1 /\ now w' = 4600).
Proof.
  split.
  { split; [exact ex_cache43_ok|]. split; [exact lp_est_Inv|]. split; [vm_compute; reflexivity|]. split; [vm_compute; reflexivity|].
    split; [intros old Hq Hs; vm_compute in Hs; discriminate Hs|].
    split; [vm_compute; lia|].
    split; [intros k old [E|[]]; inversion E; subst; vm_compute; lia|].
    split; [vm_compute; discriminate|]. split; [opens16|]. split; [vm_compute; lia|].
    split; [vm_compute; reflexivity|]. split; [vm_compute; reflexivity|]. vm_compute. reflexivity. }
  cbv zeta. unfold converged, synced. by_computation.
Qed.

Example converge_loop_example_sync_silent :
  loop_hyps ex_cache 3 lp_sync 100000 /\
  (let w' := run_with_cache 5 4 ex_cache lp_sync in
   converged ex_cache 660 lp_sync w' /\ pfx w' = [prec_of_pdu ex_PA] /\ serial (sk w') = 5 /\ now w' = 1660).
Proof.
  split.
  { split; [exact ex_cache_ok|]. split; [exact lp_sync_Inv|]. split; [vm_compute; reflexivity|]. split; [vm_compute; reflexivity|].
    split; [intros old Hq; vm_compute in Hq; discriminate Hq|].
    split; [apply ex_cache_sizes|]. split; [apply ex_cache_sizes|].
    split; [vm_compute; discriminate|]. split; [opens16|]. split; [vm_compute; lia|].
    split; [vm_compute; reflexivity|]. split; [vm_compute; reflexivity|]. vm_compute. reflexivity. }
  cbv zeta. unfold converged, synced. by_computation.
Qed.

(* ---------- from rtr_init: neither Inv nor the bound on refresh_interval has to be assumed ---------- *)
Theorem converge_reachable (c : cache) (f : nat) (silence : Z) n fuel refresh expire retry mode P K0 es os ss o :
  init_ok refresh expire retry = true ->
  Forall ev_ok es -> NoDup P -> NoDup K0 -> own_p P = [] -> own_k K0 = [] ->
  let w := run_fsm n fuel (start_world refresh expire retry mode P K0 es os ss o) in
  cache_ok c -> live w -> version (sk w) = c_ver c -> snapshot_hyp c w ->
  (List.length (c_data c) < f)%nat -> (forall k old, In (k, old) (c_hist c) -> (List.length (delta_pdus old (c_data c)) < f)%nat) ->
  (forall k, nth k (opens w) true = true) -> (1 <= List.length (opens w))%nat -> sends w = [] ->
  evs w = [EvWait silence] -> loop_bound (sk w) < silence ->
  exists m, (m <= 8)%nat /\ converged c (loop_bound (sk w)) w (run_with_cache m (S f) c w).
Proof.
  intros Hi He HP HK Ho1 Ho2 w Hc Hl Hv Hsn Hf Hfd Hon Hol Hs Hev Hsil.
  destruct (reachable_refresh n fuel refresh expire retry mode P K0 es os ss o Hi He HP HK Ho1 Ho2) as (HI & Hrf).
  fold w in HI, Hrf. apply (converge_loop c f w silence); assumption.
Qed.

Print Assumptions converge_loop.
Print Assumptions C08_converge_full_holds.
Print Assumptions C08_converge_full_false.
Print Assumptions loop_hyps_converge.
Print Assumptions converge_loop_example_connecting.
Print Assumptions converge_loop_example_established.
Print Assumptions converge_loop_example_cache_reset.
Print Assumptions converge_loop_example_sync_silent.
Print Assumptions converge_reachable.
