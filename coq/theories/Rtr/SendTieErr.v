(* SendTieErr.v - C14, continued from Rtr/SendTie.v: rtr_send_error_pdu, rtr_send_error_pdu_from_network,
   rtr_send_error_pdu_from_host (translated: Gen/GeneratedSend.v) against the model's send_error_pdu /
   send_error_from_host (Rtr/RtrModel.v; the report bytes are SendBase.error_report).

   PROVED FOR ALL INPUTS (section 4):
     send_error_pdu_from_network_tie   the wrapper is rtr_send_error_pdu on the same arguments (bytes untouched)
     send_error_pdu_from_host_null     erroneous_pdu_len = 0: rtr_send_error_pdu(NULL, 0), whatever the pointer was
     send_error_pdu_from_host_short    0 < erroneous_pdu_len < 8: RTR_ERROR, nothing sent = the model
   CHECKED BY COMPUTATION INSIDE COQ on closed inputs (section 2; [err_agree] / [net_agree] / [host_agree]: result, final
   world with the whole trace, socket fields - equal to the model's):
     reports with / without encapsulated PDU and text, header-only echo out of a 3248-byte buffer, a 3248-byte echo
     under partial writes, failing / blocking transport, RTR_SHUTDOWN, versions 0 and 1, the code field at 65535;
     the guard "no report in reply to an Error Report" (lengths 26, 8, 2; length 1: the type is not looked at);
     from_host on the host-order buffer of IPv4 / IPv6 / End of Data / Router Key / header-only PDUs: the echoed bytes
     are the bytes AS RECEIVED (the conversion of the copy undoes rtr_receive_pdu's, Router Key bytes 2-3 included).
   DIFFERENCES between code and model (section 3), both outside what the call sites pass:
     msg_size_wraps                    16 + erroneous_pdu_len + err_text_len >= 2^32 wraps in `unsigned int msg_size`:
                                       zero-sized VLA / stores outside msg; the model (unbounded integers) sends
     from_host_partial_body_undefined  a length between 9 and the size of the PDU's type: the byte-order conversion of
                                       the copy pdu[erroneous_pdu_len] reads and writes outside it; the model echoes
   THE GAP: no theorem yet for ARBITRARY inputs says that rtr_send_error_pdu's message is SendBase.error_report
   (send_error_pdu_tie) nor that from_host's conversion of an arbitrary accepted PDU returns the received bytes.  What it
   needs: (a) the object after the five header stores, mcopy, the text-length store and mcopy as an explicit
   concatenation (MemW.st_list over SendTie.st_list_app, zeros (16+el+tl) split at 12 / el / 4 / tl);
   (b) the Error Report arm of the footer conversion towards the network (swap4 at 12+el, then at 8 - cf.
   FooterTie.footer_translated for the other direction) and SendTie.header_translated_net; then SendTie.send_pdu_tie'
   under the side conditions 0 <= el, tl and 16 + el + tl < 2^32, the pointers non-null where the lengths are not 0. *)
From Coq Require Import ZifyBool.
From RtrV Require Import Base.CSem Base.Mem Base.MemW Base.Eff Base.EffMem Gen.Generated Gen.GeneratedMem Gen.GeneratedMemW
  Gen.GeneratedSend Rtr.RtrModel Rtr.RelFrame Rtr.ExpiryTac Rtr.SyncSets Rtr.ExpiryFrames Rtr.ConvergeStutter
  Rtr.ExpiryProofs Rtr.CheckSizeTie Rtr.FooterTie Rtr.FsmTie Rtr.SendBase Rtr.SendTie.
Local Open Scope string_scope.
Local Open Scope Z_scope.

(* ====================================================================================================== *)
(* 1. what is compared                                                                                      *)
(* ====================================================================================================== *)
(* rtr_send_error_pdu(sock, mE+0, el, code, mT+0, tl) against the model's builder on the first el / tl bytes *)
Definition err_run (mE : list Z) (pe : option Z) (el code : Z) (mT : list Z) (pt : option Z) (tl : Z) (w : world) :=
  interpS (rtr_send_error_pdu_gen mE pe el code mT pt tl (sock_store (sk w))) w.
Definition err_expect (mE : list Z) (el code : Z) (mT : list Z) (tl : Z) (w : world) :=
  Some (as_eff (fun r => r) (send_error_pdu (firstn (Z.to_nat el) mE) code (firstn (Z.to_nat tl) mT)) w).
Definition err_agree mE pe el code mT pt tl w : Prop := err_run mE pe el code mT pt tl w = err_expect mE el code mT tl w.

(* rtr_send_error_pdu_from_network: the PDU bytes are echoed as they are *)
Definition net_agree mE pe el code mT pt tl w : Prop :=
  interpS (rtr_send_error_pdu_from_network_gen mE pe el code mT pt tl (sock_store (sk w))) w = err_expect mE el code mT tl w.

(* rtr_send_error_pdu_from_host on the PDU as rtr_receive_pdu leaves it in the buffer (host order: FooterTie.footer_host
   over header_host of the bytes p as received) against the model's send_error_from_host on the bytes AS RECEIVED:
   the echoed bytes are a byte-exact prefix of the wire PDU *)
Definition host_of (p : list Z) : list Z := footer_host (header_host p).
Definition host_agree (p : list Z) (el code : Z) mT pt tl w : Prop :=
  interpS (rtr_send_error_pdu_from_host_gen (host_of p) (Some 0) el code mT pt tl (sock_store (sk w))) w =
  Some (as_eff (fun r => r) (send_error_from_host (firstn (Z.to_nat el) p) code (firstn (Z.to_nat tl) mT)) w).

Definition esock (ver st : Z) : sock := mkSock st ver 7 false 42 900 3600 7200 600 0 true false.
Definition eworld (ver : Z) (snd : list Z) : world := mkW (esock ver c_RTR_SYNC) [] [] [] [] snd 1000 [].

Definition p_ipv4 := [1;4;0;0;0;0;0;20;1;24;24;0;10;1;2;0;0;0;253;232].
Definition p_ipv6 := [1;6;0;0;0;0;0;32;1;48;48;0;32;1;13;184;0;0;0;0;0;0;0;0;0;0;0;0;0;0;253;232].
Definition p_eod1 := [1;7;0;7;0;0;0;24;0;0;1;6;0;0;14;16;0;0;2;88;0;0;28;32].
Definition p_key := ([1;9;1;0;0;0;0;123] ++ repeat 7 20 ++ [0;0;253;232] ++ repeat 9 91)%list.
Definition p_error := [1;10;0;2;0;0;0;26; 0;0;0;8; 1;2;0;0;0;0;0;8; 0;0;0;2; 104;105].
Definition p_resp_badlen := [1;3;0;7;0;0;0;12;9;9;9;9].
Definition txt := [99; 111; 114; 114; 117; 112; 116; 0].
Definition big_pdu := (p_ipv4 ++ repeat 171 (3248 - 20))%list.

Ltac conjs := repeat match goal with |- _ /\ _ => split end.

(* ====================================================================================================== *)
(* 2. by computation: concrete reports                                                                      *)
(* ====================================================================================================== *)
(* with / without encapsulated PDU, with / without text, a PDU object longer than the echoed part, a maximum-size
   report (3248 bytes echoed), partial writes and a failing transport, version 0, an unknown error code *)
Example error_pdu_reports :
  err_agree p_ipv4 (Some 0) 20 3 txt (Some 0) 8 (eworld 1 []) /\
  err_agree p_ipv4 (Some 0) 20 6 [] None 0 (eworld 1 []) /\
  err_agree [] None 0 1 txt (Some 0) 8 (eworld 1 []) /\
  err_agree [] None 0 1 [] None 0 (eworld 0 []) /\
  err_agree big_pdu (Some 0) 8 0 txt (Some 0) 8 (eworld 1 []) /\
  err_agree big_pdu (Some 0) 3248 0 txt (Some 0) 8 (eworld 1 [5; 100; 3; 4000]) /\
  err_agree p_ipv6 (Some 0) 32 7 txt (Some 0) 3 (eworld 1 [10; -1]) /\
  err_agree p_ipv6 (Some 0) 32 65535 txt (Some 0) 8 (eworld 1 [10; -2]) /\
  err_agree p_eod1 (Some 0) 24 0 txt (Some 0) 8 (mkW (esock 1 c_RTR_SHUTDOWN) [] [] [] [] [] 1000 []).
Proof. unfold err_agree. conjs; vm_compute; reflexivity. Qed.

(* no report in reply to an Error Report (and a report for a 1-byte fragment whose type cannot be read) *)
Example error_pdu_guard :
  err_agree p_error (Some 0) 26 0 txt (Some 0) 8 (eworld 1 []) /\
  err_agree p_error (Some 0) 8 0 [] None 0 (eworld 1 []) /\
  err_agree p_error (Some 0) 2 0 [] None 0 (eworld 1 []) /\
  err_agree p_error (Some 0) 1 0 [] None 0 (eworld 1 []) /\
  err_run p_error (Some 0) 26 0 txt (Some 0) 8 (eworld 1 []) = Some (Ok (0, sock_store (esock 1 c_RTR_SYNC)) (eworld 1 [])).
Proof. unfold err_agree. conjs; vm_compute; reflexivity. Qed.

Example from_network_reports :
  net_agree big_pdu (Some 0) 8 0 txt (Some 0) 8 (eworld 1 []) /\
  net_agree big_pdu (Some 0) 8 4 [] None 0 (eworld 1 []) /\
  net_agree p_error (Some 0) 8 0 txt (Some 0) 8 (eworld 1 []).
Proof. unfold net_agree. conjs; vm_compute; reflexivity. Qed.

(* from the host-order buffer back to the bytes as received: every PDU type the callers echo, whole and header only;
   the NULL / 0 case; lengths 1..7 are refused with RTR_ERROR and nothing is sent *)
Example from_host_reports :
  host_agree p_ipv4 20 3 txt (Some 0) 8 (eworld 1 []) /\
  host_agree p_ipv6 32 6 [] None 0 (eworld 1 []) /\
  host_agree p_eod1 24 0 txt (Some 0) 8 (eworld 1 []) /\
  host_agree p_key 123 0 txt (Some 0) 8 (eworld 1 [50]) /\
  host_agree p_resp_badlen 8 0 txt (Some 0) 8 (eworld 1 []) /\
  host_agree p_ipv4 8 0 txt (Some 0) 8 (eworld 1 []) /\
  host_agree p_error 8 0 txt (Some 0) 8 (eworld 1 []) /\
  host_agree p_ipv4 5 0 txt (Some 0) 8 (eworld 1 []) /\
  interpS (rtr_send_error_pdu_from_host_gen [] None 0 1 txt (Some 0) 8 (sock_store (esock 1 c_RTR_SYNC))) (eworld 1 []) =
    Some (as_eff (fun r => r) (send_error_from_host [] 1 txt) (eworld 1 [])).
Proof. unfold host_agree. conjs; vm_compute; reflexivity. Qed.

(* ====================================================================================================== *)
(* 3. where code and model differ (outside what the call sites pass)                                        *)
(* ====================================================================================================== *)
(* (a) msg_size is an unsigned int computed from two uint32_t lengths without a bound: 16 + el + tl >= 2^32 wraps.
       el = 2^32 - 16: msg_size = 0, a zero-sized VLA (undefined); el = 2^32 - 15: msg_size = 1, the first header store
       is outside msg (stack buffer overflow).  The model computes in Z and sends.  Every call site passes
       el <= RTR_MAX_PDU_LEN and a text of a few dozen bytes. *)
Example msg_size_wraps :
  err_run [] (Some 0) 4294967280 0 [] None 0 (eworld 1 []) = None /\
  err_run [] (Some 0) 4294967281 0 [] None 0 (eworld 1 []) = None.
Proof. unfold err_run. conjs; lazy; reflexivity. Qed.

(* (b) rtr_send_error_pdu_from_host converts the COPY pdu[erroneous_pdu_len] with rtr_pdu_to_network_byte_order, which
       touches the body fields of the PDU's type: a length between 9 and the type's size makes it read and write outside
       the copy (undefined); the model echoes any prefix of 8 or more bytes.  The call sites pass the PDU's full length
       or exactly sizeof(struct pdu_header). *)
Example from_host_partial_body_undefined :
  interpS (rtr_send_error_pdu_from_host_gen (host_of p_ipv4) (Some 0) 12 0 txt (Some 0) 8 (sock_store (esock 1 c_RTR_SYNC))) (eworld 1 []) = None /\
  exists r w', send_error_from_host (firstn 12 p_ipv4) 0 txt (eworld 1 []) = Ok r w'.
Proof. split; [vm_compute; reflexivity|]. eexists. eexists. vm_compute. reflexivity. Qed.

(* an Error Report handed to from_host whole is converted and then dropped by the guard, as in the model *)
Example from_host_error_report_dropped : host_agree p_error 26 0 txt (Some 0) 8 (eworld 1 []).
Proof. unfold host_agree. vm_compute. reflexivity. Qed.

(* ====================================================================================================== *)
(* 4. for all inputs: the wrappers                                                                          *)
(* ====================================================================================================== *)
Lemma interpS_ebind_ret e w : interpS (ebind e (fun r s => ERet r s)) w = interpS e w.
Proof.
  rewrite interpS_ebind. destruct (interpS e w) as [[[r s] w'|x w']|] eqn:E; try reflexivity.
  cbn [interpS].
  (* the world after a tree already carries the fields of its last store *)
  revert w E. induction e as [r0 t|f a t k IH|]; intros w E.
  - cbn [interpS] in E. injection E as <- <- <-. reflexivity.
  - cbn [interpS] in E. destruct (ext_callS f a) as [m|]; [|discriminate E].
    destruct (m (with_sk w (store_sock t))) as [rs w1|x w1]; [|discriminate E]. eapply IH. exact E.
  - discriminate E.
Qed.

(* rtr_send_error_pdu_from_network IS rtr_send_error_pdu: the bytes are handed on untouched, for every input *)
Theorem send_error_pdu_from_network_tie mE pe el code mT pt tl s w :
  interpS (rtr_send_error_pdu_from_network_gen mE pe el code mT pt tl s) w =
  interpS (rtr_send_error_pdu_gen mE pe el code mT pt tl s) w.
Proof. unfold rtr_send_error_pdu_from_network_gen. apply interpS_ebind_ret. Qed.

(* rtr_send_error_pdu_from_host, the NULL / 0 case: a report without encapsulated PDU, whatever the pointer *)
Theorem send_error_pdu_from_host_null mE pe code mT pt tl s w :
  interpS (rtr_send_error_pdu_from_host_gen mE pe 0 code mT pt tl s) w =
  interpS (rtr_send_error_pdu_gen [] None 0 code mT pt tl s) w.
Proof.
  unfold rtr_send_error_pdu_from_host_gen. change (0 =? wrapu 32 0) with true. cbv iota.
  change (wrapu 32 0) with 0. apply interpS_ebind_ret.
Qed.

(* ... and the early exit: 0 < erroneous_pdu_len < sizeof(struct pdu_header) returns RTR_ERROR, nothing is sent, as in
   the model's send_error_from_host for an enc of that length *)
Theorem send_error_pdu_from_host_short mE pe el code mT pt tl enc text w :
  0 < el < 8 -> zlen enc = el ->
  interpS (rtr_send_error_pdu_from_host_gen mE pe el code mT pt tl (sock_store (sk w))) w =
  Some (as_eff (fun r => r) (send_error_from_host enc code text) w).
Proof.
  intros Hel Hz. unfold rtr_send_error_pdu_from_host_gen. change (wrapu 32 0) with 0.
  replace (el =? 0) with false by lia.
  rewrite wrapu64_small by lia. replace (el <? 8) with true by lia.
  rewrite iS_ret. unfold send_error_from_host. rewrite Hz.
  replace (el =? 0) with false by lia. replace (el <? 8) with true by lia. reflexivity.
Qed.

Print Assumptions error_pdu_reports.
Print Assumptions error_pdu_guard.
Print Assumptions from_network_reports.
Print Assumptions from_host_reports.
Print Assumptions msg_size_wraps.
Print Assumptions from_host_partial_body_undefined.
Print Assumptions send_error_pdu_from_network_tie.
Print Assumptions send_error_pdu_from_host_null.
Print Assumptions send_error_pdu_from_host_short.
