(* PrefixValidTie.v - tie (a) for rtr_prefix_pdu_is_valid (the check added by /repo fixes 0eb44c1 and a7ff099):
   the function as translated from /repo on every run (memory mode, its loop unrolled) equals the model's
   prefix_lengths_valid on every Prefix PDU of the right size, and reads only inside it. *)
From RtrV Require Import Base.CSem Base.Mem Base.Bits32 Gen.Generated Gen.GeneratedMem Rtr.RtrModel Rtr.CheckSizeTie.
From Coq Require Import ZifyBool.
Local Open Scope Z_scope.
Ltac Zify.zify_post_hook ::= Z.div_mod_to_equations.

(* a Prefix PDU as it lies in memory when it is checked: header fields, prefix words and AS number in host order *)
Fixpoint swap_words (n : nat) (l : list Z) : list Z :=
  match n with
  | O => l
  | S k => match l with a :: b :: c :: d :: r => d :: c :: b :: a :: swap_words k r | _ => l end
  end.
Definition to_host_pfx (p : list Z) : list Z :=
  firstn 12 (to_host p) ++ swap_words (if nthb p 1 =? c_IPV4_PREFIX then 2 else 5) (skipn 12 p).

Lemma bits_of_bytes_4 a b c d r :
  bits_of_bytes (a :: b :: c :: d :: r) = (byte_bits a ++ byte_bits b ++ byte_bits c ++ byte_bits d) ++ bits_of_bytes r.
Proof. cbn [bits_of_bytes]. unfold byte_bits. rewrite <- !app_assoc. reflexivity. Qed.

Lemma forallb_skipn_app32 (A R : list bool) n :
  List.length A = 32%nat ->
  forallb negb (skipn n (A ++ R)) = forallb negb (skipn n A) && forallb negb (skipn (n - 32) R).
Proof. intros H. rewrite skipn_app, forallb_app, H. reflexivity. Qed.

(* one round of the loop, in closed form *)
Definition word_ok (len i w : Z) : bool :=
  let used := if len >? 32 * i then len - 32 * i else 0 in
  negb ((used <? 32) && negb (Z.land w (Z.shiftr 4294967295 used) =? 0)).

Lemma word_ok_bits len i a b c d :
  0 <= len -> 0 <= i -> byte_ok a -> byte_ok b -> byte_ok c -> byte_ok d ->
  word_ok len i (be32w a b c d) =
  forallb negb (skipn (Z.to_nat len - 32 * Z.to_nat i) (byte_bits a ++ byte_bits b ++ byte_bits c ++ byte_bits d)).
Proof.
  intros Hl Hi Ha Hb Hc Hd. unfold word_ok, byte_ok in *.
  rewrite <- bits32_be32w by assumption.
  pose proof (be32w_range a b c d Ha Hb Hc Hd) as Hw.
  destruct (len >? 32 * i) eqn:E.
  - destruct (len - 32 * i <? 32) eqn:E2.
    + rewrite (mask_test _ (len - 32 * i)) by lia. cbn [andb]. rewrite negb_involutive.
      replace (Z.to_nat (len - 32 * i)) with (Z.to_nat len - 32 * Z.to_nat i)%nat by lia. reflexivity.
    + cbn [andb negb]. rewrite skipn_all2; [reflexivity|]. rewrite bits32_length. lia.
  - change (0 <? 32) with true. cbn [andb]. rewrite (mask_test _ 0) by lia. rewrite negb_involutive.
    replace (Z.to_nat len - 32 * Z.to_nat i)%nat with 0%nat by lia. reflexivity.
Qed.

Lemma le4 a b c d :
  d + 256 * (c + 256 * (b + 256 * a)) = be32w a b c d.
Proof. unfold be32w. lia. Qed.

Lemma wrapu32_small x : 0 <= x < 4294967296 -> wrapu 32 x = x.
Proof. intros H. unfold wrapu. change (2 ^ 32) with 4294967296. apply Z.mod_small, H. Qed.
Lemma wrapu8_small x : 0 <= x < 256 -> wrapu 8 x = x.
Proof. intros H. unfold wrapu. change (2 ^ 8) with 256. apply Z.mod_small, H. Qed.

Ltac norm_w :=
  repeat match goal with
         | |- context [wrapu 32 ?x] =>
           lazymatch x with context [wrapu] => fail | context [wraps] => fail | _ => rewrite (wrapu32_small x) by lia end
         | |- context [wrapu 8 ?x] =>
           lazymatch x with context [wrapu] => fail | context [wraps] => fail | _ => rewrite (wrapu8_small x) by lia end
         | |- context [wraps 32 ?x] =>
           lazymatch x with context [wrapu] => fail | context [wraps] => fail | _ => rewrite (wraps32_small x) by lia end
         end.

(* evaluation of the closed pieces of the unrolled function (never a term with a variable in it) *)
Ltac has_var t := match t with context [?x] => is_var x end.
Ltac closed t := tryif has_var t then fail else idtac.
Ltac evc t := closed t; let v := eval vm_compute in t in (progress change t with v).
Ltac ev_closed :=
  repeat (match goal with
          | |- context [wrapu ?b ?x] => evc (wrapu b x)
          | |- context [wraps ?b ?x] => evc (wraps b x)
          | |- context [ptr_add ?p ?x] => evc (ptr_add p x)
          | |- context [Z.ltb ?a ?b] => evc (Z.ltb a b)
          | |- context [Z.gtb ?a ?b] => evc (Z.gtb a b)
          | |- context [Z.eqb ?a ?b] => evc (Z.eqb a b)
          | |- context [Z.mul ?a ?b] => evc (Z.mul a b)
          | |- context [b2z ?a] => evc (b2z a)
          end; cbv iota).

Lemma ldu1 mem o : ldu mem (Some o) 1 = mbyte mem o.
Proof. unfold ldu. change (Z.to_nat 1) with 1%nat. cbn [le_load]. lia. Qed.
Lemma ldu4 mem o :
  ldu mem (Some o) 4 = mbyte mem o + 256 * (mbyte mem (o + 1) + 256 * (mbyte mem (o + 2) + 256 * mbyte mem (o + 3))).
Proof. unfold ldu. change (Z.to_nat 4) with 4%nat. apply le_load_4. Qed.

Ltac loads mem :=
  repeat match goal with |- context [ld_ok mem ?p ?n] => change (ld_ok mem p n) with true end;
  rewrite ?ldu1, ?ldu4;
  repeat match goal with
         | |- context [mbyte mem ?o] => let v := eval vm_compute in (mbyte mem o) in change (mbyte mem o) with v
         end;
  rewrite ?le4; cbv beta iota delta [guard implb].

Ltac split_all :=
  repeat match goal with
         | |- context [if ?c then _ else _] =>
           lazymatch c with
           | true => fail | false => fail
           | context [if _ then _ else _] => fail
           | _ => destruct c eqn:?
           end
         | |- context [b2z ?c] =>
           lazymatch c with true => fail | false => fail | _ => destruct c eqn:? end
         end.

Lemma byte_ok_of (l : list Z) : Forall byte_ok l -> forall x, In x l -> 0 <= x < 256.
Proof. intros H x Hx. rewrite Forall_forall in H. exact (H x Hx). Qed.

Theorem prefix_valid_translated_v4 p :
  Forall byte_ok p -> nthb p 1 = c_IPV4_PREFIX -> zlen p = 20 ->
  rtr_prefix_pdu_is_valid_gen (to_host_pfx p) (Some 0) (nthb p 1) = Some (b2z (prefix_lengths_valid p)).
Proof.
  intros Hb Ht Hl. unfold zlen in Hl.
  do 20 (destruct p as [|? p]; [cbn [List.length] in Hl; lia|]).
  destruct p; [|cbn [List.length] in Hl; lia]. clear Hl.
  unfold nthb in Ht. cbn [nth] in Ht. subst.
  (* the model side, in closed form *)
  unfold prefix_lengths_valid, prefix_host_bits_zero, nthb. cbn [nth].
  change (c_IPV4_PREFIX =? c_IPV4_PREFIX) with true. change (c_IPV4_PREFIX =? c_IPV6_PREFIX) with false. cbv iota.
  cbn [skipn firstn]. rewrite bits_of_bytes_4. cbn [bits_of_bytes]. rewrite app_nil_r.
  pose proof (byte_ok_of _ Hb) as B.
  assert (B8 : 0 <= z8 < 256) by (apply B; cbn; tauto). assert (B9 : 0 <= z9 < 256) by (apply B; cbn; tauto).
  assert (B11 : byte_ok z11) by (apply B; cbn; tauto). assert (B12 : byte_ok z12) by (apply B; cbn; tauto).
  assert (B13 : byte_ok z13) by (apply B; cbn; tauto). assert (B14 : byte_ok z14) by (apply B; cbn; tauto).
  replace (Z.to_nat z8) with (Z.to_nat z8 - 32 * Z.to_nat 0)%nat by lia.
  rewrite <- (word_ok_bits z8 0 z11 z12 z13 z14) by (assumption || lia).
  pose proof (be32w_range z11 z12 z13 z14 B11 B12 B13 B14) as Hw.
  (* the translated function *)
  unfold to_host_pfx, nthb. cbn [nth to_host firstn skipn app].
  change (c_IPV4_PREFIX =? c_IPV4_PREFIX) with true. cbv iota. cbn [swap_words].
  match goal with |- context [rtr_prefix_pdu_is_valid_gen ?m _ _] => set (mem := m) end.
  cbv beta delta [rtr_prefix_pdu_is_valid_gen]. cbv zeta.
  unfold c_IPV4_PREFIX at 1. ev_closed.
  loads mem. clear mem B Hb.
  set (w := be32w z11 z12 z13 z14) in *. clearbody w.
  unfold word_ok. ev_closed. norm_w.
  set (u := if z8 >? 0 then z8 - 0 else 0).
  assert (Hu : u = z8) by (unfold u; destruct (z8 >? 0) eqn:?; lia). clearbody u.
  set (L := Z.land w (Z.shiftr 4294967295 u) =? 0). clearbody L.
  unfold shift_ok. split_all; try reflexivity; exfalso; lia.
Qed.

Lemma byte_bits4_length a b c d : List.length (byte_bits a ++ byte_bits b ++ byte_bits c ++ byte_bits d) = 32%nat.
Proof. reflexivity. Qed.

Theorem prefix_valid_translated_v6 p :
  Forall byte_ok p -> nthb p 1 = c_IPV6_PREFIX -> zlen p = 32 ->
  rtr_prefix_pdu_is_valid_gen (to_host_pfx p) (Some 0) (nthb p 1) = Some (b2z (prefix_lengths_valid p)).
Proof.
  intros Hb Ht Hl. unfold zlen in Hl.
  do 32 (destruct p as [|? p]; [cbn [List.length] in Hl; lia|]).
  destruct p; [|cbn [List.length] in Hl; lia]. clear Hl.
  unfold nthb in Ht. cbn [nth] in Ht. subst.
  (* the model side, in closed form *)
  unfold prefix_lengths_valid, prefix_host_bits_zero, nthb. cbn [nth].
  change (c_IPV6_PREFIX =? c_IPV6_PREFIX) with true. change (c_IPV6_PREFIX =? c_IPV4_PREFIX) with false. cbv iota.
  cbn [skipn firstn]. rewrite !bits_of_bytes_4. cbn [bits_of_bytes]. rewrite app_nil_r.
  rewrite (forallb_skipn_app32 (byte_bits z11 ++ byte_bits z12 ++ byte_bits z13 ++ byte_bits z14)) by reflexivity.
  rewrite (forallb_skipn_app32 (byte_bits z15 ++ byte_bits z16 ++ byte_bits z17 ++ byte_bits z18)) by reflexivity.
  rewrite (forallb_skipn_app32 (byte_bits z19 ++ byte_bits z20 ++ byte_bits z21 ++ byte_bits z22)) by reflexivity.
  pose proof (byte_ok_of _ Hb) as B.
  assert (B8 : 0 <= z8 < 256) by (apply B; cbn; tauto). assert (B9 : 0 <= z9 < 256) by (apply B; cbn; tauto).
  assert (B11 : byte_ok z11) by (apply B; cbn; tauto). assert (B12 : byte_ok z12) by (apply B; cbn; tauto).
  assert (B13 : byte_ok z13) by (apply B; cbn; tauto). assert (B14 : byte_ok z14) by (apply B; cbn; tauto).
  assert (B15 : byte_ok z15) by (apply B; cbn; tauto). assert (B16 : byte_ok z16) by (apply B; cbn; tauto).
  assert (B17 : byte_ok z17) by (apply B; cbn; tauto). assert (B18 : byte_ok z18) by (apply B; cbn; tauto).
  assert (B19 : byte_ok z19) by (apply B; cbn; tauto). assert (B20 : byte_ok z20) by (apply B; cbn; tauto).
  assert (B21 : byte_ok z21) by (apply B; cbn; tauto). assert (B22 : byte_ok z22) by (apply B; cbn; tauto).
  assert (B23 : byte_ok z23) by (apply B; cbn; tauto). assert (B24 : byte_ok z24) by (apply B; cbn; tauto).
  assert (B25 : byte_ok z25) by (apply B; cbn; tauto). assert (B26 : byte_ok z26) by (apply B; cbn; tauto).
  replace (Z.to_nat z8) with (Z.to_nat z8 - 32 * Z.to_nat 0)%nat at 1 by lia.
  replace (Z.to_nat z8 - 32)%nat with (Z.to_nat z8 - 32 * Z.to_nat 1)%nat by lia.
  replace (Z.to_nat z8 - 32 * Z.to_nat 1 - 32)%nat with (Z.to_nat z8 - 32 * Z.to_nat 2)%nat by lia.
  replace (Z.to_nat z8 - 32 * Z.to_nat 2 - 32)%nat with (Z.to_nat z8 - 32 * Z.to_nat 3)%nat by lia.
  rewrite <- (word_ok_bits z8 0 z11 z12 z13 z14), <- (word_ok_bits z8 1 z15 z16 z17 z18),
    <- (word_ok_bits z8 2 z19 z20 z21 z22), <- (word_ok_bits z8 3 z23 z24 z25 z26) by (assumption || lia).
  pose proof (be32w_range z11 z12 z13 z14 B11 B12 B13 B14) as Hw0.
  pose proof (be32w_range z15 z16 z17 z18 B15 B16 B17 B18) as Hw1.
  pose proof (be32w_range z19 z20 z21 z22 B19 B20 B21 B22) as Hw2.
  pose proof (be32w_range z23 z24 z25 z26 B23 B24 B25 B26) as Hw3.
  (* the translated function *)
  unfold to_host_pfx, nthb. cbn [nth to_host firstn skipn app].
  change (c_IPV6_PREFIX =? c_IPV4_PREFIX) with false. cbv iota. cbn [swap_words].
  match goal with |- context [rtr_prefix_pdu_is_valid_gen ?m _ _] => set (mem := m) end.
  cbv beta delta [rtr_prefix_pdu_is_valid_gen]. cbv zeta.
  unfold c_IPV6_PREFIX at 1. ev_closed.
  loads mem. clear mem B Hb.
  set (w0 := be32w z11 z12 z13 z14) in *. set (w1 := be32w z15 z16 z17 z18) in *.
  set (w2 := be32w z19 z20 z21 z22) in *. set (w3 := be32w z23 z24 z25 z26) in *. clearbody w0 w1 w2 w3.
  unfold word_ok. ev_closed. norm_w.
  assert (E1 : (if z8 >? 32 then wrapu 32 (z8 - 32) else 0) = (if z8 >? 32 then z8 - 32 else 0))
    by (destruct (z8 >? 32) eqn:?; [apply wrapu32_small; lia|reflexivity]).
  assert (E2 : (if z8 >? 64 then wrapu 32 (z8 - 64) else 0) = (if z8 >? 64 then z8 - 64 else 0))
    by (destruct (z8 >? 64) eqn:?; [apply wrapu32_small; lia|reflexivity]).
  assert (E3 : (if z8 >? 96 then wrapu 32 (z8 - 96) else 0) = (if z8 >? 96 then z8 - 96 else 0))
    by (destruct (z8 >? 96) eqn:?; [apply wrapu32_small; lia|reflexivity]).
  rewrite E1, E2, E3. clear E1 E2 E3.
  set (u0 := if z8 >? 0 then z8 - 0 else 0). set (u1 := if z8 >? 32 then z8 - 32 else 0).
  set (u2 := if z8 >? 64 then z8 - 64 else 0). set (u3 := if z8 >? 96 then z8 - 96 else 0).
  assert (H0 : u0 = z8) by (unfold u0; destruct (z8 >? 0) eqn:?; lia).
  assert (H1 : u1 = Z.max 0 (z8 - 32)) by (unfold u1; destruct (z8 >? 32) eqn:?; lia).
  assert (H2 : u2 = Z.max 0 (z8 - 64)) by (unfold u2; destruct (z8 >? 64) eqn:?; lia).
  assert (H3 : u3 = Z.max 0 (z8 - 96)) by (unfold u3; destruct (z8 >? 96) eqn:?; lia).
  clearbody u0 u1 u2 u3.
  set (L0 := Z.land w0 (Z.shiftr 4294967295 u0) =? 0). set (L1 := Z.land w1 (Z.shiftr 4294967295 u1) =? 0).
  set (L2 := Z.land w2 (Z.shiftr 4294967295 u2) =? 0). set (L3 := Z.land w3 (Z.shiftr 4294967295 u3) =? 0).
  clearbody L0 L1 L2 L3.
  unfold shift_ok. split_all; try reflexivity; exfalso; lia.
Qed.

(* both families; reading inside the PDU follows (a load outside would give None) *)
Theorem prefix_valid_translated p :
  Forall byte_ok p ->
  (nthb p 1 = c_IPV4_PREFIX /\ zlen p = sizeof_pdu_ipv4) \/ (nthb p 1 = c_IPV6_PREFIX /\ zlen p = sizeof_pdu_ipv6) ->
  rtr_prefix_pdu_is_valid_gen (to_host_pfx p) (Some 0) (nthb p 1) = Some (b2z (prefix_lengths_valid p)).
Proof.
  intros Hb [[Ht Hl]|[Ht Hl]].
  - apply prefix_valid_translated_v4; assumption.
  - apply prefix_valid_translated_v6; assumption.
Qed.

Example prefix_valid_translated_nonvacuous :
  let p := [1; 4; 0; 0; 0; 0; 0; 20; 1; 9; 24; 0; 10; 128; 0; 0; 0; 0; 253; 232] in
  let q := [1; 4; 0; 0; 0; 0; 0; 20; 1; 8; 24; 0; 10; 128; 0; 0; 0; 0; 253; 232] in
  Forall byte_ok p /\ nthb p 1 = c_IPV4_PREFIX /\ zlen p = sizeof_pdu_ipv4 /\
  rtr_prefix_pdu_is_valid_gen (to_host_pfx p) (Some 0) 4 = Some 1 /\
  rtr_prefix_pdu_is_valid_gen (to_host_pfx q) (Some 0) 4 = Some 0.
Proof.
  cbv zeta. split; [repeat constructor; unfold byte_ok; lia|]. repeat split; vm_compute; reflexivity.
Qed.
