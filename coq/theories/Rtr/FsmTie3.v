(* FsmTie3.v - third stage of the translated RTR state machine: rtr_receive_pdu (Gen/GeneratedFsm3.v, tools/c2v.py class
   TrEff3) interpreted in the model's monad (interp3) and compared with the model's receive_pdu.  Builds on FsmTie / FsmTie2.

   WHAT IS PROVED FOR EVERY WORLD (section 4):
     recv_shutdown      state RTR_SHUTDOWN;
     recv_header_fails  tr_recv_all for the header yields a (negative) code: the whole error label for transport codes
                        (RTR_ERROR_TRANSPORT for -1; TR_WOULDBLOCK / TR_INTR / TR_CLOSED handed through; RTR_ERROR_FATAL else)
   both in the form  interp3 fuel (rtr_receive_pdu_gen m (Some 0) len t (sock_store (sk w))) [] w = Some (as_recv (fun _ => m) (receive_pdu t) w).
   WHAT IS CHECKED BY COMPUTATION ON CLOSED WORLDS (section 3, 41 scripts; `agree`: result code, final world with trace,
   final socket fields, and on success the whole 3248-byte buffer equal to the model's PDU in host order):
     every PDU type incl. split delivery and two PDUs in one segment; live downgrade / version check / exemption of
     Error Reports (C13); length < 8, > RTR_MAX_PDU_LEN, size inconsistent with the type, unknown type, inconsistent
     Error Report lengths, with the Error Report that is sent (C04, C14); every transport outcome in the header and in
     the payload phase, the stop event, the end of the script.
   THE GAP: no theorem for arbitrary worlds yet covers the paths on which a header HAS been read (length checks,
   version logic, payload, rtr_pdu_check_size, footer conversion, the Error Reports).  What it needs: the memory facts
   mwrite/mcopy on a buffer with an 8-byte prefix, FooterTie.recv_buffer_of_wire for the local header, CheckSizeTie /
   RecvProofs.check_size_local for the padded buffer, FooterTie.footer_translated for the footer.
   DIFFERENCES between code and model: recv_positive_error_code_differs (a script with EvErr of a negative code);
   buffer_shape_differs_from_stage2 (what FsmTie2.in_buffer assumes about the buffer's body). *)
From Coq Require Import ZifyBool.
From RtrV Require Import Base.CSem Base.Mem Base.MemW Base.Eff Base.EffMem Gen.Generated Gen.GeneratedMem Gen.GeneratedMemW
  Gen.GeneratedFsm3 Rtr.RtrModel Rtr.RelFrame Rtr.ExpiryTac Rtr.SyncSets Rtr.ExpiryFrames Rtr.ConvergeStutter
  Rtr.ExpiryProofs Rtr.CheckSizeTie Rtr.FooterTie Rtr.FsmTie Rtr.FsmTie2.
Local Open Scope string_scope.
Local Open Scope Z_scope.

(* ====================================================================================================== *)
(* 1. interpretation                                                                                        *)
(* ====================================================================================================== *)
(* rtr_send_error_pdu_from_network(socket, pdu, len, code, txt, txt_len): argument list
   [length of the bytes behind pdu; those bytes...; len; code; (0 for a null txt | length of the text object; its
   bytes...); txt_len].  The PDU bytes are sent as they are (network order). *)
Definition decode_net_args (args : list Z) : list byte * Z * list byte :=
  let n := Z.to_nat (nth 0 args 0) in
  let obj := firstn n (skipn 1 args) in
  let r := skipn (S n) args in
  let len := nth 0 r 0 in
  let code := nth 1 r 0 in
  let tn := Z.to_nat (nth 2 r 0) in
  let txt := firstn tn (skipn 3 r) in
  let tlen := nth tn (skipn 3 r) 0 in
  (firstn (Z.to_nat len) obj, code, firstn (Z.to_nat tlen) txt).

(* the functions rtr_receive_pdu calls and does not translate:
     tr_recv_all [len; timeout]  the model's tr_recv_all: the number of bytes and the bytes for [inr b], the code for [inl c];
     snprintf [42; format...; 3248]  only the one use in the function: the text the model calls txt_too_big (TRUSTED:
                          that this is what the format yields); 41 characters written;
     rtr_send_error_pdu_from_network  the model's send_error_pdu;
   everything else as in stages 1 and 2. *)
Definition ext_call3 (fuel : nat) (f : string) (args : list Z) : option (world -> res (list Z)) :=
  if String.eqb f "tr_recv_all" then
    Some (mdo r <- tr_recv_all (nth 0 args 0) (nth 1 args 0);
          ret (match r with inr b => zlen b :: b | inl c => [c] end))
  else if String.eqb f "snprintf" then
    if (nth 0 args 0 =? 42) && (last args 0 =? c_RTR_MAX_PDU_LEN) then Some (ret (41 :: txt_too_big)) else None
  else if String.eqb f "rtr_send_error_pdu_from_network" then
    let '(enc, code, txt) := decode_net_args args in
    Some (mdo r <- send_error_pdu enc code txt; ret [r])
  else ext_call2 fuel f args.

(* [buf]: the content of the buffer parameter as last reported by the pseudo-call c2v_ret_buffer (which the translator
   puts in front of every return of a function that writes its buffer parameter) *)
Fixpoint interp3 (fuel : nat) (e : eff) (buf : list Z) (w : world) {struct e} : option (res (Z * store * list Z)) :=
  match e with
  | ERet r s => Some (Ok (r, s, buf) (with_sk w (store_sock s)))
  | EUndef => None
  | ECall f args s k =>
    if String.eqb f "c2v_ret_buffer" then interp3 fuel (k [] s) args w
    else
    match ext_call3 fuel f args with
    | None => None
    | Some m =>
      match m (with_sk w (store_sock s)) with
      | Ok rs w' => interp3 fuel (k rs (store_after s (sk w'))) buf w'
      | Exc x w' => Some (Exc x w')
      end
    end
  end.

(* ====================================================================================================== *)
(* 2. what the model says, in the shape of the C function's results                                         *)
(* ====================================================================================================== *)
(* success: RTR_SUCCESS and the PDU in the buffer - header AND body fields in host byte order (footer_host over
   header_host, both of Rtr/FooterTie.v; header_host leaves bytes 2-3 of a Router Key PDU alone, they are two
   one-byte fields there), the rest of the buffer as before; failure: the code, and the
   buffer is not looked at *)
Definition recv_expect (m0 : list Z) (timeout : Z) (w : world) : res (Z * list Z) :=
  match receive_pdu timeout w with
  | Ok (inr p) w' => Ok (0, st_list m0 0 (footer_host (header_host p))) w'
  | Ok (inl c) w' => Ok (c, []) w'
  | Exc x w' => Exc x w'
  end.
Definition recv_run (m0 : list Z) (len timeout : Z) (w : world) : option (res (Z * list Z)) :=
  match interp3 0 (rtr_receive_pdu_gen m0 (Some 0) len timeout (sock_store (sk w))) [] w with
  | Some (Ok (r, s, buf) w') =>
    if list_eqb Z.eqb (map snd s) (map snd (sock_store (sk w')))
    then Some (Ok (r, if r =? 0 then buf else []) w') else None
  | Some (Exc x w') => Some (Exc x w')
  | None => None
  end.

(* ====================================================================================================== *)
(* 3. by computation on closed worlds: every phase of the function                                          *)
(* ====================================================================================================== *)
Definition rsock (ver : Z) (hr : bool) : sock := mkSock c_RTR_SYNC ver 7 false 42 900 3600 7200 600 0 hr false.
Definition rworld (ver : Z) (hr : bool) (es : list ev) : world := mkW (rsock ver hr) [] [] es [] [] 1000 [].
Definition m0 : list Z := zeros c_RTR_MAX_PDU_LEN.
Definition agree (t : Z) (w : world) : Prop := recv_run m0 c_RTR_MAX_PDU_LEN t w = Some (recv_expect m0 t w).

Definition p_notify := [1;0;0;7;0;0;0;12;0;0;1;5].
Definition p_response := [1;3;0;7;0;0;0;8].
Definition p_ipv4 := [1;4;0;0;0;0;0;20;1;24;24;0;10;1;2;0;0;0;253;232].
Definition p_ipv6 := [1;6;0;0;0;0;0;32;1;48;48;0;32;1;13;184;0;0;0;0;0;0;0;0;0;0;0;0;0;0;253;232].
Definition p_eod1 := [1;7;0;7;0;0;0;24;0;0;1;6;0;0;14;16;0;0;2;88;0;0;28;32].
Definition p_eod0 := [0;7;0;7;0;0;0;12;0;0;1;6].
Definition p_reset := [1;8;0;0;0;0;0;8].
Definition p_error := [1;10;0;2;0;0;0;26; 0;0;0;8; 1;2;0;0;0;0;0;8; 0;0;0;2; 104;105].
Definition p_key := ([1;9;1;0;0;0;0;123] ++ repeat 7 20 ++ [0;0;253;232] ++ repeat 9 91)%list.
Definition p_small := [1;3;0;7;0;0;0;4].
Definition p_big := [1;3;0;7;0;0;19;136].
Definition p_badsize := [1;3;0;7;0;0;0;12;9;9;9;9].
Definition p_badtype := [1;5;0;0;0;0;0;8].

Example recv_success :
  agree 60 (rworld 1 true [EvData p_notify]) /\ agree 60 (rworld 1 true [EvData p_response]) /\
  agree 60 (rworld 1 true [EvData p_ipv4]) /\ agree 60 (rworld 1 true [EvData p_ipv6]) /\
  agree 60 (rworld 1 true [EvData p_eod1]) /\ agree 60 (rworld 0 true [EvData p_eod0]) /\
  agree 60 (rworld 1 true [EvData p_reset]) /\ agree 60 (rworld 1 true [EvData p_error]) /\
  agree 60 (rworld 1 true [EvData (p_response ++ p_ipv4)]) /\ agree 60 (rworld 1 true [EvData p_key]) /\
  agree 60 (rworld 1 true [EvData [1;4;0]; EvWait 5; EvData [0;0;0;0;20;1;24]; EvData [24;0;10;1;2;0;0;0;253;232]]).
Proof. unfold agree. repeat match goal with |- _ /\ _ => split end; vm_compute; reflexivity. Qed.
(* C13: live downgrade on the first PDU, version check afterwards, error reports exempt *)
Example recv_versions :
  agree 60 (rworld 1 false [EvData p_eod0]) /\ agree 60 (rworld 1 true [EvData p_eod0]) /\
  agree 60 (rworld 0 false [EvData p_response]) /\ agree 60 (rworld 0 true [EvData p_error]) /\
  agree 60 (rworld 1 false [EvData [0;10;0;2;0;0;0;16;0;0;0;0;0;0;0;0]]).
Proof. unfold agree. repeat match goal with |- _ /\ _ => split end; vm_compute; reflexivity. Qed.
(* C04 / C14: lengths, sizes, unknown types - and which Error Report goes out *)
Example recv_rejects :
  agree 60 (rworld 1 true [EvData p_small]) /\ agree 60 (rworld 1 true [EvData p_big]) /\
  agree 60 (rworld 1 true [EvData p_badsize]) /\ agree 60 (rworld 1 true [EvData p_badtype]) /\
  agree 60 (rworld 1 true [EvData [1;10;0;2;0;0;0;20; 0;0;0;9; 1;2;3;4; 0;0;0;0]]).
Proof. unfold agree. repeat match goal with |- _ /\ _ => split end; vm_compute; reflexivity. Qed.
(* transport: error, timeout, interrupt, close, an unknown code, the stop event, the end of the script, a failure in the payload *)
Example recv_transport :
  agree 60 (rworld 1 true [EvErr 1]) /\ agree 60 (rworld 1 true [EvWait 100]) /\ agree 60 (rworld 1 true [EvErr 3]) /\
  agree 60 (rworld 1 true [EvErr 4]) /\ agree 60 (rworld 1 true [EvErr 7]) /\ agree 60 (rworld 1 true [EvStop]) /\
  agree 60 (rworld 1 true []) /\ agree 60 (rworld 1 true [EvData [1;4;0;0;0;0;0;20;1]; EvErr 4]) /\
  agree 60 (rworld 1 true [EvData [1;4;0;0;0;0;0;20;1]; EvWait 100]) /\
  agree 60 (mkW (upd_st (rsock 1 true) c_RTR_SHUTDOWN) [] [] [EvData p_reset] [] [] 1000 []).
Proof. unfold agree. repeat match goal with |- _ /\ _ => split end; vm_compute; reflexivity. Qed.

(* ====================================================================================================== *)
(* 4. proved for every world: the paths that end before a header has been read                              *)
(* ====================================================================================================== *)
Section Calls3.
Variable fuel : nat.
Variables (s : store) (k : list Z -> store -> eff) (buf : list Z) (w : world).
Let w0 := with_sk w (store_sock s).
Lemma i3_ret_buffer args : interp3 fuel (ECall "c2v_ret_buffer" args s k) buf w = interp3 fuel (k [] s) args w.
Proof. reflexivity. Qed.
Lemma i3_recv_all n t : interp3 fuel (ECall "tr_recv_all" ([n] ++ [t])%list s k) buf w =
  xbind (tr_recv_all n t)
        (fun r w' => interp3 fuel (k (match r with inr b => zlen b :: b | inl c => [c] end) (store_after s (sk w'))) buf w') w0.
Proof.
  cbn [interp3 app]. change (String.eqb "tr_recv_all" "c2v_ret_buffer") with false. cbv iota.
  change (ext_call3 fuel "tr_recv_all" [n; t]) with
    (Some (mdo r <- tr_recv_all n t; ret (match r with inr b => zlen b :: b | inl c => [c] end))).
  cbv beta iota. unfold xbind, bind. fold w0. destruct (tr_recv_all n t w0); reflexivity.
Qed.
Lemma i3_change_state n : interp3 fuel (ECall "rtr_change_socket_state" ([n])%list s k) buf w =
  interp3 fuel (k [] (store_after s (sk (state_changed n w0)))) buf (state_changed n w0).
Proof.
  cbn [interp3]. change (String.eqb "rtr_change_socket_state" "c2v_ret_buffer") with false. cbv iota.
  change (ext_call3 fuel "rtr_change_socket_state" [n]) with (Some (mdo _ <- change_state n; ret (@nil Z))).
  cbv beta iota. fold w0. unfold bind. rewrite change_state_eq'. reflexivity.
Qed.
End Calls3.

(* the model's result in the C function's terms, with the buffer as the caller finds it *)
Definition as_recv (bufk : Z + list byte -> list Z) (m : world -> res (Z + list byte)) : world -> res (Z * store * list Z) :=
  mdo r <- m; fun w => Ok (match r with inr _ => 0 | inl c => c end, sock_store (sk w), bufk r) w.

(* RTR_SHUTDOWN: nothing is received, the buffer is untouched *)
Theorem recv_shutdown fuel m len t w :
  c_RTR_MAX_PDU_LEN <= len -> st (sk w) = c_RTR_SHUTDOWN ->
  interp3 fuel (rtr_receive_pdu_gen m (Some 0) len t (sock_store (sk w))) [] w =
  Some (as_recv (fun _ => m) (receive_pdu t) w).
Proof.
  intros Hl Hs. unfold rtr_receive_pdu_gen. cbv zeta. change (wrapu 64 c_RTR_MAX_PDU_LEN) with c_RTR_MAX_PDU_LEN.
  replace (len >=? c_RTR_MAX_PDU_LEN) with true by lia. cbn [eguard].
  rewrite sg_state, Hs. closed_eqb. rewrite i3_ret_buffer. cbn [interp3]. rewrite with_sk_store.
  unfold as_recv, receive_pdu. rewrite bind_assoc, bind_get_sk, Hs. closed_eqb. reflexivity.
Qed.

(* the header cannot be read (transport error, timeout, interrupt, close, anything else negative): recv_err *)
Theorem recv_header_fails fuel m len t w c w1 :
  c_RTR_MAX_PDU_LEN <= len -> 8 <= zlen m -> 0 <= st (sk w) < 2^32 -> st (sk w) <> c_RTR_SHUTDOWN ->
  tr_recv_all 8 t w = Ok (inl c) w1 -> c < 0 ->
  interp3 fuel (rtr_receive_pdu_gen m (Some 0) len t (sock_store (sk w))) [] w =
  Some (as_recv (fun _ => m) (receive_pdu t) w).
Proof.
  intros Hl Hm Hr Hs E Hc. unfold rtr_receive_pdu_gen. cbv zeta. change (wrapu 64 c_RTR_MAX_PDU_LEN) with c_RTR_MAX_PDU_LEN.
  replace (len >=? c_RTR_MAX_PDU_LEN) with true by lia. cbn [eguard].
  rewrite sg_state, wrapu32_id by exact Hr. change (wrapu 32 9) with c_RTR_SHUTDOWN.
  replace (st (sk w) =? c_RTR_SHUTDOWN) with false by lia.
  unfold st_ok, ld_ok. unfold zlen in Hm. replace ((0 <=? 0) && (0 + 8 <=? Z.of_nat (List.length m))) with true by lia.
  cbn [eguard]. rewrite i3_recv_all, with_sk_store. unfold xbind. rewrite E. rewrite store_after_plain.
  cbv zeta. cbn [nth skipn firstn]. change (mwrite m (Some 0) []) with m.
  replace (c <? 0) with true by lia.
  unfold as_recv, receive_pdu. rewrite bind_assoc, bind_get_sk.
  replace (st (sk w) =? c_RTR_SHUTDOWN) with false by lia. rewrite bind_assoc. unfold bind at 1. rewrite E.
  unfold recv_err.
  destruct (c =? -1) eqn:E1.
  { replace c with (-1) by lia. cbn [Z.eqb Pos.eqb]. cbv iota. change (- (1)) with (-1). cbn [Z.eqb Pos.eqb]. cbv iota.
    change (wrapu 32 8) with c_RTR_ERROR_TRANSPORT.
    rewrite i3_change_state, with_sk_store, store_after_plain, i3_ret_buffer. cbn [interp3]. rewrite with_sk_store.
    unfold bind. rewrite change_state_eq'. reflexivity. }
  change (- (1)) with (-1). rewrite E1.
  destruct (c =? -2) eqn:E2; [rewrite i3_ret_buffer; cbn [interp3]; rewrite with_sk_store; replace c with (-2) by lia; reflexivity|].
  destruct (c =? -3) eqn:E3; [rewrite i3_ret_buffer; cbn [interp3]; rewrite with_sk_store; replace c with (-3) by lia; reflexivity|].
  destruct (c =? -4) eqn:E4; [rewrite i3_ret_buffer; cbn [interp3]; rewrite with_sk_store; replace c with (-4) by lia; reflexivity|].
  replace (c =? 0) with false by lia. replace (c =? 32) with false by lia. replace (c =? 5) with false by lia.
  replace (c =? 4) with false by lia. replace (c =? 8) with false by lia.
  change (wrapu 32 7) with c_RTR_ERROR_FATAL.
  rewrite i3_change_state, with_sk_store, store_after_plain, i3_ret_buffer. cbn [interp3]. rewrite with_sk_store.
  unfold bind. rewrite change_state_eq'. reflexivity.
Qed.

(* the hypothesis c < 0 is needed: the model's mock transport reports -code for a scripted EvErr code, and nothing
   keeps a script from saying EvErr (-5): the model then sees the "error" 5 and gives up, the C sees tr_recv_all
   return 5 >= 0, takes it for success and goes on with an unwritten header *)
Example recv_positive_error_code_differs :
  recv_run m0 c_RTR_MAX_PDU_LEN 60 (rworld 1 true [EvErr (-5)]) <> Some (recv_expect m0 60 (rworld 1 true [EvErr (-5)])).
Proof. vm_compute. intros H. discriminate H. Qed.

(* what stage 2 assumes about the buffer (FsmTie2.in_buffer = pad_buf len (to_host p): header fields converted, body as
   received) is NOT what rtr_receive_pdu leaves there: the body fields are converted too (footer_host), and bytes 2-3 of
   a Router Key PDU are not swapped.  The bytes stage 2's readers load (version, type, the 16-bit field of Error and
   Cache Response PDUs) are the same in both. *)
Example buffer_shape_differs_from_stage2 :
  header_host p_key <> to_host p_key /\ footer_host (header_host p_ipv4) <> to_host p_ipv4 /\
  firstn 4 (footer_host (header_host p_error)) = firstn 4 (to_host p_error) /\
  firstn 4 (footer_host (header_host p_response)) = firstn 4 (to_host p_response).
Proof. vm_compute. repeat split; congruence. Qed.

Example no_translator_problems3 : fsm3_translator_problems = []. Proof. reflexivity. Qed.

Print Assumptions recv_shutdown.
Print Assumptions recv_header_fails.
Print Assumptions recv_success.
Print Assumptions recv_versions.
Print Assumptions recv_rejects.
Print Assumptions recv_transport.
Print Assumptions recv_positive_error_code_differs.
