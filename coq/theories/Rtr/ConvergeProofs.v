(* ConvergeProofs.v - C08: the consistency invariant in every reachable world, one truthful exchange
   synchronises the client with the cache (Rtr/CacheSpec.v), bounded recovery from every single error state. *)
From Coq Require Import Permutation.
From RtrV Require Import Base.CSem Gen.Generated Rtr.RtrModel Rtr.RelFrame Rtr.ExpiryTac Rtr.SyncSets Rtr.ExpiryFrames
  Rtr.ExpirySync Rtr.ConvergeStutter Rtr.ExpiryProofs.
Local Open Scope Z_scope.

(* ---------- C08_inv ---------- *)
(* what the bookkeeping says about the records, as far as it can be said without the cache *)
Definition consistent (w : world) : Prop :=
  Inv w /\
  (req_sess (sk w) = false -> last_update (sk w) <> 0 /\ resetting (sk w) = false) /\
  (last_update (sk w) = 0 -> req_sess (sk w) = true /\ no_data w).

Lemma Inv_consistent w : Inv w -> consistent w.
Proof.
  intros HI. split; [exact HI|]. destruct HI as ((_ & _ & _ & _ & T5 & T6) & _ & _ & HD).
  split.
  - intros Hq. split; [|apply T6, Hq]. intros H0. rewrite (T5 H0) in Hq. discriminate.
  - intros H0. split; [apply T5, H0|apply HD, H0].
Qed.

Theorem consistent_reachable n fuel w : Inv w -> consistent (run_fsm n fuel w).
Proof. intros HI. apply Inv_consistent, run_fsm_Inv, HI. Qed.

(* ---------- process_eod on a response that applies ---------- *)
From RtrV Require Import Rtr.CacheSpec.

Definition env_same (w w' : world) : Prop :=
  evs w' = evs w /\ opens w' = opens w /\ sends w' = sends w /\ now w' = now w.

Lemma process_eod_success p v4 v6 ks w :
  get16 p 2 = session_id (sk w) ->
  let P0 := if resetting (sk w) then oth_p (pfx w) else pfx w in
  let K0 := if resetting (sk w) then oth_k (keys w) else keys w in
  applies_p (v4 ++ v6) P0 -> applies_k ks K0 ->
  okay (process_eod p v4 v6 ks) w
    (fun r w' => r = 0 /\ pfx w' = fold_left delta_p (v4 ++ v6) P0 /\ keys w' = fold_left delta_k ks K0 /\
                 sk w' = upd_serial (apply_eod_intervals (sk w) p) (get32 p 8) /\ env_same w w').
Proof.
  intros Hs P0 K0 HaP HaK. unfold process_eod. walk1.
  assert (Es : negb (get16 p 2 =? session_id (sk w)) = false) by (rewrite Hs, Z.eqb_refl; reflexivity).
  rewrite Es. walk1. walk1. cbv zeta.
  set (w1 := with_sk w (apply_eod_intervals (sk w) p)).
  apply (applies_app prec prec_eqb prec_of_pdu) in HaP. destruct HaP as [Ha4 Ha6].
  change (if resetting (sk w) then filter (fun r => negb (psrc r =? 1)) (pfx w1) else pfx w1) with P0.
  change (if resetting (sk w) then filter (fun r => negb (ksrc r =? 1)) (keys w1) else keys w1) with K0.
  rewrite apply_pfx_gen.
  destruct (gapply_ok prec prec_eqb prec_eqb_eq prec_of_pdu TPfx (negb (resetting (sk w))) v4 P0 [] Ha4) as (t1 & ->).
  rewrite apply_pfx_gen.
  destruct (gapply_ok prec prec_eqb prec_eqb_eq prec_of_pdu TPfx (negb (resetting (sk w))) v6 _ [] Ha6) as (t3 & ->).
  rewrite apply_keys_gen.
  destruct (gapply_ok krec krec_eqb krec_eqb_eq krec_of_pdu TKey (negb (resetting (sk w))) ks K0 [] HaK) as (t5 & ->).
  destruct (resetting (sk w)) eqn:Er; cbn [negb]; repeat walk1; apply okay_ret;
    unfold env_same; subst w1; cbn [pfx keys sk evs opens sends now with_out with_tables with_sk];
    rewrite fold_left_app; auto 10.
Qed.

(* ---------- the receive loop on a script that delivers a response ---------- *)
From RtrV Require Import Rtr.ConvergeRecv.

Lemma type_cases p v : payload_ok v p ->
  (nthb p 1 = c_IPV4_PREFIX /\ is_v4 p = true /\ is_v6 p = false /\ is_key p = false) \/
  (nthb p 1 = c_IPV6_PREFIX /\ is_v4 p = false /\ is_v6 p = true /\ is_key p = false) \/
  (nthb p 1 = c_ROUTER_KEY /\ is_v4 p = false /\ is_v6 p = false /\ is_key p = true).
Proof.
  intros (_ & Ht & _). unfold is_v4, is_v6, is_key in *.
  destruct Ht as [H|[H|H]]; apply Z.eqb_eq in H; rewrite H; [left|right; left|right; right]; repeat split; reflexivity.
Qed.

Lemma store_loop_data ds : forall fuel v4 v6 ks w B tail eod,
  (List.length ds < fuel)%nat ->
  Forall (payload_ok (version (sk w))) ds -> pdu_ok (version (sk w)) eod -> nthb eod 1 = c_EOD ->
  (version (sk w) = 0 \/ version (sk w) = 1) -> st (sk w) <> c_RTR_SHUTDOWN -> has_recv (sk w) = true ->
  delivers (evs w) (concat ds ++ eod ++ B) tail ->
  exists w1, store_loop fuel v4 v6 ks w =
             process_eod eod (v4 ++ filter is_v4 ds) (v6 ++ filter is_v6 ds) (ks ++ filter is_key ds) w1 /\
             delivers (evs w1) B tail /\ rest_same w w1.
Proof.
  induction ds as [|d ds IH]; intros fuel v4 v6 ks w B tail eod Hf Hds Heod Hty Hver Hst Hhr Hd;
    (destruct fuel as [|f]; [cbn in Hf; lia|]); cbn [store_loop].
  - cbn [concat app] in Hd.
    destruct (receive_pdu_data c_RTR_RECV_TIMEOUT w eod B tail Heod Hver Hst Hd) as (w1 & E & Hd1 & S1 & S2 & S3 & S4 & S5 & S6).
    rewrite (bind_eq _ _ _ _ _ E). cbv zeta. rewrite Hty. const_dec. cbn [filter]. rewrite !app_nil_r.
    exists w1. split; [reflexivity|]. split; [exact Hd1|]. rewrite Hhr in S1. unfold rest_same. auto 10.
  - inversion Hds as [|? ? Hd0 Hds']; subst. cbn [concat] in Hd. rewrite <- app_assoc in Hd.
    destruct Hd0 as (Hpok & Htyp & Hpl & Hfl).
    destruct (receive_pdu_data c_RTR_RECV_TIMEOUT w d _ tail Hpok Hver Hst Hd) as (w1 & E & Hd1 & S1 & S2 & S3 & S4 & S5 & S6).
    rewrite (bind_eq _ _ _ _ _ E). cbv zeta. rewrite Hhr in S1.
    assert (Hrs : rest_same w w1) by (unfold rest_same; auto 10).
    assert (IH' : forall a b c, exists w2, store_loop f a b c w1 =
               process_eod eod (a ++ filter is_v4 ds) (b ++ filter is_v6 ds) (c ++ filter is_key ds) w2 /\
               delivers (evs w2) B tail /\ rest_same w w2).
    { intros a b c.
      assert (G1 : Forall (payload_ok (version (sk w1))) ds) by (rewrite S1; assumption).
      assert (G2 : pdu_ok (version (sk w1)) eod) by (rewrite S1; assumption).
      assert (G3 : version (sk w1) = 0 \/ version (sk w1) = 1) by (rewrite S1; assumption).
      assert (G4 : st (sk w1) <> c_RTR_SHUTDOWN) by (rewrite S1; assumption).
      assert (G5 : has_recv (sk w1) = true) by (rewrite S1; assumption).
      assert (G0 : (List.length ds < f)%nat) by (cbn in Hf; lia).
      destruct (IH f a b c w1 B tail eod G0 G1 G2 Hty G3 G4 G5 Hd1) as (w2 & E2 & Hd2 & Hs2).
      exists w2. split; [exact E2|]. split; [exact Hd2|eapply rest_same_trans; eauto]. }
    destruct (type_cases d _ (conj Hpok (conj Htyp (conj Hpl Hfl)))) as [(T & A1 & A2 & A3)|[(T & A1 & A2 & A3)|(T & A1 & A2 & A3)]];
      cbn [filter]; rewrite A1, A2, A3, T; const_dec.
    + rewrite (Hpl A3). cbn [negb]. destruct (IH' (v4 ++ [d]) v6 ks) as (w2 & E2 & R). rewrite <- app_assoc in E2. exists w2. split; [exact E2|exact R].
    + rewrite (Hpl A3). cbn [negb]. destruct (IH' v4 (v6 ++ [d]) ks) as (w2 & E2 & R). rewrite <- app_assoc in E2. exists w2. split; [exact E2|exact R].
    + destruct (IH' v4 v6 (ks ++ [d])) as (w2 & E2 & R). rewrite <- app_assoc in E2. exists w2. split; [exact E2|exact R].
Qed.

(* ---------- one complete, well-formed response in state SYNC ---------- *)
(* will the response be applied to shadow tables? (decided when the Cache Response arrives) *)
Definition reset_mode (w : world) : bool :=
  if req_sess (sk w) then (if negb (last_update (sk w) =? 0) then true else resetting (sk w)) else resetting (sk w).

Lemma okay_to_eq {A} (m : world -> res A) w (Q : A -> world -> Prop) : okay m w Q -> exists a w', m w = Ok a w' /\ Q a w'.
Proof. apply okay_eq. Qed.

Lemma apply_eod_fields s p :
  st (apply_eod_intervals s p) = st s /\ version (apply_eod_intervals s p) = version s /\
  session_id (apply_eod_intervals s p) = session_id s /\ serial (apply_eod_intervals s p) = serial s /\
  req_sess (apply_eod_intervals s p) = req_sess s /\ resetting (apply_eod_intervals s p) = resetting s /\
  last_update (apply_eod_intervals s p) = last_update s.
Proof. unfold apply_eod_intervals. destruct (_ && _); cbn; auto 10. Qed.

Lemma synced_fields s t :
  let s5 := upd_last (upd_req (if resetting s then upd_resetting s false else s) false) t in
  st s5 = st s /\ serial s5 = serial s /\ session_id s5 = session_id s /\ req_sess s5 = false /\ resetting s5 = false /\
  last_update s5 = t /\ version s5 = version s.
Proof. cbv zeta. destruct (resetting s) eqn:E; cbn; auto 10. Qed.

Theorem exchange_core f w cr ds eod B tail :
  st (sk w) = c_RTR_SYNC -> (version (sk w) = 0 \/ version (sk w) = 1) ->
  pdu_ok (version (sk w)) cr -> nthb cr 1 = c_CACHE_RESPONSE ->
  Forall (payload_ok (version (sk w))) ds -> pdu_ok (version (sk w)) eod -> nthb eod 1 = c_EOD ->
  get16 eod 2 = get16 cr 2 ->
  (req_sess (sk w) = true \/ session_id (sk w) = get16 cr 2) ->
  delivers (evs w) (cr ++ concat ds ++ eod ++ B) tail ->
  (List.length ds < f)%nat ->
  let P0 := if reset_mode w then oth_p (pfx w) else pfx w in
  let K0 := if reset_mode w then oth_k (keys w) else keys w in
  applies_p (filter is_v4 ds ++ filter is_v6 ds) P0 -> applies_k (filter is_key ds) K0 ->
  exists w', fsm_step (S f) w = Ok tt w' /\ st (sk w') = c_RTR_ESTABLISHED /\
    pfx w' = fold_left delta_p (filter is_v4 ds ++ filter is_v6 ds) P0 /\
    keys w' = fold_left delta_k (filter is_key ds) K0 /\
    session_id (sk w') = get16 cr 2 /\ serial (sk w') = get32 eod 8 /\ req_sess (sk w') = false /\
    resetting (sk w') = false /\ last_update (sk w') = now w /\ version (sk w') = version (sk w) /\
    now w' = now w /\ delivers (evs w') B tail /\ opens w' = opens w /\ sends w' = sends w.
Proof.
  intros Hst Hver Hcr Hcrt Hds Heod Heodt Hsess Hq Hd Hf P0 K0 HaP HaK.
  assert (Hns : st (sk w) <> c_RTR_SHUTDOWN) by (rewrite Hst; discriminate).
  (* the Cache Response *)
  destruct (receive_pdu_data c_RTR_RECV_TIMEOUT w cr _ tail Hcr Hver Hns Hd) as (w1 & E1 & Hd1 & S1 & S2 & S3 & S4 & S5 & S6).
  set (s1 := if has_recv (sk w) then sk w else seen (sk w)) in *.
  assert (Fs : st s1 = st (sk w) /\ version s1 = version (sk w) /\ session_id s1 = session_id (sk w) /\ req_sess s1 = req_sess (sk w) /\
               serial s1 = serial (sk w) /\ last_update s1 = last_update (sk w) /\ resetting s1 = resetting (sk w) /\ has_recv s1 = true).
  { subst s1. destruct (has_recv (sk w)) eqn:Eh; cbn; auto 10. }
  destruct Fs as (F1 & F2 & F3 & F4 & F5 & F6 & F7 & F8).
  assert (Esf : sync_first (S f) w = Ok (Some cr) w1).
  { cbn [sync_first]. rewrite (bind_eq _ _ _ _ _ E1). rewrite Hcrt. const_dec. reflexivity. }
  (* the session id is taken or checked; w2 is the world in which the payload is received *)
  set (s2 := if req_sess (sk w) then upd_session (if negb (last_update (sk w) =? 0) then upd_resetting s1 true else s1) (get16 cr 2) else s1).
  set (w2 := with_sk w1 s2).
  assert (G : st s2 = st (sk w) /\ version s2 = version (sk w) /\ session_id s2 = get16 cr 2 /\ req_sess s2 = req_sess (sk w) /\
              last_update s2 = last_update (sk w) /\ resetting s2 = reset_mode w /\ has_recv s2 = true).
  { subst s2. unfold reset_mode. destruct (req_sess (sk w)) eqn:Er.
    - destruct (negb (last_update (sk w) =? 0)); cbn [st version session_id req_sess last_update resetting has_recv upd_session upd_resetting]; auto 10.
    - destruct Hq as [Hq|Hq]; [discriminate|]. rewrite F1, F2, F3, F4, F6, F7, F8. auto 10. }
  destruct G as (G1 & G2 & G3 & G4 & G5 & G6 & G7).
  assert (Hds2 : Forall (payload_ok (version (sk w2))) ds) by (subst w2; cbn [sk with_sk]; rewrite G2; exact Hds).
  assert (Heod2 : pdu_ok (version (sk w2)) eod) by (subst w2; cbn [sk with_sk]; rewrite G2; exact Heod).
  assert (Hver2 : version (sk w2) = 0 \/ version (sk w2) = 1) by (subst w2; cbn [sk with_sk]; rewrite G2; exact Hver).
  assert (Hst2 : st (sk w2) <> c_RTR_SHUTDOWN) by (subst w2; cbn [sk with_sk]; rewrite G1; exact Hns).
  assert (Hhr2 : has_recv (sk w2) = true) by (subst w2; exact G7).
  assert (Hd2 : delivers (evs w2) (concat ds ++ eod ++ B) tail) by (subst w2; exact Hd1).
  assert (Hf' : (List.length ds < S f)%nat) by lia.
  destruct (store_loop_data ds (S f) [] [] [] w2 B tail eod Hf' Hds2 Heod2 Heodt Hver2 Hst2 Hhr2 Hd2) as (w3 & E3 & Hd3 & R3).
  cbn [app] in E3. destruct R3 as (R1 & R2 & R3 & R4 & R5 & R6).
  (* End of Data: everything applies *)
  assert (Hs3 : get16 eod 2 = session_id (sk w3)) by (rewrite R1; subst w2; cbn [sk with_sk]; rewrite G3; exact Hsess).
  assert (Hr3 : resetting (sk w3) = reset_mode w) by (rewrite R1; subst w2; exact G6).
  assert (HP3 : (if resetting (sk w3) then oth_p (pfx w3) else pfx w3) = P0).
  { rewrite Hr3, R2. subst w2 P0. cbn [pfx with_sk]. rewrite S2. reflexivity. }
  assert (HK3 : (if resetting (sk w3) then oth_k (keys w3) else keys w3) = K0).
  { rewrite Hr3, R3. subst w2 K0. cbn [keys with_sk]. rewrite S3. reflexivity. }
  pose proof (process_eod_success eod (filter is_v4 ds) (filter is_v6 ds) (filter is_key ds) w3 Hs3) as Hpe.
  cbv zeta in Hpe. rewrite HP3, HK3 in Hpe. specialize (Hpe HaP HaK).
  destruct (okay_to_eq _ _ _ Hpe) as (r & w4 & E4 & -> & P4 & K4 & Sk4 & (V1 & V2 & V3 & V4)).
  (* assemble *)
  set (s5 := upd_last (upd_req (if resetting (sk w4) then upd_resetting (sk w4) false else sk w4) false) (now w4)).
  assert (Ers : rtr_sync (S f) w = Ok 0 (with_sk w4 s5)).
  { unfold rtr_sync. rewrite (bind_eq _ _ _ _ _ Esf). cbv zeta. rewrite Hcrt. const_dec.
    rewrite (bind_eq get_sk _ w1 (sk w1) w1 eq_refl). rewrite S1, F4.
    assert (Eok : (if req_sess (sk w)
                   then mdo _ <- set_sk (upd_session (if negb (last_update s1 =? 0) then upd_resetting s1 true else s1) (get16 cr 2)); ret true
                   else if negb (session_id s1 =? get16 cr 2)
                        then mdo _ <- send_error_from_host [] c_CORRUPT_DATA txt_wrong_session; mdo _ <- change_state c_RTR_ERROR_FATAL; ret false
                        else ret true) w1 = Ok true w2).
    { subst w2 s2. rewrite F6. destruct (req_sess (sk w)) eqn:Er; [reflexivity|].
      destruct Hq as [Hq|Hq]; [discriminate|]. rewrite F3, Hq, Z.eqb_refl. cbn [negb]. unfold ret, with_sk. rewrite <- S1. destruct w1; reflexivity. }
    rewrite (bind_eq _ _ _ _ _ Eok). cbn [negb].
    assert (Eras : receive_and_store (S f) w2 = Ok 0 (with_sk w4 (if resetting (sk w4) then upd_resetting (sk w4) false else sk w4))).
    { unfold receive_and_store. rewrite (bind_eq _ _ _ _ _ (eq_trans E3 E4)). reflexivity. }
    rewrite (bind_eq _ _ _ _ _ Eras). cbn [Z.eqb]. reflexivity. }
  unfold fsm_step. rewrite (bind_eq get_sk _ w (sk w) w eq_refl). cbv zeta. rewrite Hst. const_dec.
  rewrite (bind_eq _ _ _ _ _ Ers). cbn [Z.eqb]. rewrite change_state_eq'.
  destruct (synced_fields (sk w4) (now w4)) as (Y1 & Y2 & Y3 & Y4 & Y5 & Y6 & Y7). fold s5 in Y1, Y2, Y3, Y4, Y5, Y6, Y7.
  destruct (apply_eod_fields (sk w3) eod) as (Z1 & Z2 & Z3 & Z4 & Z5 & Z6 & Z7).
  assert (Hsk3 : sk w3 = s2) by (rewrite R1; reflexivity).
  assert (Hst5 : st s5 = c_RTR_SYNC).
  { rewrite Y1, Sk4. cbn [st upd_serial]. rewrite Z1, Hsk3, G1. exact Hst. }
  unfold state_changed. cbn [sk with_sk]. rewrite Hst5. const_dec.
  eexists. split; [reflexivity|].
  cbn [sk pfx keys evs opens sends now with_sk with_out st upd_st].
  assert (Hser : serial s5 = get32 eod 8 /\ session_id s5 = get16 cr 2 /\ req_sess s5 = false /\ resetting s5 = false /\
                 last_update s5 = now w /\ version s5 = version (sk w)).
  { rewrite Y2, Y3, Y4, Y5, Y6, Y7, Sk4. cbn [serial session_id version upd_serial]. rewrite Z2, Z3, Hsk3, G2, G3, V4, R6.
    subst w2. cbn [now with_sk]. rewrite S6. auto 10. }
  destruct Hser as (U1 & U2 & U3 & U4 & U5 & U6).
  cbn [version session_id req_sess serial last_update resetting upd_st].
  rewrite P4, K4, V1, V2, V3, V4, R4, R5, R6. subst w2. cbn [opens sends now with_sk]. rewrite S4, S5, S6.
  repeat split; auto.
Qed.

(* ---------- a truthful answer to a Reset Query ---------- *)
Lemma Forall_filter {A} (P : A -> Prop) f (l : list A) : Forall P l -> Forall P (filter f l).
Proof. induction 1; cbn [filter]; [constructor|]. destruct (f x); [constructor|]; assumption. Qed.

Lemma dataset_parts v S : dataset_ok v S ->
  Forall (payload_ok v) S /\ Forall (fun p => pdu_flags p = 1) (filter is_v4 S ++ filter is_v6 S) /\
  Forall (fun p => pdu_flags p = 1) (filter is_key S) /\
  NoDup (map prec_of_pdu (filter is_v4 S ++ filter is_v6 S)) /\ NoDup (map krec_of_pdu (filter is_key S)) /\
  (forall x, In x (map prec_of_pdu (filter is_v4 S ++ filter is_v6 S)) <-> In x (precs S)).
Proof.
  intros (Hf & Hp & Hk).
  assert (H1 : Forall (payload_ok v) S) by (eapply Forall_impl; [|exact Hf]; cbv beta; tauto).
  assert (H2 : Forall (fun p => pdu_flags p = 1) S) by (eapply Forall_impl; [|exact Hf]; cbv beta; tauto).
  pose proof (split_perm v S H1) as Hperm.
  pose proof (Permutation_map prec_of_pdu Hperm) as Hpm. fold (precs S) in Hpm.
  split; [exact H1|]. split; [apply Forall_app; split; apply Forall_filter; exact H2|]. split; [apply Forall_filter; exact H2|].
  split; [eapply Permutation_NoDup; [apply Permutation_sym, Hpm|exact Hp]|]. split; [exact Hk|].
  intros x. split; intros Hx; [eapply Permutation_in; [exact Hpm|exact Hx]|eapply Permutation_in; [apply Permutation_sym, Hpm|exact Hx]].
Qed.

Lemma own_nil_iff {A} (src : A -> Z) (X : list A) : own A src X = [] -> forall x, In x (own A src X) <-> In x [].
Proof. intros ->. tauto. Qed.

Lemma concat_answer_reset c : concat (answer c QReset) = cache_response_pdu c ++ concat (c_data c) ++ eod_pdu c ++ [].
Proof. unfold answer. rewrite !concat_app. cbn [concat]. rewrite !app_nil_r. reflexivity. Qed.

Theorem good_reset_exchange f w c B tail :
  Inv w -> st (sk w) = c_RTR_SYNC -> req_sess (sk w) = true -> version (sk w) = c_ver c -> cache_ok c ->
  delivers (evs w) (concat (answer c QReset) ++ B) tail -> (List.length (c_data c) < f)%nat ->
  exists w', fsm_step (S f) w = Ok tt w' /\ st (sk w') = c_RTR_ESTABLISHED /\
    Permutation (own_p (pfx w')) (precs (c_data c)) /\ Permutation (own_k (keys w')) (krecs (c_data c)) /\
    oth_p (pfx w') = oth_p (pfx w) /\ oth_k (keys w') = oth_k (keys w) /\
    session_id (sk w') = c_session c /\ serial (sk w') = c_serial c /\ req_sess (sk w') = false /\
    last_update (sk w') = now w /\ now w' = now w /\ delivers (evs w') B tail /\ opens w' = opens w /\ sends w' = sends w.
Proof.
  intros HI Hst Hq Hv (Cv & Cs & Cn & Cd & _ & Ce & _) Hd Hf.
  destruct (cache_response_ok c Cv Cs) as (R1 & R2 & R3).
  destruct (eod_fields c Cs Cn) as (E1 & E2 & E3).
  destruct (dataset_parts _ _ Cd) as (D1 & D2 & D3 & D4 & D5 & D6).
  rewrite concat_answer_reset in Hd. rewrite app_nil_r, <- !app_assoc in Hd.
  set (P0 := if reset_mode w then oth_p (pfx w) else pfx w).
  set (K0 := if reset_mode w then oth_k (keys w) else keys w).
  destruct HI as (Ht & HnP & HnK & HD).
  assert (Hmode : reset_mode w = false -> no_data w).
  { unfold reset_mode. rewrite Hq. destruct (last_update (sk w) =? 0) eqn:El; cbn [negb]; [|discriminate].
    intros _. apply HD. apply Z.eqb_eq, El. }
  assert (HoP : own_p P0 = []) by (subst P0; destruct (reset_mode w); [apply own_oth_p|apply Hmode; reflexivity]).
  assert (HoK : own_k K0 = []) by (subst K0; destruct (reset_mode w); [apply own_oth_k|apply Hmode; reflexivity]).
  assert (HnP0 : NoDup P0) by (subst P0; destruct (reset_mode w); [apply NoDup_oth_p|]; exact HnP).
  assert (HnK0 : NoDup K0) by (subst K0; destruct (reset_mode w); [apply NoDup_oth_k|]; exact HnK).
  destruct (wd_all_announce prec prec_of_pdu _ D2) as (W1 & W2 & W3).
  destruct (wd_all_announce krec krec_of_pdu _ D3) as (X1 & X2 & X3).
  destruct (response_applies prec prec_eqb prec_eqb_eq prec_of_pdu psrc psrc_of_pdu P0 [] _ HnP0 (own_nil_iff psrc P0 HoP) W3 D4)
    as (AP & NP & OP & MP); [rewrite W1; intros r []|intros r _ []|].
  destruct (response_applies krec krec_eqb krec_eqb_eq krec_of_pdu ksrc ksrc_of_pdu K0 [] _ HnK0 (own_nil_iff ksrc K0 HoK) X3 D5)
    as (AK & NK & OK & MK); [rewrite X1; intros r []|intros r _ []|].
  assert (Hds : Forall (payload_ok (version (sk w))) (c_data c)) by (rewrite Hv; exact D1).
  destruct (exchange_core f w (cache_response_pdu c) (c_data c) (eod_pdu c) B tail Hst ltac:(rewrite Hv; exact Cv)
              ltac:(rewrite Hv; exact R1) R2 Hds ltac:(rewrite Hv; exact Ce) E1 ltac:(rewrite E2, R3; reflexivity)
              (or_introl Hq) Hd Hf AP AK)
    as (w' & Es & S1 & S2 & S3 & S4 & S5 & S6 & S7 & S8 & S9 & S10 & S11 & S12 & S13).
  exists w'. split; [exact Es|]. split; [exact S1|].
  fold P0 in S2. fold K0 in S3.
  split.
  { apply NoDup_Permutation; [rewrite S2; exact NP|apply Cd|].
    intros x. rewrite S2. unfold own_p. rewrite MP, W2, <- D6. cbn [In]. tauto. }
  split.
  { apply NoDup_Permutation; [rewrite S3; exact NK|apply Cd|].
    intros x. rewrite S3. unfold own_k. rewrite MK, X2. cbn [In]. unfold krecs. tauto. }
  split; [rewrite S2; unfold oth_p; rewrite OP; subst P0; destruct (reset_mode w); [apply oth_oth_p|reflexivity]|].
  split; [rewrite S3; unfold oth_k; rewrite OK; subst K0; destruct (reset_mode w); [apply oth_oth_k|reflexivity]|].
  rewrite S4, S5, R3, E3. auto 10.
Qed.

(* ---------- a truthful answer to a Serial Query the cache can serve: the delta ---------- *)
Lemma lookup_In k h old : lookup k h = Some old -> In (k, old) h.
Proof.
  induction h as [|[k' v'] h IH]; cbn [lookup]; [discriminate|].
  destruct (k =? k') eqn:E; [intros H; inversion H; subst; apply Z.eqb_eq in E; subst; left; reflexivity|intros H; right; auto].
Qed.

Lemma table_facts_perm {A} (rec : list byte -> A) ps ps' (Old New : list A) :
  Permutation ps ps' ->
  flags01 ps' /\ NoDup (map rec ps') /\
  (forall r, In r (wd A rec ps') <-> In r Old /\ ~ In r New) /\ (forall r, In r (an A rec ps') <-> In r New /\ ~ In r Old) ->
  flags01 ps /\ NoDup (map rec ps) /\
  (forall r, In r (wd A rec ps) <-> In r Old /\ ~ In r New) /\ (forall r, In r (an A rec ps) <-> In r New /\ ~ In r Old).
Proof.
  intros Hp (F & N & W & An).
  assert (PW : Permutation (wd A rec ps) (wd A rec ps')) by (unfold wd; apply Permutation_map, Permutation_filter', Hp).
  assert (PA : Permutation (an A rec ps) (an A rec ps')) by (unfold an; apply Permutation_map, Permutation_filter', Hp).
  split; [unfold flags01 in *; rewrite Forall_forall in *; intros p Hin; apply F; eapply Permutation_in; eauto|].
  split; [eapply Permutation_NoDup; [apply Permutation_sym, Permutation_map, Hp|exact N]|].
  split; intros r; [rewrite <- W|rewrite <- An]; split; intros H;
    first [eapply Permutation_in; [exact PW|exact H] | eapply Permutation_in; [apply Permutation_sym, PW|exact H]
          | eapply Permutation_in; [exact PA|exact H] | eapply Permutation_in; [apply Permutation_sym, PA|exact H]].
Qed.

Lemma delta_payload_ok v old new :
  Forall (fun p => payload_ok v p /\ pdu_flags p = 1) old -> Forall (fun p => payload_ok v p /\ pdu_flags p = 1) new ->
  Forall (payload_ok v) (delta_pdus old new).
Proof.
  intros Ho Hn. unfold delta_pdus. apply Forall_app. split.
  - apply Forall_forall. intros p Hp. apply in_map_iff in Hp. destruct Hp as (q & <- & Hq). apply filter_In in Hq.
    eapply Forall_forall in Ho; [|apply Hq]. apply (withdraw_facts v q), Ho.
  - apply Forall_forall. intros p Hp. apply filter_In in Hp. eapply Forall_forall in Hn; [|apply Hp]. apply Hn.
Qed.

Lemma In_dec_prec (x : prec) l : In x l \/ ~ In x l.
Proof.
  destruct (existsb (prec_eqb x) l) eqn:E.
  - left. apply existsb_exists in E. destruct E as (y & Hy & Ey). apply prec_eqb_eq in Ey. subst. exact Hy.
  - right. intros H. assert (existsb (prec_eqb x) l = true) by (apply existsb_exists; exists x; split; [exact H|apply prec_eqb_eq; reflexivity]). congruence.
Qed.
Lemma In_dec_krec (x : krec) l : In x l \/ ~ In x l.
Proof.
  destruct (existsb (krec_eqb x) l) eqn:E.
  - left. apply existsb_exists in E. destruct E as (y & Hy & Ey). apply krec_eqb_eq in Ey. subst. exact Hy.
  - right. intros H. assert (existsb (krec_eqb x) l = true) by (apply existsb_exists; exists x; split; [exact H|apply krec_eqb_eq; reflexivity]). congruence.
Qed.

Lemma concat_answer_delta c old : concat ([cache_response_pdu c] ++ delta_pdus old (c_data c) ++ [eod_pdu c]) =
  cache_response_pdu c ++ concat (delta_pdus old (c_data c)) ++ eod_pdu c ++ [].
Proof. rewrite !concat_app. cbn [concat]. rewrite !app_nil_r. reflexivity. Qed.

(* the client's records are the cache's data set at the serial the client has stored *)
Definition snapshot (c : cache) (w : world) (old : list (list byte)) : Prop :=
  Permutation (own_p (pfx w)) (precs old) /\ Permutation (own_k (keys w)) (krecs old).

Theorem good_serial_exchange f w c old B tail :
  Inv w -> st (sk w) = c_RTR_SYNC -> req_sess (sk w) = false -> version (sk w) = c_ver c -> cache_ok c ->
  session_id (sk w) = c_session c -> lookup (serial (sk w)) (c_hist c) = Some old -> snapshot c w old ->
  delivers (evs w) (concat (answer c (QSerial (session_id (sk w)) (serial (sk w)))) ++ B) tail ->
  (List.length (delta_pdus old (c_data c)) < f)%nat ->
  exists w', fsm_step (S f) w = Ok tt w' /\ st (sk w') = c_RTR_ESTABLISHED /\
    Permutation (own_p (pfx w')) (precs (c_data c)) /\ Permutation (own_k (keys w')) (krecs (c_data c)) /\
    oth_p (pfx w') = oth_p (pfx w) /\ oth_k (keys w') = oth_k (keys w) /\
    session_id (sk w') = c_session c /\ serial (sk w') = c_serial c /\ req_sess (sk w') = false /\
    last_update (sk w') = now w /\ now w' = now w /\ delivers (evs w') B tail /\ opens w' = opens w /\ sends w' = sends w.
Proof.
  intros HI Hst Hq Hv (Cv & Cs & Cn & Cd & Ch & Ce & _) Hsess Hlk (SnP & SnK) Hd Hf.
  destruct (cache_response_ok c Cv Cs) as (R1 & R2 & R3).
  destruct (eod_fields c Cs Cn) as (E1 & E2 & E3).
  assert (Cold : dataset_ok (c_ver c) old).
  { apply lookup_In in Hlk. rewrite Forall_forall in Ch. apply (Ch _ Hlk). }
  destruct Cold as (Of & Op & Ok). destruct Cd as (Nf & Np & Nk).
  unfold answer in Hd. rewrite Hsess, Z.eqb_refl, Hlk in Hd. rewrite concat_answer_delta, app_nil_r, <- !app_assoc in Hd.
  set (ds := delta_pdus old (c_data c)) in *.
  pose proof (delta_payload_ok _ _ _ Of Nf) as Hds. fold ds in Hds.
  destruct HI as (Ht & HnP & HnK & HD).
  assert (Hres : resetting (sk w) = false) by (apply Ht, Hq).
  assert (Hmode : reset_mode w = false) by (unfold reset_mode; rewrite Hq; exact Hres).
  (* the two tables *)
  assert (WF : forall p, payload_ok (c_ver c) p ->
             is_key (withdraw p) = is_key p /\ (is_key p = false -> prec_of_pdu (withdraw p) = prec_of_pdu p) /\
             (is_key p = true -> krec_of_pdu (withdraw p) = krec_of_pdu p)).
  { intros p Hp. destruct (withdraw_facts _ _ Hp) as (_ & _ & _ & _ & A & B1 & B2). auto. }
  assert (DTP := delta_table prec prec_of_pdu nk precs (fun S => eq_refl)
                   (fun p S (H : nk p = true) => in_set_prec p S (proj1 (negb_true_iff _) H)) (c_ver c)
                   (fun p Hp => f_equal negb (proj1 (WF p Hp)))
                   (fun p Hp (H : nk p = true) => proj1 (proj2 (WF p Hp)) (proj1 (negb_true_iff _) H))
                   old (c_data c) Of Nf Op Np).
  assert (DTK := delta_table krec krec_of_pdu is_key krecs (fun S => eq_refl) in_set_krec (c_ver c)
                   (fun p Hp => proj1 (WF p Hp)) (fun p Hp H => proj2 (proj2 (WF p Hp)) H)
                   old (c_data c) Of Nf Ok Nk).
  cbv zeta in DTP, DTK. fold ds in DTP, DTK.
  pose proof (split_perm _ _ Hds) as Hsp.
  destruct (table_facts_perm prec_of_pdu _ _ (precs old) (precs (c_data c)) Hsp DTP) as (PF & PN & PW & PA).
  destruct DTK as (KF & KN & KW & KA).
  assert (HoldP : forall x, In x (own prec psrc (pfx w)) <-> In x (precs old)).
  { intros x. split; intros H; [eapply Permutation_in; [exact SnP|exact H]|eapply Permutation_in; [apply Permutation_sym, SnP|exact H]]. }
  assert (HoldK : forall x, In x (own krec ksrc (keys w)) <-> In x (krecs old)).
  { intros x. split; intros H; [eapply Permutation_in; [exact SnK|exact H]|eapply Permutation_in; [apply Permutation_sym, SnK|exact H]]. }
  destruct (response_applies prec prec_eqb prec_eqb_eq prec_of_pdu psrc psrc_of_pdu (pfx w) (precs old) _ HnP HoldP PF PN)
    as (AP & NP & OP & MP); [intros r Hr; apply PW, Hr|intros r Hr; apply PA, Hr|].
  destruct (response_applies krec krec_eqb krec_eqb_eq krec_of_pdu ksrc ksrc_of_pdu (keys w) (krecs old) _ HnK HoldK KF KN)
    as (AK & NK & OK & MK); [intros r Hr; apply KW, Hr|intros r Hr; apply KA, Hr|].
  assert (AP' : applies_p (filter is_v4 ds ++ filter is_v6 ds) (if reset_mode w then oth_p (pfx w) else pfx w)) by (rewrite Hmode; exact AP).
  assert (AK' : applies_k (filter is_key ds) (if reset_mode w then oth_k (keys w) else keys w)) by (rewrite Hmode; exact AK).
  destruct (exchange_core f w (cache_response_pdu c) ds (eod_pdu c) B tail Hst ltac:(rewrite Hv; exact Cv)
              ltac:(rewrite Hv; exact R1) R2 ltac:(rewrite Hv; exact Hds) ltac:(rewrite Hv; exact Ce) E1 ltac:(rewrite E2, R3; reflexivity)
              (or_intror (eq_trans Hsess (eq_sym R3))) Hd Hf AP' AK')
    as (w' & Es & S1 & S2 & S3 & S4 & S5 & S6 & S7 & S8 & S9 & S10 & S11 & S12 & S13).
  rewrite Hmode in S2, S3.
  exists w'. split; [exact Es|]. split; [exact S1|].
  split.
  { apply NoDup_Permutation; [rewrite S2; exact NP|exact Np|].
    intros x. rewrite S2. unfold own_p. rewrite MP. split.
    - intros [[H1 H2]|H]; [|apply PA, H]. destruct (In_dec_prec x (precs (c_data c))) as [Hi|Hi]; [exact Hi|].
      exfalso. apply H2, PW. auto.
    - intros H. destruct (In_dec_prec x (precs old)) as [Hi|Hi]; [left; split; [exact Hi|intros Hw; apply PW in Hw; tauto]|right; apply PA; auto]. }
  split.
  { apply NoDup_Permutation; [rewrite S3; exact NK|exact Nk|].
    intros x. rewrite S3. unfold own_k. rewrite MK. split.
    - intros [[H1 H2]|H]; [|apply KA, H]. destruct (In_dec_krec x (krecs (c_data c))) as [Hi|Hi]; [exact Hi|].
      exfalso. apply H2, KW. auto.
    - intros H. destruct (In_dec_krec x (krecs old)) as [Hi|Hi]; [left; split; [exact Hi|intros Hw; apply KW in Hw; tauto]|right; apply KA; auto]. }
  split; [rewrite S2; exact OP|]. split; [rewrite S3; exact OK|].
  rewrite S4, S5, R3, E3. auto 10.
Qed.

(* ---------- a Serial Query the cache cannot serve: Cache Reset, then the Reset Query is answered ---------- *)
Lemma Inv_step fuel w a w' : Inv w -> fsm_step fuel w = Ok a w' -> Inv w'.
Proof. intros HI E. pose proof (fsm_step_Inv fuel w HI) as H. unfold hoareE in H. rewrite E in H. exact H. Qed.

(* all socket fields but the control state and has_received_pdus *)
Definition core (s : sock) : sock := upd_hasrecv (upd_st s 0) false.

Lemma sync_cache_reset f w c B tail :
  st (sk w) = c_RTR_SYNC -> version (sk w) = c_ver c -> (c_ver c = 0 \/ c_ver c = 1) ->
  delivers (evs w) (cache_reset_pdu c ++ B) tail ->
  exists w1, fsm_step (S f) w = Ok tt w1 /\ st (sk w1) = c_RTR_ERROR_NO_INCR_UPDATE_AVAIL /\ core (sk w1) = core (sk w) /\
             pfx w1 = pfx w /\ keys w1 = keys w /\ opens w1 = opens w /\ sends w1 = sends w /\ now w1 = now w /\
             delivers (evs w1) B tail.
Proof.
  intros Hst Hv Cv Hd. destruct (cache_reset_ok c Cv) as (R1 & R2).
  assert (Hns : st (sk w) <> c_RTR_SHUTDOWN) by (rewrite Hst; discriminate).
  destruct (receive_pdu_data c_RTR_RECV_TIMEOUT w (cache_reset_pdu c) B tail ltac:(rewrite Hv; exact R1) ltac:(rewrite Hv; exact Cv) Hns Hd)
    as (w1 & E1 & Hd1 & S1 & S2 & S3 & S4 & S5 & S6).
  assert (Esf : sync_first (S f) w = Ok (Some (cache_reset_pdu c)) w1).
  { cbn [sync_first]. rewrite (bind_eq _ _ _ _ _ E1). rewrite R2. const_dec. reflexivity. }
  assert (Ers : rtr_sync (S f) w = Ok (-1) (state_changed c_RTR_ERROR_NO_INCR_UPDATE_AVAIL w1)).
  { unfold rtr_sync. rewrite (bind_eq _ _ _ _ _ Esf). cbv zeta. rewrite R2. const_dec.
    rewrite (bind_eq _ _ _ _ _ (change_state_eq' _ _)). reflexivity. }
  unfold fsm_step. rewrite (bind_eq get_sk _ w (sk w) w eq_refl). cbv zeta. rewrite Hst. const_dec.
  rewrite (bind_eq _ _ _ _ _ Ers). cbn [Z.eqb]. unfold ret.
  unfold state_changed.
  assert (Hst1 : st (sk w1) = c_RTR_SYNC) by (rewrite S1; destruct (has_recv (sk w)); [exact Hst|cbn; exact Hst]).
  rewrite Hst1. const_dec. eexists. split; [reflexivity|].
  cbn [sk pfx keys evs opens sends now with_sk with_out st upd_st].
  split; [reflexivity|]. split; [|auto 10].
  rewrite S1. unfold core. destruct (has_recv (sk w)); destruct (sk w); reflexivity.
Qed.

Lemma no_incr_step f w :
  st (sk w) = c_RTR_ERROR_NO_INCR_UPDATE_AVAIL ->
  exists w2, fsm_step f w = Ok tt w2 /\ st (sk w2) = c_RTR_RESET /\ req_sess (sk w2) = true /\ version (sk w2) = version (sk w) /\
             evs w2 = evs w /\ opens w2 = opens w /\ sends w2 = sends w /\ now w2 = now w /\
             oth_p (pfx w2) = oth_p (pfx w) /\ oth_k (keys w2) = oth_k (keys w).
Proof.
  intros Hst. unfold fsm_step. rewrite (bind_eq get_sk _ w (sk w) w eq_refl). cbv zeta. rewrite Hst. const_dec.
  rewrite (bind_eq (set_sk _) _ w tt (with_sk w (upd_serial (upd_req (sk w) true) 0)) eq_refl).
  rewrite (bind_eq _ _ _ _ _ (change_state_eq' _ _)). rewrite purge_outdated_eq'.
  unfold state_changed. cbn [sk with_sk st upd_serial upd_req]. rewrite Hst. const_dec.
  match goal with |- exists _, Ok tt (if expired ?x then _ else _) = _ /\ _ => set (w1 := x) end.
  exists (if expired w1 then purged w1 else w1). split; [reflexivity|].
  destruct (expired w1); unfold purged, removed, with_sk; subst w1;
    cbn [sk pfx keys evs opens sends now with_sk with_out st req_sess version upd_st upd_serial upd_req upd_resetting upd_last];
    rewrite ?oth_oth_p, ?oth_oth_k; auto 12.
Qed.

Lemma reset_step f w : st (sk w) = c_RTR_RESET -> sends w = [] ->
  exists w3, fsm_step f w = Ok tt w3 /\ st (sk w3) = c_RTR_SYNC /\ core (sk w3) = core (sk w) /\ has_recv (sk w3) = has_recv (sk w) /\
             pfx w3 = pfx w /\ keys w3 = keys w /\ evs w3 = evs w /\ opens w3 = opens w /\ sends w3 = [] /\ now w3 = now w /\
             out w3 = TState c_RTR_SYNC :: TSend (reset_query_bytes (sk w)) :: out w.
Proof.
  intros Hst Hs.
  assert (Hns : st (sk w) <> c_RTR_SHUTDOWN) by (rewrite Hst; discriminate).
  assert (Hq : send_reset_query w = Ok 0 (with_out w (TSend (reset_query_bytes (sk w)) :: out w))).
  { unfold send_reset_query. rewrite (bind_eq get_sk _ w (sk w) w eq_refl). fold (reset_query_bytes (sk w)).
    rewrite (bind_eq _ _ _ _ _ (send_pdu_whole (reset_query_bytes (sk w)) w Hns Hs ltac:(unfold zlen; cbn [reset_query_bytes List.length app enc16 enc32]; lia))).
    reflexivity. }
  unfold fsm_step. rewrite (bind_eq get_sk _ w (sk w) w eq_refl). cbv zeta. rewrite Hst. const_dec.
  rewrite (bind_eq _ _ _ _ _ Hq). cbn [Z.eqb]. rewrite change_state_eq'. unfold state_changed. cbn [sk with_out]. rewrite Hst. const_dec.
  eexists. split; [reflexivity|]. cbn [sk pfx keys evs opens sends now out st has_recv with_sk with_out upd_st].
  split; [reflexivity|]. split; [unfold core; destruct (sk w); reflexivity|]. auto 12.
Qed.

Lemma run_fsm_step n fuel w w' : fsm_step fuel w = Ok tt w' -> run_fsm (S n) fuel w = run_fsm n fuel w'.
Proof. intros E. cbn [run_fsm]. rewrite E. reflexivity. Qed.

Lemma core_fields s s' : core s = core s' ->
  version s = version s' /\ session_id s = session_id s' /\ req_sess s = req_sess s' /\ serial s = serial s' /\
  last_update s = last_update s' /\ resetting s = resetting s' /\ retry_iv s = retry_iv s' /\ expire_iv s = expire_iv s'.
Proof. unfold core. destruct s, s'. cbn. intros H. inversion H. auto 10. Qed.

Theorem good_cache_reset_exchange f w c B tail :
  Inv w -> st (sk w) = c_RTR_SYNC -> version (sk w) = c_ver c -> cache_ok c -> sends w = [] ->
  delivers (evs w) (cache_reset_pdu c ++ concat (answer c QReset) ++ B) tail -> (List.length (c_data c) < f)%nat ->
  let w' := run_fsm 4 (S f) w in
  st (sk w') = c_RTR_ESTABLISHED /\
  Permutation (own_p (pfx w')) (precs (c_data c)) /\ Permutation (own_k (keys w')) (krecs (c_data c)) /\
  oth_p (pfx w') = oth_p (pfx w) /\ oth_k (keys w') = oth_k (keys w) /\
  session_id (sk w') = c_session c /\ serial (sk w') = c_serial c /\ req_sess (sk w') = false /\
  last_update (sk w') = now w /\ now w' = now w /\ delivers (evs w') B tail /\ opens w' = opens w.
Proof.
  intros HI Hst Hv Hc Hs Hd Hf. pose proof Hc as (Cv & _).
  destruct (sync_cache_reset f w c _ tail Hst Hv Cv Hd) as (w1 & E1 & T1 & C1 & P1 & K1 & O1 & N1 & M1 & D1).
  pose proof (Inv_step _ _ _ _ HI E1) as HI1.
  destruct (no_incr_step (S f) w1 T1) as (w2 & E2 & T2 & Q2 & V2 & Ev2 & O2 & N2 & M2 & OP2 & OK2).
  pose proof (Inv_step _ _ _ _ HI1 E2) as HI2.
  destruct (reset_step (S f) w2 T2 ltac:(rewrite N2, N1; exact Hs)) as (w3 & E3 & T3 & C3 & H3 & P3 & K3 & Ev3 & O3 & N3 & M3 & _).
  pose proof (Inv_step _ _ _ _ HI2 E3) as HI3.
  destruct (core_fields _ _ C1) as (F1 & _). destruct (core_fields _ _ C3) as (G1 & _ & G3 & _).
  assert (Hd3 : delivers (evs w3) (concat (answer c QReset) ++ B) tail) by (rewrite Ev3, Ev2; exact D1).
  destruct (good_reset_exchange f w3 c B tail HI3 T3 ltac:(rewrite G3; exact Q2) ltac:(rewrite G1, V2, F1; exact Hv) Hc Hd3 Hf)
    as (w4 & E4 & R1 & R2 & R3 & R4 & R5 & R6 & R7 & R8 & R9 & R10 & R11 & R12 & _).
  cbv zeta. rewrite (run_fsm_step _ _ _ _ E1), (run_fsm_step _ _ _ _ E2), (run_fsm_step _ _ _ _ E3), (run_fsm_step _ _ _ _ E4).
  cbn [run_fsm]. rewrite R4, R5, P3, K3, OP2, OK2, P1, K1, R9, R10, M3, M2, M1, R12, O3, O2, O1. auto 12.
Qed.

(* ---------- C08_one_good_exchange ---------- *)
(* the query the client is waiting to have answered in state SYNC *)
Definition pending_query (w : world) : query :=
  if req_sess (sk w) then QReset else QSerial (session_id (sk w)) (serial (sk w)).

Definition served (c : cache) (q : query) : bool :=
  match q with
  | QReset => true
  | QSerial s n => (s =? c_session c) && match lookup n (c_hist c) with Some _ => true | None => false end
  end.

(* what a truthful cache sends until the client is synchronised: the answer to the pending query and, when that was a
   Cache Reset, the answer to the Reset Query that follows *)
Definition truthful_stream (c : cache) (w : world) : list byte :=
  concat (answer c (pending_query w)) ++ (if served c (pending_query w) then [] else concat (answer c QReset)).

Definition exchange_steps (c : cache) (w : world) : nat := if served c (pending_query w) then 1%nat else 4%nat.

(* C08_snapshot as a hypothesis: if the client holds a session and a serial the cache remembers, its records are the
   cache's data set at that serial *)
Definition snapshot_hyp (c : cache) (w : world) : Prop :=
  forall old, req_sess (sk w) = false -> session_id (sk w) = c_session c ->
              lookup (serial (sk w)) (c_hist c) = Some old -> snapshot c w old.

Definition synced (c : cache) (w0 w' : world) : Prop :=
  st (sk w') = c_RTR_ESTABLISHED /\
  Permutation (own_p (pfx w')) (precs (c_data c)) /\ Permutation (own_k (keys w')) (krecs (c_data c)) /\
  oth_p (pfx w') = oth_p (pfx w0) /\ oth_k (keys w') = oth_k (keys w0) /\
  session_id (sk w') = c_session c /\ serial (sk w') = c_serial c /\ req_sess (sk w') = false /\
  last_update (sk w') = now w0 /\ now w' = now w0.

Theorem one_good_exchange f w c B tail :
  Inv w -> st (sk w) = c_RTR_SYNC -> version (sk w) = c_ver c -> cache_ok c -> snapshot_hyp c w -> sends w = [] ->
  delivers (evs w) (truthful_stream c w ++ B) tail ->
  (List.length (c_data c) < f)%nat -> (forall k old, In (k, old) (c_hist c) -> (List.length (delta_pdus old (c_data c)) < f)%nat) ->
  let w' := run_fsm (exchange_steps c w) (S f) w in
  synced c w w' /\ delivers (evs w') B tail /\ Inv w'.
Proof.
  intros HI Hst Hv Hc Hsn Hs Hd Hf Hfd. unfold truthful_stream, exchange_steps, pending_query in *. unfold synced.
  destruct (req_sess (sk w)) eqn:Eq.
  - cbn [served] in *. rewrite app_nil_r in Hd.
    destruct (good_reset_exchange f w c B tail HI Hst Eq Hv Hc Hd Hf) as (w' & E & R1 & R2 & R3 & R4 & R5 & R6 & R7 & R8 & R9 & R10 & R11 & R12 & _).
    cbv zeta. rewrite (run_fsm_step _ _ _ _ E). cbn [run_fsm]. split; [auto 12|]. split; [exact R11|eapply Inv_step; eauto].
  - cbn [served] in *. destruct (session_id (sk w) =? c_session c) eqn:Es; cbn [andb] in *.
    + apply Z.eqb_eq in Es. destruct (lookup (serial (sk w)) (c_hist c)) as [old|] eqn:El.
      * rewrite app_nil_r in Hd.
        destruct (good_serial_exchange f w c old B tail HI Hst Eq Hv Hc Es El (Hsn old Eq Es El) Hd (Hfd _ _ (lookup_In _ _ _ El)))
          as (w' & E & R1 & R2 & R3 & R4 & R5 & R6 & R7 & R8 & R9 & R10 & R11 & R12 & _).
        cbv zeta. rewrite (run_fsm_step _ _ _ _ E). cbn [run_fsm]. split; [auto 12|]. split; [exact R11|eapply Inv_step; eauto].
      * unfold answer in Hd at 1. rewrite Es, Z.eqb_refl, El in Hd. cbn [concat] in Hd. rewrite app_nil_r, <- app_assoc in Hd.
        pose proof (good_cache_reset_exchange f w c B tail HI Hst Hv Hc Hs Hd Hf) as H. cbv zeta in H.
        destruct H as (R1 & R2 & R3 & R4 & R5 & R6 & R7 & R8 & R9 & R10 & R11 & R12).
        cbv zeta. split; [auto 12|]. split; [exact R11|apply run_fsm_Inv, HI].
    + unfold answer in Hd at 1. rewrite Es in Hd. cbn [concat] in Hd. rewrite app_nil_r, <- app_assoc in Hd.
      pose proof (good_cache_reset_exchange f w c B tail HI Hst Hv Hc Hs Hd Hf) as H. cbv zeta in H.
      destruct H as (R1 & R2 & R3 & R4 & R5 & R6 & R7 & R8 & R9 & R10 & R11 & R12).
      cbv zeta. split; [auto 12|]. split; [exact R11|apply run_fsm_Inv, HI].
Qed.

(* ---------- C08_converge_partial: from every single error state back to a pending query ---------- *)
(* a step that neither receives nor changes what matters to the rest of the recovery *)
Definition calm (t : Z) (w w1 : world) : Prop :=
  now w1 = now w + t /\ evs w1 = evs w /\ sends w1 = sends w /\ version (sk w1) = version (sk w) /\
  retry_iv (sk w1) = retry_iv (sk w) /\ oth_p (pfx w1) = oth_p (pfx w) /\ oth_k (keys w1) = oth_k (keys w).

Lemma calm_trans t1 t2 a b c : calm t1 a b -> calm t2 b c -> calm (t1 + t2) a c.
Proof.
  unfold calm. intros (A1 & A2 & A3 & A4 & A5 & A6 & A7) (B1 & B2 & B3 & B4 & B5 & B6 & B7).
  repeat split; try congruence. lia.
Qed.

Lemma err_step f w : st (sk w) = c_RTR_ERROR_TRANSPORT \/ st (sk w) = c_RTR_ERROR_FATAL ->
  exists w1, fsm_step f w = Ok tt w1 /\ st (sk w1) = c_RTR_CONNECTING /\ opens w1 = opens w /\ calm (retry_iv (sk w)) w w1.
Proof.
  intros Hst. unfold fsm_step. rewrite (bind_eq get_sk _ w (sk w) w eq_refl). cbv zeta.
  assert (Hc : exists w1, (mdo _ <- tr_close; mdo _ <- change_state c_RTR_CONNECTING; do_sleep (retry_iv (sk w))) w = Ok tt w1 /\
            st (sk w1) = c_RTR_CONNECTING /\ opens w1 = opens w /\ calm (retry_iv (sk w)) w w1).
  { unfold tr_close. rewrite (bind_eq (emit TClose) _ w tt (with_out w (TClose :: out w)) eq_refl).
    rewrite (bind_eq _ _ _ _ _ (change_state_eq' _ _)). unfold state_changed, do_sleep. cbn [sk with_out].
    destruct Hst as [-> | ->]; const_dec; (eexists; split; [reflexivity|]);
      unfold calm; cbn [sk pfx keys evs opens sends now with_sk with_out st version retry_iv upd_st]; auto 12. }
  destruct Hst as [H|H]; rewrite H; const_dec; exact Hc.
Qed.

Lemma fast_step f w : st (sk w) = c_RTR_FAST_RECONNECT ->
  exists w1, fsm_step f w = Ok tt w1 /\ st (sk w1) = c_RTR_CONNECTING /\ opens w1 = opens w /\ calm 0 w w1.
Proof.
  intros Hst. unfold fsm_step. rewrite (bind_eq get_sk _ w (sk w) w eq_refl). cbv zeta. rewrite Hst. const_dec.
  unfold tr_close. rewrite (bind_eq (emit TClose) _ w tt (with_out w (TClose :: out w)) eq_refl).
  rewrite change_state_eq'. unfold state_changed. cbn [sk with_out]. rewrite Hst. const_dec.
  eexists. split; [reflexivity|]. unfold calm. cbn [sk pfx keys evs opens sends now with_sk with_out st version retry_iv upd_st].
  rewrite Z.add_0_r. auto 12.
Qed.

Lemma no_data_step f w : st (sk w) = c_RTR_ERROR_NO_DATA_AVAIL ->
  exists w1, fsm_step f w = Ok tt w1 /\ st (sk w1) = c_RTR_RESET /\ opens w1 = opens w /\ calm (retry_iv (sk w)) w w1.
Proof.
  intros Hst. unfold fsm_step. rewrite (bind_eq get_sk _ w (sk w) w eq_refl). cbv zeta. rewrite Hst. const_dec.
  rewrite (bind_eq (set_sk _) _ w tt (with_sk w (upd_serial (upd_req (sk w) true) 0)) eq_refl).
  rewrite (bind_eq _ _ _ _ _ (change_state_eq' _ _)). unfold do_sleep at 1.
  match goal with |- exists _, bind ?m _ ?x = _ /\ _ => rewrite (bind_eq m _ x tt _ eq_refl) end.
  rewrite purge_outdated_eq'.
  unfold state_changed. cbn [sk with_sk st upd_serial upd_req]. rewrite Hst. const_dec.
  match goal with |- exists _, Ok tt (if expired ?x then _ else _) = _ /\ _ => set (w1 := x) end.
  exists (if expired w1 then purged w1 else w1). split; [reflexivity|].
  destruct (expired w1); unfold purged, removed, with_sk, calm; subst w1;
    cbn [sk pfx keys evs opens sends now with_sk with_out st req_sess version retry_iv upd_st upd_serial upd_req upd_resetting upd_last];
    rewrite ?oth_oth_p, ?oth_oth_k; auto 12.
Qed.

Lemma no_incr_step' f w : st (sk w) = c_RTR_ERROR_NO_INCR_UPDATE_AVAIL ->
  exists w1, fsm_step f w = Ok tt w1 /\ st (sk w1) = c_RTR_RESET /\ opens w1 = opens w /\ calm 0 w w1.
Proof.
  intros Hst. destruct (no_incr_step f w Hst) as (w2 & E & A1 & A2 & A3 & A4 & A5 & A6 & A7 & A8 & A9).
  exists w2. split; [exact E|]. split; [exact A1|]. split; [exact A5|].
  unfold calm. rewrite Z.add_0_r. repeat split; auto.
  (* the retry interval is not touched *)
  pose proof (fsm_step_F f w) as _.
  revert E. unfold fsm_step. rewrite (bind_eq get_sk _ w (sk w) w eq_refl). cbv zeta. rewrite Hst. const_dec.
  rewrite (bind_eq (set_sk _) _ w tt (with_sk w (upd_serial (upd_req (sk w) true) 0)) eq_refl).
  rewrite (bind_eq _ _ _ _ _ (change_state_eq' _ _)). rewrite purge_outdated_eq'.
  unfold state_changed. cbn [sk with_sk st upd_serial upd_req]. rewrite Hst. const_dec.
  match goal with |- Ok tt (if expired ?x then _ else _) = _ -> _ => destruct (expired x) end; intros E; inversion E; reflexivity.
Qed.

Definition serial_query_bytes (s : sock) : list byte :=
  [version s mod 256; c_SERIAL_QUERY] ++ enc16 (session_id s mod 65536) ++ enc32 12 ++ enc32 (serial s).

Lemma connecting_step f w os : st (sk w) = c_RTR_CONNECTING -> opens w = true :: os -> sends w = [] ->
  exists w1, fsm_step f w = Ok tt w1 /\ (st (sk w1) = c_RTR_RESET \/ st (sk w1) = c_RTR_SYNC) /\ calm 0 w w1.
Proof.
  intros Hst Ho Hs. destruct (expire_at_connect f w Hst) as (E & _). rewrite E.
  set (wo := at_open w).
  assert (Fo : opens wo = true :: os /\ sends wo = [] /\ st (sk wo) = c_RTR_CONNECTING /\ calm 0 w wo).
  { subst wo. unfold at_open. set (w0 := with_sk w _). unfold calm. rewrite Z.add_0_r.
    destruct (expired w0); unfold purged, removed, with_sk; subst w0;
      cbn [sk pfx keys evs opens sends now with_sk st version retry_iv upd_hasrecv upd_resetting upd_last upd_serial upd_req];
      rewrite ?oth_oth_p, ?oth_oth_k; auto 12. }
  destruct Fo as (Fo1 & Fo2 & Fo3 & Fo4).
  destruct (req_sess (sk wo)) eqn:Eq.
  - destruct (connect_rest_reset wo os Fo1 Eq Fo3) as (w1 & E1 & S1 & _ & S2).
    exists w1. split; [exact E1|]. split; [left; exact S1|].
    (* connect_rest only opens the transport and changes the state *)
    revert E1. unfold connect_rest, tr_open. unfold bind at 1. rewrite Fo1. cbn [negb].
    rewrite (bind_eq get_sk _ _ _ _ eq_refl). cbn [sk]. rewrite Eq, change_state_eq'. unfold state_changed. cbn [sk]. rewrite Fo3. const_dec.
    intros E1. inversion E1; subst w1. replace 0 with (0 + 0) by reflexivity. eapply calm_trans; [exact Fo4|].
    unfold calm. cbn [sk pfx keys evs opens sends now with_sk with_out st version retry_iv upd_st]. rewrite Z.add_0_r. auto 12.
  - (* Serial Query *)
    set (w1 := mkW (sk wo) (pfx wo) (keys wo) (evs wo) os (sends wo) (now wo) (TOpen true (now wo) :: out wo)).
    assert (Hns : st (sk w1) <> c_RTR_SHUTDOWN) by (subst w1; cbn [sk]; rewrite Fo3; discriminate).
    assert (Hq : send_serial_query w1 = Ok 0 (with_out w1 (TSend (serial_query_bytes (sk w1)) :: out w1))).
    { unfold send_serial_query. rewrite (bind_eq get_sk _ w1 (sk w1) w1 eq_refl). fold (serial_query_bytes (sk w1)).
      rewrite (bind_eq _ _ _ _ _ (send_pdu_whole (serial_query_bytes (sk w1)) w1 Hns Fo2
                                   ltac:(unfold zlen; cbn [serial_query_bytes List.length app enc16 enc32]; lia))).
      reflexivity. }
    unfold connect_rest, tr_open. unfold bind at 1. rewrite Fo1. cbn [negb]. fold w1.
    rewrite (bind_eq get_sk _ w1 (sk w1) w1 eq_refl). replace (req_sess (sk w1)) with false by (symmetry; exact Eq).
    rewrite (bind_eq _ _ _ _ _ Hq). cbn [Z.eqb]. rewrite change_state_eq'. unfold state_changed. cbn [sk with_out].
    replace (st (sk w1)) with c_RTR_CONNECTING by (symmetry; exact Fo3). const_dec.
    eexists. split; [reflexivity|]. split; [right; reflexivity|].
    replace 0 with (0 + 0) by reflexivity. eapply calm_trans; [exact Fo4|].
    unfold calm. subst w1. cbn [sk pfx keys evs opens sends now with_sk with_out st version retry_iv upd_st]. rewrite Z.add_0_r. auto 12.
Qed.

Lemma reset_step' f w : st (sk w) = c_RTR_RESET -> sends w = [] ->
  exists w1, fsm_step f w = Ok tt w1 /\ st (sk w1) = c_RTR_SYNC /\ calm 0 w w1.
Proof.
  intros Hst Hs. destruct (reset_step f w Hst Hs) as (w3 & E & A1 & A2 & A3 & A4 & A5 & A6 & A7 & A8 & A9 & _).
  exists w3. split; [exact E|]. split; [exact A1|]. destruct (core_fields _ _ A2) as (V & _ & _ & _ & _ & _ & R & _).
  unfold calm. rewrite Z.add_0_r, A4, A5, A8, Hs. auto 12.
Qed.

Definition recovering (s : Z) : Prop :=
  s = c_RTR_CONNECTING \/ s = c_RTR_RESET \/ s = c_RTR_FAST_RECONNECT \/ s = c_RTR_ERROR_NO_DATA_AVAIL \/
  s = c_RTR_ERROR_NO_INCR_UPDATE_AVAIL \/ s = c_RTR_ERROR_TRANSPORT \/ s = c_RTR_ERROR_FATAL.

(* with a transport that works, every error / reconnect state is back in SYNC with its query sent after at most
   three iterations and at most retry_interval of protocol time, without reading anything *)
Theorem reach_sync f w os : Inv w -> recovering (st (sk w)) -> opens w = true :: os -> sends w = [] ->
  exists n t, (n <= 3)%nat /\ (t = 0 \/ t = retry_iv (sk w)) /\
    let w' := run_fsm n f w in
    st (sk w') = c_RTR_SYNC /\ calm t w w' /\ Inv w'.
Proof.
  intros HI Hrec Ho Hs.
  (* from CONNECTING *)
  assert (FromConn : forall w0, Inv w0 -> st (sk w0) = c_RTR_CONNECTING -> opens w0 = true :: os -> sends w0 = [] ->
            exists n, (n <= 2)%nat /\ st (sk (run_fsm n f w0)) = c_RTR_SYNC /\ calm 0 w0 (run_fsm n f w0) /\ Inv (run_fsm n f w0)).
  { intros w0 HI0 Hst0 Ho0 Hs0. destruct (connecting_step f w0 os Hst0 Ho0 Hs0) as (w1 & E1 & [S1|S1] & C1).
    - pose proof (Inv_step _ _ _ _ HI0 E1) as HI1.
      destruct (reset_step' f w1 S1 ltac:(destruct C1 as (_ & _ & -> & _); exact Hs0)) as (w2 & E2 & S2 & C2).
      exists 2%nat. rewrite (run_fsm_step _ _ _ _ E1), (run_fsm_step _ _ _ _ E2). cbn [run_fsm].
      split; [lia|]. split; [exact S2|]. split; [replace 0 with (0 + 0) by reflexivity; eapply calm_trans; eauto|eapply Inv_step; eauto].
    - exists 1%nat. rewrite (run_fsm_step _ _ _ _ E1). cbn [run_fsm]. split; [lia|]. split; [exact S1|]. split; [exact C1|eapply Inv_step; eauto]. }
  assert (FromReset : forall w0, Inv w0 -> st (sk w0) = c_RTR_RESET -> sends w0 = [] ->
            st (sk (run_fsm 1 f w0)) = c_RTR_SYNC /\ calm 0 w0 (run_fsm 1 f w0) /\ Inv (run_fsm 1 f w0)).
  { intros w0 HI0 Hst0 Hs0. destruct (reset_step' f w0 Hst0 Hs0) as (w1 & E1 & S1 & C1).
    rewrite (run_fsm_step _ _ _ _ E1). cbn [run_fsm]. split; [exact S1|]. split; [exact C1|eapply Inv_step; eauto]. }
  destruct Hrec as [H|[H|[H|[H|[H|H]]]]].
  - destruct (FromConn w HI H Ho Hs) as (n & Hn & A & B & C). exists n, 0. split; [lia|]. split; [left; reflexivity|]. cbv zeta. auto.
  - destruct (FromReset w HI H Hs) as (A & B & C). exists 1%nat, 0. split; [lia|]. split; [left; reflexivity|]. cbv zeta. auto.
  - destruct (fast_step f w H) as (w1 & E1 & S1 & O1 & C1). pose proof (Inv_step _ _ _ _ HI E1) as HI1.
    destruct (FromConn w1 HI1 S1 ltac:(rewrite O1; exact Ho) ltac:(destruct C1 as (_ & _ & -> & _); exact Hs)) as (n & Hn & A & B & C).
    exists (S n), 0. split; [lia|]. split; [left; reflexivity|]. cbv zeta. rewrite (run_fsm_step _ _ _ _ E1).
    split; [exact A|]. split; [replace 0 with (0 + 0) by reflexivity; eapply calm_trans; eauto|exact C].
  - destruct (no_data_step f w H) as (w1 & E1 & S1 & O1 & C1). pose proof (Inv_step _ _ _ _ HI E1) as HI1.
    destruct (FromReset w1 HI1 S1 ltac:(destruct C1 as (_ & _ & -> & _); exact Hs)) as (A & B & C).
    exists 2%nat, (retry_iv (sk w)). split; [lia|]. split; [right; reflexivity|]. cbv zeta. rewrite (run_fsm_step _ _ _ _ E1).
    split; [exact A|]. split; [replace (retry_iv (sk w)) with (retry_iv (sk w) + 0) by lia; eapply calm_trans; eauto|exact C].
  - destruct (no_incr_step' f w H) as (w1 & E1 & S1 & O1 & C1). pose proof (Inv_step _ _ _ _ HI E1) as HI1.
    destruct (FromReset w1 HI1 S1 ltac:(destruct C1 as (_ & _ & -> & _); exact Hs)) as (A & B & C).
    exists 2%nat, 0. split; [lia|]. split; [left; reflexivity|]. cbv zeta. rewrite (run_fsm_step _ _ _ _ E1).
    split; [exact A|]. split; [replace 0 with (0 + 0) by reflexivity; eapply calm_trans; eauto|exact C].
  - destruct (err_step f w H) as (w1 & E1 & S1 & O1 & C1). pose proof (Inv_step _ _ _ _ HI E1) as HI1.
    destruct (FromConn w1 HI1 S1 ltac:(rewrite O1; exact Ho) ltac:(destruct C1 as (_ & _ & -> & _); exact Hs)) as (n & Hn & A & B & C).
    exists (S n), (retry_iv (sk w)). split; [lia|]. split; [right; reflexivity|]. cbv zeta. rewrite (run_fsm_step _ _ _ _ E1).
    split; [exact A|]. split; [replace (retry_iv (sk w)) with (retry_iv (sk w) + 0) by lia; eapply calm_trans; eauto|exact C].
Qed.

(* ---------- waiting: the refresh timer and the receive timeout ---------- *)
Definition quiet_world (w : world) (v : Z) (rest : list ev) (t : Z) (timeout : Z) : world :=
  mkW (sk w) (pfx w) (keys w) (EvWait (v - Z.max 0 timeout) :: rest) (opens w) (sends w) (now w + Z.max 0 timeout)
      (TRecvWB timeout (now w + Z.max 0 timeout) :: out w).

Lemma tr_recv_all_quiet len timeout w v rest : evs w = EvWait v :: rest -> Z.max 0 timeout < v -> 0 < len ->
  tr_recv_all len timeout w = Ok (inl (-2)) (quiet_world w v rest (now w) timeout).
Proof.
  intros He Hv Hl. unfold tr_recv_all. rewrite (bind_eq get_now _ w (now w) w eq_refl).
  destruct (Z.to_nat len) as [|n] eqn:En; [lia|]. cbn [tr_recv_all_loop].
  assert (Hz : zlen (@nil byte) >=? len = false) by (unfold zlen; cbn [List.length]; rewrite Z.geb_leb; apply Z.leb_gt; lia).
  rewrite Hz. rewrite (bind_eq get_now _ w (now w) w eq_refl).
  assert (Et : tr_recv (len - zlen (@nil byte)) (now w + timeout - now w) w = Ok (inl (-2)) (quiet_world w v rest (now w) timeout)).
  { unfold tr_recv. rewrite He. cbn [tr_recv_evs]. replace (now w + timeout - now w) with timeout by lia.
    assert (Hle : v <=? Z.max 0 timeout = false) by (apply Z.leb_gt; exact Hv). rewrite Hle.
    cbn [Z.eqb]. unfold quiet_world. reflexivity. }
  rewrite (bind_eq _ _ _ _ _ Et). reflexivity.
Qed.

Lemma receive_pdu_quiet timeout w v rest : evs w = EvWait v :: rest -> Z.max 0 timeout < v -> st (sk w) <> c_RTR_SHUTDOWN ->
  receive_pdu timeout w = Ok (inl (-2)) (quiet_world w v rest (now w) timeout).
Proof.
  intros He Hv Hst. unfold receive_pdu. rewrite (bind_eq get_sk _ w (sk w) w eq_refl).
  destruct (st (sk w) =? c_RTR_SHUTDOWN) eqn:Es; [apply Z.eqb_eq in Es; contradiction|].
  rewrite (bind_eq _ _ _ _ _ (tr_recv_all_quiet 8 timeout w v rest He Hv ltac:(lia))). reflexivity.
Qed.

(* SYNC and the cache says nothing: after the 60 s receive timeout the connection is given up *)
Theorem sync_quiet f w v rest : st (sk w) = c_RTR_SYNC -> evs w = EvWait v :: rest -> c_RTR_RECV_TIMEOUT < v ->
  exists w1, fsm_step (S f) w = Ok tt w1 /\ st (sk w1) = c_RTR_ERROR_TRANSPORT /\ now w1 = now w + c_RTR_RECV_TIMEOUT /\
             opens w1 = opens w /\ sends w1 = sends w /\ pfx w1 = pfx w /\ keys w1 = keys w /\ core (sk w1) = core (sk w) /\
             evs w1 = EvWait (v - c_RTR_RECV_TIMEOUT) :: rest.
Proof.
  intros Hst He Hv.
  assert (Hns : st (sk w) <> c_RTR_SHUTDOWN) by (rewrite Hst; discriminate).
  assert (Hm : Z.max 0 c_RTR_RECV_TIMEOUT = c_RTR_RECV_TIMEOUT) by reflexivity.
  pose proof (receive_pdu_quiet c_RTR_RECV_TIMEOUT w v rest He ltac:(rewrite Hm; exact Hv) Hns) as Er.
  set (wq := quiet_world w v rest (now w) c_RTR_RECV_TIMEOUT) in *.
  assert (Esf : sync_first (S f) w = Ok None (state_changed c_RTR_ERROR_TRANSPORT wq)).
  { cbn [sync_first]. rewrite (bind_eq _ _ _ _ _ Er). rewrite (bind_eq get_sk _ wq (sk wq) wq eq_refl).
    cbn [Z.eqb Pos.eqb andb orb]. rewrite (bind_eq _ _ _ _ _ (change_state_eq' _ _)). reflexivity. }
  assert (Ers : rtr_sync (S f) w = Ok (-1) (state_changed c_RTR_ERROR_TRANSPORT wq)).
  { unfold rtr_sync. rewrite (bind_eq _ _ _ _ _ Esf). reflexivity. }
  unfold fsm_step. rewrite (bind_eq get_sk _ w (sk w) w eq_refl). cbv zeta. rewrite Hst. const_dec.
  rewrite (bind_eq _ _ _ _ _ Ers). cbn [Z.eqb]. unfold ret, state_changed. subst wq. unfold quiet_world. cbn [sk]. rewrite Hst. const_dec.
  eexists. split; [reflexivity|]. cbn [sk pfx keys evs opens sends now with_sk with_out st upd_st]. rewrite Hm.
  repeat split; auto.
Qed.

(* ESTABLISHED and nothing arrives: when the refresh timer runs out the Serial Query is sent *)
Theorem established_quiet f w v rest :
  st (sk w) = c_RTR_ESTABLISHED -> sends w = [] ->
  let wait := Z.max 0 (last_update (sk w) + refresh_iv (sk w) - now w) in
  evs w = EvWait v :: rest -> wait < v ->
  exists w1, fsm_step f w = Ok tt w1 /\ st (sk w1) = c_RTR_SYNC /\ now w1 = now w + wait /\
             opens w1 = opens w /\ sends w1 = [] /\ pfx w1 = pfx w /\ keys w1 = keys w /\ core (sk w1) = core (sk w) /\
             evs w1 = EvWait (v - wait) :: rest.
Proof.
  intros Hst Hs wait He Hv.
  assert (Hns : st (sk w) <> c_RTR_SHUTDOWN) by (rewrite Hst; discriminate).
  assert (Hm : Z.max 0 wait = wait) by (subst wait; lia).
  pose proof (receive_pdu_quiet wait w v rest He ltac:(rewrite Hm; exact Hv) Hns) as Er.
  set (wq := quiet_world w v rest (now w) wait) in *.
  assert (Ew : wait_for_sync w = Ok 0 wq).
  { unfold wait_for_sync. rewrite (bind_eq get_sk _ w (sk w) w eq_refl). rewrite (bind_eq get_now _ w (now w) w eq_refl).
    fold wait. rewrite (bind_eq _ _ _ _ _ Er). reflexivity. }
  assert (Hnsq : st (sk wq) <> c_RTR_SHUTDOWN) by exact Hns.
  assert (Hq : send_serial_query wq = Ok 0 (with_out wq (TSend (serial_query_bytes (sk wq)) :: out wq))).
  { unfold send_serial_query. rewrite (bind_eq get_sk _ wq (sk wq) wq eq_refl). fold (serial_query_bytes (sk wq)).
    rewrite (bind_eq _ _ _ _ _ (send_pdu_whole (serial_query_bytes (sk wq)) wq Hnsq Hs
                                 ltac:(unfold zlen; cbn [serial_query_bytes List.length app enc16 enc32]; lia))).
    reflexivity. }
  unfold fsm_step. rewrite (bind_eq get_sk _ w (sk w) w eq_refl). cbv zeta. rewrite Hst. const_dec.
  rewrite (bind_eq _ _ _ _ _ Ew). cbn [Z.eqb]. rewrite (bind_eq _ _ _ _ _ Hq). cbn [Z.eqb].
  rewrite change_state_eq'. unfold state_changed. subst wq. unfold quiet_world. cbn [sk with_out]. rewrite Hst. const_dec.
  eexists. split; [reflexivity|]. cbn [sk pfx keys evs opens sends now with_sk with_out st upd_st]. rewrite Hm.
  repeat split; auto.
Qed.

(* ---------- the bound, and the full statement that is NOT proved ---------- *)
Definition recovery_bound (s : sock) : Z := refresh_iv s + retry_iv s + 2 * c_RTR_RECV_TIMEOUT.

(* closed loop: a truthful, quiet cache that reacts to the client's queries.  Whenever an iteration ends in SYNC
   coming from another state (a query has just been sent) the cache's answer is put in front of the silence. *)
Fixpoint run_with_cache (n fuel : nat) (c : cache) (w : world) : world :=
  match n with
  | O => w
  | S n' =>
    match fsm_step fuel w with
    | Ok _ w1 =>
        let w2 := if negb (st (sk w) =? c_RTR_SYNC) && (st (sk w1) =? c_RTR_SYNC)
                  then mkW (sk w1) (pfx w1) (keys w1) (EvData (concat (answer c (pending_query w1))) :: evs w1)
                           (opens w1) (sends w1) (now w1) (out w1)
                  else w1 in
        run_with_cache n' fuel c w2
    | Exc _ w1 => w1
    end
  end.

(* C08_converge in full: from ANY world the state machine can be in after a finite run of faults in which every
   completed well-formed response was truthful (hence: the invariant, and the snapshot property for the cache's
   history), with a transport that works from now on and a cache that answers truthfully in the client's version
   and is otherwise silent, the client is synchronised within a bounded number of iterations and within
   recovery_bound of protocol time. *)
Definition C08_converge_full : Prop :=
  forall (c : cache) (f : nat) (w : world) (silence : Z),
    cache_ok c -> Inv w -> live w -> version (sk w) = c_ver c -> snapshot_hyp c w ->
    (List.length (c_data c) < f)%nat -> (forall k old, In (k, old) (c_hist c) -> (List.length (delta_pdus old (c_data c)) < f)%nat) ->
    (forall k, nth k (opens w) true = true) -> (16 <= List.length (opens w))%nat -> sends w = [] ->
    evs w = [EvWait silence] -> 16 * recovery_bound (sk w) < silence ->
    exists n, (n <= 16)%nat /\
      let w' := run_with_cache n (S f) c w in
      synced c w' w' /\ now w' - now w <= recovery_bound (sk w).

(* ---------- Examples: the hypotheses of the exchange theorems are satisfiable ---------- *)
Definition ex_tail : list byte := [0;0;14;16; 0;0;2;88; 0;0;28;32].
Definition ex_cache : cache := mkCache 1 42 5 [ex_PA] [(5, [ex_PA])] ex_tail.

Ltac pdu_facts := repeat split; try reflexivity; try (vm_compute; discriminate); try (vm_compute; auto; fail).

Lemma ex_PA_ok : payload_ok 1 ex_PA /\ pdu_flags ex_PA = 1.
Proof. unfold payload_ok, pdu_ok. pdu_facts. Qed.
Lemma ex_PB_ok : payload_ok 1 ex_PB /\ pdu_flags ex_PB = 1.
Proof. unfold payload_ok, pdu_ok. pdu_facts. Qed.

Lemma ex_dataset_PA : dataset_ok 1 [ex_PA].
Proof.
  split; [constructor; [exact ex_PA_ok|constructor]|]. split; vm_compute; repeat constructor. intros [].
Qed.

Lemma ex_cache_ok : cache_ok ex_cache.
Proof.
  unfold cache_ok. cbn [c_ver c_session c_serial c_data c_hist c_eod_tail ex_cache].
  split; [right; reflexivity|]. split; [lia|]. split; [lia|]. split; [exact ex_dataset_PA|].
  split; [constructor; [exact ex_dataset_PA|constructor]|].
  split; [unfold pdu_ok; pdu_facts|].
  unfold ex_tail. repeat (apply Forall_cons; [lia|]). apply Forall_nil.
Qed.

Example one_good_exchange_reset_example :
  let w2 := run_fsm 2 100 ex_w0 in       (* CONNECTING -> RESET -> SYNC: a Reset Query is pending *)
  pending_query w2 = QReset /\ synced ex_cache w2 (run_fsm 1 100 w2) /\ Inv (run_fsm 1 100 w2).
Proof.
  cbv zeta. set (w2 := run_fsm 2 100 ex_w0).
  assert (HI : Inv w2) by (apply run_fsm_Inv, ex_w0_Inv).
  split; [reflexivity|].
  assert (Hd : delivers (evs w2) (truthful_stream ex_cache w2 ++ []) (skipn 1 (evs w2))).
  { exists [ex_CR ++ ex_PA ++ ex_EOD]. split; vm_compute; reflexivity. }
  pose proof (one_good_exchange 99 w2 ex_cache [] (skipn 1 (evs w2)) HI eq_refl eq_refl ex_cache_ok) as H.
  assert (Hs : snapshot_hyp ex_cache w2) by (intros old Hq; vm_compute in Hq; discriminate).
  specialize (H Hs eq_refl Hd). cbv zeta in H.
  destruct H as (A & _ & B); [vm_compute; lia|intros k old [E|[]]; inversion E; subst; vm_compute; lia|].
  split; [exact A|exact B].
Qed.

(* ---------- reconnects are paced ---------- *)
(* CONNECTING is entered only from an error state, after sleeping retry_interval, or from FAST_RECONNECT (the one-off
   version downgrade); a connection attempt never leads straight back to CONNECTING *)
Lemma err_b_not_connecting s : err_b s = true -> s <> c_RTR_CONNECTING.
Proof. intros H ->. discriminate. Qed.

Theorem reconnect_paced f w : live w ->
  hoareE (fsm_step f) w
    (fun _ w' => st (sk w') = c_RTR_CONNECTING ->
       ((st (sk w) = c_RTR_ERROR_TRANSPORT \/ st (sk w) = c_RTR_ERROR_FATAL) /\ now w' = now w + retry_iv (sk w)) \/
       st (sk w) = c_RTR_FAST_RECONNECT)
    (fun _ => True).
Proof.
  intros Hl. pose proof (live_not_shutdown w Hl) as Hns.
  assert (NC : forall (m : world -> res unit) w0, st (sk w0) <> c_RTR_CONNECTING -> relE m w0 ->
            hoareE m w0 (fun _ w' => st (sk w') = c_RTR_CONNECTING -> False) (fun _ => True)).
  { intros m w0 H0 HE. unfold hoareE. unfold rel in HE. destruct (m w0) as [a w'|e w']; [|exact I].
    intros Hc. destruct HE as [HE|HE]; [rewrite HE in Hc; contradiction|apply (err_b_not_connecting _ HE), Hc]. }
  assert (CS : forall ns w0, ns <> c_RTR_CONNECTING -> st (sk w0) <> c_RTR_CONNECTING ->
            st (sk (state_changed ns w0)) <> c_RTR_CONNECTING).
  { intros ns w0 H1 H2. unfold state_changed. destruct (_ || _); [exact H2|]. cbn [sk with_sk with_out st upd_st]. exact H1. }
  destruct (st (sk w) =? c_RTR_CONNECTING) eqn:E0.
  { (* a connection attempt ends in ERROR_TRANSPORT, RESET, SYNC or ERROR_FATAL *)
    apply Z.eqb_eq in E0. destruct (expire_at_connect f w E0) as (E & _). unfold hoareE. rewrite E.
    set (wo := at_open w).
    assert (Hso : st (sk wo) = c_RTR_CONNECTING).
    { subst wo. unfold at_open. set (w0 := with_sk w _). destruct (expired w0); unfold purged, removed, with_sk; subst w0; cbn; exact E0. }
    unfold connect_rest, tr_open. unfold bind at 1. destruct (opens wo) as [|b r]; [exact I|].
    set (w1 := mkW (sk wo) (pfx wo) (keys wo) (evs wo) r (sends wo) (now wo) (TOpen b (now wo) :: out wo)).
    assert (Hs1 : st (sk w1) = c_RTR_CONNECTING) by exact Hso.
    assert (Hn1 : st (sk w1) <> c_RTR_SHUTDOWN) by (rewrite Hs1; discriminate).
    destruct b; cbn [negb].
    - rewrite (bind_eq get_sk _ w1 (sk w1) w1 eq_refl). destruct (req_sess (sk w1)).
      + rewrite change_state_eq'. intros Hc. exfalso. revert Hc. unfold state_changed. rewrite Hs1. const_dec. cbn. discriminate.
      + destruct (send_serial_query_spec w1 Hn1) as (q & w2 & Eq & _ & _ & Hq). rewrite (bind_eq _ _ _ _ _ Eq).
        destruct (q =? 0); rewrite change_state_eq'; intros Hc; exfalso; revert Hc; unfold state_changed;
          destruct Hq as [[_ Hq]|[_ Hq]]; rewrite Hq, ?Hs1; const_dec; cbn; discriminate.
    - rewrite change_state_eq'. intros Hc. exfalso. revert Hc. unfold state_changed. rewrite Hs1. const_dec. cbn. discriminate. }
  apply Z.eqb_neq in E0.
  unfold fsm_step. apply hoareE_get_sk. cbv zeta. apply Z.eqb_neq in E0. rewrite E0. apply Z.eqb_neq in E0.
  destruct (st (sk w) =? c_RTR_RESET) eqn:E1.
  { destruct (send_reset_query_spec w Hns) as (q & w2 & Eq & _ & _ & Hq). unfold hoareE. rewrite (bind_eq _ _ _ _ _ Eq).
    apply Z.eqb_eq in E1.
    destruct (q =? 0); [rewrite change_state_eq'|unfold ret]; intros Hc; exfalso; revert Hc; unfold state_changed;
      destruct Hq as [[_ Hq]|[_ Hq]]; rewrite ?Hq, ?E1; const_dec; cbn; try discriminate. }
  assert (ENC : forall w1, E w w1 -> st (sk w1) <> c_RTR_CONNECTING).
  { intros w1 [H|H]; [rewrite H; exact E0|apply err_b_not_connecting, H]. }
  destruct (st (sk w) =? c_RTR_SYNC) eqn:E2.
  { eapply hoareE_bind2; [apply (hoareE_of_rel E), rtr_sync_E|auto|].
    cbv beta. intros r w1 HE1. unfold hoareE. destruct (r =? 0); [rewrite change_state_eq'|unfold ret]; intros Hc; exfalso; revert Hc.
    - apply CS; [discriminate|apply ENC, HE1].
    - apply ENC, HE1. }
  destruct (st (sk w) =? c_RTR_ESTABLISHED) eqn:E3.
  { eapply hoareE_bind2; [apply (hoareE_of_rel E), wait_for_sync_E|auto|].
    cbv beta. intros r w1 HE1. destruct (r =? 0); [|apply hoareE_ret; intros Hc; exfalso; exact (ENC _ HE1 Hc)].
    eapply hoareE_bind2; [apply (hoareE_of_rel E), send_serial_query_E|auto|].
    cbv beta. intros q w2 HE2. assert (HE12 : E w w2) by (eapply E_trans; eauto).
    unfold hoareE. destruct (q =? 0); [rewrite change_state_eq'|unfold ret]; intros Hc; exfalso; revert Hc.
    - apply CS; [discriminate|apply ENC, HE12].
    - apply ENC, HE12. }
  destruct (st (sk w) =? c_RTR_FAST_RECONNECT) eqn:E4.
  { apply Z.eqb_eq in E4. unfold hoareE.
    destruct ((mdo _ <- tr_close; change_state c_RTR_CONNECTING) w); [intros _; right; exact E4|exact I]. }
  destruct (st (sk w) =? c_RTR_ERROR_NO_DATA_AVAIL) eqn:E5.
  { apply Z.eqb_eq in E5. destruct (no_data_step f w E5) as (w1 & E & S1 & _). revert E. unfold fsm_step.
    rewrite (bind_eq get_sk _ w (sk w) w eq_refl). cbv zeta. rewrite E5. const_dec. intros E. unfold hoareE. rewrite E.
    intros Hc. rewrite S1 in Hc. discriminate. }
  destruct (st (sk w) =? c_RTR_ERROR_NO_INCR_UPDATE_AVAIL) eqn:E6.
  { apply Z.eqb_eq in E6. destruct (no_incr_step f w E6) as (w1 & E & S1 & _). revert E. unfold fsm_step.
    rewrite (bind_eq get_sk _ w (sk w) w eq_refl). cbv zeta. rewrite E6. const_dec. intros E. unfold hoareE. rewrite E.
    intros Hc. rewrite S1 in Hc. discriminate. }
  destruct ((st (sk w) =? c_RTR_ERROR_TRANSPORT) || (st (sk w) =? c_RTR_ERROR_FATAL)) eqn:E7.
  { assert (He : st (sk w) = c_RTR_ERROR_TRANSPORT \/ st (sk w) = c_RTR_ERROR_FATAL).
    { apply orb_true_iff in E7. destruct E7 as [H|H]; apply Z.eqb_eq in H; auto. }
    destruct (err_step f w He) as (w1 & E & _ & _ & (Hn & _)). revert E. unfold fsm_step.
    rewrite (bind_eq get_sk _ w (sk w) w eq_refl). cbv zeta.
    apply Z.eqb_neq in E0. rewrite E0, E1, E2, E3, E4, E5, E6, E7. intros E. unfold hoareE. rewrite E. intros _. left. auto. }
  apply hoareE_ret. intros Hc. contradiction.
Qed.
