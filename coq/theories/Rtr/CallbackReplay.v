(* CallbackReplay.v - C09 for cache-driven histories, list level: the update-callback items that the model's
   table operations emit (gupd / gapply / gundo on the live tables, the reload difference, removal by source)
   replay - strictly: "added" for a present record or "removed" for an absent one is an error - from the
   table before to the table after. *)
From Coq Require Import Permutation.
From RtrV Require Import Base.CSem Gen.Generated Rtr.RtrModel Rtr.SyncSets.
Local Open Scope Z_scope.

Lemma NoDup_app2 {B} (l1 l2 : list B) : NoDup l1 -> NoDup l2 -> (forall x, In x l1 -> ~ In x l2) -> NoDup (l1 ++ l2).
Proof.
  induction 1 as [|x l1 Hx Hn IH]; intros H2 Hd; [exact H2|]. cbn [app]. constructor.
  - rewrite in_app_iff. intros [H|H]; [exact (Hx H)|exact (Hd x (or_introl eq_refl) H)].
  - apply IH; [exact H2|]. intros y Hy. apply Hd. right. exact Hy.
Qed.

Section Replay.
Variable A : Type.
Variable eqb : A -> A -> bool.
Hypothesis eqb_eq : forall a b, eqb a b = true <-> a = b.
Variable item : bool -> A -> titem.
Variable unitem : titem -> option (bool * A).
Hypothesis unitem_item : forall a r, unitem (item a r) = Some (a, r).
Variable of_pdu : list byte -> A.

Notation gmem := (gmem A eqb).
Notation grem := (grem A eqb).
Notation gupd := (gupd A eqb item).
Notation gapply := (gapply A eqb item of_pdu).
Notation gundo := (gundo A eqb item of_pdu).

Definition greplay1 (S : option (list A)) (t : titem) : option (list A) :=
  match S with
  | None => None
  | Some X =>
    match unitem t with
    | None => Some X
    | Some (true, r) => if gmem r X then None else Some (X ++ [r])
    | Some (false, r) => if gmem r X then Some (grem r X) else None
    end
  end.
Definition greplay_from (S : option (list A)) (ts : list titem) : option (list A) := fold_left greplay1 ts S.
Definition greplay (ts : list titem) (X : list A) : option (list A) := greplay_from (Some X) ts.

Lemma greplay_from_None ts : fold_left greplay1 ts None = None.
Proof. induction ts as [|t ts IH]; [reflexivity|exact IH]. Qed.

Lemma greplay_app a b X : greplay (a ++ b) X = match greplay a X with Some Y => greplay b Y | None => None end.
Proof.
  unfold greplay, greplay_from. rewrite fold_left_app.
  destruct (fold_left greplay1 a (Some X)); [reflexivity|apply greplay_from_None].
Qed.

Lemma greplay_nil X : greplay [] X = Some X. Proof. reflexivity. Qed.

Lemma gupd_replay fl r X X' c t : gupd true fl r X = (X', c, t) -> greplay t X = Some X'.
Proof.
  unfold SyncSets.gupd. intros H.
  destruct (fl =? 1).
  - destruct (gmem r X) eqn:M; inversion H; subst; [reflexivity|].
    unfold greplay, greplay_from. cbn [fold_left greplay1]. rewrite unitem_item, M. reflexivity.
  - destruct (fl =? 0); [|inversion H; subst; reflexivity].
    destruct (gmem r X) eqn:M; inversion H; subst; [|reflexivity].
    unfold greplay, greplay_from. cbn [fold_left greplay1]. rewrite unitem_item, M. reflexivity.
Qed.

Lemma gapply_replay ps : forall X done,
  greplay (snd (fst (gapply true ps X done))) X = Some (fst (fst (gapply true ps X done))).
Proof.
  induction ps as [|p ps IH]; intros X done; cbn [SyncSets.gapply]; [reflexivity|].
  destruct (gupd true (pdu_flags p) (of_pdu p) X) as [[X1 c] t] eqn:E.
  destruct (c =? 0); [|reflexivity].
  specialize (IH X1 (p :: done)). destruct (gapply true ps X1 (p :: done)) as [[X2 t2] f]. cbn [fst snd] in *.
  rewrite greplay_app, (gupd_replay _ _ _ _ _ _ E). exact IH.
Qed.

Lemma gundo_replay d : forall X,
  greplay (snd (fst (gundo true d X))) X = Some (fst (fst (gundo true d X))).
Proof.
  induction d as [|p d IH]; intros X; cbn [SyncSets.gundo]; [reflexivity|].
  destruct (gupd true (1 - pdu_flags p) (of_pdu p) X) as [[X1 c] t] eqn:E.
  destruct (c =? 0); [|reflexivity].
  specialize (IH X1). destruct (gundo true d X1) as [[X2 t2] ok]. cbn [fst snd] in *.
  rewrite greplay_app, (gupd_replay _ _ _ _ _ _ E). exact IH.
Qed.

(* everything these operations emit is an item of this table *)
Definition is_item (t : titem) : Prop := exists a r, t = item a r.
Lemma gupd_items live fl r X X' c t : SyncSets.gupd A eqb item live fl r X = (X', c, t) -> Forall is_item t.
Proof.
  unfold SyncSets.gupd. intros H.
  destruct (fl =? 1); [destruct (gmem r X)|destruct (fl =? 0); [destruct (gmem r X)|]]; inversion H; subst; try constructor;
    destruct live; repeat constructor; eexists _, _; reflexivity.
Qed.
Lemma gapply_items live ps : forall X done, Forall is_item (snd (fst (SyncSets.gapply A eqb item of_pdu live ps X done))).
Proof.
  induction ps as [|p ps IH]; intros X done; cbn [SyncSets.gapply]; [constructor|].
  destruct (SyncSets.gupd A eqb item live (pdu_flags p) (of_pdu p) X) as [[X1 c] t] eqn:E.
  destruct (c =? 0); [|constructor].
  specialize (IH X1 (p :: done)). destruct (SyncSets.gapply A eqb item of_pdu live ps X1 (p :: done)) as [[X2 t2] f]. cbn [fst snd] in *.
  apply Forall_app. split; [exact (gupd_items _ _ _ _ _ _ _ E)|exact IH].
Qed.
Lemma gundo_items live d : forall X, Forall is_item (snd (fst (SyncSets.gundo A eqb item of_pdu live d X))).
Proof.
  induction d as [|p d IH]; intros X; cbn [SyncSets.gundo]; [constructor|].
  destruct (SyncSets.gupd A eqb item live (1 - pdu_flags p) (of_pdu p) X) as [[X1 c] t] eqn:E.
  destruct (c =? 0); [|constructor].
  specialize (IH X1). destruct (SyncSets.gundo A eqb item of_pdu live d X1) as [[X2 t2] ok]. cbn [fst snd] in *.
  apply Forall_app. split; [exact (gupd_items _ _ _ _ _ _ _ E)|exact IH].
Qed.

(* items of other tables are skipped *)
Lemma greplay_skip ts : forall X, Forall (fun t => unitem t = None) ts -> greplay ts X = Some X.
Proof.
  induction ts as [|t ts IH]; intros X H; [reflexivity|]. inversion H as [|? ? Ht Hts]; subst.
  unfold greplay, greplay_from in *. cbn [fold_left greplay1]. rewrite Ht. apply IH, Hts.
Qed.

(* the operations keep a table duplicate-free *)
Lemma gupd_NoDup live fl r X X' c t : SyncSets.gupd A eqb item live fl r X = (X', c, t) -> NoDup X -> NoDup X'.
Proof.
  unfold SyncSets.gupd. intros H Hn.
  destruct (fl =? 1).
  - destruct (gmem r X) eqn:M; inversion H; subst; [exact Hn|].
    apply (NoDup_snoc A); [exact Hn|apply (gmem_false A eqb eqb_eq), M].
  - destruct (fl =? 0); [|inversion H; subst; exact Hn].
    destruct (gmem r X); inversion H; subst; [apply NoDup_filter, Hn|exact Hn].
Qed.
Lemma gapply_NoDup live ps : forall X done, NoDup X -> NoDup (fst (fst (SyncSets.gapply A eqb item of_pdu live ps X done))).
Proof.
  induction ps as [|p ps IH]; intros X done Hn; cbn [SyncSets.gapply]; [exact Hn|].
  destruct (SyncSets.gupd A eqb item live (pdu_flags p) (of_pdu p) X) as [[X1 c] t] eqn:E.
  destruct (c =? 0); [|exact Hn].
  specialize (IH X1 (p :: done) (gupd_NoDup _ _ _ _ _ _ _ E Hn)).
  destruct (SyncSets.gapply A eqb item of_pdu live ps X1 (p :: done)) as [[X2 t2] f]. exact IH.
Qed.
Lemma gundo_NoDup live d : forall X, NoDup X -> NoDup (fst (fst (SyncSets.gundo A eqb item of_pdu live d X))).
Proof.
  induction d as [|p d IH]; intros X Hn; cbn [SyncSets.gundo]; [exact Hn|].
  destruct (SyncSets.gupd A eqb item live (1 - pdu_flags p) (of_pdu p) X) as [[X1 c] t] eqn:E.
  destruct (c =? 0); [|exact Hn].
  specialize (IH X1 (gupd_NoDup _ _ _ _ _ _ _ E Hn)).
  destruct (SyncSets.gundo A eqb item of_pdu live d X1) as [[X2 t2] ok]. exact IH.
Qed.

(* replay respects the order of the table: permuted tables give permuted results *)
Lemma gmem_perm r X Y : Permutation X Y -> gmem r X = gmem r Y.
Proof.
  intros H. destruct (gmem r Y) eqn:M.
  - apply (gmem_In A eqb eqb_eq) in M. apply (gmem_In A eqb eqb_eq). eapply Permutation_in; [apply Permutation_sym, H|exact M].
  - apply (gmem_false A eqb eqb_eq) in M. apply (gmem_false A eqb eqb_eq). intros Hx. apply M. eapply Permutation_in; eauto.
Qed.

Lemma greplay_perm ts : forall X Y Z, Permutation X Y -> greplay ts X = Some Z ->
  exists Z', greplay ts Y = Some Z' /\ Permutation Z Z'.
Proof.
  induction ts as [|t ts IH]; intros X Y Z HP H.
  - inversion H; subst. exists Y. split; [reflexivity|exact HP].
  - unfold greplay, greplay_from in *. cbn [fold_left] in *. cbn [greplay1] in *.
    destruct (unitem t) as [[[|] r]|].
    + rewrite <- (gmem_perm r X Y HP). destruct (gmem r X); [rewrite greplay_from_None in H; discriminate|].
      apply (IH (X ++ [r]) (Y ++ [r]) Z); [apply Permutation_app_tail, HP|exact H].
    + rewrite <- (gmem_perm r X Y HP). destruct (gmem r X); [|rewrite greplay_from_None in H; discriminate].
      apply (IH (grem r X) (grem r Y) Z); [apply Permutation_filter', HP|exact H].
    + apply (IH X Y Z HP H).
Qed.

(* all of a duplicate-free list of absent records added / of present records removed *)
Lemma greplay_add_all rs : forall X, NoDup rs -> (forall r, In r rs -> ~ In r X) ->
  greplay (map (item true) rs) X = Some (X ++ rs).
Proof.
  induction rs as [|r rs IH]; intros X Hn Hd; [cbn; rewrite app_nil_r; reflexivity|].
  inversion Hn as [|? ? Hr Hrs]; subst. cbn [map]. change (item true r :: map (item true) rs) with ([item true r] ++ map (item true) rs).
  rewrite greplay_app. unfold greplay at 1, greplay_from. cbn [fold_left greplay1]. rewrite unitem_item.
  assert (M : gmem r X = false) by (apply (gmem_false A eqb eqb_eq), Hd; left; reflexivity). rewrite M.
  rewrite IH; [rewrite <- app_assoc; reflexivity|exact Hrs|].
  intros x Hx Hin. apply in_app_iff in Hin as [Hin|[<-|[]]]; [apply (Hd x); [right; exact Hx|exact Hin]|contradiction].
Qed.

Lemma greplay_remove_all rs : forall X, NoDup rs -> (forall r, In r rs -> In r X) ->
  exists Y, greplay (map (item false) rs) X = Some Y /\ (forall x, In x Y <-> In x X /\ ~ In x rs) /\ (NoDup X -> NoDup Y).
Proof.
  induction rs as [|r rs IH]; intros X Hn Hd.
  - exists X. split; [reflexivity|]. split; [intros x; cbn; tauto|auto].
  - inversion Hn as [|? ? Hr Hrs]; subst. cbn [map].
    change (item false r :: map (item false) rs) with ([item false r] ++ map (item false) rs).
    rewrite greplay_app. unfold greplay at 1, greplay_from. cbn [fold_left greplay1]. rewrite unitem_item.
    assert (M : gmem r X = true) by (apply (gmem_In A eqb eqb_eq), Hd; left; reflexivity). rewrite M.
    destruct (IH (grem r X) Hrs) as (Y & HY & Hmem & Hnd).
    { intros x Hx. apply (In_grem A eqb eqb_eq). split; [apply Hd; right; exact Hx|]. intros ->. contradiction. }
    exists Y. split; [exact HY|]. split.
    { intros x. rewrite Hmem, (In_grem A eqb eqb_eq). cbn [In]. split.
      + intros [[H1 H2] H3]. split; [exact H1|]. intros [H4|H4]; [congruence|contradiction].
      + intros [H1 H2]. split; [split; [exact H1|]|]; intros H3; apply H2; [left; congruence|right; exact H3]. }
    intros HX. apply Hnd. apply NoDup_filter. exact HX.
Qed.

(* the reload difference and the removal of a source's records *)
Variable src : A -> Z.
Notation own := (own A src).

Lemma In_own x X : In x (own X) <-> In x X /\ src x = 1.
Proof. unfold SyncSets.own. rewrite filter_In, Z.eqb_eq. tauto. Qed.

Lemma greplay_diff T T' :
  NoDup T -> NoDup T' -> (forall x, src x <> 1 -> (In x T <-> In x T')) ->
  exists Y,
    greplay (map (item true) (filter (fun r => negb (gmem r (own T))) (own T')) ++
             map (item false) (filter (fun r => negb (gmem r (own T'))) (own T))) T = Some Y /\
    Permutation Y T'.
Proof.
  intros Hn Hn' Hoth.
  set (Ad := filter (fun r => negb (gmem r (own T))) (own T')).
  set (Rm := filter (fun r => negb (gmem r (own T'))) (own T)).
  assert (HA : forall x, In x Ad <-> In x T' /\ src x = 1 /\ ~ In x T).
  { intros x. unfold Ad. rewrite filter_In, In_own, negb_true_iff, (gmem_false A eqb eqb_eq), In_own. tauto. }
  assert (HR : forall x, In x Rm <-> In x T /\ src x = 1 /\ ~ In x T').
  { intros x. unfold Rm. rewrite filter_In, In_own, negb_true_iff, (gmem_false A eqb eqb_eq), In_own. tauto. }
  assert (NA : NoDup Ad) by (unfold Ad, SyncSets.own; apply NoDup_filter, NoDup_filter, Hn').
  assert (NR : NoDup Rm) by (unfold Rm, SyncSets.own; apply NoDup_filter, NoDup_filter, Hn).
  rewrite greplay_app, (greplay_add_all Ad T NA) by (intros r Hr; apply HA in Hr; tauto).
  destruct (greplay_remove_all Rm (T ++ Ad) NR) as (Y & HY & Hmem & Hnd).
  { intros r Hr. apply HR in Hr. apply in_app_iff. tauto. }
  exists Y. split; [exact HY|].
  apply NoDup_Permutation; [apply Hnd| exact Hn'|].
  { apply NoDup_app2; [exact Hn|exact NA|]. intros x Hx HxA. apply HA in HxA. tauto. }
  intros x. rewrite Hmem, in_app_iff, HA, HR.
  destruct (Z.eq_dec (src x) 1) as [E|E].
  - destruct (gmem x T) eqn:M; [apply (gmem_In A eqb eqb_eq) in M|apply (gmem_false A eqb eqb_eq) in M];
      (destruct (gmem x T') eqn:M'; [apply (gmem_In A eqb eqb_eq) in M'|apply (gmem_false A eqb eqb_eq) in M']); tauto.
  - specialize (Hoth x E). tauto.
Qed.
End Replay.
