(* FsmTie.v - the control skeleton of the RTR client state machine, TRANSLATED from the C by tools/c2v.py (effect mode,
   Gen/GeneratedFsm.v: rtr_purge_outdated_records, rtr_wait_for_sync, the statements before and ONE iteration of the
   `while (1)` loop of rtr_fsm_start), interpreted in the monad of the hand-written model (Rtr/RtrModel.v) and proved
   equal to the model's purge_outdated / wait_for_sync / fsm_step.

   Main statements (all for an arbitrary world w and an arbitrary fuel for rtr_sync):
     purge_tie     : purge_range (sk w) ->
                     interp fuel (rtr_purge_outdated_records_gen (sock_store (sk w))) w = Some (as_eff (fun _ => 0) purge_outdated w)
     wait_tie      : wait_range w ->
                     interp fuel (rtr_wait_for_sync_gen (sock_store (sk w))) w = Some (as_eff (fun r => r) wait_for_sync w)
     fsm_step_tie  : step_range w -> st (sk w) <> c_RTR_SHUTDOWN ->
                     interp fuel (rtr_fsm_start__iter_gen (sock_store (sk w))) w = Some (as_eff (fun _ => 0) (fsm_step fuel) w)
                     (per state: step_connecting, step_reset, step_sync, step_established, step_fast_reconnect,
                      step_no_data, step_no_incr, step_error (RTR_ERROR_FATAL and RTR_ERROR_TRANSPORT), step_other
                      (RTR_CLOSED and every number that is no enumerator); step_shutdown for RTR_SHUTDOWN)
     prologue_tie  : the statements before the loop.
   [Some] = the C is defined (no signed overflow, no load outside the delivered bytes); [as_eff conv m] = the model
   computation m, its value converted by conv, together with the socket's fields at the end.  The side conditions are
   about integer ranges only:
     purge_range s : last_update s = 0, or expire_iv fits unsigned int and last_update + expire_iv fits time_t;
     wait_range w  : refresh_iv fits unsigned int, last_update + refresh_iv and (last_update + refresh_iv) - now fit time_t;
     step_range w  : 0 <= state < 2^32, purge_range, and wait_range in RTR_ESTABLISHED
   and follow from c_range ("every field in the range of its C type, time stamps below 2^62").  They are needed:
   purge_overflow_differs is a world outside purge_range where the C is undefined and the model is not.

   Differences between code and hand-written model found on the way (none changes a reachable behaviour):
     - the model reads the clock BEFORE it tests last_update = 0 (no effect in the model: get_now changes nothing);
     - lrtr_get_monotonic_time cannot fail in the model: the `rtval == -1` disjunct of the C (purge when the clock
       cannot be read) has no counterpart;
     - the model removes the records with one src_remove_all, the C with two calls (src_remove_split: the same);
     - in RTR_ERROR_NO_DATA_AVAIL / _TRANSPORT / _FATAL the C reads retry_interval AFTER rtr_change_socket_state, the
       model before (sc_retry: the same, rtr_change_socket_state touches the state only);
     - RTR_SHUTDOWN: the C ends the thread (pthread_exit), the model's fsm_step does nothing and would be called again;
       run_fsm cannot tell (run_fsm_shutdown), and run_fsm never gets there (rtr_stop leaves RTR_CLOSED);
     - the model computes in unbounded integers: at the end of time_t the C's additions overflow (undefined).  *)
From Coq Require Import ZifyBool.
From RtrV Require Import Base.CSem Base.Mem Base.Eff Gen.Generated Gen.GeneratedMem Gen.GeneratedFsm
  Rtr.RtrModel Rtr.RelFrame Rtr.ExpiryTac Rtr.SyncSets Rtr.ExpiryFrames Rtr.ConvergeStutter Rtr.ExpiryProofs.
Local Open Scope string_scope.
Local Open Scope Z_scope.

(* ====================================================================================================== *)
(* 1. struct rtr_socket <-> the model's sock                                                                *)
(* ====================================================================================================== *)
(* every integer field of struct rtr_socket (the pointer fields tr_socket, pfx_table, spki_table, the callback and the
   thread id are not modelled: the translated code hands them to callees only) *)
Definition sock_store (s : sock) : store :=
  [("state", st s); ("version", version s); ("session_id", session_id s);
   ("request_session_id", b2z (req_sess s)); ("serial_number", serial s); ("last_update", last_update s);
   ("refresh_interval", refresh_iv s); ("expire_interval", expire_iv s); ("retry_interval", retry_iv s);
   ("iv_mode", iv_mode s); ("has_received_pdus", b2z (has_recv s)); ("is_resetting", b2z (resetting s))].

Definition store_sock (t : store) : sock :=
  mkSock (sget "state" t) (sget "version" t) (sget "session_id" t) (z2b (sget "request_session_id" t))
         (sget "serial_number" t) (sget "last_update" t) (sget "refresh_interval" t) (sget "expire_interval" t)
         (sget "retry_interval" t) (sget "iv_mode" t) (z2b (sget "has_received_pdus" t)) (z2b (sget "is_resetting" t)).

Lemma z2b_b2z b : z2b (b2z b) = b. Proof. destruct b; reflexivity. Qed.

Lemma store_sock_store s : store_sock (sock_store s) = s.
Proof. destruct s as [a b c d e f g h i j k l]. destruct d, k, l; reflexivity. Qed.

Lemma with_sk_same w : with_sk w (sk w) = w. Proof. destruct w; reflexivity. Qed.
Lemma with_sk_twice w a b : with_sk (with_sk w a) b = with_sk w b. Proof. reflexivity. Qed.
Lemma with_sk_store w : with_sk w (store_sock (sock_store (sk w))) = w.
Proof. rewrite store_sock_store. apply with_sk_same. Qed.

(* reads *)
Lemma sg_state s : sget "state" (sock_store s) = st s. Proof. reflexivity. Qed.
Lemma sg_last s : sget "last_update" (sock_store s) = last_update s. Proof. reflexivity. Qed.
Lemma sg_refresh s : sget "refresh_interval" (sock_store s) = refresh_iv s. Proof. reflexivity. Qed.
Lemma sg_expire s : sget "expire_interval" (sock_store s) = expire_iv s. Proof. reflexivity. Qed.
Lemma sg_retry s : sget "retry_interval" (sock_store s) = retry_iv s. Proof. reflexivity. Qed.
Lemma sg_req s : sget "request_session_id" (sock_store s) = b2z (req_sess s). Proof. reflexivity. Qed.
(* writes *)
Lemma ss_req s b : sset "request_session_id" (b2z b) (sock_store s) = sock_store (upd_req s b). Proof. reflexivity. Qed.
Lemma ss_serial s v : sset "serial_number" v (sock_store s) = sock_store (upd_serial s v). Proof. reflexivity. Qed.
Lemma ss_last s v : sset "last_update" v (sock_store s) = sock_store (upd_last s v). Proof. reflexivity. Qed.
Lemma ss_resetting s b : sset "is_resetting" (b2z b) (sock_store s) = sock_store (upd_resetting s b). Proof. reflexivity. Qed.
Lemma ss_hasrecv s b : sset "has_received_pdus" (b2z b) (sock_store s) = sock_store (upd_hasrecv s b). Proof. reflexivity. Qed.
Lemma ss_state s v : sset "state" v (sock_store s) = sock_store (upd_st s v). Proof. reflexivity. Qed.

(* ====================================================================================================== *)
(* 2. interpretation of the effect tree in the model's monad                                                *)
(* ====================================================================================================== *)
(* The model removes a socket's prefixes and keys in one go (src_remove_all); the C makes two calls.  The two halves: *)
Definition pfx_src_remove : world -> res unit :=
  mdo w <- get_w;
  mdo _ <- set_tables (filter (fun r => negb (psrc r =? 1)) (pfx w)) (keys w);
  emit_all (map (TPfx false) (filter (fun r => psrc r =? 1) (pfx w))).
Definition spki_src_remove : world -> res unit :=
  mdo w <- get_w;
  mdo _ <- set_tables (pfx w) (filter (fun r => negb (ksrc r =? 1)) (keys w));
  emit_all (if spki_src_remove_notifies then map (TKey false) (filter (fun r => ksrc r =? 1) (keys w)) else []).
Lemma src_remove_split w : src_remove_all w = (mdo _ <- pfx_src_remove; spki_src_remove) w.
Proof. reflexivity. Qed.

(* the local array handed to rtr_receive_pdu, after the call: the received PDU (as the model has it: in network
   byte order - the C converts the header's length field in place, the type byte at offset 1 is the same either
   way), then whatever was there before (zeros here), [len] bytes in all *)
Definition pad_buf (len : Z) (p : list byte) : list Z := firstn (Z.to_nat len) (p ++ repeat 0 (Z.to_nat len))%list.

(* what the untranslated functions do, in terms of the model.  None = undefined (an unknown function, the failing
   assert(pdu_len >= RTR_MAX_PDU_LEN) of rtr_receive_pdu).  Results as Base/Eff.v says: return value, out-parameters,
   buffer bytes.
     lrtr_get_monotonic_time  always succeeds in the model (result 0, *cur_time = now): the `rtval == -1` branch of
                              rtr_purge_outdated_records has no counterpart;
     pfx_table_src_remove / spki_table_src_remove  the two halves of src_remove_all (above), results ignored by the C;
     tr_open                  TR_SUCCESS 0 / TR_ERROR -1 for the model's true / false;
     rtr_receive_pdu          args [pdu_len; timeout]: RTR_SUCCESS 0 and the PDU in the buffer for [inr p]; the
                              (negative) code and NO bytes for [inl c] - so a tree that looks into the buffer after a
                              failed receive is undefined;
     sleep                    returns 0 (never interrupted);
     pthread_exit             ends the thread: exception XEnd 3, which run_fsm treats as "the run is over" (the model
                              itself has no thread exit: its fsm_step does nothing in RTR_SHUTDOWN, see section 7). *)
Definition ext_call (fuel : nat) (f : string) (args : list Z) : option (world -> res (list Z)) :=
  let a0 := nth 0 args 0 in
  let a1 := nth 1 args 0 in
  if String.eqb f "lrtr_get_monotonic_time" then Some (mdo t <- get_now; ret [0; t])
  else if String.eqb f "pfx_table_src_remove" then Some (mdo _ <- pfx_src_remove; ret [0])
  else if String.eqb f "spki_table_src_remove" then Some (mdo _ <- spki_src_remove; ret [0])
  else if String.eqb f "rtr_change_socket_state" then Some (mdo _ <- change_state a0; ret [])
  else if String.eqb f "tr_open" then Some (mdo ok <- tr_open; ret [if ok : bool then 0 else -1])
  else if String.eqb f "tr_close" then Some (mdo _ <- tr_close; ret [])
  else if String.eqb f "rtr_send_serial_query" then Some (mdo r <- send_serial_query; ret [r])
  else if String.eqb f "rtr_send_reset_query" then Some (mdo r <- send_reset_query; ret [r])
  else if String.eqb f "rtr_sync" then Some (mdo r <- rtr_sync fuel; ret [r])
  else if String.eqb f "rtr_receive_pdu" then
    if a0 <? c_RTR_MAX_PDU_LEN then None
    else Some (mdo r <- receive_pdu a1;
               ret (match r with inr p => 0 :: pad_buf a0 p | inl c => [c] end))
  else if String.eqb f "sleep" then Some (mdo _ <- do_sleep a0; ret [0])
  else if String.eqb f "pthread_exit" then Some (raise (XEnd 3))
  else None.

(* None = undefined.  Before every call, and at the return, the socket's fields go back into the world; after a call
   they are read from it again. *)
Fixpoint interp (fuel : nat) (e : eff) (w : world) {struct e} : option (res (Z * store)) :=
  match e with
  | ERet r s => Some (Ok (r, s) (with_sk w (store_sock s)))
  | EUndef => None
  | ECall f args s k =>
    match ext_call fuel f args with
    | None => None
    | Some m =>
      match m (with_sk w (store_sock s)) with
      | Ok rs w' => interp fuel (k rs (sock_store (sk w'))) w'
      | Exc x w' => Some (Exc x w')
      end
    end
  end.

(* a model computation as the translated function would report it: its value, and the socket's fields at the end *)
Definition as_eff {A} (conv : A -> Z) (m : world -> res A) : world -> res (Z * store) :=
  mdo a <- m; fun w => Ok (conv a, sock_store (sk w)) w.

Definition xbind {A B} (m : world -> res A) (f : A -> world -> option (res B)) (w : world) : option (res B) :=
  match m w with Ok a w' => f a w' | Exc x w' => Some (Exc x w') end.

Lemma xbind_some {A B} (m : world -> res A) (f : A -> world -> option (res B)) (g : A -> world -> res B) w :
  (forall a w', m w = Ok a w' -> f a w' = Some (g a w')) -> xbind m f w = Some (bind m g w).
Proof. unfold xbind, bind. intros H. destruct (m w) as [a w'|x w']; [apply H; reflexivity|reflexivity]. Qed.

Lemma bind_assoc {A B C} (m : world -> res A) (f : A -> world -> res B) (g : B -> world -> res C) w :
  bind (bind m f) g w = bind m (fun a => bind (f a) g) w.
Proof. unfold bind. destruct (m w); reflexivity. Qed.

(* the world's copy of the socket is dead on entry: the tree carries the fields *)
Lemma interp_sk fuel e : forall w s, interp fuel e (with_sk w s) = interp fuel e w.
Proof. induction e as [r t|f a t k IH|]; intros w s; reflexivity. Qed.

Lemma interp_ebind fuel e : forall k w,
  interp fuel (ebind e k) w =
  match interp fuel e w with
  | Some (Ok (r, s) w') => interp fuel (k r s) w'
  | Some (Exc x w') => Some (Exc x w')
  | None => None
  end.
Proof.
  induction e as [r t|f a t k' IH|]; intros k w; cbn [ebind interp].
  - rewrite interp_sk. reflexivity.
  - destruct (ext_call fuel f a) as [m|]; [|reflexivity].
    destruct (m (with_sk w (store_sock t))) as [rs w'|x w']; [apply IH|reflexivity].
  - reflexivity.
Qed.

(* a sub-tree that behaves like the model computation m: the rest runs after m *)
Lemma interp_ebind_model {A} fuel e (conv : A -> Z) (m : world -> res A) k w :
  interp fuel e w = Some (as_eff conv m w) ->
  interp fuel (ebind e k) w = xbind m (fun a w' => interp fuel (k (conv a) (sock_store (sk w'))) w') w.
Proof.
  intros H. rewrite interp_ebind, H. unfold as_eff, xbind, bind. destruct (m w); reflexivity.
Qed.

(* one lemma per untranslated function: the call, in bind form *)
Section Calls.
Variable fuel : nat.
Variables (s : store) (k : list Z -> store -> eff) (w : world).
Let w0 := with_sk w (store_sock s).
Let K (rs : list Z) (w' : world) := interp fuel (k rs (sock_store (sk w'))) w'.

Lemma interp_time a : interp fuel (ECall "lrtr_get_monotonic_time" a s k) w = K [0; now w0] w0.
Proof. reflexivity. Qed.
Lemma interp_pfx_remove a : interp fuel (ECall "pfx_table_src_remove" a s k) w = xbind pfx_src_remove (fun _ => K [0]) w0.
Proof. cbn [interp]. change (ext_call fuel "pfx_table_src_remove" a) with (Some (mdo _ <- pfx_src_remove; ret [0])).
  cbv beta iota. unfold xbind, bind. fold w0. destruct (pfx_src_remove w0); reflexivity. Qed.
Lemma interp_spki_remove a : interp fuel (ECall "spki_table_src_remove" a s k) w = xbind spki_src_remove (fun _ => K [0]) w0.
Proof. cbn [interp]. change (ext_call fuel "spki_table_src_remove" a) with (Some (mdo _ <- spki_src_remove; ret [0])).
  cbv beta iota. unfold xbind, bind. fold w0. destruct (spki_src_remove w0); reflexivity. Qed.
Lemma interp_change_state n : interp fuel (ECall "rtr_change_socket_state" [n] s k) w = K [] (state_changed n w0).
Proof. cbn [interp]. change (ext_call fuel "rtr_change_socket_state" [n]) with (Some (mdo _ <- change_state n; ret (@nil Z))).
  cbv beta iota. fold w0. unfold bind. rewrite change_state_eq'. reflexivity. Qed.
Lemma interp_tr_open a : interp fuel (ECall "tr_open" a s k) w = xbind tr_open (fun ok => K [if ok : bool then 0 else -1]) w0.
Proof. cbn [interp]. change (ext_call fuel "tr_open" a) with (Some (mdo ok <- tr_open; ret [if ok : bool then 0 else -1])).
  cbv beta iota. unfold xbind, bind. fold w0. destruct (tr_open w0); reflexivity. Qed.
Lemma interp_tr_close a : interp fuel (ECall "tr_close" a s k) w = K [] (with_out w0 (TClose :: out w0)).
Proof. reflexivity. Qed.
Lemma interp_serial_query a : interp fuel (ECall "rtr_send_serial_query" a s k) w = xbind send_serial_query (fun r => K [r]) w0.
Proof. cbn [interp]. change (ext_call fuel "rtr_send_serial_query" a) with (Some (mdo r <- send_serial_query; ret [r])).
  cbv beta iota. unfold xbind, bind. fold w0. destruct (send_serial_query w0); reflexivity. Qed.
Lemma interp_reset_query a : interp fuel (ECall "rtr_send_reset_query" a s k) w = xbind send_reset_query (fun r => K [r]) w0.
Proof. cbn [interp]. change (ext_call fuel "rtr_send_reset_query" a) with (Some (mdo r <- send_reset_query; ret [r])).
  cbv beta iota. unfold xbind, bind. fold w0. destruct (send_reset_query w0); reflexivity. Qed.
Lemma interp_rtr_sync a : interp fuel (ECall "rtr_sync" a s k) w = xbind (rtr_sync fuel) (fun r => K [r]) w0.
Proof. cbn [interp]. change (ext_call fuel "rtr_sync" a) with (Some (mdo r <- rtr_sync fuel; ret [r])).
  cbv beta iota. unfold xbind, bind. fold w0. destruct (rtr_sync fuel w0); reflexivity. Qed.
Lemma interp_receive len t : (len <? c_RTR_MAX_PDU_LEN) = false ->
  interp fuel (ECall "rtr_receive_pdu" [len; t] s k) w =
  xbind (receive_pdu t) (fun r => K (match r with inr p => 0 :: pad_buf len p | inl c => [c] end)) w0.
Proof.
  intros Hl. cbn [interp].
  change (ext_call fuel "rtr_receive_pdu" [len; t]) with
    (if len <? c_RTR_MAX_PDU_LEN then None
     else Some (mdo r <- receive_pdu t; ret (match r with inr p => 0 :: pad_buf len p | inl c => [c] end))).
  rewrite Hl. unfold xbind, bind. fold w0. destruct (receive_pdu t w0); reflexivity.
Qed.
Lemma interp_sleep n : interp fuel (ECall "sleep" [n] s k) w =
  K [0] (mkW (sk w0) (pfx w0) (keys w0) (evs w0) (opens w0) (sends w0) (now w0 + n) (TSleep n :: out w0)).
Proof. reflexivity. Qed.
Lemma interp_pthread_exit a : interp fuel (ECall "pthread_exit" a s k) w = Some (Exc (XEnd 3) w0).
Proof. reflexivity. Qed.
End Calls.

(* ====================================================================================================== *)
(* 3. C integer arithmetic on in-range values                                                               *)
(* ====================================================================================================== *)
Lemma wraps64_id x : - 2^63 <= x < 2^63 -> wraps 64 x = x.
Proof.
  intros H. unfold wraps. change (2 ^ 64) with 18446744073709551616 in *. change (2 ^ (64 - 1)) with 9223372036854775808 in *.
  change (2 ^ 63) with 9223372036854775808 in *.
  destruct (Z_lt_le_dec x 0).
  - rewrite <- (Z.mod_unique x 18446744073709551616 (-1) (x + 18446744073709551616)) by lia.
    destruct (_ <? _) eqn:E; lia.
  - rewrite Z.mod_small by lia. destruct (_ <? _) eqn:E; lia.
Qed.
Lemma wrapu32_id x : 0 <= x < 2^32 -> wrapu 32 x = x.
Proof. intros H. unfold wrapu. apply Z.mod_small. exact H. Qed.
Lemma in_s64 x : - 2^63 <= x < 2^63 -> in_s 64 x = true.
Proof. intros H. unfold in_s. change (2 ^ (64 - 1)) with (2 ^ 63). lia. Qed.

(* ====================================================================================================== *)
(* 4. rtr_purge_outdated_records                                                                          *)
(* ====================================================================================================== *)
Definition pfx_removed (w : world) : world :=
  mkW (sk w) (oth_p (pfx w)) (keys w) (evs w) (opens w) (sends w) (now w) (rev (map (TPfx false) (own_p (pfx w))) ++ out w)%list.
Definition spki_removed (w : world) : world :=
  mkW (sk w) (pfx w) (oth_k (keys w)) (evs w) (opens w) (sends w) (now w)
      (rev (if spki_src_remove_notifies then map (TKey false) (own_k (keys w)) else []) ++ out w)%list.
Lemma pfx_src_remove_eq w : pfx_src_remove w = Ok tt (pfx_removed w). Proof. reflexivity. Qed.
Lemma spki_src_remove_eq w : spki_src_remove w = Ok tt (spki_removed w). Proof. reflexivity. Qed.
Lemma removed_split w : spki_removed (pfx_removed w) = removed w.
Proof.
  unfold spki_removed, pfx_removed, removed, removal_callbacks. cbn [sk pfx keys evs opens sends now out].
  rewrite rev_app_distr, <- app_assoc. reflexivity.
Qed.
Lemma as_eff_ok {A} (conv : A -> Z) (m : world -> res A) w a w' :
  m w = Ok a w' -> as_eff conv m w = Ok (conv a, sock_store (sk w')) w'.
Proof. unfold as_eff, bind. intros ->. reflexivity. Qed.

Definition purge_range (s : sock) : Prop :=
  last_update s = 0 \/ (0 <= expire_iv s < 2^32 /\ - 2^63 <= last_update s + expire_iv s < 2^63).

Theorem purge_tie fuel w : purge_range (sk w) ->
  interp fuel (rtr_purge_outdated_records_gen (sock_store (sk w))) w = Some (as_eff (fun _ => 0) purge_outdated w).
Proof.
  intros HR. rewrite (as_eff_ok _ _ _ _ _ (purge_outdated_eq' w)). unfold expired.
  unfold rtr_purge_outdated_records_gen. rewrite sg_last. change (wraps 64 (0)) with 0.
  destruct (last_update (sk w) =? 0) eqn:E0; cbn [negb andb].
  - cbn [interp]. rewrite with_sk_store. reflexivity.
  - destruct HR as [HR|[He Hs]]; [lia|].
    cbv zeta. rewrite interp_time. rewrite with_sk_store. cbv beta. cbn [nth]. rewrite sg_last, sg_expire.
    rewrite wraps64_id by lia. rewrite in_s64 by lia.
    change (0 =? - (1)) with false. cbn [negb implb orb eguard].
    destruct (last_update (sk w) + expire_iv (sk w) <? now w) eqn:Ex.
    + rewrite interp_pfx_remove, with_sk_store. unfold xbind. rewrite pfx_src_remove_eq.
      rewrite interp_spki_remove. rewrite with_sk_store. unfold xbind. rewrite spki_src_remove_eq, removed_split.
      change (b2z (z2b 1)) with (b2z true). change (wrapu 32 0) with 0.
      rewrite ss_req, ss_serial, ss_last, ss_resetting. cbn [interp]. rewrite store_sock_store. reflexivity.
    + cbn [interp]. rewrite with_sk_store. reflexivity.
Qed.

(* ====================================================================================================== *)
(* 5. rtr_wait_for_sync                                                                                   *)
(* ====================================================================================================== *)
(* ---------- rtr_receive_pdu: the codes of a failed receive are negative ---------- *)
Definition neg_post (a : Z + list byte) (_ : world) : Prop := forall c, a = inl c -> c < 0.
Ltac neg_leaf := apply hoare_ret; unfold neg_post; intros ? E; inversion E; lia.
Ltac neg_walk :=
  repeat first
    [ neg_leaf
    | apply hoare_get_sk'
    | match goal with
      | |- hoare (if ?c then _ else _) _ _ _ => destruct c
      | |- hoare (match ?r with inl _ => _ | inr _ => _ end) _ _ _ => destruct r
      | |- hoare (bind (if ?c then _ else _) _) _ _ _ => destruct c
      end
    | eapply hoare_bind; [apply hoare_true|]; cbv beta; intros ].
Lemma recv_err_neg c w : hoare (recv_err c) w neg_post (fun _ => True).
Proof. unfold recv_err. neg_walk. Qed.
Lemma receive_pdu_neg_hoare t w : hoare (receive_pdu t) w neg_post (fun _ => True).
Proof.
  unfold receive_pdu. apply hoare_get_sk'. destruct (st (sk w) =? c_RTR_SHUTDOWN); [neg_leaf|].
  eapply hoare_bind; [apply hoare_true|]; cbv beta; intros r w1 _ _.
  destruct r as [c|h]; [apply recv_err_neg|]. cbv zeta.
  destruct (get32 h 4 <? 8); [neg_walk|]. destruct (get32 h 4 >? c_RTR_MAX_PDU_LEN); [neg_walk|].
  eapply hoare_bind; [apply hoare_true|]; cbv beta; intros _ w2 _ _.
  apply hoare_get_sk'. destruct (_ && _); [neg_walk|].
  eapply hoare_bind; [apply hoare_true|]; cbv beta; intros rest w3 _ _.
  destruct rest as [c|body]; [apply recv_err_neg|].
  destruct (check_size _); neg_walk.
Qed.
Lemma receive_pdu_neg t w c w' : receive_pdu t w = Ok (inl c) w' -> c < 0.
Proof.
  intros E. pose proof (receive_pdu_neg_hoare t w) as H. unfold hoare in H. rewrite E in H. apply H. reflexivity.
Qed.

(* ---------- rtr_receive_pdu: a PDU it hands out has passed rtr_pdu_check_size, so its type byte is a known type ---------- *)
Definition size_post (a : Z + list byte) (_ : world) : Prop := forall p, a = inr p -> check_size p = true.
Lemma receive_pdu_size_hoare t w : hoare (receive_pdu t) w size_post (fun _ => True).
Proof.
  unfold receive_pdu, size_post. apply hoare_get_sk'. destruct (st (sk w) =? c_RTR_SHUTDOWN); [hinl|].
  eapply hoare_bind; [apply hoare_true|]; cbv beta; intros r w1 _ _.
  destruct r as [c|h]; [apply recv_err_inl|]. cbv zeta.
  destruct (get32 h 4 <? 8); [hinl|]. destruct (get32 h 4 >? c_RTR_MAX_PDU_LEN); [hinl|].
  eapply hoare_bind; [apply hoare_true|]; cbv beta; intros _ w2 _ _.
  apply hoare_get_sk'. destruct (_ && _); [hinl|].
  eapply hoare_bind; [apply hoare_true|]; cbv beta; intros rest w3 _ _.
  destruct rest as [c|body]; [apply recv_err_inl|].
  destruct (check_size (h ++ body)) eqn:Ec; [|hinl].
  apply hoare_ret. intros p Ep. inversion Ep. subst p. exact Ec.
Qed.
Lemma receive_pdu_size t w p w' : receive_pdu t w = Ok (inr p) w' -> check_size p = true.
Proof.
  intros E. pose proof (receive_pdu_size_hoare t w) as H. unfold hoare in H. rewrite E in H. apply H. reflexivity.
Qed.
Lemma check_size_type p : check_size p = true -> 0 <= nthb p 1 < 256.
Proof.
  unfold check_size. cbv zeta.
  repeat match goal with
  | |- context [nthb p 1 =? ?c] =>
    let E := fresh "E" in
    destruct (nthb p 1 =? c) eqn:E; [apply Z.eqb_eq in E; rewrite E; intros _; vm_compute; split; congruence|]
  end.
  discriminate.
Qed.

(* ---------- the type byte of the received PDU, read through the translated rtr_get_pdu_type ---------- *)
Lemma nth_firstn_lt {A} (d : A) : forall n i l, (i < n)%nat -> nth i (firstn n l) d = nth i l d.
Proof.
  induction n as [|n IH]; intros i l H; [lia|]. destruct l as [|x l]; [destruct i; reflexivity|].
  destruct i as [|i]; [reflexivity|]. cbn [firstn nth]. apply IH. lia.
Qed.
Lemma nth_app_zeros (p : list Z) n i : nth i (p ++ repeat 0 n)%list 0 = nth i p 0.
Proof.
  destruct (Nat.lt_ge_cases i (List.length p)) as [H|H].
  - apply app_nth1, H.
  - rewrite app_nth2 by exact H. rewrite nth_repeat. symmetry. apply nth_overflow, H.
Qed.
Lemma pad_buf_length len p : 0 <= len -> Z.of_nat (List.length (pad_buf len p)) = len.
Proof.
  intros H. unfold pad_buf. rewrite firstn_length, app_length, repeat_length. rewrite Nat.min_l by lia. lia.
Qed.
Lemma pad_buf_byte len p i : 0 <= i < len -> mbyte (pad_buf len p) i = nthb p (Z.to_nat i).
Proof.
  intros H. unfold mbyte, pad_buf, nthb. rewrite nth_firstn_lt by lia. apply nth_app_zeros.
Qed.
Lemma get_pdu_type_pad len p : 2 <= len ->
  rtr_get_pdu_type_gen (pad_buf len p) (Some 0) = Some (wrapu 32 (wrapu 32 (wraps 8 (nthb p 1)))).
Proof.
  intros H. unfold rtr_get_pdu_type_gen. cbn [ptr_add]. change (0 + 1) with 1.
  unfold ld_ok. rewrite pad_buf_length by lia.
  replace ((0 <=? 1) && (1 + 1 <=? len)) with true by lia. cbn [guard].
  unfold lds, ldu. change (Z.to_nat 1) with 1%nat. cbn [le_load]. rewrite pad_buf_byte by lia.
  change (Z.to_nat 1) with 1%nat. change (8 * 1) with 8. rewrite Z.mul_0_r, Z.add_0_r. reflexivity.
Qed.
Lemma type_byte_notify b : 0 <= b < 256 -> (wrapu 32 (wrapu 32 (wraps 8 b)) =? wrapu 32 0) = (b =? 0).
Proof.
  intros H. change (wrapu 32 0) with 0. unfold wraps. change (2 ^ 8) with 256. change (2 ^ (8 - 1)) with 128.
  rewrite (Z.mod_small b 256) by lia. destruct (b <? 128) eqn:E.
  - rewrite (wrapu32_id b), (wrapu32_id b) by (change (2 ^ 32) with 4294967296; lia). reflexivity.
  - assert (E1 : wrapu 32 (b - 256) = b - 256 + 4294967296).
    { unfold wrapu. change (2 ^ 32) with 4294967296. symmetry. apply (Z.mod_unique _ _ (-1)); lia. }
    rewrite E1. rewrite wrapu32_id by (change (2 ^ 32) with 4294967296; lia). lia.
Qed.

Definition wait_range (w : world) : Prop :=
  0 <= refresh_iv (sk w) < 2^32 /\
  - 2^63 <= last_update (sk w) + refresh_iv (sk w) < 2^63 /\
  - 2^63 <= last_update (sk w) + refresh_iv (sk w) - now w < 2^63.

Lemma bind_get_sk {B} (f : sock -> world -> res B) w : bind get_sk f w = f (sk w) w. Proof. reflexivity. Qed.
Lemma bind_get_now {B} (f : Z -> world -> res B) w : bind get_now f w = f (now w) w. Proof. reflexivity. Qed.
Lemma bind_ret {A B} (a : A) (f : A -> world -> res B) w : bind (ret a) f w = f a w. Proof. reflexivity. Qed.

Lemma wrapu32_idem x : wrapu 32 (wrapu 32 x) = wrapu 32 x.
Proof. unfold wrapu. apply Z.mod_mod. change (2 ^ 32) with 4294967296. lia. Qed.
Lemma max0_if d : (if d <? 0 then 0 else d) = Z.max 0 d.
Proof. destruct (d <? 0) eqn:E; lia. Qed.

Theorem wait_tie fuel w : wait_range w ->
  interp fuel (rtr_wait_for_sync_gen (sock_store (sk w))) w = Some (as_eff (fun r => r) wait_for_sync w).
Proof.
  intros (Hr & Hs & Hd). unfold rtr_wait_for_sync_gen. cbv zeta. rewrite interp_time, with_sk_store.
  cbv beta. cbn [nth]. rewrite sg_last, sg_refresh. rewrite wraps64_id by lia. rewrite !in_s64 by lia.
  cbn [eguard]. change (wraps 64 0) with 0.
  rewrite max0_if.
  rewrite interp_receive by reflexivity. rewrite with_sk_store.
  unfold as_eff, wait_for_sync. rewrite bind_assoc, bind_get_sk, bind_assoc, bind_get_now. cbv zeta. rewrite bind_assoc.
  apply xbind_some. intros r w' E. cbv beta. destruct r as [c|p].
  - pose proof (receive_pdu_neg _ _ _ _ E) as Hc. cbn [nth skipn].
    replace (c >=? 0) with false by lia.
    destruct (c =? -2) eqn:E2.
    + cbn [interp]. rewrite with_sk_store. reflexivity.
    + destruct (c =? -4) eqn:E4.
      * change (wrapu 32 8) with c_RTR_ERROR_TRANSPORT. rewrite interp_change_state, with_sk_store. cbv beta.
        cbn [interp]. rewrite with_sk_store. unfold bind. rewrite change_state_eq'. reflexivity.
      * cbn [interp]. rewrite with_sk_store. reflexivity.
  - pose proof (check_size_type _ (receive_pdu_size _ _ _ _ E)) as Hb. cbn [nth skipn].
    change (0 >=? 0) with true. cbv iota.
    rewrite get_pdu_type_pad by (vm_compute; discriminate). cbn [eopt].
    rewrite (wrapu32_idem (wrapu 32 _)). rewrite type_byte_notify by exact Hb. change c_SERIAL_NOTIFY with 0.
    destruct (nthb p 1 =? 0); cbn [interp]; rewrite with_sk_store; reflexivity.
Qed.

(* ====================================================================================================== *)
(* 6. one iteration of the loop of rtr_fsm_start                                                          *)
(* ====================================================================================================== *)

Ltac closed_eqb :=
  repeat match goal with
  | |- context [Z.eqb ?a ?b] =>
    let v := eval vm_compute in (Z.eqb a b) in
    match v with true => idtac | false => idtac end; change (Z.eqb a b) with v
  end; cbv iota; cbn [orb andb negb].

Lemma sc_retry n w : retry_iv (sk (state_changed n w)) = retry_iv (sk w).
Proof. unfold state_changed. destruct (_ || _); reflexivity. Qed.
Lemma sc_last n w : last_update (sk (state_changed n w)) = last_update (sk w).
Proof. unfold state_changed. destruct (_ || _); reflexivity. Qed.
Lemma sc_expire n w : expire_iv (sk (state_changed n w)) = expire_iv (sk w).
Proof. unfold state_changed. destruct (_ || _); reflexivity. Qed.

Definition fin0 {A} : A -> world -> res (Z * store) := fun _ w => Ok (0, sock_store (sk w)) w.
Lemma as_eff_fin0 {A} (m : world -> res A) w : as_eff (fun _ => 0) m w = bind m fin0 w. Proof. reflexivity. Qed.

(* leaf: rtr_change_socket_state(..., n); end of the iteration *)
Lemma leaf_change fuel n w :
  interp fuel (ECall "rtr_change_socket_state" [wrapu 32 n] (sock_store (sk w)) (fun _ s => ERet 0 s)) w =
  Some (bind (change_state (wrapu 32 n)) fin0 w).
Proof.
  rewrite interp_change_state, with_sk_store. cbv beta. cbn [interp]. rewrite with_sk_store.
  unfold bind. rewrite change_state_eq'. reflexivity.
Qed.
Lemma leaf_ret fuel w : interp fuel (ERet 0 (sock_store (sk w))) w = Some (bind (ret tt) fin0 w).
Proof. cbn [interp]. rewrite with_sk_store. reflexivity. Qed.

Ltac start_step Hst :=
  unfold rtr_fsm_start__iter_gen; rewrite as_eff_fin0; unfold fsm_step; rewrite bind_assoc, bind_get_sk; cbv zeta;
  rewrite !sg_state, Hst; closed_eqb.

Lemma step_reset fuel w : st (sk w) = c_RTR_RESET ->
  interp fuel (rtr_fsm_start__iter_gen (sock_store (sk w))) w = Some (as_eff (fun _ => 0) (fsm_step fuel) w).
Proof.
  intros Hst. start_step Hst.
  rewrite interp_reset_query, with_sk_store, bind_assoc. apply xbind_some. intros r w1 E1. cbv beta zeta. cbn [nth].
  destruct (r =? 0); [apply leaf_change|apply leaf_ret].
Qed.

Lemma step_sync fuel w : st (sk w) = c_RTR_SYNC ->
  interp fuel (rtr_fsm_start__iter_gen (sock_store (sk w))) w = Some (as_eff (fun _ => 0) (fsm_step fuel) w).
Proof.
  intros Hst. start_step Hst.
  rewrite interp_rtr_sync, with_sk_store, bind_assoc. apply xbind_some. intros r w1 E1. cbv beta zeta. cbn [nth].
  destruct (r =? 0); [apply leaf_change|apply leaf_ret].
Qed.

Lemma step_fast_reconnect fuel w : st (sk w) = c_RTR_FAST_RECONNECT ->
  interp fuel (rtr_fsm_start__iter_gen (sock_store (sk w))) w = Some (as_eff (fun _ => 0) (fsm_step fuel) w).
Proof.
  intros Hst. start_step Hst.
  rewrite interp_tr_close, with_sk_store. cbv beta. rewrite bind_assoc.
  change (bind tr_close ?f w) with (f tt (with_out w (TClose :: out w))).
  apply leaf_change.
Qed.

Lemma step_error fuel w : st (sk w) = c_RTR_ERROR_FATAL \/ st (sk w) = c_RTR_ERROR_TRANSPORT ->
  interp fuel (rtr_fsm_start__iter_gen (sock_store (sk w))) w = Some (as_eff (fun _ => 0) (fsm_step fuel) w).
Proof.
  intros [Hst|Hst]; start_step Hst.
  all: rewrite interp_tr_close, with_sk_store; cbv beta; rewrite bind_assoc;
    change (bind tr_close ?f w) with (f tt (with_out w (TClose :: out w)));
    rewrite interp_change_state, with_sk_store; cbv beta;
    rewrite bind_assoc; unfold bind at 1; rewrite change_state_eq';
    rewrite interp_sleep, with_sk_store, sg_retry; cbv beta; cbn [interp]; rewrite sc_retry, store_sock_store;
    cbn [sk with_out]; reflexivity.
Qed.

Lemma step_connecting fuel w : st (sk w) = c_RTR_CONNECTING -> purge_range (sk w) ->
  interp fuel (rtr_fsm_start__iter_gen (sock_store (sk w))) w = Some (as_eff (fun _ => 0) (fsm_step fuel) w).
Proof.
  intros Hst HR. start_step Hst.
  change (b2z (z2b 0)) with (b2z false). rewrite ss_hasrecv.
  set (w1 := with_sk w (upd_hasrecv (sk w) false)).
  rewrite <- (interp_sk fuel _ w (upd_hasrecv (sk w) false)). fold w1.
  change (sock_store (upd_hasrecv (sk w) false)) with (sock_store (sk w1)).
  assert (HR1 : purge_range (sk w1)) by exact HR.
  pose proof (purge_tie fuel w1 HR1) as HP.
  rewrite (interp_ebind_model fuel _ _ _ _ w1 HP). clear HP.
  rewrite bind_assoc. change (bind (set_sk ?s) ?f w) with (f tt (with_sk w s)). fold w1. cbv beta.
  rewrite bind_assoc. apply xbind_some. intros [] w2 E2.
  rewrite interp_tr_open, with_sk_store, bind_assoc. apply xbind_some. intros ok w3 E3. cbv beta zeta. cbn [nth].
  destruct ok; cbn [negb]; closed_eqb.
  - rewrite sg_req, z2b_b2z, bind_assoc, bind_get_sk.
    destruct (req_sess (sk w3)); [apply leaf_change|].
    rewrite interp_serial_query, with_sk_store, bind_assoc. apply xbind_some. intros r w4 E4. cbv beta zeta. cbn [nth].
    destruct (r =? 0); apply leaf_change.
  - apply leaf_change.
Qed.

Lemma step_established fuel w : st (sk w) = c_RTR_ESTABLISHED -> wait_range w ->
  interp fuel (rtr_fsm_start__iter_gen (sock_store (sk w))) w = Some (as_eff (fun _ => 0) (fsm_step fuel) w).
Proof.
  intros Hst HW. start_step Hst.
  rewrite (interp_ebind_model fuel _ _ _ _ w (wait_tie fuel w HW)).
  rewrite bind_assoc. apply xbind_some. intros r w1 E1. cbv beta zeta.
  destruct (r =? 0); [|apply leaf_ret].
  rewrite interp_serial_query, with_sk_store, bind_assoc. apply xbind_some. intros q w2 E2. cbv beta zeta. cbn [nth].
  destruct (q =? 0); [apply leaf_change|apply leaf_ret].
Qed.

(* the tail "purge, end of the iteration" of the two RTR_ERROR_NO_* states *)
Lemma leaf_purge fuel w : purge_range (sk w) ->
  interp fuel (ebind (rtr_purge_outdated_records_gen (sock_store (sk w))) (fun _ s => ERet 0 s)) w =
  Some (bind purge_outdated fin0 w).
Proof.
  intros HR. rewrite (interp_ebind_model fuel _ _ _ _ w (purge_tie fuel w HR)).
  apply xbind_some. intros [] w1 E1. cbn [interp]. rewrite with_sk_store. reflexivity.
Qed.

Lemma step_no_incr fuel w : st (sk w) = c_RTR_ERROR_NO_INCR_UPDATE_AVAIL -> purge_range (sk w) ->
  interp fuel (rtr_fsm_start__iter_gen (sock_store (sk w))) w = Some (as_eff (fun _ => 0) (fsm_step fuel) w).
Proof.
  intros Hst HR. start_step Hst.
  change (b2z (z2b 1)) with (b2z true). change (wrapu 32 0) with 0. rewrite ss_req, ss_serial.
  rewrite bind_assoc. change (bind (set_sk ?s) ?f w) with (f tt (with_sk w s)). cbv beta.
  rewrite interp_change_state, store_sock_store. cbv beta.
  rewrite bind_assoc. unfold bind at 1. rewrite change_state_eq'.
  apply leaf_purge. unfold purge_range. rewrite sc_last, sc_expire. exact HR.
Qed.

Lemma step_no_data fuel w : st (sk w) = c_RTR_ERROR_NO_DATA_AVAIL -> purge_range (sk w) ->
  interp fuel (rtr_fsm_start__iter_gen (sock_store (sk w))) w = Some (as_eff (fun _ => 0) (fsm_step fuel) w).
Proof.
  intros Hst HR. start_step Hst.
  change (b2z (z2b 1)) with (b2z true). change (wrapu 32 0) with 0. rewrite ss_req, ss_serial.
  rewrite bind_assoc. change (bind (set_sk ?s) ?f w) with (f tt (with_sk w s)). cbv beta.
  rewrite interp_change_state, store_sock_store. cbv beta.
  rewrite bind_assoc. unfold bind at 1. rewrite change_state_eq'.
  rewrite interp_sleep, with_sk_store, sg_retry, sc_retry. cbv beta.
  rewrite bind_assoc. unfold bind at 1, do_sleep. cbn [sk with_sk retry_iv upd_serial upd_req].
  set (w2 := state_changed _ _).
  set (w3 := mkW (sk w2) _ _ _ _ _ _ _).
  change (sock_store (sk w2)) with (sock_store (sk w3)).
  apply leaf_purge. unfold purge_range. subst w3 w2. cbn [sk]. rewrite sc_last, sc_expire. exact HR.
Qed.

(* RTR_SHUTDOWN: the C ends the thread; the model's fsm_step does nothing (and would be called again) *)
Lemma step_shutdown fuel w : st (sk w) = c_RTR_SHUTDOWN ->
  interp fuel (rtr_fsm_start__iter_gen (sock_store (sk w))) w = Some (Exc (XEnd 3) w) /\
  fsm_step fuel w = Ok tt w.
Proof.
  intros Hst. split.
  - unfold rtr_fsm_start__iter_gen. rewrite !sg_state, Hst. closed_eqb.
    rewrite interp_pthread_exit, with_sk_store. reflexivity.
  - unfold fsm_step. rewrite bind_get_sk. cbv zeta. rewrite Hst. closed_eqb. reflexivity.
Qed.

(* any other value of the state field (RTR_CLOSED, or no enumerator at all): both do nothing *)
Lemma step_other fuel w : 0 <= st (sk w) < 2^32 -> ~ (0 <= st (sk w) <= 9) ->
  interp fuel (rtr_fsm_start__iter_gen (sock_store (sk w))) w = Some (as_eff (fun _ => 0) (fsm_step fuel) w).
Proof.
  intros Hr Hst. unfold rtr_fsm_start__iter_gen. rewrite as_eff_fin0. unfold fsm_step. rewrite bind_assoc, bind_get_sk. cbv zeta.
  rewrite !sg_state, (wrapu32_id (st (sk w))) by exact Hr.
  repeat match goal with |- context [wrapu 32 ?n] => let v := eval vm_compute in (wrapu 32 n) in change (wrapu 32 n) with v end.
  unfold c_RTR_CONNECTING, c_RTR_RESET, c_RTR_SYNC, c_RTR_ESTABLISHED, c_RTR_FAST_RECONNECT, c_RTR_ERROR_NO_DATA_AVAIL,
    c_RTR_ERROR_NO_INCR_UPDATE_AVAIL, c_RTR_ERROR_TRANSPORT, c_RTR_ERROR_FATAL.
  repeat match goal with |- context [st (sk w) =? ?n] => replace (st (sk w) =? n) with false by lia end.
  cbn [orb]. apply leaf_ret.
Qed.

(* ---------- all states at once ---------- *)
Definition step_range (w : world) : Prop :=
  0 <= st (sk w) < 2^32 /\ purge_range (sk w) /\ (st (sk w) = c_RTR_ESTABLISHED -> wait_range w).

Theorem fsm_step_tie fuel w : step_range w -> st (sk w) <> c_RTR_SHUTDOWN ->
  interp fuel (rtr_fsm_start__iter_gen (sock_store (sk w))) w = Some (as_eff (fun _ => 0) (fsm_step fuel) w).
Proof.
  intros (Hs & HP & HE) Hn.
  destruct (Z.eq_dec (st (sk w)) c_RTR_CONNECTING) as [E|N0]; [apply step_connecting; assumption|].
  destruct (Z.eq_dec (st (sk w)) c_RTR_ESTABLISHED) as [E|N1]; [apply step_established; [assumption|apply HE, E]|].
  destruct (Z.eq_dec (st (sk w)) c_RTR_RESET) as [E|N2]; [apply step_reset; assumption|].
  destruct (Z.eq_dec (st (sk w)) c_RTR_SYNC) as [E|N3]; [apply step_sync; assumption|].
  destruct (Z.eq_dec (st (sk w)) c_RTR_FAST_RECONNECT) as [E|N4]; [apply step_fast_reconnect; assumption|].
  destruct (Z.eq_dec (st (sk w)) c_RTR_ERROR_NO_DATA_AVAIL) as [E|N5]; [apply step_no_data; assumption|].
  destruct (Z.eq_dec (st (sk w)) c_RTR_ERROR_NO_INCR_UPDATE_AVAIL) as [E|N6]; [apply step_no_incr; assumption|].
  destruct (Z.eq_dec (st (sk w)) c_RTR_ERROR_FATAL) as [E|N7]; [apply step_error; left; assumption|].
  destruct (Z.eq_dec (st (sk w)) c_RTR_ERROR_TRANSPORT) as [E|N8]; [apply step_error; right; assumption|].
  apply step_other; [exact Hs|].
  unfold c_RTR_CONNECTING, c_RTR_RESET, c_RTR_SYNC, c_RTR_ESTABLISHED, c_RTR_FAST_RECONNECT, c_RTR_ERROR_NO_DATA_AVAIL,
    c_RTR_ERROR_NO_INCR_UPDATE_AVAIL, c_RTR_ERROR_TRANSPORT, c_RTR_ERROR_FATAL, c_RTR_SHUTDOWN in *. lia.
Qed.

(* the same, with the value and the store dropped: "the translated iteration IS fsm_step" *)
Definition run_eff (fuel : nat) (e : eff) (w : world) : option (res Z) :=
  match interp fuel e w with
  | Some (Ok (r, _) w') => Some (Ok r w')
  | Some (Exc x w') => Some (Exc x w')
  | None => None
  end.
Definition res_const {A} (r : res A) (z : Z) : res Z := match r with Ok _ w' => Ok z w' | Exc x w' => Exc x w' end.
Corollary fsm_step_tie_world fuel w : step_range w -> st (sk w) <> c_RTR_SHUTDOWN ->
  run_eff fuel (rtr_fsm_start__iter_gen (sock_store (sk w))) w = Some (res_const (fsm_step fuel w) 0).
Proof.
  intros HR Hn. unfold run_eff. rewrite (fsm_step_tie fuel w HR Hn). unfold as_eff, bind, res_const.
  destruct (fsm_step fuel w); reflexivity.
Qed.
Corollary purge_tie_world fuel w : purge_range (sk w) ->
  run_eff fuel (rtr_purge_outdated_records_gen (sock_store (sk w))) w = Some (res_const (purge_outdated w) 0).
Proof.
  intros HR. unfold run_eff. rewrite (purge_tie fuel w HR). unfold as_eff, bind, res_const.
  destruct (purge_outdated w); reflexivity.
Qed.
Corollary wait_tie_world fuel w : wait_range w ->
  run_eff fuel (rtr_wait_for_sync_gen (sock_store (sk w))) w = Some (wait_for_sync w).
Proof.
  intros HR. unfold run_eff. rewrite (wait_tie fuel w HR). unfold as_eff, bind.
  destruct (wait_for_sync w); reflexivity.
Qed.

(* ====================================================================================================== *)
(* 7. RTR_SHUTDOWN and the statements before the loop                                                       *)
(* ====================================================================================================== *)
(* In RTR_SHUTDOWN the C calls pthread_exit; the model's fsm_step returns without doing anything and run_fsm calls it
   again: the model has no thread exit.  For run_fsm the two agree all the same: the world never changes again. *)
Lemma run_fsm_shutdown n fuel : forall w, st (sk w) = c_RTR_SHUTDOWN -> run_fsm n fuel w = w.
Proof.
  induction n as [|n IH]; intros w Hst; [reflexivity|]. cbn [run_fsm].
  rewrite (proj2 (step_shutdown fuel w Hst)). apply IH, Hst.
Qed.

(* the prologue of rtr_fsm_start: return at once in RTR_SHUTDOWN, otherwise state = RTR_CONNECTING (an assignment, not
   rtr_change_socket_state: no callback, no trace item - run_script does the same with upd_st) and into the loop *)
Theorem prologue_tie fuel w : 0 <= st (sk w) < 2^32 ->
  interp fuel (rtr_fsm_start__prologue_gen (sock_store (sk w))) w =
  if st (sk w) =? c_RTR_SHUTDOWN then Some (Ok (0, sock_store (sk w)) w)
  else Some (Ok (1, sock_store (upd_st (sk w) c_RTR_CONNECTING)) (with_sk w (upd_st (sk w) c_RTR_CONNECTING))).
Proof.
  intros Hs. unfold rtr_fsm_start__prologue_gen. rewrite sg_state, wrapu32_id by exact Hs.
  change (wrapu 32 9) with c_RTR_SHUTDOWN. change (wrapu 32 0) with c_RTR_CONNECTING.
  destruct (st (sk w) =? c_RTR_SHUTDOWN).
  - cbn [interp]. rewrite with_sk_store. reflexivity.
  - cbv zeta. rewrite ss_state. cbn [interp]. rewrite store_sock_store. reflexivity.
Qed.

(* ====================================================================================================== *)
(* 8. the range hypotheses: natural form, satisfiable, and needed                                           *)
(* ====================================================================================================== *)
(* "every field in the range of its C type, time stamps far from the end of time_t" *)
Definition c_range (w : world) : Prop :=
  0 <= st (sk w) <= 10 /\ 0 <= last_update (sk w) < 2^62 /\
  0 <= refresh_iv (sk w) < 2^32 /\ 0 <= expire_iv (sk w) < 2^32 /\ 0 <= retry_iv (sk w) < 2^32 /\
  0 <= now w < 2^62.

Lemma c_range_purge w : c_range w -> purge_range (sk w).
Proof.
  unfold c_range, purge_range. change (2 ^ 62) with 4611686018427387904. change (2 ^ 63) with 9223372036854775808.
  change (2 ^ 32) with 4294967296. intros H. right. lia.
Qed.
Lemma c_range_wait w : c_range w -> wait_range w.
Proof.
  unfold c_range, wait_range. change (2 ^ 62) with 4611686018427387904. change (2 ^ 63) with 9223372036854775808.
  change (2 ^ 32) with 4294967296. intros H. lia.
Qed.
Lemma c_range_step w : c_range w -> step_range w.
Proof.
  intros HC. split; [|split].
  - unfold c_range in HC. change (2 ^ 32) with 4294967296. lia.
  - apply c_range_purge, HC.
  - intros _. apply c_range_wait, HC.
Qed.
(* the model's own invariant Tm gives the lower bounds and last_update <= now: only the upper bounds are new *)
Lemma Tm_c_range w : Tm w -> 0 <= st (sk w) <= 10 -> now w < 2^62 ->
  0 <= refresh_iv (sk w) < 2^32 -> 0 <= expire_iv (sk w) < 2^32 -> retry_iv (sk w) < 2^32 -> c_range w.
Proof.
  intros (_ & Hr & Hn & Hl & _) Hs Hn2 Hrf Hex Hrt. unfold c_range. repeat match goal with |- _ /\ _ => split end; lia.
Qed.

Corollary fsm_step_tie_c_range fuel w : c_range w -> st (sk w) <> c_RTR_SHUTDOWN ->
  interp fuel (rtr_fsm_start__iter_gen (sock_store (sk w))) w = Some (as_eff (fun _ => 0) (fsm_step fuel) w).
Proof. intros HC. apply fsm_step_tie, c_range_step; assumption. Qed.

(* --- satisfiable: the closed worlds of the C07 / C08 examples --- *)
Example ex_w0_ranges : c_range ex_w0 /\ Tm ex_w0 /\ step_range ex_w0.
Proof.
  assert (HC : c_range ex_w0) by (unfold c_range; vm_compute; repeat split; congruence).
  assert (HT : Tm ex_w0) by (destruct ex_w0_Inv as [[HT _] _]; exact HT).
  split; [exact HC|]. split; [exact HT|]. apply c_range_step; assumption.
Qed.
Example st_w0_ranges : c_range st_w0.
Proof. unfold c_range; vm_compute; repeat split; congruence. Qed.

(* --- and by computation on them: ten iterations of the translated loop body against ten of the model's
       (independent of the proofs above) --- *)
Fixpoint run_c (n fuel : nat) (w : world) : option world :=
  match n with
  | O => Some w
  | S n' =>
    match interp fuel (rtr_fsm_start__iter_gen (sock_store (sk w))) w with
    | Some (Ok _ w') => run_c n' fuel w'
    | Some (Exc _ w') => Some w'
    | None => None
    end
  end.
Example run_c_st_w0 : run_c 10 100 st_w0 = Some (run_fsm 10 100 st_w0).
Proof. vm_compute. reflexivity. Qed.
Example run_c_ex_w0 : run_c 6 100 ex_w0 = Some (run_fsm 6 100 ex_w0).
Proof. vm_compute. reflexivity. Qed.

(* --- the arithmetic matters --- *)
(* last_update + expire_interval = 4294974200 >= 2^32, the clock at 4294967500: not expired; the translated purge keeps
   the records (the addition is done in time_t, 64 bits, after converting the unsigned interval).  Done in 32 bits the
   sum would be 6904 < now and the data would be thrown away. *)
Definition wide_sock : sock := mkSock c_RTR_ESTABLISHED 1 7 false 42 4294967000 3600 7200 600 0 true false.
Definition wide_w : world := mkW wide_sock [(false, [true], 1, 1, 65000, 1)] [] [] [] [] 4294967500 [].
Example purge_is_64_bit :
  interp 0 (rtr_purge_outdated_records_gen (sock_store wide_sock)) wide_w = Some (Ok (0, sock_store wide_sock) wide_w) /\
  (wrapu 32 (last_update wide_sock + expire_iv wide_sock) <? now wide_w) = true /\
  purge_range wide_sock.
Proof.
  split; [vm_compute; reflexivity|]. split; [vm_compute; reflexivity|].
  right. vm_compute. repeat split; congruence.
Qed.
(* the largest interval an unsigned int holds: still no wrap-around *)
Example purge_max_interval :
  let s := mkSock c_RTR_ESTABLISHED 1 7 false 42 10 3600 4294967295 600 0 true false in
  let w := mkW s [(false, [true], 1, 1, 65000, 1)] [] [] [] [] 4294967300 [] in
  interp 0 (rtr_purge_outdated_records_gen (sock_store s)) w = Some (Ok (0, sock_store s) w).
Proof. vm_compute. reflexivity. Qed.

(* --- and the hypotheses are needed: where model and code part --- *)
(* 1. At the end of time_t the C overflows a signed addition (undefined), the model - unbounded integers - simply
      says "not expired".  purge_range excludes exactly this. *)
Example purge_overflow_differs :
  let s := mkSock c_RTR_ESTABLISHED 1 7 false 42 9223372036854775807 3600 1 600 0 true false in
  let w := mkW s [] [] [] [] [] 9223372036854775000 [] in
  interp 0 (rtr_purge_outdated_records_gen (sock_store s)) w = None /\ purge_outdated w = Ok tt w.
Proof. vm_compute. split; reflexivity. Qed.
(* 2. RTR_SHUTDOWN: thread exit against a no-op (both leave the world alone, run_fsm_shutdown) *)
Example shutdown_differs :
  let w := with_sk st_w0 (upd_st (sk st_w0) c_RTR_SHUTDOWN) in
  interp 5 (rtr_fsm_start__iter_gen (sock_store (sk w))) w = Some (Exc (XEnd 3) w) /\ fsm_step 5 w = Ok tt w.
Proof. vm_compute. split; reflexivity. Qed.

(* the translator reported no problem, and every function the trees call is known to ext_call on these runs (an
   unknown name would have made run_c return None) *)
Example no_translator_problems : fsm_translator_problems = []. Proof. reflexivity. Qed.

Print Assumptions purge_tie.
Print Assumptions wait_tie.
Print Assumptions fsm_step_tie.
Print Assumptions step_connecting.
Print Assumptions step_reset.
Print Assumptions step_sync.
Print Assumptions step_established.
Print Assumptions step_fast_reconnect.
Print Assumptions step_no_data.
Print Assumptions step_no_incr.
Print Assumptions step_error.
Print Assumptions step_shutdown.
Print Assumptions step_other.
Print Assumptions run_fsm_shutdown.
Print Assumptions prologue_tie.
Print Assumptions fsm_step_tie_c_range.
Print Assumptions fsm_step_tie_world.
Print Assumptions purge_is_64_bit.
Print Assumptions purge_overflow_differs.
Print Assumptions run_c_st_w0.
