(* SyncProofs.v - C03: a cache response is applied completely or not at all.
   [process_eod_spec]: the End-of-Data step either applies every buffered PDU (tables = fold of the
   set-level [delta] over the update table, serial := the EOD's) or - at whatever position a PDU fails to
   apply - undoes the applied prefix and leaves the main tables as they were (up to order; untouched in
   reset mode), with session / serial / request_session_id as before.  Lifted through the receive loop:
   [store_loop_spec], [receive_and_store_spec], [rtr_sync_spec]. *)
From Coq Require Import Permutation.
From RtrV Require Import Base.CSem Gen.Generated Rtr.RtrModel Rtr.RelFrame Rtr.SyncSets Rtr.SyncFrame.
Local Open Scope Z_scope.

(* ---------- snapshots: what is known about the current world during symbolic execution ---------- *)
Notation ctup := (Z * bool * Z * Z * (Z * Z * Z * Z) * bool)%type.

Record snap (w : world) (P : list prec) (K : list krec) (c : ctup) : Prop :=
  mkSnap { sn_p : pfx w = P; sn_k : keys w = K; sn_c : core (sk w) = c }.

Lemma snap_L w w1 P K c : snap w P K c -> L w w1 -> snap w1 P K c.
Proof. intros [Hp Hk Hc] (L1 & L2 & L3). constructor; congruence. Qed.

Lemma ps_frame {A B} (m : world -> res A) (f : A -> world -> res B) w P K c
      (Q : B -> world -> Prop) (QE : exc -> world -> Prop) :
  snap w P K c -> okL m w -> (forall x w1, snap w1 P K c -> post (f x) w1 Q QE) -> post (bind m f) w Q QE.
Proof.
  intros HS Hm Hf. destruct (okrel_inv L m w Hm) as (a & w1 & E & HL).
  unfold post, bind. rewrite E. apply (Hf a w1). eapply snap_L; eauto.
Qed.

Lemma ps_set_tables {B} P' K' (f : unit -> world -> res B) w P K c (Q : B -> world -> Prop) (QE : exc -> world -> Prop) :
  snap w P K c -> (forall w1, snap w1 P' K' c -> post (f tt) w1 Q QE) -> post (bind (set_tables P' K') f) w Q QE.
Proof.
  intros [Hp Hk Hc] Hf. unfold post, bind, set_tables. apply Hf. constructor; cbn [pfx keys sk]; auto.
Qed.

Lemma ps_skip {B} (f : unit -> world -> res B) w (Q : B -> world -> Prop) (QE : exc -> world -> Prop) :
  post (f tt) w Q QE -> post (bind (ret tt) f) w Q QE.
Proof. unfold post, bind, ret. auto. Qed.

Lemma post_bind_assoc {A B C} (m : world -> res A) (g : A -> world -> res B) (f : B -> world -> res C) w
      (Q : C -> world -> Prop) (QE : exc -> world -> Prop) :
  post (bind m (fun x => bind (g x) f)) w Q QE -> post (bind (bind m g) f) w Q QE.
Proof. unfold post, bind. destruct (m w); auto. Qed.

Definition c_set_serial (c : ctup) (v : Z) : ctup := let '(a, b, _, d, e, f) := c in (a, b, v, d, e, f).
Definition c_set_req (c : ctup) (v : bool) : ctup := let '(a, _, s, d, e, f) := c in (a, v, s, d, e, f).

Lemma ps_set_serial {B} v (f : unit -> world -> res B) w P K c (Q : B -> world -> Prop) (QE : exc -> world -> Prop) :
  snap w P K c -> (forall w1, snap w1 P K (c_set_serial c v) -> post (f tt) w1 Q QE) ->
  post (bind (modify_sk (fun s => upd_serial s v)) f) w Q QE.
Proof.
  intros [Hp Hk Hc] Hf. unfold post, bind, modify_sk, get_sk, set_sk. apply Hf.
  constructor; cbn [pfx keys sk]; auto. rewrite <- Hc. reflexivity.
Qed.

(* removal of the socket's own records *)
Lemma src_remove_all_spec w :
  exists w1, src_remove_all w = Ok tt w1 /\ pfx w1 = oth_p (pfx w) /\ keys w1 = oth_k (keys w) /\ sk w1 = sk w.
Proof. unfold src_remove_all. unfold_prims. eexists. split; [reflexivity|]. cbn [pfx keys sk]. auto. Qed.

Lemma ps_purge {B} (f : unit -> world -> res B) w P K c (Q : B -> world -> Prop) (QE : exc -> world -> Prop) :
  snap w P K c -> (forall w1, snap w1 (oth_p P) (oth_k K) (c_set_req c true) -> post (f tt) w1 Q QE) ->
  post (bind purge_after_failed_undo f) w Q QE.
Proof.
  intros [Hp Hk Hc] Hf. destruct (src_remove_all_spec w) as (w1 & E & E1 & E2 & E3).
  unfold post, bind, purge_after_failed_undo, modify_sk, get_sk, set_sk. unfold bind. rewrite E. apply Hf.
  constructor; cbn [pfx keys sk]; try congruence. rewrite E3, <- Hc. reflexivity.
Qed.

(* ---------- End of Data ---------- *)
Lemma apply_eod_intervals_core s p :
  let s1 := apply_eod_intervals s p in
  session_id s1 = session_id s /\ req_sess s1 = req_sess s /\ serial s1 = serial s /\ last_update s1 = last_update s /\
  iv_mode s1 = iv_mode s /\ resetting s1 = resetting s /\ st s1 = st s /\ version s1 = version s.
Proof. unfold apply_eod_intervals. destruct (_ && _); cbn; auto 10. Qed.

(* which PDU stopped the update, and why *)
Definition eod_failure (P0 : list prec) (K0 : list krec) (v4 v6 ks : list (list byte)) : Prop :=
  (exists pre bad post c, v4 ++ v6 = pre ++ bad :: post /\ applies_p pre P0 /\
                          fail_code prec prec_of_pdu (fold_left delta_p pre P0) bad c) \/
  (applies_p (v4 ++ v6) P0 /\
   exists pre bad post c, ks = pre ++ bad :: post /\ applies_k pre K0 /\
                          fail_code krec krec_of_pdu (fold_left delta_k pre K0) bad c).

(* the tables the update works on: the main tables, or (reset) a copy without the socket's own records *)
Definition upd_tab_p (w : world) : list prec := if resetting (sk w) then oth_p (pfx w) else pfx w.
Definition upd_tab_k (w : world) : list krec := if resetting (sk w) then oth_k (keys w) else keys w.

Definition eod_post (p : list byte) (v4 v6 ks : list (list byte)) (w : world) (r : Z) (w' : world) : Prop :=
  (get16 p 2 <> session_id (sk w) /\ r = -1 /\ L w w') \/
  (get16 p 2 = session_id (sk w) /\
   let s1 := apply_eod_intervals (sk w) p in
   let P0 := upd_tab_p w in let K0 := upd_tab_k w in
   ((r = 0 /\ applies_p (v4 ++ v6) P0 /\ applies_k ks K0 /\
     pfx w' = fold_left delta_p (v4 ++ v6) P0 /\ keys w' = fold_left delta_k ks K0 /\
     core (sk w') = core (upd_serial s1 (get32 p 8))) \/
    (r = -1 /\ eod_failure P0 K0 v4 v6 ks /\
     Permutation (pfx w') (pfx w) /\ Permutation (keys w') (keys w) /\
     (resetting (sk w) = true -> pfx w' = pfx w /\ keys w' = keys w) /\
     core (sk w') = core s1))).

Ltac ps HS :=
  lazymatch goal with
  | |- post (bind (emit_all _) _) _ _ _ => eapply (ps_frame _ _ _ _ _ _ _ _ HS); [apply emit_all_okL | clear HS; intros ? ? HS]
  | |- post (bind (report_update_failure _ _ _) _) _ _ _ => eapply (ps_frame _ _ _ _ _ _ _ _ HS); [apply report_update_failure_okL | clear HS; intros ? ? HS]
  | |- post (bind (change_state _) _) _ _ _ => eapply (ps_frame _ _ _ _ _ _ _ _ HS); [apply change_state_okL | clear HS; intros ? ? HS]
  | |- post (bind (send_error_from_host _ _ _) _) _ _ _ => eapply (ps_frame _ _ _ _ _ _ _ _ HS); [apply send_error_from_host_okL | clear HS; intros ? ? HS]
  | |- post (bind (set_tables _ _) _) _ _ _ => eapply (ps_set_tables _ _ _ _ _ _ _ _ _ HS); clear HS; intros ? HS
  | |- post (bind (ret tt) _) _ _ _ => apply ps_skip
  | |- post (bind (bind _ _) _) _ _ _ => apply post_bind_assoc
  | |- post (bind (modify_sk _) _) _ _ _ => eapply (ps_set_serial _ _ _ _ _ _ _ _ HS); clear HS; intros ? HS
  | |- post (bind purge_after_failed_undo _) _ _ _ => eapply (ps_purge _ _ _ _ _ _ _ HS); clear HS; intros ? HS
  end.

Lemma NoDup_oth_p X : NoDup X -> NoDup (oth_p X). Proof. apply NoDup_filter. Qed.
Lemma NoDup_oth_k X : NoDup X -> NoDup (oth_k X). Proof. apply NoDup_filter. Qed.

Lemma process_eod_spec p v4 v6 ks w :
  NoDup (pfx w) -> NoDup (keys w) ->
  post (process_eod p v4 v6 ks) w (eod_post p v4 v6 ks w) (fun _ _ => False).
Proof.
  intros NP NK. unfold process_eod.
  apply post_bind. unfold post at 1, get_sk.
  destruct (negb (get16 p 2 =? session_id (sk w))) eqn:Es.
  { (* session mismatch *)
    apply negb_true_iff, Z.eqb_neq in Es.
    assert (HS : snap w (pfx w) (keys w) (core (sk w))) by (constructor; reflexivity).
    ps HS. ps HS. apply post_ret. left. destruct HS as [H1 H2 H3]. repeat split; auto. }
  apply negb_false_iff, Z.eqb_eq in Es.
  apply post_bind. unfold post at 1, set_sk.
  apply post_bind. unfold post at 1, get_w.
  cbn [sk pfx keys].
  set (s1 := apply_eod_intervals (sk w) p).
  destruct (apply_eod_intervals_core (sk w) p) as (_ & _ & _ & _ & _ & Hrs & _).
  fold s1 in Hrs.
  match goal with |- post _ ?x _ _ => remember x as w1 eqn:Ew1 end.
  assert (HS : snap w1 (pfx w) (keys w) (core s1)) by (subst w1; constructor; reflexivity).
  clear Ew1.
  set (P0 := upd_tab_p w). set (K0 := upd_tab_k w).
  assert (NP0 : NoDup P0) by (unfold P0, upd_tab_p; destruct (resetting (sk w)); [now apply NoDup_oth_p|exact NP]).
  assert (NK0 : NoDup K0) by (unfold K0, upd_tab_k; destruct (resetting (sk w)); [now apply NoDup_oth_k|exact NK]).
  assert (EP0 : (if resetting (sk w) then filter (fun r => negb (psrc r =? 1)) (pfx w) else pfx w) = P0) by reflexivity.
  assert (EK0 : (if resetting (sk w) then filter (fun r => negb (ksrc r =? 1)) (keys w) else keys w) = K0) by reflexivity.
  rewrite EP0, EK0. clear EP0 EK0.
  assert (Hlive : forall (X : list prec) (Y : list krec), resetting (sk w) = false -> P0 = pfx w /\ K0 = keys w).
  { intros _ _ Hr. unfold P0, K0, upd_tab_p, upd_tab_k. now rewrite Hr. }
  (* IPv4 *)
  rewrite apply_pfx_gen.
  pose proof (gapply_spec prec prec_eqb prec_eqb_eq TPfx prec_of_pdu (negb (resetting (sk w))) v4 P0 []) as G1.
  destruct (gapply prec prec_eqb TPfx prec_of_pdu (negb (resetting (sk w))) v4 P0 []) as [[P1 t1] [[[bad c] done]|]].
  { (* an IPv4 PDU fails *)
    destruct G1 as (pre & post' & Ev4 & -> & -> & Hap & Hfc). rewrite app_nil_r.
    rewrite undo_pfx_gen.
    destruct (gundo_spec prec prec_eqb prec_eqb_eq TPfx prec_of_pdu (negb (resetting (sk w))) pre P0 _ NP0 Hap (Permutation_refl _))
      as (P2 & t2 & -> & PP2).
    assert (HF : eod_failure P0 K0 v4 v6 ks).
    { left. exists pre, bad, (post' ++ v6), c. rewrite Ev4, <- app_assoc. auto. }
    destruct (resetting (sk w)) eqn:Er; cbn [negb].
    - ps HS. ps HS. ps HS. ps HS. ps HS. ps HS. ps HS. apply post_ret.
      right. split; [exact Es|]. right. destruct HS as [H1 H2 H3]. rewrite H1, H2, H3. auto 10.
    - destruct (Hlive [] [] eq_refl) as [EP EK].
      ps HS. ps HS. ps HS. ps HS. ps HS. ps HS. ps HS. apply post_ret.
      right. split; [exact Es|]. right. destruct HS as [H1 H2 H3]. rewrite H1, H2, H3.
      repeat split; auto; try congruence; try (now rewrite <- EP); try (now rewrite <- EK). }
  destruct G1 as [-> Hap4].
  (* IPv6 *)
  rewrite apply_pfx_gen.
  pose proof (gapply_spec prec prec_eqb prec_eqb_eq TPfx prec_of_pdu (negb (resetting (sk w))) v6 (fold_left delta_p v4 P0) []) as G2.
  destruct (gapply prec prec_eqb TPfx prec_of_pdu (negb (resetting (sk w))) v6 (fold_left delta_p v4 P0) []) as [[P3 t3] [[[bad c] done]|]].
  { (* an IPv6 PDU fails *)
    destruct G2 as (pre & post' & Ev6 & -> & -> & Hap & Hfc). rewrite app_nil_r.
    rewrite undo_pfx_gen, <- rev_app_distr, <- fold_left_app.
    assert (Hap' : applies_p (v4 ++ pre) P0) by (apply applies_app; auto).
    destruct (gundo_spec prec prec_eqb prec_eqb_eq TPfx prec_of_pdu (negb (resetting (sk w))) (v4 ++ pre) P0 _ NP0 Hap' (Permutation_refl _))
      as (P4 & t4 & -> & PP4).
    assert (HF : eod_failure P0 K0 v4 v6 ks).
    { left. exists (v4 ++ pre), bad, post', c. rewrite Ev6, <- app_assoc. rewrite <- fold_left_app in Hfc. auto. }
    destruct (resetting (sk w)) eqn:Er; cbn [negb].
    - do 9 ps HS. apply post_ret.
      right. split; [exact Es|]. right. destruct HS as [H1 H2 H3]. rewrite H1, H2, H3. auto 10.
    - destruct (Hlive [] [] eq_refl) as [EP EK].
      do 9 ps HS. apply post_ret.
      right. split; [exact Es|]. right. destruct HS as [H1 H2 H3]. rewrite H1, H2, H3.
      repeat split; auto; try congruence; try (now rewrite <- EP); try (now rewrite <- EK). }
  destruct G2 as [-> Hap6]. rewrite <- fold_left_app.
  assert (Hap46 : applies_p (v4 ++ v6) P0) by (apply applies_app; auto).
  (* router keys *)
  rewrite apply_keys_gen.
  pose proof (gapply_spec krec krec_eqb krec_eqb_eq TKey krec_of_pdu (negb (resetting (sk w))) ks K0 []) as G3.
  destruct (gapply krec krec_eqb TKey krec_of_pdu (negb (resetting (sk w))) ks K0 []) as [[K1 t5] [[[bad c] done]|]].
  { (* a router-key PDU fails *)
    destruct G3 as (pre & post' & Eks & -> & -> & Hap & Hfc). rewrite app_nil_r.
    rewrite undo_keys_gen.
    destruct (gundo_spec krec krec_eqb krec_eqb_eq TKey krec_of_pdu (negb (resetting (sk w))) pre K0 _ NK0 Hap (Permutation_refl _))
      as (K2 & t6 & -> & PK2).
    rewrite undo_pfx_gen, <- rev_app_distr.
    destruct (gundo_spec prec prec_eqb prec_eqb_eq TPfx prec_of_pdu (negb (resetting (sk w))) (v4 ++ v6) P0 _ NP0 Hap46 (Permutation_refl _))
      as (P5 & t7 & -> & PP5).
    assert (HF : eod_failure P0 K0 v4 v6 ks).
    { right. split; [exact Hap46|]. exists pre, bad, post', c. auto. }
    destruct (resetting (sk w)) eqn:Er; cbn [negb].
    - do 12 ps HS. apply post_ret.
      right. split; [exact Es|]. right. destruct HS as [H1 H2 H3]. rewrite H1, H2, H3. auto 10.
    - destruct (Hlive [] [] eq_refl) as [EP EK].
      do 12 ps HS. apply post_ret.
      right. split; [exact Es|]. right. destruct HS as [H1 H2 H3]. rewrite H1, H2, H3.
      repeat split; auto; try congruence; try (now rewrite <- EP); try (now rewrite <- EK). }
  destruct G3 as [-> Hapk].
  (* success *)
  destruct (resetting (sk w)) eqn:Er; cbn [negb].
  - do 6 ps HS. ps HS. ps HS. ps HS. ps HS. ps HS. ps HS. apply post_ret.
    right. split; [exact Es|]. left. destruct HS as [H1 H2 H3]. rewrite H1, H2, H3. auto 10.
  - do 6 ps HS. ps HS. ps HS. apply post_ret.
    right. split; [exact Es|]. left. destruct HS as [H1 H2 H3]. rewrite H1, H2, H3. auto 10.
Qed.

