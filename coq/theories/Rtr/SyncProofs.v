(* SyncProofs.v - C03: a cache response is applied completely or not at all.
   [process_eod_spec]: the End-of-Data step either applies every buffered PDU (tables = fold of the
   set-level [delta] over the update table, serial := the EOD's) or - at whatever position a PDU fails to
   apply - undoes the applied prefix and leaves the main tables as they were (up to order; untouched in
   reset mode), with session / serial / request_session_id as before.  Lifted through the receive loop:
   [store_loop_spec], [receive_and_store_spec], [rtr_sync_spec]. *)
From Coq Require Import Permutation.
From RtrV Require Import Base.CSem Gen.Generated Rtr.RtrModel Rtr.RelFrame Rtr.SyncSets Rtr.SyncFrame.
Local Open Scope Z_scope.

(* ---------- snapshots: what is known about the current world during symbolic execution ---------- *)
Notation ctup := (Z * bool * Z * Z * (Z * Z * Z * Z) * bool)%type.

Record snap (w : world) (P : list prec) (K : list krec) (c : ctup) : Prop :=
  mkSnap { sn_p : pfx w = P; sn_k : keys w = K; sn_c : core (sk w) = c }.

Lemma snap_L w w1 P K c : snap w P K c -> L w w1 -> snap w1 P K c.
Proof. intros [Hp Hk Hc] (L1 & L2 & L3). constructor; congruence. Qed.

Lemma ps_frame {A B} (m : world -> res A) (f : A -> world -> res B) w P K c
      (Q : B -> world -> Prop) (QE : exc -> world -> Prop) :
  snap w P K c -> okL m w -> (forall x w1, snap w1 P K c -> post (f x) w1 Q QE) -> post (bind m f) w Q QE.
Proof.
  intros HS Hm Hf. destruct (okrel_inv L m w Hm) as (a & w1 & E & HL).
  unfold post, bind. rewrite E. apply (Hf a w1). eapply snap_L; eauto.
Qed.

Lemma ps_set_tables {B} P' K' (f : unit -> world -> res B) w P K c (Q : B -> world -> Prop) (QE : exc -> world -> Prop) :
  snap w P K c -> (forall w1, snap w1 P' K' c -> post (f tt) w1 Q QE) -> post (bind (set_tables P' K') f) w Q QE.
Proof.
  intros [Hp Hk Hc] Hf. unfold post, bind, set_tables. apply Hf. constructor; cbn [pfx keys sk]; auto.
Qed.

Lemma ps_skip {B} (f : unit -> world -> res B) w (Q : B -> world -> Prop) (QE : exc -> world -> Prop) :
  post (f tt) w Q QE -> post (bind (ret tt) f) w Q QE.
Proof. unfold post, bind, ret. auto. Qed.

Lemma post_bind_assoc {A B C} (m : world -> res A) (g : A -> world -> res B) (f : B -> world -> res C) w
      (Q : C -> world -> Prop) (QE : exc -> world -> Prop) :
  post (bind m (fun x => bind (g x) f)) w Q QE -> post (bind (bind m g) f) w Q QE.
Proof. unfold post, bind. destruct (m w); auto. Qed.

Definition c_set_serial (c : ctup) (v : Z) : ctup := let '(a, b, _, d, e, f) := c in (a, b, v, d, e, f).
Definition c_set_req (c : ctup) (v : bool) : ctup := let '(a, _, s, d, e, f) := c in (a, v, s, d, e, f).

Lemma ps_set_serial {B} v (f : unit -> world -> res B) w P K c (Q : B -> world -> Prop) (QE : exc -> world -> Prop) :
  snap w P K c -> (forall w1, snap w1 P K (c_set_serial c v) -> post (f tt) w1 Q QE) ->
  post (bind (modify_sk (fun s => upd_serial s v)) f) w Q QE.
Proof.
  intros [Hp Hk Hc] Hf. unfold post, bind, modify_sk, get_sk, set_sk. apply Hf.
  constructor; cbn [pfx keys sk]; auto. rewrite <- Hc. reflexivity.
Qed.

(* removal of the socket's own records *)
Lemma src_remove_all_spec w :
  exists w1, src_remove_all w = Ok tt w1 /\ pfx w1 = oth_p (pfx w) /\ keys w1 = oth_k (keys w) /\ sk w1 = sk w.
Proof. unfold src_remove_all. unfold_prims. eexists. split; [reflexivity|]. cbn [pfx keys sk]. auto. Qed.

Lemma ps_purge {B} (f : unit -> world -> res B) w P K c (Q : B -> world -> Prop) (QE : exc -> world -> Prop) :
  snap w P K c -> (forall w1, snap w1 (oth_p P) (oth_k K) (c_set_req c true) -> post (f tt) w1 Q QE) ->
  post (bind purge_after_failed_undo f) w Q QE.
Proof.
  intros [Hp Hk Hc] Hf. destruct (src_remove_all_spec w) as (w1 & E & E1 & E2 & E3).
  unfold post, bind, purge_after_failed_undo, modify_sk, get_sk, set_sk. unfold bind. rewrite E. apply Hf.
  constructor; cbn [pfx keys sk]; try congruence. rewrite E3, <- Hc. reflexivity.
Qed.

(* ---------- End of Data ---------- *)
Lemma apply_eod_intervals_core s p :
  let s1 := apply_eod_intervals s p in
  session_id s1 = session_id s /\ req_sess s1 = req_sess s /\ serial s1 = serial s /\ last_update s1 = last_update s /\
  iv_mode s1 = iv_mode s /\ resetting s1 = resetting s /\ st s1 = st s /\ version s1 = version s.
Proof. unfold apply_eod_intervals. destruct (_ && _); cbn; auto 10. Qed.

(* which PDU stopped the update, and why *)
Definition eod_failure (P0 : list prec) (K0 : list krec) (v4 v6 ks : list (list byte)) : Prop :=
  (exists pre bad post c, v4 ++ v6 = pre ++ bad :: post /\ applies_p pre P0 /\
                          fail_code prec prec_of_pdu (fold_left delta_p pre P0) bad c) \/
  (applies_p (v4 ++ v6) P0 /\
   exists pre bad post c, ks = pre ++ bad :: post /\ applies_k pre K0 /\
                          fail_code krec krec_of_pdu (fold_left delta_k pre K0) bad c).

(* the tables the update works on: the main tables, or (reset) a copy without the socket's own records *)
Definition upd_tab_p (w : world) : list prec := if resetting (sk w) then oth_p (pfx w) else pfx w.
Definition upd_tab_k (w : world) : list krec := if resetting (sk w) then oth_k (keys w) else keys w.

Definition eod_post (p : list byte) (v4 v6 ks : list (list byte)) (w : world) (r : Z) (w' : world) : Prop :=
  (get16 p 2 <> session_id (sk w) /\ r = -1 /\ L w w') \/
  (get16 p 2 = session_id (sk w) /\
   let s1 := apply_eod_intervals (sk w) p in
   let P0 := upd_tab_p w in let K0 := upd_tab_k w in
   ((r = 0 /\ applies_p (v4 ++ v6) P0 /\ applies_k ks K0 /\
     pfx w' = fold_left delta_p (v4 ++ v6) P0 /\ keys w' = fold_left delta_k ks K0 /\
     core (sk w') = core (upd_serial s1 (get32 p 8))) \/
    (r = -1 /\ eod_failure P0 K0 v4 v6 ks /\
     Permutation (pfx w') (pfx w) /\ Permutation (keys w') (keys w) /\
     oth_p (pfx w') = oth_p (pfx w) /\ oth_k (keys w') = oth_k (keys w) /\
     (resetting (sk w) = true -> pfx w' = pfx w /\ keys w' = keys w) /\
     core (sk w') = core s1))).

Ltac ps HS :=
  lazymatch goal with
  | |- post (bind (emit_all _) _) _ _ _ => eapply (ps_frame _ _ _ _ _ _ _ _ HS); [apply emit_all_okL | clear HS; intros ? ? HS]
  | |- post (bind (report_update_failure _ _ _) _) _ _ _ => eapply (ps_frame _ _ _ _ _ _ _ _ HS); [apply report_update_failure_okL | clear HS; intros ? ? HS]
  | |- post (bind (change_state _) _) _ _ _ => eapply (ps_frame _ _ _ _ _ _ _ _ HS); [apply change_state_okL | clear HS; intros ? ? HS]
  | |- post (bind (send_error_from_host _ _ _) _) _ _ _ => eapply (ps_frame _ _ _ _ _ _ _ _ HS); [apply send_error_from_host_okL | clear HS; intros ? ? HS]
  | |- post (bind (set_tables _ _) _) _ _ _ => eapply (ps_set_tables _ _ _ _ _ _ _ _ _ HS); clear HS; intros ? HS
  | |- post (bind (ret tt) _) _ _ _ => apply ps_skip
  | |- post (bind (bind _ _) _) _ _ _ => apply post_bind_assoc
  | |- post (bind (modify_sk _) _) _ _ _ => eapply (ps_set_serial _ _ _ _ _ _ _ _ HS); clear HS; intros ? HS
  | |- post (bind purge_after_failed_undo _) _ _ _ => eapply (ps_purge _ _ _ _ _ _ _ HS); clear HS; intros ? HS
  end.

Lemma NoDup_oth_p X : NoDup X -> NoDup (oth_p X). Proof. apply NoDup_filter. Qed.
Lemma NoDup_oth_k X : NoDup X -> NoDup (oth_k X). Proof. apply NoDup_filter. Qed.

Lemma process_eod_spec p v4 v6 ks w :
  NoDup (pfx w) -> NoDup (keys w) ->
  post (process_eod p v4 v6 ks) w (eod_post p v4 v6 ks w) (fun _ _ => False).
Proof.
  intros NP NK. unfold process_eod.
  apply post_bind. unfold post at 1, get_sk.
  destruct (negb (get16 p 2 =? session_id (sk w))) eqn:Es.
  { (* session mismatch *)
    apply negb_true_iff, Z.eqb_neq in Es.
    assert (HS : snap w (pfx w) (keys w) (core (sk w))) by (constructor; reflexivity).
    ps HS. ps HS. apply post_ret. left. destruct HS as [H1 H2 H3]. repeat split; auto. }
  apply negb_false_iff, Z.eqb_eq in Es.
  apply post_bind. unfold post at 1, set_sk.
  apply post_bind. unfold post at 1, get_w.
  cbn [sk pfx keys].
  set (s1 := apply_eod_intervals (sk w) p).
  destruct (apply_eod_intervals_core (sk w) p) as (_ & _ & _ & _ & _ & Hrs & _).
  fold s1 in Hrs.
  match goal with |- post _ ?x _ _ => remember x as w1 eqn:Ew1 end.
  assert (HS : snap w1 (pfx w) (keys w) (core s1)) by (subst w1; constructor; reflexivity).
  clear Ew1.
  set (P0 := upd_tab_p w). set (K0 := upd_tab_k w).
  assert (NP0 : NoDup P0) by (unfold P0, upd_tab_p; destruct (resetting (sk w)); [now apply NoDup_oth_p|exact NP]).
  assert (NK0 : NoDup K0) by (unfold K0, upd_tab_k; destruct (resetting (sk w)); [now apply NoDup_oth_k|exact NK]).
  assert (EP0 : (if resetting (sk w) then filter (fun r => negb (psrc r =? 1)) (pfx w) else pfx w) = P0) by reflexivity.
  assert (EK0 : (if resetting (sk w) then filter (fun r => negb (ksrc r =? 1)) (keys w) else keys w) = K0) by reflexivity.
  rewrite EP0, EK0. clear EP0 EK0.
  assert (Hlive : forall (X : list prec) (Y : list krec), resetting (sk w) = false -> P0 = pfx w /\ K0 = keys w).
  { intros _ _ Hr. unfold P0, K0, upd_tab_p, upd_tab_k. now rewrite Hr. }
  (* IPv4 *)
  rewrite apply_pfx_gen.
  pose proof (gapply_spec prec prec_eqb prec_eqb_eq TPfx prec_of_pdu (negb (resetting (sk w))) v4 P0 []) as G1.
  destruct (gapply prec prec_eqb TPfx prec_of_pdu (negb (resetting (sk w))) v4 P0 []) as [[P1 t1] [[[bad c] done]|]].
  { (* an IPv4 PDU fails *)
    destruct G1 as (pre & post' & Ev4 & -> & -> & Hap & Hfc). rewrite app_nil_r.
    destruct (gundo_spec_oth_p (negb (resetting (sk w))) pre P0 NP0 Hap) as (P2 & t2 & -> & PP2 & OP2).
    assert (HF : eod_failure P0 K0 v4 v6 ks).
    { left. exists pre, bad, (post' ++ v6), c. rewrite Ev4, <- app_assoc. auto. }
    destruct (resetting (sk w)) eqn:Er; cbn [negb].
    - ps HS. ps HS. ps HS. ps HS. ps HS. ps HS. ps HS. apply post_ret.
      right. split; [exact Es|]. right. destruct HS as [H1 H2 H3]. rewrite H1, H2, H3. auto 10.
    - destruct (Hlive [] [] eq_refl) as [EP EK].
      ps HS. ps HS. ps HS. ps HS. ps HS. ps HS. ps HS. apply post_ret.
      right. split; [exact Es|]. right. destruct HS as [H1 H2 H3]. rewrite H1, H2, H3.
      repeat split; auto; try congruence; try (now rewrite <- EP); try (now rewrite <- EK). }
  destruct G1 as [-> Hap4].
  (* IPv6 *)
  rewrite apply_pfx_gen.
  pose proof (gapply_spec prec prec_eqb prec_eqb_eq TPfx prec_of_pdu (negb (resetting (sk w))) v6 (fold_left delta_p v4 P0) []) as G2.
  destruct (gapply prec prec_eqb TPfx prec_of_pdu (negb (resetting (sk w))) v6 (fold_left delta_p v4 P0) []) as [[P3 t3] [[[bad c] done]|]].
  { (* an IPv6 PDU fails *)
    destruct G2 as (pre & post' & Ev6 & -> & -> & Hap & Hfc). rewrite app_nil_r.
    rewrite <- rev_app_distr, <- fold_left_app.
    assert (Hap' : applies_p (v4 ++ pre) P0) by (apply applies_app; auto).
    destruct (gundo_spec_oth_p (negb (resetting (sk w))) (v4 ++ pre) P0 NP0 Hap') as (P4 & t4 & -> & PP4 & OP4).
    assert (HF : eod_failure P0 K0 v4 v6 ks).
    { left. exists (v4 ++ pre), bad, post', c. rewrite Ev6, <- app_assoc. rewrite <- fold_left_app in Hfc. auto. }
    destruct (resetting (sk w)) eqn:Er; cbn [negb].
    - do 9 ps HS. apply post_ret.
      right. split; [exact Es|]. right. destruct HS as [H1 H2 H3]. rewrite H1, H2, H3. auto 10.
    - destruct (Hlive [] [] eq_refl) as [EP EK].
      do 9 ps HS. apply post_ret.
      right. split; [exact Es|]. right. destruct HS as [H1 H2 H3]. rewrite H1, H2, H3.
      repeat split; auto; try congruence; try (now rewrite <- EP); try (now rewrite <- EK). }
  destruct G2 as [-> Hap6]. rewrite <- fold_left_app.
  assert (Hap46 : applies_p (v4 ++ v6) P0) by (apply applies_app; auto).
  (* router keys *)
  rewrite apply_keys_gen.
  pose proof (gapply_spec krec krec_eqb krec_eqb_eq TKey krec_of_pdu (negb (resetting (sk w))) ks K0 []) as G3.
  destruct (gapply krec krec_eqb TKey krec_of_pdu (negb (resetting (sk w))) ks K0 []) as [[K1 t5] [[[bad c] done]|]].
  { (* a router-key PDU fails *)
    destruct G3 as (pre & post' & Eks & -> & -> & Hap & Hfc). rewrite app_nil_r.
    destruct (gundo_spec_oth_k (negb (resetting (sk w))) pre K0 NK0 Hap) as (K2 & t6 & -> & PK2 & OK2).
    rewrite <- rev_app_distr.
    destruct (gundo_spec_oth_p (negb (resetting (sk w))) (v4 ++ v6) P0 NP0 Hap46) as (P5 & t7 & -> & PP5 & OP5).
    assert (HF : eod_failure P0 K0 v4 v6 ks).
    { right. split; [exact Hap46|]. exists pre, bad, post', c. auto. }
    destruct (resetting (sk w)) eqn:Er; cbn [negb].
    - do 12 ps HS. apply post_ret.
      right. split; [exact Es|]. right. destruct HS as [H1 H2 H3]. rewrite H1, H2, H3. auto 10.
    - destruct (Hlive [] [] eq_refl) as [EP EK].
      do 12 ps HS. apply post_ret.
      right. split; [exact Es|]. right. destruct HS as [H1 H2 H3]. rewrite H1, H2, H3.
      repeat split; auto; try congruence; try (now rewrite <- EP); try (now rewrite <- EK). }
  destruct G3 as [-> Hapk].
  (* success *)
  destruct (resetting (sk w)) eqn:Er; cbn [negb].
  - do 6 ps HS. ps HS. ps HS. ps HS. ps HS. ps HS. ps HS. apply post_ret.
    right. split; [exact Es|]. left. destruct HS as [H1 H2 H3]. rewrite H1, H2, H3. auto 10.
  - do 6 ps HS. ps HS. ps HS. apply post_ret.
    right. split; [exact Es|]. left. destruct HS as [H1 H2 H3]. rewrite H1, H2, H3. auto 10.
Qed.


(* ---------- [eod_post] in the vocabulary of the property ---------- *)
Inductive query := QReset | QSerial (session serial : Z).
Definition next_query (s : sock) : query := if req_sess s then QReset else QSerial (session_id s) (serial s).

Lemma eod_post_others p v4 v6 ks w r w' :
  eod_post p v4 v6 ks w r w' -> oth_p (pfx w') = oth_p (pfx w) /\ oth_k (keys w') = oth_k (keys w).
Proof.
  intros [(_ & _ & (H1 & H2 & _))|(_ & [(_ & _ & _ & H1 & H2 & _)|(_ & _ & _ & _ & H1 & H2 & _)])].
  - now rewrite H1, H2.
  - rewrite H1, H2, oth_fold_p, oth_fold_k.
    unfold upd_tab_p, upd_tab_k. destruct (resetting (sk w)); [|auto]. unfold oth_p, oth_k. now rewrite !oth_oth.
  - auto.
Qed.

Lemma eod_post_result p v4 v6 ks w r w' : eod_post p v4 v6 ks w r w' -> r = 0 \/ r = -1.
Proof. intros [(_ & -> & _)|(_ & [(-> & _)|(-> & _)])]; auto. Qed.

(* success: the socket's own records are the old ones with the delta applied / exactly the announced set *)
Lemma eod_post_success p v4 v6 ks w w' :
  eod_post p v4 v6 ks w 0 w' ->
  get16 p 2 = session_id (sk w) /\
  own_p (pfx w') = (if resetting (sk w) then announced_p (v4 ++ v6) else apply_delta_p (own_p (pfx w)) (v4 ++ v6)) /\
  own_k (keys w') = (if resetting (sk w) then announced_k ks else apply_delta_k (own_k (keys w)) ks) /\
  applies_p (v4 ++ v6) (upd_tab_p w) /\ applies_k ks (upd_tab_k w) /\
  core (sk w') = core (upd_serial (apply_eod_intervals (sk w) p) (get32 p 8)).
Proof.
  intros [(_ & H & _)|(Es & [(_ & A1 & A2 & H1 & H2 & H3)|(H & _)])]; try discriminate.
  repeat split; auto.
  - rewrite H1, own_fold_p. unfold upd_tab_p. destruct (resetting (sk w)); [|reflexivity].
    unfold own_p, oth_p. now rewrite own_oth_nil.
  - rewrite H2, own_fold_k. unfold upd_tab_k. destruct (resetting (sk w)); [|reflexivity].
    unfold own_k, oth_k. now rewrite own_oth_nil.
Qed.

(* failure: tables as before (up to order; untouched when resetting), session bookkeeping as before *)
Lemma eod_post_failure p v4 v6 ks w r w' :
  eod_post p v4 v6 ks w r w' -> r <> 0 ->
  Permutation (pfx w') (pfx w) /\ Permutation (keys w') (keys w) /\
  (resetting (sk w) = true -> pfx w' = pfx w /\ keys w' = keys w) /\
  session_id (sk w') = session_id (sk w) /\ req_sess (sk w') = req_sess (sk w) /\ serial (sk w') = serial (sk w) /\
  last_update (sk w') = last_update (sk w) /\ resetting (sk w') = resetting (sk w) /\
  (get16 p 2 <> session_id (sk w) \/ eod_failure (upd_tab_p w) (upd_tab_k w) v4 v6 ks).
Proof.
  intros [(Hs & _ & (H1 & H2 & H3))|(Es & [(-> & _)|(_ & HF & P1 & P2 & _ & _ & Hr & H3)])] Hr0; try congruence.
  - rewrite H1, H2. apply core_fields in H3. intuition auto.
  - destruct (apply_eod_intervals_core (sk w) p) as (E1 & E2 & E3 & E4 & E5 & E6 & _).
    apply core_fields in H3. intuition congruence.
Qed.

(* ---------- relations with a condition on the result ---------- *)
Definition frel (R : world -> world -> Prop) {A} (c : A -> Prop) (m : world -> res A) (w : world) : Prop :=
  post m w (fun a w' => c a /\ R w w') (fun _ w' => R w w').

Lemma frel_ret (R : world -> world -> Prop) {A} (c : A -> Prop) (a : A) w : c a -> R w w -> frel R c (ret a) w.
Proof. unfold frel, post, ret. auto. Qed.

Lemma frel_bind (R : world -> world -> Prop) (Rtrans : forall a b c, R a b -> R b c -> R a c) {A B} (c : B -> Prop)
      (m : world -> res A) (f : A -> world -> res B) w :
  rel R m w -> (forall a w', m w = Ok a w' -> frel R c (f a) w') -> frel R c (bind m f) w.
Proof.
  unfold rel, frel, post, bind. intros Hm Hf. destruct (m w) as [a w'|e w'] eqn:E; [|exact Hm].
  specialize (Hf a w' eq_refl). destruct (f a w') as [b w2|e w2]; [destruct Hf; split; auto|]; eapply Rtrans; eauto.
Qed.

Lemma frel_bind_assoc (R : world -> world -> Prop) {A B C} (c : C -> Prop)
      (m : world -> res A) (g : A -> world -> res B) (f : B -> world -> res C) w :
  frel R c (bind m (fun x => bind (g x) f)) w -> frel R c (bind (bind m g) f) w.
Proof. unfold frel. apply post_bind_assoc. Qed.
Lemma frel_bind_ret (R : world -> world -> Prop) {A B} (c : B -> Prop) (a : A) (f : A -> world -> res B) w :
  frel R c (f a) w -> frel R c (bind (ret a) f) w.
Proof. unfold frel, post, bind, ret. auto. Qed.

Ltac fstep :=
  match goal with
  | |- frel L _ (ret _) _ => apply frel_ret; [try discriminate | apply L_refl]
  | |- frel L _ (bind _ _) _ => apply (frel_bind L L_trans); [ first [llem | apply receive_pdu_L] | intros ? ? _ ]
  | |- frel L _ (if ?c then _ else _) _ => destruct c eqn:?
  end.

(* ---------- the receive loop ---------- *)
(* a PDU that the loop buffers (prefix PDUs with valid lengths, router keys) or skips (Serial Notify) *)
Definition storable (p : list byte) : bool :=
  let ty := nthb p 1 in
  negb (((ty =? c_IPV4_PREFIX) || (ty =? c_IPV6_PREFIX)) && negb (prefix_lengths_valid p)) &&
  ((ty =? c_IPV4_PREFIX) || (ty =? c_IPV6_PREFIX) || (ty =? c_ROUTER_KEY) || (ty =? c_SERIAL_NOTIFY)).

Definition push4 (p : list byte) (v4 : list (list byte)) := if nthb p 1 =? c_IPV4_PREFIX then v4 ++ [p] else v4.
Definition push6 (p : list byte) (v6 : list (list byte)) :=
  if nthb p 1 =? c_IPV4_PREFIX then v6 else if nthb p 1 =? c_IPV6_PREFIX then v6 ++ [p] else v6.
Definition pushk (p : list byte) (ks : list (list byte)) :=
  if nthb p 1 =? c_IPV4_PREFIX then ks else if nthb p 1 =? c_IPV6_PREFIX then ks else if nthb p 1 =? c_ROUTER_KEY then ks ++ [p] else ks.

(* [collected w v4 v6 ks w' v4' v6' ks']: starting in w with the buffers v4 v6 ks, successive calls of
   rtr_receive_pdu returned storable PDUs, which were appended in order, ending in w' *)
Inductive collected : world -> list (list byte) -> list (list byte) -> list (list byte) ->
                      world -> list (list byte) -> list (list byte) -> list (list byte) -> Prop :=
| col_nil w v4 v6 ks : collected w v4 v6 ks w v4 v6 ks
| col_step w w1 w2 p v4 v6 ks v4' v6' ks' :
    receive_pdu c_RTR_RECV_TIMEOUT w = Ok (inr p) w1 -> storable p = true ->
    collected w1 (push4 p v4) (push6 p v6) (pushk p ks) w2 v4' v6' ks' ->
    collected w v4 v6 ks w2 v4' v6' ks'.

Lemma collected_L w v4 v6 ks w' v4' v6' ks' : collected w v4 v6 ks w' v4' v6' ks' -> L w w'.
Proof.
  induction 1 as [|w w1 w2 p v4 v6 ks v4' v6' ks' E _ _ IH]; [apply L_refl|].
  pose proof (receive_pdu_L c_RTR_RECV_TIMEOUT w) as H. unfold rel in H. rewrite E in H. eapply L_trans; eauto.
Qed.

(* the loop reached End of Data: everything it did to the tables is this one call of process_eod *)
Definition reached_eod (w : world) (v4 v6 ks : list (list byte)) (res : res Z) : Prop :=
  exists wa wb eod v4' v6' ks',
    collected w v4 v6 ks wa v4' v6' ks' /\
    receive_pdu c_RTR_RECV_TIMEOUT wa = Ok (inr eod) wb /\ nthb eod 1 = c_EOD /\
    process_eod eod v4' v6' ks' wb = res.

Definition loop_post (w : world) (v4 v6 ks : list (list byte)) (r : Z) (w' : world) : Prop :=
  (r <> 0 /\ L w w') \/ reached_eod w v4 v6 ks (Ok r w').
Definition loop_exc (w : world) (v4 v6 ks : list (list byte)) (e : exc) (w' : world) : Prop :=
  L w w' \/ reached_eod w v4 v6 ks (Exc e w').

Lemma store_loop_spec fuel : forall v4 v6 ks w,
  post (store_loop fuel v4 v6 ks) w (loop_post w v4 v6 ks) (loop_exc w v4 v6 ks).
Proof.
  induction fuel as [|f IH]; intros v4 v6 ks w; cbn [store_loop].
  { apply post_ret. left. split; [discriminate|apply L_refl]. }
  apply post_bind.
  pose proof (receive_pdu_L c_RTR_RECV_TIMEOUT w) as HL. unfold rel in HL.
  apply post_eq; [intros r w1 E|intros e w1 E]; rewrite E in HL; [|left; exact HL].
  assert (Hfail : forall (m : world -> res Z), frel L (fun r => r <> 0) m w1 ->
                  post m w1 (loop_post w v4 v6 ks) (loop_exc w v4 v6 ks)).
  { intros m Hm. eapply post_weaken; [exact Hm|intros a w' [Ha Hw]; left; split; [exact Ha|eapply L_trans; eauto]|
                                      intros e w' Hw; left; eapply L_trans; eauto]. }
  assert (Hrec : forall p, r = inr p -> storable p = true ->
                 post (store_loop f (push4 p v4) (push6 p v6) (pushk p ks)) w1 (loop_post w v4 v6 ks) (loop_exc w v4 v6 ks)).
  { intros p -> Hst. eapply post_weaken; [apply IH| |].
    - intros a w' [[Ha Hw]|(wa & wb & eod & a4 & a6 & ak & Hc & Hr & Ht & Hp)].
      + left. split; [exact Ha|eapply L_trans; eauto].
      + right. exists wa, wb, eod, a4, a6, ak. repeat split; auto. eapply col_step; eauto.
    - intros e w' [Hw|(wa & wb & eod & a4 & a6 & ak & Hc & Hr & Ht & Hp)].
      + left. eapply L_trans; eauto.
      + right. exists wa, wb, eod, a4, a6, ak. repeat split; auto. eapply col_step; eauto. }
  destruct r as [c|p].
  { apply Hfail. repeat fstep. }
  cbv zeta.
  destruct (((nthb p 1 =? c_IPV4_PREFIX) || (nthb p 1 =? c_IPV6_PREFIX)) && negb (prefix_lengths_valid p)) eqn:Elen.
  { apply Hfail. repeat fstep. }
  destruct (nthb p 1 =? c_IPV4_PREFIX) eqn:E4.
  { specialize (Hrec p eq_refl). unfold storable, push4, push6, pushk in Hrec. rewrite E4, Elen in Hrec. apply Hrec. reflexivity. }
  destruct (nthb p 1 =? c_IPV6_PREFIX) eqn:E6.
  { specialize (Hrec p eq_refl). unfold storable, push4, push6, pushk in Hrec. rewrite E4, E6, Elen in Hrec. apply Hrec. reflexivity. }
  destruct (nthb p 1 =? c_ROUTER_KEY) eqn:Ek.
  { specialize (Hrec p eq_refl). unfold storable, push4, push6, pushk in Hrec. rewrite E4, E6, Elen, Ek in Hrec. apply Hrec. reflexivity. }
  destruct (nthb p 1 =? c_EOD) eqn:Ee.
  { apply Z.eqb_eq in Ee.
    apply post_eq; [intros a w' Hp; right|intros e w' Hp; right]; exists w, w1, p, v4, v6, ks; repeat split; auto; constructor. }
  destruct (nthb p 1 =? c_ERROR) eqn:Eerr.
  { apply Hfail. repeat fstep. }
  destruct (nthb p 1 =? c_SERIAL_NOTIFY) eqn:En.
  { specialize (Hrec p eq_refl). unfold storable, push4, push6, pushk in Hrec. rewrite E4, E6, Elen, Ek, En in Hrec. apply Hrec. reflexivity. }
  apply Hfail. repeat fstep.
Qed.

(* ---------- rtr_sync_receive_and_store_pdus: the loop, then is_resetting is cleared ---------- *)
Definition clear_resetting (w : world) : world :=
  mkW (if resetting (sk w) then upd_resetting (sk w) false else sk w) (pfx w) (keys w) (evs w) (opens w) (sends w) (now w) (out w).

Lemma receive_and_store_eq fuel w :
  receive_and_store fuel w =
  match store_loop fuel [] [] [] w with Ok r w1 => Ok r (clear_resetting w1) | Exc e w1 => Exc e w1 end.
Proof. unfold receive_and_store, bind, modify_sk, get_sk, set_sk, ret, clear_resetting. destruct (store_loop fuel [] [] [] w); reflexivity. Qed.

Lemma clear_resetting_facts w :
  pfx (clear_resetting w) = pfx w /\ keys (clear_resetting w) = keys w /\ resetting (sk (clear_resetting w)) = false /\
  session_id (sk (clear_resetting w)) = session_id (sk w) /\ req_sess (sk (clear_resetting w)) = req_sess (sk w) /\
  serial (sk (clear_resetting w)) = serial (sk w) /\ last_update (sk (clear_resetting w)) = last_update (sk w) /\
  refresh_iv (sk (clear_resetting w)) = refresh_iv (sk w) /\ expire_iv (sk (clear_resetting w)) = expire_iv (sk w) /\
  retry_iv (sk (clear_resetting w)) = retry_iv (sk w) /\ now (clear_resetting w) = now w /\
  st (sk (clear_resetting w)) = st (sk w) /\ out (clear_resetting w) = out w.
Proof. unfold clear_resetting. cbn [pfx keys sk now out]. destruct (resetting (sk w)) eqn:E; cbn; auto 20. Qed.

Lemma receive_and_store_spec fuel w :
  post (receive_and_store fuel) w
       (fun r w' => exists w1, w' = clear_resetting w1 /\ loop_post w [] [] [] r w1)
       (loop_exc w [] [] []).
Proof.
  unfold post. rewrite receive_and_store_eq. pose proof (store_loop_spec fuel [] [] [] w) as H. unfold post in H.
  destruct (store_loop fuel [] [] [] w); [eexists; split; [reflexivity|exact H]|exact H].
Qed.

(* is_resetting is cleared by every attempt that returns *)
Lemma receive_and_store_clears fuel w r w' : receive_and_store fuel w = Ok r w' -> resetting (sk w') = false.
Proof.
  rewrite receive_and_store_eq. destruct (store_loop fuel [] [] [] w); [|discriminate].
  intros H. inversion H; subst. apply clear_resetting_facts.
Qed.

(* ---------- rtr_sync ---------- *)
Ltac fstep2 :=
  match goal with
  | |- frel L _ (ret _) _ => apply frel_ret; [try discriminate; try reflexivity | apply L_refl]
  | |- frel L _ (bind get_sk _) _ => apply (frel_bind L L_trans); [lprim | let H := fresh "Heq" in intros ? ? H; unfold_prims_in H; injection H as <- <-]
  | |- frel L _ (bind (bind _ _) _) _ => apply frel_bind_assoc
  | |- frel L _ (bind (ret _) _) _ => apply frel_bind_ret; cbn [negb]
  | |- frel L _ (bind _ _) _ => apply (frel_bind L L_trans); [ first [llem | apply receive_pdu_L | lprim] | intros ? ? _ ]
  | |- frel L _ (if ?c then _ else _) _ => destruct c eqn:?
  end.

Lemma sync_first_spec fuel : forall w,
  post (sync_first fuel) w
       (fun o w1 => L w w1 /\ match o with
                              | Some p => exists wa, L w wa /\ receive_pdu c_RTR_RECV_TIMEOUT wa = Ok (inr p) w1 /\
                                                     (nthb p 1 =? c_SERIAL_NOTIFY) = false
                              | None => True end)
       (fun _ w1 => L w w1).
Proof.
  induction fuel as [|f IH]; intros w; cbn [sync_first]; [apply post_ret; split; [apply L_refl|exact I]|].
  apply post_bind.
  pose proof (receive_pdu_L c_RTR_RECV_TIMEOUT w) as HL. unfold rel in HL.
  apply post_eq; [intros r w1 E|intros e w1 E]; rewrite E in HL; [|exact HL].
  destruct r as [c|p].
  - assert (Hf : frel L (fun o : option (list byte) => o = None)
                      (mdo s <- get_sk;
                       if (c =? -4) && req_sess s && (version s >? c_RTR_PROTOCOL_MIN_SUPPORTED_VERSION)
                       then mdo _ <- set_sk (upd_version s (version s - 1)); mdo _ <- change_state c_RTR_FAST_RECONNECT; ret None
                       else if (c =? -2) || (c =? -4) then mdo _ <- change_state c_RTR_ERROR_TRANSPORT; ret None else ret None) w1)
      by (repeat fstep2).
    eapply post_weaken; [exact Hf|intros a w' [-> Hw]; split; [eapply L_trans; eauto|exact I]|intros e w' Hw; eapply L_trans; eauto].
  - destruct (nthb p 1 =? c_SERIAL_NOTIFY) eqn:En.
    + eapply post_weaken; [apply IH| |].
      * intros o w' [Hw Ho]. split; [eapply L_trans; eauto|]. destruct o as [q|]; [|exact I].
        destruct Ho as (wa & H1 & H2 & H3). exists wa. split; [eapply L_trans; eauto|split; assumption].
      * intros e w' Hw. eapply L_trans; eauto.
    + apply post_ret. split; [exact HL|]. exists w. split; [apply L_refl|split; assumption].
Qed.

(* the world after a Cache Response was accepted: a socket without a session adopts the cache's, and starts
   an atomic reload if it holds data (last_update <> 0) *)
Definition after_cr (w1 : world) (cr : list byte) : world :=
  let s := sk w1 in
  mkW (upd_session (if negb (last_update s =? 0) then upd_resetting s true else s) (get16 cr 2))
      (pfx w1) (keys w1) (evs w1) (opens w1) (sends w1) (now w1) (out w1).
Definition cr_world (w1 : world) (cr : list byte) : world := if req_sess (sk w1) then after_cr w1 cr else w1.

(* the world after a successful receive: request_session_id := false, last_update := now *)
Definition sync_done (w3 : world) : world :=
  mkW (upd_last (upd_req (sk w3) false) (now w3)) (pfx w3) (keys w3) (evs w3) (opens w3) (sends w3) (now w3) (out w3).

(* nothing that matters for the next query, and no table, has changed *)
Definition M (w w' : world) : Prop :=
  pfx w' = pfx w /\ keys w' = keys w /\ req_sess (sk w') = req_sess (sk w) /\ serial (sk w') = serial (sk w) /\
  last_update (sk w') = last_update (sk w) /\
  (req_sess (sk w) = false -> session_id (sk w') = session_id (sk w)).

Lemma L_M w w' : L w w' -> M w w'.
Proof. intros (H1 & H2 & H3). apply core_fields in H3. unfold M. intuition auto. Qed.

Lemma M_L_trans a b c : M a b -> L b c -> M a c.
Proof.
  intros (A1 & A2 & A3 & A4 & A5 & A6) (B1 & B2 & B3). apply core_fields in B3.
  destruct B3 as (C1 & C2 & C3 & C4 & C5 & C6 & C7 & C8 & C9). unfold M.
  repeat split; try congruence. intros H. rewrite C1. auto.
Qed.

Lemma M_clear a b : M a b -> M a (clear_resetting b).
Proof.
  pose proof (clear_resetting_facts b) as F. intros (A1 & A2 & A3 & A4 & A5 & A6). unfold M.
  repeat split; try (intuition congruence).
Qed.

Lemma M_cr_world w w1 cr : L w w1 -> (req_sess (sk w1) = false -> session_id (sk w1) = get16 cr 2) -> M w (cr_world w1 cr).
Proof.
  intros HL Hs. unfold cr_world. destruct (req_sess (sk w1)) eqn:Er; [|now apply L_M].
  destruct HL as (H1 & H2 & H3). apply core_fields in H3. unfold M, after_cr. cbn [pfx keys sk].
  destruct (negb (last_update (sk w1) =? 0)); cbn; repeat split; try (intuition congruence).
Qed.

Lemma M_next_query w w' : M w w' -> next_query (sk w') = next_query (sk w).
Proof.
  intros (_ & _ & A3 & A4 & _ & A6). unfold next_query. rewrite A3. destruct (req_sess (sk w)); [reflexivity|].
  now rewrite A4, A6.
Qed.

(* the exchange got as far as End of Data *)
Definition sync_reached_eod (fuel : nat) (w : world) (cr : list byte) (w1 : world) (res : res Z) : Prop :=
  sync_first fuel w = Ok (Some cr) w1 /\ nthb cr 1 = c_CACHE_RESPONSE /\
  (req_sess (sk w1) = false -> session_id (sk w1) = get16 cr 2) /\
  reached_eod (cr_world w1 cr) [] [] [] res.

Definition sync_post (fuel : nat) (w : world) (r : Z) (w' : world) : Prop :=
  (r <> 0 /\ M w w') \/
  exists cr w1 r0 w3, sync_reached_eod fuel w cr w1 (Ok r0 w3) /\
                      ((r0 = 0 /\ r = 0 /\ w' = sync_done (clear_resetting w3)) \/
                       (r0 <> 0 /\ r = -1 /\ w' = clear_resetting w3)).
Definition sync_exc (fuel : nat) (w : world) (e : exc) (w' : world) : Prop :=
  M w w' \/ exists cr w1, sync_reached_eod fuel w cr w1 (Exc e w').

Lemma rtr_sync_struct fuel w : post (rtr_sync fuel) w (sync_post fuel w) (sync_exc fuel w).
Proof.
  unfold rtr_sync. apply post_bind.
  pose proof (sync_first_spec fuel w) as HS.
  apply post_eq; [intros fp w1 E|intros e w1 E].
  2:{ left. apply L_M. exact (post_exc _ _ _ _ _ _ HS E). }
  destruct (post_ok _ _ _ _ _ _ HS E) as [HL Hp]. clear HS.
  assert (Hfail : forall (m : world -> res Z), frel L (fun r => r <> 0) m w1 ->
                  post m w1 (sync_post fuel w) (sync_exc fuel w)).
  { intros m Hm. eapply post_weaken; [exact Hm|intros a w' [Ha Hw]; left; split; [exact Ha|apply L_M; eapply L_trans; eauto]|
                                      intros e w' Hw; left; apply L_M; eapply L_trans; eauto]. }
  destruct fp as [p|]; [|apply Hfail; repeat fstep2].
  cbv zeta.
  destruct (nthb p 1 =? c_ERROR) eqn:Eerr; [apply Hfail; repeat fstep2|].
  destruct (nthb p 1 =? c_CACHE_RESET) eqn:Ecr; [apply Hfail; repeat fstep2|].
  destruct (nthb p 1 =? c_CACHE_RESPONSE) eqn:Ersp; [|apply Hfail; repeat fstep2].
  apply Z.eqb_eq in Ersp.
  apply post_bind. unfold post at 1, get_sk.
  (* the session check *)
  assert (Hcont : forall w2, w2 = cr_world w1 p -> (req_sess (sk w1) = false -> session_id (sk w1) = get16 p 2) ->
            post (mdo r <- receive_and_store fuel;
                  if r =? 0 then mdo _ <- modify_sk (fun s => upd_req s false); mdo t <- get_now;
                                 mdo _ <- modify_sk (fun s => upd_last s t); ret 0
                  else ret (-1)) w2 (sync_post fuel w) (sync_exc fuel w)).
  { intros w2 -> Hs. pose proof (M_cr_world w w1 p HL Hs) as HM.
    apply post_bind. pose proof (receive_and_store_spec fuel (cr_world w1 p)) as HR.
    apply post_eq; [intros r w3 E3|intros e w3 E3].
    - destruct (post_ok _ _ _ _ _ _ HR E3) as (w3' & -> & [[Hr Hw]|Hre]).
      + apply Z.eqb_neq in Hr. rewrite Hr. apply post_ret. left. split; [discriminate|].
        apply M_clear. eapply M_L_trans; eauto.
      + destruct (r =? 0) eqn:Er0.
        * apply Z.eqb_eq in Er0. subst r. unfold post, bind, modify_sk, get_sk, set_sk, get_now, ret.
          right. exists p, w1, 0, w3'. split; [repeat split; auto|]. left. repeat split; auto.
        * apply Z.eqb_neq in Er0. apply post_ret. right. exists p, w1, r, w3'. split; [repeat split; auto|]. right. auto.
    - destruct (post_exc _ _ _ _ _ _ HR E3) as [Hw|Hre].
      + left. eapply M_L_trans; eauto.
      + right. exists p, w1. repeat split; auto. }
  destruct (req_sess (sk w1)) eqn:Erq.
  - (* no session yet: adopt the cache's *)
    unfold bind at 2. unfold set_sk, ret. unfold bind at 1. cbn [negb].
    apply Hcont; [unfold cr_world; rewrite Erq; reflexivity|discriminate].
  - destruct (negb (session_id (sk w1) =? get16 p 2)) eqn:Esid.
    + (* foreign session *)
      apply Hfail. repeat fstep2.
    + apply negb_false_iff, Z.eqb_eq in Esid.
      unfold bind at 1. unfold ret at 1. cbn [negb].
      apply Hcont; [unfold cr_world; rewrite Erq; reflexivity|auto].
Qed.

(* ---------- C03 at the level of rtr_sync ---------- *)
(* the response is built aside and swapped in (reset) when the socket was already resetting (expiry) or
   has no session but holds data *)
Definition reset_mode (s : sock) : bool := resetting s || (req_sess s && negb (last_update s =? 0)).

Definition ivs_of (s : sock) := (refresh_iv s, expire_iv s, retry_iv s, iv_mode s).

Lemma apply_eod_intervals_ivs s s' p : ivs_of s = ivs_of s' -> ivs_of (apply_eod_intervals s p) = ivs_of (apply_eod_intervals s' p).
Proof.
  unfold ivs_of. intros H. inversion H as [[H1 H2 H3 H4]]. unfold apply_eod_intervals. rewrite H4.
  destruct (_ && _); cbn [refresh_iv expire_iv retry_iv iv_mode upd_ivs]; congruence.
Qed.

(* the PDUs of the exchange: first non-notify PDU [cr] (a Cache Response), then the buffered payload, then [eod] *)
Definition response_received (fuel : nat) (w : world) (cr eod : list byte) (v4 v6 ks : list (list byte)) : Prop :=
  exists w1 wa wb,
    sync_first fuel w = Ok (Some cr) w1 /\ nthb cr 1 = c_CACHE_RESPONSE /\
    collected (cr_world w1 cr) [] [] [] wa v4 v6 ks /\
    receive_pdu c_RTR_RECV_TIMEOUT wa = Ok (inr eod) wb /\ nthb eod 1 = c_EOD.

Lemma at_eod fuel w cr w1 wa wb eod v4 v6 ks :
  sync_first fuel w = Ok (Some cr) w1 ->
  (req_sess (sk w1) = false -> session_id (sk w1) = get16 cr 2) ->
  collected (cr_world w1 cr) [] [] [] wa v4 v6 ks ->
  receive_pdu c_RTR_RECV_TIMEOUT wa = Ok (inr eod) wb ->
  M w wb /\ resetting (sk wb) = reset_mode (sk w) /\ session_id (sk wb) = get16 cr 2 /\ ivs_of (sk wb) = ivs_of (sk w) /\
  (req_sess (sk w) = false -> session_id (sk w) = get16 cr 2).
Proof.
  intros Hsf Hok Hc Hr.
  destruct (post_ok _ _ _ _ _ _ (sync_first_spec fuel w) Hsf) as [HL _].
  pose proof (collected_L _ _ _ _ _ _ _ _ Hc) as HL2.
  pose proof (receive_pdu_L c_RTR_RECV_TIMEOUT wa) as HL3. unfold rel in HL3. rewrite Hr in HL3.
  pose proof (L_trans _ _ _ HL2 HL3) as HL4.
  split; [eapply M_L_trans; [apply M_cr_world; eauto|exact HL4]|].
  destruct HL4 as (_ & _ & C4). apply core_fields in C4. destruct C4 as (D1 & D2 & D3 & D4 & D5 & D6 & D7 & D8 & D9).
  destruct HL as (_ & _ & C1). apply core_fields in C1. destruct C1 as (E1 & E2 & E3 & E4 & E5 & E6 & E7 & E8 & E9).
  unfold ivs_of, reset_mode. rewrite D1, D5, D6, D7, D8, D9. rewrite <- E1, <- E2, <- E4, <- E5, <- E6, <- E7, <- E8, <- E9.
  unfold cr_world in *. destruct (req_sess (sk w1)) eqn:Erq.
  - unfold after_cr. cbn [sk]. destruct (last_update (sk w1) =? 0); cbn; repeat split; auto; try discriminate;
      destruct (resetting (sk w1)); reflexivity.
  - repeat split; auto. rewrite orb_false_r. reflexivity.
Qed.

Definition sync_success (fuel : nat) (w w' : world) : Prop :=
  exists cr eod v4 v6 ks,
    response_received fuel w cr eod v4 v6 ks /\
    own_p (pfx w') = (if reset_mode (sk w) then announced_p (v4 ++ v6) else apply_delta_p (own_p (pfx w)) (v4 ++ v6)) /\
    own_k (keys w') = (if reset_mode (sk w) then announced_k ks else apply_delta_k (own_k (keys w)) ks) /\
    serial (sk w') = get32 eod 8 /\ session_id (sk w') = get16 eod 2 /\ get16 cr 2 = get16 eod 2 /\
    (req_sess (sk w) = false -> session_id (sk w) = get16 cr 2) /\
    req_sess (sk w') = false /\ resetting (sk w') = false /\ last_update (sk w') = now w' /\
    ivs_of (sk w') = ivs_of (apply_eod_intervals (sk w) eod).

(* why an exchange that got as far as End of Data failed *)
Definition sync_eod_failure (fuel : nat) (w : world) : Prop :=
  exists cr eod v4 v6 ks,
    response_received fuel w cr eod v4 v6 ks /\
    (get16 eod 2 <> get16 cr 2 \/
     eod_failure (if reset_mode (sk w) then oth_p (pfx w) else pfx w) (if reset_mode (sk w) then oth_k (keys w) else keys w) v4 v6 ks).

Definition sync_failure (fuel : nat) (w w' : world) : Prop :=
  Permutation (pfx w') (pfx w) /\ Permutation (keys w') (keys w) /\
  next_query (sk w') = next_query (sk w) /\ last_update (sk w') = last_update (sk w) /\
  (reset_mode (sk w) = true -> pfx w' = pfx w /\ keys w' = keys w) /\
  ((pfx w' = pfx w /\ keys w' = keys w) \/ sync_eod_failure fuel w).

Lemma ivs_clear w : ivs_of (sk (clear_resetting w)) = ivs_of (sk w).
Proof. unfold clear_resetting. cbn [sk]. destruct (resetting (sk w)); reflexivity. Qed.
Lemma core_ivs s s' : core s = core s' -> ivs_of s = ivs_of s'.
Proof. intros H. apply core_fields in H. unfold ivs_of. intuition congruence. Qed.
Lemma next_query_eq s s' :
  req_sess s = req_sess s' -> serial s = serial s' -> (req_sess s' = false -> session_id s = session_id s') ->
  next_query s = next_query s'.
Proof. unfold next_query. intros -> -> H. destruct (req_sess s'); [reflexivity|now rewrite H]. Qed.

Theorem rtr_sync_C03 fuel w :
  NoDup (pfx w) -> NoDup (keys w) ->
  match rtr_sync fuel w with
  | Ok r w' => oth_p (pfx w') = oth_p (pfx w) /\ oth_k (keys w') = oth_k (keys w) /\
               ((r = 0 /\ sync_success fuel w w') \/ (r <> 0 /\ sync_failure fuel w w'))
  | Exc _ w' => pfx w' = pfx w /\ keys w' = keys w /\ next_query (sk w') = next_query (sk w)
  end.
Proof.
  intros NP NK. pose proof (rtr_sync_struct fuel w) as HS. unfold post in HS.
  assert (Hpe : forall cr w1 res, sync_reached_eod fuel w cr w1 res ->
            exists eod v4 v6 ks wb, response_received fuel w cr eod v4 v6 ks /\
              process_eod eod v4 v6 ks wb = res /\ pfx wb = pfx w /\ keys wb = keys w /\
              M w wb /\ resetting (sk wb) = reset_mode (sk w) /\ session_id (sk wb) = get16 cr 2 /\
              ivs_of (sk wb) = ivs_of (sk w) /\ (req_sess (sk w) = false -> session_id (sk w) = get16 cr 2)).
  { intros cr w1 res (Hsf & Hty & Hok & (wa & wb & eod & v4 & v6 & ks & Hc & Hr & Hte & Hp)).
    destruct (at_eod _ _ _ _ _ _ _ _ _ _ Hsf Hok Hc Hr) as (HM & A2 & A3 & A4 & A5).
    exists eod, v4, v6, ks, wb. split; [exists w1, wa, wb; auto|].
    pose proof HM as (M1 & M2 & _). split; [exact Hp|]. split; [exact M1|]. split; [exact M2|]. split; [exact HM|]. auto. }
  destruct (rtr_sync fuel w) as [r w'|e w'].
  - destruct HS as [[Hr HM]|(cr & w1 & r0 & w3 & Hre & Hcase)].
    + (* nothing reached the tables *)
      pose proof (M_next_query _ _ HM) as HQ. destruct HM as (M1 & M2 & M3 & M4 & M5 & M6).
      rewrite M1, M2. split; [reflexivity|]. split; [reflexivity|]. right. split; [exact Hr|].
      unfold sync_failure. rewrite M1, M2. auto 10.
    + destruct (Hpe _ _ _ Hre) as (eod & v4 & v6 & ks & wb & Hrr & Hp & B1 & B2 & BM & B3 & B4 & B5 & B6).
      assert (NPb : NoDup (pfx wb)) by now rewrite B1. assert (NKb : NoDup (keys wb)) by now rewrite B2.
      pose proof (post_ok _ _ _ _ _ _ (process_eod_spec eod v4 v6 ks wb NPb NKb) Hp) as HE.
      destruct (eod_post_others _ _ _ _ _ _ _ HE) as [O1 O2]. rewrite B1 in O1. rewrite B2 in O2.
      pose proof (clear_resetting_facts w3) as F. destruct F as (F1 & F2 & F3 & F4 & F5 & F6 & F7 & F8 & F9 & F10 & F11 & _).
      destruct Hcase as [(-> & -> & ->)|(Hr0 & -> & ->)].
      * (* success *)
        destruct (eod_post_success _ _ _ _ _ _ HE) as (S1 & S2 & S3 & _ & _ & S4).
        pose proof (core_ivs _ _ S4) as SI.
        apply core_fields in S4. cbn [session_id req_sess serial last_update refresh_iv expire_iv retry_iv iv_mode resetting upd_serial] in S4.
        destruct S4 as (T1 & T2 & T3 & T4 & T5 & T6 & T7 & T8 & T9).
        destruct (apply_eod_intervals_core (sk wb) eod) as (U1 & _).
        unfold sync_done. cbn [pfx keys sk now]. rewrite F1, F2. split; [auto|]. split; [auto|]. left. split; [reflexivity|].
        exists cr, eod, v4, v6, ks. rewrite B3, B1 in S2. rewrite B3, B2 in S3.
        cbn [pfx keys sk now serial session_id req_sess resetting last_update upd_last upd_req].
        repeat split; auto; try congruence.
        change (ivs_of (upd_last (upd_req (sk (clear_resetting w3)) false) (now (clear_resetting w3))))
          with (ivs_of (sk (clear_resetting w3))).
        rewrite ivs_clear, SI. change (ivs_of (upd_serial (apply_eod_intervals (sk wb) eod) (get32 eod 8)))
          with (ivs_of (apply_eod_intervals (sk wb) eod)). now apply apply_eod_intervals_ivs.
      * (* an update failed and was undone *)
        destruct (eod_post_failure _ _ _ _ _ _ _ HE Hr0) as (P1 & P2 & P3 & G1 & G2 & G3 & G4 & G5 & G6).
        rewrite F1, F2. split; [auto|]. split; [auto|]. right. split; [discriminate|].
        destruct BM as (M1 & M2 & M3 & M4 & M5 & M6).
        unfold sync_failure. rewrite F1, F2, F7. rewrite B1 in P1. rewrite B2 in P2. rewrite B3, B1, B2 in P3.
        split; [exact P1|]. split; [exact P2|].
        split; [apply next_query_eq; [congruence|congruence|intros Hq; rewrite F4, G1; apply M6; exact Hq]|].
        split; [congruence|]. split; [exact P3|].
        right. exists cr, eod, v4, v6, ks. split; [exact Hrr|].
        destruct G6 as [G6|G6]; [left; congruence|right].
        unfold upd_tab_p, upd_tab_k in G6. now rewrite B3, B1, B2 in G6.
  - destruct HS as [HM|(cr & w1 & Hre)].
    + pose proof (M_next_query _ _ HM) as HQ. destruct HM as (M1 & M2 & _). auto.
    + destruct (Hpe _ _ _ Hre) as (eod & v4 & v6 & ks & wb & Hrr & Hp & B1 & B2 & _).
      assert (NPb : NoDup (pfx wb)) by now rewrite B1. assert (NKb : NoDup (keys wb)) by now rewrite B2.
      exfalso. exact (post_exc _ _ _ _ _ _ (process_eod_spec eod v4 v6 ks wb NPb NKb) Hp).
Qed.

(* ---------- the tables stay duplicate-free (the invariant the undo argument needs) ---------- *)
Definition ND (w w' : world) : Prop := NoDup (pfx w) /\ NoDup (keys w) -> NoDup (pfx w') /\ NoDup (keys w').
Lemma ND_refl w : ND w w. Proof. unfold ND; auto. Qed.
Lemma ND_trans a b c : ND a b -> ND b c -> ND a c. Proof. unfold ND; auto. Qed.
Lemma L_ND a b : L a b -> ND a b. Proof. intros (H1 & H2 & _). unfold ND. now rewrite H1, H2. Qed.
Lemma M_ND a b : M a b -> ND a b. Proof. intros (H1 & H2 & _). unfold ND. now rewrite H1, H2. Qed.

Lemma eod_post_NoDup p v4 v6 ks w r w' :
  NoDup (pfx w) -> NoDup (keys w) -> eod_post p v4 v6 ks w r w' -> NoDup (pfx w') /\ NoDup (keys w').
Proof.
  intros NP NK [(_ & _ & (H1 & H2 & _))|(_ & [(_ & A1 & A2 & H1 & H2 & _)|(_ & _ & P1 & P2 & _)])].
  - now rewrite H1, H2.
  - rewrite H1, H2. split.
    + apply (applies_NoDup prec prec_eqb prec_of_pdu); [|exact A1].
      unfold upd_tab_p. destruct (resetting (sk w)); [now apply NoDup_oth_p|exact NP].
    + apply (applies_NoDup krec krec_eqb krec_of_pdu); [|exact A2].
      unfold upd_tab_k. destruct (resetting (sk w)); [now apply NoDup_oth_k|exact NK].
  - split; eapply Permutation_NoDup; try (apply Permutation_sym; eassumption); assumption.
Qed.

Lemma rtr_sync_ND fuel w : rel ND (rtr_sync fuel) w.
Proof.
  unfold rel. pose proof (rtr_sync_struct fuel w) as HS. unfold post in HS.
  assert (Hpe : forall cr w1 res, sync_reached_eod fuel w cr w1 res ->
            exists eod v4 v6 ks wb, process_eod eod v4 v6 ks wb = res /\ pfx wb = pfx w /\ keys wb = keys w).
  { intros cr w1 res (Hsf & Hty & Hok & (wa & wb & eod & v4 & v6 & ks & Hc & Hr & Hte & Hp)).
    destruct (at_eod _ _ _ _ _ _ _ _ _ _ Hsf Hok Hc Hr) as ((M1 & M2 & _) & _).
    exists eod, v4, v6, ks, wb. auto. }
  destruct (rtr_sync fuel w) as [r w'|e w'].
  - destruct HS as [[_ HM]|(cr & w1 & r0 & w3 & Hre & Hcase)]; [now apply M_ND|].
    destruct (Hpe _ _ _ Hre) as (eod & v4 & v6 & ks & wb & Hp & B1 & B2).
    intros [NP NK].
    assert (NPb : NoDup (pfx wb)) by now rewrite B1. assert (NKb : NoDup (keys wb)) by now rewrite B2.
    pose proof (post_ok _ _ _ _ _ _ (process_eod_spec eod v4 v6 ks wb NPb NKb) Hp) as HE.
    pose proof (eod_post_NoDup _ _ _ _ _ _ _ NPb NKb HE) as HN.
    pose proof (clear_resetting_facts w3) as (F1 & F2 & _).
    destruct Hcase as [(_ & _ & ->)|(_ & _ & ->)]; unfold sync_done; cbn [pfx keys]; now rewrite F1, F2.
  - destruct HS as [HM|(cr & w1 & Hre)]; [now apply M_ND|].
    destruct (Hpe _ _ _ Hre) as (eod & v4 & v6 & ks & wb & Hp & B1 & B2).
    intros [NP NK].
    assert (NPb : NoDup (pfx wb)) by now rewrite B1. assert (NKb : NoDup (keys wb)) by now rewrite B2.
    exfalso. exact (post_exc _ _ _ _ _ _ (process_eod_spec eod v4 v6 ks wb NPb NKb) Hp).
Qed.

Lemma src_remove_all_ND w : rel ND src_remove_all w.
Proof.
  unfold rel. destruct (src_remove_all_spec w) as (w1 & E & E1 & E2 & _). rewrite E. unfold ND. rewrite E1, E2.
  intros [A B]. split; [now apply NoDup_oth_p|now apply NoDup_oth_k].
Qed.

Notation relND := (rel ND).
Ltac nfin := unfold ND; cbn [sk pfx keys]; try (intros HND; exact HND).
Ltac nprim := unfold rel; unfold_prims; nfin.
Ltac nlem :=
  match goal with
  | |- relND (change_state _) _ => apply (rel_mono L ND _ _ L_ND), (okrel_rel L), change_state_okL
  | |- relND (send_serial_query) _ => apply (rel_mono L ND _ _ L_ND), (okrel_rel L), send_serial_query_okL
  | |- relND (send_reset_query) _ => apply (rel_mono L ND _ _ L_ND), (okrel_rel L), send_reset_query_okL
  | |- relND (tr_open) _ => apply (rel_mono L ND _ _ L_ND), tr_open_L
  | |- relND (wait_for_sync) _ => apply (rel_mono L ND _ _ L_ND), wait_for_sync_L
  | |- relND (rtr_sync _) _ => apply rtr_sync_ND
  | |- relND (src_remove_all) _ => apply src_remove_all_ND
  end.
Ltac nstep :=
  match goal with
  | |- relND (ret _) _ => apply (rel_ret ND ND_refl)
  | |- relND (bind get_sk _) ?w => apply (rel_bind ND ND_trans); [nprim | let H := fresh "Heq" in intros ? ? H; unfold_prims_in H; injection H as <- <-]
  | |- relND (bind get_now _) ?w => apply (rel_bind ND ND_trans); [nprim | let H := fresh "Heq" in intros ? ? H; unfold_prims_in H; injection H as <- <-]
  | |- relND (bind _ _) ?w => apply (rel_bind ND ND_trans); [ | intros ? ? ?Heq]
  | |- relND (if ?c then _ else _) _ => destruct c eqn:?
  | |- relND (match ?x with _ => _ end) _ => destruct x eqn:?
  | |- relND ((fun _ => _) _) _ => cbv beta
  | |- relND (let _ := _ in _) _ => cbv zeta
  end.

Lemma purge_outdated_ND w : relND purge_outdated w.
Proof. unfold purge_outdated. repeat nstep; try nlem; try nprim. Qed.
Lemma fsm_step_ND fuel w : relND (fsm_step fuel) w.
Proof. unfold fsm_step. repeat nstep; try nlem; try apply purge_outdated_ND; try (nprim; fail). Qed.
Lemma rtr_stop_ND w : relND rtr_stop w.
Proof. unfold rtr_stop. repeat nstep; try nlem; try (nprim; fail). Qed.

Theorem run_fsm_ND n fuel : forall w, ND w (run_fsm n fuel w).
Proof.
  induction n as [|n IH]; intros w; cbn [run_fsm]; [apply ND_refl|].
  pose proof (fsm_step_ND fuel w) as H. unfold rel in H.
  destruct (fsm_step fuel w) as [[] w'|[why|] w'].
  - eapply ND_trans; [exact H|apply IH].
  - exact H.
  - assert (Hs : relND (mdo _ <- rtr_stop; mdo _ <- dump 1; modify_sk (fun s => upd_st s c_RTR_CONNECTING)) w').
    { repeat nstep; try apply rtr_stop_ND; try (nprim; fail). }
    unfold rel in Hs.
    destruct ((mdo _ <- rtr_stop; mdo _ <- dump 1; modify_sk (fun s => upd_st s c_RTR_CONNECTING)) w') as [[] w2|e w2].
    + eapply ND_trans; [exact H|]. eapply ND_trans; [exact Hs|apply IH].
    + eapply ND_trans; eauto.
Qed.

(* the purge fallback, should an undo ever fail (it cannot in this model, which has no allocation failure) *)
Lemma purge_after_failed_undo_spec w :
  exists w', purge_after_failed_undo w = Ok tt w' /\
             pfx w' = oth_p (pfx w) /\ keys w' = oth_k (keys w) /\ own_p (pfx w') = [] /\ own_k (keys w') = [] /\
             req_sess (sk w') = true.
Proof.
  destruct (src_remove_all_spec w) as (w1 & E & E1 & E2 & E3).
  unfold purge_after_failed_undo, bind, modify_sk, get_sk, set_sk. unfold bind. rewrite E.
  eexists. split; [reflexivity|]. cbn [pfx keys sk req_sess upd_req]. rewrite E1, E2.
  unfold own_p, oth_p, own_k, oth_k. rewrite !own_oth_nil. auto.
Qed.
