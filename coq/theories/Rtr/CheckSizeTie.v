(* CheckSizeTie.v - tie (a) for rtr_pdu_check_size: the function as translated from /repo on every run
   (Gen/GeneratedMem.v: loads through pointers into the receive buffer, C integer widths, the switch)
   equals the hand-written RtrModel.check_size, and it never reads outside the PDU it is given. *)
From RtrV Require Import Base.CSem Base.Mem Gen.Generated Gen.GeneratedMem Rtr.RtrModel.
From Coq Require Import ZifyBool.
Local Open Scope Z_scope.
Ltac Zify.zify_post_hook ::= Z.div_mod_to_equations.

(* the header as rtr_receive_pdu leaves it in memory before the size check: the 16-bit field and the
   length converted to host byte order (little-endian), everything behind them as received *)
Definition to_host (p : list Z) : list Z :=
  match p with
  | a :: b :: c :: d :: e :: f :: g :: h :: rest => a :: b :: d :: c :: h :: g :: f :: e :: rest
  | _ => p
  end.

Lemma to_host_length p : List.length (to_host p) = List.length p.
Proof. do 8 (destruct p as [|? p]; [reflexivity|]). reflexivity. Qed.

Lemma mbyte_to_host p o : 8 <= o -> mbyte (to_host p) o = nthb p (Z.to_nat o).
Proof.
  intros Ho. unfold mbyte, nthb.
  do 8 (destruct p as [|? p]; [reflexivity|]). cbn [to_host].
  assert (E : exists k, Z.to_nat o = (8 + k)%nat) by (exists (Z.to_nat o - 8)%nat; lia).
  destruct E as [k ->]. reflexivity.
Qed.

Lemma ld32_be p o : 8 <= o -> Forall byte_ok p ->
  bswap32 (le_load (to_host p) o 4) = get32 p (Z.to_nat o).
Proof.
  intros Ho Hb. rewrite le_load_4, !mbyte_to_host by lia.
  rewrite bswap32_le.
  - unfold get32, be32. replace (Z.to_nat (o + 1)) with (1 + Z.to_nat o)%nat by lia.
    replace (Z.to_nat (o + 2)) with (2 + Z.to_nat o)%nat by lia.
    replace (Z.to_nat (o + 3)) with (3 + Z.to_nat o)%nat by lia. reflexivity.
  - apply mbyte_ok, Hb.
  - apply mbyte_ok, Hb.
  - apply mbyte_ok, Hb.
  - apply mbyte_ok, Hb.
Qed.

Lemma hdr_len p : 8 <= zlen p -> le_load (to_host p) 4 4 = get32 p 4.
Proof.
  unfold zlen. intros H.
  do 8 (destruct p as [|? p]; [cbn [List.length] in H; lia|]).
  rewrite le_load_4. unfold mbyte, get32, be32, nthb.
  change (Z.to_nat 4) with 4%nat. change (Z.to_nat (4 + 1)) with 5%nat.
  change (Z.to_nat (4 + 2)) with 6%nat. change (Z.to_nat (4 + 3)) with 7%nat.
  cbn [nth to_host Nat.add]. lia.
Qed.

Lemma hdr_ver p : 8 <= zlen p -> le_load (to_host p) 0 1 = nthb p 0.
Proof.
  unfold zlen. intros H.
  do 8 (destruct p as [|? p]; [cbn [List.length] in H; lia|]).
  cbn [le_load]. unfold mbyte, nthb. change (Z.to_nat 0) with 0%nat. cbn [nth to_host]. lia.
Qed.

Lemma hdr_type p : 8 <= zlen p -> le_load (to_host p) 1 1 = nthb p 1.
Proof.
  unfold zlen. intros H.
  do 8 (destruct p as [|? p]; [cbn [List.length] in H; lia|]).
  cbn [le_load]. unfold mbyte, nthb. change (Z.to_nat 1) with 1%nat. cbn [nth to_host]. lia.
Qed.

Lemma ld_ok_to_host p o n : ld_ok (to_host p) (Some o) n = (0 <=? o) && (o + n <=? zlen p).
Proof. unfold ld_ok, zlen. rewrite to_host_length. reflexivity. Qed.

(* replace a closed subterm by its value *)
Ltac ev t := let v := eval vm_compute in t in change t with v.

(* a type byte outside the known ones matches no case label, whatever the conversions on the way do *)
Lemma type_dispatch_other ty c :
  10 < ty < 256 -> 0 <= c <= 10 -> (wrapu 32 (wrapu 32 (wrapu 32 (wraps 8 ty))) =? wrapu 32 c) = false.
Proof.
  intros Ht Hc. apply Z.eqb_neq. unfold wrapu, wraps.
  change (2 ^ 8) with 256. change (2 ^ (8 - 1)) with 128. change (2 ^ 32) with 4294967296.
  rewrite (Z.mod_small ty 256) by lia. rewrite (Z.mod_small c) by lia.
  destruct (ty <? 128) eqn:E.
  - apply Z.ltb_lt in E. rewrite !(Z.mod_small ty) by lia. lia.
  - apply Z.ltb_ge in E.
    assert (M : (ty - 256) mod 4294967296 = ty - 256 + 4294967296).
    { symmetry. apply (Z.mod_unique _ _ (-1)); lia. }
    rewrite M. rewrite !(Z.mod_small (ty - 256 + 4294967296)) by lia. lia.
Qed.

Lemma tail_simpl r :
  (do _ <- (if negb (z2b r) then Some tt else Some tt); Some (b2z (z2b r))) = Some (b2z (z2b r)).
Proof. destruct (negb (z2b r)); reflexivity. Qed.

Lemma ld_ok_const p o n : 0 <= o -> o + n <= 8 -> 8 <= zlen p -> ld_ok (to_host p) (Some o) n = true.
Proof.
  intros. rewrite ld_ok_to_host. apply andb_true_intro. split; apply Z.leb_le; lia.
Qed.

Lemma nthb_ok p i : Forall byte_ok p -> byte_ok (nthb p i).
Proof.
  intros H. pose proof (mbyte_ok p (Z.of_nat i) H) as M. unfold mbyte in M. rewrite Nat2Z.id in M. exact M.
Qed.

Lemma get32_range p o : Forall byte_ok p -> 0 <= get32 p o < 4294967296.
Proof.
  intros H. unfold get32, be32.
  pose proof (nthb_ok p o H). pose proof (nthb_ok p (1 + o) H).
  pose proof (nthb_ok p (2 + o) H). pose proof (nthb_ok p (3 + o) H).
  unfold byte_ok in *. lia.
Qed.

(* evaluate the conversions and comparisons of literals (never a term with a variable in it: the normal form of a
   stuck [mod] is huge, and nested ones explode) *)
Ltac is_lit k := lazymatch k with Z0 => idtac | Zpos _ => idtac | Zneg _ => idtac end.
Ltac ev_cmp :=
  repeat match goal with
         | |- context [wraps 8 ?k] => is_lit k; ev (wraps 8 k)
         | |- context [b2z (z2b (b2z (z2b ?k)))] => is_lit k; ev (b2z (z2b (b2z (z2b k))))
         | |- context [wrapu 32 ?k] => is_lit k; ev (wrapu 32 k)
         | |- context [Z.eqb ?a ?b] => is_lit a; is_lit b; ev (Z.eqb a b)
         end; cbv iota.

Lemma wrapu64_small x : 0 <= x < 18446744073709551616 -> wrapu 64 x = x.
Proof. intros H. unfold wrapu. change (2 ^ 64) with 18446744073709551616. apply Z.mod_small, H. Qed.
Lemma wraps32_small x : -2147483648 <= x < 2147483648 -> wraps 32 x = x.
Proof.
  intros H. unfold wraps. change (2 ^ 32) with 4294967296. change (2 ^ (32 - 1)) with 2147483648.
  destruct (Z_lt_le_dec x 0) as [Hn|Hp].
  - assert (M : x mod 4294967296 = x + 4294967296) by (symmetry; apply (Z.mod_unique _ _ (-1)); lia).
    rewrite M. destruct (x + 4294967296 <? 2147483648) eqn:E; lia.
  - rewrite Z.mod_small by lia. destruct (x <? 2147483648) eqn:E; lia.
Qed.

(* conversions that change nothing, innermost first *)
Ltac norm_wrap :=
  repeat match goal with
         | |- context [wrapu 64 ?x] =>
           lazymatch x with context [wrapu] => fail | _ => rewrite (wrapu64_small x) by lia end
         | |- context [wraps 32 ?x] =>
           lazymatch x with context [wraps] => fail | _ => rewrite (wraps32_small x) by lia end
         end.

Ltac fin :=
  norm_wrap;
  repeat match goal with
         | |- context [if ?c then _ else _] =>
           lazymatch c with true => fail | false => fail | _ => destruct c eqn:? end
         | |- context [b2z ?c] =>
           lazymatch c with true => fail | false => fail | _ => destruct c eqn:? end
         end;
  try reflexivity; exfalso; lia.

Ltac split_ifs :=
  repeat match goal with
         | |- context [if ?c then _ else _] => destruct c eqn:?
         end.

Theorem check_size_translated p :
  Forall byte_ok p -> 8 <= zlen p -> zlen p = get32 p 4 ->
  rtr_pdu_check_size_gen (to_host p) (Some 0) = Some (b2z (check_size p)).
Proof.
  intros Hb H8 Hlen.
  cbv beta delta [rtr_pdu_check_size_gen rtr_get_pdu_type_gen].
  cbv zeta.
  repeat match goal with
         | |- context [ptr_add (Some 0) ?c] =>
           let v := eval compute in (ptr_add (Some 0) c) in change (ptr_add (Some 0) c) with v
         end.
  cbn [ptr_add].
  rewrite !tail_simpl.
  rewrite !(ld_ok_const p 1 1), !(ld_ok_const p 4 4), !(ld_ok_const p 0 1) by lia.
  cbv beta iota delta [guard obind].
  unfold lds, ldu.
  change (Z.to_nat 4) with 4%nat. change (Z.to_nat 1) with 1%nat.
  rewrite !hdr_len, !hdr_ver, !hdr_type by assumption.
  rewrite !(ld32_be p 8) by (assumption || lia). change (Z.to_nat 8) with 8%nat.
  pose proof (get32_range p 8 Hb) as Hel.
  rewrite !(ld32_be p (12 + get32 p 8)) by (assumption || lia).
  pose proof (get32_range p (Z.to_nat (12 + get32 p 8)) Hb) as Htl.
  pose proof (get32_range p 4 Hb) as Hl.
  pose proof (nthb_ok p 1 Hb) as Hty. pose proof (nthb_ok p 0 Hb) as Hver.
  rewrite !ld_ok_to_host, Hlen.
  unfold check_size. cbv zeta.
  set (tl := get32 p (Z.to_nat (12 + get32 p 8))) in *.
  set (el := get32 p 8) in *. set (len := get32 p 4) in *.
  set (ty := nthb p 1) in *. set (ver := nthb p 0) in *.
  clearbody tl el len ty ver. clear Hlen H8 Hb p.
  unfold byte_ok in *. change (8 * 1) with 8.
  assert (Hc : ty = 0 \/ ty = 1 \/ ty = 2 \/ ty = 3 \/ ty = 4 \/ ty = 5 \/ ty = 6 \/ ty = 7 \/ ty = 8 \/
               ty = 9 \/ ty = 10 \/ 10 < ty) by lia.
  unfold c_SERIAL_NOTIFY, c_CACHE_RESPONSE, c_IPV4_PREFIX, c_IPV6_PREFIX, c_EOD, c_CACHE_RESET, c_ROUTER_KEY,
    c_ERROR, c_SERIAL_QUERY, c_RESET_QUERY, sizeof_pdu_serial_notify, sizeof_pdu_cache_response, sizeof_pdu_ipv4,
    sizeof_pdu_ipv6, sizeof_pdu_end_of_data_v0, sizeof_pdu_end_of_data_v1, sizeof_pdu_header, sizeof_pdu_router_key,
    sizeof_pdu_serial_query, sizeof_pdu_reset_query, c_RTR_PROTOCOL_VERSION_0, c_RTR_PROTOCOL_VERSION_1.
  destruct Hc as [->|[->|[->|[->|[->|[->|[->|[->|[->|[->|[->|Hbig]]]]]]]]]]].
  all: try (ev_cmp; fin).
  rewrite !type_dispatch_other by lia.
  repeat match goal with
         | |- context [ty =? ?c] =>
           replace (ty =? c) with false by (symmetry; apply Z.eqb_neq; lia)
         end.
  reflexivity.
Qed.

(* The translated function never reads outside the PDU it is given: on every complete PDU (as many bytes as its
   length field says) it returns a value, i.e. no load guard fails. *)
Corollary check_size_reads_inside p :
  Forall byte_ok p -> 8 <= zlen p -> zlen p = get32 p 4 ->
  rtr_pdu_check_size_gen (to_host p) (Some 0) <> None.
Proof. intros Hb H8 Hl. rewrite (check_size_translated p Hb H8 Hl). discriminate. Qed.

Example check_size_translated_nonvacuous :
  let p := [1; 10; 0; 2; 0; 0; 0; 24; 0; 0; 0; 8; 1; 2; 0; 0; 0; 0; 0; 8; 0; 0; 0; 0] in
  Forall byte_ok p /\ 8 <= zlen p /\ zlen p = get32 p 4 /\
  rtr_pdu_check_size_gen (to_host p) (Some 0) = Some 1.
Proof.
  cbv zeta. split; [repeat constructor; unfold byte_ok; lia|].
  split; [vm_compute; discriminate|]. split; vm_compute; reflexivity.
Qed.
