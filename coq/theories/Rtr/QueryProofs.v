(* QueryProofs.v - C05: which query the socket sends, and when the session bookkeeping
   (request_session_id, session_id, serial_number) can change. *)
From Coq Require Import Permutation.
From RtrV Require Import Base.CSem Gen.Generated Rtr.RtrModel Rtr.RelFrame Rtr.SyncSets Rtr.SyncFrame Rtr.SyncProofs.
Local Open Scope Z_scope.

(* ---------- the bytes of the two queries ---------- *)
Definition serial_query_bytes (s : sock) : list byte :=
  [version s mod 256; 1; (session_id s mod 65536 / 256) mod 256; (session_id s mod 65536) mod 256; 0; 0; 0; 12;
   (serial s / 16777216) mod 256; (serial s / 65536) mod 256; (serial s / 256) mod 256; serial s mod 256].
Definition reset_query_bytes (s : sock) : list byte := [version s mod 256; 2; 0; 0; 0; 0; 0; 8].

(* what a stretch of trace (chronological) handed to the transport *)
Fixpoint payload (tr : list titem) : list byte :=
  match tr with
  | [] => []
  | TSend b :: r => b ++ payload r
  | _ :: r => payload r
  end.
Lemma payload_app a b : payload (a ++ b) = payload a ++ payload b.
Proof. induction a as [|x a IH]; [reflexivity|]. destruct x; cbn [app payload]; rewrite ?IH, ?app_assoc; reflexivity. Qed.

(* between w and w' exactly the bytes b were accepted by the transport (in one or several writes) *)
Definition sent_between (w w' : world) (b : list byte) : Prop :=
  exists items, out w' = items ++ out w /\ payload (rev items) = b.

Lemma sent_between_refl w : sent_between w w []. Proof. exists []. auto. Qed.
Lemma sent_between_trans a b c x y : sent_between a b x -> sent_between b c y -> sent_between a c (x ++ y).
Proof.
  intros (i1 & E1 & P1) (i2 & E2 & P2). exists (i2 ++ i1). rewrite E2, E1, app_assoc. split; [reflexivity|].
  now rewrite rev_app_distr, payload_app, P1, P2.
Qed.

Definition accepts_all (w : world) : Prop := Forall (fun x => 0 < x) (sends w).

(* same socket, same tables, same environment except the send script and the trace *)
Definition same_but_out (w w' : world) : Prop :=
  sk w' = sk w /\ pfx w' = pfx w /\ keys w' = keys w /\ evs w' = evs w /\ opens w' = opens w /\ now w' = now w.

Lemma zlen_nonneg {A} (l : list A) : 0 <= zlen l. Proof. unfold zlen. lia. Qed.
Lemma zlen_cons {A} (x : A) l : zlen (x :: l) = 1 + zlen l. Proof. unfold zlen. cbn [List.length]. lia. Qed.

Lemma zlen_pos {A} (l : list A) : l <> [] -> 0 < zlen l.
Proof. destruct l as [|x r]; [congruence|]. intros _. rewrite zlen_cons. pose proof (zlen_nonneg r). lia. Qed.

Lemma tr_send_spec b w :
  accepts_all w -> b <> [] ->
  exists n w', tr_send b w = Ok n w' /\ 0 < n <= zlen b /\ same_but_out w w' /\ accepts_all w' /\
               out w' = TSend (firstn (Z.to_nat n) b) :: out w.
Proof.
  intros Ha Hb. unfold tr_send.
  pose proof (zlen_pos b Hb) as Hl.
  unfold accepts_all in *.
  destruct (sends w) as [|x r] eqn:Es.
  - change (1000000 <? 0) with false. cbv iota.
    eexists _, _. split; [reflexivity|]. cbn [sk pfx keys evs opens now out sends]. unfold same_but_out. cbn [sk pfx keys evs opens now].
    repeat split; auto; lia.
  - inversion Ha as [|? ? Hx Hr]; subst. destruct (x <? 0) eqn:Ex; [apply Z.ltb_lt in Ex; lia|].
    eexists _, _. split; [reflexivity|]. cbn [sk pfx keys evs opens now out sends]. unfold same_but_out. cbn [sk pfx keys evs opens now].
    repeat split; auto; lia.
Qed.

Lemma firstn_skipn_len (b : list byte) n : 0 < n <= zlen b -> (List.length (skipn (Z.to_nat n) b) < List.length b)%nat.
Proof. intros H. rewrite skipn_length. unfold zlen in H. lia. Qed.

Lemma tr_send_all_loop_spec fuel : forall b tot w,
  (List.length b <= fuel)%nat -> accepts_all w ->
  exists w', tr_send_all_loop fuel b tot w = Ok (tot + zlen b) w' /\ same_but_out w w' /\ accepts_all w' /\ sent_between w w' b.
Proof.
  induction fuel as [|f IH]; intros b tot w Hf Ha.
  - destruct b; [|cbn in Hf; lia]. cbn. exists w. rewrite Z.add_0_r. unfold same_but_out. repeat split; auto. apply sent_between_refl.
  - cbn [tr_send_all_loop]. destruct b as [|x b'] eqn:Eb.
    { cbn. exists w. rewrite Z.add_0_r. unfold same_but_out. repeat split; auto. apply sent_between_refl. }
    rewrite <- Eb in *. assert (Hne : b <> []) by (rewrite Eb; discriminate).
    destruct (tr_send_spec b w Ha Hne) as (n & w1 & E & Hn & Hs & Ha1 & Ho).
    unfold bind. rewrite E.
    destruct (n <? 0) eqn:E1; [apply Z.ltb_lt in E1; lia|]. destruct (n =? 0) eqn:E2; [apply Z.eqb_eq in E2; lia|].
    pose proof (firstn_skipn_len b n Hn) as Hlen.
    destruct (IH (skipn (Z.to_nat n) b) (tot + n) w1 ltac:(lia) Ha1) as (w2 & E3 & Hs2 & Ha2 & Hsb).
    exists w2. split.
    + rewrite E3. f_equal. unfold zlen. rewrite skipn_length. unfold zlen in Hn. lia.
    + split; [|split; [exact Ha2|]].
      * unfold same_but_out in *. intuition congruence.
      * rewrite <- (firstn_skipn (Z.to_nat n) b) at 2. eapply sent_between_trans; [|exact Hsb].
        exists [TSend (firstn (Z.to_nat n) b)]. split; [exact Ho|]. cbn. apply app_nil_r.
Qed.

Lemma send_pdu_spec b w :
  st (sk w) <> c_RTR_SHUTDOWN -> accepts_all w -> b <> [] ->
  exists w', send_pdu b w = Ok 0 w' /\ same_but_out w w' /\ accepts_all w' /\ sent_between w w' b.
Proof.
  intros Hst Ha Hb. unfold send_pdu, bind, get_sk.
  destruct (st (sk w) =? c_RTR_SHUTDOWN) eqn:E; [apply Z.eqb_eq in E; congruence|].
  unfold tr_send_all. destruct (tr_send_all_loop_spec (List.length b) b 0 w (le_n _) Ha) as (w' & E1 & H1 & H2 & H3).
  rewrite E1. exists w'. unfold ret. split; [|auto].
  pose proof (zlen_pos b Hb).
  destruct (0 + zlen b >? 0) eqn:Eg; [reflexivity|]. rewrite Z.gtb_ltb in Eg. apply Z.ltb_ge in Eg. lia.
Qed.

Lemma serial_query_bytes_eq s :
  [version s mod 256; c_SERIAL_QUERY] ++ enc16 (session_id s mod 65536) ++ enc32 12 ++ enc32 (serial s) = serial_query_bytes s.
Proof. reflexivity. Qed.
Lemma reset_query_bytes_eq s : [version s mod 256; c_RESET_QUERY] ++ enc16 0 ++ enc32 8 = reset_query_bytes s.
Proof. reflexivity. Qed.

(* C05 (1): the Serial Query carries the CURRENT session_id and serial_number, the Reset Query nothing *)
Theorem send_serial_query_bytes w :
  st (sk w) <> c_RTR_SHUTDOWN -> accepts_all w ->
  exists w', send_serial_query w = Ok 0 w' /\ same_but_out w w' /\ accepts_all w' /\
             sent_between w w' (serial_query_bytes (sk w)).
Proof.
  intros Hst Ha. unfold send_serial_query, bind, get_sk. rewrite serial_query_bytes_eq.
  destruct (send_pdu_spec (serial_query_bytes (sk w)) w Hst Ha ltac:(discriminate)) as (w' & E & H).
  rewrite E. exists w'. auto.
Qed.

Theorem send_reset_query_bytes w :
  st (sk w) <> c_RTR_SHUTDOWN -> accepts_all w ->
  exists w', send_reset_query w = Ok 0 w' /\ same_but_out w w' /\ accepts_all w' /\
             sent_between w w' (reset_query_bytes (sk w)).
Proof.
  intros Hst Ha. unfold send_reset_query, bind, get_sk. rewrite reset_query_bytes_eq.
  destruct (send_pdu_spec (reset_query_bytes (sk w)) w Hst Ha ltac:(discriminate)) as (w' & E & H).
  rewrite E. exists w'. auto.
Qed.

(* one write when the transport takes everything at once *)
Lemma sent_between_single w w' b : sends w = [] -> True.
Proof. auto. Qed.
