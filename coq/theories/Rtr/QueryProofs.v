(* QueryProofs.v - C05: which query the socket sends, and when the session bookkeeping
   (request_session_id, session_id, serial_number) can change. *)
From Coq Require Import Permutation.
From RtrV Require Import Base.CSem Gen.Generated Rtr.RtrModel Rtr.RelFrame Rtr.SyncSets Rtr.SyncFrame Rtr.SyncProofs.
Local Open Scope Z_scope.

(* ---------- the bytes of the two queries ---------- *)
Definition serial_query_bytes (s : sock) : list byte :=
  [version s mod 256; 1; (session_id s mod 65536 / 256) mod 256; (session_id s mod 65536) mod 256; 0; 0; 0; 12;
   (serial s / 16777216) mod 256; (serial s / 65536) mod 256; (serial s / 256) mod 256; serial s mod 256].
Definition reset_query_bytes (s : sock) : list byte := [version s mod 256; 2; 0; 0; 0; 0; 0; 8].

(* what a stretch of trace (chronological) handed to the transport *)
Fixpoint payload (tr : list titem) : list byte :=
  match tr with
  | [] => []
  | TSend b :: r => b ++ payload r
  | _ :: r => payload r
  end.
Lemma payload_app a b : payload (a ++ b) = payload a ++ payload b.
Proof. induction a as [|x a IH]; [reflexivity|]. destruct x; cbn [app payload]; rewrite ?IH, ?app_assoc; reflexivity. Qed.

(* between w and w' exactly the bytes b were accepted by the transport (in one or several writes) *)
Definition sent_between (w w' : world) (b : list byte) : Prop :=
  exists items, out w' = items ++ out w /\ payload (rev items) = b.

Lemma sent_between_refl w : sent_between w w []. Proof. exists []. auto. Qed.
Lemma sent_between_trans a b c x y : sent_between a b x -> sent_between b c y -> sent_between a c (x ++ y).
Proof.
  intros (i1 & E1 & P1) (i2 & E2 & P2). exists (i2 ++ i1). rewrite E2, E1, app_assoc. split; [reflexivity|].
  now rewrite rev_app_distr, payload_app, P1, P2.
Qed.

Definition nosend (t : titem) : Prop := match t with TSend _ => False | _ => True end.
Lemma payload_nosend l : Forall nosend l -> payload l = [].
Proof. induction 1 as [|x l Hx _ IH]; [reflexivity|]. destruct x; cbn [payload]; try exact IH. destruct Hx. Qed.
Lemma sent_between_nosend w w' items : out w' = items ++ out w -> Forall nosend items -> sent_between w w' [].
Proof. intros E H. exists items. split; [exact E|]. apply payload_nosend, Forall_rev, H. Qed.
Lemma nosend_map_pfx b l : Forall nosend (map (TPfx b) l).
Proof. induction l; constructor; [exact I|assumption]. Qed.
Lemma nosend_map_key b l : Forall nosend (map (TKey b) l).
Proof. induction l; constructor; [exact I|assumption]. Qed.

Definition accepts_all (w : world) : Prop := Forall (fun x => 0 < x) (sends w).

(* same socket, same tables, same environment except the send script and the trace *)
Definition same_but_out (w w' : world) : Prop :=
  sk w' = sk w /\ pfx w' = pfx w /\ keys w' = keys w /\ evs w' = evs w /\ opens w' = opens w /\ now w' = now w.

Lemma zlen_nonneg {A} (l : list A) : 0 <= zlen l. Proof. unfold zlen. lia. Qed.
Lemma zlen_cons {A} (x : A) l : zlen (x :: l) = 1 + zlen l. Proof. unfold zlen. cbn [List.length]. lia. Qed.

Lemma zlen_pos {A} (l : list A) : l <> [] -> 0 < zlen l.
Proof. destruct l as [|x r]; [congruence|]. intros _. rewrite zlen_cons. pose proof (zlen_nonneg r). lia. Qed.

Lemma tr_send_spec b w :
  accepts_all w -> b <> [] ->
  exists n w', tr_send b w = Ok n w' /\ 0 < n <= zlen b /\ same_but_out w w' /\ accepts_all w' /\
               out w' = TSend (firstn (Z.to_nat n) b) :: out w.
Proof.
  intros Ha Hb. unfold tr_send.
  pose proof (zlen_pos b Hb) as Hl.
  unfold accepts_all in *.
  destruct (sends w) as [|x r] eqn:Es.
  - change (1000000 <? 0) with false. cbv iota.
    eexists _, _. split; [reflexivity|]. cbn [sk pfx keys evs opens now out sends]. unfold same_but_out. cbn [sk pfx keys evs opens now].
    repeat split; auto; lia.
  - inversion Ha as [|? ? Hx Hr]; subst. destruct (x <? 0) eqn:Ex; [apply Z.ltb_lt in Ex; lia|].
    eexists _, _. split; [reflexivity|]. cbn [sk pfx keys evs opens now out sends]. unfold same_but_out. cbn [sk pfx keys evs opens now].
    repeat split; auto; lia.
Qed.

Lemma firstn_skipn_len (b : list byte) n : 0 < n <= zlen b -> (List.length (skipn (Z.to_nat n) b) < List.length b)%nat.
Proof. intros H. rewrite skipn_length. unfold zlen in H. lia. Qed.

Lemma tr_send_all_loop_spec fuel : forall b tot w,
  (List.length b <= fuel)%nat -> accepts_all w ->
  exists w', tr_send_all_loop fuel b tot w = Ok (tot + zlen b) w' /\ same_but_out w w' /\ accepts_all w' /\ sent_between w w' b.
Proof.
  induction fuel as [|f IH]; intros b tot w Hf Ha.
  - destruct b; [|cbn in Hf; lia]. cbn. exists w. rewrite Z.add_0_r. unfold same_but_out. repeat split; auto. apply sent_between_refl.
  - cbn [tr_send_all_loop]. destruct b as [|x b'] eqn:Eb.
    { cbn. exists w. rewrite Z.add_0_r. unfold same_but_out. repeat split; auto. apply sent_between_refl. }
    rewrite <- Eb in *. assert (Hne : b <> []) by (rewrite Eb; discriminate).
    destruct (tr_send_spec b w Ha Hne) as (n & w1 & E & Hn & Hs & Ha1 & Ho).
    unfold bind. rewrite E.
    destruct (n <? 0) eqn:E1; [apply Z.ltb_lt in E1; lia|]. destruct (n =? 0) eqn:E2; [apply Z.eqb_eq in E2; lia|].
    pose proof (firstn_skipn_len b n Hn) as Hlen.
    destruct (IH (skipn (Z.to_nat n) b) (tot + n) w1 ltac:(lia) Ha1) as (w2 & E3 & Hs2 & Ha2 & Hsb).
    exists w2. split.
    + rewrite E3. f_equal. unfold zlen. rewrite skipn_length. unfold zlen in Hn. lia.
    + split; [|split; [exact Ha2|]].
      * unfold same_but_out in *. intuition congruence.
      * rewrite <- (firstn_skipn (Z.to_nat n) b) at 1. eapply sent_between_trans; [|exact Hsb].
        exists [TSend (firstn (Z.to_nat n) b)]. split; [exact Ho|]. cbn. apply app_nil_r.
Qed.

Lemma send_pdu_spec b w :
  st (sk w) <> c_RTR_SHUTDOWN -> accepts_all w -> b <> [] ->
  exists w', send_pdu b w = Ok 0 w' /\ same_but_out w w' /\ accepts_all w' /\ sent_between w w' b.
Proof.
  intros Hst Ha Hb. unfold send_pdu, bind, get_sk.
  destruct (st (sk w) =? c_RTR_SHUTDOWN) eqn:E; [apply Z.eqb_eq in E; congruence|].
  unfold tr_send_all. destruct (tr_send_all_loop_spec (List.length b) b 0 w (le_n _) Ha) as (w' & E1 & H1 & H2 & H3).
  rewrite E1. exists w'. unfold ret. split; [|auto].
  pose proof (zlen_pos b Hb).
  destruct (0 + zlen b >? 0) eqn:Eg; [reflexivity|]. rewrite Z.gtb_ltb in Eg. apply Z.ltb_ge in Eg. lia.
Qed.

Lemma serial_query_bytes_eq s :
  [version s mod 256; c_SERIAL_QUERY] ++ enc16 (session_id s mod 65536) ++ enc32 12 ++ enc32 (serial s) = serial_query_bytes s.
Proof. reflexivity. Qed.
Lemma reset_query_bytes_eq s : [version s mod 256; c_RESET_QUERY] ++ enc16 0 ++ enc32 8 = reset_query_bytes s.
Proof. reflexivity. Qed.

(* C05 (1): the Serial Query carries the CURRENT session_id and serial_number, the Reset Query nothing *)
Theorem send_serial_query_bytes w :
  st (sk w) <> c_RTR_SHUTDOWN -> accepts_all w ->
  exists w', send_serial_query w = Ok 0 w' /\ same_but_out w w' /\ accepts_all w' /\
             sent_between w w' (serial_query_bytes (sk w)).
Proof.
  intros Hst Ha. unfold send_serial_query, bind, get_sk. rewrite serial_query_bytes_eq.
  destruct (send_pdu_spec (serial_query_bytes (sk w)) w Hst Ha ltac:(discriminate)) as (w' & E & H).
  rewrite E. exists w'. auto.
Qed.

Theorem send_reset_query_bytes w :
  st (sk w) <> c_RTR_SHUTDOWN -> accepts_all w ->
  exists w', send_reset_query w = Ok 0 w' /\ same_but_out w w' /\ accepts_all w' /\
             sent_between w w' (reset_query_bytes (sk w)).
Proof.
  intros Hst Ha. unfold send_reset_query, bind, get_sk. rewrite reset_query_bytes_eq.
  destruct (send_pdu_spec (reset_query_bytes (sk w)) w Hst Ha ltac:(discriminate)) as (w' & E & H).
  rewrite E. exists w'. auto.
Qed.


(* ---------- C05 (4): the frame ---------- *)
(* the session bookkeeping is untouched, or the socket will ask for a reset *)
Definition F (w w' : world) : Prop :=
  req_sess (sk w') = true \/
  (req_sess (sk w') = req_sess (sk w) /\ session_id (sk w') = session_id (sk w) /\ serial (sk w') = serial (sk w)).

Lemma F_refl w : F w w. Proof. unfold F; auto. Qed.
Lemma F_trans a b c : F a b -> F b c -> F a c.
Proof.
  unfold F. intros [A|(A1 & A2 & A3)] [B|(B1 & B2 & B3)]; auto.
  - left. congruence.
  - right. repeat split; congruence.
Qed.
Lemma L_F a b : L a b -> F a b.
Proof. intros (_ & _ & H). apply core_fields in H. unfold F. right. intuition auto. Qed.
Lemma M_F a b : M a b -> F a b.
Proof.
  intros (_ & _ & A3 & A4 & _ & A6). unfold F. destruct (req_sess (sk a)) eqn:E; [left; congruence|right; auto].
Qed.

(* what the next query will be is then the same, or a Reset Query *)
Lemma F_next_query w w' : F w w' -> next_query (sk w') = next_query (sk w) \/ next_query (sk w') = QReset.
Proof.
  unfold F, next_query. intros [H|(H1 & H2 & H3)]; [right; now rewrite H|left; now rewrite H1, H2, H3].
Qed.

Notation relF := (rel F).
Ltac ffin :=
  unfold F;
  cbn [sk pfx keys st version session_id req_sess serial last_update refresh_iv expire_iv retry_iv iv_mode has_recv resetting
       upd_st upd_version upd_session upd_req upd_serial upd_last upd_ivs upd_hasrecv upd_resetting];
  try (right; repeat split; reflexivity); try (left; reflexivity).
Ltac fprim := unfold rel; unfold_prims; ffin.

Ltac flem :=
  match goal with
  | |- relF (change_state _) _ => apply (rel_mono L F _ _ L_F), (okrel_rel L), change_state_okL
  | |- relF (send_error_pdu _ _ _) _ => apply (rel_mono L F _ _ L_F), (okrel_rel L), send_error_pdu_okL
  | |- relF (send_error_from_host _ _ _) _ => apply (rel_mono L F _ _ L_F), (okrel_rel L), send_error_from_host_okL
  | |- relF (send_serial_query) _ => apply (rel_mono L F _ _ L_F), (okrel_rel L), send_serial_query_okL
  | |- relF (send_reset_query) _ => apply (rel_mono L F _ _ L_F), (okrel_rel L), send_reset_query_okL
  | |- relF (recv_err _) _ => apply (rel_mono L F _ _ L_F), (okrel_rel L), recv_err_okL
  | |- relF (handle_error_pdu _) _ => apply (rel_mono L F _ _ L_F), (okrel_rel L), handle_error_pdu_okL
  | |- relF (report_update_failure _ _ _) _ => apply (rel_mono L F _ _ L_F), (okrel_rel L), report_update_failure_okL
  | |- relF (tr_recv_all _ _) _ => apply (rel_mono L F _ _ L_F), tr_recv_all_L
  | |- relF (tr_open) _ => apply (rel_mono L F _ _ L_F), tr_open_L
  | |- relF (receive_pdu _) _ => apply (rel_mono L F _ _ L_F), receive_pdu_L
  | |- relF (wait_for_sync) _ => apply (rel_mono L F _ _ L_F), wait_for_sync_L
  end.

Ltac fstepF :=
  match goal with
  | |- relF (ret _) _ => apply (rel_ret F F_refl)
  | |- relF (bind get_sk _) ?w => apply (rel_bind F F_trans); [fprim | let H := fresh "Heq" in intros ? ? H; unfold_prims_in H; injection H as <- <-]
  | |- relF (bind get_now _) ?w => apply (rel_bind F F_trans); [fprim | let H := fresh "Heq" in intros ? ? H; unfold_prims_in H; injection H as <- <-]
  | |- relF (bind get_w _) ?w => apply (rel_bind F F_trans); [fprim | let H := fresh "Heq" in intros ? ? H; unfold_prims_in H; injection H as <- <-]
  | |- relF (bind _ _) ?w => apply (rel_bind F F_trans); [ | intros ? ? ?Heq]
  | |- relF (if ?c then _ else _) _ => destruct c eqn:?
  | |- relF (match ?x with _ => _ end) _ => destruct x eqn:?
  | |- relF ((fun _ => _) _) _ => cbv beta
  | |- relF (let _ := _ in _) _ => cbv zeta
  end.

Lemma src_remove_all_F w : relF src_remove_all w.
Proof. unfold src_remove_all. repeat fstepF; try fprim. Qed.
Lemma purge_after_failed_undo_F w : relF purge_after_failed_undo w.
Proof. unfold purge_after_failed_undo. repeat fstepF; try apply src_remove_all_F; try fprim. Qed.
Lemma purge_outdated_F w : relF purge_outdated w.
Proof. unfold purge_outdated. repeat fstepF; try apply src_remove_all_F; try fprim. Qed.
Lemma rtr_stop_F w : relF rtr_stop w.
Proof. unfold rtr_stop. repeat fstepF; try flem; try apply src_remove_all_F; try (fprim; fail). Qed.
Lemma dump_F tag w : relF (dump tag) w.
Proof. unfold rel, dump. unfold_prims. ffin. Qed.

(* result-dependent part: everything but the successful branch *)
Notation crelF := (crel F (fun r : Z => r <> 0)).

Lemma apply_eod_intervals_F s p :
  req_sess (apply_eod_intervals s p) = req_sess s /\ session_id (apply_eod_intervals s p) = session_id s /\
  serial (apply_eod_intervals s p) = serial s.
Proof. destruct (apply_eod_intervals_core s p) as (A & B & C & _). auto. Qed.

Ltac cstepF :=
  match goal with
  | |- crelF (ret _) _ => first [ solve [unfold crel, ret; intros _; apply F_refl] ]
  | |- crelF (bind get_sk _) ?w => apply (crel_bind F F_trans); [fprim | let H := fresh "Heq" in intros ? ? H; unfold_prims_in H; injection H as <- <-]
  | |- crelF (bind get_w _) ?w => apply (crel_bind F F_trans); [fprim | let H := fresh "Heq" in intros ? ? H; unfold_prims_in H; injection H as <- <-]
  | |- crelF (bind (modify_sk (fun s => upd_serial s _)) (fun _ => ret 0)) _ =>
      unfold crel; unfold_prims; let H := fresh in intros H; exfalso; apply H; reflexivity
  | |- crelF (bind _ _) ?w => apply (crel_bind F F_trans); [ | intros ? ? ?Heq]
  | |- crelF (if ?c then _ else _) _ => destruct c eqn:?
  | |- crelF (match ?x with _ => _ end) _ => destruct x eqn:?
  | |- crelF ((fun _ => _) _) _ => cbv beta
  | |- crelF (let _ := _ in _) _ => cbv zeta
  end.

Lemma process_eod_F p v4 v6 ks w : crelF (process_eod p v4 v6 ks) w.
Proof.
  unfold process_eod.
  repeat cstepF; try flem; try apply purge_after_failed_undo_F; try (fprim; fail).
  all: try (unfold rel; unfold_prims; unfold F; cbn [sk]; right; apply apply_eod_intervals_F).
  all: try (repeat fstepF; try flem; try (fprim; fail)).
Qed.

Lemma store_loop_F fuel : forall v4 v6 ks w, crelF (store_loop fuel v4 v6 ks) w.
Proof.
  induction fuel as [|f IH]; intros; cbn [store_loop]; [unfold crel, ret; intros _; apply F_refl|].
  repeat cstepF; try flem; try apply IH; try apply process_eod_F.
Qed.

Lemma receive_and_store_F fuel w : crelF (receive_and_store fuel) w.
Proof.
  unfold crel. rewrite receive_and_store_eq. pose proof (store_loop_F fuel [] [] [] w) as H. unfold crel in H.
  destruct (store_loop fuel [] [] [] w) as [r w1|e w1]; [|exact H].
  intros Hr. eapply F_trans; [exact (H Hr)|].
  pose proof (clear_resetting_facts w1) as (_ & _ & _ & A1 & A2 & A3 & _). unfold F. right. auto.
Qed.

Lemma sync_first_F fuel w : relF (sync_first fuel) w.
Proof.
  apply (rel_mono L F _ _ L_F). unfold rel. pose proof (sync_first_spec fuel w) as H. unfold post in H.
  destruct (sync_first fuel w); [exact (proj1 H)|exact H].
Qed.

Lemma sync_tail_F fuel w :
  crelF (mdo r <- receive_and_store fuel;
         if r =? 0 then mdo _ <- modify_sk (fun s => upd_req s false); mdo t <- get_now;
                        mdo _ <- modify_sk (fun s => upd_last s t); ret 0
         else ret (-1)) w.
Proof.
  unfold crel. unfold bind at 1. pose proof (receive_and_store_F fuel w) as H. unfold crel in H.
  destruct (receive_and_store fuel w) as [r w1|e w1]; [|exact H].
  destruct (r =? 0) eqn:E.
  - unfold_prims. intros Hc. exfalso. apply Hc. reflexivity.
  - unfold ret. intros _. apply H. now apply Z.eqb_neq.
Qed.

Lemma rtr_sync_F fuel w : crelF (rtr_sync fuel) w.
Proof.
  unfold rtr_sync.
  repeat (first [ match goal with |- crelF (bind (receive_and_store _) _) _ => apply sync_tail_F end | cstepF ]);
    try flem; try apply sync_first_F.
  all: repeat fstepF; try flem; try (fprim; fail).
  all: unfold rel; unfold_prims; unfold F; cbn [sk req_sess upd_session upd_resetting]; left;
       destruct (negb _); cbn [req_sess upd_resetting]; assumption.
Qed.

(* one iteration of the state machine is a successful synchronisation *)
Definition step_succ (fuel : nat) (w : world) : bool :=
  (st (sk w) =? c_RTR_SYNC) && match rtr_sync fuel w with Ok r _ => r =? 0 | Exc _ _ => false end.

Lemma fsm_step_F fuel w : step_succ fuel w = false -> relF (fsm_step fuel) w.
Proof.
  intros Hs. unfold fsm_step.
  repeat (lazymatch goal with |- relF (bind (rtr_sync _) _) _ => fail | _ => fstepF end);
    try flem; try apply purge_outdated_F; try (fprim; fail).
  (* state SYNC *)
  unfold step_succ in Hs.
  match goal with H : (st (sk w) =? c_RTR_SYNC) = true |- _ => rewrite H in Hs end. cbn [andb] in Hs.
  unfold rel. unfold bind at 1. pose proof (rtr_sync_F fuel w) as HF. unfold crel in HF.
  destruct (rtr_sync fuel w) as [r w1|e w1]; [|exact HF].
  rewrite Hs. unfold ret. apply HF. now apply Z.eqb_neq.
Qed.

Definition stop_restart : world -> res unit :=
  mdo _ <- rtr_stop; mdo _ <- dump 1; modify_sk (fun s => upd_st s c_RTR_CONNECTING).

Lemma stop_restart_F w : relF stop_restart w.
Proof. unfold stop_restart. repeat fstepF; try apply rtr_stop_F; try apply dump_F; try (fprim; fail). Qed.

(* no iteration of the first n is a successful synchronisation *)
Fixpoint quiet (n fuel : nat) (w : world) : Prop :=
  match n with
  | O => True
  | S n' =>
    step_succ fuel w = false /\
    match fsm_step fuel w with
    | Ok _ w' => quiet n' fuel w'
    | Exc (XEnd _) _ => True
    | Exc XStop w' => match stop_restart w' with Ok _ w2 => quiet n' fuel w2 | Exc _ _ => True end
    end
  end.

Theorem run_fsm_F n fuel : forall w, quiet n fuel w -> F w (run_fsm n fuel w).
Proof.
  induction n as [|n IH]; intros w Hq; cbn [run_fsm]; [apply F_refl|].
  destruct Hq as [Hs Hq]. pose proof (fsm_step_F fuel w Hs) as H. unfold rel in H.
  destruct (fsm_step fuel w) as [[] w'|[why|] w'].
  - eapply F_trans; [exact H|apply IH; exact Hq].
  - exact H.
  - pose proof (stop_restart_F w') as Hr. unfold rel in Hr. unfold stop_restart in *.
    destruct ((mdo _ <- rtr_stop; mdo _ <- dump 1; modify_sk (fun s => upd_st s c_RTR_CONNECTING)) w') as [[] w2|e w2].
    + eapply F_trans; [exact H|]. eapply F_trans; [exact Hr|apply IH; exact Hq].
    + eapply F_trans; eauto.
Qed.

(* ---------- C05 (5): what makes the next query a Reset Query ---------- *)
Definition reset_pending (w : world) : Prop := req_sess (sk w) = true /\ serial (sk w) = 0.

Lemma purge_outdated_keeps_reset w : reset_pending w -> post purge_outdated w (fun _ w' => reset_pending w') (fun _ _ => False).
Proof.
  intros [H1 H2]. unfold purge_outdated, post, bind, get_sk, get_now.
  destruct (last_update (sk w) =? 0); [unfold ret; split; assumption|].
  destruct (last_update (sk w) + expire_iv (sk w) <? now w); [|unfold ret; split; assumption].
  destruct (src_remove_all_spec w) as (w1 & E & _ & _ & E3). rewrite E.
  unfold modify_sk, bind, get_sk, set_sk. unfold reset_pending. cbn [sk req_sess serial upd_resetting upd_last upd_serial upd_req]. auto.
Qed.

(* expiry: the records are older than expire_interval when the socket (re)connects *)
Theorem purge_outdated_fires w :
  last_update (sk w) <> 0 -> last_update (sk w) + expire_iv (sk w) < now w ->
  exists w', purge_outdated w = Ok tt w' /\ reset_pending w' /\ own_p (pfx w') = [] /\ own_k (keys w') = [] /\
             oth_p (pfx w') = oth_p (pfx w) /\ oth_k (keys w') = oth_k (keys w) /\
             last_update (sk w') = 0 /\ resetting (sk w') = true.
Proof.
  intros H1 H2. unfold purge_outdated, bind, get_sk, get_now.
  destruct (last_update (sk w) =? 0) eqn:E0; [apply Z.eqb_eq in E0; congruence|].
  destruct (last_update (sk w) + expire_iv (sk w) <? now w) eqn:E1; [|apply Z.ltb_ge in E1; lia].
  destruct (src_remove_all_spec w) as (w1 & E & P1 & P2 & E3). rewrite E.
  unfold modify_sk, bind, get_sk, set_sk. eexists. split; [reflexivity|].
  unfold reset_pending. cbn [sk pfx keys req_sess serial last_update resetting upd_resetting upd_last upd_serial upd_req].
  rewrite P1, P2. unfold own_p, oth_p, own_k, oth_k. rewrite !own_oth_nil, !oth_oth. auto 10.
Qed.

(* a Cache Reset answer: state ERROR_NO_INCR_UPDATE_AVAIL, whose handler asks for a new session *)
Theorem fsm_no_incr_resets fuel w :
  st (sk w) = c_RTR_ERROR_NO_INCR_UPDATE_AVAIL ->
  exists w', fsm_step fuel w = Ok tt w' /\ reset_pending w' /\ st (sk w') = c_RTR_RESET.
Proof.
  intros Hst. unfold fsm_step, bind at 1, get_sk. rewrite Hst. cbn [Z.eqb Pos.eqb c_RTR_ERROR_NO_INCR_UPDATE_AVAIL c_RTR_CONNECTING c_RTR_RESET c_RTR_SYNC c_RTR_ESTABLISHED c_RTR_FAST_RECONNECT c_RTR_ERROR_NO_DATA_AVAIL].
  unfold bind at 1, set_sk. unfold bind at 1, change_state, bind at 1, get_sk. cbn [sk st upd_serial upd_req].
  rewrite Hst. cbn [Z.eqb Pos.eqb c_RTR_ERROR_NO_INCR_UPDATE_AVAIL c_RTR_RESET c_RTR_SHUTDOWN].
  unfold bind at 1, set_sk, emit. cbn [sk pfx keys evs opens sends now out].
  match goal with |- exists w', purge_outdated ?x = _ /\ _ => set (w1 := x) end.
  assert (R1 : reset_pending w1) by (unfold reset_pending, w1; cbn; auto).
  pose proof (purge_outdated_keeps_reset w1 R1) as HP. unfold post in HP.
  assert (S1 : st (sk w1) = c_RTR_RESET) by reflexivity.
  assert (HS : post purge_outdated w1 (fun _ w' => st (sk w') = st (sk w1)) (fun _ _ => True)).
  { unfold purge_outdated, post, bind, get_sk, get_now.
    destruct (last_update (sk w1) =? 0); [reflexivity|]. destruct (_ <? _); [|reflexivity].
    destruct (src_remove_all_spec w1) as (w2 & E & _ & _ & E3). rewrite E. unfold modify_sk, bind, get_sk, set_sk. cbn. now rewrite E3. }
  unfold post in HS. destruct (purge_outdated w1) as [[] w'|]; [|contradiction].
  exists w'. repeat split; try apply HP. congruence.
Qed.

(* a "no data available" error report: state ERROR_NO_DATA_AVAIL, same handler plus the retry sleep *)
Theorem fsm_no_data_resets fuel w :
  st (sk w) = c_RTR_ERROR_NO_DATA_AVAIL ->
  exists w', fsm_step fuel w = Ok tt w' /\ reset_pending w' /\ st (sk w') = c_RTR_RESET.
Proof.
  intros Hst. unfold fsm_step, bind at 1, get_sk. rewrite Hst. cbn [Z.eqb Pos.eqb c_RTR_ERROR_NO_INCR_UPDATE_AVAIL c_RTR_CONNECTING c_RTR_RESET c_RTR_SYNC c_RTR_ESTABLISHED c_RTR_FAST_RECONNECT c_RTR_ERROR_NO_DATA_AVAIL].
  unfold bind at 1, set_sk. unfold bind at 1, change_state, bind at 1, get_sk. cbn [sk st upd_serial upd_req].
  rewrite Hst. cbn [Z.eqb Pos.eqb c_RTR_ERROR_NO_DATA_AVAIL c_RTR_RESET c_RTR_SHUTDOWN].
  unfold bind at 1, set_sk, emit. cbn [sk pfx keys evs opens sends now out].
  unfold bind at 1, do_sleep. cbn [sk pfx keys evs opens sends now out].
  match goal with |- exists w', purge_outdated ?x = _ /\ _ => set (w1 := x) end.
  assert (R1 : reset_pending w1) by (unfold reset_pending, w1; cbn; auto).
  pose proof (purge_outdated_keeps_reset w1 R1) as HP. unfold post in HP.
  assert (HS : post purge_outdated w1 (fun _ w' => st (sk w') = st (sk w1)) (fun _ _ => True)).
  { unfold purge_outdated, post, bind, get_sk, get_now.
    destruct (last_update (sk w1) =? 0); [reflexivity|]. destruct (_ <? _); [|reflexivity].
    destruct (src_remove_all_spec w1) as (w2 & E & _ & _ & E3). rewrite E. unfold modify_sk, bind, get_sk, set_sk. cbn. now rewrite E3. }
  unfold post in HS. destruct (purge_outdated w1) as [[] w'|]; [|contradiction].
  exists w'. repeat split; try apply HP. rewrite HS. reflexivity.
Qed.

(* rtr_stop *)
Theorem rtr_stop_resets w :
  exists w', rtr_stop w = Ok tt w' /\ reset_pending w' /\ own_p (pfx w') = [] /\ own_k (keys w') = [] /\
             oth_p (pfx w') = oth_p (pfx w) /\ oth_k (keys w') = oth_k (keys w) /\ last_update (sk w') = 0.
Proof.
  unfold rtr_stop. unfold bind at 1, emit.
  destruct (okrel_inv L (change_state c_RTR_SHUTDOWN) _ (change_state_okL c_RTR_SHUTDOWN
             (mkW (sk w) (pfx w) (keys w) (evs w) (opens w) (sends w) (now w) (TStopping :: out w)))) as ([] & w1 & E1 & (P1 & K1 & _)).
  unfold bind at 1. rewrite E1. cbn [pfx keys] in P1, K1.
  unfold bind at 1, tr_close, emit. unfold bind at 1, modify_sk, bind at 1, get_sk, set_sk.
  cbn [sk pfx keys evs opens sends now out].
  match goal with |- exists w', bind src_remove_all _ ?x = _ /\ _ => set (w2 := x) end.
  destruct (src_remove_all_spec w2) as (w3 & E & Q1 & Q2 & Q3). unfold bind at 1. rewrite E.
  unfold bind, get_sk, set_sk. eexists. split; [reflexivity|].
  unfold reset_pending. cbn [sk pfx keys]. rewrite Q1, Q2, Q3. unfold w2. cbn [sk pfx keys req_sess serial last_update upd_st upd_last upd_serial upd_req].
  rewrite P1, K1. unfold own_p, oth_p, own_k, oth_k. rewrite !own_oth_nil, !oth_oth. auto 10.
Qed.

(* ---------- state changes ---------- *)
Lemma change_state_spec ns w :
  st (sk w) <> c_RTR_SHUTDOWN ->
  exists w', change_state ns w = Ok tt w' /\ st (sk w') = ns /\ L w w' /\ sends w' = sends w /\
             sent_between w w' [] /\ now w' = now w /\ evs w' = evs w /\ opens w' = opens w /\ version (sk w') = version (sk w).
Proof.
  intros Hst. unfold change_state, bind, get_sk.
  destruct (st (sk w) =? ns) eqn:E1.
  - apply Z.eqb_eq in E1. exists w. unfold ret. repeat split; auto. apply sent_between_refl.
  - destruct (st (sk w) =? c_RTR_SHUTDOWN) eqn:E2; [apply Z.eqb_eq in E2; congruence|].
    unfold set_sk, emit. eexists. split; [reflexivity|]. cbn [sk pfx keys sends now evs opens out st upd_st version].
    repeat split; auto. exists [TState ns]. auto.
Qed.

(* ---------- C05 (2): which query is sent ---------- *)
(* state RESET: a Reset Query *)
Theorem fsm_reset_sends_reset_query fuel w :
  st (sk w) = c_RTR_RESET -> accepts_all w ->
  exists w', fsm_step fuel w = Ok tt w' /\ sent_between w w' (reset_query_bytes (sk w)) /\
             st (sk w') = c_RTR_SYNC /\ L w w'.
Proof.
  intros Hst Ha. unfold fsm_step, bind at 1, get_sk. rewrite Hst.
  cbn [Z.eqb Pos.eqb c_RTR_CONNECTING c_RTR_RESET].
  assert (Hns : st (sk w) <> c_RTR_SHUTDOWN) by (rewrite Hst; discriminate).
  destruct (send_reset_query_bytes w Hns Ha) as (w1 & E1 & (S1 & S2 & S3 & _) & A1 & B1).
  unfold bind at 1. rewrite E1. cbn [Z.eqb].
  assert (Hns1 : st (sk w1) <> c_RTR_SHUTDOWN) by (rewrite S1; exact Hns).
  destruct (change_state_spec c_RTR_SYNC w1 Hns1) as (w' & E2 & T1 & T2 & _ & T3 & _).
  exists w'. split; [exact E2|]. split; [|split; [exact T1|]].
  - rewrite <- (app_nil_r (reset_query_bytes (sk w))). eapply sent_between_trans; eauto.
  - eapply L_trans; [|exact T2]. unfold L. rewrite S1, S2, S3. auto.
Qed.

Definition expired (w : world) : bool :=
  negb (last_update (sk w) =? 0) && (last_update (sk w) + expire_iv (sk w) <? now w).

(* state CONNECTING, the transport opens, a session is held and the data has not expired: that Serial Query *)
Theorem fsm_connecting_sends_serial_query fuel w os :
  st (sk w) = c_RTR_CONNECTING -> opens w = true :: os -> accepts_all w ->
  req_sess (sk w) = false -> expired w = false ->
  exists w', fsm_step fuel w = Ok tt w' /\ sent_between w w' (serial_query_bytes (sk w)) /\
             st (sk w') = c_RTR_SYNC /\ L w w'.
Proof.
  intros Hst Hop Ha Hrq Hex. unfold fsm_step, bind at 1, get_sk. rewrite Hst. cbn [Z.eqb c_RTR_CONNECTING].
  unfold bind at 1, set_sk. unfold bind at 1.
  set (w0 := mkW (upd_hasrecv (sk w) false) (pfx w) (keys w) (evs w) (opens w) (sends w) (now w) (out w)).
  assert (Hp : purge_outdated w0 = Ok tt w0).
  { unfold purge_outdated, bind, get_sk, get_now. unfold expired in Hex. unfold w0. cbn [sk last_update expire_iv upd_hasrecv now].
    destruct (last_update (sk w) =? 0); [reflexivity|]. cbn [negb andb] in Hex. now rewrite Hex. }
  rewrite Hp. unfold bind at 1, tr_open. unfold w0 at 1. cbn [opens]. rewrite Hop. cbn [negb].
  unfold bind at 1, get_sk. unfold w0. cbn [sk pfx keys evs opens sends now out req_sess upd_hasrecv]. rewrite Hrq.
  match goal with |- exists w', bind send_serial_query _ ?x = _ /\ _ => set (w1 := x) end.
  assert (Hns : st (sk w1) <> c_RTR_SHUTDOWN) by (unfold w1; cbn [sk st upd_hasrecv]; rewrite Hst; discriminate).
  assert (Ha1 : accepts_all w1) by exact Ha.
  destruct (send_serial_query_bytes w1 Hns Ha1) as (w2 & E1 & (S1 & S2 & S3 & _) & A1 & B1).
  unfold bind at 1. rewrite E1. cbn [Z.eqb].
  assert (Hns2 : st (sk w2) <> c_RTR_SHUTDOWN) by (rewrite S1; exact Hns).
  destruct (change_state_spec c_RTR_SYNC w2 Hns2) as (w' & E2 & T1 & T2 & _ & T3 & _).
  exists w'. split; [exact E2|]. split; [|split; [exact T1|]].
  - rewrite <- (app_nil_r (serial_query_bytes (sk w))).
    eapply sent_between_trans; [|exact T3].
    change (serial_query_bytes (sk w)) with ([] ++ serial_query_bytes (sk w1)).
    eapply sent_between_trans; [|exact B1]. exists [TOpen true (now w)]. auto.
  - eapply L_trans; [|exact T2]. unfold L. rewrite S1, S2, S3. unfold w1. cbn. auto.
Qed.

(* state CONNECTING, no session held or the data expired: no query in this iteration, next state RESET
   (whose only action is the Reset Query) *)
Theorem fsm_connecting_goes_to_reset fuel w os :
  st (sk w) = c_RTR_CONNECTING -> opens w = true :: os ->
  req_sess (sk w) = true \/ expired w = true ->
  exists w', fsm_step fuel w = Ok tt w' /\ sent_between w w' [] /\ st (sk w') = c_RTR_RESET /\ req_sess (sk w') = true.
Proof.
  intros Hst Hop Hc. unfold fsm_step, bind at 1, get_sk. rewrite Hst. cbn [Z.eqb c_RTR_CONNECTING].
  unfold bind at 1, set_sk. unfold bind at 1.
  set (w0 := mkW (upd_hasrecv (sk w) false) (pfx w) (keys w) (evs w) (opens w) (sends w) (now w) (out w)).
  assert (Hp : exists w1, purge_outdated w0 = Ok tt w1 /\ req_sess (sk w1) = true /\ st (sk w1) = c_RTR_CONNECTING /\
                          opens w1 = opens w /\ sent_between w w1 [] /\ now w1 = now w).
  { unfold purge_outdated, bind, get_sk, get_now.
    assert (Hnf : req_sess (sk w) = true -> exists w1, ret tt w0 = Ok tt w1 /\ req_sess (sk w1) = true /\ st (sk w1) = c_RTR_CONNECTING /\
                          opens w1 = opens w /\ sent_between w w1 [] /\ now w1 = now w).
    { intros H. exists w0. unfold w0. cbn [ret sk pfx keys evs opens sends now out req_sess st upd_hasrecv].
      repeat split; auto. exists []. auto. }
    unfold expired in Hc. unfold w0 at 1 2 3 4. cbn [sk last_update expire_iv upd_hasrecv now].
    destruct (last_update (sk w) =? 0) eqn:E0.
    { destruct Hc as [Hc|Hc]; [auto|cbn in Hc; discriminate]. }
    destruct (last_update (sk w) + expire_iv (sk w) <? now w) eqn:E1.
    2:{ destruct Hc as [Hc|Hc]; [auto|cbn in Hc; discriminate]. }
    unfold src_remove_all, modify_sk. unfold_prims. eexists. split; [reflexivity|]. unfold w0.
    cbn [sk pfx keys evs opens sends now out req_sess st upd_hasrecv upd_resetting upd_last upd_serial upd_req].
    repeat split; auto.
    eapply sent_between_nosend; [cbn [out]; rewrite app_assoc; reflexivity|].
    apply Forall_app. split; apply Forall_rev; [apply nosend_map_key|apply nosend_map_pfx]. }
  destruct Hp as (w1 & Hp & R1 & S1 & O1 & U1 & N1). rewrite Hp.
  unfold bind at 1, tr_open. rewrite O1, Hop. cbn [negb]. unfold bind at 1, get_sk. cbn [sk]. rewrite R1.
  match goal with |- exists w', change_state _ ?x = _ /\ _ => set (w2 := x) end.
  assert (Hns : st (sk w2) <> c_RTR_SHUTDOWN) by (unfold w2; cbn [sk]; rewrite S1; discriminate).
  destruct (change_state_spec c_RTR_RESET w2 Hns) as (w' & E2 & T1 & (_ & _ & T2) & _ & T3 & _).
  exists w'. split; [exact E2|]. split; [|split; [exact T1|]].
  - change (@nil byte) with (@nil byte ++ [] ++ []). eapply sent_between_trans; [exact U1|].
    eapply sent_between_trans; [|exact T3]. exists [TOpen true (now w1)]. unfold w2. cbn [out]. auto.
  - apply core_fields in T2. destruct T2 as (_ & T2 & _). rewrite T2. exact R1.
Qed.

(* state ESTABLISHED, after a Serial Notify or the refresh timeout: that Serial Query *)
Theorem fsm_established_sends_serial_query fuel w w1 :
  st (sk w) = c_RTR_ESTABLISHED -> wait_for_sync w = Ok 0 w1 ->
  st (sk w1) <> c_RTR_SHUTDOWN -> accepts_all w1 ->
  exists w', fsm_step fuel w = Ok tt w' /\ sent_between w1 w' (serial_query_bytes (sk w1)) /\
             session_id (sk w1) = session_id (sk w) /\ serial (sk w1) = serial (sk w) /\ L w w'.
Proof.
  intros Hst Hw Hns Ha. unfold fsm_step, bind at 1, get_sk. rewrite Hst.
  cbn [Z.eqb Pos.eqb c_RTR_CONNECTING c_RTR_RESET c_RTR_SYNC c_RTR_ESTABLISHED].
  unfold bind at 1. rewrite Hw. cbn [Z.eqb].
  pose proof (wait_for_sync_L w) as HL. unfold rel in HL. rewrite Hw in HL.
  destruct (send_serial_query_bytes w1 Hns Ha) as (w2 & E1 & (S1 & S2 & S3 & _) & A1 & B1).
  unfold bind at 1. rewrite E1. cbn [Z.eqb].
  assert (Hns2 : st (sk w2) <> c_RTR_SHUTDOWN) by (rewrite S1; exact Hns).
  destruct (change_state_spec c_RTR_SYNC w2 Hns2) as (w' & E2 & T1 & T2 & _ & T3 & _).
  exists w'. split; [exact E2|]. split.
  - rewrite <- (app_nil_r (serial_query_bytes (sk w1))). eapply sent_between_trans; eauto.
  - pose proof HL as (_ & _ & HC). apply core_fields in HC. destruct HC as (C1 & _ & C3 & _).
    split; [exact C1|]. split; [exact C3|].
    eapply L_trans; [exact HL|]. eapply L_trans; [|exact T2]. unfold L. rewrite S1, S2, S3. auto.
Qed.

(* a fresh socket has no session: its first query is a Reset Query (by the two theorems above) *)
Lemma init_sock_requests_session r e t m : req_sess (init_sock r e t m) = true /\ serial (init_sock r e t m) = 0.
Proof. split; reflexivity. Qed.

(* ---------- how the two error states are reached ---------- *)
Lemma type_tests p t : nthb p 1 = t -> forall c, (nthb p 1 =? c) = (t =? c).
Proof. intros ->. reflexivity. Qed.

(* a Cache Reset as answer *)
Theorem rtr_sync_cache_reset fuel w p w1 :
  sync_first fuel w = Ok (Some p) w1 -> nthb p 1 = c_CACHE_RESET -> st (sk w1) <> c_RTR_SHUTDOWN ->
  exists w', rtr_sync fuel w = Ok (-1) w' /\ st (sk w') = c_RTR_ERROR_NO_INCR_UPDATE_AVAIL /\ L w w'.
Proof.
  intros Hsf Hty Hns. unfold rtr_sync, bind at 1. rewrite Hsf. cbv zeta.
  rewrite !(type_tests p _ Hty). cbn [Z.eqb Pos.eqb c_CACHE_RESET c_ERROR c_CACHE_RESPONSE].
  destruct (change_state_spec c_RTR_ERROR_NO_INCR_UPDATE_AVAIL w1 Hns) as (w' & E & T1 & T2 & _).
  unfold bind. rewrite E. exists w'. split; [reflexivity|]. split; [exact T1|].
  destruct (post_ok _ _ _ _ _ _ (sync_first_spec fuel w) Hsf) as [HL _]. eapply L_trans; eauto.
Qed.

(* an Error Report "no data available" as answer *)
Theorem rtr_sync_no_data fuel w p w1 :
  sync_first fuel w = Ok (Some p) w1 -> nthb p 1 = c_ERROR -> get16 p 2 = c_NO_DATA_AVAIL -> st (sk w1) <> c_RTR_SHUTDOWN ->
  exists w', rtr_sync fuel w = Ok (-1) w' /\ st (sk w') = c_RTR_ERROR_NO_DATA_AVAIL /\ L w w'.
Proof.
  intros Hsf Hty Hcode Hns. unfold rtr_sync, bind at 1. rewrite Hsf. cbv zeta.
  rewrite !(type_tests p _ Hty). cbn [Z.eqb Pos.eqb c_ERROR].
  unfold handle_error_pdu. rewrite Hcode. cbn [Z.eqb Pos.eqb c_NO_DATA_AVAIL].
  destruct (change_state_spec c_RTR_ERROR_NO_DATA_AVAIL w1 Hns) as (w' & E & T1 & T2 & _).
  unfold bind. rewrite E. exists w'. split; [reflexivity|]. split; [exact T1|].
  destruct (post_ok _ _ _ _ _ _ (sync_first_spec fuel w) Hsf) as [HL _]. eapply L_trans; eauto.
Qed.

(* ---------- C05 (6): foreign sessions ---------- *)
(* an Error Report that encapsulates no PDU *)
Definition error_report_nopdu (s : sock) (code : Z) (text : list byte) : list byte :=
  [version s mod 256; c_ERROR] ++ enc16 code ++ enc32 (16 + 0 + zlen text) ++ enc32 0 ++ [] ++ enc32 (zlen text) ++ text.
Definition wrong_session_report (s : sock) : list byte := error_report_nopdu s c_CORRUPT_DATA txt_wrong_session.

Lemma send_error_nopdu_spec code text w :
  st (sk w) <> c_RTR_SHUTDOWN -> accepts_all w ->
  exists w', send_error_from_host [] code text w = Ok 0 w' /\ same_but_out w w' /\ accepts_all w' /\
             sent_between w w' (error_report_nopdu (sk w) code text).
Proof.
  intros Hns Ha. unfold send_error_from_host. change (zlen (@nil byte) =? 0) with true. cbv iota.
  unfold send_error_pdu, bind, get_sk. change (2 <=? zlen (@nil byte)) with false. cbn [andb].
  change (zlen (@nil byte)) with 0. fold (error_report_nopdu (sk w) code text).
  apply send_pdu_spec; auto. discriminate.
Qed.

Theorem rtr_sync_foreign_cache_response fuel w p w1 :
  sync_first fuel w = Ok (Some p) w1 -> nthb p 1 = c_CACHE_RESPONSE ->
  req_sess (sk w) = false -> get16 p 2 <> session_id (sk w) ->
  st (sk w1) <> c_RTR_SHUTDOWN -> accepts_all w1 ->
  exists w', rtr_sync fuel w = Ok (-1) w' /\ st (sk w') = c_RTR_ERROR_FATAL /\ L w w' /\
             sent_between w1 w' (wrong_session_report (sk w1)).
Proof.
  intros Hsf Hty Hrq Hsid Hns Ha. unfold rtr_sync, bind at 1. rewrite Hsf. cbv zeta.
  destruct (post_ok _ _ _ _ _ _ (sync_first_spec fuel w) Hsf) as [HL _].
  pose proof HL as (_ & _ & HC). apply core_fields in HC. destruct HC as (C1 & C2 & _).
  rewrite !(type_tests p _ Hty). cbn [Z.eqb Pos.eqb c_CACHE_RESPONSE c_ERROR c_CACHE_RESET].
  unfold bind at 1, get_sk. rewrite C2, Hrq.
  destruct (negb (session_id (sk w1) =? get16 p 2)) eqn:E.
  2:{ apply negb_false_iff, Z.eqb_eq in E. congruence. }
  destruct (send_error_nopdu_spec c_CORRUPT_DATA txt_wrong_session w1 Hns Ha) as (w2 & E1 & (S1 & S2 & S3 & _) & A1 & B1).
  assert (Hns2 : st (sk w2) <> c_RTR_SHUTDOWN) by (rewrite S1; exact Hns).
  destruct (change_state_spec c_RTR_ERROR_FATAL w2 Hns2) as (w' & E2 & T1 & T2 & _ & T3 & _).
  unfold bind. rewrite E1, E2. unfold ret. cbn [negb].
  exists w'. split; [reflexivity|]. split; [exact T1|]. split.
  - eapply L_trans; [exact HL|]. eapply L_trans; [|exact T2]. unfold L. rewrite S1, S2, S3. auto.
  - unfold wrong_session_report. rewrite <- (app_nil_r (error_report_nopdu _ _ _)). eapply sent_between_trans; eauto.
Qed.

(* an End of Data of another session: -1, nothing applied *)
Theorem process_eod_foreign p v4 v6 ks w :
  get16 p 2 <> session_id (sk w) ->
  exists w', process_eod p v4 v6 ks w = Ok (-1) w' /\ L w w'.
Proof.
  intros Hs. unfold process_eod, bind at 1, get_sk.
  destruct (negb (get16 p 2 =? session_id (sk w))) eqn:E.
  2:{ apply negb_false_iff, Z.eqb_eq in E. congruence. }
  destruct (okrel_inv L _ w (send_error_from_host_okL p c_CORRUPT_DATA (txt_eod_session (session_id (sk w)) (get16 p 2)) w))
    as (a & w1 & E1 & L1).
  destruct (okrel_inv L _ w1 (change_state_okL c_RTR_ERROR_FATAL w1)) as (b & w2 & E2 & L2).
  unfold bind. rewrite E1, E2. exists w2. split; [reflexivity|eapply L_trans; eauto].
Qed.

(* ---------- C05 (3): after a successful synchronisation ---------- *)
Theorem rtr_sync_success_bookkeeping fuel w w' :
  NoDup (pfx w) -> NoDup (keys w) -> rtr_sync fuel w = Ok 0 w' ->
  exists cr eod v4 v6 ks,
    response_received fuel w cr eod v4 v6 ks /\
    req_sess (sk w') = false /\ serial (sk w') = get32 eod 8 /\ session_id (sk w') = get16 eod 2 /\
    get16 cr 2 = get16 eod 2 /\ (req_sess (sk w) = false -> session_id (sk w) = get16 cr 2) /\
    next_query (sk w') = QSerial (get16 eod 2) (get32 eod 8).
Proof.
  intros NP NK E. pose proof (rtr_sync_C03 fuel w NP NK) as H. rewrite E in H.
  destruct H as (_ & _ & [(_ & (cr & eod & v4 & v6 & ks & H1 & _ & _ & H2 & H3 & H4 & H5 & H6 & _))|(Hr & _)]); [|congruence].
  exists cr, eod, v4, v6, ks. repeat split; auto. unfold next_query. now rewrite H6, H2, H3.
Qed.
