(* CallbackProofs.v - C09 for cache-driven histories: in every run of the RTR model the update callbacks emitted
   between two points replay (strictly) from the tables at the first point to the tables at the second, for the
   prefix table and for the router-key table - through delta application, roll-back, purge, atomic reload,
   expiry and stop.  Part 2: the relation C and the functions that change tables. *)
From Coq Require Import Permutation.
From RtrV Require Import Base.CSem Gen.Generated Rtr.RtrModel Rtr.RelFrame Rtr.ExpiryTac Rtr.SyncSets
     Rtr.CallbackReplay Rtr.CallbackFrames.
Local Open Scope Z_scope.

Definition unP (t : titem) : option (bool * prec) := match t with TPfx a r => Some (a, r) | _ => None end.
Definition unK (t : titem) : option (bool * krec) := match t with TKey a r => Some (a, r) | _ => None end.
Definition rpP := greplay prec prec_eqb unP.
Definition rpK := greplay krec krec_eqb unK.

Lemma rpP_app a b X : rpP (a ++ b) X = match rpP a X with Some Y => rpP b Y | None => None end.
Proof. apply greplay_app. Qed.
Lemma rpK_app a b X : rpK (a ++ b) X = match rpK a X with Some Y => rpK b Y | None => None end.
Proof. apply greplay_app. Qed.

Definition Cp (X X' : list prec) (new : list titem) : Prop :=
  NoDup X -> NoDup X' /\ exists Y, rpP (rev new) X = Some Y /\ Permutation Y X'.
Definition Ck (X X' : list krec) (new : list titem) : Prop :=
  NoDup X -> NoDup X' /\ exists Y, rpK (rev new) X = Some Y /\ Permutation Y X'.
(* [new]: the callbacks emitted between w and w', newest first (as the trace keeps them) *)
Definition C (w w' : world) : Prop :=
  exists new, cbs (out w') = new ++ cbs (out w) /\ Cp (pfx w) (pfx w') new /\ Ck (keys w) (keys w') new.

Lemma C_refl w : C w w.
Proof.
  exists []. split; [reflexivity|]. split; intros H; (split; [exact H|eexists; split; [reflexivity|apply Permutation_refl]]).
Qed.

Lemma C_trans a b c : C a b -> C b c -> C a c.
Proof.
  intros (n1 & E1 & P1 & K1) (n2 & E2 & P2 & K2). exists (n2 ++ n1).
  split; [rewrite E2, E1, app_assoc; reflexivity|]. unfold Cp, Ck in *. rewrite rev_app_distr. split.
  - intros Ha. destruct (P1 Ha) as (Hb & Y1 & R1 & Q1). destruct (P2 Hb) as (Hc & Y2 & R2 & Q2).
    split; [exact Hc|]. rewrite rpP_app, R1. unfold rpP in *.
    destruct (greplay_perm prec prec_eqb prec_eqb_eq unP _ _ _ _ (Permutation_sym Q1) R2) as (Z & RZ & QZ).
    exists Z. split; [exact RZ|]. eapply Permutation_trans; [apply Permutation_sym, QZ|exact Q2].
  - intros Ha. destruct (K1 Ha) as (Hb & Y1 & R1 & Q1). destruct (K2 Hb) as (Hc & Y2 & R2 & Q2).
    split; [exact Hc|]. rewrite rpK_app, R1. unfold rpK in *.
    destruct (greplay_perm krec krec_eqb krec_eqb_eq unK _ _ _ _ (Permutation_sym Q1) R2) as (Z & RZ & QZ).
    exists Z. split; [exact RZ|]. eapply Permutation_trans; [apply Permutation_sym, QZ|exact Q2].
Qed.

Lemma N_C w w' : N w w' -> C w w'.
Proof.
  intros (E & P & K). exists []. split; [exact E|]. rewrite P, K.
  split; intros H; (split; [exact H|eexists; split; [reflexivity|apply Permutation_refl]]).
Qed.

Notation relC := (rel C).
Lemma relN_relC {A} (m : world -> res A) w : rel N m w -> relC m w.
Proof. unfold rel. destruct (m w); apply N_C. Qed.

(* regrouping binds: the relation is about the computed result only *)
Lemma rel_assoc R {A B D} (m : world -> res A) (f : A -> world -> res B) (g : B -> world -> res D) w :
  rel R (bind (bind m f) g) w -> rel R (bind m (fun x => bind (f x) g)) w.
Proof. unfold rel, bind. destruct (m w) as [a w1|e w1]; [destruct (f a w1)|]; auto. Qed.

Lemma rel_eq R {A} (m : world -> res A) w a w' : rel R m w -> m w = Ok a w' -> R w w'.
Proof. unfold rel. intros H E. rewrite E in H. exact H. Qed.

(* ---------- world-level steps ---------- *)
Definition isP (t : titem) : Prop := exists a r, t = TPfx a r.
Definition isK (t : titem) : Prop := exists a r, t = TKey a r.

Lemma cbs_all_P t : Forall isP t -> cbs t = t.
Proof. induction 1 as [|x l (a & r & ->) _ IH]; [reflexivity|]. cbn [cbs filter is_cb]. f_equal. exact IH. Qed.
Lemma cbs_all_K t : Forall isK t -> cbs t = t.
Proof. induction 1 as [|x l (a & r & ->) _ IH]; [reflexivity|]. cbn [cbs filter is_cb]. f_equal. exact IH. Qed.
Lemma skipK_of_P t X : Forall isP t -> rpK t X = Some X.
Proof.
  intros H. apply greplay_skip. eapply Forall_impl; [|exact H]. intros x (a & r & ->). reflexivity.
Qed.
Lemma skipP_of_K t X : Forall isK t -> rpP t X = Some X.
Proof.
  intros H. apply greplay_skip. eapply Forall_impl; [|exact H]. intros x (a & r & ->). reflexivity.
Qed.
Lemma Forall_rev' {A} (P : A -> Prop) l : Forall P l -> Forall P (rev l).
Proof. intros H. apply Forall_forall. intros x Hx. apply in_rev in Hx. rewrite Forall_forall in H. auto. Qed.

Lemma stepP t P' w w' :
  Forall isP t -> rpP t (pfx w) = Some P' -> (NoDup (pfx w) -> NoDup P') ->
  out w' = rev t ++ out w -> pfx w' = P' -> keys w' = keys w -> C w w'.
Proof.
  intros Ht Hr Hn Eo Ep Ek. exists (rev t).
  split; [rewrite Eo, cbs_app, (cbs_all_P _ (Forall_rev' _ _ Ht)); reflexivity|]. unfold Cp, Ck. rewrite rev_involutive, Ep, Ek. split.
  - intros H. split; [apply Hn, H|]. exists P'. split; [exact Hr|apply Permutation_refl].
  - intros H. split; [exact H|]. exists (keys w). split; [apply skipK_of_P, Ht|apply Permutation_refl].
Qed.

Lemma stepK t K' w w' :
  Forall isK t -> rpK t (keys w) = Some K' -> (NoDup (keys w) -> NoDup K') ->
  out w' = rev t ++ out w -> pfx w' = pfx w -> keys w' = K' -> C w w'.
Proof.
  intros Ht Hr Hn Eo Ep Ek. exists (rev t).
  split; [rewrite Eo, cbs_app, (cbs_all_K _ (Forall_rev' _ _ Ht)); reflexivity|]. unfold Cp, Ck. rewrite rev_involutive, Ep, Ek. split.
  - intros H. split; [exact H|]. exists (pfx w). split; [apply skipP_of_K, Ht|apply Permutation_refl].
  - intros H. split; [apply Hn, H|]. exists K'. split; [exact Hr|apply Permutation_refl].
Qed.

(* a silent change of nothing *)
Lemma step_same w w' : out w' = out w -> pfx w' = pfx w -> keys w' = keys w -> C w w'.
Proof. intros Eo Ep Ek. apply N_C. unfold N. rewrite Eo. auto. Qed.

Lemma isP_map a l : Forall isP (map (TPfx a) l).
Proof. apply Forall_forall. intros x Hx. apply in_map_iff in Hx as (r & <- & _). eexists _, _. reflexivity. Qed.
Lemma isK_map a l : Forall isK (map (TKey a) l).
Proof. apply Forall_forall. intros x Hx. apply in_map_iff in Hx as (r & <- & _). eexists _, _. reflexivity. Qed.

(* removal of this socket's records from both tables (purge, stop): callbacks for exactly the removed records *)
Lemma remove_own_P X : NoDup X ->
  exists Y, rpP (map (TPfx false) (filter (fun r => psrc r =? 1) X)) X = Some Y /\
            Permutation Y (filter (fun r => negb (psrc r =? 1)) X).
Proof.
  intros Hn.
  destruct (greplay_remove_all prec prec_eqb prec_eqb_eq (TPfx) unP (fun a r => eq_refl)
              (filter (fun r => psrc r =? 1) X) X (NoDup_filter _ _ Hn)) as (Y & HY & Hmem & Hnd).
  { intros r Hr. apply filter_In in Hr. tauto. }
  exists Y. split; [exact HY|].
  apply NoDup_Permutation; [apply Hnd, Hn|apply NoDup_filter, Hn|].
  intros x. rewrite Hmem, !filter_In, negb_true_iff. destruct (psrc x =? 1); intuition congruence.
Qed.
Lemma remove_own_K X : NoDup X ->
  exists Y, rpK (map (TKey false) (filter (fun r => ksrc r =? 1) X)) X = Some Y /\
            Permutation Y (filter (fun r => negb (ksrc r =? 1)) X).
Proof.
  intros Hn.
  destruct (greplay_remove_all krec krec_eqb krec_eqb_eq (TKey) unK (fun a r => eq_refl)
              (filter (fun r => ksrc r =? 1) X) X (NoDup_filter _ _ Hn)) as (Y & HY & Hmem & Hnd).
  { intros r Hr. apply filter_In in Hr. tauto. }
  exists Y. split; [exact HY|].
  apply NoDup_Permutation; [apply Hnd, Hn|apply NoDup_filter, Hn|].
  intros x. rewrite Hmem, !filter_In, negb_true_iff. destruct (ksrc x =? 1); intuition congruence.
Qed.

Lemma src_remove_all_C w : relC src_remove_all w.
Proof.
  unfold rel, src_remove_all. unfold_prims. change spki_src_remove_notifies with true. cbv iota.
  set (gp := filter (fun r => psrc r =? 1) (pfx w)). set (gk := filter (fun r => ksrc r =? 1) (keys w)).
  exists (rev (map (TKey false) gk) ++ rev (map (TPfx false) gp)). sk_simpl.
  split.
  { rewrite !cbs_app, (cbs_all_K _ (Forall_rev' _ _ (isK_map false gk))), (cbs_all_P _ (Forall_rev' _ _ (isP_map false gp))).
    rewrite app_assoc. reflexivity. }
  unfold Cp, Ck. rewrite rev_app_distr, !rev_involutive. split.
  - intros Hn. split; [apply NoDup_filter, Hn|]. destruct (remove_own_P _ Hn) as (Y & HY & HP).
    exists Y. split; [|exact HP]. rewrite rpP_app. fold gp in HY. rewrite HY.
    apply (skipP_of_K _ Y (isK_map false gk)).
  - intros Hn. split; [apply NoDup_filter, Hn|]. destruct (remove_own_K _ Hn) as (Y & HY & HP).
    exists Y. split; [|exact HP]. rewrite rpK_app.
    rewrite (skipK_of_P _ (keys w) (isP_map false gp)). exact HY.
Qed.

Ltac cstep := rstep C C_refl C_trans.
Ltac cN := apply relN_relC; nlem.
Ltac cprim_same := unfold rel; unfold_prims; apply step_same; reflexivity.

Lemma change_state_C ns w : relC (change_state ns) w. Proof. apply relN_relC, change_state_N. Qed.

Lemma purge_after_failed_undo_C w : relC purge_after_failed_undo w.
Proof. unfold purge_after_failed_undo. repeat cstep; [apply src_remove_all_C|cprim_same]. Qed.

(* what the apply / undo loops emit on the live tables, and that nothing is emitted on shadow tables *)
Lemma apply_pfx_facts ps X d P t f : apply_pfx true ps X d = (P, t, f) ->
  Forall isP t /\ rpP t X = Some P /\ (NoDup X -> NoDup P).
Proof.
  rewrite apply_pfx_gen. intros E.
  pose proof (gapply_items prec prec_eqb TPfx prec_of_pdu true ps X d) as H1.
  pose proof (gapply_replay prec prec_eqb TPfx unP (fun a r => eq_refl) prec_of_pdu ps X d) as H2.
  pose proof (gapply_NoDup prec prec_eqb prec_eqb_eq TPfx prec_of_pdu true ps X d) as H3.
  rewrite E in *. cbn [fst snd] in *. auto.
Qed.
Lemma undo_pfx_facts d X P t ok : undo_pfx true d X = (P, t, ok) ->
  Forall isP t /\ rpP t X = Some P /\ (NoDup X -> NoDup P).
Proof.
  rewrite undo_pfx_gen. intros E.
  pose proof (gundo_items prec prec_eqb TPfx prec_of_pdu true d X) as H1.
  pose proof (gundo_replay prec prec_eqb TPfx unP (fun a r => eq_refl) prec_of_pdu d X) as H2.
  pose proof (gundo_NoDup prec prec_eqb prec_eqb_eq TPfx prec_of_pdu true d X) as H3.
  rewrite E in *. cbn [fst snd] in *. auto.
Qed.
Lemma apply_keys_facts ps X d P t f : apply_keys true ps X d = (P, t, f) ->
  Forall isK t /\ rpK t X = Some P /\ (NoDup X -> NoDup P).
Proof.
  rewrite apply_keys_gen. intros E.
  pose proof (gapply_items krec krec_eqb TKey krec_of_pdu true ps X d) as H1.
  pose proof (gapply_replay krec krec_eqb TKey unK (fun a r => eq_refl) krec_of_pdu ps X d) as H2.
  pose proof (gapply_NoDup krec krec_eqb krec_eqb_eq TKey krec_of_pdu true ps X d) as H3.
  rewrite E in *. cbn [fst snd] in *. auto.
Qed.
Lemma undo_keys_facts d X P t ok : undo_keys true d X = (P, t, ok) ->
  Forall isK t /\ rpK t X = Some P /\ (NoDup X -> NoDup P).
Proof.
  rewrite undo_keys_gen. intros E.
  pose proof (gundo_items krec krec_eqb TKey krec_of_pdu true d X) as H1.
  pose proof (gundo_replay krec krec_eqb TKey unK (fun a r => eq_refl) krec_of_pdu d X) as H2.
  pose proof (gundo_NoDup krec krec_eqb krec_eqb_eq TKey krec_of_pdu true d X) as H3.
  rewrite E in *. cbn [fst snd] in *. auto.
Qed.
Lemma apply_pfx_silent ps X d P t f : apply_pfx false ps X d = (P, t, f) -> t = [].
Proof. rewrite apply_pfx_gen. intros E. pose proof (gapply_shadow_silent prec prec_eqb prec_eqb_eq TPfx prec_of_pdu ps X d) as H. rewrite E in H. exact H. Qed.
Lemma undo_pfx_silent d X P t ok : undo_pfx false d X = (P, t, ok) -> t = [].
Proof. rewrite undo_pfx_gen. intros E. pose proof (gundo_shadow_silent prec prec_eqb prec_eqb_eq TPfx prec_of_pdu d X) as H. rewrite E in H. exact H. Qed.
Lemma apply_keys_silent ps X d P t f : apply_keys false ps X d = (P, t, f) -> t = [].
Proof. rewrite apply_keys_gen. intros E. pose proof (gapply_shadow_silent krec krec_eqb krec_eqb_eq TKey krec_of_pdu ps X d) as H. rewrite E in H. exact H. Qed.
Lemma undo_keys_silent d X P t ok : undo_keys false d X = (P, t, ok) -> t = [].
Proof. rewrite undo_keys_gen. intros E. pose proof (gundo_shadow_silent krec krec_eqb krec_eqb_eq TKey krec_of_pdu d X) as H. rewrite E in H. exact H. Qed.

Ltac comp tac :=
  apply rel_assoc; apply (rel_bind C C_trans);
  [ unfold rel; unfold_prims; tac
  | let H := fresh "Hq" in intros ? ? H; unfold_prims_in H; injection H as <- <- ].

Ltac tail_fail := repeat cstep; try cN; try apply change_state_C; try apply purge_after_failed_undo_C.

(* the reload difference *)
Lemma oth_mem {A} (src : A -> Z) (T T' : list A) :
  filter (fun r => negb (src r =? 1)) T' = filter (fun r => negb (src r =? 1)) T ->
  forall x, src x <> 1 -> (In x T <-> In x T').
Proof.
  intros E x Hx. assert (Hb : negb (src x =? 1) = true) by (apply negb_true_iff, Z.eqb_neq, Hx).
  split; intros H.
  - assert (H' : In x (filter (fun r => negb (src r =? 1)) T)) by (apply filter_In; auto).
    rewrite <- E in H'. apply filter_In in H'. tauto.
  - assert (H' : In x (filter (fun r => negb (src r =? 1)) T')) by (apply filter_In; auto).
    rewrite E in H'. apply filter_In in H'. tauto.
Qed.

Lemma diff_P T T' : NoDup T -> NoDup T' -> oth_p T' = oth_p T ->
  exists Y,
    rpP (map (TPfx true) (filter (fun r => negb (pmem r (filter (fun r0 => psrc r0 =? 1) T))) (filter (fun r => psrc r =? 1) T')) ++
         map (TPfx false) (filter (fun r => negb (pmem r (filter (fun r0 => psrc r0 =? 1) T'))) (filter (fun r => psrc r =? 1) T))) T = Some Y /\
    Permutation Y T'.
Proof.
  intros Hn Hn' E.
  exact (greplay_diff prec prec_eqb prec_eqb_eq TPfx unP (fun a r => eq_refl) psrc T T' Hn Hn' (oth_mem psrc T T' E)).
Qed.
Lemma diff_K T T' : NoDup T -> NoDup T' -> oth_k T' = oth_k T ->
  exists Y,
    rpK (map (TKey true) (filter (fun r => negb (kmem r (filter (fun r0 => ksrc r0 =? 1) T))) (filter (fun r => ksrc r =? 1) T')) ++
         map (TKey false) (filter (fun r => negb (kmem r (filter (fun r0 => ksrc r0 =? 1) T'))) (filter (fun r => ksrc r =? 1) T))) T = Some Y /\
    Permutation Y T'.
Proof.
  intros Hn Hn' E.
  exact (greplay_diff krec krec_eqb krec_eqb_eq TKey unK (fun a r => eq_refl) ksrc T T' Hn Hn' (oth_mem ksrc T T' E)).
Qed.

(* a successful apply loop on a shadow table: the result as a fold, so records of other sources are untouched *)
Lemma apply_pfx_oth live ps X d P t : apply_pfx live ps X d = (P, t, None) -> oth_p P = oth_p X.
Proof.
  rewrite apply_pfx_gen. intros E.
  pose proof (gapply_spec prec prec_eqb prec_eqb_eq TPfx prec_of_pdu live ps X d) as H. rewrite E in H. destruct H as [-> _].
  apply oth_fold_p.
Qed.
Lemma apply_keys_oth live ps X d P t : apply_keys live ps X d = (P, t, None) -> oth_k P = oth_k X.
Proof.
  rewrite apply_keys_gen. intros E.
  pose proof (gapply_spec krec krec_eqb krec_eqb_eq TKey krec_of_pdu live ps X d) as H. rewrite E in H. destruct H as [-> _].
  apply oth_fold_k.
Qed.
Lemma apply_pfx_NoDup live ps X d P t f : apply_pfx live ps X d = (P, t, f) -> NoDup X -> NoDup P.
Proof.
  rewrite apply_pfx_gen. intros E. pose proof (gapply_NoDup prec prec_eqb prec_eqb_eq TPfx prec_of_pdu live ps X d) as H.
  rewrite E in H. exact H.
Qed.
Lemma apply_keys_NoDup live ps X d P t f : apply_keys live ps X d = (P, t, f) -> NoDup X -> NoDup P.
Proof.
  rewrite apply_keys_gen. intros E. pose proof (gapply_NoDup krec krec_eqb krec_eqb_eq TKey krec_of_pdu live ps X d) as H.
  rewrite E in H. exact H.
Qed.

Lemma stepDiff (P3 : list prec) (K1 : list krec) w w' :
  (NoDup (pfx w) -> NoDup P3) -> oth_p P3 = oth_p (pfx w) ->
  (NoDup (keys w) -> NoDup K1) -> oth_k K1 = oth_k (keys w) ->
  out w' = rev (map (TKey true) (filter (fun r => negb (kmem r (filter (fun r0 => ksrc r0 =? 1) (keys w)))) (filter (fun r => ksrc r =? 1) K1)) ++
                map (TKey false) (filter (fun r => negb (kmem r (filter (fun r0 => ksrc r0 =? 1) K1))) (filter (fun r => ksrc r =? 1) (keys w)))) ++
           rev (map (TPfx true) (filter (fun r => negb (pmem r (filter (fun r0 => psrc r0 =? 1) (pfx w)))) (filter (fun r => psrc r =? 1) P3)) ++
                map (TPfx false) (filter (fun r => negb (pmem r (filter (fun r0 => psrc r0 =? 1) P3))) (filter (fun r => psrc r =? 1) (pfx w)))) ++
           out w ->
  pfx w' = P3 -> keys w' = K1 -> C w w'.
Proof.
  intros NP OP NK OK Eo Ep Ek.
  set (dK := map (TKey true) _ ++ map (TKey false) _) in Eo. set (dP := map (TPfx true) _ ++ map (TPfx false) _) in Eo.
  assert (IK : Forall isK dK) by (apply Forall_app; split; apply isK_map).
  assert (IP : Forall isP dP) by (apply Forall_app; split; apply isP_map).
  exists (rev dK ++ rev dP). split.
  { rewrite Eo, !cbs_app, (cbs_all_K _ (Forall_rev' _ _ IK)), (cbs_all_P _ (Forall_rev' _ _ IP)), app_assoc. reflexivity. }
  unfold Cp, Ck. rewrite rev_app_distr, !rev_involutive, Ep, Ek. split.
  - intros Hn. split; [apply NP, Hn|]. destruct (diff_P (pfx w) P3 Hn (NP Hn) OP) as (Y & HY & HP).
    exists Y. split; [|exact HP]. rewrite rpP_app. fold dP in HY. rewrite HY. apply (skipP_of_K _ Y IK).
  - intros Hn. split; [apply NK, Hn|]. destruct (diff_K (keys w) K1 Hn (NK Hn) OK) as (Y & HY & HP).
    exists Y. split; [|exact HP]. rewrite rpK_app, (skipK_of_P _ (keys w) IP). exact HY.
Qed.

(* after a step that is a frame (relation N): the tables of the new world *)
Ltac nfacts H :=
  match type of H with
  | ?m ?w0 = Ok ?a ?w1 =>
    let Np := fresh "Np" in let Nk := fresh "Nk" in
    assert (N w0 w1) as (_ & Np & Nk) by (apply (rel_eq N m w0 a w1); [nlem|exact H]);
    sk_simpl_in Np; sk_simpl_in Nk
  end.

Lemma process_eod_C p v4 v6 ks w : relC (process_eod p v4 v6 ks) w.
Proof.
  unfold process_eod.
  cstep. cstep.
  { repeat cstep; try cN; try apply change_state_C. }
  cstep. { cprim_same. }
  cstep. cbv zeta.
  destruct (resetting (sk w)) eqn:Er; cbn [negb]; cbv iota.
  2: { (* a delta: applied to the live tables *)
    destruct (apply_pfx true v4 (pfx w') []) as [[P1 t1] f1] eqn:E1.
    destruct (apply_pfx_facts _ _ _ _ _ _ E1) as (I1 & R1 & D1).
    destruct f1 as [[[bad c] done]|].
    { (* an IPv4 update fails: undo *)
      comp ltac:(eapply (stepP t1 P1); [exact I1|exact R1|exact D1|reflexivity|reflexivity|reflexivity]).
      cstep; [cN|]. nfacts Heq0.
      destruct (undo_pfx true done P1) as [[P2 t2] ok] eqn:E2.
      destruct (undo_pfx_facts _ _ _ _ _ E2) as (I2 & R2 & D2).
      comp ltac:(eapply (stepP t2 P2); [exact I2|rewrite Np; exact R2|rewrite Np; exact D2|reflexivity|reflexivity|sk_simpl; symmetry; exact Nk]).
      tail_fail. }
    comp ltac:(eapply (stepP t1 P1); [exact I1|exact R1|exact D1|reflexivity|reflexivity|reflexivity]).
    destruct (apply_pfx true v6 P1 []) as [[P3 t3] f3] eqn:E3.
    destruct (apply_pfx_facts _ _ _ _ _ _ E3) as (I3 & R3 & D3).
    destruct f3 as [[[bad c] done]|].
    { comp ltac:(eapply (stepP t3 P3); [exact I3|exact R3|exact D3|reflexivity|reflexivity|reflexivity]).
      cstep; [cN|]. nfacts Heq0.
      destruct (undo_pfx true (done ++ rev v4) P3) as [[P4 t4] ok] eqn:E4.
      destruct (undo_pfx_facts _ _ _ _ _ E4) as (I4 & R4 & D4).
      comp ltac:(eapply (stepP t4 P4); [exact I4|rewrite Np; exact R4|rewrite Np; exact D4|reflexivity|reflexivity|sk_simpl; symmetry; exact Nk]).
      tail_fail. }
    comp ltac:(eapply (stepP t3 P3); [exact I3|exact R3|exact D3|reflexivity|reflexivity|reflexivity]).
    destruct (apply_keys true ks (keys w') []) as [[K1 t5] f5] eqn:E5.
    destruct (apply_keys_facts _ _ _ _ _ _ E5) as (I5 & R5 & D5).
    destruct f5 as [[[bad c] done]|].
    { comp ltac:(eapply (stepK t5 K1); [exact I5|exact R5|exact D5|reflexivity|reflexivity|reflexivity]).
      cstep; [cN|]. nfacts Heq0.
      destruct (undo_keys true done K1) as [[K2 t6] ok1] eqn:E6.
      destruct (undo_keys_facts _ _ _ _ _ E6) as (I6 & R6 & D6).
      assert (H7 : exists P5 t7 ok2, (if ok1 then undo_pfx true (rev v6 ++ rev v4) P3 else (P3, [], false)) = (P5, t7, ok2) /\
                     Forall isP t7 /\ rpP t7 P3 = Some P5 /\ (NoDup P3 -> NoDup P5)).
      { destruct ok1.
        - destruct (undo_pfx true (rev v6 ++ rev v4) P3) as [[P5 t7] ok2] eqn:E7.
          exists P5, t7, ok2. split; [reflexivity|exact (undo_pfx_facts _ _ _ _ _ E7)].
        - exists P3, [], false. split; [reflexivity|]. split; [constructor|]. split; [reflexivity|auto]. }
      destruct H7 as (P5 & t7 & ok2 & -> & I7 & R7 & D7).
      apply rel_assoc. apply rel_assoc.
      apply (rel_bind C C_trans).
      { unfold rel; unfold_prims.
        eapply C_trans.
        - eapply (stepK t6 K2 w'0 (mkW (sk w'0) (pfx w'0) K2 (evs w'0) (opens w'0) (sends w'0) (now w'0) (rev t6 ++ out w'0)));
            [exact I6|rewrite Nk; exact R6|rewrite Nk; exact D6|reflexivity|reflexivity|reflexivity].
        - eapply (stepP t7 P5); [exact I7|sk_simpl; rewrite Np; exact R7|sk_simpl; rewrite Np; exact D7|reflexivity|reflexivity|reflexivity]. }
      intros ? ? Hq. unfold_prims_in Hq. injection Hq as <- <-.
      tail_fail. }
    comp ltac:(eapply (stepK t5 K1); [exact I5|exact R5|exact D5|reflexivity|reflexivity|reflexivity]).
    repeat cstep; cprim_same. }
  (* a reload: prepared silently on shadow tables, swapped in, the net difference reported *)
  set (P0 := filter (fun r => negb (psrc r =? 1)) (pfx w')). set (K0 := filter (fun r => negb (ksrc r =? 1)) (keys w')).
  destruct (apply_pfx false v4 P0 []) as [[P1 t1] f1] eqn:E1. pose proof (apply_pfx_silent _ _ _ _ _ _ E1) as ->.
  destruct f1 as [[[bad c] done]|].
  { cstep; [cprim_same|]. cstep; [cstep|]. cstep; [cN|].
    destruct (undo_pfx false done P1) as [[P2 t2] ok] eqn:E2. pose proof (undo_pfx_silent _ _ _ _ _ E2) as ->.
    cstep; [cprim_same|]. tail_fail. }
  cstep; [cprim_same|]. cstep; [cstep|].
  destruct (apply_pfx false v6 P1 []) as [[P3 t3] f3] eqn:E3. pose proof (apply_pfx_silent _ _ _ _ _ _ E3) as ->.
  destruct f3 as [[[bad c] done]|].
  { cstep; [cprim_same|]. cstep; [cstep|]. cstep; [cN|].
    destruct (undo_pfx false (done ++ rev v4) P3) as [[P4 t4] ok] eqn:E4. pose proof (undo_pfx_silent _ _ _ _ _ E4) as ->.
    cstep; [cprim_same|]. tail_fail. }
  cstep; [cprim_same|]. cstep; [cstep|].
  destruct (apply_keys false ks K0 []) as [[K1 t5] f5] eqn:E5. pose proof (apply_keys_silent _ _ _ _ _ _ E5) as ->.
  destruct f5 as [[[bad c] done]|].
  { cstep; [cprim_same|]. cstep; [cstep|]. cstep; [cN|].
    destruct (undo_keys false done K1) as [[K2 t6] ok1] eqn:E6. pose proof (undo_keys_silent _ _ _ _ _ E6) as ->.
    cstep; [cprim_same|].
    assert (H7 : exists P5 ok2, (if ok1 then undo_pfx false (rev v6 ++ rev v4) P3 else (P3, [], false)) = (P5, [], ok2)).
    { destruct ok1; [|eauto]. destruct (undo_pfx false (rev v6 ++ rev v4) P3) as [[P5 t7] ok2] eqn:E7.
      pose proof (undo_pfx_silent _ _ _ _ _ E7) as ->. eauto. }
    destruct H7 as (P5 & ok2 & ->).
    cstep; [cprim_same|]. tail_fail. }
  cstep; [cprim_same|]. cstep; [cstep|].
  unfold_prims_in Heq0; injection Heq0 as <- <-. unfold_prims_in Heq1; injection Heq1 as <- <-.
  unfold_prims_in Heq2; injection Heq2 as <- <-. unfold_prims_in Heq3; injection Heq3 as <- <-.
  unfold_prims_in Heq4; injection Heq4 as <- <-. unfold_prims_in Heq5; injection Heq5 as <- <-.
  cstep.
  { unfold rel; unfold_prims.
    eapply (stepDiff P3 K1); sk_simpl; try reflexivity.
    - intros Hn. eapply apply_pfx_NoDup; [exact E3|]. eapply apply_pfx_NoDup; [exact E1|]. apply NoDup_filter, Hn.
    - rewrite (apply_pfx_oth _ _ _ _ _ _ E3), (apply_pfx_oth _ _ _ _ _ _ E1). apply (oth_oth prec psrc).
    - intros Hn. eapply apply_keys_NoDup; [exact E5|]. apply NoDup_filter, Hn.
    - rewrite (apply_keys_oth _ _ _ _ _ _ E5). apply (oth_oth krec ksrc). }
  repeat cstep; cprim_same.
Qed.

(* ---------- lifting through the loops and the state machine ---------- *)
Ltac csame := unfold rel; unfold_prims; repeat match goal with |- context [if ?c then _ else _] => destruct c end; apply step_same; reflexivity.
Ltac clem := match goal with
  | |- relC (process_eod _ _ _ _) _ => apply process_eod_C
  | |- relC (src_remove_all) _ => apply src_remove_all_C
  | |- relC (purge_after_failed_undo) _ => apply purge_after_failed_undo_C
  | |- relC (change_state _) _ => apply change_state_C
  | |- relC (sync_first _) _ => apply relN_relC, sync_first_N
  | |- relC (wait_for_sync) _ => apply relN_relC, wait_for_sync_N
  | |- relC (dump _) _ => apply relN_relC, dump_N
  | |- relC _ _ => cN
  end.

Lemma store_loop_C fuel : forall v4 v6 ks w, relC (store_loop fuel v4 v6 ks) w.
Proof.
  induction fuel as [|f IH]; intros; cbn [store_loop]; [apply (rel_ret C C_refl)|].
  repeat cstep; try (match goal with |- relC (store_loop _ _ _ _) _ => apply IH end); try clem.
Qed.

Lemma receive_and_store_C fuel w : relC (receive_and_store fuel) w.
Proof. unfold receive_and_store. repeat cstep; try apply store_loop_C; try csame. Qed.

Lemma rtr_sync_C fuel w : relC (rtr_sync fuel) w.
Proof.
  unfold rtr_sync. repeat cstep; try apply receive_and_store_C; try clem; try csame.
Qed.

Lemma purge_outdated_C w : relC purge_outdated w.
Proof. unfold purge_outdated. repeat cstep; try clem; try csame. Qed.

Lemma fsm_step_C fuel w : relC (fsm_step fuel) w.
Proof.
  unfold fsm_step. repeat cstep; try apply rtr_sync_C; try apply purge_outdated_C; try clem; try csame;
    try (apply relN_relC; nprim).
Qed.

Lemma rtr_stop_C w : relC rtr_stop w.
Proof. unfold rtr_stop. repeat cstep; try clem; try csame; try (apply relN_relC; nprim). Qed.

Theorem run_fsm_C n fuel : forall w, C w (run_fsm n fuel w).
Proof.
  induction n as [|n IH]; intros w; cbn [run_fsm]; [apply C_refl|].
  pose proof (fsm_step_C fuel w) as H. unfold rel in H.
  destruct (fsm_step fuel w) as [[] w'|[why|] w'].
  - eapply C_trans; [exact H|apply IH].
  - exact H.
  - assert (Hs : relC (mdo _ <- rtr_stop; mdo _ <- dump 1; modify_sk (fun s => upd_st s c_RTR_CONNECTING)) w').
    { repeat cstep; try apply rtr_stop_C; try clem; try csame. }
    unfold rel in Hs.
    destruct ((mdo _ <- rtr_stop; mdo _ <- dump 1; modify_sk (fun s => upd_st s c_RTR_CONNECTING)) w') as [[] w2|e w2].
    + eapply C_trans; [exact H|]. eapply C_trans; [exact Hs|apply IH].
    + eapply C_trans; eauto.
Qed.

(* the statement for whole runs, spelled out: from any world with duplicate-free tables, the update callbacks
   emitted during the run replay the prefix table and the router-key table from their contents before to their
   contents after (up to the order of the set representation), and the tables stay duplicate-free *)
Theorem callbacks_replay n fuel w :
  let w' := run_fsm n fuel w in
  exists new, cbs (out w') = new ++ cbs (out w) /\
    (NoDup (pfx w) -> NoDup (pfx w') /\ exists Y, rpP (rev new) (pfx w) = Some Y /\ Permutation Y (pfx w')) /\
    (NoDup (keys w) -> NoDup (keys w') /\ exists Y, rpK (rev new) (keys w) = Some Y /\ Permutation Y (keys w')).
Proof. exact (run_fsm_C n fuel w). Qed.

(* not vacuous: a run that announces a prefix, learns of its withdrawal and reloads *)
Definition ex_world : world :=
  mkW (upd_st (init_sock 3600 7200 600 0) c_RTR_CONNECTING) [] [] 
      [EvData ([1; 3] ++ enc16 42 ++ enc32 8 ++ ([1; 4; 0; 0] ++ enc32 20 ++ [1; 8; 24; 0; 10; 0; 0; 0] ++ enc32 65000) ++
               ([1; 7] ++ enc16 42 ++ enc32 24 ++ enc32 5 ++ enc32 3600 ++ enc32 600 ++ enc32 7200))]
      [true; true] [] 1000 [].
Example callbacks_replay_example :
  let w' := run_fsm 6 100 ex_world in
  List.length (cbs (out w')) = 1%nat /\ List.length (pfx w') = 1%nat /\ rpP (rev (cbs (out w'))) [] = Some (pfx w').
Proof. vm_compute. repeat split. Qed.
