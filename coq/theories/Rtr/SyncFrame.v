(* SyncFrame.v - C03/C05: a result-dependent program logic for the monadic RTR model ([post]: what holds of
   the result and final world of [m] run from [w]; [okrel]: like RelFrame.rel but additionally "never raises"),
   and the frame of the lower layer: transport, sending, rtr_receive_pdu, error-PDU handling and state changes
   leave both tables and every socket field except state / version / has_received_pdus unchanged (relation L). *)
From RtrV Require Import Base.CSem Gen.Generated Rtr.RtrModel Rtr.RelFrame.
Local Open Scope Z_scope.

(* ---------- post-conditions ---------- *)
Definition post {A} (m : world -> res A) (w : world) (Q : A -> world -> Prop) (QE : exc -> world -> Prop) : Prop :=
  match m w with Ok a w' => Q a w' | Exc e w' => QE e w' end.

Lemma post_ret {A} (a : A) w (Q : A -> world -> Prop) (QE : exc -> world -> Prop) : Q a w -> post (ret a) w Q QE.
Proof. unfold post, ret. auto. Qed.

Lemma post_bind {A B} (m : world -> res A) (f : A -> world -> res B) w (Q : B -> world -> Prop) (QE : exc -> world -> Prop) :
  post m w (fun a w1 => post (f a) w1 Q QE) QE -> post (bind m f) w Q QE.
Proof. unfold post, bind. destruct (m w); auto. Qed.

Lemma post_weaken {A} (m : world -> res A) w (Q Q' : A -> world -> Prop) (QE QE' : exc -> world -> Prop) :
  post m w Q QE -> (forall a w', Q a w' -> Q' a w') -> (forall e w', QE e w' -> QE' e w') -> post m w Q' QE'.
Proof. unfold post. destruct (m w); auto. Qed.

Lemma post_ok {A} (m : world -> res A) w (Q : A -> world -> Prop) (QE : exc -> world -> Prop) a w' : post m w Q QE -> m w = Ok a w' -> Q a w'.
Proof. unfold post. intros H E. now rewrite E in H. Qed.
Lemma post_exc {A} (m : world -> res A) w (Q : A -> world -> Prop) (QE : exc -> world -> Prop) e w' : post m w Q QE -> m w = Exc e w' -> QE e w'.
Proof. unfold post. intros H E. now rewrite E in H. Qed.

Lemma post_eq {A} (m : world -> res A) w (Q : A -> world -> Prop) (QE : exc -> world -> Prop) :
  (forall a w', m w = Ok a w' -> Q a w') -> (forall e w', m w = Exc e w' -> QE e w') -> post m w Q QE.
Proof. unfold post. destruct (m w); auto. Qed.

Lemma post_rel (R : world -> world -> Prop) {A} (m : world -> res A) w : rel R m w -> post m w (fun _ w' => R w w') (fun _ w' => R w w').
Proof. unfold rel, post. destruct (m w); auto. Qed.

(* ---------- relations that additionally exclude exceptions ---------- *)
Section OkRel.
Variable R : world -> world -> Prop.
Hypothesis Rrefl : forall w, R w w.
Hypothesis Rtrans : forall a b c, R a b -> R b c -> R a c.

Definition okrel {A} (m : world -> res A) (w : world) : Prop :=
  match m w with Ok _ w' => R w w' | Exc _ _ => False end.

Lemma okrel_ret {A} (a : A) w : okrel (ret a) w.
Proof. unfold okrel, ret. apply Rrefl. Qed.

Lemma okrel_bind {A B} (m : world -> res A) (f : A -> world -> res B) w :
  okrel m w -> (forall a w', m w = Ok a w' -> okrel (f a) w') -> okrel (bind m f) w.
Proof.
  unfold okrel, bind. intros Hm Hf. destruct (m w) as [a w'|e w'] eqn:E; [|exact Hm].
  specialize (Hf a w' eq_refl). destruct (f a w') as [b w2|e w2]; [eapply Rtrans; eauto|exact Hf].
Qed.

Lemma okrel_rel {A} (m : world -> res A) w : okrel m w -> rel R m w.
Proof. unfold okrel, rel. destruct (m w); tauto. Qed.

Lemma okrel_post {A} (m : world -> res A) w : okrel m w -> post m w (fun _ w' => R w w') (fun _ _ => False).
Proof. unfold okrel, post. destruct (m w); auto. Qed.

Lemma okrel_inv {A} (m : world -> res A) w : okrel m w -> exists a w', m w = Ok a w' /\ R w w'.
Proof. unfold okrel. destruct (m w) as [a w'|]; [eauto|tauto]. Qed.
End OkRel.

Lemma rel_mono (R S : world -> world -> Prop) {A} (m : world -> res A) w :
  (forall a b, R a b -> S a b) -> rel R m w -> rel S m w.
Proof. unfold rel. intros H. destruct (m w); auto. Qed.

(* a relation that has to hold only for some results (and for every exceptional exit) *)
Definition crel (R : world -> world -> Prop) {A} (c : A -> Prop) (m : world -> res A) (w : world) : Prop :=
  match m w with Ok a w' => c a -> R w w' | Exc _ w' => R w w' end.

Lemma crel_bind (R : world -> world -> Prop) (Rtrans : forall a b c, R a b -> R b c -> R a c) {A B} (c : B -> Prop)
      (m : world -> res A) (f : A -> world -> res B) w :
  rel R m w -> (forall a w', m w = Ok a w' -> crel R c (f a) w') -> crel R c (bind m f) w.
Proof.
  unfold rel, crel, bind. intros Hm Hf. destruct (m w) as [a w'|e w'] eqn:E; [|exact Hm].
  specialize (Hf a w' eq_refl). destruct (f a w') as [b w2|e w2]; [intros Hc|]; eapply Rtrans; eauto.
Qed.
Lemma crel_rel (R : world -> world -> Prop) {A} (c : A -> Prop) (m : world -> res A) w : rel R m w -> crel R c m w.
Proof. unfold rel, crel. destruct (m w); auto. Qed.

(* ---------- the lower-layer frame ---------- *)
Definition core (s : sock) :=
  (session_id s, req_sess s, serial s, last_update s, (refresh_iv s, expire_iv s, retry_iv s, iv_mode s), resetting s).

Definition L (w w' : world) : Prop := pfx w' = pfx w /\ keys w' = keys w /\ core (sk w') = core (sk w).

Lemma L_refl w : L w w. Proof. unfold L; auto. Qed.
Lemma L_trans a b c : L a b -> L b c -> L a c.
Proof. unfold L. intros (A1 & A2 & A3) (B1 & B2 & B3). repeat split; congruence. Qed.

Lemma core_fields s s' : core s' = core s ->
  session_id s' = session_id s /\ req_sess s' = req_sess s /\ serial s' = serial s /\ last_update s' = last_update s /\
  refresh_iv s' = refresh_iv s /\ expire_iv s' = expire_iv s /\ retry_iv s' = retry_iv s /\ iv_mode s' = iv_mode s /\
  resetting s' = resetting s.
Proof. unfold core. intros H. inversion H. repeat split; assumption. Qed.

Notation relL := (rel L).
Notation okL := (okrel L).

Ltac lfin :=
  unfold L, core;
  cbn [sk pfx keys st version session_id req_sess serial last_update refresh_iv expire_iv retry_iv iv_mode has_recv resetting
       upd_st upd_version upd_session upd_req upd_serial upd_last upd_ivs upd_hasrecv upd_resetting];
  try (repeat split; reflexivity).

Ltac lprim := unfold rel; unfold_prims; lfin.
Ltac oprim := unfold okrel; unfold_prims; lfin.

Ltac lstep :=
  match goal with
  | |- relL (ret _) _ => apply (rel_ret L L_refl)
  | |- relL (bind get_sk _) ?w => apply (rel_bind L L_trans); [lprim | let H := fresh "Heq" in intros ? ? H; unfold_prims_in H; injection H as <- <-]
  | |- relL (bind get_now _) ?w => apply (rel_bind L L_trans); [lprim | let H := fresh "Heq" in intros ? ? H; unfold_prims_in H; injection H as <- <-]
  | |- relL (bind get_w _) ?w => apply (rel_bind L L_trans); [lprim | let H := fresh "Heq" in intros ? ? H; unfold_prims_in H; injection H as <- <-]
  | |- relL (bind _ _) ?w => apply (rel_bind L L_trans); [ | intros ? ? ?Heq]
  | |- relL (if ?c then _ else _) _ => destruct c eqn:?
  | |- relL (match ?x with _ => _ end) _ => destruct x eqn:?
  | |- relL ((fun _ => _) _) _ => cbv beta
  | |- relL (let _ := _ in _) _ => cbv zeta
  end.

Ltac ostep :=
  match goal with
  | |- okL (ret _) _ => apply (okrel_ret L L_refl)
  | |- okL (bind get_sk _) ?w => apply (okrel_bind L L_trans); [oprim | let H := fresh "Heq" in intros ? ? H; unfold_prims_in H; injection H as <- <-]
  | |- okL (bind get_now _) ?w => apply (okrel_bind L L_trans); [oprim | let H := fresh "Heq" in intros ? ? H; unfold_prims_in H; injection H as <- <-]
  | |- okL (bind get_w _) ?w => apply (okrel_bind L L_trans); [oprim | let H := fresh "Heq" in intros ? ? H; unfold_prims_in H; injection H as <- <-]
  | |- okL (bind _ _) ?w => apply (okrel_bind L L_trans); [ | intros ? ? ?Heq]
  | |- okL (if ?c then _ else _) _ => destruct c eqn:?
  | |- okL (match ?x with _ => _ end) _ => destruct x eqn:?
  | |- okL ((fun _ => _) _) _ => cbv beta
  | |- okL (let _ := _ in _) _ => cbv zeta
  end.

(* --- functions that never raise --- *)
Lemma change_state_okL ns w : okL (change_state ns) w.
Proof. unfold change_state. repeat ostep; try oprim. Qed.

Lemma tr_send_okL b w : okL (tr_send b) w.
Proof. unfold okrel, tr_send. destruct (sends w); destruct (_ <? 0); lfin. Qed.

Lemma tr_send_all_loop_okL fuel : forall b tot w, okL (tr_send_all_loop fuel b tot) w.
Proof.
  induction fuel as [|f IH]; intros; cbn [tr_send_all_loop]; [apply (okrel_ret L L_refl)|].
  repeat ostep; try apply tr_send_okL; try apply IH.
Qed.

Lemma send_pdu_okL b w : okL (send_pdu b) w.
Proof. unfold send_pdu, tr_send_all. repeat ostep; try apply tr_send_all_loop_okL. Qed.

Lemma send_error_pdu_okL enc c t w : okL (send_error_pdu enc c t) w.
Proof. unfold send_error_pdu. repeat ostep; try apply send_pdu_okL. Qed.

Lemma send_error_from_host_okL enc c t w : okL (send_error_from_host enc c t) w.
Proof. unfold send_error_from_host. repeat ostep; try apply send_error_pdu_okL. Qed.

Lemma send_serial_query_okL w : okL send_serial_query w.
Proof. unfold send_serial_query. repeat ostep; try apply send_pdu_okL; try apply change_state_okL. Qed.

Lemma send_reset_query_okL w : okL send_reset_query w.
Proof. unfold send_reset_query. repeat ostep; try apply send_pdu_okL; try apply change_state_okL. Qed.

Lemma recv_err_okL c w : okL (recv_err c) w.
Proof. unfold recv_err. repeat ostep; try apply change_state_okL. Qed.

Lemma handle_error_pdu_okL p w : okL (handle_error_pdu p) w.
Proof. unfold handle_error_pdu. repeat ostep; try apply change_state_okL; try oprim. Qed.

Lemma report_update_failure_okL p c k w : okL (report_update_failure p c k) w.
Proof. unfold report_update_failure. repeat ostep; try apply send_error_from_host_okL; try apply change_state_okL. Qed.

Lemma emit_all_okL l w : okL (emit_all l) w.
Proof. oprim. Qed.

(* --- the receiving side (may end the run or be stopped: relation only) --- *)
Lemma tr_recv_L len t w : relL (tr_recv len t) w.
Proof.
  unfold rel, tr_recv. destruct (tr_recv_evs _ _ _ _ _) as [[[[[c|b]|] es] t'] tr]; try destruct (c =? -99); lfin.
Qed.

Lemma tr_recv_all_loop_L fuel : forall len e acc w, relL (tr_recv_all_loop fuel len e acc) w.
Proof.
  induction fuel as [|f IH]; intros; cbn [tr_recv_all_loop]; [apply (rel_ret L L_refl)|].
  repeat lstep; try apply tr_recv_L; try apply IH.
Qed.

Lemma tr_recv_all_L len t w : relL (tr_recv_all len t) w.
Proof. unfold tr_recv_all. repeat lstep. apply tr_recv_all_loop_L. Qed.

Lemma tr_open_L w : relL tr_open w.
Proof. unfold rel, tr_open. destruct (opens w); lfin. Qed.

Ltac llem :=
  match goal with
  | |- relL (change_state _) _ => apply (okrel_rel L), change_state_okL
  | |- relL (send_error_pdu _ _ _) _ => apply (okrel_rel L), send_error_pdu_okL
  | |- relL (send_error_from_host _ _ _) _ => apply (okrel_rel L), send_error_from_host_okL
  | |- relL (send_serial_query) _ => apply (okrel_rel L), send_serial_query_okL
  | |- relL (send_reset_query) _ => apply (okrel_rel L), send_reset_query_okL
  | |- relL (recv_err _) _ => apply (okrel_rel L), recv_err_okL
  | |- relL (handle_error_pdu _) _ => apply (okrel_rel L), handle_error_pdu_okL
  | |- relL (report_update_failure _ _ _) _ => apply (okrel_rel L), report_update_failure_okL
  | |- relL (tr_recv_all _ _) _ => apply tr_recv_all_L
  | |- relL (tr_open) _ => apply tr_open_L
  end.

Lemma receive_pdu_L t w : relL (receive_pdu t) w.
Proof.
  unfold receive_pdu.
  repeat lstep; try llem.
  all: try (lprim; fail).
  all: try (unfold rel; unfold_prims; repeat match goal with |- context [if ?c then _ else _] => destruct c eqn:? end; lfin).
Qed.

Lemma wait_for_sync_L w : relL wait_for_sync w.
Proof. unfold wait_for_sync. repeat lstep; try llem; try apply receive_pdu_L. Qed.
