(* FooterTie.v - the one place in the receive path where the client WRITES at an offset chosen by the cache:
   rtr_pdu_convert_footer_byte_order (rtrlib/rtr/packets.c), called through rtr_pdu_footer_to_host_byte_order(pdu) in
   rtr_receive_pdu right after rtr_pdu_check_size(pdu) accepted the PDU.  Its Error Report arm converts the
   encapsulated-PDU length in place and then converts the 32-bit word at  rest + that length  in place; afterwards
   rtr_handle_error_pdu loads that word again.  The functions are translated from /repo on every run
   (tools/c2v.py, memory mode with stores, Gen/GeneratedMemW.v; vocabulary Base/MemW.v): every load is guarded by
   ld_ok and every store by st_ok, so  "= Some _"  means that no load and no store left the PDU's own bytes.

   BYTE-ORDER CONVENTION.  mem is the receive buffer exactly as rtr_receive_pdu holds it at that moment: the bytes in
   memory order; the 8-byte header ALREADY converted to host order by rtr_pdu_header_to_host_byte_order (so the
   16-bit field and the length lie little-endian: the PDU length is ldu mem (Some 4) 4), everything behind the header
   still as received, i.e. in network order (the value the cache sent in a 32-bit field at offset o is
   bswap32 (ldu mem (Some o) 4)).  This is the buffer on which rtr_pdu_check_size runs in C, and the one
   CheckSizeTie.check_size_translated is about: mem = to_host p for the PDU p as received.  "Complete PDU" means what
   rtr_receive_pdu guarantees there: as many bytes as the header's length field says ([recv_buffer]).

   Results:
     footer_translated            on every accepted PDU the translated conversion equals the hand-written footer_host
                                  (all arms of the switch, the IPv6 arm through the local array addr6 and memcpy)
     footer_writes_inside         ... hence returns Some mem' with the same length: no load / store outside the PDU
     footer_to_host_translated    the same for the wrapper rtr_pdu_footer_to_host_byte_order that rtr_receive_pdu calls
     footer_error_arm             Error Report: mem' differs from mem exactly in bytes 8..11 and 12+e..15+e, reversed
     error_text_len_load_inside   the later load of rtr_handle_error_pdu is inside the PDU and yields the text length
                                  that the size check compared
     footer_needs_check_*         rejected Error Reports on which the conversion would write outside (None)
   lrtr_convert_long is translated too (not hard-coded): towards the host it is ntohl, a byte swap on this
   little-endian host (convert_host); the translator takes ntohl/htonl as bswap32 (Base/Mem.v) after checking the
   host's endianness with the probe program. *)
From RtrV Require Import Base.CSem Base.Mem Base.MemW Gen.Generated Gen.GeneratedMem Gen.GeneratedMemW Rtr.RtrModel
  Rtr.CheckSizeTie.
From Coq Require Import ZifyBool.
Local Open Scope Z_scope.

(* the receive buffer when the size check and the conversion run: byte values, at least a header, and as many
   bytes as the (host-order) length field of the header says - a complete PDU *)
Definition recv_buffer (mem : list Z) : Prop :=
  Forall byte_ok mem /\ 8 <= zlen mem /\ zlen mem = ldu mem (Some 4) 4.

Lemma to_host_invol p : to_host (to_host p) = p.
Proof. do 8 (destruct p as [|? p]; [reflexivity|]). reflexivity. Qed.

Lemma to_host_bytes p : Forall byte_ok p -> Forall byte_ok (to_host p).
Proof.
  intros H. do 8 (destruct p as [|? p]; [exact H|]). cbn [to_host].
  repeat match goal with H : Forall _ (_ :: _) |- _ => inversion H; clear H; subst end.
  repeat (apply Forall_cons; [assumption|]). assumption.
Qed.

Lemma ldu1 mem o : ldu mem (Some o) 1 = mbyte mem o.
Proof. unfold ldu. change (Z.to_nat 1) with 1%nat. cbn [le_load]. lia. Qed.

(* what the size check accepts, read off the translated check through CheckSizeTie.check_size_translated:
   type byte and total length; for an Error Report the two cache-chosen lengths e (encapsulated PDU) and
   t (text), both as sent (big-endian), with  length = 16 + e + t *)
Definition accepted_shape (mem : list Z) : Prop :=
  let ty := mbyte mem 1 in
  let len := zlen mem in
  (ty = 0 /\ len = 12) \/ (ty = 1 /\ len = 12) \/ (ty = 2 /\ len = 8) \/ (ty = 3 /\ len = 8) \/
  (ty = 4 /\ len = 20) \/ (ty = 6 /\ len = 32) \/
  (ty = 7 /\ ((mbyte mem 0 = 0 /\ len = 12) \/ (mbyte mem 0 = 1 /\ len = 24))) \/
  (ty = 8 /\ len = 8) \/ (ty = 9 /\ len = 123) \/
  (ty = 10 /\
   let e := bswap32 (ldu mem (Some 8) 4) in
   let t := bswap32 (ldu mem (Some (12 + e)) 4) in
   0 <= e /\ 0 <= t /\ len = 16 + e + t).

Ltac pick := first [ solve [left; lia] | right; pick | solve [lia] ].

Lemma accepted_inv mem :
  recv_buffer mem -> rtr_pdu_check_size_gen mem (Some 0) = Some 1 -> accepted_shape mem.
Proof.
  intros (Hb & H8 & Hlen) Hacc.
  set (p := to_host mem).
  assert (Hp : to_host p = mem) by apply to_host_invol.
  assert (Hbp : Forall byte_ok p) by (apply to_host_bytes, Hb).
  assert (H8p : 8 <= zlen p) by (unfold p, zlen in *; rewrite to_host_length; exact H8).
  assert (Hl4 : get32 p 4 = ldu mem (Some 4) 4).
  { rewrite <- (hdr_len p H8p), Hp. reflexivity. }
  assert (Hlenp : zlen p = get32 p 4).
  { rewrite Hl4, <- Hlen. unfold p, zlen. now rewrite to_host_length. }
  pose proof (check_size_translated p Hbp H8p Hlenp) as T. rewrite Hp, Hacc in T.
  assert (C : check_size p = true) by (destruct (check_size p); [reflexivity|discriminate T]). clear T Hacc.
  assert (Hty : nthb p 1 = mbyte mem 1).
  { rewrite <- (hdr_type p H8p), Hp. cbn [le_load]. lia. }
  assert (Hver : nthb p 0 = mbyte mem 0).
  { rewrite <- (hdr_ver p H8p), Hp. cbn [le_load]. lia. }
  assert (He : get32 p 8 = bswap32 (ldu mem (Some 8) 4)).
  { pose proof (ld32_be p 8 ltac:(lia) Hbp) as X. change (Z.to_nat 8) with 8%nat in X. rewrite <- X, Hp. reflexivity. }
  pose proof (get32_range p 8 Hbp) as Her.
  assert (Ht : get32 p (Z.to_nat (12 + get32 p 8)) = bswap32 (ldu mem (Some (12 + get32 p 8)) 4)).
  { rewrite <- (ld32_be p (12 + get32 p 8)) by (assumption || lia). rewrite Hp. reflexivity. }
  pose proof (get32_range p (Z.to_nat (12 + get32 p 8)) Hbp) as Htr.
  unfold check_size in C. cbv zeta in C. rewrite Ht, Hty, Hver, Hl4, <- Hlen in C. rewrite He in *.
  unfold accepted_shape. cbv zeta.
  set (ty := mbyte mem 1) in *. set (ver := mbyte mem 0) in *. set (len := zlen mem) in *.
  set (e := bswap32 (ldu mem (Some 8) 4)) in *.
  set (t := bswap32 (ldu mem (Some (12 + e)) 4)) in *.
  clearbody ty ver len e t.
  unfold c_SERIAL_NOTIFY, c_CACHE_RESPONSE, c_IPV4_PREFIX, c_IPV6_PREFIX, c_EOD, c_CACHE_RESET, c_ROUTER_KEY,
    c_ERROR, c_SERIAL_QUERY, c_RESET_QUERY, sizeof_pdu_serial_notify, sizeof_pdu_cache_response, sizeof_pdu_ipv4,
    sizeof_pdu_ipv6, sizeof_pdu_end_of_data_v0, sizeof_pdu_end_of_data_v1, sizeof_pdu_header, sizeof_pdu_router_key,
    sizeof_pdu_serial_query, sizeof_pdu_reset_query in C.
  clear - C Her Htr.
  repeat match type of C with
         | (if ?a =? ?c then _ else _) = true =>
           destruct (Z.eqb_spec a c) as [E|E];
             [repeat match type of C with
                     | (if ?b then _ else _) = true => destruct b eqn:?; [discriminate C|]
                     end; pick
             |clear E]
         end.
  discriminate C.
Qed.

(* lrtr_convert_long towards the host: ntohl, i.e. a byte swap on this (little-endian) host *)
Lemma convert_host x : lrtr_convert_long_gen c_TO_HOST_HOST_BYTE_ORDER x = Some (bswap32 x).
Proof.
  unfold lrtr_convert_long_gen, c_TO_HOST_HOST_BYTE_ORDER.
  change (wrapu 32 1 =? wrapu 32 0) with false. change (wrapu 32 1 =? wrapu 32 1) with true. cbv iota.
  cbn [obind]. f_equal. unfold wrapu. change (2 ^ 32) with 4294967296. apply Z.mod_small, bswap32_range.
Qed.

(* evaluation of closed pieces only (never a term with a variable in it: a stuck [mod] has a huge normal form) *)
Ltac has_var t := match t with context [?x] => is_var x end.
Ltac closed t := tryif has_var t then fail else idtac.
Ltac evc t := closed t; let v := eval vm_compute in t in (progress change t with v).
Ltac ev_closed :=
  repeat (match goal with
          | |- context [wrapu ?b ?x] => evc (wrapu b x)
          | |- context [wraps ?b ?x] => evc (wraps b x)
          | |- context [ptr_add ?p ?x] => evc (ptr_add p x)
          | |- context [Z.ltb ?a ?b] => evc (Z.ltb a b)
          | |- context [Z.eqb ?a ?b] => evc (Z.eqb a b)
          | |- context [Z.mul ?a ?b] => evc (Z.mul a b)
          | |- context [Z.add ?a ?b] => evc (Z.add a b)
          | |- context [ld_ok ?a ?b ?c] => evc (ld_ok a b c)
          | |- context [st_ok ?a ?b ?c] => evc (st_ok a b c)
          end; cbv iota).

Ltac start :=
  cbv beta delta [rtr_pdu_convert_footer_byte_order_gen lrtr_ipv4_addr_convert_byte_order_gen
                  lrtr_ipv6_addr_convert_byte_order_gen];
  cbv zeta.


(* the type byte as the switch sees it (rtr_get_pdu_type returns the byte through a signed char field) *)
Lemma get_type_small mem :
  2 <= zlen mem -> 0 <= mbyte mem 1 < 128 -> rtr_get_pdu_type_gen mem (Some 0) = Some (mbyte mem 1).
Proof.
  intros Hl Hty. unfold rtr_get_pdu_type_gen, zlen in *. change (ptr_add (Some 0) 1) with (Some 1).
  rewrite ld_ok_in by lia. cbn [guard]. unfold lds. rewrite ldu1. change (8 * 1) with 8.
  f_equal. unfold wraps, wrapu. change (2 ^ 8) with 256. change (2 ^ (8 - 1)) with 128. change (2 ^ 32) with 4294967296.
  rewrite (Z.mod_small (mbyte mem 1) 256) by lia.
  destruct (mbyte mem 1 <? 128) eqn:E; [|lia]. rewrite !(Z.mod_small (mbyte mem 1) 4294967296) by lia. reflexivity.
Qed.

(* one layer after the other: the guards hold (ld_ok / st_ok depend only on the object's length, which stores do not
   change), lrtr_convert_long is a byte swap *)
Ltac peel :=
  repeat first
    [ rewrite convert_host
    | rewrite ld_ok_stu | rewrite st_ok_stu | rewrite ld_ok_mcopy | rewrite st_ok_mcopy
    | rewrite ld_ok_in by lia
    | rewrite st_ok_in by lia
    | progress cbn [guard obind]
    | progress ev_closed ].

Ltac dispatch Hty :=
  start; rewrite get_type_small by (unfold zlen; lia); rewrite Hty; cbn [obind]; ev_closed.

(* ---- what the conversion does, written by hand: the 32-bit fields behind the header are byte-swapped in place ---- *)
Definition footer_host (mem : list Z) : list Z :=
  let ty := mbyte mem 1 in
  if (ty =? c_SERIAL_QUERY) || (ty =? c_SERIAL_NOTIFY) then swap4 mem 8
  else if ty =? c_ERROR then let m1 := swap4 mem 8 in swap4 m1 (12 + ldu m1 (Some 8) 4)
  else if ty =? c_EOD then
    if mbyte mem 0 =? c_RTR_PROTOCOL_VERSION_1 then swap4 (swap4 (swap4 (swap4 mem 20) 12) 16) 8 else swap4 mem 8
  else if ty =? c_IPV4_PREFIX then swap4 (swap4 mem 12) 16
  else if ty =? c_IPV6_PREFIX then swap4 (swap4 (swap4 (swap4 (swap4 mem 12) 16) 20) 24) 28
  else if ty =? c_ROUTER_KEY then swap4 mem 28
  else mem.

Ltac model Hty :=
  unfold footer_host; cbv zeta; rewrite ?Hty; ev_closed; cbn [orb]; cbv iota.

(* the IPv6 arm goes through the local array addr6 and memcpy: with the 32 bytes of the PDU named, both sides are
   computed to the same explicit list *)
Lemma ldu4 mem o :
  ldu mem (Some o) 4 = mbyte mem o + 256 * (mbyte mem (o + 1) + 256 * (mbyte mem (o + 2) + 256 * mbyte mem (o + 3))).
Proof. unfold ldu. change (Z.to_nat 4) with 4%nat. apply le_load_4. Qed.

Lemma stu_be mem o a b c d :
  byte_ok a -> byte_ok b -> byte_ok c -> byte_ok d ->
  stu mem (Some o) 4 (((a * 256 + b) * 256 + c) * 256 + d) = st_list mem (Z.to_nat o) [d; c; b; a].
Proof. intros. unfold stu. change (Z.to_nat 4) with 4%nat. now rewrite le_bytes_be. Qed.

Ltac evl t := let v := eval vm_compute in t in change t with v.
Ltac explicit :=
  repeat match goal with
         | |- context [zeros ?n] => evl (zeros n)
         | |- context [ldu (?x :: ?r) (Some ?k) 4] =>
           rewrite (ldu4 (x :: r) k);
           repeat match goal with |- context [mbyte (x :: r) ?j] => evl (mbyte (x :: r) j) end;
           rewrite bswap32_le by assumption
         | |- context [stu (?x :: ?r) (Some ?k) 4 (((?a * 256 + ?b) * 256 + ?c) * 256 + ?d)] =>
           rewrite (stu_be (x :: r) k a b c d) by assumption;
           evl (st_list (x :: r) (Z.to_nat k) [d; c; b; a])
         | |- context [mcopy (?x :: ?r) (Some ?a) (?y :: ?q) (Some ?b) ?n] =>
           evl (mcopy (x :: r) (Some a) (y :: q) (Some b) n)
         end.

Lemma ipv6_arm mem :
  Forall byte_ok mem -> zlen mem = 32 ->
  stu (mcopy mem (Some 12)
         (stu (stu (stu (stu (zeros 16) (Some 0) 4 (bswap32 (ldu mem (Some 12) 4))) (Some 4) 4
                           (bswap32 (ldu mem (Some 16) 4))) (Some 8) 4 (bswap32 (ldu mem (Some 20) 4)))
              (Some 12) 4 (bswap32 (ldu mem (Some 24) 4))) (Some 0) 16) (Some 28) 4
      (bswap32 (ldu (mcopy mem (Some 12)
         (stu (stu (stu (stu (zeros 16) (Some 0) 4 (bswap32 (ldu mem (Some 12) 4))) (Some 4) 4
                           (bswap32 (ldu mem (Some 16) 4))) (Some 8) 4 (bswap32 (ldu mem (Some 20) 4)))
              (Some 12) 4 (bswap32 (ldu mem (Some 24) 4))) (Some 0) 16) (Some 28) 4)) =
  swap4 (swap4 (swap4 (swap4 (swap4 mem 12) 16) 20) 24) 28.
Proof.
  intros Hb Hl. unfold zlen in Hl.
  do 32 (destruct mem as [|? mem]; [cbn [List.length] in Hl; lia|]).
  destruct mem; [|cbn [List.length] in Hl; lia]. clear Hl.
  repeat match goal with H : Forall _ (_ :: _) |- _ => apply Forall_cons_iff in H; destruct H as [? H] end.
  unfold swap4. explicit. reflexivity.
Qed.

Theorem footer_translated mem :
  recv_buffer mem -> rtr_pdu_check_size_gen mem (Some 0) = Some 1 ->
  rtr_pdu_convert_footer_byte_order_gen mem (Some 0) c_TO_HOST_HOST_BYTE_ORDER = Some (footer_host mem).
Proof.
  intros HB Hacc. pose proof (accepted_inv mem HB Hacc) as S. destruct HB as (Hb & H8 & Hlen).
  unfold accepted_shape in S. cbv zeta in S. unfold zlen in *.
  destruct S as [[Hty Hl]|[[Hty Hl]|[[Hty Hl]|[[Hty Hl]|[[Hty Hl]|[[Hty Hl]|[[Hty [[Hver Hl]|[Hver Hl]]]|[[Hty Hl]|[[Hty Hl]|
                 [Hty (He & Ht & Hl)]]]]]]]]]].
  - (* Serial Notify *) dispatch Hty. peel. model Hty. reflexivity.
  - (* Serial Query *) dispatch Hty. peel. model Hty. reflexivity.
  - (* Reset Query *) dispatch Hty. model Hty. reflexivity.
  - (* Cache Response *) dispatch Hty. model Hty. reflexivity.
  - (* IPv4 Prefix *) dispatch Hty. peel. model Hty. reflexivity.
  - (* IPv6 Prefix *) dispatch Hty. peel. model Hty. f_equal. apply ipv6_arm; [assumption|exact Hl].
  - (* End of Data, version 0 *) dispatch Hty. rewrite ?ldu1, ?Hver. peel. model Hty. rewrite ?Hver. ev_closed. reflexivity.
  - (* End of Data, version 1 *) dispatch Hty. rewrite ?ldu1, ?Hver. peel. model Hty. rewrite ?Hver. ev_closed. reflexivity.
  - (* Cache Reset *) dispatch Hty. model Hty. reflexivity.
  - (* Router Key *) dispatch Hty. peel. model Hty. reflexivity.
  - (* Error Report *)
    set (e := bswap32 (ldu mem (Some 8) 4)) in *. set (t := bswap32 (ldu mem (Some (12 + e)) 4)) in *.
    assert (Hm1 : ldu (stu mem (Some 8) 4 e) (Some 8) 4 = e).
    { rewrite ldu_stu_same by (try apply st_ok_in; lia). change (256 ^ 4) with 4294967296.
      apply Z.mod_small, bswap32_range. }
    dispatch Hty.
    rewrite (ld_ok_in mem 8 4), convert_host by lia. cbn [guard obind]. rewrite (st_ok_in mem 8 4) by lia. cbn [guard].
    change (bswap32 (ldu mem (Some 8) 4)) with e. rewrite !Hm1. cbn [ptr_add].
    peel. model Hty. unfold swap4. change (bswap32 (ldu mem (Some 8) 4)) with e. rewrite Hm1. reflexivity.
Qed.

Lemma footer_host_length mem : List.length (footer_host mem) = List.length mem.
Proof.
  unfold footer_host. cbv zeta.
  repeat match goal with |- context [if ?c then _ else _] => destruct c end;
    rewrite ?swap4_length; reflexivity.
Qed.

(* ---- (0) where the buffer comes from: the header conversion that rtr_receive_pdu applies to the first 8 bytes
        (rtr_pdu_header_to_host_byte_order, translated as well) turns a complete PDU as received into a
        [recv_buffer]; the bytes behind the header are not touched.  (Router Key PDUs keep bytes 2 and 3 - flags and
        zero - in place: CheckSizeTie.to_host swaps them for every type, which the size check does not see.) ---- *)
Lemma bswap16_range x : 0 <= bswap16 x < 65536.
Proof.
  unfold bswap16. pose proof (Z.mod_pos_bound x 256 ltac:(lia)). pose proof (Z.mod_pos_bound (x / 256) 256 ltac:(lia)). lia.
Qed.

Lemma convert_short_host x : lrtr_convert_short_gen c_TO_HOST_HOST_BYTE_ORDER x = Some (bswap16 x).
Proof.
  unfold lrtr_convert_short_gen, c_TO_HOST_HOST_BYTE_ORDER.
  change (wrapu 32 1 =? wrapu 32 0) with false. change (wrapu 32 1 =? wrapu 32 1) with true. cbv iota.
  cbn [obind]. f_equal. unfold wrapu. change (2 ^ 16) with 65536. apply Z.mod_small, bswap16_range.
Qed.

Lemma ldu2 mem o : ldu mem (Some o) 2 = mbyte mem o + 256 * mbyte mem (o + 1).
Proof. unfold ldu. change (Z.to_nat 2) with 2%nat. cbn [le_load]. lia. Qed.

Lemma bswap16_le a b : byte_ok a -> byte_ok b -> bswap16 (a + 256 * b) = a * 256 + b.
Proof.
  unfold byte_ok, bswap16. intros Ha Hb.
  assert (E0 : (a + 256 * b) mod 256 = a) by (symmetry; apply (Z.mod_unique _ 256 b a); lia).
  assert (E1 : (a + 256 * b) / 256 = b) by (symmetry; apply (Z.div_unique _ 256 _ a); lia).
  rewrite E0, E1, (Z.mod_small b) by lia. reflexivity.
Qed.

Lemma stu_be16 mem o a b :
  byte_ok a -> byte_ok b -> stu mem (Some o) 2 (a * 256 + b) = st_list mem (Z.to_nat o) [b; a].
Proof.
  unfold byte_ok. intros Ha Hb. unfold stu. change (Z.to_nat 2) with 2%nat. cbn [le_bytes].
  assert (E0 : (a * 256 + b) mod 256 = b) by (symmetry; apply (Z.mod_unique _ 256 a b); lia).
  assert (E1 : (a * 256 + b) / 256 = a) by (symmetry; apply (Z.div_unique _ 256 _ b); lia).
  rewrite E0, E1, (Z.mod_small a) by lia. reflexivity.
Qed.

Definition header_host (p : list Z) : list Z :=
  match p with
  | a :: b :: c :: d :: e :: f :: g :: h :: rest =>
    if b =? c_ROUTER_KEY then a :: b :: c :: d :: h :: g :: f :: e :: rest
    else a :: b :: d :: c :: h :: g :: f :: e :: rest
  | _ => p
  end.

Theorem header_translated p :
  Forall byte_ok p -> 8 <= zlen p ->
  rtr_pdu_convert_header_byte_order_gen p (Some 0) c_TO_HOST_HOST_BYTE_ORDER = Some (header_host p).
Proof.
  intros Hb H8. unfold zlen in H8.
  do 8 (destruct p as [|? p]; [cbn [List.length] in H8; lia|]).
  do 8 (apply Forall_cons_iff in Hb; destruct Hb as [? Hb]).
  cbv beta delta [rtr_pdu_convert_header_byte_order_gen]. cbv zeta. ev_closed.
  rewrite ld_ok_in by (cbn [List.length]; lia). cbn [guard].
  rewrite ldu1. match goal with |- context [mbyte ?m 1] => evl (mbyte m 1) end.
  rewrite wraps32_small by (unfold byte_ok in *; lia).
  cbn [header_host]. unfold c_ROUTER_KEY.
  destruct (Z.eqb_spec z0 9) as [E|E]; cbn [negb]; cbv iota.
  - rewrite ld_ok_in, convert_host by (cbn [List.length]; lia). cbn [guard obind].
    rewrite st_ok_in by (cbn [List.length]; lia). cbn [guard]. explicit. reflexivity.
  - rewrite ld_ok_in, convert_short_host by (cbn [List.length]; lia). cbn [guard obind].
    rewrite st_ok_in by (cbn [List.length]; lia). cbn [guard].
    rewrite ldu2. repeat match goal with |- context [mbyte (?x :: ?r) ?j] => evl (mbyte (x :: r) j) end.
    rewrite bswap16_le, stu_be16 by assumption.
    match goal with |- context [st_list ?m ?n ?bs] => evl (st_list m n bs) end.
    rewrite ld_ok_in, convert_host by (cbn [List.length]; lia). cbn [guard obind].
    rewrite st_ok_in by (cbn [List.length]; lia). cbn [guard]. explicit. reflexivity.
Qed.

Theorem recv_buffer_of_wire p :
  Forall byte_ok p -> 8 <= zlen p -> zlen p = get32 p 4 ->
  rtr_pdu_header_to_host_byte_order_gen p (Some 0) = Some (header_host p) /\
  recv_buffer (header_host p) /\
  skipn 8 (header_host p) = skipn 8 p.
Proof.
  intros Hb H8 Hlen. split.
  { unfold rtr_pdu_header_to_host_byte_order_gen. change (wrapu 32 1) with c_TO_HOST_HOST_BYTE_ORDER.
    rewrite header_translated by assumption. reflexivity. }
  unfold zlen in *.
  do 8 (destruct p as [|? p]; [cbn [List.length] in H8; lia|]).
  unfold get32, be32, nthb in Hlen. cbn [nth Nat.add] in Hlen.
  cbn [header_host].
  assert (Hb' := Hb). do 8 (apply Forall_cons_iff in Hb'; destruct Hb' as [? Hb']).
  destruct (z0 =? c_ROUTER_KEY); (split; [|reflexivity]); unfold recv_buffer, zlen.
  all: split; [repeat (apply Forall_cons; [assumption|]); assumption|].
  all: split; [cbn [List.length] in *; lia|].
  all: rewrite ldu4; repeat match goal with |- context [mbyte (?x :: ?r) ?j] => evl (mbyte (x :: r) j) end.
  all: cbn [List.length] in *; lia.
Qed.

(* ---- (1) memory safety: every load and every store of the conversion lies inside the PDU whenever the size check
        accepted it (a load or store outside would make the translated function return None) ---- *)
Theorem footer_writes_inside mem :
  recv_buffer mem -> rtr_pdu_check_size_gen mem (Some 0) = Some 1 ->
  exists mem', rtr_pdu_convert_footer_byte_order_gen mem (Some 0) c_TO_HOST_HOST_BYTE_ORDER = Some mem' /\
               List.length mem' = List.length mem.
Proof.
  intros HB Hacc. exists (footer_host mem). split; [apply footer_translated; assumption|apply footer_host_length].
Qed.

(* the function that rtr_receive_pdu actually calls: rtr_pdu_footer_to_host_byte_order(pdu), which passes the
   constant TO_HOST_HOST_BYTE_ORDER *)
Corollary footer_to_host_translated mem :
  recv_buffer mem -> rtr_pdu_check_size_gen mem (Some 0) = Some 1 ->
  rtr_pdu_footer_to_host_byte_order_gen mem (Some 0) = Some (footer_host mem).
Proof.
  intros HB Hacc. unfold rtr_pdu_footer_to_host_byte_order_gen.
  change (wrapu 32 1) with c_TO_HOST_HOST_BYTE_ORDER. rewrite footer_translated by assumption. reflexivity.
Qed.

(* the three steps of rtr_receive_pdu in sequence, from the bytes as received: header conversion, size check,
   conversion of the rest - all inside the PDU's own bytes *)
Theorem receive_path_inside p :
  Forall byte_ok p -> 8 <= zlen p -> zlen p = get32 p 4 ->
  exists mem, rtr_pdu_header_to_host_byte_order_gen p (Some 0) = Some mem /\
    rtr_pdu_check_size_gen mem (Some 0) <> None /\
    (rtr_pdu_check_size_gen mem (Some 0) = Some 1 ->
     exists mem', rtr_pdu_footer_to_host_byte_order_gen mem (Some 0) = Some mem' /\
                  List.length mem' = List.length p).
Proof.
  intros Hb H8 Hlen. destruct (recv_buffer_of_wire p Hb H8 Hlen) as (Hh & HB & _).
  exists (header_host p). split; [exact Hh|]. split.
  - pose proof (check_size_translated (to_host (header_host p))) as T. rewrite to_host_invol in T.
    destruct HB as (Hb' & H8' & Hl'). rewrite T; [discriminate|apply to_host_bytes, Hb'| |].
    + unfold zlen in *. rewrite to_host_length. exact H8'.
    + rewrite <- (hdr_len (to_host (header_host p))), to_host_invol.
      * unfold zlen in *. rewrite to_host_length. exact Hl'.
      * unfold zlen in *. rewrite to_host_length. exact H8'.
  - intros Hacc. exists (footer_host (header_host p)). split; [apply footer_to_host_translated; assumption|].
    rewrite footer_host_length. unfold zlen in H8. do 8 (destruct p as [|? p]; [cbn [List.length] in H8; lia|]).
    cbn [header_host]. destruct (z0 =? c_ROUTER_KEY); reflexivity.
Qed.

(* ---- (2) the Error Report arm ---- *)
Lemma error_inv mem :
  recv_buffer mem -> rtr_pdu_check_size_gen mem (Some 0) = Some 1 -> mbyte mem 1 = c_ERROR ->
  let e := bswap32 (ldu mem (Some 8) 4) in
  let t := bswap32 (ldu mem (Some (12 + e)) 4) in
  0 <= e /\ 0 <= t /\ zlen mem = 16 + e + t.
Proof.
  intros HB Hacc Hty. pose proof (accepted_inv mem HB Hacc) as S. unfold accepted_shape in S. cbv zeta in S.
  unfold c_ERROR in Hty. rewrite Hty in S.
  destruct S as [[E _]|[[E _]|[[E _]|[[E _]|[[E _]|[[E _]|[[E _]|[[E _]|[[E _]|[_ S]]]]]]]]]]; try discriminate E.
  exact S.
Qed.

Lemma error_host mem :
  recv_buffer mem -> rtr_pdu_check_size_gen mem (Some 0) = Some 1 -> mbyte mem 1 = c_ERROR ->
  let e := bswap32 (ldu mem (Some 8) 4) in
  footer_host mem = swap4 (swap4 mem 8) (12 + e) /\ ldu (swap4 mem 8) (Some 8) 4 = e.
Proof.
  intros HB Hacc Hty. cbv zeta. pose proof (error_inv mem HB Hacc Hty) as (He & Ht & Hl). unfold zlen in Hl.
  assert (Hm1 : ldu (swap4 mem 8) (Some 8) 4 = bswap32 (ldu mem (Some 8) 4)).
  { unfold swap4. rewrite ldu_stu_same by (try apply st_ok_in; lia). change (256 ^ 4) with 4294967296.
    apply Z.mod_small, bswap32_range. }
  split; [|exact Hm1].
  unfold footer_host. cbv zeta. rewrite Hty. ev_closed. cbn [orb]. cbv iota. rewrite Hm1. reflexivity.
Qed.

(* mem' differs from mem exactly in bytes 8..11 (the encapsulated length) and bytes 12+e .. 15+e (the text length),
   each group in reverse order, where e is the encapsulated length as the cache sent it *)
Theorem footer_error_arm mem :
  recv_buffer mem -> rtr_pdu_check_size_gen mem (Some 0) = Some 1 -> mbyte mem 1 = c_ERROR ->
  let e := bswap32 (ldu mem (Some 8) 4) in
  exists mem', rtr_pdu_convert_footer_byte_order_gen mem (Some 0) c_TO_HOST_HOST_BYTE_ORDER = Some mem' /\
    List.length mem' = List.length mem /\ 0 <= e /\ 16 + e <= zlen mem /\
    forall i, 0 <= i ->
      mbyte mem' i = if (8 <=? i) && (i <? 12) then mbyte mem (19 - i)
                     else if (12 + e <=? i) && (i <? 16 + e) then mbyte mem (27 + 2 * e - i)
                     else mbyte mem i.
Proof.
  intros HB Hacc Hty. cbv zeta. pose proof (error_inv mem HB Hacc Hty) as (He & Ht & Hl).
  pose proof (error_host mem HB Hacc Hty) as (Hm & _). cbv zeta in Hm.
  destruct HB as (Hb & H8 & Hlen).
  set (e := bswap32 (ldu mem (Some 8) 4)) in *. clearbody e.
  exists (footer_host mem). split; [apply footer_translated; [repeat split|]; assumption|].
  split; [apply footer_host_length|]. split; [exact He|]. split; [lia|].
  intros i Hi. rewrite Hm. unfold zlen in *.
  rewrite mbyte_swap4 by (try apply swap4_bytes; try rewrite swap4_length; assumption || lia).
  destruct (Z.leb_spec0 (12 + e) i) as [A|A]; destruct (Z.ltb_spec0 i (12 + e + 4)) as [B|B]; cbn [andb];
    rewrite mbyte_swap4 by (assumption || lia);
    destruct (Z.leb_spec0 (12 + e) i) as [A'|A']; destruct (Z.ltb_spec0 i (16 + e)) as [B'|B']; try lia; cbn [andb];
    repeat match goal with
           | |- context [Z.leb ?a ?b] => destruct (Z.leb_spec0 a b)
           | |- context [Z.ltb ?a ?b] => destruct (Z.ltb_spec0 a b)
           end; cbn [andb]; try lia; try reflexivity; f_equal; lia.
Qed.

(* ---- (3) the load of rtr_handle_error_pdu afterwards: inside the PDU, and it yields the text length t that the size
        check compared (length = 16 + e + t) - so the consistency test and the %.*s debug print work on the checked
        value ---- *)
Theorem error_text_len_load_inside mem :
  recv_buffer mem -> rtr_pdu_check_size_gen mem (Some 0) = Some 1 -> mbyte mem 1 = c_ERROR ->
  let e := bswap32 (ldu mem (Some 8) 4) in
  let t := bswap32 (ldu mem (Some (12 + e)) 4) in
  exists mem', rtr_pdu_convert_footer_byte_order_gen mem (Some 0) c_TO_HOST_HOST_BYTE_ORDER = Some mem' /\
    ldu mem' (Some offsetof_pdu_error__len_enc_pdu) 4 = e /\
    rtr_handle_error_pdu__len_err_txt_gen mem' (Some 0) = Some t /\
    zlen mem = 16 + e + t /\ 0 <= e /\ 0 <= t.
Proof.
  intros HB Hacc Hty. cbv zeta. pose proof (error_inv mem HB Hacc Hty) as (He & Ht & Hl).
  pose proof (error_host mem HB Hacc Hty) as (Hm & Hm1). cbv zeta in Hm, Hm1.
  exists (footer_host mem). split; [apply footer_translated; assumption|].
  destruct HB as (Hb & H8 & Hlen). unfold zlen in *.
  set (e := bswap32 (ldu mem (Some 8) 4)) in *.
  assert (Ok1 : st_ok (swap4 mem 8) (Some (12 + e)) 4 = true) by (apply st_ok_in; rewrite ?swap4_length; lia).
  assert (L1 : ldu (footer_host mem) (Some 8) 4 = e).
  { rewrite Hm. unfold swap4 at 1. rewrite ldu_stu_disjoint by (assumption || lia). exact Hm1. }
  assert (L2 : ldu (footer_host mem) (Some (12 + e)) 4 = bswap32 (ldu mem (Some (12 + e)) 4)).
  { rewrite Hm. unfold swap4 at 1. rewrite ldu_stu_same by (assumption || lia). change (256 ^ 4) with 4294967296.
    rewrite Z.mod_small by apply bswap32_range. f_equal.
    unfold swap4. apply ldu_stu_disjoint; try lia. apply st_ok_in; lia. }
  split; [exact L1|]. split; [|repeat split; assumption].
  unfold rtr_handle_error_pdu__len_err_txt_gen. cbv zeta.
  change (ptr_add (Some 0) offsetof_pdu_error__len_enc_pdu) with (Some 8).
  change (ptr_add (Some 0) offsetof_pdu_error__rest) with (Some 12).
  rewrite L1. cbn [ptr_add]. rewrite L2.
  rewrite !ld_ok_in by (rewrite ?footer_host_length; lia). reflexivity.
Qed.

(* ---- the hypotheses are satisfiable, and what mem' is.  The expected bytes below are the output of the compiled C
        (rtr_pdu_check_size, rtr_pdu_footer_to_host_byte_order and the load of rtr_handle_error_pdu run on the same
        buffers; more of them in Rtr/FooterDiff.v) ---- *)
Ltac bytes_ok := repeat (apply Forall_cons; [unfold byte_ok; lia|]); apply Forall_nil.
Ltac conjs := repeat match goal with |- _ /\ _ => split end.
Ltac buffer_ok := split; [bytes_ok|split; [vm_compute; discriminate|vm_compute; reflexivity]].

(* Error Report, code 2, encapsulated PDU of 8 bytes (a Reset Query), text "oops" *)
Example footer_error_example :
  let mem  := [1; 10; 2; 0; 28; 0; 0; 0;  0; 0; 0; 8;  1; 2; 0; 0; 0; 0; 0; 8;  0; 0; 0; 4;  111; 111; 112; 115] in
  let mem' := [1; 10; 2; 0; 28; 0; 0; 0;  8; 0; 0; 0;  1; 2; 0; 0; 0; 0; 0; 8;  4; 0; 0; 0;  111; 111; 112; 115] in
  recv_buffer mem /\ rtr_pdu_check_size_gen mem (Some 0) = Some 1 /\ mbyte mem 1 = c_ERROR /\
  rtr_pdu_convert_footer_byte_order_gen mem (Some 0) c_TO_HOST_HOST_BYTE_ORDER = Some mem' /\
  rtr_pdu_footer_to_host_byte_order_gen mem (Some 0) = Some mem' /\
  rtr_handle_error_pdu__len_err_txt_gen mem' (Some 0) = Some 4.
Proof.
  cbv zeta. split; [buffer_ok|]. conjs; vm_compute; reflexivity.
Qed.

(* End of Data, version 1: serial 258, refresh 3600, retry 600, expire 7200 *)
Example footer_eod_example :
  let mem  := [1; 7; 52; 18; 24; 0; 0; 0;  0; 0; 1; 2;  0; 0; 14; 16;  0; 0; 2; 88;  0; 0; 28; 32] in
  let mem' := [1; 7; 52; 18; 24; 0; 0; 0;  2; 1; 0; 0;  16; 14; 0; 0;  88; 2; 0; 0;  32; 28; 0; 0] in
  recv_buffer mem /\ rtr_pdu_check_size_gen mem (Some 0) = Some 1 /\
  rtr_pdu_convert_footer_byte_order_gen mem (Some 0) c_TO_HOST_HOST_BYTE_ORDER = Some mem' /\
  ldu mem' (Some offsetof_pdu_end_of_data_v1__sn) 4 = 258 /\
  ldu mem' (Some offsetof_pdu_end_of_data_v1__refresh_interval) 4 = 3600 /\
  ldu mem' (Some offsetof_pdu_end_of_data_v1__retry_interval) 4 = 600 /\
  ldu mem' (Some offsetof_pdu_end_of_data_v1__expire_interval) 4 = 7200.
Proof.
  cbv zeta. split; [buffer_ok|]. conjs; vm_compute; reflexivity.
Qed.

(* IPv6 Prefix 2001:db8::/32-48, AS 65000 (through addr6 and memcpy) *)
Example footer_ipv6_example :
  let mem  := [1; 6; 0; 0; 32; 0; 0; 0;  1; 32; 48; 0;  32; 1; 13; 184;  0; 0; 0; 0;  0; 0; 0; 0;  0; 0; 0; 0;
               0; 0; 253; 232] in
  let mem' := [1; 6; 0; 0; 32; 0; 0; 0;  1; 32; 48; 0;  184; 13; 1; 32;  0; 0; 0; 0;  0; 0; 0; 0;  0; 0; 0; 0;
               232; 253; 0; 0] in
  recv_buffer mem /\ rtr_pdu_check_size_gen mem (Some 0) = Some 1 /\
  rtr_pdu_convert_footer_byte_order_gen mem (Some 0) c_TO_HOST_HOST_BYTE_ORDER = Some mem' /\
  ldu mem' (Some offsetof_pdu_ipv6__asn) 4 = 65000.
Proof.
  cbv zeta. split; [buffer_ok|]. conjs; vm_compute; reflexivity.
Qed.

(* ---- necessity: complete Error Reports that the size check REJECTS and on which the conversion would write outside
        the PDU - the translated conversion returns None.  (1) 16 bytes, encapsulated length 100: the second store
        would go to bytes 112..115.  (2) encapsulated length 0xffffffff: to bytes 4294967307.. ---- *)
Example footer_needs_check_1 :
  let mem := [1; 10; 2; 0; 16; 0; 0; 0;  0; 0; 0; 100;  0; 0; 0; 0] in
  recv_buffer mem /\ rtr_pdu_check_size_gen mem (Some 0) = Some 0 /\
  rtr_pdu_convert_footer_byte_order_gen mem (Some 0) c_TO_HOST_HOST_BYTE_ORDER = None.
Proof.
  cbv zeta. split; [buffer_ok|]. conjs; vm_compute; reflexivity.
Qed.

Example footer_needs_check_2 :
  let mem := [1; 10; 2; 0; 16; 0; 0; 0;  255; 255; 255; 255;  0; 0; 0; 0] in
  recv_buffer mem /\ rtr_pdu_check_size_gen mem (Some 0) = Some 0 /\
  rtr_pdu_convert_footer_byte_order_gen mem (Some 0) c_TO_HOST_HOST_BYTE_ORDER = None.
Proof.
  (* lazy, not vm_compute: guard is a function, so call-by-value evaluation would compute the guarded load's
     address as a unary number (Z.to_nat 4294967307) although the guard has already failed *)
  cbv zeta. split; [buffer_ok|]. conjs; lazy; reflexivity.
Qed.

Example footer_translator_clean : memw_translator_problems = [].
Proof. reflexivity. Qed.

Print Assumptions header_translated.
Print Assumptions recv_buffer_of_wire.
Print Assumptions footer_translated.
Print Assumptions receive_path_inside.
Print Assumptions footer_writes_inside.
Print Assumptions footer_to_host_translated.
Print Assumptions footer_error_arm.
Print Assumptions error_text_len_load_inside.
Print Assumptions footer_error_example.
Print Assumptions footer_eod_example.
Print Assumptions footer_ipv6_example.
Print Assumptions footer_needs_check_1.
Print Assumptions footer_needs_check_2.
