(* SendSites.v - C14 (4): one Error Report per detected protocol violation, with the prescribed code,
   the encapsulated bytes a prefix of the offending PDU as received, and a consistent text length.
   Also the "rejected" half of C04 (the exchange fails, the state machine goes to ERROR_FATAL).

   [Q l w w']: between w and w' the model made exactly the send attempts for the byte strings in l
   (in order, one tr_send_all call each) and handed nothing else to the transport. *)
From RtrV Require Import Base.CSem Gen.Generated Rtr.RtrModel Rtr.RelFrame Rtr.RecvBase Rtr.SendBase Rtr.RecvProofs Rtr.SendProofs.
Local Open Scope Z_scope.

Notation length := List.length.

Inductive attempts : list (list byte) -> list titem -> Prop :=
| at_nil l : nosend l -> attempts [] l
| at_cons b bs pre g c post : nosend pre -> attempt b c g -> attempts bs post -> attempts (b :: bs) (pre ++ g ++ post).

Lemma attempts_pre pre bs l : nosend pre -> attempts bs l -> attempts bs (pre ++ l).
Proof.
  intros Hp H. destruct H as [l Hl|b bs pre' g c post Hpre Ha Hpost].
  - apply at_nil. now apply nosend_app.
  - rewrite app_assoc. eapply at_cons; eauto. now apply nosend_app.
Qed.
Lemma attempts_app l1 l2 i1 i2 : attempts l1 i1 -> attempts l2 i2 -> attempts (l1 ++ l2) (i1 ++ i2).
Proof.
  intros H1 H2. induction H1 as [l Hl|b bs pre g c post Hpre Ha Hpost IH].
  - cbn [app]. now apply attempts_pre.
  - cbn [app]. rewrite <- !app_assoc. eapply at_cons; eauto.
Qed.

Definition Q (l : list (list byte)) (w w' : world) : Prop :=
  (exists items, out w' = rev items ++ out w /\ attempts l items) /\
  version (sk w') = version (sk w) /\ (~ shut w -> ~ shut w').

Lemma Q_refl w : Q [] w w.
Proof. split; [exists []; split; [reflexivity|apply at_nil, nosend_nil]|split; auto]. Qed.
Lemma Q_trans l1 l2 a b c : Q l1 a b -> Q l2 b c -> Q (l1 ++ l2) a c.
Proof.
  intros ((i1 & O1 & A1) & V1 & S1) ((i2 & O2 & A2) & V2 & S2). split.
  - exists (i1 ++ i2). split; [rewrite O2, O1, rev_app_distr, app_assoc; reflexivity|now apply attempts_app].
  - split; [congruence|auto].
Qed.
Lemma Q_nosend w w' items :
  out w' = rev items ++ out w -> nosend items -> version (sk w') = version (sk w) -> (~ shut w -> ~ shut w') -> Q [] w w'.
Proof. intros Ho Hn Hv Hs. split; [exists items; split; [exact Ho|now apply at_nil]|now split]. Qed.

(* Hoare triples for exception-free code, with the log of send attempts *)
Definition postQ {A} (m : world -> res A) (w : world) (P : A -> world -> list (list byte) -> Prop) : Prop :=
  ~ shut w -> match m w with Ok a w' => exists l, Q l w w' /\ P a w' l | Exc _ _ => False end.

Lemma postQ_ret {A} (a : A) w (P : A -> world -> list (list byte) -> Prop) : P a w [] -> postQ (ret a) w P.
Proof. intros H _. unfold ret. exists []. split; [apply Q_refl|exact H]. Qed.
Lemma postQ_bind {A B} (m : world -> res A) (f : A -> world -> res B) w (P0 : A -> world -> list (list byte) -> Prop) (P : B -> world -> list (list byte) -> Prop) :
  postQ m w P0 ->
  (forall a w1 l1, Q l1 w w1 -> P0 a w1 l1 -> postQ (f a) w1 (fun b w2 l2 => P b w2 (l1 ++ l2))) ->
  postQ (bind m f) w P.
Proof.
  unfold postQ, bind. intros Hm Hf Hs. specialize (Hm Hs). destruct (m w) as [a w1|]; [|contradiction].
  destruct Hm as (l1 & Q1 & P1). specialize (Hf a w1 l1 Q1 P1 (proj2 (proj2 Q1) Hs)).
  destruct (f a w1) as [b w2|]; [|contradiction]. destruct Hf as (l2 & Q2 & P2).
  exists (l1 ++ l2). split; [eapply Q_trans; eauto|exact P2].
Qed.
(* a step that sends nothing and is known exactly *)
Lemma postQ_step {A B} (m : world -> res A) (f : A -> world -> res B) w (P : B -> world -> list (list byte) -> Prop) a w1 :
  m w = Ok a w1 -> Q [] w w1 -> postQ (f a) w1 P -> postQ (bind m f) w P.
Proof.
  unfold postQ, bind. intros -> Q1 H Hs. specialize (H (proj2 (proj2 Q1) Hs)). destruct (f a w1) as [b w2|]; [|contradiction].
  destruct H as (l & Q2 & HP). exists l. split; [apply (Q_trans [] l w w1 w2); assumption|exact HP].
Qed.
Lemma postQ_conseq {A} (m : world -> res A) w (P P' : A -> world -> list (list byte) -> Prop) :
  postQ m w P -> (forall a w' l, Q l w w' -> P a w' l -> P' a w' l) -> postQ m w P'.
Proof.
  unfold postQ. intros H Hi Hs. specialize (H Hs). destruct (m w) as [a w'|]; [|contradiction].
  destruct H as (l & Q1 & HP). exists l. split; [exact Q1|now apply Hi].
Qed.

(* ---------- leaves ---------- *)
Lemma change_state_Q ns w :
  ns <> c_RTR_SHUTDOWN ->
  postQ (change_state ns) w (fun _ w' l => l = [] /\ st (sk w') = ns /\ pfx w' = pfx w /\ keys w' = keys w /\
                                           version (sk w') = version (sk w) /\ (st (sk w) = ns -> w' = w)).
Proof.
  intros Hns Hs. rewrite change_state_eq. exists [].
  destruct (st (sk w) =? ns) eqn:E1; cbn [orb].
  - apply Z.eqb_eq in E1. split; [apply Q_refl|]. repeat split; auto.
  - destruct (st (sk w) =? c_RTR_SHUTDOWN) eqn:E2; [apply Z.eqb_eq in E2; contradiction|].
    apply Z.eqb_neq in E1, E2. split.
    + apply (Q_nosend _ _ [TState ns]); [reflexivity|nosend_tac|reflexivity|].
      intros _. unfold shut. cbn [sk st upd_st]. exact Hns.
    + repeat split; auto. intros Hc. congruence.
Qed.

Lemma postQ_elim {A} (m : world -> res A) w P :
  ~ shut w -> postQ m w P -> exists a w' l, m w = Ok a w' /\ Q l w w' /\ P a w' l.
Proof. unfold postQ. intros Hs H. specialize (H Hs). destruct (m w) as [a w'|]; [|contradiction]. destruct H as (l & HQ & HP). now exists a, w', l. Qed.

Definition report_for (enc : list byte) (v code : Z) (text : list byte) : list (list byte) :=
  if is_err_pdu enc then [] else [error_report v code enc text].

Lemma send_error_pdu_Q enc code text w :
  postQ (send_error_pdu enc code text) w
        (fun _ w' l => frame_send w w' /\ l = report_for enc (version (sk w)) code text).
Proof.
  unfold postQ. intros Hs. pose proof (send_error_pdu_spec enc code text w Hs) as H.
  destruct (send_error_pdu enc code text w) as [r w'|]; [|exact H].
  destruct H as (Hfr & H). unfold report_for. destruct (is_err_pdu enc).
  - destruct H as [-> _]. exists []. split; [apply Q_refl|now split].
  - destruct H as (g & c & Hout & Ha & _). exists [error_report (version (sk w)) code enc text].
    split; [|now split]. destruct Hfr as (Hsk & _). split; [|split].
    + exists g. split; [exact Hout|]. rewrite <- (app_nil_r g). apply (at_cons _ [] [] g c []); [apply nosend_nil|exact Ha|apply at_nil, nosend_nil].
    + now rewrite Hsk.
    + unfold shut. now rewrite Hsk.
Qed.

Lemma zlen0_nil {A} (l : list A) : zlen l = 0 -> l = [].
Proof. destruct l; [reflexivity|]. rewrite zlen_cons. pose proof (zlen_nonneg l). lia. Qed.

Lemma send_error_from_host_Q enc code text w :
  zlen enc = 0 \/ 8 <= zlen enc ->
  postQ (send_error_from_host enc code text) w
        (fun _ w' l => frame_send w w' /\ l = report_for enc (version (sk w)) code text).
Proof.
  intros Hl. rewrite send_error_from_host_eq.
  destruct (zlen enc =? 0) eqn:E0.
  - apply Z.eqb_eq in E0. apply zlen0_nil in E0. subst enc. apply send_error_pdu_Q.
  - apply Z.eqb_neq in E0. destruct (zlen enc <? 8) eqn:E8; [apply Z.ltb_lt in E8; lia|]. apply send_error_pdu_Q.
Qed.

Lemma frame_send_T' w w' : frame_send w w' -> T w w'.
Proof. apply frame_send_T. Qed.
Lemma frame_send_notshut w w' : frame_send w w' -> ~ shut w -> ~ shut w'.
Proof. intros (Hsk & _). unfold shut. now rewrite Hsk. Qed.

Definition FATAL_ne : c_RTR_ERROR_FATAL <> c_RTR_SHUTDOWN. Proof. discriminate. Qed.

(* the common tails: report, go to ERROR_FATAL, return *)
Lemma tail_host_fatal {A} enc code text (v : A) w :
  zlen enc = 0 \/ 8 <= zlen enc ->
  postQ (mdo _ <- send_error_from_host enc code text; mdo _ <- change_state c_RTR_ERROR_FATAL; ret v) w
        (fun r w' l => r = v /\ l = report_for enc (version (sk w)) code text /\ st (sk w') = c_RTR_ERROR_FATAL /\ T w w').
Proof.
  intros Hl. eapply postQ_bind; [apply send_error_from_host_Q; auto|].
  intros _ w1 l1 Q1 (Hfr & ->).
  eapply postQ_bind; [apply change_state_Q, FATAL_ne|].
  intros _ w2 l2 Q2 (-> & Hst & Hp & Hk & _ & _).
  apply postQ_ret. rewrite !app_nil_r. split; [reflexivity|]. split; [reflexivity|].
  split; [exact Hst|].
  apply frame_send_T in Hfr. destruct Hfr as [? ?]. split; congruence.
Qed.
Lemma tail_net_fatal {A} enc code text (v : A) w :
  postQ (mdo _ <- send_error_pdu enc code text; mdo _ <- change_state c_RTR_ERROR_FATAL; ret v) w
        (fun r w' l => r = v /\ l = report_for enc (version (sk w)) code text /\ st (sk w') = c_RTR_ERROR_FATAL /\ T w w').
Proof.
  eapply postQ_bind; [apply send_error_pdu_Q|].
  intros _ w1 l1 Q1 (Hfr & ->).
  eapply postQ_bind; [apply change_state_Q, FATAL_ne|].
  intros _ w2 l2 Q2 (-> & Hst & Hp & Hk & _ & _).
  apply postQ_ret. rewrite !app_nil_r. split; [reflexivity|]. split; [reflexivity|].
  split; [exact Hst|].
  apply frame_send_T in Hfr. destruct Hfr as [? ?]. split; congruence.
Qed.
Lemma tail_host_ret {A} enc code text (v : A) w :
  zlen enc = 0 \/ 8 <= zlen enc ->
  postQ (mdo _ <- send_error_from_host enc code text; ret v) w
        (fun r w' l => r = v /\ l = report_for enc (version (sk w)) code text /\ sk w' = sk w /\ T w w').
Proof.
  intros Hl. eapply postQ_bind; [apply send_error_from_host_Q; auto|].
  intros _ w1 l1 Q1 (Hfr & ->). apply postQ_ret. rewrite app_nil_r.
  split; [reflexivity|]. split; [reflexivity|]. split; [apply Hfr|now apply frame_send_T].
Qed.
Lemma tail_net_ret {A} enc code text (v : A) w :
  postQ (mdo _ <- send_error_pdu enc code text; ret v) w
        (fun r w' l => r = v /\ l = report_for enc (version (sk w)) code text /\ sk w' = sk w /\ T w w').
Proof.
  eapply postQ_bind; [apply send_error_pdu_Q|].
  intros _ w1 l1 Q1 (Hfr & ->). apply postQ_ret. rewrite app_nil_r.
  split; [reflexivity|]. split; [reflexivity|]. split; [apply Hfr|now apply frame_send_T].
Qed.

Lemma is_err_pdu_hdr (h : list byte) : 2 <= zlen h -> is_err_pdu h = (nthb h 1 =? c_ERROR).
Proof. intros H. unfold is_err_pdu. replace (2 <=? zlen h) with true by (symmetry; apply Z.leb_le; lia). reflexivity. Qed.

(* ================= the violation classes, one theorem each ================= *)

(* --- receive_pdu: the header has arrived --- *)
Section Header.
Variables (t : Z) (w w1 : world) (h : list byte).
Hypothesis Hs : ~ shut w.
Hypothesis H8 : tr_recv_all 8 t w = Ok (inr h) w1.

Lemma hdr_facts : zlen h = 8 /\ frame_recv w w1 /\ ~ shut w1.
Proof.
  pose proof (tr_recv_all_spec 8 t w ltac:(lia)) as H. rewrite H8 in H. destruct H as [Hl Hf].
  split; [exact Hl|]. split; [exact Hf|]. destruct Hf as (Hsk & _). unfold shut. now rewrite Hsk.
Qed.

Lemma receive_pdu_after_hdr :
  receive_pdu t w =
  (let ver := nthb h 0 in let ty := nthb h 1 in let len := get32 h 4 in
    if len <? 8 then
      mdo _ <- send_error_pdu h c_CORRUPT_DATA txt_too_small; mdo _ <- change_state c_RTR_ERROR_FATAL; ret (inl (-1))
    else if len >? c_RTR_MAX_PDU_LEN then
      mdo _ <- send_error_pdu h c_CORRUPT_DATA txt_too_big; mdo _ <- change_state c_RTR_ERROR_FATAL; ret (inl (-1))
    else
    mdo _ <- (mdo s <- get_sk;
              if has_recv s then ret tt
              else let s1 := if (version s =? 1) && (ver =? 0) && negb (ty =? c_ERROR) then upd_version s 0 else s in
                   set_sk (upd_hasrecv s1 true));
    mdo s <- get_sk;
    if negb (ver =? version s) && negb (ty =? c_ERROR) then
      mdo _ <- send_error_pdu h c_UNEXPECTED_PROTOCOL_VERSION []; ret (inl (-1))
    else
    mdo rest <- (if len - 8 >? 0
                 then (mdo s2 <- get_sk;
                       if st s2 =? c_RTR_SHUTDOWN then ret (inl (-1)) else tr_recv_all (len - 8) c_RTR_RECV_TIMEOUT)
                 else ret (inr []));
    match rest with
    | inl c => recv_err c
    | inr body =>
      let p := h ++ body in
      if check_size p then ret (inr p)
      else mdo _ <- send_error_pdu h c_CORRUPT_DATA txt_too_small; mdo _ <- change_state c_RTR_ERROR_FATAL; ret (inl (-1))
    end) w1.
Proof.
  unfold receive_pdu. unfold bind at 1. unfold get_sk.
  destruct (st (sk w) =? c_RTR_SHUTDOWN) eqn:E; [apply Z.eqb_eq in E; contradiction|].
  unfold bind at 1. rewrite H8. reflexivity.
Qed.

(* classes 1 and 2: length field smaller than a header / larger than the client's maximum *)
Theorem report_bad_length :
  get32 h 4 < 8 \/ get32 h 4 > c_RTR_MAX_PDU_LEN ->
  exists w', receive_pdu t w = Ok (inl (-1)) w' /\
    Q (report_for h (version (sk w)) c_CORRUPT_DATA (if get32 h 4 <? 8 then txt_too_small else txt_too_big)) w1 w' /\
    st (sk w') = c_RTR_ERROR_FATAL /\ T w w'.
Proof.
  intros Hl. destruct hdr_facts as (Hz & Hf & Hs1). rewrite receive_pdu_after_hdr. cbv zeta.
  assert (Hsk : sk w1 = sk w) by apply Hf.
  assert (HT : T w w1) by (destruct Hf as (_ & ? & ? & _); now split).
  destruct (get32 h 4 <? 8) eqn:E1.
  - destruct (postQ_elim _ _ _ Hs1 (tail_net_fatal h c_CORRUPT_DATA txt_too_small (@inl Z (list byte) (-1)) w1)) as (a & w' & l & He & HQ & -> & -> & Hst & HT2).
    exists w'. rewrite He. rewrite <- Hsk. split; [reflexivity|]. split; [exact HQ|]. split; [exact Hst|eapply T_trans; eauto].
  - apply Z.ltb_ge in E1. replace (get32 h 4 >? c_RTR_MAX_PDU_LEN) with true by (symmetry; apply Z.gtb_lt; lia).
    destruct (postQ_elim _ _ _ Hs1 (tail_net_fatal h c_CORRUPT_DATA txt_too_big (@inl Z (list byte) (-1)) w1)) as (a & w' & l & He & HQ & -> & -> & Hst & HT2).
    exists w'. rewrite He. rewrite <- Hsk. split; [reflexivity|]. split; [exact HQ|]. split; [exact Hst|eapply T_trans; eauto].
Qed.

(* the world after the live-downgrade step of rtr_receive_pdu *)
Definition hdr_world (wa : world) (ha : list byte) : world :=
  let s := sk wa in
  if has_recv s then wa
  else mkW (upd_hasrecv (if (version s =? 1) && (nthb ha 0 =? 0) && negb (nthb ha 1 =? c_ERROR) then upd_version s 0 else s) true)
           (pfx wa) (keys wa) (evs wa) (opens wa) (sends wa) (now wa) (out wa).

Lemma hdr_world_facts wa ha :
  st (sk (hdr_world wa ha)) = st (sk wa) /\ pfx (hdr_world wa ha) = pfx wa /\ keys (hdr_world wa ha) = keys wa /\
  out (hdr_world wa ha) = out wa /\ version (sk (hdr_world wa ha)) <= version (sk wa) /\
  (nthb ha 0 <> version (sk (hdr_world wa ha)) -> nthb ha 1 <> c_ERROR -> version (sk (hdr_world wa ha)) = version (sk wa)).
Proof.
  unfold hdr_world. cbv zeta. destruct (has_recv (sk wa)); [repeat split; auto; lia|].
  destruct ((version (sk wa) =? 1) && (nthb ha 0 =? 0) && negb (nthb ha 1 =? c_ERROR)) eqn:E; cbn [sk st version upd_hasrecv upd_version pfx keys out].
  - apply andb_true_iff in E. destruct E as [E _]. apply andb_true_iff in E. destruct E as [E1 E2].
    apply Z.eqb_eq in E1, E2. repeat split; auto; try lia; try (intros; congruence).
  - repeat split; auto; lia.
Qed.

Lemma receive_pdu_after_hdr2 :
  8 <= get32 h 4 <= c_RTR_MAX_PDU_LEN ->
  receive_pdu t w =
  (let ver := nthb h 0 in let ty := nthb h 1 in let len := get32 h 4 in
    mdo s <- get_sk;
    if negb (ver =? version s) && negb (ty =? c_ERROR) then
      mdo _ <- send_error_pdu h c_UNEXPECTED_PROTOCOL_VERSION []; ret (inl (-1))
    else
    mdo rest <- (if len - 8 >? 0
                 then (mdo s2 <- get_sk;
                       if st s2 =? c_RTR_SHUTDOWN then ret (inl (-1)) else tr_recv_all (len - 8) c_RTR_RECV_TIMEOUT)
                 else ret (inr []));
    match rest with
    | inl c => recv_err c
    | inr body =>
      let p := h ++ body in
      if check_size p then ret (inr p)
      else mdo _ <- send_error_pdu h c_CORRUPT_DATA txt_too_small; mdo _ <- change_state c_RTR_ERROR_FATAL; ret (inl (-1))
    end) (hdr_world w1 h).
Proof.
  intros Hl. rewrite receive_pdu_after_hdr. cbv zeta.
  replace (get32 h 4 <? 8) with false by (symmetry; apply Z.ltb_ge; lia).
  replace (get32 h 4 >? c_RTR_MAX_PDU_LEN) with false by (symmetry; rewrite Z.gtb_ltb; apply Z.ltb_ge; lia).
  unfold bind at 1. unfold hdr_world. cbv zeta. unfold bind at 1. unfold get_sk at 1.
  destruct (has_recv (sk w1)); reflexivity.
Qed.

(* class 4: unexpected protocol version *)
Theorem report_bad_version :
  8 <= get32 h 4 <= c_RTR_MAX_PDU_LEN ->
  nthb h 0 <> version (sk (hdr_world w1 h)) -> nthb h 1 <> c_ERROR ->
  exists w', receive_pdu t w = Ok (inl (-1)) w' /\
  Q [error_report (version (sk w)) c_UNEXPECTED_PROTOCOL_VERSION h []] w1 w' /\
  st (sk w') = st (sk w) /\ T w w'.
Proof.
  intros Hl Hv Ht. destruct hdr_facts as (Hz & Hf & Hs1). rewrite (receive_pdu_after_hdr2 Hl). cbv zeta.
  pose proof (hdr_world_facts w1 h) as (F1 & F2 & F3 & F4 & F5 & F6). specialize (F6 Hv Ht).
  set (w2 := hdr_world w1 h) in *.
  assert (Hsk : sk w1 = sk w) by apply Hf.
  unfold bind at 1. unfold get_sk.
  replace (negb (nthb h 0 =? version (sk w2)) && negb (nthb h 1 =? c_ERROR)) with true.
  2:{ symmetry. apply andb_true_iff. split; apply negb_true_iff; now apply Z.eqb_neq. }
  assert (Hs2 : ~ shut w2) by (unfold shut; rewrite F1; exact Hs1).
  destruct (postQ_elim _ _ _ Hs2 (tail_net_ret h c_UNEXPECTED_PROTOCOL_VERSION [] (@inl Z (list byte) (-1)) w2)) as (a & w' & l & He & HQ & -> & -> & Hsk' & HT2).
  exists w'. rewrite He. split; [reflexivity|]. split; [|split].
  - unfold report_for in HQ. rewrite is_err_pdu_hdr in HQ by lia.
    replace (nthb h 1 =? c_ERROR) with false in HQ by (symmetry; now apply Z.eqb_neq).
    rewrite F6, Hsk in HQ. destruct HQ as ((items & Ho & Ha) & Hver & Hsh). split; [|split].
    + exists items. split; [now rewrite Ho, F4|exact Ha].
    + rewrite Hver, F6. reflexivity.
    + intros _. apply Hsh. exact Hs2.
  - rewrite Hsk', F1, Hsk. reflexivity.
  - destruct HT2 as [T1 T2]. destruct Hf as (_ & P1 & P2 & _). split; congruence.
Qed.

(* class 3: length inconsistent with the type, and unknown / reserved types: detected when the announced
   number of bytes has arrived *)
Theorem report_bad_size body w3 :
  8 <= get32 h 4 <= c_RTR_MAX_PDU_LEN ->
  nthb h 0 = version (sk (hdr_world w1 h)) \/ nthb h 1 = c_ERROR ->
  (if get32 h 4 - 8 >? 0 then tr_recv_all (get32 h 4 - 8) c_RTR_RECV_TIMEOUT (hdr_world w1 h) else Ok (inr []) (hdr_world w1 h))
    = Ok (inr body) w3 ->
  check_size (h ++ body) = false ->
  exists w', receive_pdu t w = Ok (inl (-1)) w' /\
  Q (report_for h (version (sk (hdr_world w1 h))) c_CORRUPT_DATA txt_too_small) w3 w' /\
  st (sk w') = c_RTR_ERROR_FATAL /\ T w w'.
Proof.
  intros Hl Hv Hb Hc. destruct hdr_facts as (Hz & Hf & Hs1). rewrite (receive_pdu_after_hdr2 Hl). cbv zeta.
  pose proof (hdr_world_facts w1 h) as (F1 & F2 & F3 & F4 & F5 & _).
  set (w2 := hdr_world w1 h) in *.
  assert (Hs2 : ~ shut w2) by (unfold shut; rewrite F1; exact Hs1).
  unfold bind at 1. unfold get_sk at 1.
  replace (negb (nthb h 0 =? version (sk w2)) && negb (nthb h 1 =? c_ERROR)) with false.
  2:{ symmetry. apply andb_false_iff. destruct Hv as [Hv|Hv]; [left|right]; apply negb_false_iff; now apply Z.eqb_eq. }
  unfold bind at 1.
  assert (Hrest : (if get32 h 4 - 8 >? 0
                   then (mdo s2 <- get_sk; if st s2 =? c_RTR_SHUTDOWN then ret (inl (-1)) else tr_recv_all (get32 h 4 - 8) c_RTR_RECV_TIMEOUT)
                   else ret (inr [])) w2 = Ok (inr body) w3).
  { destruct (get32 h 4 - 8 >? 0); [|exact Hb]. unfold bind, get_sk.
    destruct (st (sk w2) =? c_RTR_SHUTDOWN) eqn:E; [apply Z.eqb_eq in E; contradiction|exact Hb]. }
  rewrite Hrest. cbv zeta. rewrite Hc.
  assert (Hf3 : frame_recv w2 w3).
  { destruct (get32 h 4 - 8 >? 0) eqn:E.
    - pose proof (tr_recv_all_spec (get32 h 4 - 8) c_RTR_RECV_TIMEOUT w2 ltac:(lia)) as H. rewrite Hb in H. apply H.
    - injection Hb as _ <-. apply frame_recv_refl. }
  assert (Hs3 : ~ shut w3) by (destruct Hf3 as (Hsk3 & _); unfold shut; rewrite Hsk3; exact Hs2).
  destruct (postQ_elim _ _ _ Hs3 (tail_net_fatal h c_CORRUPT_DATA txt_too_small (@inl Z (list byte) (-1)) w3)) as (a & w' & l & He & HQ & -> & -> & Hst & HT2).
  exists w'. rewrite He. split; [reflexivity|]. destruct Hf3 as (Hsk3 & P3 & K3 & _). rewrite Hsk3 in HQ.
  split; [exact HQ|]. split; [exact Hst|].
  destruct HT2 as [T1 T2]. destruct Hf as (_ & P1 & P2 & _). split; congruence.
Qed.
End Header.

Lemma report_for_nil v code text : report_for [] v code text = [error_report v code [] text].
Proof. reflexivity. Qed.
Lemma report_for_not_err enc v code text : 2 <= zlen enc -> nthb enc 1 <> c_ERROR -> report_for enc v code text = [error_report v code enc text].
Proof.
  intros Hl Hn. unfold report_for. rewrite is_err_pdu_hdr by exact Hl.
  replace (nthb enc 1 =? c_ERROR) with false by (symmetry; now apply Z.eqb_neq). reflexivity.
Qed.
Lemma firstn8_facts (p : list byte) : 8 <= zlen p -> zlen (firstn 8 p) = 8 /\ nthb (firstn 8 p) 1 = nthb p 1.
Proof.
  intros H. split.
  - unfold zlen in *. rewrite firstn_length. lia.
  - unfold nthb. rewrite <- (firstn_skipn 8 p) at 2. rewrite app_nth1; [reflexivity|]. unfold zlen in H. rewrite firstn_length. lia.
Qed.

Lemma sync_first_ok fuel : forall w p w1, sync_first fuel w = Ok (Some p) w1 -> pdu_ok p.
Proof.
  induction fuel as [|f IH]; intros w p w1 H; cbn [sync_first] in H; [discriminate|].
  unfold bind at 1 in H. destruct (receive_pdu c_RTR_RECV_TIMEOUT w) as [[c|q] w2|] eqn:E; [ | |discriminate].
  - unfold bind at 1 in H. unfold get_sk in H.
    repeat match type of H with (if ?c then _ else _) _ = _ => destruct c end;
      unfold bind, set_sk, ret in H; try rewrite change_state_eq in H; try discriminate.
    all: repeat match type of H with match ?x with _ => _ end = _ => destruct x end; discriminate.
  - destruct (nthb q 1 =? c_SERIAL_NOTIFY); [eapply IH; eauto|]. unfold ret in H. injection H as <- _.
    eapply receive_pdu_ok; eauto.
Qed.

(* --- rtr_sync: the first PDU of the answer has arrived --- *)
Section Sync.
Variables (fuel : nat) (w w1 : world) (p : list byte).
Hypothesis H1 : sync_first fuel w = Ok (Some p) w1.
Hypothesis Hs1 : ~ shut w1.

Lemma rtr_sync_after_first :
  rtr_sync fuel w =
  (let ty := nthb p 1 in
    if ty =? c_ERROR then mdo _ <- handle_error_pdu p; ret (-1)
    else if ty =? c_CACHE_RESET then mdo _ <- change_state c_RTR_ERROR_NO_INCR_UPDATE_AVAIL; ret (-1)
    else if ty =? c_CACHE_RESPONSE then
      mdo s <- get_sk;
      mdo ok <- (if req_sess s
                 then mdo _ <- set_sk (upd_session (if negb (last_update s =? 0) then upd_resetting s true else s) (get16 p 2)); ret true
                 else if negb (session_id s =? get16 p 2)
                      then mdo _ <- send_error_from_host [] c_CORRUPT_DATA txt_wrong_session;
                           mdo _ <- change_state c_RTR_ERROR_FATAL; ret false
                      else ret true);
      if negb ok then ret (-1)
      else
      mdo r <- receive_and_store fuel;
      if r =? 0 then
        mdo _ <- modify_sk (fun s => upd_req s false);
        mdo t <- get_now;
        mdo _ <- modify_sk (fun s => upd_last s t);
        ret 0
      else ret (-1)
    else mdo _ <- send_error_from_host (firstn 8 p) c_CORRUPT_DATA txt_unexp_sync; ret (-1)) w1.
Proof. unfold rtr_sync. unfold bind at 1. rewrite H1. reflexivity. Qed.

(* class 5: Cache Response with a session id other than the one of the running session: a report WITHOUT an
   encapsulated PDU (k = 0; the C passes NULL, 0) *)
Theorem report_wrong_session :
  nthb p 1 = c_CACHE_RESPONSE -> req_sess (sk w1) = false -> session_id (sk w1) <> get16 p 2 ->
  exists w', rtr_sync fuel w = Ok (-1) w' /\
    Q [error_report (version (sk w1)) c_CORRUPT_DATA [] txt_wrong_session] w1 w' /\
    st (sk w') = c_RTR_ERROR_FATAL /\ T w1 w'.
Proof.
  intros Ht Hr Hn. rewrite rtr_sync_after_first. cbv zeta. rewrite Ht.
  change (c_CACHE_RESPONSE =? c_ERROR) with false. change (c_CACHE_RESPONSE =? c_CACHE_RESET) with false.
  change (c_CACHE_RESPONSE =? c_CACHE_RESPONSE) with true. cbv iota.
  unfold bind at 1. unfold get_sk at 1. rewrite Hr.
  replace (negb (session_id (sk w1) =? get16 p 2)) with true by (symmetry; apply negb_true_iff; now apply Z.eqb_neq).
  assert (H : postQ (mdo ok <- (mdo _ <- send_error_from_host [] c_CORRUPT_DATA txt_wrong_session; mdo _ <- change_state c_RTR_ERROR_FATAL; ret false);
                     if negb ok then ret (-1)
                     else mdo r <- receive_and_store fuel;
                          if r =? 0 then mdo _ <- modify_sk (fun s => upd_req s false); mdo t <- get_now; mdo _ <- modify_sk (fun s => upd_last s t); ret 0
                          else ret (-1)) w1
                    (fun r w' l => r = -1 /\ l = [error_report (version (sk w1)) c_CORRUPT_DATA [] txt_wrong_session] /\
                                   st (sk w') = c_RTR_ERROR_FATAL /\ T w1 w')).
  { eapply postQ_bind; [apply (tail_host_fatal [] c_CORRUPT_DATA txt_wrong_session false w1); left; reflexivity|].
    intros ok w2 l2 Q2 (-> & -> & Hst & HT). cbn [negb]. apply postQ_ret. rewrite app_nil_r. repeat split; auto; apply HT. }
  destruct (postQ_elim _ _ _ Hs1 H) as (a & w' & l & He & HQ & -> & -> & Hst & HT).
  exists w'. split; [exact He|]. split; [exact HQ|]. split; [exact Hst|exact HT].
Qed.

(* class 6: a PDU that cannot start an answer (anything but Cache Response, Cache Reset, Error Report;
   Serial Notify is skipped by sync_first): header echo; the socket state is NOT changed *)
Theorem report_unexpected_in_sync :
  nthb p 1 <> c_ERROR -> nthb p 1 <> c_CACHE_RESET -> nthb p 1 <> c_CACHE_RESPONSE ->
  exists w', rtr_sync fuel w = Ok (-1) w' /\
    Q [error_report (version (sk w1)) c_CORRUPT_DATA (firstn 8 p) txt_unexp_sync] w1 w' /\
    sk w' = sk w1 /\ T w1 w'.
Proof.
  intros N1 N2 N3. rewrite rtr_sync_after_first. cbv zeta.
  replace (nthb p 1 =? c_ERROR) with false by (symmetry; now apply Z.eqb_neq).
  replace (nthb p 1 =? c_CACHE_RESET) with false by (symmetry; now apply Z.eqb_neq).
  replace (nthb p 1 =? c_CACHE_RESPONSE) with false by (symmetry; now apply Z.eqb_neq).
  pose proof (sync_first_ok _ _ _ _ H1) as (_ & _ & Hl & _).
  destruct (firstn8_facts p Hl) as [F1 F2].
  destruct (postQ_elim _ _ _ Hs1 (tail_host_ret (firstn 8 p) c_CORRUPT_DATA txt_unexp_sync (-1) w1 ltac:(right; lia)))
    as (a & w' & l & He & HQ & -> & -> & Hsk & HT).
  rewrite report_for_not_err in HQ by (rewrite ?F1, ?F2; auto; lia).
  exists w'. split; [exact He|]. split; [exact HQ|]. split; [exact Hsk|exact HT].
Qed.
End Sync.

(* --- the store loop: one more PDU of the answer has arrived --- *)
Section Store.
Variables (f : nat) (v4 v6 ks : list (list byte)) (w w1 : world) (p : list byte).
Hypothesis H1 : receive_pdu c_RTR_RECV_TIMEOUT w = Ok (inr p) w1.
Hypothesis Hs1 : ~ shut w1.

Lemma store_loop_after_pdu :
  store_loop (Datatypes.S f) v4 v6 ks w =
  (let ty := nthb p 1 in
      if ((ty =? c_IPV4_PREFIX) || (ty =? c_IPV6_PREFIX)) && negb (prefix_lengths_valid p) then
        mdo _ <- send_error_from_host p c_CORRUPT_DATA txt_pfx_len;
        mdo _ <- change_state c_RTR_ERROR_FATAL; ret (-1)
      else if ty =? c_IPV4_PREFIX then store_loop f (v4 ++ [p]) v6 ks
      else if ty =? c_IPV6_PREFIX then store_loop f v4 (v6 ++ [p]) ks
      else if ty =? c_ROUTER_KEY then store_loop f v4 v6 (ks ++ [p])
      else if ty =? c_EOD then process_eod p v4 v6 ks
      else if ty =? c_ERROR then mdo _ <- handle_error_pdu p; ret (-1)
      else if ty =? c_SERIAL_NOTIFY then store_loop f v4 v6 ks
      else mdo _ <- send_error_from_host (firstn 8 p) c_CORRUPT_DATA txt_unexp_store; ret (-1)) w1.
Proof. cbn [store_loop]. unfold bind at 1. rewrite H1. reflexivity. Qed.

(* class 8: prefix length or max length exceeding the address size: the whole PDU is echoed *)
Theorem report_prefix_length :
  nthb p 1 = c_IPV4_PREFIX \/ nthb p 1 = c_IPV6_PREFIX -> prefix_lengths_valid p = false ->
  exists w', store_loop (Datatypes.S f) v4 v6 ks w = Ok (-1) w' /\
    Q [error_report (version (sk w1)) c_CORRUPT_DATA p txt_pfx_len] w1 w' /\
    st (sk w') = c_RTR_ERROR_FATAL /\ T w1 w'.
Proof.
  intros Ht Hv. rewrite store_loop_after_pdu. cbv zeta.
  replace (((nthb p 1 =? c_IPV4_PREFIX) || (nthb p 1 =? c_IPV6_PREFIX)) && negb (prefix_lengths_valid p)) with true.
  2:{ symmetry. rewrite Hv. cbn [negb]. rewrite andb_true_r. apply orb_true_iff. destruct Ht as [Ht|Ht]; [left|right]; now apply Z.eqb_eq. }
  pose proof (receive_pdu_ok _ _ _ _ H1) as (_ & _ & Hl & _).
  destruct (postQ_elim _ _ _ Hs1 (tail_host_fatal p c_CORRUPT_DATA txt_pfx_len (-1) w1 ltac:(right; lia)))
    as (a & w' & l & He & HQ & -> & -> & Hst & HT).
  rewrite report_for_not_err in HQ; [|lia|destruct Ht as [Ht|Ht]; rewrite Ht; discriminate].
  exists w'. split; [exact He|]. split; [exact HQ|]. split; [exact Hst|exact HT].
Qed.

(* class 7: a PDU that cannot be part of an answer: header echo; the socket state is NOT changed *)
Theorem report_unexpected_in_store :
  ~ In (nthb p 1) [c_IPV4_PREFIX; c_IPV6_PREFIX; c_ROUTER_KEY; c_EOD; c_ERROR; c_SERIAL_NOTIFY] ->
  exists w', store_loop (Datatypes.S f) v4 v6 ks w = Ok (-1) w' /\
    Q [error_report (version (sk w1)) c_CORRUPT_DATA (firstn 8 p) txt_unexp_store] w1 w' /\
    sk w' = sk w1 /\ T w1 w'.
Proof.
  intros Hn. cbn [In] in Hn. rewrite store_loop_after_pdu. cbv zeta.
  replace (nthb p 1 =? c_IPV4_PREFIX) with false by (symmetry; apply Z.eqb_neq; intro Hc; apply Hn; rewrite Hc; auto 10).
  replace (nthb p 1 =? c_IPV6_PREFIX) with false by (symmetry; apply Z.eqb_neq; intro Hc; apply Hn; rewrite Hc; auto 10).
  replace (nthb p 1 =? c_ROUTER_KEY) with false by (symmetry; apply Z.eqb_neq; intro Hc; apply Hn; rewrite Hc; auto 10).
  replace (nthb p 1 =? c_EOD) with false by (symmetry; apply Z.eqb_neq; intro Hc; apply Hn; rewrite Hc; auto 10).
  replace (nthb p 1 =? c_ERROR) with false by (symmetry; apply Z.eqb_neq; intro Hc; apply Hn; rewrite Hc; auto 10).
  replace (nthb p 1 =? c_SERIAL_NOTIFY) with false by (symmetry; apply Z.eqb_neq; intro Hc; apply Hn; rewrite Hc; auto 10).
  cbn [orb andb].
  pose proof (receive_pdu_ok _ _ _ _ H1) as (_ & _ & Hl & _).
  destruct (firstn8_facts p Hl) as [F1 F2].
  destruct (postQ_elim _ _ _ Hs1 (tail_host_ret (firstn 8 p) c_CORRUPT_DATA txt_unexp_store (-1) w1 ltac:(right; lia)))
    as (a & w' & l & He & HQ & -> & -> & Hsk & HT).
  rewrite report_for_not_err in HQ by (rewrite ?F1, ?F2; try lia; intro Hc; apply Hn; rewrite Hc; auto 10).
  exists w'. split; [exact He|]. split; [exact HQ|]. split; [exact Hsk|exact HT].
Qed.
End Store.

(* --- End of Data --- *)
(* class 12: End of Data with a session id other than the session's: the whole PDU is echoed *)
Theorem report_eod_session p v4 v6 ks w :
  ~ shut w -> 8 <= zlen p -> nthb p 1 <> c_ERROR -> get16 p 2 <> session_id (sk w) ->
  exists w', process_eod p v4 v6 ks w = Ok (-1) w' /\
    Q [error_report (version (sk w)) c_CORRUPT_DATA p (txt_eod_session (session_id (sk w)) (get16 p 2))] w w' /\
    st (sk w') = c_RTR_ERROR_FATAL /\ T w w'.
Proof.
  intros Hs Hl Ht Hn. unfold process_eod. unfold bind at 1. unfold get_sk at 1.
  replace (negb (get16 p 2 =? session_id (sk w))) with true by (symmetry; apply negb_true_iff; now apply Z.eqb_neq).
  destruct (postQ_elim _ _ _ Hs (tail_host_fatal p c_CORRUPT_DATA (txt_eod_session (session_id (sk w)) (get16 p 2)) (-1) w ltac:(right; lia)))
    as (a & w' & l & He & HQ & -> & -> & Hst & HT).
  rewrite report_for_not_err in HQ by (auto; lia).
  exists w'. split; [exact He|]. split; [exact HQ|]. split; [exact Hst|exact HT].
Qed.

(* --- End of Data: a failing update of the stored answer --- *)
Definition upd_code (c : Z) : Z :=
  if c =? 3 then c_CORRUPT_DATA else if c =? 1 then c_DUPLICATE_ANNOUNCEMENT else c_WITHDRAWAL_OF_UNKNOWN_RECORD.
Definition upd_text (c : Z) (is_key : bool) : list byte :=
  if c =? 3 then (if is_key then txt_key_flags else txt_pfx_flags) else [].
Definition update_report (v : Z) (bad : list byte) (c : Z) (is_key : bool) : list byte :=
  error_report v (upd_code c) bad (upd_text c is_key).

(* what the three failure codes of an update mean *)
Definition update_class (bad : list byte) (c : Z) : Prop :=
  (c = 3 /\ pdu_flags bad <> 0 /\ pdu_flags bad <> 1) \/   (* invalid flags *)
  (c = 1 /\ pdu_flags bad = 1) \/                            (* announcement of a record that is present *)
  (c = 2 /\ pdu_flags bad = 0).                              (* withdrawal of a record that is absent *)

Lemma upd_pfx_class live flags r X X' c t : upd_pfx live flags r X = (X', c, t) ->
  c = 0 \/ (c = 3 /\ flags <> 0 /\ flags <> 1) \/ (c = 1 /\ flags = 1 /\ pmem r X = true) \/ (c = 2 /\ flags = 0 /\ pmem r X = false).
Proof.
  unfold upd_pfx. destruct (flags =? 1) eqn:E1; [apply Z.eqb_eq in E1|apply Z.eqb_neq in E1].
  - destruct (pmem r X) eqn:Em; intros H; injection H as _ <- _; auto 10.
  - destruct (flags =? 0) eqn:E0; [apply Z.eqb_eq in E0|apply Z.eqb_neq in E0].
    + destruct (pmem r X) eqn:Em; intros H; injection H as _ <- _; auto 10.
    + intros H; injection H as _ <- _. auto 10.
Qed.
Lemma upd_key_class live flags r X X' c t : upd_key live flags r X = (X', c, t) ->
  c = 0 \/ (c = 3 /\ flags <> 0 /\ flags <> 1) \/ (c = 1 /\ flags = 1 /\ kmem r X = true) \/ (c = 2 /\ flags = 0 /\ kmem r X = false).
Proof.
  unfold upd_key. destruct (flags =? 1) eqn:E1; [apply Z.eqb_eq in E1|apply Z.eqb_neq in E1].
  - destruct (kmem r X) eqn:Em; intros H; injection H as _ <- _; auto 10.
  - destruct (flags =? 0) eqn:E0; [apply Z.eqb_eq in E0|apply Z.eqb_neq in E0].
    + destruct (kmem r X) eqn:Em; intros H; injection H as _ <- _; auto 10.
    + intros H; injection H as _ <- _. auto 10.
Qed.

Lemma apply_pfx_fail live ps : forall X done X' t bad c done',
  apply_pfx live ps X done = (X', t, Some (bad, c, done')) -> In bad ps /\ update_class bad c.
Proof.
  induction ps as [|q ps IH]; intros X done X' t bad c done' H; cbn [apply_pfx] in H; [discriminate|].
  destruct (upd_pfx live (pdu_flags q) (prec_of_pdu q) X) as [[X1 c1] t1] eqn:Eu.
  destruct (c1 =? 0) eqn:E0.
  - destruct (apply_pfx live ps X1 (q :: done)) as [[X2 t2] f2] eqn:E. injection H as _ _ ->.
    apply IH in E. destruct E as [Hi Hc]. split; [now right|exact Hc].
  - injection H as _ _ <- <- _. apply Z.eqb_neq in E0. split; [now left|].
    apply upd_pfx_class in Eu. unfold update_class. destruct Eu as [?|[(?&?&?)|[(?&?&?)|(?&?&?)]]]; [contradiction|auto|auto|auto].
Qed.
Lemma apply_keys_fail live ps : forall X done X' t bad c done',
  apply_keys live ps X done = (X', t, Some (bad, c, done')) -> In bad ps /\ update_class bad c.
Proof.
  induction ps as [|q ps IH]; intros X done X' t bad c done' H; cbn [apply_keys] in H; [discriminate|].
  destruct (upd_key live (pdu_flags q) (krec_of_pdu q) X) as [[X1 c1] t1] eqn:Eu.
  destruct (c1 =? 0) eqn:E0.
  - destruct (apply_keys live ps X1 (q :: done)) as [[X2 t2] f2] eqn:E. injection H as _ _ ->.
    apply IH in E. destruct E as [Hi Hc]. split; [now right|exact Hc].
  - injection H as _ _ <- <- _. apply Z.eqb_neq in E0. split; [now left|].
    apply upd_key_class in Eu. unfold update_class. destruct Eu as [?|[(?&?&?)|[(?&?&?)|(?&?&?)]]]; [contradiction|auto|auto|auto].
Qed.

Lemma report_update_failure_Q bad c k w :
  8 <= zlen bad -> nthb bad 1 <> c_ERROR ->
  postQ (report_update_failure bad c k) w (fun _ w' l => l = [update_report (version (sk w)) bad c k] /\ T w w').
Proof.
  intros Hl Ht. unfold report_update_failure, update_report, upd_code, upd_text.
  destruct (c =? 3).
  - eapply postQ_conseq; [apply (tail_host_ret bad c_CORRUPT_DATA (if k then txt_key_flags else txt_pfx_flags) tt w); right; lia|].
    intros a w' l HQ (_ & -> & _ & HT). rewrite report_for_not_err by (auto; lia). now split.
  - destruct (c =? 1).
    + eapply postQ_bind; [apply send_error_from_host_Q; right; lia|].
      intros _ w1 l1 Q1 (Hfr & ->). eapply postQ_conseq; [apply change_state_Q, FATAL_ne|].
      intros _ w2 l2 Q2 (-> & _ & Hp & Hk & _). rewrite app_nil_r, report_for_not_err by (auto; lia).
      split; [reflexivity|]. apply frame_send_T in Hfr. destruct Hfr. split; congruence.
    + eapply postQ_bind; [apply send_error_from_host_Q; right; lia|].
      intros _ w1 l1 Q1 (Hfr & ->). eapply postQ_conseq; [apply change_state_Q, FATAL_ne|].
      intros _ w2 l2 Q2 (-> & _ & Hp & Hk & _). rewrite app_nil_r, report_for_not_err by (auto; lia).
      split; [reflexivity|]. apply frame_send_T in Hfr. destruct Hfr. split; congruence.
Qed.

(* structural rules used by the walk through process_eod *)
Lemma postQ_get_sk {B} (f : sock -> world -> res B) w (P : B -> world -> list (list byte) -> Prop) :
  postQ (f (sk w)) w P -> postQ (bind get_sk f) w P.
Proof. exact (fun H => H). Qed.
Lemma postQ_get_w {B} (f : world -> world -> res B) w (P : B -> world -> list (list byte) -> Prop) :
  postQ (f w) w P -> postQ (bind get_w f) w P.
Proof. exact (fun H => H). Qed.
Lemma postQ_assoc {A B C} (m : world -> res A) (f : A -> world -> res B) (g : B -> world -> res C) w
      (P : C -> world -> list (list byte) -> Prop) :
  postQ (bind m (fun a => bind (f a) g)) w P -> postQ (bind (bind m f) g) w P.
Proof. unfold postQ, bind. intros H Hs. specialize (H Hs). destruct (m w) as [a w1|]; exact H. Qed.
Lemma postQ_last {A} (m : world -> res A) w (P : A -> world -> list (list byte) -> Prop) :
  postQ (bind m ret) w P -> postQ m w P.
Proof. unfold postQ, bind, ret. intros H Hs. specialize (H Hs). destruct (m w) as [a w1|]; exact H. Qed.

Lemma apply_eod_intervals_st s p : st (apply_eod_intervals s p) = st s.
Proof. unfold apply_eod_intervals. destruct (_ && _); reflexivity. Qed.

(* primitive steps send nothing *)
Lemma set_sk_Q s w : version s = version (sk w) -> st s = st (sk w) -> postQ (set_sk s) w (fun _ _ l => l = []).
Proof.
  intros Hv Hst Hs. unfold set_sk. exists []. split; [|reflexivity].
  apply (Q_nosend _ _ []); [reflexivity|nosend_tac|exact Hv|unfold shut; cbn [sk]; now rewrite Hst].
Qed.
Lemma modify_sk_Q f w : (forall s, version (f s) = version s /\ st (f s) = st s) -> postQ (modify_sk f) w (fun _ _ l => l = []).
Proof.
  intros Hf Hs. unfold modify_sk, bind, get_sk, set_sk. exists []. split; [|reflexivity]. destruct (Hf (sk w)) as [Hv Hst].
  apply (Q_nosend _ _ []); [reflexivity|nosend_tac|exact Hv|unfold shut; cbn [sk]; now rewrite Hst].
Qed.
Lemma emit_all_Q t w : nosend t -> postQ (emit_all t) w (fun _ _ l => l = []).
Proof.
  intros Hn Hs. unfold emit_all. exists []. split; [|reflexivity].
  apply (Q_nosend _ _ t); [reflexivity|exact Hn|reflexivity|auto].
Qed.
Lemma set_tables_Q P K w : postQ (set_tables P K) w (fun _ _ l => l = []).
Proof.
  intros Hs. unfold set_tables. exists []. split; [|reflexivity].
  apply (Q_nosend _ _ []); [reflexivity|nosend_tac|reflexivity|auto].
Qed.
Lemma ret_Q {A} (a : A) w : postQ (ret a) w (fun _ _ l => l = []).
Proof. apply postQ_ret. reflexivity. Qed.

Ltac qcont := let HQ := fresh "HQ" in intros ? ? ? HQ ->; cbn [app].
Ltac qstep :=
  match goal with
  | |- postQ (ret _) _ _ => apply postQ_ret
  | |- postQ (bind get_sk _) _ _ => apply postQ_get_sk
  | |- postQ (bind get_w _) _ _ => apply postQ_get_w
  | |- postQ (bind (bind _ _) _) _ _ => apply postQ_assoc
  | |- postQ (bind (set_sk _) _) _ _ =>
      eapply postQ_bind; [apply set_sk_Q; [rewrite ?apply_eod_intervals_version; reflexivity|rewrite ?apply_eod_intervals_st; reflexivity] | qcont]
  | |- postQ (bind (emit_all _) _) _ _ => eapply postQ_bind; [apply emit_all_Q; nosend_tac | qcont]
  | |- postQ (bind (set_tables _ _) _) _ _ => eapply postQ_bind; [apply set_tables_Q | qcont]
  | |- postQ (bind (modify_sk _) _) _ _ => eapply postQ_bind; [apply modify_sk_Q; intros; split; reflexivity | qcont]
  | |- postQ (bind (ret _) _) _ _ => eapply postQ_bind; [apply ret_Q | qcont]
  | |- postQ (bind (if ?c then _ else _) _) _ _ => destruct c eqn:?
  | |- postQ (emit_all _) _ _ => apply postQ_last
  | |- postQ (modify_sk _) _ _ => apply postQ_last
  | |- postQ (if ?c then _ else _) _ _ => destruct c eqn:?
  | |- postQ (match ?x with _ => _ end) _ _ => destruct x eqn:?
  | |- postQ (let _ := _ in _) _ _ => cbv zeta
  | |- postQ ((fun _ => _) _) _ _ => cbv beta
  end.

Lemma src_remove_all_Q w : postQ src_remove_all w (fun _ _ l => l = []).
Proof. unfold src_remove_all. repeat qstep. reflexivity. Qed.
Lemma purge_after_failed_undo_Q w : postQ purge_after_failed_undo w (fun _ _ l => l = []).
Proof.
  unfold purge_after_failed_undo. eapply postQ_bind; [apply src_remove_all_Q|qcont]. repeat qstep. reflexivity.
Qed.
Definition reportable (q : list byte) : Prop := 8 <= zlen q /\ nthb q 1 <> c_ERROR.

(* outcome of process_eod: either success without any report, or failure with exactly one report, for one
   PDU of the stored answer whose update failed, carrying the code of that failure *)
Definition eod_post (v : Z) (v4 v6 ks : list (list byte)) (r : Z) (w' : world) (l : list (list byte)) : Prop :=
  (r = 0 /\ l = []) \/
  (r = -1 /\ st (sk w') = c_RTR_ERROR_FATAL /\
   exists bad c k, In bad (v4 ++ v6 ++ ks) /\ update_class bad c /\ l = [update_report v bad c k]).

Ltac eq_facts :=
  repeat match goal with
  | H : apply_pfx _ _ _ _ = (_, _, Some _) |- _ =>
      let H2 := fresh in pose proof H as H2; apply apply_pfx_facts in H2; destruct H2 as [? _]; apply apply_pfx_fail in H; destruct H as [? ?]
  | H : apply_keys _ _ _ _ = (_, _, Some _) |- _ =>
      let H2 := fresh in pose proof H as H2; apply apply_keys_facts in H2; destruct H2 as [? _]; apply apply_keys_fail in H; destruct H as [? ?]
  | H : apply_pfx _ _ _ _ = (_, _, None) |- _ => apply apply_pfx_facts in H; destruct H as [? _]
  | H : apply_keys _ _ _ _ = (_, _, None) |- _ => apply apply_keys_facts in H; destruct H as [? _]
  | H : undo_pfx _ _ _ = (_, _, _) |- _ => apply undo_pfx_nosend in H
  | H : undo_keys _ _ _ = (_, _, _) |- _ => apply undo_keys_nosend in H
  | H : (if ?b then _ else _) = (_, _, _) |- _ => destruct b
  | H : (_, @nil titem, _) = (_, _, _) |- _ => inversion H; subst; clear H
  end.

Lemma reportable_in l bad : Forall reportable l -> In bad l -> 8 <= zlen bad /\ nthb bad 1 <> c_ERROR.
Proof. intros H Hi. rewrite Forall_forall in H. exact (H _ Hi). Qed.

Ltac qstep2 :=
  match goal with
  | |- postQ (bind (report_update_failure ?bad _ _) _) _ _ =>
      eapply postQ_bind;
      [ apply report_update_failure_Q;
        match goal with Hi : In bad ?l, Hf : Forall reportable ?l |- _ => apply (reportable_in l bad Hf Hi) end
      | let HQ := fresh "HQ" in intros ? ? ? HQ (-> & _); cbn [app] ]
  | |- postQ (bind purge_after_failed_undo _) _ _ => eapply postQ_bind; [apply purge_after_failed_undo_Q | qcont]
  | |- postQ (bind (change_state _) _) _ _ =>
      eapply postQ_bind; [apply change_state_Q, FATAL_ne | let HQ := fresh "HQ" in intros ? ? ? HQ (-> & ? & _); cbn [app]]
  | _ => qstep
  end.

Theorem process_eod_updates p v4 v6 ks w :
  get16 p 2 = session_id (sk w) -> Forall reportable v4 -> Forall reportable v6 -> Forall reportable ks ->
  postQ (process_eod p v4 v6 ks) w (eod_post (version (sk w)) v4 v6 ks).
Proof.
  intros Hsess H4 H6 Hk. unfold process_eod. apply postQ_get_sk.
  replace (negb (get16 p 2 =? session_id (sk w))) with false by (symmetry; apply negb_false_iff; now apply Z.eqb_eq).
  repeat first [qstep2 | progress (subst; eq_facts)].
  all: try (nosend_tac; fail).
  all: try (left; split; reflexivity).
  all: right; split; [reflexivity|]; split; [assumption|].
  all: repeat match goal with H : Q _ _ _ |- _ => let V := fresh "V" in destruct H as (_ & V & _) end.
  all: match goal with |- exists bad c k, _ /\ _ /\ [update_report _ ?b ?c ?k] = _ => exists b, c, k end.
  all: split; [rewrite !in_app_iff; auto|split; [assumption|]].
  all: do 2 f_equal; congruence.
Qed.

(* the PDUs the store loop keeps are reportable: accepted by receive_pdu, of a payload type *)
Lemma pdu_ok_reportable p : pdu_ok p -> nthb p 1 <> c_ERROR -> reportable p.
Proof. intros (_ & _ & Hl & _) Hn. now split. Qed.

(* ---------- C04: a receive error ends the exchange without touching the tables ---------- *)
Theorem store_loop_recv_error f v4 v6 ks w c w1 :
  receive_pdu c_RTR_RECV_TIMEOUT w = Ok (inl c) w1 ->
  exists w', store_loop (Datatypes.S f) v4 v6 ks w = Ok (-1) w' /\ T w w'.
Proof.
  intros H. cbn [store_loop]. unfold bind at 1. rewrite H.
  pose proof (receive_pdu_T c_RTR_RECV_TIMEOUT w) as HT. unfold rel in HT. rewrite H in HT.
  destruct ((c =? -2) || (c =? -4)).
  - unfold bind. rewrite change_state_eq. unfold ret. eexists. split; [reflexivity|].
    destruct (_ || _); [exact HT|]. destruct HT. split; assumption.
  - unfold ret. eexists. split; [reflexivity|exact HT].
Qed.

Theorem rtr_sync_no_first fuel w w1 :
  sync_first fuel w = Ok None w1 -> rtr_sync fuel w = Ok (-1) w1.
Proof. intros H. unfold rtr_sync. unfold bind at 1. rewrite H. reflexivity. Qed.

(* a failed rtr_sync never makes the state machine ESTABLISHED in that step *)
Theorem fsm_step_sync_failed fuel w r w1 :
  st (sk w) = c_RTR_SYNC -> rtr_sync fuel w = Ok r w1 -> r <> 0 -> fsm_step fuel w = Ok tt w1.
Proof.
  intros Hst H Hr. unfold fsm_step. unfold bind at 1. unfold get_sk. rewrite Hst.
  change (c_RTR_SYNC =? c_RTR_CONNECTING) with false. change (c_RTR_SYNC =? c_RTR_RESET) with false.
  change (c_RTR_SYNC =? c_RTR_SYNC) with true. cbv iota.
  unfold bind at 1. rewrite H. replace (r =? 0) with false by (symmetry; now apply Z.eqb_neq). reflexivity.
Qed.

(* ---------- restatements used by Props/Properties_C14.v ---------- *)
Lemma queries_wf (s : sock) :
  wf_pdu (version s mod 256) (serial_query_bytes s) /\ wf_pdu (version s mod 256) (reset_query_bytes s) /\
  (0 <= session_id s < 65536 -> 0 <= serial s < 4294967296 ->
   get16 (serial_query_bytes s) 2 = session_id s /\ get32 (serial_query_bytes s) 8 = serial s /\ zlen (serial_query_bytes s) = 12).
Proof. split; [apply serial_query_wf|]. split; [apply reset_query_wf|apply serial_query_fields]. Qed.

Lemma query_bytes :
  send_serial_query = (mdo s <- get_sk; mdo r <- send_pdu (serial_query_bytes s);
                       if r =? 0 then ret 0 else mdo _ <- change_state c_RTR_ERROR_TRANSPORT; ret (-1)) /\
  send_reset_query = (mdo s <- get_sk; mdo r <- send_pdu (reset_query_bytes s);
                      if r =? 0 then ret 0 else mdo _ <- change_state c_RTR_ERROR_TRANSPORT; ret (-1)).
Proof. split; reflexivity. Qed.

Lemma reports_wf v code enc text :
  0 <= code < 65536 -> 16 + zlen enc + zlen text <= c_RTR_MAX_PDU_LEN ->
  let b := error_report v code enc text in
  wf_pdu (v mod 256) b /\
  nthb b 1 = c_ERROR /\ get16 b 2 = code /\ get32 b 4 = 16 + zlen enc + zlen text /\ get32 b 8 = zlen enc /\
  firstn (length enc) (skipn 12 b) = enc /\ get32 b (12 + length enc) = zlen text /\
  skipn (16 + length enc) b = text /\ zlen b = 16 + zlen enc + zlen text.
Proof. intros Hc Hok b. split; [now apply error_report_wf|now apply error_report_fields]. Qed.

Lemma report_updates p v4 v6 ks w :
  ~ shut w -> get16 p 2 = session_id (sk w) -> Forall reportable v4 -> Forall reportable v6 -> Forall reportable ks ->
  exists r w' l, process_eod p v4 v6 ks w = Ok r w' /\ Q l w w' /\
    ((r = 0 /\ l = []) \/
     (r = -1 /\ st (sk w') = c_RTR_ERROR_FATAL /\
      exists bad c k, In bad (v4 ++ v6 ++ ks) /\ update_class bad c /\ l = [update_report (version (sk w)) bad c k])).
Proof. intros Hs Hse H4 H6 Hk. apply (postQ_elim _ _ _ Hs (process_eod_updates p v4 v6 ks w Hse H4 H6 Hk)). Qed.

Lemma update_codes :
  upd_code 3 = c_CORRUPT_DATA /\ upd_code 1 = c_DUPLICATE_ANNOUNCEMENT /\ upd_code 2 = c_WITHDRAWAL_OF_UNKNOWN_RECORD /\
  upd_text 3 false = txt_pfx_flags /\ upd_text 3 true = txt_key_flags /\ upd_text 1 false = [] /\ upd_text 2 false = [] /\
  upd_text 1 true = [] /\ upd_text 2 true = [].
Proof. repeat split. Qed.

Lemma Q_meaning l w w' : Q l w w' ->
  (exists items, out w' = rev items ++ out w /\ attempts l items) /\ version (sk w') = version (sk w).
Proof. intros (H & Hv & _). now split. Qed.

Lemma no_report_for_error enc v code text : is_err_pdu enc = true -> report_for enc v code text = [].
Proof. intros H. unfold report_for. now rewrite H. Qed.

Lemma error_report_bytes v code (enc text : list byte) : Forall byte_ok enc -> Forall byte_ok text ->
  Forall byte_ok (error_report v code enc text) /\
  error_report v code enc text =
    [v mod 256; c_ERROR] ++ enc16 code ++ enc32 (16 + zlen enc + zlen text) ++ enc32 (zlen enc) ++ enc ++ enc32 (zlen text) ++ text.
Proof.
  intros He Ht. split; [|reflexivity]. unfold error_report.
  apply Forall_app; split; [bytes_ok|]. apply Forall_app; split; [apply enc16_ok|]. apply Forall_app; split; [apply enc32_ok|].
  apply Forall_app; split; [apply enc32_ok|]. apply Forall_app; split; [exact He|]. apply Forall_app; split; [apply enc32_ok|exact Ht].
Qed.

(* the fixed texts consist of bytes *)
Lemma texts_bytes :
  Forall byte_ok txt_too_small /\ Forall byte_ok txt_too_big /\ Forall byte_ok txt_pfx_flags /\ Forall byte_ok txt_key_flags /\
  Forall byte_ok txt_pfx_len /\ Forall byte_ok txt_unexp_store /\ Forall byte_ok txt_unexp_sync /\ Forall byte_ok txt_wrong_session.
Proof. repeat split; repeat (apply Forall_cons; [vm_compute; split; congruence|]); apply Forall_nil. Qed.

(* a concrete run: a header announcing 7 bytes draws exactly one Error Report (code 0) echoing the 8 bytes received *)
Example ex_too_small :
  sent_of (run_script 3 100 3600 7200 600 0 [] [] [EvData [1; 3; 0; 42; 0; 0; 0; 7]] [true] []) =
  reset_query_bytes (init_sock 3600 7200 600 0) ++ error_report 1 c_CORRUPT_DATA [1; 3; 0; 42; 0; 0; 0; 7] txt_too_small.
Proof. vm_compute. reflexivity. Qed.
