(* RecvChunk.v - C04 (2): how the byte stream is split into reads does not change the outcome.
   [flatten] forgets the chunk boundaries of a receive script: the bytes of adjacent data events are
   concatenated, transport errors / silent periods / stop requests keep their byte offset.
   Two scripts with the same flattening give the same result for tr_recv_all, hence for every model
   function and for whole runs, except for the trace items that record the size of the individual reads
   ([TRecvN]), which [strip] removes. *)
From RtrV Require Import Base.CSem Gen.Generated Rtr.RtrModel Rtr.RelFrame Rtr.RecvBase.
Local Open Scope Z_scope.

Notation length := List.length.

Inductive marker := MErr (c : Z) | MWait (v : Z) | MStop.
Notation fitem := (byte + marker)%type.

Fixpoint flatten (es : list ev) : list fitem :=
  match es with
  | [] => []
  | EvData b :: r => map inl b ++ flatten r
  | EvErr c :: r => inr (MErr c) :: flatten r
  | EvWait v :: r => inr (MWait v) :: flatten r
  | EvStop :: r => inr MStop :: flatten r
  end.

Definition is_recvn (t : titem) : bool := match t with TRecvN _ _ => true | _ => false end.
Definition strip (l : list titem) : list titem := filter (fun t => negb (is_recvn t)) l.
Lemma strip_app a b : strip (a ++ b) = strip a ++ strip b.
Proof. unfold strip. apply filter_app. Qed.
Lemma strip_rev a : strip (rev a) = rev (strip a).
Proof. unfold strip. induction a as [|x a IH]; [reflexivity|]. cbn [rev filter]. rewrite filter_app, IH. cbn [filter]. destruct (negb (is_recvn x)); cbn [rev]; [reflexivity|now rewrite app_nil_r]. Qed.

(* worlds that differ only in the chunking of what is still to be received, and in the read-size items
   of the trace so far *)
Definition weq (w w' : world) : Prop :=
  sk w = sk w' /\ pfx w = pfx w' /\ keys w = keys w' /\ opens w = opens w' /\ sends w = sends w' /\ now w = now w' /\
  flatten (evs w) = flatten (evs w') /\ strip (out w) = strip (out w').
Definition res_weq {A} (r r' : res A) : Prop :=
  match r, r' with
  | Ok a w, Ok a' w' => a = a' /\ weq w w'
  | Exc e w, Exc e' w' => e = e' /\ weq w w'
  | _, _ => False
  end.
Definition respects {A} (m : world -> res A) : Prop := forall w w', weq w w' -> res_weq (m w) (m w').

Lemma weq_refl w : weq w w. Proof. repeat split. Qed.

(* ---------- the reference semantics of tr_recv_all on the flattened stream ---------- *)
(* state: bytes still needed, end time, clock, and the timeout / remaining wait of the tr_recv call in
   progress (a new call starts after every delivered byte: data arrival does not advance the clock).
   result: None = script exhausted | Some (inl code) | Some (inr bytes); rest of the stream; clock; the
   trace items other than read sizes (newest first) *)
Fixpoint floop (fl : list fitem) (need : nat) (E t tmo left : Z) (acc : list byte)
  : option (Z + list byte) * list fitem * Z * list titem :=
  match need with
  | O => (Some (inr acc), fl, t, [])
  | Datatypes.S n =>
    match fl with
    | [] => (None, [], t, [])
    | inl b :: r => floop r n E t (E - t) (Z.max 0 (E - t)) (acc ++ [b])
    | inr (MWait v) :: r =>
        if v <=? left then floop r need E (t + v) tmo (left - v) acc
        else (Some (inl (-2)), inr (MWait (v - left)) :: r, t + left, [TRecvWB tmo (t + left)])
    | inr (MErr c) :: r => (Some (inl (- c)), r, t, [TRecvErr tmo (- c)])
    | inr MStop :: r => (Some (inl (-99)), r, t, [TRecvStop tmo])
    end
  end.

Lemma floop_done fl E t tmo left acc : floop fl 0 E t tmo left acc = (Some (inr acc), fl, t, []).
Proof. destruct fl; reflexivity. Qed.

(* a block of bytes is consumed one by one, restarting the call state after each *)
Lemma floop_bytes g : forall fl n E t tmo left acc, g <> [] ->
  floop (map inl g ++ fl) (length g + n) E t tmo left acc = floop fl n E t (E - t) (Z.max 0 (E - t)) (acc ++ g).
Proof.
  induction g as [|x g IH]; intros fl n E t tmo left acc Hne; [congruence|].
  cbn [map app length Nat.add floop]. destruct g as [|y g].
  - reflexivity.
  - rewrite (IH fl n E t _ _ (acc ++ [x])) by discriminate. now rewrite <- app_assoc.
Qed.

(* what one run of the model's receive primitives amounts to, in terms of the flat result *)
Definition matches {A} (inj : Z + list byte -> option A) (w : world) (o : option (Z + list byte) * list fitem * Z * list titem)
           (r : res (Z + list byte)) : Prop :=
  let '(k, fl', t', tr') := o in
  exists w', sk w' = sk w /\ pfx w' = pfx w /\ keys w' = keys w /\ opens w' = opens w /\ sends w' = sends w /\
    now w' = t' /\ flatten (evs w') = fl' /\
    match k with
    | None => r = Exc (XEnd 1) w' /\ strip (out w') = TEnd 1 :: tr' ++ strip (out w)
    | Some (inl c) => r = (if c =? -99 then Exc XStop w' else Ok (inl c) w') /\ strip (out w') = tr' ++ strip (out w)
    | Some (inr b) => r = Ok (inr b) w' /\ strip (out w') = tr' ++ strip (out w)
    end.

(* one call of the mock's receive function against the flat semantics *)
Lemma call_flat es : forall len tmo left t r es' t' tr n E acc,
  len = Z.of_nat (Datatypes.S n) ->
  tr_recv_evs es len tmo left t = (r, es', t', tr) ->
  match r with
  | Some (inr got) =>
      (length got <= Datatypes.S n)%nat /\ got <> [] /\ strip tr = [] /\
      floop (flatten es) (Datatypes.S n) E t tmo left acc =
      floop (flatten es') (Datatypes.S n - length got) E t' (E - t') (Z.max 0 (E - t')) (acc ++ got)
  | other => floop (flatten es) (Datatypes.S n) E t tmo left acc = (other, flatten es', t', strip tr)
  end.
Proof.
  induction es as [|e es IH]; intros len tmo left t r es' t' tr n E acc Hlen H; cbn [tr_recv_evs] in H.
  - injection H as <- <- <- <-. reflexivity.
  - destruct e as [d|c|v|].
    + destruct d as [|x d]; [cbn [flatten map app]; eapply IH; eauto|].
      injection H as <- <- <- <-.
      set (b := x :: d) in *. set (k := Z.min len (zlen b)).
      assert (Hz : 1 <= zlen b) by (unfold b; rewrite zlen_cons; pose proof (zlen_nonneg d); lia).
      assert (Hk : 1 <= k <= zlen b /\ k <= len) by (unfold k; lia).
      assert (Hg : length (firstn (Z.to_nat k) b) = Z.to_nat k) by (rewrite firstn_length; unfold zlen in *; lia).
      split; [rewrite Hg; lia|]. split; [intros Hc; rewrite Hc in Hg; cbn [length] in Hg; lia|]. split; [reflexivity|].
      cbn [flatten]. rewrite <- (firstn_skipn (Z.to_nat k) b) at 1. rewrite map_app, <- app_assoc.
      replace (Datatypes.S n) with (length (firstn (Z.to_nat k) b) + (Datatypes.S n - length (firstn (Z.to_nat k) b)))%nat at 1 by (rewrite Hg; lia).
      rewrite floop_bytes by (intros Hc; rewrite Hc in Hg; cbn [length] in Hg; lia).
      destruct (skipn (Z.to_nat k) b) as [|y l]; cbn [flatten map app]; reflexivity.
    + injection H as <- <- <- <-. reflexivity.
    + cbn [flatten floop]. destruct (v <=? left); [eapply IH; eauto|]. injection H as <- <- <- <-. reflexivity.
    + injection H as <- <- <- <-. reflexivity.
Qed.

Lemma loop_flat fuel : forall len E acc w,
  (Z.to_nat (len - zlen acc) <= fuel)%nat ->
  matches (@Some _) w (floop (flatten (evs w)) (Z.to_nat (len - zlen acc)) E (now w) (E - now w) (Z.max 0 (E - now w)) acc)
          (tr_recv_all_loop fuel len E acc w).
Proof.
  induction fuel as [|f IH]; intros len E acc w Hf.
  - replace (Z.to_nat (len - zlen acc)) with 0%nat by lia. rewrite floop_done. cbn [tr_recv_all_loop]. unfold ret, matches.
    exists w. repeat split.
  - cbn [tr_recv_all_loop]. destruct (zlen acc >=? len) eqn:Eg.
    + rewrite Z.geb_leb in Eg. apply Z.leb_le in Eg. replace (Z.to_nat (len - zlen acc)) with 0%nat by lia.
      rewrite floop_done. unfold ret, matches. exists w. repeat split.
    + rewrite Z.geb_leb in Eg. apply Z.leb_gt in Eg.
      unfold bind at 1. unfold get_now. unfold bind at 1. unfold tr_recv.
      destruct (Z.to_nat (len - zlen acc)) as [|n] eqn:En; [lia|].
      destruct (tr_recv_evs (evs w) (len - zlen acc) (E - now w) (Z.max 0 (E - now w)) (now w)) as [[[r es'] t'] tr] eqn:Ec.
      assert (Hlen : len - zlen acc = Z.of_nat (Datatypes.S n)) by lia.
      pose proof (call_flat _ _ _ _ _ _ _ _ _ n E acc Hlen Ec) as Hc.
      destruct r as [[c|got]|].
      * rewrite Hc. unfold matches.
        eexists (mkW (sk w) (pfx w) (keys w) es' (opens w) (sends w) t' (tr ++ out w)).
        cbn [sk pfx keys opens sends now evs out]. repeat split.
        -- destruct (c =? -99); reflexivity.
        -- apply strip_app.
      * destruct Hc as (Hl & Hne & Hs & Hc). rewrite Hc.
        set (w1 := mkW (sk w) (pfx w) (keys w) es' (opens w) (sends w) t' (tr ++ out w)).
        specialize (IH len E (acc ++ got) w1).
        assert (Hneed : Z.to_nat (len - zlen (acc ++ got)) = (Datatypes.S n - length got)%nat).
        { rewrite zlen_app. clear IH. unfold zlen in *. lia. }
        rewrite Hneed in IH. specialize (IH ltac:(lia)). cbn [evs now w1] in IH.
        unfold matches in *.
        destruct (floop (flatten es') (Datatypes.S n - length got) E t' (E - t') (Z.max 0 (E - t')) (acc ++ got)) as [[[k fl2] t2] tr2].
        destruct IH as (w2 & S1 & S2 & S3 & S4 & S5 & S6 & S7 & S8). exists w2.
        cbn [sk pfx keys opens sends out w1] in *. repeat split; auto.
        rewrite strip_app, Hs in S8. exact S8.
      * rewrite Hc. unfold matches.
        eexists (mkW (sk w) (pfx w) (keys w) es' (opens w) (sends w) t' (TEnd 1 :: tr ++ out w)).
        cbn [sk pfx keys opens sends now evs out]. repeat split.
        unfold strip at 1. cbn [filter is_recvn negb]. fold (strip (tr ++ out w)). now rewrite strip_app.
Qed.

(* C04 (2), core: tr_recv_all does not see the chunking *)
Theorem tr_recv_all_respects len tmo : respects (tr_recv_all len tmo).
Proof.
  intros w w' (H1 & H2 & H3 & H4 & H5 & H6 & H7 & H8).
  unfold tr_recv_all. unfold bind, get_now.
  pose proof (loop_flat (Z.to_nat len) len (now w + tmo) [] w) as A.
  pose proof (loop_flat (Z.to_nat len) len (now w' + tmo) [] w') as B.
  rewrite zlen_nil, Z.sub_0_r in A, B. specialize (A (le_n _)). specialize (B (le_n _)).
  rewrite <- H6, <- H7 in B.
  unfold matches in *.
  destruct (floop (flatten (evs w)) (Z.to_nat len) (now w + tmo) (now w) (now w + tmo - now w) (Z.max 0 (now w + tmo - now w)) []) as [[[k fl2] t2] tr2].
  destruct A as (a & A1 & A2 & A3 & A4 & A5 & A6 & A7 & A8). destruct B as (b & B1 & B2 & B3 & B4 & B5 & B6 & B7 & B8).
  assert (Hw : strip (out a) = strip (out b) -> weq a b).
  { intros Ho. repeat split; congruence. }
  destruct k as [[c|bytes]|].
  - destruct A8 as [-> Ao]. destruct B8 as [-> Bo]. destruct (c =? -99); (split; [reflexivity|apply Hw; congruence]).
  - destruct A8 as [-> Ao]. destruct B8 as [-> Bo]. split; [reflexivity|apply Hw; congruence].
  - destruct A8 as [-> Ao]. destruct B8 as [-> Bo]. split; [reflexivity|apply Hw; congruence].
Qed.
