(* RecvChunk.v - C04 (2): how the byte stream is split into reads does not change the outcome.
   [flatten] forgets the chunk boundaries of a receive script: the bytes of adjacent data events are
   concatenated, transport errors / silent periods / stop requests keep their byte offset.
   Two scripts with the same flattening give the same result for tr_recv_all, hence for every model
   function and for whole runs, except for the trace items that record the size of the individual reads
   ([TRecvN]), which [strip] removes. *)
From RtrV Require Import Base.CSem Gen.Generated Rtr.RtrModel Rtr.RelFrame Rtr.RecvBase.
Local Open Scope Z_scope.

Notation length := List.length.

Inductive marker := MErr (c : Z) | MWait (v : Z) | MStop.
Notation fitem := (byte + marker)%type.

Fixpoint flatten (es : list ev) : list fitem :=
  match es with
  | [] => []
  | EvData b :: r => map inl b ++ flatten r
  | EvErr c :: r => inr (MErr c) :: flatten r
  | EvWait v :: r => inr (MWait v) :: flatten r
  | EvStop :: r => inr MStop :: flatten r
  end.

Definition is_recvn (t : titem) : bool := match t with TRecvN _ _ => true | _ => false end.
Definition strip (l : list titem) : list titem := filter (fun t => negb (is_recvn t)) l.
Lemma strip_app a b : strip (a ++ b) = strip a ++ strip b.
Proof. unfold strip. apply filter_app. Qed.
Lemma strip_rev a : strip (rev a) = rev (strip a).
Proof. unfold strip. induction a as [|x a IH]; [reflexivity|]. cbn [rev filter]. rewrite filter_app, IH. cbn [filter]. destruct (negb (is_recvn x)); cbn [rev]; [reflexivity|now rewrite app_nil_r]. Qed.

(* worlds that differ only in the chunking of what is still to be received, and in the read-size items
   of the trace so far *)
Definition weq (w w' : world) : Prop :=
  sk w = sk w' /\ pfx w = pfx w' /\ keys w = keys w' /\ opens w = opens w' /\ sends w = sends w' /\ now w = now w' /\
  flatten (evs w) = flatten (evs w') /\ strip (out w) = strip (out w').
Definition res_weq {A} (r r' : res A) : Prop :=
  match r, r' with
  | Ok a w, Ok a' w' => a = a' /\ weq w w'
  | Exc e w, Exc e' w' => e = e' /\ weq w w'
  | _, _ => False
  end.
Definition respects {A} (m : world -> res A) : Prop := forall w w', weq w w' -> res_weq (m w) (m w').

Lemma weq_refl w : weq w w. Proof. repeat split. Qed.

(* ---------- the reference semantics of tr_recv_all on the flattened stream ---------- *)
(* state: bytes still needed, end time, clock, and the timeout / remaining wait of the tr_recv call in
   progress (a new call starts after every delivered byte: data arrival does not advance the clock).
   result: None = script exhausted | Some (inl code) | Some (inr bytes); rest of the stream; clock; the
   trace items other than read sizes (newest first) *)
Fixpoint floop (fl : list fitem) (need : nat) (E t tmo left : Z) (acc : list byte)
  : option (Z + list byte) * list fitem * Z * list titem :=
  match need with
  | O => (Some (inr acc), fl, t, [])
  | Datatypes.S n =>
    match fl with
    | [] => (None, [], t, [])
    | inl b :: r => floop r n E t (E - t) (Z.max 0 (E - t)) (acc ++ [b])
    | inr (MWait v) :: r =>
        if v <=? left then floop r need E (t + v) tmo (left - v) acc
        else (Some (inl (-2)), inr (MWait (v - left)) :: r, t + left, [TRecvWB tmo (t + left)])
    | inr (MErr c) :: r => (Some (inl (- c)), r, t, [TRecvErr tmo (- c)])
    | inr MStop :: r => (Some (inl (-99)), r, t, [TRecvStop tmo])
    end
  end.

Lemma floop_done fl E t tmo left acc : floop fl 0 E t tmo left acc = (Some (inr acc), fl, t, []).
Proof. destruct fl; reflexivity. Qed.

(* a block of bytes is consumed one by one, restarting the call state after each *)
Lemma floop_bytes g : forall fl n E t tmo left acc, g <> [] ->
  floop (map inl g ++ fl) (length g + n) E t tmo left acc = floop fl n E t (E - t) (Z.max 0 (E - t)) (acc ++ g).
Proof.
  induction g as [|x g IH]; intros fl n E t tmo left acc Hne; [congruence|].
  cbn [map app length Nat.add floop]. destruct g as [|y g].
  - reflexivity.
  - rewrite (IH fl n E t _ _ (acc ++ [x])) by discriminate. now rewrite <- app_assoc.
Qed.

(* what one run of the model's receive primitives amounts to, in terms of the flat result *)
Definition matches {A} (inj : Z + list byte -> option A) (w : world) (o : option (Z + list byte) * list fitem * Z * list titem)
           (r : res (Z + list byte)) : Prop :=
  let '(k, fl', t', tr') := o in
  exists w', sk w' = sk w /\ pfx w' = pfx w /\ keys w' = keys w /\ opens w' = opens w /\ sends w' = sends w /\
    now w' = t' /\ flatten (evs w') = fl' /\
    match k with
    | None => r = Exc (XEnd 1) w' /\ strip (out w') = TEnd 1 :: tr' ++ strip (out w)
    | Some (inl c) => r = (if c =? -99 then Exc XStop w' else Ok (inl c) w') /\ strip (out w') = tr' ++ strip (out w)
    | Some (inr b) => r = Ok (inr b) w' /\ strip (out w') = tr' ++ strip (out w)
    end.

(* one call of the mock's receive function against the flat semantics *)
Lemma call_flat es : forall len tmo left t r es' t' tr n E acc,
  len = Z.of_nat (Datatypes.S n) ->
  tr_recv_evs es len tmo left t = (r, es', t', tr) ->
  match r with
  | Some (inr got) =>
      (length got <= Datatypes.S n)%nat /\ got <> [] /\ strip tr = [] /\
      floop (flatten es) (Datatypes.S n) E t tmo left acc =
      floop (flatten es') (Datatypes.S n - length got) E t' (E - t') (Z.max 0 (E - t')) (acc ++ got)
  | other => floop (flatten es) (Datatypes.S n) E t tmo left acc = (other, flatten es', t', strip tr)
  end.
Proof.
  induction es as [|e es IH]; intros len tmo left t r es' t' tr n E acc Hlen H; cbn [tr_recv_evs] in H.
  - injection H as <- <- <- <-. reflexivity.
  - destruct e as [d|c|v|].
    + destruct d as [|x d]; [cbn [flatten map app]; eapply IH; eauto|].
      injection H as <- <- <- <-.
      set (b := x :: d) in *. set (k := Z.min len (zlen b)).
      assert (Hz : 1 <= zlen b) by (unfold b; rewrite zlen_cons; pose proof (zlen_nonneg d); lia).
      assert (Hk : 1 <= k <= zlen b /\ k <= len) by (unfold k; lia).
      assert (Hg : length (firstn (Z.to_nat k) b) = Z.to_nat k) by (rewrite firstn_length; unfold zlen in *; lia).
      split; [rewrite Hg; lia|]. split; [intros Hc; rewrite Hc in Hg; cbn [length] in Hg; lia|]. split; [reflexivity|].
      cbn [flatten]. rewrite <- (firstn_skipn (Z.to_nat k) b) at 1. rewrite map_app, <- app_assoc.
      replace (Datatypes.S n) with (length (firstn (Z.to_nat k) b) + (Datatypes.S n - length (firstn (Z.to_nat k) b)))%nat at 1 by (rewrite Hg; lia).
      rewrite floop_bytes by (intros Hc; rewrite Hc in Hg; cbn [length] in Hg; lia).
      destruct (skipn (Z.to_nat k) b) as [|y l]; cbn [flatten map app]; reflexivity.
    + injection H as <- <- <- <-. reflexivity.
    + cbn [flatten floop]. destruct (v <=? left); [eapply IH; eauto|]. injection H as <- <- <- <-. reflexivity.
    + injection H as <- <- <- <-. reflexivity.
Qed.

Lemma loop_flat fuel : forall len E acc w,
  (Z.to_nat (len - zlen acc) <= fuel)%nat ->
  matches (@Some _) w (floop (flatten (evs w)) (Z.to_nat (len - zlen acc)) E (now w) (E - now w) (Z.max 0 (E - now w)) acc)
          (tr_recv_all_loop fuel len E acc w).
Proof.
  induction fuel as [|f IH]; intros len E acc w Hf.
  - replace (Z.to_nat (len - zlen acc)) with 0%nat by lia. rewrite floop_done. cbn [tr_recv_all_loop]. unfold ret, matches.
    exists w. repeat split.
  - cbn [tr_recv_all_loop]. destruct (zlen acc >=? len) eqn:Eg.
    + rewrite Z.geb_leb in Eg. apply Z.leb_le in Eg. replace (Z.to_nat (len - zlen acc)) with 0%nat by lia.
      rewrite floop_done. unfold ret, matches. exists w. repeat split.
    + rewrite Z.geb_leb in Eg. apply Z.leb_gt in Eg.
      unfold bind at 1. unfold get_now. unfold bind at 1. unfold tr_recv.
      destruct (Z.to_nat (len - zlen acc)) as [|n] eqn:En; [lia|].
      destruct (tr_recv_evs (evs w) (len - zlen acc) (E - now w) (Z.max 0 (E - now w)) (now w)) as [[[r es'] t'] tr] eqn:Ec.
      assert (Hlen : len - zlen acc = Z.of_nat (Datatypes.S n)) by lia.
      pose proof (call_flat _ _ _ _ _ _ _ _ _ n E acc Hlen Ec) as Hc.
      destruct r as [[c|got]|].
      * rewrite Hc. unfold matches.
        eexists (mkW (sk w) (pfx w) (keys w) es' (opens w) (sends w) t' (tr ++ out w)).
        cbn [sk pfx keys opens sends now evs out]. repeat split.
        -- destruct (c =? -99); reflexivity.
        -- apply strip_app.
      * destruct Hc as (Hl & Hne & Hs & Hc). rewrite Hc.
        set (w1 := mkW (sk w) (pfx w) (keys w) es' (opens w) (sends w) t' (tr ++ out w)).
        specialize (IH len E (acc ++ got) w1).
        assert (Hneed : Z.to_nat (len - zlen (acc ++ got)) = (Datatypes.S n - length got)%nat).
        { rewrite zlen_app. clear IH. unfold zlen in *. clear - Hlen Hl. lia. }
        assert (Hg1 : (1 <= length got)%nat) by (destruct got; [congruence|cbn [length]; lia]).
        rewrite Hneed in IH. specialize (IH ltac:(clear - Hg1 Hf Hl; lia)). cbn [evs now w1] in IH.
        unfold matches in *.
        destruct (floop (flatten es') (Datatypes.S n - length got) E t' (E - t') (Z.max 0 (E - t')) (acc ++ got)) as [[[k fl2] t2] tr2].
        destruct IH as (w2 & S1 & S2 & S3 & S4 & S5 & S6 & S7 & S8). exists w2.
        cbn [sk pfx keys opens sends out w1] in *. repeat split; auto.
        rewrite strip_app, Hs in S8. exact S8.
      * rewrite Hc. unfold matches.
        eexists (mkW (sk w) (pfx w) (keys w) es' (opens w) (sends w) t' (TEnd 1 :: tr ++ out w)).
        cbn [sk pfx keys opens sends now evs out]. repeat split.
        unfold strip at 1. cbn [filter is_recvn negb]. fold (strip (tr ++ out w)). now rewrite strip_app.
Qed.

(* C04 (2), core: tr_recv_all does not see the chunking *)
Theorem tr_recv_all_respects len tmo : respects (tr_recv_all len tmo).
Proof.
  intros w w' (H1 & H2 & H3 & H4 & H5 & H6 & H7 & H8).
  unfold tr_recv_all. unfold bind, get_now. rewrite <- H6.
  pose proof (loop_flat (Z.to_nat len) len (now w + tmo) [] w) as A.
  pose proof (loop_flat (Z.to_nat len) len (now w + tmo) [] w') as B.
  rewrite zlen_nil, Z.sub_0_r in A, B. specialize (A (le_n _)). specialize (B (le_n _)).
  rewrite <- H6, <- H7 in B.
  unfold matches in *.
  destruct (floop (flatten (evs w)) (Z.to_nat len) (now w + tmo) (now w) (now w + tmo - now w) (Z.max 0 (now w + tmo - now w)) []) as [[[k fl2] t2] tr2].
  destruct A as (a & A1 & A2 & A3 & A4 & A5 & A6 & A7 & A8). destruct B as (b & B1 & B2 & B3 & B4 & B5 & B6 & B7 & B8).
  assert (Hw : strip (out a) = strip (out b) -> weq a b).
  { intros Ho. repeat split; congruence. }
  destruct k as [[c|bytes]|].
  - destruct A8 as [-> Ao]. destruct B8 as [-> Bo]. destruct (c =? -99); (split; [reflexivity|apply Hw; congruence]).
  - destruct A8 as [-> Ao]. destruct B8 as [-> Bo]. split; [reflexivity|apply Hw; congruence].
  - destruct A8 as [-> Ao]. destruct B8 as [-> Bo]. split; [reflexivity|apply Hw; congruence].
Qed.

(* ---------- lifting: every model function respects weq ---------- *)
Lemma respects_ret {A} (a : A) : respects (ret a).
Proof. intros w w' H. split; [reflexivity|exact H]. Qed.
Lemma respects_bind {A B} (m : world -> res A) (f : A -> world -> res B) :
  respects m -> (forall a, respects (f a)) -> respects (bind m f).
Proof.
  intros Hm Hf w w' H. unfold bind. specialize (Hm w w' H).
  destruct (m w) as [a w1|e w1], (m w') as [a' w1'|e' w1']; try contradiction.
  - destruct Hm as [<- Hw]. now apply Hf.
  - exact Hm.
Qed.
(* the world itself as a value: the continuation only looks at it through fields that weq equates *)
Lemma respects_get_w {B} (f : world -> world -> res B) :
  (forall v v', weq v v' -> forall w w', weq w w' -> res_weq (f v w) (f v' w')) -> respects (bind get_w f).
Proof. intros Hf w w' H. unfold bind, get_w. now apply Hf. Qed.

Lemma strip_cons_eq t a b : strip a = strip b -> strip (t :: a) = strip (t :: b).
Proof. unfold strip. cbn [filter]. intros ->. reflexivity. Qed.
Lemma strip_app_eq l a b : strip a = strip b -> strip (l ++ a) = strip (l ++ b).
Proof. rewrite !strip_app. intros ->. reflexivity. Qed.

Ltac rprim :=
  let H1 := fresh in let H2 := fresh in let H3 := fresh in let H4 := fresh in
  let H5 := fresh in let H6 := fresh in let H7 := fresh in let H8 := fresh in
  intros ? ? (H1 & H2 & H3 & H4 & H5 & H6 & H7 & H8); unfold_prims; cbn [res_weq];
  rewrite ?H1, ?H2, ?H3, ?H6;
  (split; [reflexivity|]); unfold weq; cbn [sk pfx keys opens sends now evs out];
  repeat split; try assumption; try reflexivity; try congruence;
  try (apply strip_cons_eq; assumption); try (apply strip_app_eq; assumption).

Lemma respects_get_sk : respects get_sk. Proof. rprim. Qed.
Lemma respects_get_now : respects get_now. Proof. rprim. Qed.
Lemma respects_set_sk s : respects (set_sk s). Proof. rprim. Qed.
Lemma respects_emit t : respects (emit t). Proof. rprim. Qed.
Lemma respects_emit_all l : respects (emit_all l). Proof. rprim. Qed.
Lemma respects_set_tables P K : respects (set_tables P K). Proof. rprim. Qed.
Lemma respects_do_sleep n : respects (do_sleep n). Proof. rprim. Qed.
Lemma respects_tr_close : respects tr_close. Proof. rprim. Qed.
Lemma respects_modify_sk f : respects (modify_sk f).
Proof. unfold modify_sk. apply respects_bind; [apply respects_get_sk|intros; apply respects_set_sk]. Qed.

Lemma respects_tr_send b : respects (tr_send b).
Proof.
  intros w w' (H1 & H2 & H3 & H4 & H5 & H6 & H7 & H8). unfold tr_send. rewrite <- H5.
  destruct (match sends w with [] => (1000000, []) | x :: r => (x, r) end) as [beh rst].
  destruct (beh <? 0); cbn [res_weq]; (split; [reflexivity|]); unfold weq; cbn [sk pfx keys opens sends now evs out];
    repeat split; try assumption; apply strip_cons_eq; assumption.
Qed.
Lemma respects_tr_open : respects tr_open.
Proof.
  intros w w' (H1 & H2 & H3 & H4 & H5 & H6 & H7 & H8). unfold tr_open. rewrite <- H4.
  destruct (opens w); cbn [res_weq]; (split; [try rewrite H6; reflexivity|]); unfold weq; cbn [sk pfx keys opens sends now evs out];
    repeat split; try assumption; try rewrite H6; apply strip_cons_eq; assumption.
Qed.
Lemma respects_dump tag : respects (dump tag).
Proof.
  intros w w' H. pose proof H as (H1 & H2 & H3 & H4 & H5 & H6 & H7 & H8). unfold dump. rewrite H1, H2, H3, H6.
  apply respects_emit. exact H.
Qed.

Ltac rstep :=
  match goal with
  | |- respects (ret _) => apply respects_ret
  | |- respects (bind get_w _) =>
      apply respects_get_w;
      let v := fresh "v" in let v' := fresh "v'" in let Hv := fresh "Hv" in
      intros v v' Hv;
      let Hp := fresh in let Hk := fresh in
      destruct Hv as (_ & Hp & Hk & _); cbv beta; rewrite <- ?Hp, <- ?Hk;
      match goal with |- forall w w', weq w w' -> res_weq (?f w) (?g w') => change (respects f) end
  | |- respects (bind _ _) => apply respects_bind; [ | intros ?]
  | |- respects (if ?c then _ else _) => destruct c
  | |- respects (match ?x with _ => _ end) => destruct x
  | |- respects (let _ := _ in _) => cbv zeta
  | |- respects ((fun _ => _) _) => cbv beta
  | |- respects get_sk => apply respects_get_sk
  | |- respects get_now => apply respects_get_now
  | |- respects (set_sk _) => apply respects_set_sk
  | |- respects (emit _) => apply respects_emit
  | |- respects (emit_all _) => apply respects_emit_all
  | |- respects (set_tables _ _) => apply respects_set_tables
  | |- respects (do_sleep _) => apply respects_do_sleep
  | |- respects tr_close => apply respects_tr_close
  | |- respects (modify_sk _) => apply respects_modify_sk
  | |- respects (tr_send _) => apply respects_tr_send
  | |- respects tr_open => apply respects_tr_open
  | |- respects (dump _) => apply respects_dump
  | |- respects (tr_recv_all _ _) => apply tr_recv_all_respects
  end.

Lemma respects_change_state ns : respects (change_state ns).
Proof. unfold change_state. repeat rstep. Qed.
Lemma respects_tr_send_all_loop fuel : forall b tot, respects (tr_send_all_loop fuel b tot).
Proof. induction fuel as [|f IH]; intros; cbn [tr_send_all_loop]; repeat rstep. apply IH. Qed.
Lemma respects_send_pdu b : respects (send_pdu b).
Proof. unfold send_pdu, tr_send_all. repeat rstep. apply respects_tr_send_all_loop. Qed.
Lemma respects_send_error_pdu enc c t : respects (send_error_pdu enc c t).
Proof. unfold send_error_pdu. repeat rstep. apply respects_send_pdu. Qed.
Lemma respects_send_error_from_host enc c t : respects (send_error_from_host enc c t).
Proof. unfold send_error_from_host. repeat rstep; apply respects_send_error_pdu. Qed.
Lemma respects_send_serial_query : respects send_serial_query.
Proof. unfold send_serial_query. repeat rstep; try apply respects_send_pdu; apply respects_change_state. Qed.
Lemma respects_send_reset_query : respects send_reset_query.
Proof. unfold send_reset_query. repeat rstep; try apply respects_send_pdu; apply respects_change_state. Qed.
Lemma respects_recv_err c : respects (recv_err c).
Proof. unfold recv_err. repeat rstep; apply respects_change_state. Qed.

Ltac rlem :=
  match goal with
  | |- respects (change_state _) => apply respects_change_state
  | |- respects (send_error_pdu _ _ _) => apply respects_send_error_pdu
  | |- respects (send_error_from_host _ _ _) => apply respects_send_error_from_host
  | |- respects send_serial_query => apply respects_send_serial_query
  | |- respects send_reset_query => apply respects_send_reset_query
  | |- respects (recv_err _) => apply respects_recv_err
  end.

(* C04 (2): receive_pdu does not see the chunking *)
Theorem receive_pdu_respects t : respects (receive_pdu t).
Proof. unfold receive_pdu. repeat rstep; rlem. Qed.

Lemma respects_handle_error_pdu p : respects (handle_error_pdu p).
Proof. unfold handle_error_pdu. repeat rstep; rlem. Qed.
Lemma respects_report_update_failure p c k : respects (report_update_failure p c k).
Proof. unfold report_update_failure. repeat rstep; rlem. Qed.
Lemma respects_src_remove_all : respects src_remove_all.
Proof. unfold src_remove_all. repeat rstep. Qed.
Lemma respects_purge_after_failed_undo : respects purge_after_failed_undo.
Proof. unfold purge_after_failed_undo. repeat rstep. apply respects_src_remove_all. Qed.

Ltac rlem2 :=
  match goal with
  | |- respects (handle_error_pdu _) => apply respects_handle_error_pdu
  | |- respects (report_update_failure _ _ _) => apply respects_report_update_failure
  | |- respects src_remove_all => apply respects_src_remove_all
  | |- respects purge_after_failed_undo => apply respects_purge_after_failed_undo
  | |- respects (receive_pdu _) => apply receive_pdu_respects
  | _ => rlem
  end.

Lemma respects_process_eod p v4 v6 ks : respects (process_eod p v4 v6 ks).
Proof. unfold process_eod. repeat rstep; rlem2. Qed.
Lemma respects_store_loop fuel : forall v4 v6 ks, respects (store_loop fuel v4 v6 ks).
Proof.
  induction fuel as [|f IH]; intros; cbn [store_loop]; repeat rstep.
  all: try match goal with |- respects (store_loop _ _ _ _) => apply IH end.
  all: try match goal with |- respects (process_eod _ _ _ _) => apply respects_process_eod end.
  all: rlem2.
Qed.
Lemma respects_receive_and_store fuel : respects (receive_and_store fuel).
Proof. unfold receive_and_store. repeat rstep. apply respects_store_loop. Qed.
Lemma respects_sync_first fuel : respects (sync_first fuel).
Proof.
  induction fuel as [|f IH]; cbn [sync_first]; repeat rstep.
  all: try match goal with |- respects (sync_first _) => apply IH end.
  all: rlem2.
Qed.
Lemma respects_rtr_sync fuel : respects (rtr_sync fuel).
Proof.
  unfold rtr_sync. repeat rstep.
  all: try match goal with |- respects (sync_first _) => apply respects_sync_first end.
  all: try match goal with |- respects (receive_and_store _) => apply respects_receive_and_store end.
  all: rlem2.
Qed.
Lemma respects_wait_for_sync : respects wait_for_sync.
Proof. unfold wait_for_sync. repeat rstep; rlem2. Qed.
Lemma respects_purge_outdated : respects purge_outdated.
Proof. unfold purge_outdated. repeat rstep; rlem2. Qed.
Lemma respects_fsm_step fuel : respects (fsm_step fuel).
Proof.
  unfold fsm_step. repeat rstep.
  all: try match goal with |- respects (rtr_sync _) => apply respects_rtr_sync end.
  all: try match goal with |- respects wait_for_sync => apply respects_wait_for_sync end.
  all: try match goal with |- respects purge_outdated => apply respects_purge_outdated end.
  all: rlem2.
Qed.
Lemma respects_rtr_stop : respects rtr_stop.
Proof. unfold rtr_stop. repeat rstep; rlem2. Qed.

(* whole runs *)
Theorem run_fsm_respects n fuel : forall w w', weq w w' -> weq (run_fsm n fuel w) (run_fsm n fuel w').
Proof.
  induction n as [|n IH]; intros w w' H; cbn [run_fsm]; [exact H|].
  pose proof (respects_fsm_step fuel w w' H) as Hs.
  destruct (fsm_step fuel w) as [[] w1|[why|] w1], (fsm_step fuel w') as [[] w1'|[why'|] w1']; try contradiction;
    destruct Hs as [He Hw]; try discriminate.
  - now apply IH.
  - exact Hw.
  - assert (Hr : respects (mdo _ <- rtr_stop; mdo _ <- dump 1; modify_sk (fun s => upd_st s c_RTR_CONNECTING))).
    { repeat rstep. apply respects_rtr_stop. }
    specialize (Hr w1 w1' Hw).
    destruct ((mdo _ <- rtr_stop; mdo _ <- dump 1; modify_sk (fun s => upd_st s c_RTR_CONNECTING)) w1) as [[] w2|e w2],
             ((mdo _ <- rtr_stop; mdo _ <- dump 1; modify_sk (fun s => upd_st s c_RTR_CONNECTING)) w1') as [[] w2'|e' w2']; try contradiction.
    + apply IH, Hr.
    + apply Hr.
Qed.

(* C04 (2), whole model: two receive scripts with the same flattening give the same trace up to read sizes *)
Theorem run_script_chunking n fuel refresh expire retry mode P K es1 es2 os ss :
  flatten es1 = flatten es2 ->
  strip (run_script n fuel refresh expire retry mode P K es1 os ss) =
  strip (run_script n fuel refresh expire retry mode P K es2 os ss).
Proof.
  intros Hf. unfold run_script. destruct (negb (init_ok refresh expire retry)); [reflexivity|]. cbv zeta.
  set (a := mkW (init_sock refresh expire retry mode) P K es1 os ss 1000 []).
  set (b := mkW (init_sock refresh expire retry mode) P K es2 os ss 1000 []).
  assert (H0 : weq a b) by (repeat split; exact Hf).
  pose proof (respects_dump 0 a b H0) as H1.
  destruct (dump 0 a) as [[] a1|e a1] eqn:Ea, (dump 0 b) as [[] b1|e' b1] eqn:Eb; try contradiction;
    [|unfold dump, emit in Ea; discriminate].
  destruct H1 as [_ H1].
  assert (H2 : weq (mkW (upd_st (sk a1) c_RTR_CONNECTING) (pfx a1) (keys a1) (evs a1) (opens a1) (sends a1) (now a1) (out a1))
                   (mkW (upd_st (sk b1) c_RTR_CONNECTING) (pfx b1) (keys b1) (evs b1) (opens b1) (sends b1) (now b1) (out b1))).
  { destruct H1 as (S1 & S2 & S3 & S4 & S5 & S6 & S7 & S8). unfold weq. cbn [sk pfx keys opens sends now evs out]. rewrite S1. repeat split; assumption. }
  apply (run_fsm_respects n fuel) in H2.
  pose proof (respects_dump 2 _ _ H2) as H3.
  match goal with |- strip (rev (out match ?x with _ => _ end)) = strip (rev (out match ?y with _ => _ end)) =>
    destruct x as [[] a3|e a3] eqn:Ea3, y as [[] b3|e' b3] eqn:Eb3; try contradiction end.
  - destruct H3 as [_ H3]. rewrite !strip_rev. f_equal. apply H3.
  - unfold dump, emit in Ea3. discriminate.
Qed.
