(* SyncTheorems.v - the C03 statements in their final form (restated in Props/Properties_C03.v). *)
From Coq Require Import Permutation.
From RtrV Require Import Base.CSem Gen.Generated Rtr.RtrModel Rtr.RelFrame Rtr.SyncSets Rtr.SyncFrame Rtr.SyncProofs.
Local Open Scope Z_scope.

Lemma C03_success_l p v4 v6 ks w w' :
  NoDup (pfx w) -> NoDup (keys w) -> process_eod p v4 v6 ks w = Ok 0 w' ->
  own_p (pfx w') = (if resetting (sk w) then announced_p (v4 ++ v6) else apply_delta_p (own_p (pfx w)) (v4 ++ v6)) /\
  own_k (keys w') = (if resetting (sk w) then announced_k ks else apply_delta_k (own_k (keys w)) ks) /\
  NoDup (pfx w') /\ NoDup (keys w') /\
  serial (sk w') = get32 p 8 /\ get16 p 2 = session_id (sk w) /\ session_id (sk w') = session_id (sk w) /\
  req_sess (sk w') = req_sess (sk w) /\
  ivs_of (sk w') = ivs_of (apply_eod_intervals (sk w) p).
Proof.
  intros NP NK E. pose proof (post_ok _ _ _ _ _ _ (process_eod_spec p v4 v6 ks w NP NK) E) as HE.
  destruct (eod_post_NoDup _ _ _ _ _ _ _ NP NK HE) as [N1 N2].
  destruct (eod_post_success _ _ _ _ _ _ HE) as (S1 & S2 & S3 & _ & _ & S4).
  pose proof (core_ivs _ _ S4) as SI. apply core_fields in S4.
  cbn [session_id req_sess serial last_update refresh_iv expire_iv retry_iv iv_mode resetting upd_serial] in S4.
  destruct S4 as (T1 & T2 & T3 & _). destruct (apply_eod_intervals_core (sk w) p) as (U1 & U2 & _).
  repeat split; auto; congruence.
Qed.

Lemma C03_failure_strong_l p v4 v6 ks w r w' :
  NoDup (pfx w) -> NoDup (keys w) -> process_eod p v4 v6 ks w = Ok r w' -> r <> 0 ->
  r = -1 /\
  Permutation (pfx w') (pfx w) /\ Permutation (keys w') (keys w) /\
  req_sess (sk w') = req_sess (sk w) /\ session_id (sk w') = session_id (sk w) /\ serial (sk w') = serial (sk w) /\
  next_query (sk w') = next_query (sk w) /\
  (resetting (sk w) = true -> pfx w' = pfx w /\ keys w' = keys w) /\
  (get16 p 2 <> session_id (sk w) \/ eod_failure (upd_tab_p w) (upd_tab_k w) v4 v6 ks).
Proof.
  intros NP NK E Hr. pose proof (post_ok _ _ _ _ _ _ (process_eod_spec p v4 v6 ks w NP NK) E) as HE.
  destruct (eod_post_result _ _ _ _ _ _ _ HE) as [->| ->]; [congruence|].
  destruct (eod_post_failure _ _ _ _ _ _ _ HE Hr) as (P1 & P2 & P3 & G1 & G2 & G3 & G4 & G5 & G6).
  repeat split; auto; try apply P3; auto. apply next_query_eq; auto.
Qed.

Lemma C03_failure_l p v4 v6 ks w r w' :
  NoDup (pfx w) -> NoDup (keys w) -> process_eod p v4 v6 ks w = Ok r w' -> r <> 0 ->
  ((Permutation (pfx w') (pfx w) /\ Permutation (keys w') (keys w) /\
    req_sess (sk w') = req_sess (sk w) /\ session_id (sk w') = session_id (sk w) /\ serial (sk w') = serial (sk w) /\
    next_query (sk w') = next_query (sk w))
   \/ (own_p (pfx w') = [] /\ own_k (keys w') = [] /\ req_sess (sk w') = true /\ next_query (sk w') = QReset)) /\
  (resetting (sk w) = true -> pfx w' = pfx w /\ keys w' = keys w).
Proof.
  intros NP NK E Hr. destruct (C03_failure_strong_l _ _ _ _ _ _ _ NP NK E Hr) as (_ & A1 & A2 & A3 & A4 & A5 & A6 & A7 & _).
  split; [left; auto 10|exact A7].
Qed.

Lemma C03_no_exception_l p v4 v6 ks w :
  NoDup (pfx w) -> NoDup (keys w) -> exists r w', process_eod p v4 v6 ks w = Ok r w' /\ (r = 0 \/ r = -1).
Proof.
  intros NP NK. pose proof (process_eod_spec p v4 v6 ks w NP NK) as H. unfold post in H.
  destruct (process_eod p v4 v6 ks w) as [r w'|]; [|contradiction].
  exists r, w'. split; [reflexivity|]. eapply eod_post_result; eauto.
Qed.

Lemma C03_success_iff_l p v4 v6 ks w r w' :
  NoDup (pfx w) -> NoDup (keys w) -> process_eod p v4 v6 ks w = Ok r w' ->
  (r = 0 <-> get16 p 2 = session_id (sk w) /\ applies_p (v4 ++ v6) (upd_tab_p w) /\ applies_k ks (upd_tab_k w)).
Proof.
  intros NP NK E. pose proof (post_ok _ _ _ _ _ _ (process_eod_spec p v4 v6 ks w NP NK) E) as HE.
  split.
  - intros ->. destruct (eod_post_success _ _ _ _ _ _ HE) as (S1 & _ & _ & S2 & S3 & _). auto.
  - intros (H1 & H2 & H3). destruct (eod_post_result _ _ _ _ _ _ _ HE) as [->| ->]; [reflexivity|]. exfalso.
    destruct (eod_post_failure _ _ _ _ _ _ _ HE ltac:(discriminate)) as (_ & _ & _ & _ & _ & _ & _ & _ & [G|G]); [congruence|].
    destruct G as [(pre & bad & post & c & Ev & Ha & Hf)|(_ & (pre & bad & post & c & Ev & Ha & Hf))].
    + rewrite Ev in H2. apply applies_app in H2. destruct H2 as [_ H2]. cbn [applies] in H2. destruct H2 as [Hs _].
      unfold step_ok in Hs. unfold fail_code in Hf. intuition congruence.
    + rewrite Ev in H3. apply applies_app in H3. destruct H3 as [_ H3]. cbn [applies] in H3. destruct H3 as [Hs _].
      unfold step_ok in Hs. unfold fail_code in Hf. intuition congruence.
Qed.

Lemma C03_others_l p v4 v6 ks w r w' :
  NoDup (pfx w) -> NoDup (keys w) -> process_eod p v4 v6 ks w = Ok r w' ->
  oth_p (pfx w') = oth_p (pfx w) /\ oth_k (keys w') = oth_k (keys w).
Proof.
  intros NP NK E. pose proof (post_ok _ _ _ _ _ _ (process_eod_spec p v4 v6 ks w NP NK) E) as HE.
  eapply eod_post_others; eauto.
Qed.

Lemma C03_before_eod_l fuel v4 v6 ks w :
  match store_loop fuel v4 v6 ks w with
  | Ok r w' => (r <> 0 /\ L w w') \/ reached_eod w v4 v6 ks (Ok r w')
  | Exc e w' => L w w' \/ reached_eod w v4 v6 ks (Exc e w')
  end.
Proof. exact (store_loop_spec fuel v4 v6 ks w). Qed.

Lemma C03_receive_and_store_l fuel w :
  match receive_and_store fuel w with
  | Ok r w' => resetting (sk w') = false /\
               exists w1, w' = clear_resetting w1 /\ ((r <> 0 /\ L w w1) \/ reached_eod w [] [] [] (Ok r w1))
  | Exc e w' => L w w' \/ reached_eod w [] [] [] (Exc e w')
  end.
Proof.
  pose proof (receive_and_store_spec fuel w) as H. unfold post in H.
  destruct (receive_and_store fuel w) as [r w'|e w'] eqn:E; [|exact H].
  split; [eapply receive_and_store_clears; eauto|exact H].
Qed.
