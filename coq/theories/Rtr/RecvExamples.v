(* RecvExamples.v - concrete instances for the C04 theorems (closed terms, vm_compute). *)
From RtrV Require Import Base.CSem Gen.Generated Rtr.RtrModel Rtr.RecvBase Rtr.SendBase Rtr.RecvProofs Rtr.RecvChunk Rtr.SendExamples.
Local Open Scope Z_scope.

(* an Error Report with an encapsulated Serial Query and a 3-byte text passes the size check, and every read is in range *)
Definition ex_err : list byte :=
  [1; 10; 0; 2] ++ enc32 31 ++ enc32 12 ++ ([1; 1; 0; 42] ++ enc32 12 ++ enc32 5) ++ enc32 3 ++ [110; 111; 0].
Example ex_err_ok : check_size ex_err = true /\ safe_reads ex_err = true /\ zlen ex_err = get32 ex_err 4.
Proof. vm_compute. repeat split. Qed.
(* one byte less in the text length field's value: rejected *)
Example ex_err_bad : check_size ([1; 10; 0; 2] ++ enc32 31 ++ enc32 12 ++ ([1; 1; 0; 42] ++ enc32 12 ++ enc32 5) ++ enc32 2 ++ [110; 111; 0]) = false.
Proof. vm_compute. reflexivity. Qed.

(* the same stream in one read, byte by byte, and in uneven pieces with a silent period at the same byte offset *)
Definition ex_stream : list byte := ex_cr 42 ++ ex_v4 1 8 ++ ex_eod 42 5.
Definition ex_bytewise (l : list byte) : list ev := map (fun b => EvData [b]) l.
Example ex_flatten :
  flatten [EvData (firstn 30 ex_stream); EvWait 5; EvData (skipn 30 ex_stream)] =
  flatten (ex_bytewise (firstn 30 ex_stream) ++ [EvWait 5] ++ [EvData (firstn 7 (skipn 30 ex_stream)); EvData (skipn 37 ex_stream)]).
Proof. vm_compute. reflexivity. Qed.
Example ex_chunking :
  strip (ex_run [EvData (firstn 30 ex_stream); EvWait 5; EvData (skipn 30 ex_stream)] []) =
  strip (ex_run (ex_bytewise (firstn 30 ex_stream) ++ [EvWait 5] ++ [EvData (firstn 7 (skipn 30 ex_stream)); EvData (skipn 37 ex_stream)]) []).
Proof. vm_compute. reflexivity. Qed.
(* ... while the unstripped traces differ (the theorem is not vacuous) *)
Example ex_chunking_differs :
  List.length (ex_run [EvData ex_stream] []) <> List.length (ex_run (ex_bytewise ex_stream) []).
Proof. vm_compute. discriminate. Qed.
