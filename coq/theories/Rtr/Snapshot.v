(* Snapshot.v - C08: the last hypothesis of the closed loop, snapshot_hyp, as a theorem.

   snapshot_hyp c w (Rtr/ConvergeProofs.v) says: if the client holds a session and a serial that the cache remembers, the
   client's own records are - up to order - the cache's data set at that serial.  Here it is derived for every world that
   any run of faults can leave behind, provided every response that the client COMPLETED AND APPLIED was truthful.

   Vocabulary
     pub                     ghost: what the cache has ever published, H session serial P K
     pub_functional H        one data set per (session, serial), up to order
     Snap H w                req_sess = false -> the client's own records are a published version for its (session, serial)
     truthful_response H w cr eod v4 v6 ks
                             the response (Cache Response cr, buffered payload v4 v6 ks, End of Data eod) completed in w is
                             truthful: (session, serial) of the End of Data is a published version (P', K') and
                               - a Reset Query was pending (req_sess w = true): the announced sets are P', K' up to order;
                               - a Serial Query was pending: for EVERY published version (P, K) at the client's
                                 (session, serial), the delta applied to any table that is P, K up to order gives P', K'
     truthful_step H fuel w  if w is in SYNC and this iteration's rtr_sync returns 0 having received cr eod v4 v6 ks,
                             that response is truthful.  Nothing is asked of responses that fail, are cut, or are never
                             completed, nor of anything the environment does in other states.
     truthful_run H n fuel w truthful_step along the first n iterations of run_fsm from w

   Results
     fsm_step_D              outside SYNC an iteration keeps (req_sess, session_id, serial, own records up to order) or
                             ends with req_sess = true - for every environment
     fsm_iter_Snap           one iteration (any state, any environment, including stop / restart) preserves Snap
     snapshot_reachable      Snap in every world of a truthful run
     Snap_snapshot_hyp       Snap + the cache's history is published + pub_functional  ->  snapshot_hyp
     C08_converge_no_snapshot_hyp   converge_reachable without the hypothesis snapshot_hyp
     answer_truthful_reset / answer_truthful_delta   the wire-level truthful cache of Rtr/CacheSpec.v answers truthfully
     response_received_fun / _det   the response a sync received is a function of the world (used by the examples)
     snapshot_example        a concrete run with a successful truthful sync after which Snap holds with req_sess = false

   Remarks on the statement (differences from the first sketch, all forced by the model):
   - the two cases of truthful_response are told apart by req_sess of the world in which the iteration starts, not by the
     model's reset_mode: with req_sess = true the response is applied either to shadow tables (reset_mode) or to the live
     tables when last_update = 0, and then the invariant Inv says the client holds no record: both are "the announced set";
     with req_sess = false Inv gives resetting = false, so the response is a delta on the live tables.
   - the delta clause quantifies over every published version at the client's (session, serial); Snap supplies one, so the
     run-level theorem needs no functionality of H.  Functionality is needed only where two descriptions of the same
     version meet: in Snap_snapshot_hyp and in answer_truthful_delta.
   - a failed sync keeps next_query (C03_sync): that is req_sess and, when it is false, session_id and serial; when req_sess
     is true the session id may have been overwritten by a Cache Response that was never completed - Snap is silent then.
   - the failed-undo fallback (purge_after_failed_undo) cannot be reached in the model (C03_failure_restores), and would
     set req_sess = true anyway.
   No reachable world was found in which the snapshot property fails after truthful applied responses: the theorem holds. *)
From Coq Require Import Permutation.
From RtrV Require Import Base.CSem Gen.Generated Rtr.RtrModel Rtr.RelFrame Rtr.ExpiryTac Rtr.SyncSets Rtr.SyncFrame
  Rtr.SyncProofs Rtr.ExpiryFrames Rtr.ExpirySync Rtr.ConvergeStutter Rtr.ExpiryProofs Rtr.CacheSpec Rtr.ConvergeRecv
  Rtr.ConvergeProofs Rtr.ConvergeWeak Rtr.RefreshInv Rtr.ConvergeLoop.
Local Open Scope Z_scope.

(* ---------- what the cache has published ---------- *)
Definition pub : Type := Z -> Z -> list prec -> list krec -> Prop.

Definition pub_functional (H : pub) : Prop :=
  forall s n P K P' K', H s n P K -> H s n P' K' -> Permutation P P' /\ Permutation K K'.

(* ---------- the frame of everything but a successful sync ---------- *)
(* the client's pointer into the cache's history and its own records are kept (up to order), or a Reset Query is due *)
Definition D (w w' : world) : Prop :=
  req_sess (sk w') = true \/
  (req_sess (sk w') = req_sess (sk w) /\ session_id (sk w') = session_id (sk w) /\ serial (sk w') = serial (sk w) /\
   Permutation (own_p (pfx w')) (own_p (pfx w)) /\ Permutation (own_k (keys w')) (own_k (keys w))).

Lemma D_refl w : D w w.
Proof. right. repeat split; auto using Permutation_refl. Qed.

Lemma D_trans a b c : D a b -> D b c -> D a c.
Proof.
  unfold D. intros H1 [H2|(B1 & B2 & B3 & B4 & B5)]; [left; exact H2|].
  destruct H1 as [H1|(A1 & A2 & A3 & A4 & A5)]; [left; congruence|].
  right. repeat split; try congruence; eapply Permutation_trans; eauto.
Qed.

Lemma L_D a b : L a b -> D a b.
Proof.
  intros (HP & HK & HC). apply SyncFrame.core_fields in HC. destruct HC as (C1 & C2 & C3 & _).
  right. rewrite HP, HK. repeat split; auto using Permutation_refl.
Qed.

Lemma own_p_perm X Y : Permutation X Y -> Permutation (own_p X) (own_p Y).
Proof. intros Hp. unfold own_p, own. apply Permutation_filter'. exact Hp. Qed.
Lemma own_k_perm X Y : Permutation X Y -> Permutation (own_k X) (own_k Y).
Proof. intros Hp. unfold own_k, own. apply Permutation_filter'. exact Hp. Qed.

(* a failed or interrupted sync: tables up to order, the next query unchanged *)
Lemma D_next_query w w1 :
  Permutation (pfx w1) (pfx w) -> Permutation (keys w1) (keys w) ->
  SyncProofs.next_query (sk w1) = SyncProofs.next_query (sk w) -> D w w1.
Proof.
  intros HP HK. unfold SyncProofs.next_query.
  destruct (req_sess (sk w1)) eqn:E1; [intros _; left; exact E1|].
  destruct (req_sess (sk w)) eqn:E0; [discriminate|].
  intros Hq. injection Hq as Hs Hn. right.
  split; [congruence|]. split; [exact Hs|]. split; [exact Hn|]. split; [apply own_p_perm, HP|apply own_k_perm, HK].
Qed.

Lemma D_state_changed ns w : D w (state_changed ns w).
Proof.
  unfold state_changed. destruct (_ || _); [apply D_refl|].
  right. cbn [sk pfx keys with_sk with_out req_sess session_id serial upd_st]. repeat split; auto using Permutation_refl.
Qed.

Lemma purge_outdated_D w : rel D purge_outdated w.
Proof.
  unfold rel. rewrite purge_outdated_eq'. destruct (expired w); [|apply D_refl].
  left. unfold purged, removed, with_sk. cbn [sk req_sess upd_resetting upd_last upd_serial upd_req]. reflexivity.
Qed.

(* (lprim of Rtr/SyncFrame.v is shadowed by the one of Rtr/ExpiryProofs.v) *)
Ltac lprim' := unfold rel; unfold_prims; unfold L, SyncFrame.core; sk_simpl; repeat split; reflexivity.
Ltac dstep := rstep D D_refl D_trans.
Ltac dlem :=
  match goal with
  | |- rel D (change_state _) _ => apply (rel_mono L D _ _ L_D), (okrel_rel L), change_state_okL
  | |- rel D send_serial_query _ => apply (rel_mono L D _ _ L_D), (okrel_rel L), send_serial_query_okL
  | |- rel D send_reset_query _ => apply (rel_mono L D _ _ L_D), (okrel_rel L), send_reset_query_okL
  | |- rel D tr_open _ => apply (rel_mono L D _ _ L_D), tr_open_L
  | |- rel D wait_for_sync _ => apply (rel_mono L D _ _ L_D), wait_for_sync_L
  | |- rel D purge_outdated _ => apply purge_outdated_D
  | |- rel D tr_close _ => apply (rel_mono L D _ _ L_D); lprim'
  | |- rel D (do_sleep _) _ => apply (rel_mono L D _ _ L_D); lprim'
  | |- rel D (set_sk (upd_hasrecv _ _)) _ => apply (rel_mono L D _ _ L_D); lprim'
  | |- rel D (set_sk (upd_serial (upd_req _ true) _)) _ => unfold rel, set_sk; left; reflexivity
  end.

(* every state but SYNC, every environment: the steps that do not call rtr_sync *)
Theorem fsm_step_D fuel w : st (sk w) <> c_RTR_SYNC -> rel D (fsm_step fuel) w.
Proof.
  intros Hns. unfold fsm_step. repeat dstep; try dlem.
  all: match goal with
       | Hc : (st (sk ?x) =? c_RTR_SYNC) = true |- _ => exfalso; apply Hns, Z.eqb_eq, Hc
       end.
Qed.

Lemma stop_restart_req w w' : stop_restart w = Ok tt w' -> req_sess (sk w') = true.
Proof.
  intros E. rewrite stop_restart_eq' in E. injection E as <-.
  cbn [sk with_sk req_sess upd_st]. pose proof (stopped_facts w) as F. cbv zeta in F. apply F.
Qed.

(* ---------- the response a sync received is a function of the world ---------- *)
Fixpoint collect (n : nat) (w : world) (v4 v6 ks : list (list byte))
  : option (list byte * list (list byte) * list (list byte) * list (list byte)) :=
  match n with
  | O => None
  | S n' =>
    match receive_pdu c_RTR_RECV_TIMEOUT w with
    | Ok (inr p) w1 => if storable p then collect n' w1 (push4 p v4) (push6 p v6) (pushk p ks) else Some (p, v4, v6, ks)
    | _ => None
    end
  end.

Lemma storable_eod p : nthb p 1 = c_EOD -> storable p = false.
Proof. intros Ht. unfold storable. rewrite Ht. reflexivity. Qed.

Lemma collected_collect w v4 v6 ks wa v4' v6' ks' : collected w v4 v6 ks wa v4' v6' ks' ->
  forall eod wb, receive_pdu c_RTR_RECV_TIMEOUT wa = Ok (inr eod) wb -> nthb eod 1 = c_EOD ->
  forall n r, collect n w v4 v6 ks = Some r -> r = (eod, v4', v6', ks').
Proof.
  induction 1 as [w v4 v6 ks|w w1 w2 p v4 v6 ks v4' v6' ks' Er Hs _ IH]; intros eod wb Ee Ht n r;
    (destruct n as [|n]; cbn [collect]; [discriminate|]).
  - rewrite Ee, (storable_eod _ Ht). intros E. injection E as <-. reflexivity.
  - rewrite Er, Hs. intros E. eapply IH; eauto.
Qed.

Definition response_of (fuel n : nat) (w : world)
  : option (list byte * list byte * list (list byte) * list (list byte) * list (list byte)) :=
  match sync_first fuel w with
  | Ok (Some cr) w1 =>
      match collect n (cr_world w1 cr) [] [] [] with
      | Some (eod, v4, v6, ks) => Some (cr, eod, v4, v6, ks)
      | None => None
      end
  | _ => None
  end.

Theorem response_received_fun fuel w cr eod v4 v6 ks : response_received fuel w cr eod v4 v6 ks ->
  forall n r, response_of fuel n w = Some r -> r = (cr, eod, v4, v6, ks).
Proof.
  intros (w1 & wa & wb & E1 & _ & Hc & Er & Ht) n r. unfold response_of. rewrite E1.
  destruct (collect n (cr_world w1 cr) [] [] []) as [[[[e a] b] c0]|] eqn:Ec; [|discriminate].
  pose proof (collected_collect _ _ _ _ _ _ _ _ Hc _ _ Er Ht _ _ Ec) as Eq. injection Eq as -> -> -> ->.
  intros E. injection E as <-. reflexivity.
Qed.

(* hence truthful_step below, which quantifies over every response the sync received, speaks about THE response *)
Lemma collected_collect_ex w v4 v6 ks wa v4' v6' ks' : collected w v4 v6 ks wa v4' v6' ks' ->
  forall eod wb, receive_pdu c_RTR_RECV_TIMEOUT wa = Ok (inr eod) wb -> nthb eod 1 = c_EOD ->
  exists n, collect n w v4 v6 ks = Some (eod, v4', v6', ks').
Proof.
  induction 1 as [w v4 v6 ks|w w1 w2 p v4 v6 ks v4' v6' ks' Er Hs _ IH]; intros eod wb Ee Ht.
  - exists 1%nat. cbn [collect]. rewrite Ee, (storable_eod _ Ht). reflexivity.
  - destruct (IH eod wb Ee Ht) as (n & En). exists (S n). cbn [collect]. rewrite Er, Hs. exact En.
Qed.

Theorem response_received_det fuel w cr eod v4 v6 ks cr' eod' v4' v6' ks' :
  response_received fuel w cr eod v4 v6 ks -> response_received fuel w cr' eod' v4' v6' ks' ->
  (cr, eod, v4, v6, ks) = (cr', eod', v4', v6', ks').
Proof.
  intros (w1 & wa & wb & E1 & _ & Hc & Er & Ht) R2.
  destruct (collected_collect_ex _ _ _ _ _ _ _ _ Hc _ _ Er Ht) as (n & En).
  apply (response_received_fun _ _ _ _ _ _ _ R2 n). unfold response_of. rewrite E1, En. reflexivity.
Qed.

(* ---------- set arithmetic: a difference applied to any arrangement of the old set ---------- *)
Section DeltaPerm.
Variable A : Type.
Variable eqb : A -> A -> bool.
Hypothesis eqb_eq : forall a b, eqb a b = true <-> a = b.
Variable of_pdu : list byte -> A.

Lemma In_dec_gen (x : A) l : In x l \/ ~ In x l.
Proof.
  destruct (existsb (eqb x) l) eqn:E.
  - left. apply existsb_exists in E. destruct E as (y & Hy & Ey). apply eqb_eq in Ey. subst. exact Hy.
  - right. intros Hi. assert (existsb (eqb x) l = true) by (apply existsb_exists; exists x; split; [exact Hi|apply eqb_eq; reflexivity]).
    congruence.
Qed.

Lemma fold_difference_perm ps X Old New :
  NoDup Old -> NoDup New -> Permutation X Old ->
  flags01 ps -> NoDup (map of_pdu ps) ->
  (forall r, In r (wd A of_pdu ps) <-> In r Old /\ ~ In r New) ->
  (forall r, In r (an A of_pdu ps) <-> In r New /\ ~ In r Old) ->
  Permutation (fold_left (delta A eqb of_pdu) ps X) New.
Proof.
  intros NO NN HX Hf Hd HW HA.
  assert (NX : NoDup X) by (eapply Permutation_NoDup; [apply Permutation_sym, HX|exact NO]).
  assert (XO : forall x, In x X <-> In x Old).
  { intros x. split; intros Hi; [eapply Permutation_in; [exact HX|exact Hi]|eapply Permutation_in; [apply Permutation_sym, HX|exact Hi]]. }
  assert (Happ : applies A eqb of_pdu ps X).
  { apply (applies_distinct A eqb eqb_eq of_pdu); auto.
    - intros r Hr. apply XO, HW, Hr.
    - intros r Hr Hi. apply HA in Hr. apply XO in Hi. tauto. }
  apply NoDup_Permutation; [apply (applies_NoDup A eqb of_pdu); assumption|exact NN|].
  intros x. rewrite (In_fold_distinct A eqb eqb_eq of_pdu ps X x Hf Hd). split.
  - intros [[H1 H2]|H3]; [|apply HA in H3; tauto].
    destruct (In_dec_gen x New) as [Hi|Hi]; [exact Hi|]. exfalso. apply H2, HW. split; [apply XO, H1|exact Hi].
  - intros Hn. destruct (In_dec_gen x Old) as [Hi|Hi].
    + left. split; [apply XO, Hi|]. intros Hw. apply HW in Hw. tauto.
    + right. apply HA. auto.
Qed.
End DeltaPerm.

(* ====================================================================================================== *)
Section Snapshot.
Variable H : pub.

(* the client's records are a published version for the (session, serial) it holds *)
Definition Snap (w : world) : Prop :=
  req_sess (sk w) = false ->
  exists P K, H (session_id (sk w)) (serial (sk w)) P K /\
              Permutation (own_p (pfx w)) P /\ Permutation (own_k (keys w)) K.

(* a response completed in world w (state SYNC) is truthful *)
Definition truthful_response (w : world) (cr eod : list byte) (v4 v6 ks : list (list byte)) : Prop :=
  exists P' K', H (get16 eod 2) (get32 eod 8) P' K' /\
    if req_sess (sk w)
    then Permutation (announced_p (v4 ++ v6)) P' /\ Permutation (announced_k ks) K'
    else forall P K, H (session_id (sk w)) (serial (sk w)) P K ->
         forall X Y, Permutation X P -> Permutation Y K ->
           Permutation (apply_delta_p X (v4 ++ v6)) P' /\ Permutation (apply_delta_k Y ks) K'.

(* the condition on one iteration: only a response that rtr_sync applied (result 0) has to be truthful *)
Definition truthful_step (fuel : nat) (w : world) : Prop :=
  st (sk w) = c_RTR_SYNC ->
  forall w' cr eod v4 v6 ks,
    rtr_sync fuel w = Ok 0 w' -> response_received fuel w cr eod v4 v6 ks -> truthful_response w cr eod v4 v6 ks.

Fixpoint truthful_run (n fuel : nat) (w : world) : Prop :=
  match n with
  | O => True
  | S n' => truthful_step fuel w /\
            (snd (fsm_iter fuel w) = true -> truthful_run n' fuel (fst (fsm_iter fuel w)))
  end.

Lemma truthful_run_of_all n fuel : forall w,
  (forall k, (k < n)%nat -> truthful_step fuel (run_fsm k fuel w)) -> truthful_run n fuel w.
Proof.
  induction n as [|n IH]; intros w Hall; cbn [truthful_run]; [exact I|].
  split; [apply (Hall 0%nat); lia|]. intros Hgo. apply IH. intros k Hk.
  specialize (Hall (S k) ltac:(lia)). rewrite run_fsm_iter in Hall.
  destruct (fsm_iter fuel w) as [w' go]. cbn [fst snd] in *. subst go. exact Hall.
Qed.

Lemma Snap_D w w' : Snap w -> D w w' -> Snap w'.
Proof.
  intros HS [Ht|(A1 & A2 & A3 & A4 & A5)] Hq; [congruence|].
  destruct (HS ltac:(congruence)) as (P & K & HH & P1 & P2).
  exists P, K. rewrite A2, A3. split; [exact HH|]. split; eapply Permutation_trans; eauto.
Qed.

(* ---------- the iteration in SYNC ---------- *)
Lemma sync_step_Snap fuel w : Inv w -> Snap w -> truthful_step fuel w -> st (sk w) = c_RTR_SYNC ->
  hoareE (fsm_step fuel) w (fun _ w' => Snap w') Snap.
Proof.
  intros ((_ & _ & _ & _ & T5 & T6) & NP & NK & HD) HS Htr Hst.
  unfold hoareE, fsm_step. rewrite (bind_eq get_sk _ w (sk w) w eq_refl). cbv zeta. rewrite Hst. const_dec.
  pose proof (rtr_sync_C03 fuel w NP NK) as HC. unfold bind.
  destruct (rtr_sync fuel w) as [r w1|e w1] eqn:Es.
  - destruct HC as (_ & _ & [[-> HC]|[Hr HC]]).
    + (* the response was applied *)
      cbn [Z.eqb]. rewrite change_state_eq'. apply (Snap_D w1); [|apply D_state_changed].
      destruct HC as (cr & eod & v4 & v6 & ks & RR & Ep & Ek & Eser & Esid & _ & _ & _ & _ & _ & _).
      destruct (Htr Hst w1 cr eod v4 v6 ks Es RR) as (P' & K' & HP' & Hmode).
      intros _. exists P', K'. rewrite Esid, Eser. split; [exact HP'|].
      destruct (req_sess (sk w)) eqn:Eq.
      * (* a Reset Query was pending: the announced set, in shadow tables or in the empty live tables *)
        destruct Hmode as [M1 M2].
        destruct (SyncProofs.reset_mode (sk w)) eqn:Em; [rewrite Ep, Ek; auto|].
        unfold SyncProofs.reset_mode in Em. rewrite Eq in Em. apply orb_false_iff in Em. destruct Em as [_ Em].
        cbn [andb] in Em. apply negb_false_iff, Z.eqb_eq in Em. destruct (HD Em) as [N1 N2].
        rewrite Ep, Ek, N1, N2. auto.
      * (* a Serial Query was pending: the delta on the live tables *)
        assert (Em : SyncProofs.reset_mode (sk w) = false) by (unfold SyncProofs.reset_mode; rewrite (T6 eq_refl), Eq; reflexivity).
        rewrite Em in Ep, Ek. destruct (HS Eq) as (P & K & HPK & P1 & P2). rewrite Ep, Ek.
        apply (Hmode P K HPK); assumption.
    + (* the sync failed: tables up to order, next query as before *)
      destruct (r =? 0) eqn:Er; [apply Z.eqb_eq in Er; contradiction|]. unfold ret.
      destruct HC as (F1 & F2 & F3 & _). apply (Snap_D w); [exact HS|apply D_next_query; assumption].
  - (* stop event or end of script in the middle of the exchange *)
    destruct HC as (F1 & F2 & F3). apply (Snap_D w); [exact HS|]. apply D_next_query; [rewrite F1|rewrite F2|exact F3]; apply Permutation_refl.
Qed.

(* ---------- one iteration, any state, any environment ---------- *)
Theorem fsm_step_Snap fuel w : Inv w -> Snap w -> truthful_step fuel w ->
  hoareE (fsm_step fuel) w (fun _ w' => Snap w') Snap.
Proof.
  intros HI HS Htr. destruct (Z.eq_dec (st (sk w)) c_RTR_SYNC) as [Hst|Hst]; [apply sync_step_Snap; assumption|].
  pose proof (fsm_step_D fuel w Hst) as HD. unfold rel in HD. unfold hoareE.
  destruct (fsm_step fuel w) as [a w'|e w']; apply (Snap_D w); assumption.
Qed.

Theorem fsm_iter_Snap fuel w : Inv w -> Snap w -> truthful_step fuel w -> Snap (fst (fsm_iter fuel w)).
Proof.
  intros HI HS Htr. pose proof (fsm_step_Snap fuel w HI HS Htr) as Hh. unfold hoareE in Hh. unfold fsm_iter.
  destruct (fsm_step fuel w) as [a w'|[why|] w']; cbn [fst]; try exact Hh.
  destruct (stop_restart w') as [[] w2|e w2] eqn:Es; cbn [fst].
  - intros Hq. rewrite (stop_restart_req _ _ Es) in Hq. discriminate.
  - rewrite stop_restart_eq' in Es. discriminate.
Qed.

(* ---------- every world of a truthful run ---------- *)
Theorem snapshot_reachable n fuel : forall w, Inv w -> Snap w -> truthful_run n fuel w -> Snap (run_fsm n fuel w).
Proof.
  induction n as [|n IH]; intros w HI HS Hr; [exact HS|].
  rewrite run_fsm_iter. destruct Hr as [Ht Hr].
  pose proof (fsm_iter_Inv fuel w HI) as HI'. pose proof (fsm_iter_Snap fuel w HI HS Ht) as HS'.
  destruct (fsm_iter fuel w) as [w' go]. cbn [fst snd] in *.
  destruct go; [apply IH; auto|exact HS'].
Qed.

(* the initial world: no session yet *)
Lemma Snap_start refresh expire retry mode P K0 es os ss o : Snap (start_world refresh expire retry mode P K0 es os ss o).
Proof. intros Hq. discriminate Hq. Qed.

Theorem snapshot_from_init n fuel refresh expire retry mode P K0 es os ss o :
  init_ok refresh expire retry = true ->
  Forall ev_ok es -> NoDup P -> NoDup K0 -> own_p P = [] -> own_k K0 = [] ->
  let w0 := start_world refresh expire retry mode P K0 es os ss o in
  truthful_run n fuel w0 -> Snap (run_fsm n fuel w0).
Proof.
  intros Hi He HP HK Ho1 Ho2 w0 Hr.
  destruct (reachable_refresh 0 fuel refresh expire retry mode P K0 es os ss o Hi He HP HK Ho1 Ho2) as (HI & _).
  apply snapshot_reachable; [exact HI|apply Snap_start|exact Hr].
Qed.

(* ---------- the link to C08 ---------- *)
Theorem Snap_snapshot_hyp c w : Snap w ->
  (forall n old, lookup n (c_hist c) = Some old -> H (c_session c) n (precs old) (krecs old)) ->
  pub_functional H -> snapshot_hyp c w.
Proof.
  intros HS Hh Hf old Hq Hs Hl. destruct (HS Hq) as (P & K & HH & P1 & P2). rewrite Hs in HH.
  destruct (Hf _ _ _ _ _ _ HH (Hh _ _ Hl)) as [Q1 Q2].
  split; eapply Permutation_trans; eauto.
Qed.

(* ---------- the wire-level truthful cache of Rtr/CacheSpec.v answers truthfully ---------- *)
(* answer c QReset = Cache Response, the data set, End of Data; the client's buffers are the data set split by type *)
Theorem answer_truthful_reset c w : cache_ok c -> req_sess (sk w) = true ->
  H (c_session c) (c_serial c) (precs (c_data c)) (krecs (c_data c)) ->
  truthful_response w (cache_response_pdu c) (eod_pdu c)
    (filter is_v4 (c_data c)) (filter is_v6 (c_data c)) (filter is_key (c_data c)).
Proof.
  intros (Cv & Cs & Cn & Cd & _) Hq HH. destruct (eod_fields c Cs Cn) as (_ & E2 & E3).
  destruct (dataset_parts _ _ Cd) as (D1 & D2 & D3 & _).
  exists (precs (c_data c)), (krecs (c_data c)). rewrite E2, E3, Hq. split; [exact HH|]. split.
  - unfold announced_p. rewrite announced_all_flags_1 by exact D2. unfold precs. apply Permutation_map, (split_perm _ _ D1).
  - unfold announced_k. rewrite announced_all_flags_1 by exact D3. apply Permutation_refl.
Qed.

(* answer c (QSerial session serial), served: Cache Response, withdrawals of old \ new, announcements of new \ old, End of Data *)
Theorem answer_truthful_delta c w old : cache_ok c -> pub_functional H ->
  req_sess (sk w) = false -> session_id (sk w) = c_session c -> lookup (serial (sk w)) (c_hist c) = Some old ->
  H (c_session c) (serial (sk w)) (precs old) (krecs old) ->
  H (c_session c) (c_serial c) (precs (c_data c)) (krecs (c_data c)) ->
  let ds := delta_pdus old (c_data c) in
  truthful_response w (cache_response_pdu c) (eod_pdu c) (filter is_v4 ds) (filter is_v6 ds) (filter is_key ds).
Proof.
  intros (Cv & Cs & Cn & Cd & Ch & _) Hf Hq Hsess Hlk Hold Hnew ds.
  destruct (eod_fields c Cs Cn) as (_ & E2 & E3).
  assert (Cold : dataset_ok (c_ver c) old).
  { apply lookup_In in Hlk. rewrite Forall_forall in Ch. apply (Ch _ Hlk). }
  destruct Cold as (Of & Op & Ok). destruct Cd as (Nf & Np & Nk).
  pose proof (delta_payload_ok _ _ _ Of Nf) as Hds. fold ds in Hds.
  assert (WF : forall p, payload_ok (c_ver c) p ->
             is_key (withdraw p) = is_key p /\ (is_key p = false -> prec_of_pdu (withdraw p) = prec_of_pdu p) /\
             (is_key p = true -> krec_of_pdu (withdraw p) = krec_of_pdu p)).
  { intros p Hp. destruct (withdraw_facts _ _ Hp) as (_ & _ & _ & _ & A & B1 & B2). auto. }
  assert (DTP := delta_table prec prec_of_pdu nk precs (fun S => eq_refl)
                   (fun p S (Hn : nk p = true) => in_set_prec p S (proj1 (negb_true_iff _) Hn)) (c_ver c)
                   (fun p Hp => f_equal negb (proj1 (WF p Hp)))
                   (fun p Hp (Hn : nk p = true) => proj1 (proj2 (WF p Hp)) (proj1 (negb_true_iff _) Hn))
                   old (c_data c) Of Nf Op Np).
  assert (DTK := delta_table krec krec_of_pdu is_key krecs (fun S => eq_refl) in_set_krec (c_ver c)
                   (fun p Hp => proj1 (WF p Hp)) (fun p Hp Hk => proj2 (proj2 (WF p Hp)) Hk)
                   old (c_data c) Of Nf Ok Nk).
  cbv zeta in DTP, DTK. fold ds in DTP, DTK.
  pose proof (split_perm _ _ Hds) as Hsp.
  destruct (table_facts_perm prec_of_pdu _ _ (precs old) (precs (c_data c)) Hsp DTP) as (PF & PN & PW & PA).
  destruct DTK as (KF & KN & KW & KA).
  exists (precs (c_data c)), (krecs (c_data c)). rewrite E2, E3, Hq. split; [exact Hnew|].
  intros P K HPK X Y HX HY. rewrite Hsess in HPK. destruct (Hf _ _ _ _ _ _ HPK Hold) as [Q1 Q2].
  split.
  - unfold apply_delta_p, apply_delta.
    apply (fold_difference_perm prec prec_eqb prec_eqb_eq prec_of_pdu _ X (precs old) (precs (c_data c))); auto.
    eapply Permutation_trans; eauto.
  - unfold apply_delta_k, apply_delta.
    apply (fold_difference_perm krec krec_eqb krec_eqb_eq krec_of_pdu _ Y (krecs old) (krecs (c_data c))); auto.
    eapply Permutation_trans; eauto.
Qed.

End Snapshot.

(* ---------- C08: the closed loop without the hypothesis snapshot_hyp ---------- *)
(* converge_reachable (Rtr/ConvergeLoop.v) for the world w reached from rtr_init by ANY run of n iterations (any script of
   faults), with  snapshot_hyp c w  replaced by: every response applied along the run was truthful w.r.t. what the cache has
   published (H), the cache's history is part of what it has published, one data set per (session, serial). *)
Theorem C08_converge_no_snapshot_hyp (H : pub) (c : cache) (f : nat) (silence : Z) n fuel refresh expire retry mode P K0 es os ss o :
  init_ok refresh expire retry = true ->
  Forall ev_ok es -> NoDup P -> NoDup K0 -> own_p P = [] -> own_k K0 = [] ->
  let w0 := start_world refresh expire retry mode P K0 es os ss o in
  let w := run_fsm n fuel w0 in
  truthful_run H n fuel w0 ->
  (forall k old, lookup k (c_hist c) = Some old -> H (c_session c) k (precs old) (krecs old)) ->
  pub_functional H ->
  cache_ok c -> live w -> version (sk w) = c_ver c ->
  (List.length (c_data c) < f)%nat -> (forall k old, In (k, old) (c_hist c) -> (List.length (delta_pdus old (c_data c)) < f)%nat) ->
  (forall k, nth k (opens w) true = true) -> (1 <= List.length (opens w))%nat -> sends w = [] ->
  evs w = [EvWait silence] -> loop_bound (sk w) < silence ->
  exists m, (m <= 8)%nat /\ converged c (loop_bound (sk w)) w (run_with_cache m (S f) c w).
Proof.
  intros Hi He HP HK Ho1 Ho2 w0 w Hr Hh Hf Hc Hl Hv Hlen Hlend Hon Hol Hs Hev Hsil.
  pose proof (converge_reachable c f silence n fuel refresh expire retry mode P K0 es os ss o Hi He HP HK Ho1 Ho2) as X.
  cbv zeta in X. apply X; auto.
  apply (Snap_snapshot_hyp H); auto.
  apply (snapshot_from_init H n fuel refresh expire retry mode P K0 es os ss o); auto.
Qed.

(* ---------- Examples: the hypotheses are satisfiable, the conclusions are not vacuous ---------- *)
(* what the example cache has published: session 42, serial 5 = {A}, serial 6 = {A, B} *)
Definition ex_pub : pub := fun s n P K =>
  s = 42 /\ ((n = 5 /\ P = precs [ex_PA] /\ K = krecs [ex_PA]) \/
             (n = 6 /\ P = precs [ex_PA; ex_PB] /\ K = krecs [ex_PA; ex_PB])).

Lemma ex_pub_functional : pub_functional ex_pub.
Proof.
  intros s n P K P' K' (_ & [(A & -> & ->)|(A & -> & ->)]) (_ & [(B & -> & ->)|(B & -> & ->)]);
    try (split; apply Permutation_refl); lia.
Qed.

Lemma ex_pub_hist6 n old : lookup n (c_hist ex_cache6) = Some old -> ex_pub (c_session ex_cache6) n (precs old) (krecs old).
Proof.
  cbn [lookup c_hist c_session ex_cache6]. intros Hl.
  destruct (n =? 5) eqn:E5; [injection Hl as <-; apply Z.eqb_eq in E5; subst n; split; [reflexivity|left; auto]|].
  destruct (n =? 6) eqn:E6; [injection Hl as <-; apply Z.eqb_eq in E6; subst n; split; [reflexivity|right; auto]|discriminate].
Qed.

Ltac script_ok :=
  unfold ex_CR, ex_PA, ex_PB, ex_EOD; cbn [app];
  repeat first [apply Forall_nil | apply Forall_cons; [cbn [ev_ok]|]];
  try exact I; try lia; try (unfold byte_ok; lia).

(* (A) the world lp_est of Rtr/ConvergeLoop.v: CONNECTING, RESET, SYNC (Reset Query answered with serial 5 = {A}), ESTABLISHED *)
Definition snap_w0 : world :=
  start_world 3600 7200 600 0 [] [] [EvData (ex_CR ++ ex_PA ++ ex_EOD); EvWait 100000] (repeat true 17) [] [].

Lemma snap_w0_truthful : truthful_run ex_pub 3 100 snap_w0.
Proof.
  apply truthful_run_of_all. intros k Hk. destruct k as [|[|[|k]]]; [| | |lia].
  - intros Hst. vm_compute in Hst. discriminate Hst.
  - intros Hst. vm_compute in Hst. discriminate Hst.
  - intros Hst w' cr eod v4 v6 ks Es RR.
    assert (R : response_of 100 5 (run_fsm 2 100 snap_w0) = Some (ex_CR, ex_EOD, [ex_PA], [], [])) by (vm_compute; reflexivity).
    pose proof (response_received_fun _ _ _ _ _ _ _ RR _ _ R) as Eq. injection Eq as <- <- <- <- <-.
    exists (precs [ex_PA]), (krecs [ex_PA]). split; [vm_compute; auto|].
    assert (Eq : req_sess (sk (run_fsm 2 100 snap_w0)) = true) by (vm_compute; reflexivity). rewrite Eq.
    split; vm_compute; apply Permutation_refl.
Qed.

Example snapshot_example :
  lp_est = run_fsm 3 100 snap_w0 /\
  truthful_run ex_pub 3 100 snap_w0 /\
  (* the third iteration is a sync that succeeds *)
  (st (sk (run_fsm 2 100 snap_w0)) = c_RTR_SYNC /\ match rtr_sync 100 (run_fsm 2 100 snap_w0) with Ok 0 _ => True | _ => False end) /\
  (* hence, by snapshot_from_init: *)
  Snap ex_pub lp_est /\
  (req_sess (sk lp_est) = false /\ session_id (sk lp_est) = 42 /\ serial (sk lp_est) = 5 /\ own_p (pfx lp_est) = precs [ex_PA]) /\
  (* hence, by Snap_snapshot_hyp, for the cache that has moved on to serial 6 and remembers 5: *)
  snapshot_hyp ex_cache6 lp_est /\ lookup (serial (sk lp_est)) (c_hist ex_cache6) = Some [ex_PA].
Proof.
  assert (HS : Snap ex_pub lp_est).
  { apply (snapshot_from_init ex_pub 3 100 3600 7200 600 0 [] [] _ (repeat true 17) [] []); try (constructor; fail); try reflexivity.
    - script_ok.
    - exact snap_w0_truthful. }
  split; [reflexivity|]. split; [exact snap_w0_truthful|].
  split; [split; [vm_compute; reflexivity|vm_compute; exact I]|].
  split; [exact HS|]. split; [vm_compute; auto|].
  split; [apply (Snap_snapshot_hyp ex_pub); [exact HS|exact ex_pub_hist6|exact ex_pub_functional]|vm_compute; reflexivity].
Qed.

(* the closed-loop theorem without snapshot_hyp, instantiated: all its hypotheses hold for that world (= lp_est, see
   snapshot_example) and ex_cache6.  (Stated for run_fsm 3 100 snap_w0: converting a hypothesis about lp_est into one about
   its unfolding makes the kernel evaluate the run lazily.) *)
Example converge_no_snapshot_hyp_example :
  let w := run_fsm 3 100 snap_w0 in
  exists m, (m <= 8)%nat /\ converged ex_cache6 (loop_bound (sk w)) w (run_with_cache m 4 ex_cache6 w).
Proof.
  cbv zeta. unfold snap_w0.
  assert (He : Forall ev_ok [EvData (ex_CR ++ ex_PA ++ ex_EOD); EvWait 100000]) by script_ok.
  pose proof (C08_converge_no_snapshot_hyp ex_pub ex_cache6 3 100000 3 100 3600 7200 600 0 [] []
                [EvData (ex_CR ++ ex_PA ++ ex_EOD); EvWait 100000] (repeat true 17) [] []
                eq_refl He (NoDup_nil _) (NoDup_nil _) eq_refl eq_refl) as X.
  cbv zeta in X. apply X.
  - exact snap_w0_truthful.
  - exact ex_pub_hist6.
  - exact ex_pub_functional.
  - exact ex_cache6_ok.
  - vm_compute; reflexivity.
  - vm_compute; reflexivity.
  - vm_compute; lia.
  - intros k old [E|[E|[]]]; inversion E; subst; vm_compute; lia.
  - match goal with |- forall k, nth k (opens ?w) true = true =>
      let E := fresh in assert (E : opens w = repeat true 16) by (vm_compute; reflexivity); rewrite E; exact all_true_16 end.
  - vm_compute; lia.
  - vm_compute; reflexivity.
  - vm_compute; reflexivity.
  - vm_compute; reflexivity.
Qed.

(* (B) a Reset Query answered (serial 5 = {A}), the refresh timer, a Serial Query answered with the delta +B (serial 6):
   both clauses of truthful_response are exercised, Snap holds with req_sess = false at serial 5 and at serial 6 *)
Definition ex_EOD6 : list byte := [1;7;0;42;0;0;0;24; 0;0;0;6; 0;0;14;16; 0;0;2;88; 0;0;28;32].
Definition snap_w1 : world :=
  start_world 3600 7200 600 0 [] []
    [EvData (ex_CR ++ ex_PA ++ ex_EOD); EvWait 3601; EvData (ex_CR ++ ex_PB ++ ex_EOD6); EvWait 100000] (repeat true 17) [] [].

Lemma snap_w1_truthful : truthful_run ex_pub 5 100 snap_w1.
Proof.
  apply truthful_run_of_all. intros k Hk. destruct k as [|[|[|[|[|k]]]]]; [| | | | |lia].
  - intros Hst. vm_compute in Hst. discriminate Hst.
  - intros Hst. vm_compute in Hst. discriminate Hst.
  - intros Hst w' cr eod v4 v6 ks Es RR.
    assert (R : response_of 100 5 (run_fsm 2 100 snap_w1) = Some (ex_CR, ex_EOD, [ex_PA], [], [])) by (vm_compute; reflexivity).
    pose proof (response_received_fun _ _ _ _ _ _ _ RR _ _ R) as Eq. injection Eq as <- <- <- <- <-.
    exists (precs [ex_PA]), (krecs [ex_PA]). split; [vm_compute; auto|].
    assert (Eq : req_sess (sk (run_fsm 2 100 snap_w1)) = true) by (vm_compute; reflexivity). rewrite Eq.
    split; vm_compute; apply Permutation_refl.
  - intros Hst. vm_compute in Hst. discriminate Hst.
  - intros Hst w' cr eod v4 v6 ks Es RR.
    assert (R : response_of 100 5 (run_fsm 4 100 snap_w1) = Some (ex_CR, ex_EOD6, [ex_PB], [], [])) by (vm_compute; reflexivity).
    pose proof (response_received_fun _ _ _ _ _ _ _ RR _ _ R) as Eq. injection Eq as <- <- <- <- <-.
    exists (precs [ex_PA; ex_PB]), (krecs [ex_PA; ex_PB]). split; [vm_compute; auto 10|].
    assert (Eq : req_sess (sk (run_fsm 4 100 snap_w1)) = false) by (vm_compute; reflexivity). rewrite Eq.
    assert (Es5 : session_id (sk (run_fsm 4 100 snap_w1)) = 42) by (vm_compute; reflexivity).
    assert (En5 : serial (sk (run_fsm 4 100 snap_w1)) = 5) by (vm_compute; reflexivity).
    rewrite Es5, En5. intros P K (_ & [(_ & -> & ->)|(A & _)]) X Y HX HY; [|discriminate A].
    assert (EX : X = precs [ex_PA]) by (apply Permutation_length_1_inv, Permutation_sym, HX).
    assert (EY : Y = []) by (apply Permutation_nil, Permutation_sym, HY).
    subst X Y. split; vm_compute; apply Permutation_refl.
Qed.

Example snapshot_example_delta :
  let w3 := run_fsm 3 100 snap_w1 in let w5 := run_fsm 5 100 snap_w1 in
  truthful_run ex_pub 5 100 snap_w1 /\
  (st (sk (run_fsm 2 100 snap_w1)) = c_RTR_SYNC /\ match rtr_sync 100 (run_fsm 2 100 snap_w1) with Ok 0 _ => True | _ => False end) /\
  (st (sk (run_fsm 4 100 snap_w1)) = c_RTR_SYNC /\ match rtr_sync 100 (run_fsm 4 100 snap_w1) with Ok 0 _ => True | _ => False end) /\
  Snap ex_pub w3 /\ Snap ex_pub w5 /\
  (req_sess (sk w3) = false /\ serial (sk w3) = 5 /\ own_p (pfx w3) = precs [ex_PA]) /\
  (req_sess (sk w5) = false /\ serial (sk w5) = 6 /\ own_p (pfx w5) = precs [ex_PA; ex_PB]).
Proof.
  cbv zeta.
  assert (He : Forall ev_ok [EvData (ex_CR ++ ex_PA ++ ex_EOD); EvWait 3601; EvData (ex_CR ++ ex_PB ++ ex_EOD6); EvWait 100000]).
  { unfold ex_EOD6. script_ok. }
  split; [exact snap_w1_truthful|].
  split; [split; [vm_compute; reflexivity|vm_compute; exact I]|].
  split; [split; [vm_compute; reflexivity|vm_compute; exact I]|].
  split.
  { apply (snapshot_from_init ex_pub 3 100 3600 7200 600 0 [] [] _ (repeat true 17) [] []); try (constructor; fail); try reflexivity; [exact He|].
    destruct snap_w1_truthful as (T0 & T1). split; [exact T0|]. intros G1. specialize (T1 G1).
    destruct T1 as (T1 & T2). split; [exact T1|]. intros G2. specialize (T2 G2).
    destruct T2 as (T2 & _). split; [exact T2|]. intros _. exact I. }
  split.
  { apply (snapshot_from_init ex_pub 5 100 3600 7200 600 0 [] [] _ (repeat true 17) [] []); try (constructor; fail); try reflexivity; [exact He|].
    exact snap_w1_truthful. }
  split; vm_compute; auto.
Qed.

Print Assumptions fsm_step_D.
Print Assumptions response_received_fun.
Print Assumptions response_received_det.
Print Assumptions fsm_step_Snap.
Print Assumptions fsm_iter_Snap.
Print Assumptions snapshot_reachable.
Print Assumptions snapshot_from_init.
Print Assumptions Snap_snapshot_hyp.
Print Assumptions answer_truthful_reset.
Print Assumptions answer_truthful_delta.
Print Assumptions C08_converge_no_snapshot_hyp.
Print Assumptions snapshot_example.
Print Assumptions converge_no_snapshot_hyp_example.
Print Assumptions snapshot_example_delta.
