(* SendBase.v - C14, vocabulary and leaf facts:
   wf_pdu (one complete PDU as the client may send it), error_report and its fields,
   "send attempts" in the trace, and the exact behaviour of tr_send_all / send_pdu
   for EVERY script of partial writes and send errors. *)
From RtrV Require Import Base.CSem Gen.Generated Rtr.RtrModel Rtr.RelFrame Rtr.RecvBase.
Local Open Scope Z_scope.

Notation length := List.length.
Notation concat := List.concat.

(* ---------- bytes ---------- *)
Definition byte_ok (x : Z) : Prop := 0 <= x < 256.

Lemma mod256_ok x : byte_ok (x mod 256).
Proof. unfold byte_ok. apply Z.mod_pos_bound. lia. Qed.

Lemma enc16_length v : length (enc16 v) = 2%nat. Proof. reflexivity. Qed.
Lemma enc32_length v : length (enc32 v) = 4%nat. Proof. reflexivity. Qed.
Lemma enc16_ok v : Forall byte_ok (enc16 v).
Proof. unfold enc16. repeat constructor; apply mod256_ok. Qed.
Lemma enc32_ok v : Forall byte_ok (enc32 v).
Proof. unfold enc32. repeat constructor; apply mod256_ok. Qed.

Lemma be32_enc32 v : 0 <= v < 4294967296 ->
  be32 ((v / 16777216) mod 256) ((v / 65536) mod 256) ((v / 256) mod 256) (v mod 256) = v.
Proof.
  intros H. unfold be32.
  pose proof (Z.div_mod v 256 ltac:(lia)). pose proof (Z.div_mod (v / 256) 256 ltac:(lia)).
  pose proof (Z.div_mod (v / 256 / 256) 256 ltac:(lia)).
  replace (v / 65536) with (v / 256 / 256) by (rewrite Z.div_div by lia; reflexivity).
  replace (v / 16777216) with (v / 256 / 256 / 256) by (rewrite !Z.div_div by lia; reflexivity).
  assert (v / 256 / 256 / 256 < 256) by (rewrite !Z.div_div by lia; apply Z.div_lt_upper_bound; lia).
  assert (0 <= v / 256 / 256 / 256) by (rewrite !Z.div_div by lia; apply Z.div_pos; lia).
  rewrite (Z.mod_small (v / 256 / 256 / 256) 256) by lia. lia.
Qed.
Lemma be16_enc16 v : 0 <= v < 65536 -> be16 ((v / 256) mod 256) (v mod 256) = v.
Proof.
  intros H. unfold be16. pose proof (Z.div_mod v 256 ltac:(lia)).
  assert (v / 256 < 256) by (apply Z.div_lt_upper_bound; lia).
  assert (0 <= v / 256) by (apply Z.div_pos; lia).
  rewrite (Z.mod_small (v / 256) 256) by lia. lia.
Qed.

Lemma get32_app_r (a b : list byte) off : (length a <= off)%nat -> get32 (a ++ b) off = get32 b (off - length a).
Proof.
  intros. unfold get32. rewrite !nthb_app_r by lia.
  replace (1 + off - length a)%nat with (1 + (off - length a))%nat by lia.
  replace (2 + off - length a)%nat with (2 + (off - length a))%nat by lia.
  replace (3 + off - length a)%nat with (3 + (off - length a))%nat by lia. reflexivity.
Qed.

(* ---------- send items of the trace ---------- *)
Definition is_send (t : titem) : bool := match t with TSend _ | TSendFail _ => true | _ => false end.
Definition nosend (l : list titem) : Prop := Forall (fun t => is_send t = false) l.

Lemma nosend_nil : nosend []. Proof. constructor. Qed.
Lemma nosend_app a b : nosend a -> nosend b -> nosend (a ++ b).
Proof. unfold nosend. intros. apply Forall_app. now split. Qed.
Lemma nosend_app_inv a b : nosend (a ++ b) -> nosend a /\ nosend b.
Proof. unfold nosend. intros H. now apply Forall_app in H. Qed.
Lemma nosend_rev a : nosend a -> nosend (rev a).
Proof. unfold nosend. intros. now apply Forall_rev. Qed.
Lemma nosend_cons t a : is_send t = false -> nosend a -> nosend (t :: a).
Proof. intros. now constructor. Qed.
Lemma nosend_map_pfx b l : nosend (map (TPfx b) l).
Proof. induction l; constructor; auto. Qed.
Lemma nosend_map_key b l : nosend (map (TKey b) l).
Proof. induction l; constructor; auto. Qed.

(* bytes handed to the transport, in order (the trace is given oldest first) *)
Fixpoint sent_of (l : list titem) : list byte :=
  match l with
  | [] => []
  | TSend c :: r => c ++ sent_of r
  | _ :: r => sent_of r
  end.
Lemma sent_of_app a b : sent_of (a ++ b) = sent_of a ++ sent_of b.
Proof. induction a as [|t a IH]; [reflexivity|]. destruct t; cbn [sent_of app]; rewrite ?IH, ?app_assoc; reflexivity. Qed.
Lemma sent_of_nosend a : nosend a -> sent_of a = [].
Proof. induction 1 as [|t a Ht _ IH]; [reflexivity|]. destruct t; try discriminate; exact IH. Qed.
Lemma sent_of_chunks cs : sent_of (map TSend cs) = concat cs.
Proof. induction cs as [|c cs IH]; [reflexivity|]. cbn. now rewrite IH. Qed.

(* one attempt to send the byte string [b] (one call of tr_send_all), as it shows in the trace:
   some chunks whose concatenation is a prefix of [b], then possibly a failed tr_send;
   [complete] <-> everything was handed over *)
Definition attempt (b : list byte) (complete : bool) (g : list titem) : Prop :=
  exists chunks tail rest,
    g = map TSend chunks ++ tail /\ b = concat chunks ++ rest /\
    (tail = [] \/ exists c, c < 0 /\ tail = [TSendFail c]) /\
    (complete = true -> rest = [] /\ tail = []) /\
    (complete = false -> rest <> []).

Lemma attempt_sent b c g : attempt b c g -> exists rest, b = sent_of g ++ rest /\ (c = true -> rest = []) /\ (c = false -> rest <> []).
Proof.
  intros (chunks & tail & rest & -> & -> & Ht & Hc & Hf). exists rest.
  rewrite sent_of_app, sent_of_chunks.
  assert (sent_of tail = []) as -> by (destruct Ht as [->|(c0 & _ & ->)]; reflexivity).
  rewrite app_nil_r. repeat split; auto. intros H. now apply Hc.
Qed.

(* ---------- frame of the send primitives ---------- *)
Definition frame_send (w w' : world) : Prop :=
  sk w' = sk w /\ pfx w' = pfx w /\ keys w' = keys w /\ evs w' = evs w /\ opens w' = opens w /\ now w' = now w /\
  exists k, sends w' = skipn k (sends w).
Lemma skipn_add {A} (l : list A) : forall k1 k2, skipn k2 (skipn k1 l) = skipn (k1 + k2) l.
Proof.
  induction l as [|x l IH]; intros k1 k2; [now rewrite !skipn_nil|].
  destruct k1; [reflexivity|]. cbn [skipn Nat.add]. apply IH.
Qed.
Lemma frame_send_refl w : frame_send w w.
Proof. repeat split. now exists 0%nat. Qed.
Lemma frame_send_trans a b c : frame_send a b -> frame_send b c -> frame_send a c.
Proof.
  unfold frame_send. intros (?&?&?&?&?&?&k1&Hk1) (?&?&?&?&?&?&k2&Hk2). repeat split; try congruence.
  exists (k1 + k2)%nat. rewrite Hk2, Hk1. apply skipn_add.
Qed.

(* ---------- tr_send_all, for every script of partial writes ---------- *)
Lemma tr_send_all_loop_spec fuel : forall b total w,
  (length b <= fuel)%nat ->
  match tr_send_all_loop fuel b total w with
  | Ok r w' =>
      frame_send w w' /\
      exists chunks tail rest,
        out w' = rev (map TSend chunks ++ tail) ++ out w /\ b = concat chunks ++ rest /\
        ((r = total + zlen b /\ rest = [] /\ tail = []) \/
         (r < 0 /\ rest <> [] /\ (tail = [TSendFail r] \/ (tail = [] /\ r = -1000))))
  | Exc _ _ => False
  end.
Proof.
  induction fuel as [|f IH]; intros b total w Hl.
  - destruct b; [|cbn in Hl; lia]. cbn [tr_send_all_loop]. unfold ret.
    split; [apply frame_send_refl|]. exists [], [], []. cbn. split; [reflexivity|]. split; [reflexivity|].
    left. unfold zlen; cbn [length Z.of_nat]. repeat split; lia.
  - cbn [tr_send_all_loop]. destruct b as [|x b'].
    + unfold ret. split; [apply frame_send_refl|]. exists [], [], []. cbn. split; [reflexivity|]. split; [reflexivity|].
      left. unfold zlen; cbn [length Z.of_nat]. repeat split; lia.
    + set (b := x :: b') in *.
      assert (Hb : 1 <= zlen b) by (unfold b; rewrite zlen_cons; pose proof (zlen_nonneg b'); lia).
      unfold bind at 1. unfold tr_send.
      destruct (match sends w with [] => (1000000, []) | x0 :: r => (x0, r) end) as [beh rst] eqn:Es.
      assert (Hk : exists k, rst = skipn k (sends w)).
      { destruct (sends w) as [|s0 ss]; injection Es as <- <-; [now exists 0%nat|now exists 1%nat]. }
      destruct (beh <? 0) eqn:Eb.
      * apply Z.ltb_lt in Eb. rewrite (proj2 (Z.ltb_lt beh 0) Eb). unfold ret.
        split; [repeat split; cbn; auto|].
        exists [], [TSendFail beh], b. cbn. split; [reflexivity|]. split; [reflexivity|].
        right. split; [lia|]. split; [discriminate|]. now left.
      * apply Z.ltb_ge in Eb.
        set (n := Z.min (zlen b) (Z.min beh 8192)).
        assert (Hn : 0 <= n <= zlen b) by (unfold n; lia).
        replace (n <? 0) with false by (symmetry; apply Z.ltb_ge; lia).
        destruct (n =? 0) eqn:En.
        -- unfold ret. split; [repeat split; cbn; auto|].
           apply Z.eqb_eq in En. exists [firstn (Z.to_nat n) b], [], b.
           cbn [map app rev out]. split; [reflexivity|]. rewrite En. cbn [Z.to_nat firstn concat app]. split; [reflexivity|].
           right. split; [lia|]. split; [discriminate|]. right. now split.
        -- apply Z.eqb_neq in En.
           match goal with |- match tr_send_all_loop f ?bb ?tt ?ww with _ => _ end =>
             specialize (IH bb tt ww); destruct (tr_send_all_loop f bb tt ww) as [r w'|e w'] end; [|apply IH; rewrite skipn_length; cbn [length] in *; lia].
           assert (Hl2 : (length (skipn (Z.to_nat n) b) <= f)%nat) by (rewrite skipn_length; cbn [length] in *; lia).
           destruct (IH Hl2) as (Hfr & chunks & tail & rest & Hout & Hcat & Hres). clear IH.
           split.
           { eapply frame_send_trans; [|exact Hfr]. repeat split; cbn; auto. }
           exists (firstn (Z.to_nat n) b :: chunks), tail, rest.
           split. { rewrite Hout. cbn [out map app rev]. rewrite <- !app_assoc. reflexivity. }
           split. { cbn [concat]. rewrite <- app_assoc, <- Hcat. now rewrite firstn_skipn. }
           rewrite zlen_skipn in Hres by lia.
           destruct Hres as [(Hr & -> & ->)|Hres]; [left; repeat split; lia|right; exact Hres].
Qed.

(* C14 (2): tr_send_all on [b], whatever the send script *)
Theorem tr_send_all_spec b w :
  b <> [] ->
  match tr_send_all b w with
  | Ok r w' =>
      frame_send w w' /\
      exists g, out w' = rev g ++ out w /\ attempt b (r >? 0) g /\ (r >? 0 = true -> r = zlen b)
  | Exc _ _ => False
  end.
Proof.
  intros Hne.
  unfold tr_send_all. pose proof (tr_send_all_loop_spec (length b) b 0 w (le_n _)) as H.
  destruct (tr_send_all_loop (length b) b 0 w) as [r w'|]; [|exact H].
  destruct H as (Hfr & chunks & tail & rest & Hout & Hcat & Hres). split; [exact Hfr|].
  exists (map TSend chunks ++ tail). split; [exact Hout|].
  destruct Hres as [(Hr & -> & ->)|(Hr & Hrest & Ht)].
  - assert (Hz : 1 <= zlen b) by (destruct b as [|x0 b0]; [congruence|rewrite zlen_cons; pose proof (zlen_nonneg b0); lia]).
    assert (Hg : r >? 0 = true) by (apply Z.gtb_lt; lia). rewrite Hg.
    split; [|intros _; lia].
    exists chunks, [], []. repeat split; auto. discriminate.
  - assert (Hg : r >? 0 = false) by (rewrite Z.gtb_ltb; apply Z.ltb_ge; lia). rewrite Hg.
    split; [|discriminate].
    exists chunks, tail, rest. repeat split; auto; try discriminate.
    destruct Ht as [->|(-> & _)]; [right; exists r; split; [lia|reflexivity]|now left].
Qed.

Ltac bytes_ok :=
  repeat (apply Forall_cons; [first [apply mod256_ok | (unfold byte_ok; vm_compute; split; congruence)]|]); apply Forall_nil.

(* ---------- well-formed PDUs as the client may send them ---------- *)
(* ONE complete PDU: at least a header, protocol version [v] in byte 0, the big-endian length field
   (bytes 4..7) equals the number of bytes and does not exceed the client's own maximum, the type is
   one a router sends (Serial Query, Reset Query, Error Report); the header consists of bytes. *)
Definition wf_pdu (v : Z) (b : list byte) : Prop :=
  8 <= zlen b /\ nthb b 0 = v /\ get32 b 4 = zlen b /\ zlen b <= c_RTR_MAX_PDU_LEN /\
  In (nthb b 1) [c_SERIAL_QUERY; c_RESET_QUERY; c_ERROR] /\ Forall byte_ok (firstn 8 b).

Definition error_report (v code : Z) (enc text : list byte) : list byte :=
  [v mod 256; c_ERROR] ++ enc16 code ++ enc32 (16 + zlen enc + zlen text) ++ enc32 (zlen enc) ++ enc ++ enc32 (zlen text) ++ text.
Definition serial_query_bytes (s : sock) : list byte :=
  [version s mod 256; c_SERIAL_QUERY] ++ enc16 (session_id s mod 65536) ++ enc32 12 ++ enc32 (serial s).
Definition reset_query_bytes (s : sock) : list byte :=
  [version s mod 256; c_RESET_QUERY] ++ enc16 0 ++ enc32 8.

Lemma error_report_len v code enc text : zlen (error_report v code enc text) = 16 + zlen enc + zlen text.
Proof. unfold error_report, zlen. rewrite !app_length. cbn [length enc16 enc32]. lia. Qed.

Definition rep_ok (enc text : list byte) : Prop := 16 + zlen enc + zlen text <= c_RTR_MAX_PDU_LEN.

Lemma error_report_wf v code enc text : rep_ok enc text -> wf_pdu (v mod 256) (error_report v code enc text).
Proof.
  intros Hok. unfold rep_ok in Hok. change c_RTR_MAX_PDU_LEN with 3248 in *.
  pose proof (zlen_nonneg enc). pose proof (zlen_nonneg text).
  unfold wf_pdu. rewrite error_report_len. change c_RTR_MAX_PDU_LEN with 3248.
  split; [lia|]. split; [reflexivity|]. split.
  - unfold error_report, get32, nthb. cbn [app enc16 enc32 nth Nat.add]. apply be32_enc32. lia.
  - split; [lia|]. split; [right; right; left; reflexivity|].
    unfold error_report. cbn [app enc16 enc32 firstn].
    bytes_ok.
Qed.

(* the fields of an Error Report, read back from the bytes *)
Lemma error_report_fields v code enc text :
  0 <= code < 65536 -> rep_ok enc text ->
  let b := error_report v code enc text in
  nthb b 1 = c_ERROR /\ get16 b 2 = code /\ get32 b 4 = 16 + zlen enc + zlen text /\ get32 b 8 = zlen enc /\
  firstn (length enc) (skipn 12 b) = enc /\
  get32 b (12 + length enc) = zlen text /\
  skipn (16 + length enc) b = text /\ zlen b = 16 + zlen enc + zlen text.
Proof.
  intros Hc Hok b. unfold rep_ok in Hok. change c_RTR_MAX_PDU_LEN with 3248 in *.
  pose proof (zlen_nonneg enc). pose proof (zlen_nonneg text).
  split; [reflexivity|]. split. { unfold b, error_report, get16, nthb. cbn [app enc16 enc32 nth]. apply be16_enc16; lia. }
  split. { unfold b, error_report, get32, nthb. cbn [app enc16 enc32 nth Nat.add]. apply be32_enc32; lia. }
  split. { unfold b, error_report, get32, nthb. cbn [app enc16 enc32 nth Nat.add]. apply be32_enc32; lia. }
  assert (Hb : b = (([v mod 256; c_ERROR] ++ enc16 code ++ enc32 (16 + zlen enc + zlen text) ++ enc32 (zlen enc)) ++ enc) ++ enc32 (zlen text) ++ text).
  { unfold b, error_report. rewrite <- !app_assoc. reflexivity. }
  split.
  { unfold b, error_report. cbn [app enc16 enc32 skipn]. rewrite firstn_app, Nat.sub_diag, firstn_all. cbn [firstn]. now rewrite app_nil_r. }
  split.
  { rewrite Hb.
    set (P := ([v mod 256; c_ERROR] ++ enc16 code ++ enc32 (16 + zlen enc + zlen text) ++ enc32 (zlen enc)) ++ enc).
    assert (HP : @List.length byte P = (12 + @List.length byte enc)%nat) by (unfold P; rewrite app_length; reflexivity).
    clearbody P. rewrite get32_app_r by (rewrite HP; apply le_n). rewrite HP, Nat.sub_diag.
    unfold get32, nthb. cbn [enc32 app nth Nat.add]. apply be32_enc32. lia. }
  split.
  { unfold b, error_report. cbn [app enc16 enc32].
    replace (16 + length enc)%nat with (12 + (length enc + 4))%nat by lia. cbn [Nat.add skipn].
    rewrite skipn_app.
    replace (length enc + 4 - length enc)%nat with 4%nat by lia.
    rewrite (skipn_all2 enc) by lia. cbn [app skipn]. reflexivity. }
  apply error_report_len.
Qed.

Lemma serial_query_wf s : wf_pdu (version s mod 256) (serial_query_bytes s).
Proof.
  assert (Hl : zlen (serial_query_bytes s) = 12) by reflexivity.
  unfold wf_pdu. rewrite Hl. change c_RTR_MAX_PDU_LEN with 3248.
  split; [lia|]. split; [reflexivity|]. split; [reflexivity|]. split; [lia|]. split; [left; reflexivity|].
  unfold serial_query_bytes. cbn [app enc16 enc32 firstn]. bytes_ok.
Qed.
Lemma reset_query_wf s : wf_pdu (version s mod 256) (reset_query_bytes s).
Proof.
  assert (Hl : zlen (reset_query_bytes s) = 8) by reflexivity.
  unfold wf_pdu. rewrite Hl. change c_RTR_MAX_PDU_LEN with 3248.
  split; [lia|]. split; [reflexivity|]. split; [reflexivity|]. split; [lia|]. split; [right; left; reflexivity|].
  unfold reset_query_bytes. cbn [app enc16 enc32 firstn]. bytes_ok.
Qed.
(* fields of the queries: session id and serial number of the socket *)
Lemma serial_query_fields s : 0 <= session_id s < 65536 -> 0 <= serial s < 4294967296 ->
  get16 (serial_query_bytes s) 2 = session_id s /\ get32 (serial_query_bytes s) 8 = serial s /\ zlen (serial_query_bytes s) = 12.
Proof.
  intros Hs Hn. unfold serial_query_bytes, get16, get32, nthb. cbn [app enc16 enc32 nth Nat.add].
  rewrite (Z.mod_small (session_id s)) by lia. split; [apply be16_enc16; lia|]. split; [apply be32_enc32; lia|reflexivity].
Qed.

(* ---------- change_state, exactly ---------- *)
Lemma change_state_eq ns w :
  change_state ns w =
  Ok tt (if (st (sk w) =? ns) || (st (sk w) =? c_RTR_SHUTDOWN) then w
         else mkW (upd_st (sk w) ns) (pfx w) (keys w) (evs w) (opens w) (sends w) (now w) (TState ns :: out w)).
Proof.
  unfold change_state. unfold_prims.
  destruct (st (sk w) =? ns); [reflexivity|]. destruct (st (sk w) =? c_RTR_SHUTDOWN); reflexivity.
Qed.

(* ---------- send_pdu / send_error_pdu, exactly one attempt ---------- *)
Definition shut (w : world) : Prop := st (sk w) = c_RTR_SHUTDOWN.

Lemma send_pdu_spec b w :
  b <> [] -> ~ shut w ->
  match send_pdu b w with
  | Ok r w' => frame_send w w' /\ exists g c, out w' = rev g ++ out w /\ attempt b c g /\ r = (if c then 0 else -1)
  | Exc _ _ => False
  end.
Proof.
  intros Hne Hs. unfold send_pdu. unfold bind at 1. unfold get_sk.
  destruct (st (sk w) =? c_RTR_SHUTDOWN) eqn:E; [apply Z.eqb_eq in E; contradiction|].
  unfold bind. pose proof (tr_send_all_spec b w Hne) as H.
  destruct (tr_send_all b w) as [r w'|]; [|exact H].
  destruct H as (Hfr & g & Hout & Ha & _). unfold ret. split; [exact Hfr|].
  exists g, (r >? 0). repeat split; auto.
Qed.
Lemma send_pdu_shut b w : shut w -> send_pdu b w = Ok (-1) w.
Proof. intros Hs. unfold send_pdu, bind, get_sk, ret. unfold shut in Hs. rewrite Hs, Z.eqb_refl. reflexivity. Qed.

Definition is_err_pdu (enc : list byte) : bool := (2 <=? zlen enc) && (nthb enc 1 =? c_ERROR).

Lemma error_report_nonnil v code enc text : error_report v code enc text <> [].
Proof. discriminate. Qed.

Lemma send_error_pdu_spec enc code text w :
  ~ shut w ->
  match send_error_pdu enc code text w with
  | Ok r w' =>
      frame_send w w' /\
      if is_err_pdu enc then w' = w /\ r = 0
      else exists g c, out w' = rev g ++ out w /\ attempt (error_report (version (sk w)) code enc text) c g /\ r = (if c then 0 else -1)
  | Exc _ _ => False
  end.
Proof.
  intros Hs. unfold send_error_pdu. unfold bind at 1. unfold get_sk. fold (is_err_pdu enc).
  destruct (is_err_pdu enc).
  - unfold ret. split; [apply frame_send_refl|now split].
  - apply (send_pdu_spec (error_report (version (sk w)) code enc text) w); [discriminate|exact Hs].
Qed.

Lemma send_error_from_host_eq enc code text :
  send_error_from_host enc code text =
  if zlen enc =? 0 then send_error_pdu [] code text else if zlen enc <? 8 then ret (-1) else send_error_pdu enc code text.
Proof. reflexivity. Qed.
