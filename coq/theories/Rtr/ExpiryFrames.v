(* ExpiryFrames.v - C07/C08: what the model functions leave alone.
   K  : the tables and last_update are untouched by everything below process_eod / purge / stop / the tail of rtr_sync;
   Tm : the book-keeping invariant that needs no knowledge of the tables (clock positive and monotone, last_update
        in the past, "no timestamp => a session is requested", "session known => no reload in progress"), for a
        well-formed environment (bytes are bytes, waits are not negative). *)
From Coq Require Import Permutation.
From RtrV Require Import Base.CSem Gen.Generated Rtr.RtrModel Rtr.RelFrame Rtr.ExpiryTac Rtr.SyncSets.
Local Open Scope Z_scope.

(* ---------- frame K ---------- *)
Definition K (w w' : world) : Prop :=
  pfx w' = pfx w /\ keys w' = keys w /\ last_update (sk w') = last_update (sk w).
Lemma K_refl w : K w w. Proof. unfold K; auto. Qed.
Lemma K_trans a b c : K a b -> K b c -> K a c.
Proof. unfold K. intros (A1 & A2 & A3) (B1 & B2 & B3). repeat split; congruence. Qed.
Notation relK := (rel K).
Ltac kstep := rstep K K_refl K_trans.
Ltac kfin := unfold K; sk_simpl; auto.
Ltac kprim := unfold rel; unfold_prims; kfin.
Ltac kIH IH := match goal with
  | |- relK (tr_recv_all_loop _ _ _ _) _ => apply IH
  | |- relK (tr_send_all_loop _ _ _) _ => apply IH
  | |- relK (sync_first _) _ => apply IH end.

Lemma change_state_K ns w : relK (change_state ns) w.
Proof. unfold change_state. repeat kstep; try kprim. Qed.
Lemma tr_recv_K len t w : relK (tr_recv len t) w.
Proof.
  unfold rel, tr_recv. destruct (tr_recv_evs _ _ _ _ _) as [[[[[c|b]|] es] t'] tr]; try destruct (c =? -99); kfin.
Qed.
Ltac klem1 := match goal with
  | |- relK (change_state _) _ => apply change_state_K
  | |- relK (tr_recv _ _) _ => apply tr_recv_K end.
Lemma tr_recv_all_loop_K fuel : forall len e acc w, relK (tr_recv_all_loop fuel len e acc) w.
Proof.
  induction fuel as [|f IH]; intros; cbn [tr_recv_all_loop]; [apply (rel_ret K K_refl)|].
  repeat kstep; try klem1; try kIH IH.
Qed.
Lemma tr_recv_all_K len t w : relK (tr_recv_all len t) w.
Proof. unfold tr_recv_all. repeat kstep. apply tr_recv_all_loop_K. Qed.
Lemma tr_send_K b w : relK (tr_send b) w.
Proof. unfold rel, tr_send. destruct (sends w); destruct (_ <? 0); kfin. Qed.
Lemma tr_send_all_loop_K fuel : forall b tot w, relK (tr_send_all_loop fuel b tot) w.
Proof.
  induction fuel as [|f IH]; intros; cbn [tr_send_all_loop]; [apply (rel_ret K K_refl)|].
  repeat kstep; try apply tr_send_K; try kIH IH.
Qed.
Lemma send_pdu_K b w : relK (send_pdu b) w.
Proof. unfold send_pdu, tr_send_all. repeat kstep; try apply tr_send_all_loop_K. Qed.
Lemma send_error_pdu_K enc c t w : relK (send_error_pdu enc c t) w.
Proof. unfold send_error_pdu. repeat kstep; try apply send_pdu_K. Qed.
Lemma send_error_from_host_K enc c t w : relK (send_error_from_host enc c t) w.
Proof. unfold send_error_from_host. repeat kstep; try apply send_error_pdu_K. Qed.
Ltac klem2 := match goal with
  | |- relK (tr_recv_all _ _) _ => apply tr_recv_all_K
  | |- relK (send_pdu _) _ => apply send_pdu_K
  | |- relK (send_error_pdu _ _ _) _ => apply send_error_pdu_K
  | |- relK (send_error_from_host _ _ _) _ => apply send_error_from_host_K
  | _ => klem1 end.
Lemma send_serial_query_K w : relK send_serial_query w.
Proof. unfold send_serial_query. repeat kstep; try klem2. Qed.
Lemma send_reset_query_K w : relK send_reset_query w.
Proof. unfold send_reset_query. repeat kstep; try klem2. Qed.
Lemma recv_err_K c w : relK (recv_err c) w.
Proof. unfold recv_err. repeat kstep; try klem2. Qed.
Lemma tr_open_K w : relK tr_open w.
Proof. unfold rel, tr_open. destruct (opens w); kfin. Qed.
Ltac klem3 := match goal with
  | |- relK (send_serial_query) _ => apply send_serial_query_K
  | |- relK (send_reset_query) _ => apply send_reset_query_K
  | |- relK (recv_err _) _ => apply recv_err_K
  | |- relK (tr_open) _ => apply tr_open_K
  | _ => klem2 end.
Lemma receive_pdu_K t w : relK (receive_pdu t) w.
Proof.
  unfold receive_pdu. repeat kstep; try klem3. all: try (kprim; fail).
  all: try (unfold rel; unfold_prims; repeat match goal with |- context [if ?c then _ else _] => destruct c eqn:? end; kfin).
Qed.
Lemma handle_error_pdu_K p w : relK (handle_error_pdu p) w.
Proof. unfold handle_error_pdu. repeat kstep; try klem3; try kprim. Qed.
Lemma report_update_failure_K p c k w : relK (report_update_failure p c k) w.
Proof. unfold report_update_failure. repeat kstep; try klem3. Qed.
Ltac klem := match goal with
  | |- relK (receive_pdu _) _ => apply receive_pdu_K
  | |- relK (handle_error_pdu _) _ => apply handle_error_pdu_K
  | |- relK (report_update_failure _ _ _) _ => apply report_update_failure_K
  | _ => klem3 end.
Lemma sync_first_K fuel : forall w, relK (sync_first fuel) w.
Proof.
  induction fuel as [|f IH]; intros; cbn [sync_first]; [apply (rel_ret K K_refl)|].
  repeat kstep; try klem; try kIH IH; try kprim.
Qed.
Lemma wait_for_sync_K w : relK wait_for_sync w.
Proof. unfold wait_for_sync. repeat kstep; try klem. Qed.

(* ---------- well-formed environment ---------- *)
Definition byte_ok (b : Z) : Prop := 0 <= b < 256.
Definition ev_ok (e : ev) : Prop :=
  match e with EvData b => Forall byte_ok b | EvWait v => 0 <= v | _ => True end.
Definition env_ok (w : world) : Prop := Forall ev_ok (evs w).

Lemma Forall_firstn {A} (P : A -> Prop) n : forall l, Forall P l -> Forall P (firstn n l).
Proof. induction n; intros l H; cbn [firstn]; [constructor|]. destruct H; constructor; auto. Qed.
Lemma Forall_skipn {A} (P : A -> Prop) n : forall l, Forall P l -> Forall P (skipn n l).
Proof. induction n; intros l H; cbn [skipn]; [exact H|]. destruct H; [constructor|auto]. Qed.

Lemma tr_recv_evs_ok es : forall len timeout left t, Forall ev_ok es -> 0 <= left ->
  match tr_recv_evs es len timeout left t with
  | (r, es', t', _) => Forall ev_ok es' /\ t <= t' /\ (forall b, r = Some (inr b) -> Forall byte_ok b)
  end.
Proof.
  induction es as [|e es IH]; intros len timeout left t He Hl; cbn [tr_recv_evs].
  - split; [constructor|]. split; [lia|discriminate].
  - inversion He as [|? ? H1 H2]; subst. destruct e as [b|c|v|]; cbn [ev_ok] in H1.
    + destruct b as [|x b]; [apply IH; assumption|].
      set (n := Z.to_nat (Z.min len (zlen (x :: b)))).
      pose proof (Forall_skipn byte_ok n _ H1) as Hs.
      split; [|split; [lia|intros b0 Hb; inversion Hb; subst; apply Forall_firstn, H1]].
      destruct (skipn n (x :: b)) as [|y l] eqn:Ek; [exact H2|]. constructor; [cbn [ev_ok]; rewrite <- Ek; exact Hs|exact H2].
    + split; [exact H2|]. split; [lia|discriminate].
    + destruct (v <=? left) eqn:E.
      * apply Z.leb_le in E. specialize (IH len timeout (left - v) (t + v) H2 ltac:(lia)).
        destruct (tr_recv_evs es len timeout (left - v) (t + v)) as [[[r es'] t'] tr].
        destruct IH as (A & B & C). split; [exact A|]. split; [lia|exact C].
      * apply Z.leb_gt in E. split; [constructor; [cbn; lia|exact H2]|]. split; [lia|discriminate].
    + split; [exact H2|]. split; [lia|discriminate].
Qed.

(* ---------- the table-independent book-keeping invariant ---------- *)
Definition Tm (w : world) : Prop :=
  env_ok w /\ 0 <= retry_iv (sk w) /\ 0 < now w /\ 0 <= last_update (sk w) <= now w /\
  (last_update (sk w) = 0 -> req_sess (sk w) = true) /\ (req_sess (sk w) = false -> resetting (sk w) = false).

Definition TmR (w w' : world) : Prop := Tm w -> Tm w' /\ now w <= now w'.
Lemma TmR_refl w : TmR w w. Proof. unfold TmR. intros; split; [assumption|lia]. Qed.
Lemma TmR_trans a b c : TmR a b -> TmR b c -> TmR a c.
Proof. unfold TmR. intros H1 H2 Ha. destruct (H1 Ha) as [Hb L1]. destruct (H2 Hb) as [Hc L2]. split; [exact Hc|lia]. Qed.
Notation relT := (rel TmR).

(* the bind rule keeps the invariant of the pre-state available for facts about the result *)
Lemma tm_bind {A B} (m : world -> res A) (f : A -> world -> res B) w :
  relT m w -> (Tm w -> forall a w', m w = Ok a w' -> relT (f a) w') -> relT (bind m f) w.
Proof.
  unfold rel, bind, TmR. intros Hm Hf. destruct (m w) as [a w'|e w'] eqn:E; [|exact Hm].
  destruct (f a w') as [b w2|e w2] eqn:E2; intros Ht; destruct (Hm Ht) as [Ht1 L1];
    specialize (Hf Ht a w' eq_refl); rewrite E2 in Hf; destruct (Hf Ht1) as [Ht2 L2]; (split; [exact Ht2|lia]).
Qed.

Ltac tstep :=
  match goal with
  | |- relT (ret _) _ => apply (rel_ret TmR TmR_refl)
  | |- relT (bind get_sk _) ?w => apply tm_bind; [unfold rel; unfold_prims; apply TmR_refl | let H := fresh "Heq" in intros ? ? ? H; unfold_prims_in H; injection H as <- <-]
  | |- relT (bind get_now _) ?w => apply tm_bind; [unfold rel; unfold_prims; apply TmR_refl | let H := fresh "Heq" in intros ? ? ? H; unfold_prims_in H; injection H as <- <-]
  | |- relT (bind get_w _) ?w => apply tm_bind; [unfold rel; unfold_prims; apply TmR_refl | let H := fresh "Heq" in intros ? ? ? H; unfold_prims_in H; injection H as <- <-]
  | |- relT (bind _ _) ?w => apply tm_bind; [ | intros ?HTm ? ? ?Heq]
  | |- relT (if ?c then _ else _) _ => destruct c eqn:?
  | |- relT (match ?x with _ => _ end) _ => destruct x eqn:?
  | |- relT ((fun _ => _) _) _ => cbv beta
  | |- relT (let _ := _ in _) _ => cbv zeta
  end.

Ltac tfin :=
  unfold TmR, Tm, env_ok; sk_simpl;
  let He := fresh "He" in let Hr := fresh "Hr" in let Hn := fresh "Hn" in let Hl := fresh "Hl" in
  let Hq := fresh "Hq" in let Hs := fresh "Hs" in
  intros (He & Hr & Hn & Hl & Hq & Hs); repeat split; auto; try lia; try congruence.
Ltac tprim := unfold rel; unfold_prims; tfin.

Lemma change_state_T ns w : relT (change_state ns) w.
Proof. unfold change_state. repeat tstep; try tprim. Qed.

Lemma tr_recv_T len t w : relT (tr_recv len t) w.
Proof.
  unfold rel, tr_recv.
  assert (H : env_ok w -> match tr_recv_evs (evs w) len t (Z.max 0 t) (now w) with
              | (r, es', t', _) => Forall ev_ok es' /\ now w <= t' /\ (forall b, r = Some (inr b) -> Forall byte_ok b) end)
    by (intros He; apply tr_recv_evs_ok; [exact He|lia]).
  destruct (tr_recv_evs _ _ _ _ _) as [[[[[c|b]|] es] t'] tr]; try destruct (c =? -99);
    unfold TmR, Tm, env_ok in *; sk_simpl; intros (He & Hr & Hn & Hl & Hq & Hs); destruct (H He) as (A & B & _);
    repeat split; auto; lia.
Qed.

(* bytes handed out by the transport are bytes *)
Lemma tr_recv_bytes len t w b w' : env_ok w -> tr_recv len t w = Ok (inr b) w' -> Forall byte_ok b.
Proof.
  intros He. unfold tr_recv.
  pose proof (tr_recv_evs_ok (evs w) len t (Z.max 0 t) (now w) He ltac:(lia)) as H.
  destruct (tr_recv_evs _ _ _ _ _) as [[[[[c|b0]|] es] t'] tr]; try destruct (c =? -99); intros E; inversion E; subst.
  apply H. reflexivity.
Qed.

Ltac tlem1 := match goal with
  | |- relT (change_state _) _ => apply change_state_T
  | |- relT (tr_recv _ _) _ => apply tr_recv_T end.
Ltac tIH IH := match goal with
  | |- relT (tr_recv_all_loop _ _ _ _) _ => apply IH
  | |- relT (tr_send_all_loop _ _ _) _ => apply IH
  | |- relT (store_loop _ _ _ _) _ => apply IH
  | |- relT (sync_first _) _ => apply IH end.

Lemma tr_recv_all_loop_T fuel : forall len e acc w, relT (tr_recv_all_loop fuel len e acc) w.
Proof.
  induction fuel as [|f IH]; intros; cbn [tr_recv_all_loop]; [apply (rel_ret TmR TmR_refl)|].
  repeat tstep; try tlem1; try tIH IH.
Qed.
Lemma tr_recv_all_T len t w : relT (tr_recv_all len t) w.
Proof. unfold tr_recv_all. repeat tstep. apply tr_recv_all_loop_T. Qed.

Lemma relT_pre {A} (m : world -> res A) w : Tm w -> relT m w -> Tm (final (m w)).
Proof. unfold rel, final, TmR. intros Ht H. destruct (m w); apply H, Ht. Qed.

Lemma tr_recv_all_loop_bytes fuel : forall len e acc w r w', Tm w -> Forall byte_ok acc ->
  tr_recv_all_loop fuel len e acc w = Ok (inr r) w' -> Forall byte_ok r.
Proof.
  induction fuel as [|f IH]; intros len e acc w r w' Ht Ha; cbn [tr_recv_all_loop].
  - unfold ret. intros E; inversion E; subst; exact Ha.
  - destruct (_ >=? _); cbv iota; [unfold ret; intros E; inversion E; subst; exact Ha|].
    unfold bind at 1, get_now. unfold bind.
    match goal with |- match tr_recv ?l ?t ?w0 with _ => _ end = _ -> _ =>
      pose proof (tr_recv_T l t w0) as HT; unfold rel in HT; destruct (tr_recv l t w0) as [[c|b0] w1|ex w1] eqn:E1 end;
      [intros E0; unfold ret in E0; inversion E0| |intros E0; inversion E0].
    intros Eloop. eapply IH; [apply HT, Ht| |exact Eloop]. apply Forall_app. split; [exact Ha|]. eapply tr_recv_bytes; [apply Ht|exact E1].
Qed.
Lemma tr_recv_all_bytes len t w r w' : Tm w -> tr_recv_all len t w = Ok (inr r) w' -> Forall byte_ok r.
Proof. intros Ht. unfold tr_recv_all, bind, get_now. apply tr_recv_all_loop_bytes; [exact Ht|constructor]. Qed.

Lemma tr_send_T b w : relT (tr_send b) w.
Proof. unfold rel, tr_send. destruct (sends w); destruct (_ <? 0); tfin. Qed.
Lemma tr_send_all_loop_T fuel : forall b tot w, relT (tr_send_all_loop fuel b tot) w.
Proof.
  induction fuel as [|f IH]; intros; cbn [tr_send_all_loop]; [apply (rel_ret TmR TmR_refl)|].
  repeat tstep; try apply tr_send_T; try tIH IH.
Qed.
Lemma send_pdu_T b w : relT (send_pdu b) w.
Proof. unfold send_pdu, tr_send_all. repeat tstep; try apply tr_send_all_loop_T. Qed.
Lemma send_error_pdu_T enc c t w : relT (send_error_pdu enc c t) w.
Proof. unfold send_error_pdu. repeat tstep; try apply send_pdu_T. Qed.
Lemma send_error_from_host_T enc c t w : relT (send_error_from_host enc c t) w.
Proof. unfold send_error_from_host. repeat tstep; try apply send_error_pdu_T. Qed.
Ltac tlem2 := match goal with
  | |- relT (tr_recv_all _ _) _ => apply tr_recv_all_T
  | |- relT (send_pdu _) _ => apply send_pdu_T
  | |- relT (send_error_pdu _ _ _) _ => apply send_error_pdu_T
  | |- relT (send_error_from_host _ _ _) _ => apply send_error_from_host_T
  | _ => tlem1 end.
Lemma send_serial_query_T w : relT send_serial_query w.
Proof. unfold send_serial_query. repeat tstep; try tlem2. Qed.
Lemma send_reset_query_T w : relT send_reset_query w.
Proof. unfold send_reset_query. repeat tstep; try tlem2. Qed.
Lemma recv_err_T c w : relT (recv_err c) w.
Proof. unfold recv_err. repeat tstep; try tlem2. Qed.
Lemma tr_open_T w : relT tr_open w.
Proof. unfold rel, tr_open. destruct (opens w); tfin. Qed.
Ltac tlem3 := match goal with
  | |- relT (send_serial_query) _ => apply send_serial_query_T
  | |- relT (send_reset_query) _ => apply send_reset_query_T
  | |- relT (recv_err _) _ => apply recv_err_T
  | |- relT (tr_open) _ => apply tr_open_T
  | _ => tlem2 end.
Lemma receive_pdu_T t w : relT (receive_pdu t) w.
Proof.
  unfold receive_pdu. repeat tstep; try tlem3. all: try (tprim; fail).
  all: try (unfold rel; unfold_prims; repeat match goal with |- context [if ?c then _ else _] => destruct c eqn:? end; tfin).
Qed.

(* ---------- received PDUs consist of bytes ---------- *)
Lemma hoare_true {A} (m : world -> res A) w : hoare m w (fun _ _ => True) (fun _ => True).
Proof. unfold hoare. destruct (m w) as [a w'|[why|] w']; exact I. Qed.

Lemma hoare_T {A} (m : world -> res A) w : Tm w -> relT m w -> hoare m w (fun _ w' => Tm w') (fun _ => True).
Proof. unfold hoare, rel, TmR. intros Ht H. destruct (m w) as [a w'|[why|] w']; try exact I. apply H, Ht. Qed.

Lemma hoare_get_sk' {B} w (f : sock -> world -> res B) (Q : B -> world -> Prop) (QX : world -> Prop) :
  hoare (f (sk w)) w Q QX -> hoare (bind get_sk f) w Q QX.
Proof. intros H. exact H. Qed.

Definition bytes_post (a : Z + list byte) (_ : world) : Prop := forall p, a = inr p -> Forall byte_ok p.

Ltac hinl := repeat first [ apply hoare_ret; intros ? ?Hp; discriminate
                          | eapply hoare_bind; [apply hoare_true|]; cbv beta; intros ].

Lemma tr_recv_all_hoare len t w : Tm w ->
  hoare (tr_recv_all len t) w (fun a w1 => Tm w1 /\ bytes_post a w1) (fun _ => True).
Proof.
  intros Ht. unfold hoare, bytes_post.
  pose proof (tr_recv_all_T len t w) as HT. unfold rel, TmR in HT.
  pose proof (tr_recv_all_bytes len t w) as HB.
  destruct (tr_recv_all len t w) as [a w'|[why|] w']; try exact I.
  split; [apply HT, Ht|]. intros p ->. eapply HB; [exact Ht|reflexivity].
Qed.

Lemma recv_err_inl c w (Q : list byte -> Prop) : hoare (recv_err c) w (fun a w' => forall p : list byte, a = inr p -> Q p) (fun _ => True).
Proof. unfold recv_err. repeat match goal with |- context [if ?c then _ else _] => destruct c end; hinl. Qed.

Lemma receive_pdu_hoare t w : Tm w -> hoare (receive_pdu t) w bytes_post (fun _ => True).
Proof.
  intros Ht. unfold receive_pdu, bytes_post. apply hoare_get_sk'.
  destruct (st (sk w) =? c_RTR_SHUTDOWN); [hinl|].
  eapply hoare_bind; [apply tr_recv_all_hoare, Ht|].
  cbv beta. intros a w1 _ [HT1 Hb]. destruct a as [c|h]; [apply recv_err_inl|].
  cbv zeta. destruct (get32 h 4 <? 8); [hinl|]. destruct (get32 h 4 >? c_RTR_MAX_PDU_LEN); [hinl|].
  eapply hoare_bind.
  { apply hoare_T; [exact HT1|]. repeat tstep. all: try (tprim; fail).
    all: try (unfold rel; unfold_prims; repeat match goal with |- context [if ?c then _ else _] => destruct c eqn:? end; tfin). }
  cbv beta. intros [] w2 _ HT2. apply hoare_get_sk'.
  destruct (negb (nthb h 0 =? version (sk w2)) && negb (nthb h 1 =? c_ERROR)); [hinl|].
  eapply hoare_bind with (Q1 := fun a w3 => bytes_post a w3).
  { destruct (get32 h 4 - 8 >? 0).
    - apply hoare_get_sk'. destruct (st (sk w2) =? c_RTR_SHUTDOWN); [hinl|].
      eapply hoare_conseq; [apply tr_recv_all_hoare, HT2| |]; cbv beta; [intros ? ? [_ H]; exact H|auto].
    - apply hoare_ret. intros p E. inversion E. constructor. }
  cbv beta. intros rest w3 _ Hbody. destruct rest as [c|body]; [apply recv_err_inl|].
  destruct (check_size (h ++ body)); [|hinl].
  apply hoare_ret. intros p E. inversion E. apply Forall_app. split; [apply Hb; reflexivity|apply Hbody; reflexivity].
Qed.

Lemma receive_pdu_bytes t w p w' : Tm w -> receive_pdu t w = Ok (inr p) w' -> Forall byte_ok p.
Proof.
  intros Ht E. pose proof (receive_pdu_hoare t w Ht) as H. unfold hoare in H. rewrite E in H. apply H. reflexivity.
Qed.

(* ---------- End-of-Data intervals stay non-negative ---------- *)
Lemma nthb_ok p i : Forall byte_ok p -> byte_ok (nthb p i).
Proof.
  unfold nthb. revert i. induction p as [|x p IH]; intros i H; destruct i; cbn [nth]; try (unfold byte_ok; lia).
  - inversion H; assumption.
  - apply IH. inversion H; assumption.
Qed.
Lemma get32_nonneg p off : Forall byte_ok p -> 0 <= get32 p off.
Proof.
  intros H. unfold get32, be32.
  pose proof (nthb_ok p off H). pose proof (nthb_ok p (1 + off) H). pose proof (nthb_ok p (2 + off) H).
  pose proof (nthb_ok p (3 + off) H). unfold byte_ok in *. lia.
Qed.
Lemma iv_apply_nonneg mode v old mn mx : 0 <= v -> 0 <= old -> 0 <= mn -> 0 <= mx -> 0 <= iv_apply mode v old mn mx.
Proof. intros. unfold iv_apply. repeat match goal with |- context [if ?c then _ else _] => destruct c end; assumption. Qed.

Lemma apply_eod_intervals_sk s p : Forall byte_ok p -> 0 <= retry_iv s ->
  let s' := apply_eod_intervals s p in
  0 <= retry_iv s' /\ last_update s' = last_update s /\ req_sess s' = req_sess s /\ resetting s' = resetting s /\
  st s' = st s /\ session_id s' = session_id s /\ serial s' = serial s /\ version s' = version s.
Proof.
  intros Hp Hr. unfold apply_eod_intervals. destruct (_ && _); cbn [retry_iv last_update req_sess resetting st session_id serial version upd_ivs]; auto 10.
  split; [|auto 10]. apply iv_apply_nonneg; [apply get32_nonneg, Hp|exact Hr| |]; vm_compute; discriminate.
Qed.

Lemma handle_error_pdu_T p w : relT (handle_error_pdu p) w.
Proof. unfold handle_error_pdu. repeat tstep; try tlem3; try tprim. Qed.
Lemma report_update_failure_T p c k w : relT (report_update_failure p c k) w.
Proof. unfold report_update_failure. repeat tstep; try tlem3. Qed.
Lemma src_remove_all_T w : relT src_remove_all w.
Proof. unfold src_remove_all. repeat tstep; try tprim. Qed.
Lemma purge_after_failed_undo_T w : relT purge_after_failed_undo w.
Proof. unfold purge_after_failed_undo. repeat tstep; try apply src_remove_all_T; try tprim. Qed.
Ltac tlem4 := match goal with
  | |- relT (receive_pdu _) _ => apply receive_pdu_T
  | |- relT (handle_error_pdu _) _ => apply handle_error_pdu_T
  | |- relT (report_update_failure _ _ _) _ => apply report_update_failure_T
  | |- relT (src_remove_all) _ => apply src_remove_all_T
  | |- relT (purge_after_failed_undo) _ => apply purge_after_failed_undo_T
  | _ => tlem3 end.

Lemma set_eod_T s p w : s = sk w -> Forall byte_ok p -> relT (set_sk (apply_eod_intervals s p)) w.
Proof.
  intros -> Hp. unfold rel, set_sk, TmR, Tm, env_ok. sk_simpl. intros (He & Hr & Hn & Hl & Hq & Hs).
  destruct (apply_eod_intervals_sk (sk w) p Hp Hr) as (A & B & C & D & _). rewrite B, C, D. repeat split; auto; lia.
Qed.

Lemma process_eod_T p v4 v6 ks w : Forall byte_ok p -> relT (process_eod p v4 v6 ks) w.
Proof.
  intros Hp. unfold process_eod.
  repeat tstep; try tlem4; try (tprim; fail).
  all: try (apply set_eod_T; [reflexivity|exact Hp]).
Qed.

Lemma store_loop_T fuel : forall v4 v6 ks w, relT (store_loop fuel v4 v6 ks) w.
Proof.
  induction fuel as [|f IH]; intros; cbn [store_loop]; [apply (rel_ret TmR TmR_refl)|].
  repeat tstep; try tlem4; try tIH IH; try tlem4.
  all: try (apply process_eod_T; eapply receive_pdu_bytes; eassumption).
Qed.
Lemma receive_and_store_T fuel w : relT (receive_and_store fuel) w.
Proof.
  unfold receive_and_store. repeat tstep; try apply store_loop_T.
  unfold rel; unfold_prims. destruct (resetting (sk _)) eqn:?; tfin.
Qed.
Lemma sync_first_T fuel : forall w, relT (sync_first fuel) w.
Proof.
  induction fuel as [|f IH]; intros; cbn [sync_first]; [apply (rel_ret TmR TmR_refl)|].
  repeat tstep; try tlem4; try tIH IH; try tprim.
Qed.
Lemma wait_for_sync_T w : relT wait_for_sync w.
Proof. unfold wait_for_sync. repeat tstep; try tlem4. Qed.
Lemma purge_outdated_T w : relT purge_outdated w.
Proof. unfold purge_outdated. repeat tstep; try tlem4; try tprim. Qed.

(* ---------- frame E: below fsm_step the control state is only ever moved to an error / reconnect state ---------- *)
Definition err_b (s : Z) : bool :=
  (s =? c_RTR_FAST_RECONNECT) || (s =? c_RTR_ERROR_NO_DATA_AVAIL) || (s =? c_RTR_ERROR_NO_INCR_UPDATE_AVAIL) ||
  (s =? c_RTR_ERROR_FATAL) || (s =? c_RTR_ERROR_TRANSPORT).
Definition E (w w' : world) : Prop := st (sk w') = st (sk w) \/ err_b (st (sk w')) = true.
Lemma E_refl w : E w w. Proof. unfold E; auto. Qed.
Lemma E_trans a b c : E a b -> E b c -> E a c.
Proof. unfold E. intros [H1|H1] [H2|H2]; auto; [left; congruence|right; congruence]. Qed.
Notation relE := (rel E).
Ltac estep := rstep E E_refl E_trans.
Ltac efin := unfold E; sk_simpl; auto.
Ltac eprim := unfold rel; unfold_prims; efin.
Ltac eIH IH := match goal with
  | |- relE (tr_recv_all_loop _ _ _ _) _ => apply IH
  | |- relE (tr_send_all_loop _ _ _) _ => apply IH
  | |- relE (store_loop _ _ _ _) _ => apply IH
  | |- relE (sync_first _) _ => apply IH end.

Lemma change_state_E ns w : err_b ns = true -> relE (change_state ns) w.
Proof. intros Hn. unfold change_state. repeat estep; try eprim. Qed.
Lemma tr_recv_E len t w : relE (tr_recv len t) w.
Proof.
  unfold rel, tr_recv. destruct (tr_recv_evs _ _ _ _ _) as [[[[[c|b]|] es] t'] tr]; try destruct (c =? -99); efin.
Qed.
Ltac elem1 := match goal with
  | |- relE (change_state _) _ => apply change_state_E; reflexivity
  | |- relE (tr_recv _ _) _ => apply tr_recv_E end.
Lemma tr_recv_all_loop_E fuel : forall len e acc w, relE (tr_recv_all_loop fuel len e acc) w.
Proof.
  induction fuel as [|f IH]; intros; cbn [tr_recv_all_loop]; [apply (rel_ret E E_refl)|].
  repeat estep; try elem1; try eIH IH.
Qed.
Lemma tr_recv_all_E len t w : relE (tr_recv_all len t) w.
Proof. unfold tr_recv_all. repeat estep. apply tr_recv_all_loop_E. Qed.
Lemma tr_send_E b w : relE (tr_send b) w.
Proof. unfold rel, tr_send. destruct (sends w); destruct (_ <? 0); efin. Qed.
Lemma tr_send_all_loop_E fuel : forall b tot w, relE (tr_send_all_loop fuel b tot) w.
Proof.
  induction fuel as [|f IH]; intros; cbn [tr_send_all_loop]; [apply (rel_ret E E_refl)|].
  repeat estep; try apply tr_send_E; try eIH IH.
Qed.
Lemma send_pdu_E b w : relE (send_pdu b) w.
Proof. unfold send_pdu, tr_send_all. repeat estep; try apply tr_send_all_loop_E. Qed.
Lemma send_error_pdu_E enc c t w : relE (send_error_pdu enc c t) w.
Proof. unfold send_error_pdu. repeat estep; try apply send_pdu_E. Qed.
Lemma send_error_from_host_E enc c t w : relE (send_error_from_host enc c t) w.
Proof. unfold send_error_from_host. repeat estep; try apply send_error_pdu_E. Qed.
Ltac elem2 := match goal with
  | |- relE (tr_recv_all _ _) _ => apply tr_recv_all_E
  | |- relE (send_pdu _) _ => apply send_pdu_E
  | |- relE (send_error_pdu _ _ _) _ => apply send_error_pdu_E
  | |- relE (send_error_from_host _ _ _) _ => apply send_error_from_host_E
  | _ => elem1 end.
Lemma send_serial_query_E w : relE send_serial_query w.
Proof. unfold send_serial_query. repeat estep; try elem2. Qed.
Lemma send_reset_query_E w : relE send_reset_query w.
Proof. unfold send_reset_query. repeat estep; try elem2. Qed.
Lemma recv_err_E c w : relE (recv_err c) w.
Proof. unfold recv_err. repeat estep; try elem2. Qed.
Ltac elem3 := match goal with
  | |- relE (send_serial_query) _ => apply send_serial_query_E
  | |- relE (send_reset_query) _ => apply send_reset_query_E
  | |- relE (recv_err _) _ => apply recv_err_E
  | _ => elem2 end.
Lemma receive_pdu_E t w : relE (receive_pdu t) w.
Proof.
  unfold receive_pdu. repeat estep; try elem3. all: try (eprim; fail).
  all: try (unfold rel; unfold_prims; repeat match goal with |- context [if ?c then _ else _] => destruct c eqn:? end; efin).
Qed.
Lemma handle_error_pdu_E p w : relE (handle_error_pdu p) w.
Proof. unfold handle_error_pdu. repeat estep; try elem3; try eprim. Qed.
Lemma report_update_failure_E p c k w : relE (report_update_failure p c k) w.
Proof. unfold report_update_failure. repeat estep; try elem3. Qed.
Lemma src_remove_all_E w : relE src_remove_all w.
Proof. unfold src_remove_all. repeat estep; try eprim. Qed.
Lemma purge_after_failed_undo_E w : relE purge_after_failed_undo w.
Proof. unfold purge_after_failed_undo. repeat estep; try apply src_remove_all_E; try eprim. Qed.
Ltac elem4 := match goal with
  | |- relE (receive_pdu _) _ => apply receive_pdu_E
  | |- relE (handle_error_pdu _) _ => apply handle_error_pdu_E
  | |- relE (report_update_failure _ _ _) _ => apply report_update_failure_E
  | |- relE (src_remove_all) _ => apply src_remove_all_E
  | |- relE (purge_after_failed_undo) _ => apply purge_after_failed_undo_E
  | _ => elem3 end.
Lemma apply_eod_intervals_st' s p : st (apply_eod_intervals s p) = st s.
Proof. unfold apply_eod_intervals. destruct (_ && _); reflexivity. Qed.
Lemma process_eod_E p v4 v6 ks w : relE (process_eod p v4 v6 ks) w.
Proof.
  unfold process_eod. repeat estep; try elem4; try (eprim; fail).
  all: try (unfold rel; unfold_prims; efin; rewrite ?apply_eod_intervals_st'; auto).
Qed.
Lemma store_loop_E fuel : forall v4 v6 ks w, relE (store_loop fuel v4 v6 ks) w.
Proof.
  induction fuel as [|f IH]; intros; cbn [store_loop]; [apply (rel_ret E E_refl)|].
  repeat estep; try elem4; try eIH IH; try elem4; try apply process_eod_E.
Qed.
Lemma receive_and_store_E fuel w : relE (receive_and_store fuel) w.
Proof.
  unfold receive_and_store. repeat estep; try apply store_loop_E.
  unfold rel; unfold_prims. destruct (resetting (sk _)); efin.
Qed.
Lemma sync_first_E fuel : forall w, relE (sync_first fuel) w.
Proof.
  induction fuel as [|f IH]; intros; cbn [sync_first]; [apply (rel_ret E E_refl)|].
  repeat estep; try elem4; try eIH IH; try eprim.
Qed.
Lemma rtr_sync_E fuel w : relE (rtr_sync fuel) w.
Proof.
  unfold rtr_sync. repeat estep; try elem4; try apply sync_first_E; try apply receive_and_store_E; try (eprim; fail).
  all: try (unfold rel; unfold_prims; destruct (negb _); efin).
Qed.
Lemma wait_for_sync_E w : relE wait_for_sync w.
Proof. unfold wait_for_sync. repeat estep; try elem4. Qed.
