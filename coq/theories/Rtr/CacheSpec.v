(* CacheSpec.v - C08: the truthful cache of RFC 8210 as a function from a query to a list of response PDUs,
   over a history of data sets.

   The cache's data are kept in wire form: a data set is a list of announcement PDUs (IPv4 Prefix, IPv6 Prefix,
   Router Key, flags = 1) in the cache's protocol version; the records they denote are what the CLIENT's own
   decoders (prec_of_pdu / krec_of_pdu of Rtr/RtrModel.v) make of them, so no encoder has to be trusted.
   A withdrawal is the same PDU with the flags byte cleared.

   Reset Query                                   -> Cache Response, the whole current set, End of Data
   Serial Query, same session, remembered serial -> Cache Response, withdrawals of (old \ new),
                                                    announcements of (new \ old), End of Data
   Serial Query otherwise                        -> Cache Reset

   Also here: the set arithmetic that makes the client's regrouping of a response (all IPv4, then all IPv6,
   then all router keys) harmless - folding updates whose records are pairwise distinct is order-independent. *)
From Coq Require Import Permutation.
From RtrV Require Import Base.CSem Gen.Generated Rtr.RtrModel Rtr.SyncSets.
Local Open Scope Z_scope.

(* ---------- updates with pairwise distinct records ---------- *)
Section Distinct.
Variable A : Type.
Variable eqb : A -> A -> bool.
Hypothesis eqb_eq : forall a b, eqb a b = true <-> a = b.
Variable of_pdu : list byte -> A.

Notation delta := (delta A eqb of_pdu).
Notation applies := (applies A eqb of_pdu).

Definition wd (ps : list (list byte)) : list A := map of_pdu (filter (fun p => pdu_flags p =? 0) ps).
Definition an (ps : list (list byte)) : list A := map of_pdu (filter (fun p => pdu_flags p =? 1) ps).
Definition flags01 (ps : list (list byte)) : Prop := Forall (fun p => pdu_flags p = 0 \/ pdu_flags p = 1) ps.

Lemma In_wd_an p ps : In p ps -> pdu_flags p = 0 \/ pdu_flags p = 1 -> In (of_pdu p) (wd ps) \/ In (of_pdu p) (an ps).
Proof.
  intros Hi [H|H]; [left|right]; unfold wd, an; apply in_map, filter_In; (split; [exact Hi|rewrite H; reflexivity]).
Qed.

Lemma wd_sub ps x : In x (wd ps) -> In x (map of_pdu ps).
Proof. unfold wd. rewrite !in_map_iff. intros (p & E & Hp). apply filter_In in Hp. exists p. tauto. Qed.
Lemma an_sub ps x : In x (an ps) -> In x (map of_pdu ps).
Proof. unfold an. rewrite !in_map_iff. intros (p & E & Hp). apply filter_In in Hp. exists p. tauto. Qed.

Lemma In_fold_distinct ps : forall X x, flags01 ps -> NoDup (map of_pdu ps) ->
  (In x (fold_left delta ps X) <-> (In x X /\ ~ In x (wd ps)) \/ In x (an ps)).
Proof.
  induction ps as [|p ps IH]; intros X x Hf Hn; cbn [fold_left].
  - unfold wd, an. cbn. tauto.
  - inversion Hf as [|? ? Hp Hf']; subst. cbn [map] in Hn. inversion Hn as [|? ? Hnotin Hn']; subst.
    rewrite (IH _ _ Hf' Hn'). unfold SyncSets.delta, wd, an. cbn [filter].
    destruct Hp as [Hp|Hp]; rewrite Hp; cbn [Z.eqb Pos.eqb map].
    + (* withdrawal *)
      fold (grem A eqb (of_pdu p) X). rewrite (In_grem A eqb eqb_eq). cbn [In].
      split.
      * intros [[[H1 H2] H3]|H]; [left|right; exact H]. split; [exact H1|]. intros [E|E]; [congruence|exact (H3 E)].
      * intros [[H1 H2]|H]; [left|right; exact H]. split; [split; [exact H1|]|]; intros E; apply H2; [left; congruence|right; exact E].
    + (* announcement *)
      rewrite in_app_iff. cbn [In].
      split.
      * intros [[[H1|[H1|[]]] H2]|H]; [left; tauto|right; left; exact H1|right; right; exact H].
      * intros [[H1 H2]|[H|H]]; [left; tauto| |right; exact H].
        left. split; [right; left; exact H|]. intros E. apply Hnotin. rewrite H. apply (wd_sub _ _ E).
Qed.

Lemma applies_distinct ps : forall X, flags01 ps -> NoDup (map of_pdu ps) ->
  (forall r, In r (wd ps) -> In r X) -> (forall r, In r (an ps) -> ~ In r X) -> applies ps X.
Proof.
  induction ps as [|p ps IH]; intros X Hf Hn Hw Ha; cbn [SyncSets.applies]; [exact I|].
  inversion Hf as [|? ? Hp Hf']; subst. cbn [map] in Hn. inversion Hn as [|? ? Hnotin Hn']; subst.
  unfold wd, an in Hw, Ha. cbn [filter] in Hw, Ha.
  split.
  - unfold step_ok. destruct Hp as [Hp|Hp]; rewrite Hp in *; cbn [Z.eqb Pos.eqb map In] in *; [right|left]; split; auto.
  - apply IH; auto.
    + intros r Hr. assert (Hne : r <> of_pdu p) by (intros ->; apply Hnotin, wd_sub, Hr).
      unfold SyncSets.delta. destruct Hp as [Hp|Hp]; rewrite Hp in *; cbn [Z.eqb Pos.eqb map In] in *.
      * apply (In_grem A eqb eqb_eq). split; [apply Hw; right; exact Hr|exact Hne].
      * apply in_or_app. left. apply Hw. exact Hr.
    + intros r Hr Hin. assert (Hne : r <> of_pdu p) by (intros ->; apply Hnotin, an_sub, Hr).
      unfold SyncSets.delta in Hin. destruct Hp as [Hp|Hp]; rewrite Hp in *; cbn [Z.eqb Pos.eqb map In] in *.
      * apply (In_grem A eqb eqb_eq) in Hin. apply (Ha r); [exact Hr|apply Hin].
      * apply in_app_or in Hin. destruct Hin as [Hin|[E|[]]]; [apply (Ha r); [right; exact Hr|exact Hin]|congruence].
Qed.

(* applying what [applies] never fails *)
Lemma gapply_ok item live ps : forall X done, applies ps X ->
  exists t, gapply A eqb item of_pdu live ps X done = (fold_left delta ps X, t, None).
Proof.
  intros X done Ha. pose proof (gapply_spec A eqb eqb_eq item of_pdu live ps X done) as H.
  destruct (gapply A eqb item of_pdu live ps X done) as [[X' t] [[[bad c] d]|]].
  - exfalso. destruct H as (pre & post & -> & _ & -> & Hpre & Hfail).
    apply (applies_app A eqb of_pdu) in Ha. destruct Ha as [_ Ha]. cbn [SyncSets.applies] in Ha. destruct Ha as [Hs _].
    unfold step_ok in Hs. unfold fail_code in Hfail.
    destruct Hs as [[F1 F2]|[F1 F2]], Hfail as [(C & G1 & G2)|[(C & G1 & G2)|(C & G1 & G2)]]; congruence.
  - destruct H as [-> _]. exists t. reflexivity.
Qed.
End Distinct.

(* ---------- PDUs of the cache, in wire form ---------- *)
Definition is_v4 (p : list byte) : bool := nthb p 1 =? c_IPV4_PREFIX.
Definition is_v6 (p : list byte) : bool := nthb p 1 =? c_IPV6_PREFIX.
Definition is_key (p : list byte) : bool := nthb p 1 =? c_ROUTER_KEY.

(* a PDU the client accepts at the transport level when it speaks version v *)
Definition pdu_ok (v : Z) (p : list byte) : Prop :=
  nthb p 0 = v /\ 8 <= get32 p 4 <= c_RTR_MAX_PDU_LEN /\ zlen p = get32 p 4 /\ check_size p = true /\ nthb p 1 <> c_ERROR.

(* a payload PDU (an announcement or a withdrawal) *)
Definition payload_ok (v : Z) (p : list byte) : Prop :=
  pdu_ok v p /\ (is_v4 p = true \/ is_v6 p = true \/ is_key p = true) /\
  (is_key p = false -> prefix_lengths_valid p = true) /\ (pdu_flags p = 0 \/ pdu_flags p = 1).

(* flags byte: offset 2 for Router Key PDUs, 8 for prefix PDUs *)
Fixpoint set_nth (n : nat) (v : byte) (l : list byte) : list byte :=
  match n, l with
  | _, [] => []
  | O, _ :: r => v :: r
  | S n', x :: r => x :: set_nth n' v r
  end.
Definition withdraw (p : list byte) : list byte := set_nth (if is_key p then 2 else 8) 0 p.

Record cache := mkCache {
  c_ver : Z;                                   (* protocol version of the conversation *)
  c_session : Z;
  c_serial : Z;
  c_data : list (list byte);                   (* current data set: announcement PDUs *)
  c_hist : list (Z * list (list byte));        (* serial -> data set, for the serials it still remembers *)
  c_eod_tail : list byte                       (* refresh / retry / expire of the End of Data PDU (version 1), else [] *)
}.

Definition cache_response_pdu (c : cache) : list byte :=
  [c_ver c; c_CACHE_RESPONSE] ++ enc16 (c_session c) ++ enc32 8.
Definition cache_reset_pdu (c : cache) : list byte := [c_ver c; c_CACHE_RESET] ++ enc16 0 ++ enc32 8.
Definition eod_pdu (c : cache) : list byte :=
  [c_ver c; c_EOD] ++ enc16 (c_session c) ++ enc32 (12 + zlen (c_eod_tail c)) ++ enc32 (c_serial c) ++ c_eod_tail c.

Inductive query := QReset | QSerial (session serial : Z).

(* the records a list of PDUs denotes, per table *)
Definition precs (ps : list (list byte)) : list prec := map prec_of_pdu (filter (fun p => negb (is_key p)) ps).
Definition krecs (ps : list (list byte)) : list krec := map krec_of_pdu (filter is_key ps).

Definition denotes_same (p q : list byte) : bool :=
  if is_key p then is_key q && krec_eqb (krec_of_pdu p) (krec_of_pdu q)
  else negb (is_key q) && prec_eqb (prec_of_pdu p) (prec_of_pdu q).
Definition in_set (p : list byte) (S : list (list byte)) : bool := existsb (denotes_same p) S.

Fixpoint lookup (k : Z) (h : list (Z * list (list byte))) : option (list (list byte)) :=
  match h with
  | [] => None
  | (k', v) :: r => if k =? k' then Some v else lookup k r
  end.

Definition delta_pdus (old new : list (list byte)) : list (list byte) :=
  map withdraw (filter (fun p => negb (in_set p new)) old) ++ filter (fun p => negb (in_set p old)) new.

(* the truthful answer *)
Definition answer (c : cache) (q : query) : list (list byte) :=
  match q with
  | QReset => [cache_response_pdu c] ++ c_data c ++ [eod_pdu c]
  | QSerial s n =>
      if s =? c_session c then
        match lookup n (c_hist c) with
        | Some old => [cache_response_pdu c] ++ delta_pdus old (c_data c) ++ [eod_pdu c]
        | None => [cache_reset_pdu c]
        end
      else [cache_reset_pdu c]
  end.

(* a data set in wire form: announcements, pairwise distinct records per table *)
Definition dataset_ok (v : Z) (S : list (list byte)) : Prop :=
  Forall (fun p => payload_ok v p /\ pdu_flags p = 1) S /\ NoDup (precs S) /\ NoDup (krecs S).

Definition cache_ok (c : cache) : Prop :=
  (c_ver c = 0 \/ c_ver c = 1) /\ 0 <= c_session c < 65536 /\ 0 <= c_serial c < 4294967296 /\
  dataset_ok (c_ver c) (c_data c) /\ Forall (fun e => dataset_ok (c_ver c) (snd e)) (c_hist c) /\
  pdu_ok (c_ver c) (eod_pdu c) /\ Forall (fun b => 0 <= b < 256) (c_eod_tail c).

(* ---------- wire-level facts ---------- *)
Lemma be16_enc16 v : 0 <= v < 65536 -> be16 ((v / 256) mod 256) (v mod 256) = v.
Proof.
  intros H. unfold be16. rewrite (Z.mod_small (v / 256) 256) by (split; [apply Z.div_pos; lia|apply Z.div_lt_upper_bound; lia]).
  pose proof (Z.div_mod v 256 ltac:(lia)). lia.
Qed.

Lemma be32_enc32 v : 0 <= v < 4294967296 ->
  be32 ((v / 16777216) mod 256) ((v / 65536) mod 256) ((v / 256) mod 256) (v mod 256) = v.
Proof.
  intros H. unfold be32.
  assert (E2 : v / 65536 = v / 256 / 256) by (rewrite Z.div_div by lia; reflexivity).
  assert (E3 : v / 16777216 = v / 256 / 256 / 256) by (rewrite !Z.div_div by lia; reflexivity).
  rewrite E2, E3. set (q1 := v / 256). set (q2 := q1 / 256). set (q3 := q2 / 256).
  assert (H3 : 0 <= q3 < 256).
  { subst q3 q2 q1. rewrite !Z.div_div by lia. split; [apply Z.div_pos; lia|apply Z.div_lt_upper_bound; lia]. }
  rewrite (Z.mod_small q3 256) by exact H3.
  pose proof (Z.div_mod v 256 ltac:(lia)). pose proof (Z.div_mod q1 256 ltac:(lia)). pose proof (Z.div_mod q2 256 ltac:(lia)).
  fold q1 in H0. fold q2 in H1. fold q3 in H2. lia.
Qed.

Lemma check_size_cache_response p : nthb p 1 = c_CACHE_RESPONSE -> get32 p 4 = 8 -> check_size p = true.
Proof. intros H1 H2. unfold check_size. rewrite H1, H2. reflexivity. Qed.
Lemma check_size_cache_reset p : nthb p 1 = c_CACHE_RESET -> get32 p 4 = 8 -> check_size p = true.
Proof. intros H1 H2. unfold check_size. rewrite H1, H2. reflexivity. Qed.

Lemma cache_response_ok c : (c_ver c = 0 \/ c_ver c = 1) -> 0 <= c_session c < 65536 ->
  pdu_ok (c_ver c) (cache_response_pdu c) /\ nthb (cache_response_pdu c) 1 = c_CACHE_RESPONSE /\
  get16 (cache_response_pdu c) 2 = c_session c.
Proof.
  intros Hv Hs. unfold pdu_ok, cache_response_pdu, get32, get16, nthb, zlen, enc16, enc32. cbn [app nth List.length Nat.add].
  assert (G : be32 ((8 / 16777216) mod 256) ((8 / 65536) mod 256) ((8 / 256) mod 256) (8 mod 256) = 8) by reflexivity.
  rewrite G, be16_enc16 by exact Hs.
  repeat split; try reflexivity; try (vm_compute; discriminate).
Qed.

Lemma cache_reset_ok c : (c_ver c = 0 \/ c_ver c = 1) ->
  pdu_ok (c_ver c) (cache_reset_pdu c) /\ nthb (cache_reset_pdu c) 1 = c_CACHE_RESET.
Proof.
  intros Hv. unfold pdu_ok, cache_reset_pdu, get32, get16, nthb, zlen, enc16, enc32. cbn [app nth List.length Nat.add].
  assert (G : be32 ((8 / 16777216) mod 256) ((8 / 65536) mod 256) ((8 / 256) mod 256) (8 mod 256) = 8) by reflexivity.
  rewrite G. repeat split; try reflexivity; try (vm_compute; discriminate).
Qed.

Lemma eod_fields c : 0 <= c_session c < 65536 -> 0 <= c_serial c < 4294967296 ->
  nthb (eod_pdu c) 1 = c_EOD /\ get16 (eod_pdu c) 2 = c_session c /\ get32 (eod_pdu c) 8 = c_serial c.
Proof.
  intros Hs Hn. unfold eod_pdu, get32, get16, nthb, enc16, enc32. cbn [app nth Nat.add].
  rewrite be16_enc16 by exact Hs. rewrite be32_enc32 by exact Hn. auto.
Qed.

(* ---------- splitting a data set by PDU type ---------- *)
Ltac cdec :=
  repeat match goal with
  | |- context [Z.eqb ?a ?b] => is_const a; is_const b;
      let v := eval vm_compute in (Z.eqb a b) in change (Z.eqb a b) with v
  end; cbv iota; cbn [orb andb negb].

Lemma split_perm v S : Forall (payload_ok v) S ->
  Permutation (filter is_v4 S ++ filter is_v6 S) (filter (fun p => negb (is_key p)) S).
Proof.
  induction S as [|p S IH]; intros H; [constructor|]. inversion H as [|? ? Hp HS]; subst. specialize (IH HS).
  destruct Hp as (_ & Ht & _). unfold is_v4, is_v6, is_key in *. cbn [filter].
  destruct Ht as [Ht|[Ht|Ht]]; apply Z.eqb_eq in Ht; rewrite Ht; cdec.
  - cbn [app]. constructor. exact IH.
  - eapply Permutation_trans; [apply Permutation_sym, Permutation_middle|]. constructor. exact IH.
  - exact IH.
Qed.

Lemma filter_key_v S v : Forall (payload_ok v) S -> filter is_key S = filter is_key S.
Proof. reflexivity. Qed.

(* records decoded from PDUs belong to this socket *)
Lemma precs_src ps r : In r (map prec_of_pdu ps) -> psrc r = 1.
Proof. rewrite in_map_iff. intros (p & <- & _). reflexivity. Qed.
Lemma krecs_src ps r : In r (map krec_of_pdu ps) -> ksrc r = 1.
Proof. rewrite in_map_iff. intros (p & <- & _). reflexivity. Qed.

(* ---------- what a response that is a set difference does to a table ---------- *)
Section Response.
Variable A : Type.
Variable eqb : A -> A -> bool.
Hypothesis eqb_eq : forall a b, eqb a b = true <-> a = b.
Variable of_pdu : list byte -> A.
Variable src : A -> Z.
Hypothesis src_of_pdu : forall p, src (of_pdu p) = 1.

Notation delta := (delta A eqb of_pdu).
Notation applies := (applies A eqb of_pdu).
Notation own := (own A src).
Notation oth := (oth A src).
Notation wd := (wd A of_pdu).
Notation an := (an A of_pdu).

Lemma In_own x X : In x (own X) <-> In x X /\ src x = 1.
Proof. unfold SyncSets.own. rewrite filter_In, Z.eqb_eq. tauto. Qed.

(* the table holds exactly Old for this socket; the response withdraws part of Old and announces records outside Old *)
Lemma response_applies X0 Old ps :
  NoDup X0 -> (forall x, In x (own X0) <-> In x Old) ->
  flags01 ps -> NoDup (map of_pdu ps) ->
  (forall r, In r (wd ps) -> In r Old) -> (forall r, In r (an ps) -> ~ In r Old) ->
  applies ps X0 /\ NoDup (own (fold_left delta ps X0)) /\ oth (fold_left delta ps X0) = oth X0 /\
  (forall x, In x (own (fold_left delta ps X0)) <-> (In x Old /\ ~ In x (wd ps)) \/ In x (an ps)).
Proof.
  intros Hn Hold Hf Hd Hw Ha.
  assert (Happ : applies ps X0).
  { apply (applies_distinct A eqb eqb_eq of_pdu); auto.
    - intros r Hr. apply (proj1 (In_own r X0)). apply Hold, Hw, Hr.
    - intros r Hr Hin. apply (Ha r Hr). apply Hold. apply In_own. split; [exact Hin|].
      apply an_sub in Hr. apply in_map_iff in Hr. destruct Hr as (p & <- & _). apply src_of_pdu. }
  split; [exact Happ|]. split; [apply NoDup_filter, (applies_NoDup A eqb of_pdu); assumption|].
  split; [apply (oth_fold A eqb eqb_eq of_pdu src src_of_pdu)|].
  intros x. rewrite In_own, (In_fold_distinct A eqb eqb_eq of_pdu ps X0 x Hf Hd). split.
  - intros [[[H1 H2]|H] Hs]; [left; split; [apply Hold, In_own; auto|exact H2]|right; exact H].
  - intros [[H1 H2]|H].
    + apply Hold, In_own in H1. destruct H1 as [H1 Hs]. split; [left; auto|exact Hs].
    + split; [right; exact H|]. apply an_sub in H. apply in_map_iff in H. destruct H as (p & <- & _). apply src_of_pdu.
Qed.

Lemma wd_all_announce ps : Forall (fun p => pdu_flags p = 1) ps -> wd ps = [] /\ an ps = map of_pdu ps /\ flags01 ps.
Proof.
  intros H. unfold CacheSpec.wd, CacheSpec.an, flags01. induction H as [|p ps Hp H IH]; [cbn; auto|].
  destruct IH as (I1 & I2 & I3). cbn [filter map]. rewrite Hp. cbn [Z.eqb Pos.eqb map]. rewrite I1, I2. auto.
Qed.
End Response.

(* ---------- withdrawals: the same PDU with the flags byte cleared ---------- *)
Lemma set_nth_length n v : forall l, List.length (set_nth n v l) = List.length l.
Proof. induction n as [|n IH]; intros [|x l]; cbn [set_nth List.length]; auto. Qed.
Lemma nth_set_nth_other n v : forall l i, i <> n -> nth i (set_nth n v l) 0 = nth i l 0.
Proof.
  induction n as [|n IH]; intros [|x l] i H; cbn [set_nth]; auto.
  - destruct i; [contradiction|reflexivity].
  - destruct i; [reflexivity|]. cbn [nth]. apply IH. lia.
Qed.
Lemma nth_set_nth_same n v : forall l, (n < List.length l)%nat -> nth n (set_nth n v l) 0 = v.
Proof. induction n as [|n IH]; intros [|x l] H; cbn [set_nth List.length] in *; try lia; [reflexivity|]. cbn [nth]. apply IH. lia. Qed.
Lemma skipn_set_nth n v k : forall l, (n < k)%nat -> skipn k (set_nth n v l) = skipn k l.
Proof.
  revert k. induction n as [|n IH]; intros k [|x l] H; cbn [set_nth]; auto.
  - destruct k; [lia|reflexivity].
  - destruct k; [lia|]. cbn [skipn]. apply IH. lia.
Qed.
Lemma nthb_set_other n v l i : i <> n -> nthb (set_nth n v l) i = nthb l i.
Proof. unfold nthb. apply nth_set_nth_other. Qed.
Lemma get32_set_other n v l off : (n < off \/ off + 3 < n)%nat -> get32 (set_nth n v l) off = get32 l off.
Proof. intros H. unfold get32. rewrite !nthb_set_other by lia. reflexivity. Qed.

Lemma withdraw_facts v p : payload_ok v p ->
  payload_ok v (withdraw p) /\ pdu_flags (withdraw p) = 0 /\
  is_v4 (withdraw p) = is_v4 p /\ is_v6 (withdraw p) = is_v6 p /\ is_key (withdraw p) = is_key p /\
  (is_key p = false -> prec_of_pdu (withdraw p) = prec_of_pdu p) /\
  (is_key p = true -> krec_of_pdu (withdraw p) = krec_of_pdu p).
Proof.
  intros ((Hv & Hlen & Hz & Hcs & Hne) & Ht & Hpl & Hfl).
  assert (Hpos : forall n, (n = 2 \/ n = 8)%nat ->
            nthb (set_nth n 0 p) 0 = nthb p 0 /\ nthb (set_nth n 0 p) 1 = nthb p 1 /\ get32 (set_nth n 0 p) 4 = get32 p 4 /\
            zlen (set_nth n 0 p) = zlen p).
  { intros n Hn. rewrite !nthb_set_other by lia. rewrite get32_set_other by lia. unfold zlen. rewrite set_nth_length. auto. }
  assert (Hcsw : forall n, (n = 2 \/ n = 8)%nat -> check_size (set_nth n 0 p) = check_size p).
  { intros n Hn. destruct (Hpos n Hn) as (A0 & A1 & A4 & _). unfold check_size. rewrite A0, A1, A4.
    unfold is_v4, is_v6, is_key in Ht.
    destruct Ht as [T|[T|T]]; apply Z.eqb_eq in T; rewrite T; reflexivity. }
  unfold payload_ok, pdu_ok, withdraw, is_v4, is_v6, is_key, pdu_flags in *.
  assert (Hl : (12 <= List.length p)%nat).
  { assert (H12 : 12 <= get32 p 4).
    { unfold check_size in Hcs.
      destruct Ht as [T|[T|T]]; apply Z.eqb_eq in T; rewrite T in Hcs.
      - change ((get32 p 4 =? sizeof_pdu_ipv4) = true) in Hcs. apply Z.eqb_eq in Hcs. rewrite Hcs. apply Z.leb_le. reflexivity.
      - change ((get32 p 4 =? sizeof_pdu_ipv6) = true) in Hcs. apply Z.eqb_eq in Hcs. rewrite Hcs. apply Z.leb_le. reflexivity.
      - change ((get32 p 4 =? sizeof_pdu_router_key) = true) in Hcs. apply Z.eqb_eq in Hcs. rewrite Hcs. apply Z.leb_le. reflexivity. }
    unfold zlen in Hz. lia. }
  destruct (nthb p 1 =? c_ROUTER_KEY) eqn:Ek.
  - destruct (Hpos 2%nat (or_introl eq_refl)) as (A0 & A1 & A4 & AZ).
    assert (F0 : nthb (set_nth 2 0 p) 2 = 0) by (unfold nthb; apply nth_set_nth_same; lia).
    rewrite A0, A1, A4, AZ, (Hcsw 2%nat (or_introl eq_refl)), Ek, F0.
    split; [split; [auto 10|]; split; [exact Ht|]; split; [intros; discriminate|left; reflexivity]|].
    split; [reflexivity|].
    split; [reflexivity|]. split; [reflexivity|]. split; [reflexivity|]. split; [intros; discriminate|].
    intros _. unfold krec_of_pdu. rewrite get32_set_other by lia. rewrite !skipn_set_nth by lia. reflexivity.
  - destruct (Hpos 8%nat (or_intror eq_refl)) as (A0 & A1 & A4 & AZ).
    assert (F0 : nthb (set_nth 8 0 p) 8 = 0) by (unfold nthb; apply nth_set_nth_same; lia).
    rewrite A0, A1, A4, AZ, (Hcsw 8%nat (or_intror eq_refl)), Ek, F0.
    assert (Hplv : prefix_lengths_valid (set_nth 8 0 p) = prefix_lengths_valid p).
    { unfold prefix_lengths_valid, prefix_host_bits_zero. rewrite !nthb_set_other by lia.
      rewrite !skipn_set_nth by lia. reflexivity. }
    split; [split; [auto 10|]; split; [exact Ht|]; split; [rewrite Hplv; exact Hpl|left; reflexivity]|].
    split; [reflexivity|].
    split; [reflexivity|]. split; [reflexivity|]. split; [reflexivity|]. split; [|intros; discriminate].
    intros _. unfold prec_of_pdu. rewrite !nthb_set_other by lia. rewrite !skipn_set_nth by lia.
    destruct (nthb p 1 =? c_IPV6_PREFIX); rewrite get32_set_other by lia; reflexivity.
Qed.

(* ---------- the delta between two data sets ---------- *)
Lemma NoDup_app' {A} (l1 l2 : list A) : NoDup l1 -> NoDup l2 -> (forall x, In x l1 -> ~ In x l2) -> NoDup (l1 ++ l2).
Proof.
  induction 1 as [|x l1 Hx Hn IH]; intros H2 Hd; [exact H2|]. cbn [app]. constructor.
  - rewrite in_app_iff. intros [H|H]; [exact (Hx H)|exact (Hd x (or_introl eq_refl) H)].
  - apply IH; [exact H2|]. intros y Hy. apply Hd. right. exact Hy.
Qed.
Lemma NoDup_map_filter {A B} (g : A -> B) (f : A -> bool) (l : list A) : NoDup (map g l) -> NoDup (map g (filter f l)).
Proof.
  induction l as [|x l IH]; intros H; [constructor|]. cbn [map] in H. inversion H as [|? ? Hx Hn]; subst.
  cbn [filter]. destruct (f x); [|apply IH, Hn]. cbn [map]. constructor; [|apply IH, Hn].
  rewrite in_map_iff in *. intros (y & Ey & Hy). apply Hx. exists y. apply filter_In in Hy. tauto.
Qed.
Lemma filter_filter_comm {A} (f g : A -> bool) (l : list A) : filter f (filter g l) = filter g (filter f l).
Proof. induction l as [|x l IH]; [reflexivity|]. cbn [filter]. destruct (f x) eqn:F, (g x) eqn:G; cbn [filter]; rewrite ?F, ?G, IH; reflexivity. Qed.
Lemma filter_map_comm {A B} (h : A -> B) (f : B -> bool) (g : A -> bool) (l : list A) :
  (forall x, f (h x) = g x) -> filter f (map h l) = map h (filter g l).
Proof. intros H. induction l as [|x l IH]; [reflexivity|]. cbn [map filter]. rewrite H. destruct (g x); cbn [map]; rewrite IH; reflexivity. Qed.

Definition nk (p : list byte) : bool := negb (is_key p).

(* membership of a PDU's record in a data set, per table *)
Lemma in_set_prec p S : is_key p = false -> (in_set p S = true <-> In (prec_of_pdu p) (precs S)).
Proof.
  intros Hk. unfold in_set, precs. rewrite existsb_exists, in_map_iff. unfold denotes_same. rewrite Hk. split.
  - intros (q & Hq & E). apply andb_true_iff in E. destruct E as [E1 E2]. apply prec_eqb_eq in E2.
    exists q. split; [symmetry; exact E2|]. apply filter_In. auto.
  - intros (q & E & Hq). apply filter_In in Hq. destruct Hq as [Hq Hn]. exists q. split; [exact Hq|].
    apply andb_true_iff. split; [exact Hn|]. apply prec_eqb_eq. symmetry. exact E.
Qed.
Lemma in_set_krec p S : is_key p = true -> (in_set p S = true <-> In (krec_of_pdu p) (krecs S)).
Proof.
  intros Hk. unfold in_set, krecs. rewrite existsb_exists, in_map_iff. unfold denotes_same. rewrite Hk. split.
  - intros (q & Hq & E). apply andb_true_iff in E. destruct E as [E1 E2]. apply krec_eqb_eq in E2.
    exists q. split; [symmetry; exact E2|]. apply filter_In. auto.
  - intros (q & E & Hq). apply filter_In in Hq. destruct Hq as [Hq Hn]. exists q. split; [exact Hq|].
    apply andb_true_iff. split; [exact Hn|]. apply krec_eqb_eq. symmetry. exact E.
Qed.

Section DeltaTable.
(* one table: sel selects its PDUs (nk for prefixes, is_key for router keys), rec decodes them *)
Variable A : Type.
Variable rec : list byte -> A.
Variable sel : list byte -> bool.
Variable recs : list (list byte) -> list A.
Hypothesis recs_def : forall S, recs S = map rec (filter sel S).
Hypothesis in_set_rec : forall p S, sel p = true -> (in_set p S = true <-> In (rec p) (recs S)).
Variable v : Z.
Hypothesis sel_withdraw : forall p, payload_ok v p -> sel (withdraw p) = sel p.
Hypothesis rec_withdraw : forall p, payload_ok v p -> sel p = true -> rec (withdraw p) = rec p.

Lemma delta_table old new :
  Forall (fun p => payload_ok v p /\ pdu_flags p = 1) old -> Forall (fun p => payload_ok v p /\ pdu_flags p = 1) new ->
  NoDup (recs old) -> NoDup (recs new) ->
  let ps := filter sel (delta_pdus old new) in
  flags01 ps /\ NoDup (map rec ps) /\
  (forall r, In r (wd A rec ps) <-> In r (recs old) /\ ~ In r (recs new)) /\
  (forall r, In r (an A rec ps) <-> In r (recs new) /\ ~ In r (recs old)).
Proof.
  intros Ho Hn No Nn. cbv zeta. unfold delta_pdus. rewrite filter_app.
  set (L := filter (fun p => negb (in_set p new)) old). set (R := filter (fun p => negb (in_set p old)) new).
  assert (HoL : Forall (fun p => payload_ok v p /\ pdu_flags p = 1) L) by (apply Forall_forall; intros p Hp; apply filter_In in Hp; eapply Forall_forall in Ho; [exact Ho|tauto]).
  assert (HoR : Forall (fun p => payload_ok v p /\ pdu_flags p = 1) R) by (apply Forall_forall; intros p Hp; apply filter_In in Hp; eapply Forall_forall in Hn; [exact Hn|tauto]).
  assert (EW : filter sel (map withdraw L) = map withdraw (filter sel L)).
  { clear - HoL sel_withdraw. induction HoL as [|p L [Hp _] H IH]; [reflexivity|]. cbn [map filter]. rewrite (sel_withdraw p Hp).
    destruct (sel p); cbn [map]; rewrite IH; reflexivity. }
  rewrite EW.
  assert (MW : map rec (map withdraw (filter sel L)) = map rec (filter sel L)).
  { clear - HoL rec_withdraw. induction HoL as [|p L [Hp _] H IH]; [reflexivity|]. cbn [filter].
    destruct (sel p) eqn:E; [|exact IH]. cbn [map]. rewrite (rec_withdraw p Hp E), IH. reflexivity. }
  assert (FW : Forall (fun p => pdu_flags p = 0) (map withdraw (filter sel L))).
  { apply Forall_forall. intros p Hp. apply in_map_iff in Hp. destruct Hp as (q & <- & Hq). apply filter_In in Hq.
    eapply Forall_forall in HoL; [|apply Hq]. apply (withdraw_facts v q), HoL. }
  assert (FR : Forall (fun p => pdu_flags p = 1) (filter sel R)).
  { apply Forall_forall. intros p Hp. apply filter_In in Hp. eapply Forall_forall in HoR; [|apply Hp]. apply HoR. }
  (* membership of the two halves *)
  assert (ML : forall r, In r (map rec (filter sel L)) <-> In r (recs old) /\ ~ In r (recs new)).
  { intros r. subst L. rewrite filter_filter_comm, recs_def, !in_map_iff. split.
    - intros (p & <- & Hp). apply filter_In in Hp. destruct Hp as [Hp Hnot]. pose proof Hp as Hp'. apply filter_In in Hp'.
      split; [exists p; auto|]. apply negb_true_iff in Hnot. intros Hin. apply (in_set_rec p new (proj2 Hp')) in Hin. congruence.
    - intros [(p & <- & Hp) Hnot]. exists p. split; [reflexivity|]. apply filter_In. split; [exact Hp|].
      apply negb_true_iff. apply filter_In in Hp. destruct (in_set p new) eqn:E; [|reflexivity].
      exfalso. apply Hnot. apply (in_set_rec p new (proj2 Hp)). exact E. }
  assert (MR : forall r, In r (map rec (filter sel R)) <-> In r (recs new) /\ ~ In r (recs old)).
  { intros r. subst R. rewrite filter_filter_comm, recs_def, !in_map_iff. split.
    - intros (p & <- & Hp). apply filter_In in Hp. destruct Hp as [Hp Hnot]. pose proof Hp as Hp'. apply filter_In in Hp'.
      split; [exists p; auto|]. apply negb_true_iff in Hnot. intros Hin. apply (in_set_rec p old (proj2 Hp')) in Hin. congruence.
    - intros [(p & <- & Hp) Hnot]. exists p. split; [reflexivity|]. apply filter_In. split; [exact Hp|].
      apply negb_true_iff. apply filter_In in Hp. destruct (in_set p old) eqn:E; [|reflexivity].
      exfalso. apply Hnot. apply (in_set_rec p old (proj2 Hp)). exact E. }
  (* the withdraw / announce parts of the concatenation *)
  assert (WD : wd A rec (map withdraw (filter sel L) ++ filter sel R) = map rec (filter sel L)).
  { unfold wd. rewrite filter_app, map_app.
    assert (E1 : filter (fun p => pdu_flags p =? 0) (map withdraw (filter sel L)) = map withdraw (filter sel L)).
    { clear - FW. induction FW as [|p l Hp H IH]; [reflexivity|]. cbn [filter]. rewrite Hp. cbn. rewrite IH. reflexivity. }
    assert (E2 : filter (fun p => pdu_flags p =? 0) (filter sel R) = []).
    { clear - FR. induction FR as [|p l Hp H IH]; [reflexivity|]. cbn [filter]. rewrite Hp. cbn. exact IH. }
    rewrite E1, E2, MW. cbn [map]. apply app_nil_r. }
  assert (AN : an A rec (map withdraw (filter sel L) ++ filter sel R) = map rec (filter sel R)).
  { unfold an. rewrite filter_app, map_app.
    assert (E1 : filter (fun p => pdu_flags p =? 1) (map withdraw (filter sel L)) = []).
    { clear - FW. induction FW as [|p l Hp H IH]; [reflexivity|]. cbn [filter]. rewrite Hp. cbn. exact IH. }
    assert (E2 : filter (fun p => pdu_flags p =? 1) (filter sel R) = filter sel R).
    { clear - FR. induction FR as [|p l Hp H IH]; [reflexivity|]. cbn [filter]. rewrite Hp. cbn. rewrite IH. reflexivity. }
    rewrite E1, E2. reflexivity. }
  split.
  { unfold flags01. apply Forall_app. split; [eapply Forall_impl; [|exact FW]|eapply Forall_impl; [|exact FR]]; cbv beta; auto. }
  split.
  { rewrite map_app, MW. apply NoDup_app'.
    - subst L. rewrite filter_filter_comm. apply NoDup_map_filter. rewrite <- recs_def. exact No.
    - subst R. rewrite filter_filter_comm. apply NoDup_map_filter. rewrite <- recs_def. exact Nn.
    - intros x Hx Hy. apply ML in Hx. apply MR in Hy. tauto. }
  split; intros r; [rewrite WD; apply ML|rewrite AN; apply MR].
Qed.
End DeltaTable.
