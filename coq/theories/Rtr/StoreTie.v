(* StoreTie.v - the functions of rtrlib/rtr/packets.c that turn ONE stored PDU into a table operation, TRANSLATED from
   the C by tools/c2v_store.py (Gen/GeneratedStore.v):
       rtr_prefix_pdu_2_pfx_record, rtr_key_pdu_2_spki_record            (memory mode with stores)
       rtr_update_pfx_table, rtr_update_spki_table,
       rtr_undo_update_pfx_table, rtr_undo_update_spki_table             (effect trees)
   and proved equal to what the hand-written model (Rtr/RtrModel.v) does for one PDU: prec_of_pdu / krec_of_pdu,
   upd_pfx / upd_key with pdu_flags, report_update_failure, and the inverse operation of undo_pfx / undo_keys.

   THE STORED PDU.  The model keeps a PDU as the bytes p received from the cache (network order).  The C keeps it in a
   temporary array AFTER rtr_receive_pdu has converted it in place: header (rtr_pdu_header_to_host_byte_order, =
   FooterTie.header_host) and body (rtr_pdu_footer_to_host_byte_order, = FooterTie.footer_host).  So the memory object
   the translated functions read is   stored p = footer_host (header_host p).

   THE RECORD is a memory object of sizeof(struct pfx_record) = 40 / sizeof(struct spki_record) = 128 bytes (see
   tools/c2v_store.py for why not a field store: the union in struct lrtr_ip_addr).  rec_prec / rec_krec read the
   model's record off those bytes: 32-bit fields by little-endian loads, the address as the MSB-first bits of its
   32-bit words (Base/Bits32.bits32; the convention of Base/IpAddr.ip_bits).

   THE TABLES.  The model has duplicate-free lists; the table the C works on (the socket's own tables, or the shadow
   tables during a reload) is threaded through the interpretation as a pair [tabs]; [live] says whether it is the
   socket's own pair - then every change is written through to the world (pfx w / keys w) and reported to the update
   callback (TPfx / TKey trace items), as process_eod does.                                                        *)
From Coq Require Import ZifyBool.
From RtrV Require Import Base.CSem Base.Mem Base.MemW Base.Eff Base.EffMem Base.Bits32 Gen.Generated Gen.GeneratedMem
  Gen.GeneratedStore Rtr.RtrModel Rtr.ExpiryTac Rtr.ExpiryProofs Rtr.CheckSizeTie Rtr.FooterTie Rtr.FsmTie.
Local Open Scope string_scope.
Local Open Scope Z_scope.

(* ====================================================================================================== *)
(* 1. the stored PDU                                                                                        *)
(* ====================================================================================================== *)
Definition stored (p : list byte) : list Z := footer_host (header_host p).
(* what rtr_send_error_pdu_from_host does with its copy of an echoed PDU: header only if it is 8 bytes long,
   otherwise rtr_pdu_to_network_byte_order = body, then header (both conversions are their own inverses) *)
Definition unstore (b : list Z) : list Z := if zlen b =? 8 then header_host b else header_host (footer_host b).

Definition this_socket : Z := 1.      (* the model's source id of the socket under consideration *)

Definition is_v4 (p : list byte) : Prop := nthb p 1 = c_IPV4_PREFIX /\ zlen p = sizeof_pdu_ipv4.
Definition is_v6 (p : list byte) : Prop := nthb p 1 = c_IPV6_PREFIX /\ zlen p = sizeof_pdu_ipv6.
Definition is_key (p : list byte) : Prop := nthb p 1 = c_ROUTER_KEY /\ zlen p = sizeof_pdu_router_key.

Ltac explode p Hl :=
  unfold zlen in Hl;
  repeat (destruct p as [|? p]; [cbn [List.length] in Hl; lia|]);
  destruct p as [|? p]; [|exfalso; cbn [List.length] in Hl; lia]; clear Hl.
Ltac bytes Hb :=
  repeat match type of Hb with Forall _ (_ :: _) => apply Forall_cons_iff in Hb; let H := fresh "Hbyte" in destruct Hb as [H Hb] end;
  clear Hb.

(* footer_host / header_host of a list given element by element *)
Ltac layout :=
  cbn [header_host]; ev_closed;
  unfold footer_host; cbv zeta;
  repeat match goal with |- context [mbyte (?x :: ?r) ?j] => evl (mbyte (x :: r) j) end;
  ev_closed; cbn [orb]; cbv iota;
  unfold swap4; explicit.

(* a value loaded from byte-valued memory and stored again = the bytes copied *)
Lemma le_bytes_le_load src : Forall byte_ok src -> forall n q, le_bytes (le_load src q n) n = ld_bytes src q n.
Proof.
  intros Hb. induction n as [|n IH]; intros q; [reflexivity|].
  cbn [le_load le_bytes ld_bytes]. pose proof (mbyte_ok src q Hb) as Hm. unfold byte_ok in Hm.
  assert (E0 : (mbyte src q + 256 * le_load src (q + 1) n) mod 256 = mbyte src q).
  { rewrite (Z.mul_comm 256), Z_mod_plus_full. apply Z.mod_small. exact Hm. }
  assert (E1 : (mbyte src q + 256 * le_load src (q + 1) n) / 256 = le_load src (q + 1) n).
  { rewrite (Z.mul_comm 256), Z.div_add by lia. rewrite Z.div_small by exact Hm. lia. }
  rewrite E0, E1, IH. reflexivity.
Qed.
Lemma stu_ldu src m o q n : Forall byte_ok src ->
  stu m (Some o) n (ldu src (Some q) n) = mcopy m (Some o) src (Some q) n.
Proof. intros Hb. unfold stu, mcopy, ldu. now rewrite le_bytes_le_load. Qed.

(* ====================================================================================================== *)
(* 2. the records                                                                                           *)
(* ====================================================================================================== *)
Definition rec_prec (r : list Z) : prec :=
  let v6 := ldu r (Some (offsetof_pfx_record__prefix + offsetof_lrtr_ip_addr__ver)) 4 =? c_LRTR_IPV6 in
  let a := offsetof_pfx_record__prefix + offsetof_lrtr_ip_addr__u in
  (v6,
   if v6 then (bits32 (ldu r (Some a) 4) ++ bits32 (ldu r (Some (a + 4)) 4) ++ bits32 (ldu r (Some (a + 8)) 4) ++
               bits32 (ldu r (Some (a + 12)) 4))%list
   else bits32 (ldu r (Some a) 4),
   ldu r (Some offsetof_pfx_record__min_len) 1, ldu r (Some offsetof_pfx_record__max_len) 1,
   ldu r (Some offsetof_pfx_record__asn) 4, ldu r (Some offsetof_pfx_record__socket) 8).

Definition rec_krec (r : list Z) : krec :=
  (ldu r (Some offsetof_spki_record__asn) 4, ld_bytes r offsetof_spki_record__ski (Z.to_nat c_SKI_SIZE),
   ld_bytes r offsetof_spki_record__spki (Z.to_nat c_SPKI_SIZE), ldu r (Some offsetof_spki_record__socket) 8).

Lemma bits32_le a b c d : byte_ok a -> byte_ok b -> byte_ok c -> byte_ok d ->
  bits32 (d + 256 * (c + 256 * (b + 256 * a))) = (byte_bits a ++ byte_bits b ++ byte_bits c ++ byte_bits d)%list.
Proof.
  unfold byte_ok. intros Ha Hb Hc Hd.
  replace (d + 256 * (c + 256 * (b + 256 * a))) with (be32w a b c d) by (unfold be32w; lia).
  apply bits32_be32w; assumption.
Qed.
Lemma be32_le a b c d : d + 256 * (c + 256 * (b + 256 * a)) = be32 a b c d.
Proof. unfold be32. lia. Qed.

(* the guards of the record builders: loads inside the PDU, stores inside the record *)
Ltac guards :=
  repeat first
    [ rewrite st_ok_stu | rewrite st_ok_mcopy
    | rewrite ld_ok_in by (cbn [List.length]; lia)
    | progress ev_closed
    | progress cbn [guard orb] ].
(* the record, byte by byte: loads that are stored again are copies; everything else is arithmetic on closed numbers *)
Ltac record_bytes :=
  repeat rewrite stu_ldu by (repeat (apply Forall_cons; [assumption|]); apply Forall_nil);
  match goal with |- Some ?x = _ => let v := eval vm_compute in x in change x with v end.
Ltac loads :=
  repeat match goal with
         | |- context [ldu (?x :: ?r) (Some ?k) 4] =>
           rewrite (ldu4 (x :: r) k); repeat match goal with |- context [mbyte (x :: r) ?j] => evl (mbyte (x :: r) j) end
         | |- context [ldu (?x :: ?r) (Some ?k) 1] =>
           rewrite (ldu1 (x :: r) k); repeat match goal with |- context [mbyte (x :: r) ?j] => evl (mbyte (x :: r) j) end
         | |- context [ldu (?x :: ?r) (Some ?k) 8] => evl (ldu (x :: r) (Some k) 8)
         end.

Theorem pfx_record_tie_v4 p : Forall byte_ok p -> is_v4 p ->
  exists r, rtr_prefix_pdu_2_pfx_record_gen (stored p) (zeros sizeof_pfx_record) this_socket (Some 0) (Some 0) (nthb p 1) = Some r /\
            List.length r = Z.to_nat sizeof_pfx_record /\ rec_prec r = prec_of_pdu p.
Proof.
  intros Hb [Hty Hl]. unfold sizeof_pdu_ipv4 in Hl. explode p Hl. unfold nthb in Hty. cbn [nth] in Hty. subst. bytes Hb.
  unfold stored. layout. unfold nthb. cbn [nth]. unfold c_IPV4_PREFIX.
  eexists. split; [|split].
  - unfold rtr_prefix_pdu_2_pfx_record_gen. cbv zeta. guards. record_bytes. reflexivity.
  - reflexivity.
  - unfold rec_prec, prec_of_pdu. cbv zeta. ev_closed. loads. ev_closed.
    unfold get32, nthb. cbn [nth]. ev_closed. cbn [skipn firstn bits_of_bytes nth Nat.add].
    rewrite bits32_le, be32_le by assumption. rewrite app_nil_r. reflexivity.
Qed.

Theorem pfx_record_tie_v6 p : Forall byte_ok p -> is_v6 p ->
  exists r, rtr_prefix_pdu_2_pfx_record_gen (stored p) (zeros sizeof_pfx_record) this_socket (Some 0) (Some 0) (nthb p 1) = Some r /\
            List.length r = Z.to_nat sizeof_pfx_record /\ rec_prec r = prec_of_pdu p.
Proof.
  intros Hb [Hty Hl]. unfold sizeof_pdu_ipv6 in Hl. explode p Hl. unfold nthb in Hty. cbn [nth] in Hty. subst. bytes Hb.
  unfold stored. layout. unfold nthb. cbn [nth]. unfold c_IPV6_PREFIX.
  eexists. split; [|split].
  - unfold rtr_prefix_pdu_2_pfx_record_gen. cbv zeta. guards. record_bytes. reflexivity.
  - reflexivity.
  - unfold rec_prec, prec_of_pdu. cbv zeta. ev_closed. loads. ev_closed.
    unfold get32, nthb. cbn [nth]. ev_closed. cbn [skipn firstn bits_of_bytes nth Nat.add].
    rewrite !bits32_le, be32_le by assumption. rewrite <- !app_assoc, app_nil_r. reflexivity.
Qed.

Definition is_prefix_pdu (p : list byte) : Prop := is_v4 p \/ is_v6 p.

Theorem pfx_record_tie p : Forall byte_ok p -> is_prefix_pdu p ->
  exists r, rtr_prefix_pdu_2_pfx_record_gen (stored p) (zeros sizeof_pfx_record) this_socket (Some 0) (Some 0) (nthb p 1) = Some r /\
            List.length r = Z.to_nat sizeof_pfx_record /\ rec_prec r = prec_of_pdu p.
Proof. intros Hb [H|H]; [apply pfx_record_tie_v4|apply pfx_record_tie_v6]; assumption. Qed.

Theorem key_record_tie p : Forall byte_ok p -> is_key p ->
  exists r, rtr_key_pdu_2_spki_record_gen (stored p) (zeros sizeof_spki_record) this_socket (Some 0) (Some 0) (nthb p 1) = Some r /\
            List.length r = Z.to_nat sizeof_spki_record /\ rec_krec r = krec_of_pdu p.
Proof.
  intros Hb [Hty Hl]. unfold sizeof_pdu_router_key in Hl. explode p Hl. unfold nthb in Hty. cbn [nth] in Hty. subst. bytes Hb.
  unfold stored. layout. unfold nthb. cbn [nth]. unfold c_ROUTER_KEY.
  eexists. split; [|split].
  - unfold rtr_key_pdu_2_spki_record_gen. cbv zeta. guards. record_bytes. reflexivity.
  - reflexivity.
  - unfold rec_krec, krec_of_pdu. ev_closed. loads.
    repeat match goal with |- context [ld_bytes ?m ?o ?n] => evl (ld_bytes m o n) end.
    repeat match goal with |- context [firstn ?n (skipn ?k ?l)] => evl (firstn n (skipn k l)) end.
    unfold get32, nthb. cbn [nth Nat.add]. rewrite be32_le. reflexivity.
Qed.
