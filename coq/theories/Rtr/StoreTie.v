(* StoreTie.v - the functions of rtrlib/rtr/packets.c that turn ONE stored PDU into a table operation, TRANSLATED from
   the C by tools/c2v_store.py (Gen/GeneratedStore.v):
       rtr_prefix_pdu_2_pfx_record, rtr_key_pdu_2_spki_record            (memory mode with stores)
       rtr_update_pfx_table, rtr_update_spki_table,
       rtr_undo_update_pfx_table, rtr_undo_update_spki_table             (effect trees)
   and proved equal to what the hand-written model (Rtr/RtrModel.v) does for one PDU: prec_of_pdu / krec_of_pdu,
   upd_pfx / upd_key with pdu_flags, report_update_failure, and the inverse operation of undo_pfx / undo_keys.

   THE STORED PDU.  The model keeps a PDU as the bytes p received from the cache (network order).  The C keeps it in a
   temporary array AFTER rtr_receive_pdu has converted it in place: header (rtr_pdu_header_to_host_byte_order, =
   FooterTie.header_host) and body (rtr_pdu_footer_to_host_byte_order, = FooterTie.footer_host).  So the memory object
   the translated functions read is   stored p = footer_host (header_host p).

   THE RECORD is a memory object of sizeof(struct pfx_record) = 40 / sizeof(struct spki_record) = 128 bytes (see
   tools/c2v_store.py for why not a field store: the union in struct lrtr_ip_addr).  rec_prec / rec_krec read the
   model's record off those bytes: 32-bit fields by little-endian loads, the address as the MSB-first bits of its
   32-bit words (Base/Bits32.bits32; the convention of Base/IpAddr.ip_bits).

   THE TABLES.  The model has duplicate-free lists; the table the C works on (the socket's own tables, or the shadow
   tables during a reload) is threaded through the interpretation as a pair [tabs]; [live] says whether it is the
   socket's own pair - then every change is written through to the world (pfx w / keys w) and reported to the update
   callback (TPfx / TKey trace items), as process_eod does.

   RESULTS (every world w, every table pair T, live or shadow, every table handle h; p = the PDU as received, byte-valued,
   of the right type and size: is_v4 / is_v6 / is_key):
     pfx_record_tie   exists r, rtr_prefix_pdu_2_pfx_record_gen (stored p) (zeros 40) this_socket (Some 0) (Some 0) (type) = Some r
                      /\ length r = 40 /\ rec_prec r = prec_of_pdu p        (IPv4 and IPv6)
     key_record_tie   the same for rtr_key_pdu_2_spki_record_gen, rec_krec r = krec_of_pdu p
     update_pfx_tie   interpS live (rtr_update_pfx_table_gen h (stored p) (Some 0) this_socket (sock_store (sk w))) T w
                      = Some (as_effS (update_pfx_one live p T) w)
     update_spki_tie  ... rtr_update_spki_table_gen ... = Some (as_effS (update_key_one live p T) w)
     undo_pfx_tie / undo_spki_tie   ... rtr_undo_update_*_table_gen ... = Some (as_effS (undo_*_one live p T) w)
     update_pfx_one_model / update_key_one_model   update_*_one = pfx_op / key_op (= the model's upd_pfx / upd_key, written
                      through to the world with callbacks when live) followed by the model's report_update_failure with the
                      model's codes (1 duplicate, 2 unknown withdrawal, 3 invalid flags) and result -1
     undo_*_one_model for an applied PDU (flags 0 or 1) the undo is the table operation with flag 1 - flags: what undo_pfx /
                      undo_keys perform
     pfx_op_never_error / key_op_never_error   the interpreted table calls return 0, -2 or -3, never PFX_ERROR / SPKI_ERROR -1:
                      the "PFX_TABLE Error" / "spki_table Error" (Internal Error) branch of the C has NO counterpart in the model
                      (no allocation failure there) and is unreachable under the interpretation.
   [Some] = the C is defined: every load inside the PDU, every store inside the record, the asserts hold.

   CODE versus MODEL - what was compared and found EQUAL (no finding):
     - min_len <- prefix_len (byte 9), max_len <- max_prefix_len (byte 10), for both families;
     - the address: the C copies host-order 32-bit words (the receive path swapped each word), bits32 of those words is
       bits_of_bytes of the bytes as received;
     - flags: ((struct pdu_ipv4 * )pdu)->flags is read for IPv6 PDUs too - offsetof(pdu_ipv4, flags) = offsetof(pdu_ipv6,
       flags) = 8 = the model's nthb p 8; Router Key: byte 2 (the header conversion leaves bytes 2, 3 of a Router Key alone);
     - the echoed PDU: sizeof(struct pdu_ipv4 / pdu_ipv6 / pdu_router_key) = 20 / 32 / 123 = the whole PDU, converted back:
       unstore (stored p) = p, the model's send_error_from_host p;
     - invalid flags: report only, no state change, in both; duplicate / unknown: report + RTR_ERROR_FATAL, in both.
   Differences that change no reachable behaviour:
     - PFX_ERROR / SPKI_ERROR branch: see above;
     - undo with flags outside {0, 1}: the C returns RTR_ERROR without a table call, the model's upd_pfx (1 - flags) gives
       its code 3 - "failed" either way, and only PDUs that were applied (flags 0 / 1) are ever undone;
     - the record's padding and, for IPv4, the last three address words stay 0 here (C: indeterminate); rec_prec does not
       read them.
   NOT PROVED here: that the loops of rtr_sync_receive_and_store_pdus over the three temporary arrays are apply_pfx /
   apply_keys / undo_pfx / undo_keys (folds of the one-PDU operations; the model emits the callbacks of a whole array
   before it stores the table, which commutes).                                                                     *)

From Coq Require Import ZifyBool.
From RtrV Require Import Base.CSem Base.Mem Base.MemW Base.Eff Base.EffMem Base.Bits32 Gen.Generated Gen.GeneratedMem
  Gen.GeneratedStore Rtr.RtrModel Rtr.ExpiryTac Rtr.ExpiryProofs Rtr.CheckSizeTie Rtr.FooterTie Rtr.FsmTie.
Local Open Scope string_scope.
Local Open Scope Z_scope.

(* ====================================================================================================== *)
(* 1. the stored PDU                                                                                        *)
(* ====================================================================================================== *)
Definition stored (p : list byte) : list Z := footer_host (header_host p).
(* what rtr_send_error_pdu_from_host does with its copy of an echoed PDU: header only if it is 8 bytes long,
   otherwise rtr_pdu_to_network_byte_order = body, then header (both conversions are their own inverses) *)
Definition unstore (b : list Z) : list Z := if zlen b =? 8 then header_host b else header_host (footer_host b).

Definition this_socket : Z := 1.      (* the model's source id of the socket under consideration *)

Definition is_v4 (p : list byte) : Prop := nthb p 1 = c_IPV4_PREFIX /\ zlen p = sizeof_pdu_ipv4.
Definition is_v6 (p : list byte) : Prop := nthb p 1 = c_IPV6_PREFIX /\ zlen p = sizeof_pdu_ipv6.
Definition is_key (p : list byte) : Prop := nthb p 1 = c_ROUTER_KEY /\ zlen p = sizeof_pdu_router_key.

Ltac explode p Hl :=
  unfold zlen in Hl;
  repeat (destruct p as [|? p]; [cbn [List.length] in Hl; lia|]);
  destruct p as [|? p]; [|exfalso; cbn [List.length] in Hl; lia]; clear Hl.
Ltac bytes Hb :=
  repeat match type of Hb with Forall _ (_ :: _) => apply Forall_cons_iff in Hb; let H := fresh "Hbyte" in destruct Hb as [H Hb] end;
  clear Hb.

(* footer_host / header_host of a list given element by element *)
Ltac layout :=
  cbn [header_host]; ev_closed;
  unfold footer_host; cbv zeta;
  repeat match goal with |- context [mbyte (?x :: ?r) ?j] => evl (mbyte (x :: r) j) end;
  ev_closed; cbn [orb]; cbv iota;
  unfold swap4; explicit.

(* a value loaded from byte-valued memory and stored again = the bytes copied *)
Lemma le_bytes_le_load src : Forall byte_ok src -> forall n q, le_bytes (le_load src q n) n = ld_bytes src q n.
Proof.
  intros Hb. induction n as [|n IH]; intros q; [reflexivity|].
  cbn [le_load le_bytes ld_bytes]. pose proof (mbyte_ok src q Hb) as Hm. unfold byte_ok in Hm.
  assert (E0 : (mbyte src q + 256 * le_load src (q + 1) n) mod 256 = mbyte src q).
  { rewrite (Z.mul_comm 256), Z_mod_plus_full. apply Z.mod_small. exact Hm. }
  assert (E1 : (mbyte src q + 256 * le_load src (q + 1) n) / 256 = le_load src (q + 1) n).
  { rewrite (Z.mul_comm 256), Z.div_add by lia. rewrite Z.div_small by exact Hm. lia. }
  rewrite E0, E1, IH. reflexivity.
Qed.
Lemma stu_ldu src m o q n : Forall byte_ok src ->
  stu m (Some o) n (ldu src (Some q) n) = mcopy m (Some o) src (Some q) n.
Proof. intros Hb. unfold stu, mcopy, ldu. now rewrite le_bytes_le_load. Qed.

(* ====================================================================================================== *)
(* 2. the records                                                                                           *)
(* ====================================================================================================== *)
Definition rec_prec (r : list Z) : prec :=
  let v6 := ldu r (Some (offsetof_pfx_record__prefix + offsetof_lrtr_ip_addr__ver)) 4 =? c_LRTR_IPV6 in
  let a := offsetof_pfx_record__prefix + offsetof_lrtr_ip_addr__u in
  (v6,
   if v6 then (bits32 (ldu r (Some a) 4) ++ bits32 (ldu r (Some (a + 4)) 4) ++ bits32 (ldu r (Some (a + 8)) 4) ++
               bits32 (ldu r (Some (a + 12)) 4))%list
   else bits32 (ldu r (Some a) 4),
   ldu r (Some offsetof_pfx_record__min_len) 1, ldu r (Some offsetof_pfx_record__max_len) 1,
   ldu r (Some offsetof_pfx_record__asn) 4, ldu r (Some offsetof_pfx_record__socket) 8).

Definition rec_krec (r : list Z) : krec :=
  (ldu r (Some offsetof_spki_record__asn) 4, ld_bytes r offsetof_spki_record__ski (Z.to_nat c_SKI_SIZE),
   ld_bytes r offsetof_spki_record__spki (Z.to_nat c_SPKI_SIZE), ldu r (Some offsetof_spki_record__socket) 8).

Lemma bits32_le a b c d : byte_ok a -> byte_ok b -> byte_ok c -> byte_ok d ->
  bits32 (d + 256 * (c + 256 * (b + 256 * a))) = (byte_bits a ++ byte_bits b ++ byte_bits c ++ byte_bits d)%list.
Proof.
  unfold byte_ok. intros Ha Hb Hc Hd.
  replace (d + 256 * (c + 256 * (b + 256 * a))) with (be32w a b c d) by (unfold be32w; lia).
  apply bits32_be32w; assumption.
Qed.
Lemma be32_le a b c d : d + 256 * (c + 256 * (b + 256 * a)) = be32 a b c d.
Proof. unfold be32. lia. Qed.

(* the guards of the record builders: loads inside the PDU, stores inside the record *)
Ltac guards :=
  repeat first
    [ rewrite st_ok_stu | rewrite st_ok_mcopy
    | rewrite ld_ok_in by (cbn [List.length]; lia)
    | progress ev_closed
    | progress cbn [guard orb] ].
(* the record, byte by byte: loads that are stored again are copies; everything else is arithmetic on closed numbers *)
Ltac record_bytes :=
  repeat rewrite stu_ldu by (repeat (apply Forall_cons; [assumption|]); apply Forall_nil);
  match goal with |- Some ?x = _ => let v := eval vm_compute in x in change x with v end.
Ltac loads :=
  repeat match goal with
         | |- context [ldu (?x :: ?r) (Some ?k) 4] =>
           rewrite (ldu4 (x :: r) k); repeat match goal with |- context [mbyte (x :: r) ?j] => evl (mbyte (x :: r) j) end
         | |- context [ldu (?x :: ?r) (Some ?k) 1] =>
           rewrite (ldu1 (x :: r) k); repeat match goal with |- context [mbyte (x :: r) ?j] => evl (mbyte (x :: r) j) end
         | |- context [ldu (?x :: ?r) (Some ?k) 8] => evl (ldu (x :: r) (Some k) 8)
         end.

Theorem pfx_record_tie_v4 p : Forall byte_ok p -> is_v4 p ->
  exists r, rtr_prefix_pdu_2_pfx_record_gen (stored p) (zeros sizeof_pfx_record) this_socket (Some 0) (Some 0) (nthb p 1) = Some r /\
            List.length r = Z.to_nat sizeof_pfx_record /\ rec_prec r = prec_of_pdu p.
Proof.
  intros Hb [Hty Hl]. unfold sizeof_pdu_ipv4 in Hl. explode p Hl. unfold nthb in Hty. cbn [nth] in Hty. subst. bytes Hb.
  unfold stored. layout. unfold nthb. cbn [nth]. unfold c_IPV4_PREFIX.
  eexists. split; [|split].
  - unfold rtr_prefix_pdu_2_pfx_record_gen. cbv zeta. guards. record_bytes. reflexivity.
  - reflexivity.
  - unfold rec_prec, prec_of_pdu. cbv zeta. ev_closed. loads. ev_closed.
    unfold get32, nthb. cbn [nth]. ev_closed. cbn [skipn firstn bits_of_bytes nth Nat.add].
    rewrite bits32_le, be32_le by assumption. rewrite app_nil_r. reflexivity.
Qed.

Theorem pfx_record_tie_v6 p : Forall byte_ok p -> is_v6 p ->
  exists r, rtr_prefix_pdu_2_pfx_record_gen (stored p) (zeros sizeof_pfx_record) this_socket (Some 0) (Some 0) (nthb p 1) = Some r /\
            List.length r = Z.to_nat sizeof_pfx_record /\ rec_prec r = prec_of_pdu p.
Proof.
  intros Hb [Hty Hl]. unfold sizeof_pdu_ipv6 in Hl. explode p Hl. unfold nthb in Hty. cbn [nth] in Hty. subst. bytes Hb.
  unfold stored. layout. unfold nthb. cbn [nth]. unfold c_IPV6_PREFIX.
  eexists. split; [|split].
  - unfold rtr_prefix_pdu_2_pfx_record_gen. cbv zeta. guards. record_bytes. reflexivity.
  - reflexivity.
  - unfold rec_prec, prec_of_pdu. cbv zeta. ev_closed. loads. ev_closed.
    unfold get32, nthb. cbn [nth]. ev_closed. cbn [skipn firstn bits_of_bytes nth Nat.add].
    rewrite !bits32_le, be32_le by assumption. rewrite <- !app_assoc, app_nil_r. reflexivity.
Qed.

Definition is_prefix_pdu (p : list byte) : Prop := is_v4 p \/ is_v6 p.

Theorem pfx_record_tie p : Forall byte_ok p -> is_prefix_pdu p ->
  exists r, rtr_prefix_pdu_2_pfx_record_gen (stored p) (zeros sizeof_pfx_record) this_socket (Some 0) (Some 0) (nthb p 1) = Some r /\
            List.length r = Z.to_nat sizeof_pfx_record /\ rec_prec r = prec_of_pdu p.
Proof. intros Hb [H|H]; [apply pfx_record_tie_v4|apply pfx_record_tie_v6]; assumption. Qed.

Theorem key_record_tie p : Forall byte_ok p -> is_key p ->
  exists r, rtr_key_pdu_2_spki_record_gen (stored p) (zeros sizeof_spki_record) this_socket (Some 0) (Some 0) (nthb p 1) = Some r /\
            List.length r = Z.to_nat sizeof_spki_record /\ rec_krec r = krec_of_pdu p.
Proof.
  intros Hb [Hty Hl]. unfold sizeof_pdu_router_key in Hl. explode p Hl. unfold nthb in Hty. cbn [nth] in Hty. subst. bytes Hb.
  unfold stored. layout. unfold nthb. cbn [nth]. unfold c_ROUTER_KEY.
  eexists. split; [|split].
  - unfold rtr_key_pdu_2_spki_record_gen. cbv zeta. guards. record_bytes. reflexivity.
  - reflexivity.
  - unfold rec_krec, krec_of_pdu. ev_closed. loads.
    repeat match goal with |- context [ld_bytes ?m ?o ?n] => evl (ld_bytes m o n) end.
    repeat match goal with |- context [firstn ?n (skipn ?k ?l)] => evl (firstn n (skipn k l)) end.
    unfold get32, nthb. cbn [nth Nat.add]. rewrite be32_le. reflexivity.
Qed.

(* ====================================================================================================== *)
(* 3. interpretation of the effect trees                                                                    *)
(* ====================================================================================================== *)
Notation tabs := (list prec * list krec)%type.

(* the table pair the C operates on; the socket's own pair is written through to the world *)
Definition tab_sync (live : bool) (T : tabs) : world -> res unit :=
  if live then set_tables (fst T) (snd T) else ret tt.
(* the model's result codes of upd_pfx / upd_key as enum pfx_rtvals / spki_rtvals: 0 ok -> SUCCESS 0, 1 -> DUPLICATE_RECORD -2,
   2 -> RECORD_NOT_FOUND -3; anything else -> ERROR -1 *)
Definition tab_code (c : Z) : Z := if c =? 0 then 0 else if c =? 1 then -2 else if c =? 2 then -3 else -1.

(* pfx_table_add (flags 1) / pfx_table_remove (flags 0) of record r: the model's upd_pfx on the set, the update
   callback (trace) when the table is the socket's own *)
Definition pfx_op (live : bool) (flags : Z) (r : prec) (T : tabs) : world -> res (Z * tabs) :=
  let '(X', c, t) := upd_pfx live flags r (fst T) in
  mdo _ <- tab_sync live (X', snd T); mdo _ <- emit_all t; ret (tab_code c, (X', snd T)).
Definition key_op (live : bool) (flags : Z) (r : krec) (T : tabs) : world -> res (Z * tabs) :=
  let '(K', c, t) := upd_key live flags r (snd T) in
  mdo _ <- tab_sync live (fst T, K'); mdo _ <- emit_all t; ret (tab_code c, (fst T, K')).

(* the record handed to a table function: [handle; number of bytes; bytes...] *)
Definition arg_rec (args : list Z) : list Z := firstn (Z.to_nat (nth 1 args 0)) (skipn 2 args).

(* rtr_send_error_pdu_from_host(socket, pdu, len, code, txt, txt_len) - layout as in FsmTie2.decode_err_args; the PDU
   is a STORED one, the C sends  unstore (first len bytes)  *)
Definition decode_err_stored (args : list Z) : list byte * Z * list byte :=
  let n := Z.to_nat (nth 0 args 0) in
  let obj := firstn n (skipn 1 args) in
  let r := skipn (S n) args in
  let len := nth 0 r 0 in
  let code := nth 1 r 0 in
  let tn := Z.to_nat (nth 2 r 0) in
  let txt := firstn tn (skipn 3 r) in
  let tlen := nth tn (skipn 3 r) 0 in
  (unstore (firstn (Z.to_nat len) obj), code, firstn (Z.to_nat tlen) txt).

Definition ext_store (live : bool) (f : string) (args : list Z) (T : tabs) : option (world -> res (list Z * tabs)) :=
  if String.eqb f "pfx_table_add" then Some (mdo x <- pfx_op live 1 (rec_prec (arg_rec args)) T; ret ([fst x], snd x))
  else if String.eqb f "pfx_table_remove" then Some (mdo x <- pfx_op live 0 (rec_prec (arg_rec args)) T; ret ([fst x], snd x))
  else if String.eqb f "spki_table_add_entry" then Some (mdo x <- key_op live 1 (rec_krec (arg_rec args)) T; ret ([fst x], snd x))
  else if String.eqb f "spki_table_remove_entry" then Some (mdo x <- key_op live 0 (rec_krec (arg_rec args)) T; ret ([fst x], snd x))
  else if String.eqb f "rtr_send_error_pdu_from_host" then
    let '(enc, code, txt) := decode_err_stored args in
    Some (mdo r <- send_error_from_host enc code txt; ret ([r], T))
  else if String.eqb f "rtr_change_socket_state" then Some (mdo _ <- change_state (nth 0 args 0); ret ([], T))
  else None.

Fixpoint interpS (live : bool) (e : eff) (T : tabs) (w : world) {struct e} : option (res (Z * store * tabs)) :=
  match e with
  | ERet r s => Some (Ok (r, s, T) (with_sk w (store_sock s)))
  | EUndef => None
  | ECall f args s k =>
    match ext_store live f args T with
    | None => None
    | Some m =>
      match m (with_sk w (store_sock s)) with
      | Ok (rs, T') w' => interpS live (k rs (sock_store (sk w'))) T' w'
      | Exc x w' => Some (Exc x w')
      end
    end
  end.

(* a model computation as the translated function reports it: value, socket fields at the end, tables at the end *)
Definition as_effS (m : world -> res (Z * tabs)) (w : world) : res (Z * store * tabs) :=
  match m w with Ok (r, T) w' => Ok (r, sock_store (sk w'), T) w' | Exc x w' => Exc x w' end.

Lemma arg_rec_sbuf h r : arg_rec ([h] ++ sbuf r (Some 0))%list = r.
Proof.
  change ([h] ++ sbuf r (Some 0))%list with (h :: Z.of_nat (List.length r) :: r).
  unfold arg_rec. cbn [nth skipn]. rewrite Nat2Z.id. apply firstn_all.
Qed.

Lemma decode_err_stored_buf (B : list Z) len code (T : list Z) tlen :
  decode_err_stored ((Z.of_nat (List.length B) :: B) ++ [len; code] ++ (Z.of_nat (List.length T) :: T) ++ [tlen])%list =
  (unstore (firstn (Z.to_nat len) B), code, firstn (Z.to_nat tlen) T).
Proof.
  unfold decode_err_stored. cbn [app nth skipn]. rewrite Nat2Z.id.
  rewrite firstn_app, firstn_all, Nat.sub_diag. cbn [firstn]. rewrite app_nil_r.
  rewrite skipn_app, skipn_all, Nat.sub_diag. cbn [skipn app nth]. rewrite Nat2Z.id.
  rewrite firstn_app, firstn_all, Nat.sub_diag. cbn [firstn]. rewrite app_nil_r.
  rewrite app_nth2 by lia. rewrite Nat.sub_diag. reflexivity.
Qed.
Lemma decode_pdu_notext M len code tlen :
  decode_err_stored (sbuf M (Some 0) ++ [len] ++ [code] ++ [0] ++ [tlen])%list = (unstore (firstn (Z.to_nat len) M), code, []).
Proof. pose proof (decode_err_stored_buf M len code [] tlen) as H. rewrite firstn_nil in H. exact H. Qed.
Lemma decode_pdu_text M len code T tlen :
  decode_err_stored (sbuf M (Some 0) ++ [len] ++ [code] ++ sbuf T (Some 0) ++ [tlen])%list =
  (unstore (firstn (Z.to_nat len) M), code, firstn (Z.to_nat tlen) T).
Proof. exact (decode_err_stored_buf M len code T tlen). Qed.

Section Calls.
Variable live : bool.
Variables (s : store) (k : list Z -> store -> eff) (T : tabs) (w : world).
Let w0 := with_sk w (store_sock s).
Let K (c : Z) (x : Z * tabs) (w' : world) := interpS live (k [c] (sock_store (sk w'))) (snd x) w'.

Lemma iS_pfx_add h r : interpS live (ECall "pfx_table_add" ([h] ++ sbuf r (Some 0))%list s k) T w =
  xbind (pfx_op live 1 (rec_prec r) T) (fun x => K (fst x) x) w0.
Proof.
  cbn [interpS].
  change (ext_store live "pfx_table_add" ([h] ++ sbuf r (Some 0))%list T) with
    (Some (mdo x <- pfx_op live 1 (rec_prec (arg_rec ([h] ++ sbuf r (Some 0))%list)) T; ret ([fst x], snd x))).
  rewrite arg_rec_sbuf. unfold xbind, bind, ret, K. fold w0. destruct (pfx_op live 1 (rec_prec r) T w0) as [[c T'] w'|x w']; reflexivity.
Qed.
Lemma iS_pfx_remove h r : interpS live (ECall "pfx_table_remove" ([h] ++ sbuf r (Some 0))%list s k) T w =
  xbind (pfx_op live 0 (rec_prec r) T) (fun x => K (fst x) x) w0.
Proof.
  cbn [interpS].
  change (ext_store live "pfx_table_remove" ([h] ++ sbuf r (Some 0))%list T) with
    (Some (mdo x <- pfx_op live 0 (rec_prec (arg_rec ([h] ++ sbuf r (Some 0))%list)) T; ret ([fst x], snd x))).
  rewrite arg_rec_sbuf. unfold xbind, bind, ret, K. fold w0. destruct (pfx_op live 0 (rec_prec r) T w0) as [[c T'] w'|x w']; reflexivity.
Qed.
Lemma iS_key_add h r : interpS live (ECall "spki_table_add_entry" ([h] ++ sbuf r (Some 0))%list s k) T w =
  xbind (key_op live 1 (rec_krec r) T) (fun x => K (fst x) x) w0.
Proof.
  cbn [interpS].
  change (ext_store live "spki_table_add_entry" ([h] ++ sbuf r (Some 0))%list T) with
    (Some (mdo x <- key_op live 1 (rec_krec (arg_rec ([h] ++ sbuf r (Some 0))%list)) T; ret ([fst x], snd x))).
  rewrite arg_rec_sbuf. unfold xbind, bind, ret, K. fold w0. destruct (key_op live 1 (rec_krec r) T w0) as [[c T'] w'|x w']; reflexivity.
Qed.
Lemma iS_key_remove h r : interpS live (ECall "spki_table_remove_entry" ([h] ++ sbuf r (Some 0))%list s k) T w =
  xbind (key_op live 0 (rec_krec r) T) (fun x => K (fst x) x) w0.
Proof.
  cbn [interpS].
  change (ext_store live "spki_table_remove_entry" ([h] ++ sbuf r (Some 0))%list T) with
    (Some (mdo x <- key_op live 0 (rec_krec (arg_rec ([h] ++ sbuf r (Some 0))%list)) T; ret ([fst x], snd x))).
  rewrite arg_rec_sbuf. unfold xbind, bind, ret, K. fold w0. destruct (key_op live 0 (rec_krec r) T w0) as [[c T'] w'|x w']; reflexivity.
Qed.
End Calls.

Lemma iS_ret live z T w : interpS live (ERet z (sock_store (sk w))) T w = Some (Ok (z, sock_store (sk w), T) w).
Proof. cbn [interpS]. rewrite with_sk_store. reflexivity. Qed.

(* error report, then RTR_ERROR_FATAL, then return z *)
Lemma report_fatal_tie live args p code txt z T w : decode_err_stored args = (p, code, txt) ->
  interpS live (ECall "rtr_send_error_pdu_from_host" args (sock_store (sk w)) (fun _ s =>
                ECall "rtr_change_socket_state" [7] s (fun _ s => ERet z s))) T w =
  Some (as_effS (mdo _ <- send_error_from_host p code txt; mdo _ <- change_state c_RTR_ERROR_FATAL; ret (z, T)) w).
Proof.
  intros Hd. cbn [interpS].
  change (ext_store live "rtr_send_error_pdu_from_host" args T) with
    (let '(enc, code, txt) := decode_err_stored args in Some (mdo r <- send_error_from_host enc code txt; ret ([r], T))).
  rewrite Hd. cbv beta iota. rewrite with_sk_store. unfold as_effS, bind at 1 2. unfold bind at 1.
  destruct (send_error_from_host p code txt w) as [r1 w1|x w1]; [|reflexivity].
  cbv beta iota. unfold ret at 1. cbv beta iota.
  change (ext_store live "rtr_change_socket_state" [7] T) with (Some (mdo _ <- change_state 7; ret (@nil Z, T))).
  cbv beta iota. rewrite with_sk_store. unfold bind. change c_RTR_ERROR_FATAL with 7.
  destruct (change_state 7 w1) as [u w2|x w2]; [|reflexivity].
  unfold ret. cbn [interpS]. rewrite with_sk_store. reflexivity.
Qed.
(* error report, then return z (the invalid-flags branch does not change the state) *)
Lemma report_only_tie live args p code txt z T w : decode_err_stored args = (p, code, txt) ->
  interpS live (ECall "rtr_send_error_pdu_from_host" args (sock_store (sk w)) (fun _ s => ERet z s)) T w =
  Some (as_effS (mdo _ <- send_error_from_host p code txt; ret (z, T)) w).
Proof.
  intros Hd. cbn [interpS].
  change (ext_store live "rtr_send_error_pdu_from_host" args T) with
    (let '(enc, code, txt) := decode_err_stored args in Some (mdo r <- send_error_from_host enc code txt; ret ([r], T))).
  rewrite Hd. cbv beta iota. rewrite with_sk_store. unfold as_effS, bind.
  destruct (send_error_from_host p code txt w) as [r1 w1|x w1]; [|reflexivity].
  unfold ret. rewrite with_sk_store. reflexivity.
Qed.

(* ====================================================================================================== *)
(* 4. what the translated table operations read from the stored PDU                                         *)
(* ====================================================================================================== *)
Definition pdu_size (p : list byte) : Z :=
  if nthb p 1 =? c_IPV4_PREFIX then sizeof_pdu_ipv4 else if nthb p 1 =? c_IPV6_PREFIX then sizeof_pdu_ipv6 else sizeof_pdu_router_key.

Ltac facts_tac :=
  unfold stored; layout; unfold pdu_size, nthb; cbn [nth]; ev_closed;
  repeat match goal with |- _ /\ _ => split end;
  [ rewrite get_type_small;
    [reflexivity | unfold zlen; cbn [List.length]; lia
     | match goal with |- context [mbyte ?m ?j] => evl (mbyte m j) end; lia]
  | apply ld_ok_in; cbn [List.length]; lia
  | rewrite ldu1; reflexivity
  | match goal with |- context [firstn ?n ?l] => evl (firstn n l) end;
    unfold unstore, zlen; cbn [List.length]; ev_closed; layout; reflexivity ].

Lemma stored_facts_v4 p : Forall byte_ok p -> is_v4 p ->
  rtr_get_pdu_type_gen (stored p) (Some 0) = Some (nthb p 1) /\
  ld_ok (stored p) (Some 8) 1 = true /\ ldu (stored p) (Some 8) 1 = nthb p 8 /\
  unstore (firstn (Z.to_nat (pdu_size p)) (stored p)) = p.
Proof.
  intros Hb [Hty Hl]. unfold sizeof_pdu_ipv4 in Hl. explode p Hl. unfold nthb in Hty. cbn [nth] in Hty. subst. bytes Hb.
  facts_tac.
Qed.
Lemma stored_facts_v6 p : Forall byte_ok p -> is_v6 p ->
  rtr_get_pdu_type_gen (stored p) (Some 0) = Some (nthb p 1) /\
  ld_ok (stored p) (Some 8) 1 = true /\ ldu (stored p) (Some 8) 1 = nthb p 8 /\
  unstore (firstn (Z.to_nat (pdu_size p)) (stored p)) = p.
Proof.
  intros Hb [Hty Hl]. unfold sizeof_pdu_ipv6 in Hl. explode p Hl. unfold nthb in Hty. cbn [nth] in Hty. subst. bytes Hb.
  facts_tac.
Qed.
Lemma stored_facts_key p : Forall byte_ok p -> is_key p ->
  rtr_get_pdu_type_gen (stored p) (Some 0) = Some (nthb p 1) /\
  ld_ok (stored p) (Some 2) 1 = true /\ ldu (stored p) (Some 2) 1 = nthb p 2 /\
  unstore (firstn (Z.to_nat (pdu_size p)) (stored p)) = p.
Proof.
  intros Hb [Hty Hl]. unfold sizeof_pdu_router_key in Hl. explode p Hl. unfold nthb in Hty. cbn [nth] in Hty. subst. bytes Hb.
  facts_tac.
Qed.

(* ====================================================================================================== *)
(* 5. the model's operations for ONE stored PDU                                                             *)
(* ====================================================================================================== *)
(* after the table call of rtr_update_*_table: success, or the report of report_update_failure and RTR_ERROR *)
Definition after_op (is_key : bool) (p : list byte) (x : Z * tabs) : world -> res (Z * tabs) :=
  if fst x =? 0 then ret (0, snd x)
  else if fst x =? -2 then
    mdo _ <- send_error_from_host p c_DUPLICATE_ANNOUNCEMENT []; mdo _ <- change_state c_RTR_ERROR_FATAL; ret (-1, snd x)
  else mdo _ <- send_error_from_host p c_WITHDRAWAL_OF_UNKNOWN_RECORD []; mdo _ <- change_state c_RTR_ERROR_FATAL; ret (-1, snd x).
(* invalid flags: report, no state change, RTR_ERROR *)
Definition bad_flags (is_key : bool) (p : list byte) (T : tabs) : world -> res (Z * tabs) :=
  mdo _ <- send_error_from_host p c_CORRUPT_DATA (if is_key then txt_key_flags else txt_pfx_flags); ret (-1, T).

Definition update_pfx_one (live : bool) (p : list byte) (T : tabs) : world -> res (Z * tabs) :=
  let fl := pdu_flags p in
  if fl =? 1 then mdo x <- pfx_op live 1 (prec_of_pdu p) T; after_op false p x
  else if fl =? 0 then mdo x <- pfx_op live 0 (prec_of_pdu p) T; after_op false p x
  else bad_flags false p T.
Definition update_key_one (live : bool) (p : list byte) (T : tabs) : world -> res (Z * tabs) :=
  let fl := pdu_flags p in
  if fl =? 1 then mdo x <- key_op live 1 (krec_of_pdu p) T; after_op true p x
  else if fl =? 0 then mdo x <- key_op live 0 (krec_of_pdu p) T; after_op true p x
  else bad_flags true p T.
(* the inverse operation *)
Definition undo_pfx_one (live : bool) (p : list byte) (T : tabs) : world -> res (Z * tabs) :=
  let fl := pdu_flags p in
  if fl =? 1 then pfx_op live 0 (prec_of_pdu p) T
  else if fl =? 0 then pfx_op live 1 (prec_of_pdu p) T
  else ret (-1, T).
Definition undo_key_one (live : bool) (p : list byte) (T : tabs) : world -> res (Z * tabs) :=
  let fl := pdu_flags p in
  if fl =? 1 then key_op live 0 (krec_of_pdu p) T
  else if fl =? 0 then key_op live 1 (krec_of_pdu p) T
  else ret (-1, T).

(* ---------- the table calls never fail with PFX_ERROR / SPKI_ERROR under the interpretation ---------- *)
Lemma pfx_op_eq live fl r T w : exists w',
  pfx_op live fl r T w = Ok (tab_code (snd (fst (upd_pfx live fl r (fst T)))), (fst (fst (upd_pfx live fl r (fst T))), snd T)) w'.
Proof. unfold pfx_op. destruct (upd_pfx live fl r (fst T)) as [[X' c] t]. destruct live; eexists; reflexivity. Qed.
Lemma key_op_eq live fl r T w : exists w',
  key_op live fl r T w = Ok (tab_code (snd (fst (upd_key live fl r (snd T)))), (fst T, fst (fst (upd_key live fl r (snd T))))) w'.
Proof. unfold key_op. destruct (upd_key live fl r (snd T)) as [[X' c] t]. destruct live; eexists; reflexivity. Qed.
Lemma upd_pfx_code live fl r X : fl = 1 \/ fl = 0 ->
  tab_code (snd (fst (upd_pfx live fl r X))) = 0 \/ tab_code (snd (fst (upd_pfx live fl r X))) = -2 \/
  tab_code (snd (fst (upd_pfx live fl r X))) = -3.
Proof. intros [-> | ->]; unfold upd_pfx; cbn [Z.eqb Pos.eqb]; destruct (pmem r X); cbn; auto. Qed.
Lemma upd_key_code live fl r X : fl = 1 \/ fl = 0 ->
  tab_code (snd (fst (upd_key live fl r X))) = 0 \/ tab_code (snd (fst (upd_key live fl r X))) = -2 \/
  tab_code (snd (fst (upd_key live fl r X))) = -3.
Proof. intros [-> | ->]; unfold upd_key; cbn [Z.eqb Pos.eqb]; destruct (kmem r X); cbn; auto. Qed.

Theorem pfx_op_never_error live fl r T w c T' w' : fl = 1 \/ fl = 0 ->
  pfx_op live fl r T w = Ok (c, T') w' -> c = 0 \/ c = -2 \/ c = -3.
Proof.
  intros Hfl H. destruct (pfx_op_eq live fl r T w) as (w2 & E). rewrite E in H. inversion H. apply upd_pfx_code, Hfl.
Qed.
Theorem key_op_never_error live fl r T w c T' w' : fl = 1 \/ fl = 0 ->
  key_op live fl r T w = Ok (c, T') w' -> c = 0 \/ c = -2 \/ c = -3.
Proof.
  intros Hfl H. destruct (key_op_eq live fl r T w) as (w2 & E). rewrite E in H. inversion H. apply upd_key_code, Hfl.
Qed.

(* ---------- plumbing ---------- *)
Lemma as_effS_bind {A} (m : world -> res A) f w :
  as_effS (bind m f) w = match m w with Ok a w' => as_effS (f a) w' | Exc x w' => Exc x w' end.
Proof. unfold as_effS, bind. destruct (m w); reflexivity. Qed.
Lemma xbind_S {A} (m : world -> res A) F f w :
  (forall a w', m w = Ok a w' -> F a w' = Some (as_effS (f a) w')) -> xbind m F w = Some (as_effS (bind m f) w).
Proof. intros H. unfold xbind. rewrite as_effS_bind. destruct (m w) as [a w'|x w'] eqn:E; [apply H; reflexivity|reflexivity]. Qed.
Lemma as_effS_ext m1 m2 w : m1 w = m2 w -> as_effS m1 w = as_effS m2 w.
Proof. unfold as_effS. intros ->. reflexivity. Qed.
Lemma as_effS_ret z T w : as_effS (ret (z, T)) w = Ok (z, sock_store (sk w), T) w.
Proof. reflexivity. Qed.

(* the code after the table call of rtr_update_pfx_table / rtr_update_spki_table, for the three possible codes *)
Ltac after_call F4 Hc :=
  destruct Hc as [-> | [-> | ->]]; cbn [fst snd nth]; ev_closed;
  [ rewrite iS_ret; reflexivity
  | erewrite report_fatal_tie; [|rewrite decode_pdu_notext, F4; reflexivity]; reflexivity
  | erewrite report_fatal_tie; [|rewrite decode_pdu_notext, F4; reflexivity]; reflexivity ].

Theorem update_pfx_tie live h p T w : Forall byte_ok p -> is_prefix_pdu p ->
  interpS live (rtr_update_pfx_table_gen h (stored p) (Some 0) this_socket (sock_store (sk w))) T w =
  Some (as_effS (update_pfx_one live p T) w).
Proof.
  intros Hb Hp.
  destruct (pfx_record_tie p Hb Hp) as (r & Hr & Hlen & Hdec).
  assert (F : rtr_get_pdu_type_gen (stored p) (Some 0) = Some (nthb p 1) /\
              ld_ok (stored p) (Some 8) 1 = true /\ ldu (stored p) (Some 8) 1 = nthb p 8 /\
              unstore (firstn (Z.to_nat (pdu_size p)) (stored p)) = p)
    by (destruct Hp; [apply stored_facts_v4|apply stored_facts_v6]; assumption).
  destruct F as (F1 & F2 & F3 & F4). unfold pdu_size in F4.
  pose proof (ExpiryFrames.nthb_ok p 8 Hb) as Hfl. unfold ExpiryFrames.byte_ok in Hfl.
  assert (Hty : nthb p 1 = 4 \/ nthb p 1 = 6) by (destruct Hp as [[E _]|[E _]]; [left|right]; exact E).
  unfold rtr_update_pfx_table_gen. rewrite F1. cbn [eopt]. cbv zeta.
  unfold update_pfx_one, pdu_flags. cbv zeta.
  destruct Hty as [E|E]; rewrite E in *; ev_closed; cbn [orb eguard]; rewrite Hr; cbn [eopt]; ev_closed;
    rewrite F2, F3; cbn [eguard]; rewrite wraps32_small by lia;
    match type of F4 with context [if ?c then ?a else ?b] =>
      let v := eval vm_compute in (if c then a else b) in change (if c then a else b) with v in F4 end.
  all: destruct (nthb p 8 =? 1) eqn:E1; cbv iota.
  1,3: (rewrite iS_pfx_add, with_sk_store, Hdec; apply xbind_S; intros [c T'] w1 EO; cbv beta;
            pose proof (pfx_op_never_error _ _ _ _ _ _ _ _ (or_introl eq_refl) EO) as Hc; after_call F4 Hc).
  all: destruct (nthb p 8 =? 0) eqn:E0; cbv iota.
  1,3: (rewrite iS_pfx_remove, with_sk_store, Hdec; apply xbind_S; intros [c T'] w1 EO; cbv beta;
            pose proof (pfx_op_never_error _ _ _ _ _ _ _ _ (or_intror eq_refl) EO) as Hc; after_call F4 Hc).
  all: erewrite report_only_tie; [|rewrite decode_pdu_text, F4; reflexivity]; reflexivity.
Qed.

Theorem update_spki_tie live h p T w : Forall byte_ok p -> is_key p ->
  interpS live (rtr_update_spki_table_gen h (stored p) (Some 0) this_socket (sock_store (sk w))) T w =
  Some (as_effS (update_key_one live p T) w).
Proof.
  intros Hb Hp.
  destruct (key_record_tie p Hb Hp) as (r & Hr & Hlen & Hdec).
  destruct (stored_facts_key p Hb Hp) as (F1 & F2 & F3 & F4). unfold pdu_size in F4.
  pose proof (ExpiryFrames.nthb_ok p 2 Hb) as Hfl. unfold ExpiryFrames.byte_ok in Hfl.
  destruct Hp as [E _]. change c_ROUTER_KEY with 9 in E.
  unfold rtr_update_spki_table_gen. rewrite F1. cbn [eopt]. cbv zeta.
  unfold update_key_one, pdu_flags. cbv zeta.
  rewrite E in *; ev_closed; cbn [orb eguard]; rewrite Hr; cbn [eopt]; ev_closed;
    rewrite F2, F3; cbn [eguard]; rewrite wraps32_small by lia;
    match type of F4 with context [if ?c then ?a else ?b] =>
      let v := eval vm_compute in (if c then a else b) in change (if c then a else b) with v in F4 end.
  destruct (nthb p 2 =? 1) eqn:E1; cbv iota.
  1: (rewrite iS_key_add, with_sk_store, Hdec; apply xbind_S; intros [c T'] w1 EO; cbv beta;
      pose proof (key_op_never_error _ _ _ _ _ _ _ _ (or_introl eq_refl) EO) as Hc; after_call F4 Hc).
  destruct (nthb p 2 =? 0) eqn:E0; cbv iota.
  1: (rewrite iS_key_remove, with_sk_store, Hdec; apply xbind_S; intros [c T'] w1 EO; cbv beta;
      pose proof (key_op_never_error _ _ _ _ _ _ _ _ (or_intror eq_refl) EO) as Hc; after_call F4 Hc).
  erewrite report_only_tie; [|rewrite decode_pdu_text, F4; reflexivity]; reflexivity.
Qed.

(* ---------- undo ---------- *)
Lemma xbind_S0 (m : world -> res (Z * tabs)) F w :
  (forall a w', m w = Ok a w' -> F a w' = Some (Ok (fst a, sock_store (sk w'), snd a) w')) -> xbind m F w = Some (as_effS m w).
Proof.
  intros H. unfold xbind, as_effS. destruct (m w) as [[c T'] w'|x w'] eqn:E; [apply (H (c, T')); reflexivity|reflexivity].
Qed.
Ltac after_undo Hc := destruct Hc as [-> | [-> | ->]]; cbn [fst snd nth]; ev_closed; rewrite iS_ret; reflexivity.

Theorem undo_pfx_tie live h p T w : Forall byte_ok p -> is_prefix_pdu p ->
  interpS live (rtr_undo_update_pfx_table_gen h (stored p) (Some 0) this_socket (sock_store (sk w))) T w =
  Some (as_effS (undo_pfx_one live p T) w).
Proof.
  intros Hb Hp.
  destruct (pfx_record_tie p Hb Hp) as (r & Hr & Hlen & Hdec).
  assert (F : rtr_get_pdu_type_gen (stored p) (Some 0) = Some (nthb p 1) /\
              ld_ok (stored p) (Some 8) 1 = true /\ ldu (stored p) (Some 8) 1 = nthb p 8 /\
              unstore (firstn (Z.to_nat (pdu_size p)) (stored p)) = p)
    by (destruct Hp; [apply stored_facts_v4|apply stored_facts_v6]; assumption).
  destruct F as (F1 & F2 & F3 & _).
  pose proof (ExpiryFrames.nthb_ok p 8 Hb) as Hfl. unfold ExpiryFrames.byte_ok in Hfl.
  assert (Hty : nthb p 1 = 4 \/ nthb p 1 = 6) by (destruct Hp as [[E _]|[E _]]; [left|right]; exact E).
  unfold rtr_undo_update_pfx_table_gen. rewrite F1. cbn [eopt]. cbv zeta.
  unfold undo_pfx_one, pdu_flags. cbv zeta.
  destruct Hty as [E|E]; rewrite E in *; ev_closed; cbn [orb eguard]; rewrite Hr; cbn [eopt]; ev_closed;
    rewrite F2, F3; cbn [eguard]; rewrite wraps32_small by lia.
  all: destruct (nthb p 8 =? 1) eqn:E1; cbv iota.
  1,3: (rewrite iS_pfx_remove, with_sk_store, Hdec; apply xbind_S0; intros [c T'] w1 EO; cbv beta;
        pose proof (pfx_op_never_error _ _ _ _ _ _ _ _ (or_intror eq_refl) EO) as Hc; after_undo Hc).
  all: destruct (nthb p 8 =? 0) eqn:E0; cbv iota.
  1,3: (rewrite iS_pfx_add, with_sk_store, Hdec; apply xbind_S0; intros [c T'] w1 EO; cbv beta;
        pose proof (pfx_op_never_error _ _ _ _ _ _ _ _ (or_introl eq_refl) EO) as Hc; after_undo Hc).
  all: rewrite iS_ret; reflexivity.
Qed.

Theorem undo_spki_tie live h p T w : Forall byte_ok p -> is_key p ->
  interpS live (rtr_undo_update_spki_table_gen h (stored p) (Some 0) this_socket (sock_store (sk w))) T w =
  Some (as_effS (undo_key_one live p T) w).
Proof.
  intros Hb Hp.
  destruct (key_record_tie p Hb Hp) as (r & Hr & Hlen & Hdec).
  destruct (stored_facts_key p Hb Hp) as (F1 & F2 & F3 & _).
  pose proof (ExpiryFrames.nthb_ok p 2 Hb) as Hfl. unfold ExpiryFrames.byte_ok in Hfl.
  destruct Hp as [E _]. change c_ROUTER_KEY with 9 in E.
  unfold rtr_undo_update_spki_table_gen. rewrite F1. cbn [eopt]. cbv zeta.
  unfold undo_key_one, pdu_flags. cbv zeta.
  rewrite E in *; ev_closed; cbn [orb eguard]; rewrite Hr; cbn [eopt]; ev_closed;
    rewrite F2, F3; cbn [eguard]; rewrite wraps32_small by lia.
  destruct (nthb p 2 =? 1) eqn:E1; cbv iota.
  1: (rewrite iS_key_remove, with_sk_store, Hdec; apply xbind_S0; intros [c T'] w1 EO; cbv beta;
      pose proof (key_op_never_error _ _ _ _ _ _ _ _ (or_intror eq_refl) EO) as Hc; after_undo Hc).
  destruct (nthb p 2 =? 0) eqn:E0; cbv iota.
  1: (rewrite iS_key_add, with_sk_store, Hdec; apply xbind_S0; intros [c T'] w1 EO; cbv beta;
      pose proof (key_op_never_error _ _ _ _ _ _ _ _ (or_introl eq_refl) EO) as Hc; after_undo Hc).
  rewrite iS_ret; reflexivity.
Qed.

(* ====================================================================================================== *)
(* 6. the one-PDU operations above ARE the model's: upd_pfx / upd_key (inside pfx_op / key_op, by definition) and       *)
(*    report_update_failure                                                                                 *)
(* ====================================================================================================== *)
Lemma after_op_report k p c T w : c = -2 \/ c = -3 ->
  after_op k p (c, T) w = (mdo _ <- report_update_failure p (if c =? -2 then 1 else 2) k; ret (-1, T)) w.
Proof.
  intros [-> | ->]; unfold after_op, report_update_failure, bind; cbn [fst snd].
  - change (-2 =? 0) with false. change (-2 =? -2) with true. cbv iota. change (1 =? 3) with false. change (1 =? 1) with true. cbv beta iota.
    destruct (send_error_from_host p c_DUPLICATE_ANNOUNCEMENT [] w) as [a w1|x w1]; [|reflexivity].
    destruct (change_state c_RTR_ERROR_FATAL w1); reflexivity.
  - change (-3 =? 0) with false. change (-3 =? -2) with false. cbv iota. change (2 =? 3) with false. change (2 =? 1) with false. cbv beta iota.
    destruct (send_error_from_host p c_WITHDRAWAL_OF_UNKNOWN_RECORD [] w) as [a w1|x w1]; [|reflexivity].
    destruct (change_state c_RTR_ERROR_FATAL w1); reflexivity.
Qed.
Lemma bad_flags_report k p T w : bad_flags k p T w = (mdo _ <- report_update_failure p 3 k; ret (-1, T)) w.
Proof.
  unfold bad_flags, report_update_failure, bind. change (3 =? 3) with true. cbv beta iota.
  destruct (send_error_from_host p c_CORRUPT_DATA (if k then txt_key_flags else txt_pfx_flags) w); reflexivity.
Qed.

(* result code of the model (1 duplicate, 2 unknown withdrawal) from the C's (-2, -3) *)
Definition model_after (k : bool) (p : list byte) (x : Z * tabs) : world -> res (Z * tabs) :=
  if fst x =? 0 then ret (0, snd x)
  else mdo _ <- report_update_failure p (if fst x =? -2 then 1 else 2) k; ret (-1, snd x).
Definition model_update_pfx (live : bool) (p : list byte) (T : tabs) : world -> res (Z * tabs) :=
  let fl := pdu_flags p in
  if fl =? 1 then mdo x <- pfx_op live 1 (prec_of_pdu p) T; model_after false p x
  else if fl =? 0 then mdo x <- pfx_op live 0 (prec_of_pdu p) T; model_after false p x
  else mdo _ <- report_update_failure p 3 false; ret (-1, T).
Definition model_update_key (live : bool) (p : list byte) (T : tabs) : world -> res (Z * tabs) :=
  let fl := pdu_flags p in
  if fl =? 1 then mdo x <- key_op live 1 (krec_of_pdu p) T; model_after true p x
  else if fl =? 0 then mdo x <- key_op live 0 (krec_of_pdu p) T; model_after true p x
  else mdo _ <- report_update_failure p 3 true; ret (-1, T).

Lemma bind_ext_ok {A B} (m : world -> res A) (f g : A -> world -> res B) w :
  (forall a w', m w = Ok a w' -> f a w' = g a w') -> bind m f w = bind m g w.
Proof. intros H. unfold bind. destruct (m w) as [a w'|x w'] eqn:E; [apply H; reflexivity|reflexivity]. Qed.
Lemma after_model k p c T w : c = 0 \/ c = -2 \/ c = -3 -> after_op k p (c, T) w = model_after k p (c, T) w.
Proof.
  intros [-> | Hc]; [reflexivity|]. rewrite after_op_report by exact Hc.
  unfold model_after. cbn [fst snd]. destruct Hc as [-> | ->]; reflexivity.
Qed.

Theorem update_pfx_one_model live p T w : update_pfx_one live p T w = model_update_pfx live p T w.
Proof.
  unfold update_pfx_one, model_update_pfx. cbv zeta.
  destruct (pdu_flags p =? 1).
  { apply bind_ext_ok. intros [c T'] w' E. apply after_model. exact (pfx_op_never_error _ _ _ _ _ _ _ _ (or_introl eq_refl) E). }
  destruct (pdu_flags p =? 0).
  { apply bind_ext_ok. intros [c T'] w' E. apply after_model. exact (pfx_op_never_error _ _ _ _ _ _ _ _ (or_intror eq_refl) E). }
  apply bad_flags_report.
Qed.
Theorem update_key_one_model live p T w : update_key_one live p T w = model_update_key live p T w.
Proof.
  unfold update_key_one, model_update_key. cbv zeta.
  destruct (pdu_flags p =? 1).
  { apply bind_ext_ok. intros [c T'] w' E. apply after_model. exact (key_op_never_error _ _ _ _ _ _ _ _ (or_introl eq_refl) E). }
  destruct (pdu_flags p =? 0).
  { apply bind_ext_ok. intros [c T'] w' E. apply after_model. exact (key_op_never_error _ _ _ _ _ _ _ _ (or_intror eq_refl) E). }
  apply bad_flags_report.
Qed.

(* undo of an applied PDU (flags 0 or 1) = the table operation with the inverted flag, as undo_pfx / undo_keys do *)
Theorem undo_pfx_one_model live p T w : pdu_flags p = 1 \/ pdu_flags p = 0 ->
  undo_pfx_one live p T w = pfx_op live (1 - pdu_flags p) (prec_of_pdu p) T w.
Proof. intros [E | E]; unfold undo_pfx_one; rewrite E; reflexivity. Qed.
Theorem undo_key_one_model live p T w : pdu_flags p = 1 \/ pdu_flags p = 0 ->
  undo_key_one live p T w = key_op live (1 - pdu_flags p) (krec_of_pdu p) T w.
Proof. intros [E | E]; unfold undo_key_one; rewrite E; reflexivity. Qed.

(* ====================================================================================================== *)
(* 7. examples on concrete PDUs (closed terms, evaluated inside Coq)                                         *)
(* ====================================================================================================== *)
Definition ex_w : world := mkW (mkSock c_RTR_SYNC 1 7 false 42 0 3600 7200 600 0 true false) [] [] [] [] [] 1000 [].
(* 10.1.2.0/24-24 AS 65000: announce, withdraw, flags = 2 *)
Definition p4 (flags : Z) : list byte := [1; 4; 0; 0; 0; 0; 0; 20; flags; 24; 24; 0; 10; 1; 2; 0; 0; 0; 253; 232].
(* 2001:db8::/32-48 AS 65001 *)
Definition p6 (flags : Z) : list byte :=
  [1; 6; 0; 0; 0; 0; 0; 32; flags; 32; 48; 0; 32; 1; 13; 184; 0; 0; 0; 0; 0; 0; 0; 0; 0; 0; 0; 0; 0; 0; 253; 233].
(* Router Key: SKI 1..20, AS 65002, SPKI 100..190 *)
Definition pk (flags : Z) : list byte :=
  ([1; 9; flags; 0; 0; 0; 0; 123] ++ map Z.of_nat (seq 1 20) ++ [0; 0; 253; 234] ++ map Z.of_nat (seq 100 91))%list.
Definition run_c (e : eff) (T : tabs) (w : world) : option (res (Z * tabs)) :=
  match interpS true e T w with
  | Some (Ok (r, _, T') w') => Some (Ok (r, T') w')
  | Some (Exc x w') => Some (Exc x w')
  | None => None
  end.

Example ex_stored_v4 : stored (p4 1) = [1; 4; 0; 0; 20; 0; 0; 0; 1; 24; 24; 0; 0; 2; 1; 10; 232; 253; 0; 0].
Proof. vm_compute. reflexivity. Qed.
Example ex_record_v4 :
  option_map rec_prec (rtr_prefix_pdu_2_pfx_record_gen (stored (p4 1)) (zeros sizeof_pfx_record) this_socket (Some 0) (Some 0) 4) =
  Some (prec_of_pdu (p4 1)) /\
  prec_of_pdu (p4 1) = (false, bits32 167838208, 24, 24, 65000, 1).
Proof. vm_compute. split; reflexivity. Qed.
Example ex_record_v6 :
  option_map rec_prec (rtr_prefix_pdu_2_pfx_record_gen (stored (p6 1)) (zeros sizeof_pfx_record) this_socket (Some 0) (Some 0) 6) =
  Some (prec_of_pdu (p6 1)) /\
  prec_of_pdu (p6 1) = (true, (bits32 536939960 ++ bits32 0 ++ bits32 0 ++ bits32 0)%list, 32, 48, 65001, 1).
Proof. vm_compute. split; reflexivity. Qed.
Example ex_record_key :
  option_map rec_krec (rtr_key_pdu_2_spki_record_gen (stored (pk 1)) (zeros sizeof_spki_record) this_socket (Some 0) (Some 0) 9) =
  Some (krec_of_pdu (pk 1)) /\
  krec_of_pdu (pk 1) = (65002, map Z.of_nat (seq 1 20), map Z.of_nat (seq 100 91), 1).
Proof. vm_compute. split; reflexivity. Qed.

(* announce into the empty live table: added, callback, RTR_SUCCESS *)
Example ex_v4_announce :
  run_c (rtr_update_pfx_table_gen 0 (stored (p4 1)) (Some 0) this_socket (sock_store (sk ex_w))) ([], []) ex_w =
  Some (update_pfx_one true (p4 1) ([], []) ex_w) /\
  exists w', update_pfx_one true (p4 1) ([], []) ex_w = Ok (0, ([prec_of_pdu (p4 1)], [])) w' /\
             pfx w' = [prec_of_pdu (p4 1)] /\ out w' = [TPfx true (prec_of_pdu (p4 1))].
Proof. split; [vm_compute; reflexivity|]. eexists. split; [vm_compute; reflexivity|]. vm_compute. split; reflexivity. Qed.
(* the same announcement again: Duplicate Announcement (code 7) with the 20 bytes as received, RTR_ERROR_FATAL, RTR_ERROR *)
Example ex_v4_duplicate :
  let T := ([prec_of_pdu (p4 1)], @nil krec) in
  run_c (rtr_update_pfx_table_gen 0 (stored (p4 1)) (Some 0) this_socket (sock_store (sk ex_w))) T ex_w =
  Some (update_pfx_one true (p4 1) T ex_w) /\
  exists w', update_pfx_one true (p4 1) T ex_w = Ok (-1, T) w' /\ st (sk w') = c_RTR_ERROR_FATAL /\
             out w' = [TState c_RTR_ERROR_FATAL; TSend ([1; 10; 0; 7; 0; 0; 0; 36; 0; 0; 0; 20] ++ p4 1 ++ [0; 0; 0; 0])%list].
Proof. split; [vm_compute; reflexivity|]. eexists. split; [vm_compute; reflexivity|]. vm_compute. split; reflexivity. Qed.
(* withdrawal from the empty table: Withdrawal of Unknown Record (code 6) *)
Example ex_v4_withdraw_unknown :
  run_c (rtr_update_pfx_table_gen 0 (stored (p4 0)) (Some 0) this_socket (sock_store (sk ex_w))) ([], []) ex_w =
  Some (update_pfx_one true (p4 0) ([], []) ex_w) /\
  exists w', update_pfx_one true (p4 0) ([], []) ex_w = Ok (-1, ([], [])) w' /\ st (sk w') = c_RTR_ERROR_FATAL /\
             out w' = [TState c_RTR_ERROR_FATAL; TSend ([1; 10; 0; 6; 0; 0; 0; 36; 0; 0; 0; 20] ++ p4 0 ++ [0; 0; 0; 0])%list].
Proof. split; [vm_compute; reflexivity|]. eexists. split; [vm_compute; reflexivity|]. vm_compute. split; reflexivity. Qed.
(* flags = 2: Corrupt Data (code 0) with the PDU and the text; the state does NOT change *)
Example ex_v4_bad_flags :
  run_c (rtr_update_pfx_table_gen 0 (stored (p4 2)) (Some 0) this_socket (sock_store (sk ex_w))) ([], []) ex_w =
  Some (update_pfx_one true (p4 2) ([], []) ex_w) /\
  exists w', update_pfx_one true (p4 2) ([], []) ex_w = Ok (-1, ([], [])) w' /\ st (sk w') = c_RTR_SYNC /\
             out w' = [TSend ([1; 10; 0; 0; 0; 0; 0; 81; 0; 0; 0; 20] ++ p4 2 ++ [0; 0; 0; 45] ++ txt_pfx_flags)%list].
Proof. split; [vm_compute; reflexivity|]. eexists. split; [vm_compute; reflexivity|]. vm_compute. split; reflexivity. Qed.
(* IPv6 announce into a shadow table (not live): no callback, the world's tables untouched *)
Example ex_v6_announce_shadow :
  interpS false (rtr_update_pfx_table_gen 0 (stored (p6 1)) (Some 0) this_socket (sock_store (sk ex_w))) ([], []) ex_w =
  Some (as_effS (update_pfx_one false (p6 1) ([], [])) ex_w) /\
  update_pfx_one false (p6 1) ([], []) ex_w = Ok (0, ([prec_of_pdu (p6 1)], [])) ex_w.
Proof. split; vm_compute; reflexivity. Qed.
(* Router Key announce, then its undo: the table is empty again, two callbacks *)
Example ex_key_announce_undo :
  run_c (rtr_update_spki_table_gen 0 (stored (pk 1)) (Some 0) this_socket (sock_store (sk ex_w))) ([], []) ex_w =
  Some (update_key_one true (pk 1) ([], []) ex_w) /\
  exists w1, update_key_one true (pk 1) ([], []) ex_w = Ok (0, ([], [krec_of_pdu (pk 1)])) w1 /\
    run_c (rtr_undo_update_spki_table_gen 0 (stored (pk 1)) (Some 0) this_socket (sock_store (sk w1))) ([], [krec_of_pdu (pk 1)]) w1 =
    Some (undo_key_one true (pk 1) ([], [krec_of_pdu (pk 1)]) w1) /\
    exists w2, undo_key_one true (pk 1) ([], [krec_of_pdu (pk 1)]) w1 = Ok (0, ([], [])) w2 /\ keys w2 = [] /\
               out w2 = [TKey false (krec_of_pdu (pk 1)); TKey true (krec_of_pdu (pk 1))].
Proof.
  split; [vm_compute; reflexivity|]. eexists. split; [vm_compute; reflexivity|]. split; [vm_compute; reflexivity|].
  eexists. split; [vm_compute; reflexivity|]. vm_compute. split; reflexivity.
Qed.
(* Router Key with flags = 3 *)
Example ex_key_bad_flags :
  run_c (rtr_update_spki_table_gen 0 (stored (pk 3)) (Some 0) this_socket (sock_store (sk ex_w))) ([], []) ex_w =
  Some (update_key_one true (pk 3) ([], []) ex_w) /\
  exists w', update_key_one true (pk 3) ([], []) ex_w = Ok (-1, ([], [])) w' /\
             out w' = [TSend ([1; 10; 0; 0; 0; 0; 0; 188; 0; 0; 0; 123] ++ pk 3 ++ [0; 0; 0; 49] ++ txt_key_flags)%list].
Proof. split; [vm_compute; reflexivity|]. eexists. split; [vm_compute; reflexivity|]. vm_compute. reflexivity. Qed.
(* undo of a withdrawal = add *)
Example ex_v4_undo_withdraw :
  run_c (rtr_undo_update_pfx_table_gen 0 (stored (p4 0)) (Some 0) this_socket (sock_store (sk ex_w))) ([], []) ex_w =
  Some (undo_pfx_one true (p4 0) ([], []) ex_w) /\
  exists w', undo_pfx_one true (p4 0) ([], []) ex_w = Ok (0, ([prec_of_pdu (p4 0)], [])) w' /\ pfx w' = [prec_of_pdu (p4 0)].
Proof. split; [vm_compute; reflexivity|]. eexists. split; [vm_compute; reflexivity|]. vm_compute. reflexivity. Qed.

Example no_store_translator_problems : store_translator_problems = []. Proof. reflexivity. Qed.

Print Assumptions pfx_record_tie.
Print Assumptions key_record_tie.
Print Assumptions update_pfx_tie.
Print Assumptions update_spki_tie.
Print Assumptions undo_pfx_tie.
Print Assumptions undo_spki_tie.
Print Assumptions pfx_op_never_error.
Print Assumptions key_op_never_error.
Print Assumptions update_pfx_one_model.
Print Assumptions update_key_one_model.
Print Assumptions undo_pfx_one_model.
Print Assumptions undo_key_one_model.
Print Assumptions ex_v4_duplicate.
Print Assumptions ex_key_announce_undo.
