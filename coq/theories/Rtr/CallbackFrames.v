(* CallbackFrames.v - C09 for cache-driven histories, part 1: everything below process_eod / purge / stop emits no
   update callback and leaves both tables alone (relation N), pushed through the model functions with the
   relational logic of RelFrame.v. *)
From RtrV Require Import Base.CSem Gen.Generated Rtr.RtrModel Rtr.RelFrame Rtr.ExpiryTac.
Local Open Scope Z_scope.

Definition is_cb (t : titem) : bool := match t with TPfx _ _ | TKey _ _ => true | _ => false end.
(* the update callbacks in a trace (the trace is kept newest first) *)
Definition cbs (l : list titem) : list titem := filter is_cb l.

Lemma cbs_app a b : cbs (a ++ b) = cbs a ++ cbs b. Proof. apply filter_app. Qed.

Definition N (w w' : world) : Prop := cbs (out w') = cbs (out w) /\ pfx w' = pfx w /\ keys w' = keys w.
Lemma N_refl w : N w w. Proof. unfold N; auto. Qed.
Lemma N_trans a b c : N a b -> N b c -> N a c.
Proof. unfold N. intros (A1 & A2 & A3) (B1 & B2 & B3). repeat split; congruence. Qed.
Notation relN := (rel N).
Ltac nstep := rstep N N_refl N_trans.
Ltac nfin := unfold N; sk_simpl; cbn [cbs filter is_cb]; auto.
Ltac nprim := unfold rel; unfold_prims; nfin.
Ltac nIH IH := match goal with
  | |- relN (tr_recv_all_loop _ _ _ _) _ => apply IH
  | |- relN (tr_send_all_loop _ _ _) _ => apply IH
  | |- relN (sync_first _) _ => apply IH end.

Lemma tr_recv_evs_nocb es : forall len timeout left t r es' t' tr,
  tr_recv_evs es len timeout left t = (r, es', t', tr) -> cbs tr = [].
Proof.
  induction es as [|e es IH]; intros len timeout left t r es' t' tr H; cbn [tr_recv_evs] in H.
  - inversion H; reflexivity.
  - destruct e as [b|c|v|].
    + destruct b as [|x b]; [eapply IH; exact H|]. inversion H; reflexivity.
    + inversion H; reflexivity.
    + destruct (v <=? left); [eapply IH; exact H|inversion H; reflexivity].
    + inversion H; reflexivity.
Qed.

Lemma change_state_N ns w : relN (change_state ns) w.
Proof. unfold change_state. repeat nstep; try nprim. Qed.
Lemma tr_recv_N len t w : relN (tr_recv len t) w.
Proof.
  unfold rel, tr_recv. destruct (tr_recv_evs _ _ _ _ _) as [[[[[c|b]|] es] t'] tr] eqn:E; try destruct (c =? -99); nfin;
    rewrite ?cbs_app, (tr_recv_evs_nocb _ _ _ _ _ _ _ _ _ E); auto.
Qed.
Ltac nlem1 := match goal with
  | |- relN (change_state _) _ => apply change_state_N
  | |- relN (tr_recv _ _) _ => apply tr_recv_N end.
Lemma tr_recv_all_loop_N fuel : forall len e acc w, relN (tr_recv_all_loop fuel len e acc) w.
Proof.
  induction fuel as [|f IH]; intros; cbn [tr_recv_all_loop]; [apply (rel_ret N N_refl)|].
  repeat nstep; try nlem1; try nIH IH.
Qed.
Lemma tr_recv_all_N len t w : relN (tr_recv_all len t) w.
Proof. unfold tr_recv_all. repeat nstep. apply tr_recv_all_loop_N. Qed.
Lemma tr_send_N b w : relN (tr_send b) w.
Proof. unfold rel, tr_send. destruct (sends w); destruct (_ <? 0); nfin. Qed.
Lemma tr_send_all_loop_N fuel : forall b tot w, relN (tr_send_all_loop fuel b tot) w.
Proof.
  induction fuel as [|f IH]; intros; cbn [tr_send_all_loop]; [apply (rel_ret N N_refl)|].
  repeat nstep; try apply tr_send_N; try nIH IH.
Qed.
Lemma send_pdu_N b w : relN (send_pdu b) w.
Proof. unfold send_pdu, tr_send_all. repeat nstep; try apply tr_send_all_loop_N. Qed.
Lemma send_error_pdu_N enc c t w : relN (send_error_pdu enc c t) w.
Proof. unfold send_error_pdu. repeat nstep; try apply send_pdu_N. Qed.
Lemma send_error_from_host_N enc c t w : relN (send_error_from_host enc c t) w.
Proof. unfold send_error_from_host. repeat nstep; try apply send_error_pdu_N. Qed.
Ltac nlem2 := match goal with
  | |- relN (tr_recv_all _ _) _ => apply tr_recv_all_N
  | |- relN (send_pdu _) _ => apply send_pdu_N
  | |- relN (send_error_pdu _ _ _) _ => apply send_error_pdu_N
  | |- relN (send_error_from_host _ _ _) _ => apply send_error_from_host_N
  | _ => nlem1 end.
Lemma send_serial_query_N w : relN send_serial_query w.
Proof. unfold send_serial_query. repeat nstep; try nlem2. Qed.
Lemma send_reset_query_N w : relN send_reset_query w.
Proof. unfold send_reset_query. repeat nstep; try nlem2. Qed.
Lemma recv_err_N c w : relN (recv_err c) w.
Proof. unfold recv_err. repeat nstep; try nlem2. Qed.
Lemma tr_open_N w : relN tr_open w.
Proof. unfold rel, tr_open. destruct (opens w); nfin. Qed.
Ltac nlem3 := match goal with
  | |- relN (send_serial_query) _ => apply send_serial_query_N
  | |- relN (send_reset_query) _ => apply send_reset_query_N
  | |- relN (recv_err _) _ => apply recv_err_N
  | |- relN (tr_open) _ => apply tr_open_N
  | _ => nlem2 end.
Lemma receive_pdu_N t w : relN (receive_pdu t) w.
Proof.
  unfold receive_pdu. repeat nstep; try nlem3. all: try (nprim; fail).
  all: try (unfold rel; unfold_prims; repeat match goal with |- context [if ?c then _ else _] => destruct c eqn:? end; nfin).
Qed.
Lemma handle_error_pdu_N p w : relN (handle_error_pdu p) w.
Proof. unfold handle_error_pdu. repeat nstep; try nlem3; try nprim. Qed.
Lemma report_update_failure_N p c k w : relN (report_update_failure p c k) w.
Proof. unfold report_update_failure. repeat nstep; try nlem3. Qed.
Ltac nlem := match goal with
  | |- relN (receive_pdu _) _ => apply receive_pdu_N
  | |- relN (handle_error_pdu _) _ => apply handle_error_pdu_N
  | |- relN (report_update_failure _ _ _) _ => apply report_update_failure_N
  | _ => nlem3 end.
Lemma sync_first_N fuel : forall w, relN (sync_first fuel) w.
Proof.
  induction fuel as [|f IH]; intros; cbn [sync_first]; [apply (rel_ret N N_refl)|].
  repeat nstep; try nlem; try nIH IH; try nprim.
Qed.
Lemma wait_for_sync_N w : relN wait_for_sync w.
Proof. unfold wait_for_sync. repeat nstep; try nlem. Qed.
Lemma dump_N tag w : relN (dump tag) w.
Proof. unfold rel, dump. unfold_prims. nfin. Qed.
