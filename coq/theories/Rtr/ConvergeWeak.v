(* ConvergeWeak.v - C08: the two exchange theorems of Rtr/ConvergeProofs.v under the part of the invariant they use.
   In the closed loop (run_with_cache) the cache's answer is put in front of the receive script.  The invariant Inv
   contains env_ok (every scripted byte is in [0,256)), which cache_ok does not promise for the data PDUs of the
   cache; the exchange theorems never use that conjunct, so they are restated here for
     WInv w :  duplicate-free tables, last_update = 0 -> no records of this socket, req_sess = false -> not resetting
   which depends only on the socket and the tables and is therefore untouched by what is put on the receive script.
   The proofs are those of good_reset_exchange / good_serial_exchange with the first line changed. *)
From Coq Require Import Permutation.
From RtrV Require Import Base.CSem Gen.Generated Rtr.RtrModel Rtr.RelFrame Rtr.ExpiryTac Rtr.SyncSets Rtr.ExpiryFrames
  Rtr.ExpirySync Rtr.ConvergeStutter Rtr.ExpiryProofs Rtr.CacheSpec Rtr.ConvergeRecv Rtr.ConvergeProofs.
Local Open Scope Z_scope.

Definition WInv (w : world) : Prop :=
  NoDup (pfx w) /\ NoDup (keys w) /\ (last_update (sk w) = 0 -> no_data w) /\
  (req_sess (sk w) = false -> resetting (sk w) = false).

Lemma Inv_WInv w : Inv w -> WInv w.
Proof.
  intros ((_ & _ & _ & _ & _ & T6) & HP & HK & HD).
  unfold WInv. split; [exact HP|]. split; [exact HK|]. split; [exact HD|exact T6].
Qed.

(* WInv speaks about the socket and the tables only *)
Lemma WInv_same w w' : sk w' = sk w -> pfx w' = pfx w -> keys w' = keys w -> WInv w -> WInv w'.
Proof. unfold WInv, no_data. intros -> -> ->. auto. Qed.

Lemma WInv_core w w' : core (sk w') = core (sk w) -> pfx w' = pfx w -> keys w' = keys w -> WInv w -> WInv w'.
Proof.
  intros Hc HP HK (A & B & C & D). destruct (core_fields _ _ Hc) as (_ & _ & F3 & _ & F5 & F6 & _).
  unfold WInv, no_data in *. rewrite HP, HK, F3, F5, F6. auto.
Qed.

Theorem good_reset_exchange_w f w c B tail :
  WInv w -> st (sk w) = c_RTR_SYNC -> req_sess (sk w) = true -> version (sk w) = c_ver c -> cache_ok c ->
  delivers (evs w) (concat (answer c QReset) ++ B) tail -> (List.length (c_data c) < f)%nat ->
  exists w', fsm_step (S f) w = Ok tt w' /\ st (sk w') = c_RTR_ESTABLISHED /\
    Permutation (own_p (pfx w')) (precs (c_data c)) /\ Permutation (own_k (keys w')) (krecs (c_data c)) /\
    oth_p (pfx w') = oth_p (pfx w) /\ oth_k (keys w') = oth_k (keys w) /\
    session_id (sk w') = c_session c /\ serial (sk w') = c_serial c /\ req_sess (sk w') = false /\
    last_update (sk w') = now w /\ now w' = now w /\ delivers (evs w') B tail /\ opens w' = opens w /\ sends w' = sends w.
Proof.
  intros HI Hst Hq Hv (Cv & Cs & Cn & Cd & _ & Ce & _) Hd Hf.
  destruct (cache_response_ok c Cv Cs) as (R1 & R2 & R3).
  destruct (eod_fields c Cs Cn) as (E1 & E2 & E3).
  destruct (dataset_parts _ _ Cd) as (D1 & D2 & D3 & D4 & D5 & D6).
  rewrite concat_answer_reset in Hd. rewrite app_nil_r, <- !app_assoc in Hd.
  set (P0 := if reset_mode w then oth_p (pfx w) else pfx w).
  set (K0 := if reset_mode w then oth_k (keys w) else keys w).
  destruct HI as (HnP & HnK & HD & Ht).
  assert (Hmode : reset_mode w = false -> no_data w).
  { unfold reset_mode. rewrite Hq. destruct (last_update (sk w) =? 0) eqn:El; cbn [negb]; [|discriminate].
    intros _. apply HD. apply Z.eqb_eq, El. }
  assert (HoP : own_p P0 = []) by (subst P0; destruct (reset_mode w); [apply own_oth_p|apply Hmode; reflexivity]).
  assert (HoK : own_k K0 = []) by (subst K0; destruct (reset_mode w); [apply own_oth_k|apply Hmode; reflexivity]).
  assert (HnP0 : NoDup P0) by (subst P0; destruct (reset_mode w); [apply NoDup_oth_p|]; exact HnP).
  assert (HnK0 : NoDup K0) by (subst K0; destruct (reset_mode w); [apply NoDup_oth_k|]; exact HnK).
  destruct (wd_all_announce prec prec_of_pdu _ D2) as (W1 & W2 & W3).
  destruct (wd_all_announce krec krec_of_pdu _ D3) as (X1 & X2 & X3).
  destruct (response_applies prec prec_eqb prec_eqb_eq prec_of_pdu psrc psrc_of_pdu P0 [] _ HnP0 (own_nil_iff psrc P0 HoP) W3 D4)
    as (AP & NP & OP & MP); [rewrite W1; intros r []|intros r _ []|].
  destruct (response_applies krec krec_eqb krec_eqb_eq krec_of_pdu ksrc ksrc_of_pdu K0 [] _ HnK0 (own_nil_iff ksrc K0 HoK) X3 D5)
    as (AK & NK & OK & MK); [rewrite X1; intros r []|intros r _ []|].
  assert (Hds : Forall (payload_ok (version (sk w))) (c_data c)) by (rewrite Hv; exact D1).
  destruct (exchange_core f w (cache_response_pdu c) (c_data c) (eod_pdu c) B tail Hst ltac:(rewrite Hv; exact Cv)
              ltac:(rewrite Hv; exact R1) R2 Hds ltac:(rewrite Hv; exact Ce) E1 ltac:(rewrite E2, R3; reflexivity)
              (or_introl Hq) Hd Hf AP AK)
    as (w' & Es & S1 & S2 & S3 & S4 & S5 & S6 & S7 & S8 & S9 & S10 & S11 & S12 & S13).
  exists w'. split; [exact Es|]. split; [exact S1|].
  fold P0 in S2. fold K0 in S3.
  split.
  { apply NoDup_Permutation; [rewrite S2; exact NP|apply Cd|].
    intros x. rewrite S2. unfold own_p. rewrite MP, W2, <- D6. cbn [In]. tauto. }
  split.
  { apply NoDup_Permutation; [rewrite S3; exact NK|apply Cd|].
    intros x. rewrite S3. unfold own_k. rewrite MK, X2. cbn [In]. unfold krecs. tauto. }
  split; [rewrite S2; unfold oth_p; rewrite OP; subst P0; destruct (reset_mode w); [apply oth_oth_p|reflexivity]|].
  split; [rewrite S3; unfold oth_k; rewrite OK; subst K0; destruct (reset_mode w); [apply oth_oth_k|reflexivity]|].
  rewrite S4, S5, R3, E3. auto 10.
Qed.

Theorem good_serial_exchange_w f w c old B tail :
  WInv w -> st (sk w) = c_RTR_SYNC -> req_sess (sk w) = false -> version (sk w) = c_ver c -> cache_ok c ->
  session_id (sk w) = c_session c -> lookup (serial (sk w)) (c_hist c) = Some old -> snapshot c w old ->
  delivers (evs w) (concat (answer c (QSerial (session_id (sk w)) (serial (sk w)))) ++ B) tail ->
  (List.length (delta_pdus old (c_data c)) < f)%nat ->
  exists w', fsm_step (S f) w = Ok tt w' /\ st (sk w') = c_RTR_ESTABLISHED /\
    Permutation (own_p (pfx w')) (precs (c_data c)) /\ Permutation (own_k (keys w')) (krecs (c_data c)) /\
    oth_p (pfx w') = oth_p (pfx w) /\ oth_k (keys w') = oth_k (keys w) /\
    session_id (sk w') = c_session c /\ serial (sk w') = c_serial c /\ req_sess (sk w') = false /\
    last_update (sk w') = now w /\ now w' = now w /\ delivers (evs w') B tail /\ opens w' = opens w /\ sends w' = sends w.
Proof.
  intros HI Hst Hq Hv (Cv & Cs & Cn & Cd & Ch & Ce & _) Hsess Hlk (SnP & SnK) Hd Hf.
  destruct (cache_response_ok c Cv Cs) as (R1 & R2 & R3).
  destruct (eod_fields c Cs Cn) as (E1 & E2 & E3).
  assert (Cold : dataset_ok (c_ver c) old).
  { apply lookup_In in Hlk. rewrite Forall_forall in Ch. apply (Ch _ Hlk). }
  destruct Cold as (Of & Op & Ok). destruct Cd as (Nf & Np & Nk).
  unfold answer in Hd. rewrite Hsess, Z.eqb_refl, Hlk in Hd. rewrite concat_answer_delta, app_nil_r, <- !app_assoc in Hd.
  set (ds := delta_pdus old (c_data c)) in *.
  pose proof (delta_payload_ok _ _ _ Of Nf) as Hds. fold ds in Hds.
  destruct HI as (HnP & HnK & HD & Ht).
  assert (Hres : resetting (sk w) = false) by (apply Ht, Hq).
  assert (Hmode : reset_mode w = false) by (unfold reset_mode; rewrite Hq; exact Hres).
  (* the two tables *)
  assert (WF : forall p, payload_ok (c_ver c) p ->
             is_key (withdraw p) = is_key p /\ (is_key p = false -> prec_of_pdu (withdraw p) = prec_of_pdu p) /\
             (is_key p = true -> krec_of_pdu (withdraw p) = krec_of_pdu p)).
  { intros p Hp. destruct (withdraw_facts _ _ Hp) as (_ & _ & _ & _ & A & B1 & B2). auto. }
  assert (DTP := delta_table prec prec_of_pdu nk precs (fun S => eq_refl)
                   (fun p S (H : nk p = true) => in_set_prec p S (proj1 (negb_true_iff _) H)) (c_ver c)
                   (fun p Hp => f_equal negb (proj1 (WF p Hp)))
                   (fun p Hp (H : nk p = true) => proj1 (proj2 (WF p Hp)) (proj1 (negb_true_iff _) H))
                   old (c_data c) Of Nf Op Np).
  assert (DTK := delta_table krec krec_of_pdu is_key krecs (fun S => eq_refl) in_set_krec (c_ver c)
                   (fun p Hp => proj1 (WF p Hp)) (fun p Hp H => proj2 (proj2 (WF p Hp)) H)
                   old (c_data c) Of Nf Ok Nk).
  cbv zeta in DTP, DTK. fold ds in DTP, DTK.
  pose proof (split_perm _ _ Hds) as Hsp.
  destruct (table_facts_perm prec_of_pdu _ _ (precs old) (precs (c_data c)) Hsp DTP) as (PF & PN & PW & PA).
  destruct DTK as (KF & KN & KW & KA).
  assert (HoldP : forall x, In x (own prec psrc (pfx w)) <-> In x (precs old)).
  { intros x. split; intros H; [eapply Permutation_in; [exact SnP|exact H]|eapply Permutation_in; [apply Permutation_sym, SnP|exact H]]. }
  assert (HoldK : forall x, In x (own krec ksrc (keys w)) <-> In x (krecs old)).
  { intros x. split; intros H; [eapply Permutation_in; [exact SnK|exact H]|eapply Permutation_in; [apply Permutation_sym, SnK|exact H]]. }
  destruct (response_applies prec prec_eqb prec_eqb_eq prec_of_pdu psrc psrc_of_pdu (pfx w) (precs old) _ HnP HoldP PF PN)
    as (AP & NP & OP & MP); [intros r Hr; apply PW, Hr|intros r Hr; apply PA, Hr|].
  destruct (response_applies krec krec_eqb krec_eqb_eq krec_of_pdu ksrc ksrc_of_pdu (keys w) (krecs old) _ HnK HoldK KF KN)
    as (AK & NK & OK & MK); [intros r Hr; apply KW, Hr|intros r Hr; apply KA, Hr|].
  assert (AP' : applies_p (filter is_v4 ds ++ filter is_v6 ds) (if reset_mode w then oth_p (pfx w) else pfx w)) by (rewrite Hmode; exact AP).
  assert (AK' : applies_k (filter is_key ds) (if reset_mode w then oth_k (keys w) else keys w)) by (rewrite Hmode; exact AK).
  destruct (exchange_core f w (cache_response_pdu c) ds (eod_pdu c) B tail Hst ltac:(rewrite Hv; exact Cv)
              ltac:(rewrite Hv; exact R1) R2 ltac:(rewrite Hv; exact Hds) ltac:(rewrite Hv; exact Ce) E1 ltac:(rewrite E2, R3; reflexivity)
              (or_intror (eq_trans Hsess (eq_sym R3))) Hd Hf AP' AK')
    as (w' & Es & S1 & S2 & S3 & S4 & S5 & S6 & S7 & S8 & S9 & S10 & S11 & S12 & S13).
  rewrite Hmode in S2, S3.
  exists w'. split; [exact Es|]. split; [exact S1|].
  split.
  { apply NoDup_Permutation; [rewrite S2; exact NP|exact Np|].
    intros x. rewrite S2. unfold own_p. rewrite MP. split.
    - intros [[H1 H2]|H]; [|apply PA, H]. destruct (In_dec_prec x (precs (c_data c))) as [Hi|Hi]; [exact Hi|].
      exfalso. apply H2, PW. auto.
    - intros H. destruct (In_dec_prec x (precs old)) as [Hi|Hi]; [left; split; [exact Hi|intros Hw; apply PW in Hw; tauto]|right; apply PA; auto]. }
  split.
  { apply NoDup_Permutation; [rewrite S3; exact NK|exact Nk|].
    intros x. rewrite S3. unfold own_k. rewrite MK. split.
    - intros [[H1 H2]|H]; [|apply KA, H]. destruct (In_dec_krec x (krecs (c_data c))) as [Hi|Hi]; [exact Hi|].
      exfalso. apply H2, KW. auto.
    - intros H. destruct (In_dec_krec x (krecs old)) as [Hi|Hi]; [left; split; [exact Hi|intros Hw; apply KW in Hw; tauto]|right; apply KA; auto]. }
  split; [rewrite S2; exact OP|]. split; [rewrite S3; exact OK|].
  rewrite S4, S5, R3, E3. auto 10.
Qed.
