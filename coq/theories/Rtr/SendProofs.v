(* SendProofs.v - C14, whole model: whatever the environment does (receive script, open results,
   partial writes and send errors), everything the model hands to the transport is a sequence of
   send attempts, each for ONE well-formed PDU carrying the socket's protocol version at that time;
   a complete attempt hands over exactly that PDU, a failed one a proper prefix of it.
   Proved as a relation on the trace for all model functions, in the style of VersionProofs.v.
   The relation also carries M (the receive script only shrinks), which gives fuel independence of
   whole runs. *)
From RtrV Require Import Base.CSem Gen.Generated Rtr.RtrModel Rtr.RelFrame Rtr.RecvBase Rtr.SendBase Rtr.RecvProofs.
Local Open Scope Z_scope.

Notation length := List.length.

(* ---------- the trace discipline ---------- *)
(* [sent_ok hi lo l]: the trace segment l (oldest first) consists of non-send items and send attempts;
   every attempt is for a well-formed PDU whose version byte is v mod 256 for some v, and these v
   never increase along the segment, starting at most at hi and ending at least at lo. *)
Inductive sent_ok : Z -> Z -> list titem -> Prop :=
| so_nil hi lo : lo <= hi -> sent_ok hi lo []
| so_other hi lo x r : is_send x = false -> sent_ok hi lo r -> sent_ok hi lo (x :: r)
| so_group hi lo v b c g r : v <= hi -> wf_pdu (v mod 256) b -> attempt b c g -> sent_ok v lo r -> sent_ok hi lo (g ++ r).

Lemma sent_ok_le hi lo l : sent_ok hi lo l -> lo <= hi.
Proof. induction 1. all: lia. Qed.
Lemma sent_ok_hi hi hi' lo l : hi <= hi' -> sent_ok hi lo l -> sent_ok hi' lo l.
Proof.
  intros Hh H. revert hi' Hh. induction H; intros hi' Hh.
  - apply so_nil. lia.
  - apply so_other; auto.
  - apply (so_group hi' lo v b c g r); [lia|assumption|assumption|assumption].
Qed.
Lemma sent_ok_app a b c l1 l2 : sent_ok a b l1 -> sent_ok b c l2 -> sent_ok a c (l1 ++ l2).
Proof.
  intros H1 H2. induction H1.
  - cbn. eapply sent_ok_hi; eauto.
  - cbn. apply so_other; auto.
  - rewrite <- app_assoc. eapply so_group; [eassumption|eassumption|eassumption|auto].
Qed.
Lemma sent_ok_nosend hi lo l : nosend l -> lo <= hi -> sent_ok hi lo l.
Proof. induction 1; intros; [now apply so_nil|apply so_other; auto]. Qed.
Lemma sent_ok_one v lo b c g : lo <= v -> wf_pdu (v mod 256) b -> attempt b c g -> sent_ok v lo g.
Proof. intros. rewrite <- (app_nil_r g). apply (so_group v lo v b c g []); [lia|assumption|assumption|apply so_nil; assumption]. Qed.

Definition S (w w' : world) : Prop :=
  M w w' /\ exists items, out w' = rev items ++ out w /\ sent_ok (version (sk w)) (version (sk w')) items.

Lemma S_refl w : S w w.
Proof. split; [apply M_refl|]. exists []. split; [reflexivity|apply so_nil; lia]. Qed.
Lemma S_trans a b c : S a b -> S b c -> S a c.
Proof.
  intros (M1 & i1 & O1 & K1) (M2 & i2 & O2 & K2). split; [eapply M_trans; eauto|].
  exists (i1 ++ i2). split; [rewrite O2, O1, rev_app_distr, app_assoc; reflexivity|eapply sent_ok_app; eauto].
Qed.
Lemma S_intro w w' items :
  M w w' -> out w' = rev items ++ out w -> nosend items -> version (sk w') <= version (sk w) -> S w w'.
Proof. intros Hm Ho Hn Hv. split; [exact Hm|]. exists items. split; [exact Ho|now apply sent_ok_nosend]. Qed.

Notation relS := (rel S).
Ltac sbind := apply (rel_bind S S_trans).
Ltac vred := cbn [sk version upd_st upd_version upd_session upd_req upd_serial upd_last upd_ivs upd_hasrecv upd_resetting].
Ltac nosend_tac :=
  repeat first [ apply nosend_nil | apply nosend_map_pfx | apply nosend_map_key | assumption
               | apply nosend_cons; [reflexivity|] | apply nosend_app | apply nosend_rev ].
(* primitive steps: the new trace items are none, one, or the list given to emit_all *)
Ltac sprim :=
  unfold rel; unfold_prims;
  first [ apply (S_intro _ _ []); [mfin | reflexivity | nosend_tac | vred; try lia]
        | eapply (S_intro _ _ [_]); [mfin | reflexivity | nosend_tac | vred; try lia]
        | eapply S_intro; [mfin | cbn [out]; reflexivity | nosend_tac | vred; try lia] ].
Ltac sstep :=
  match goal with
  | |- relS (ret _) _ => apply (rel_ret S S_refl)
  | |- relS (bind get_sk _) ?w => sbind; [sprim | let H := fresh "Heq" in intros ? ? H; unfold_prims_in H; injection H as <- <-]
  | |- relS (bind get_now _) ?w => sbind; [sprim | let H := fresh "Heq" in intros ? ? H; unfold_prims_in H; injection H as <- <-]
  | |- relS (bind get_w _) ?w => sbind; [sprim | let H := fresh "Heq" in intros ? ? H; unfold_prims_in H; injection H as <- <-]
  | |- relS (bind _ _) ?w => sbind; [ | intros ? ? ?Heq]
  | |- relS (if ?c then _ else _) _ => destruct c eqn:?
  | |- relS (match ?x with _ => _ end) _ => destruct x eqn:?
  | |- relS ((fun _ => _) _) _ => cbv beta
  | |- relS (let _ := _ in _) _ => cbv zeta
  end.

(* ---------- leaves ---------- *)
Lemma change_state_S ns w : relS (change_state ns) w.
Proof.
  unfold rel. rewrite change_state_eq. destruct (_ || _); [apply S_refl|].
  apply (S_intro _ _ [TState ns]); [mfin|reflexivity|nosend_tac|vred; lia].
Qed.

Lemma tr_recv_evs_nosend es : forall len tmo left t r es' t' tr,
  tr_recv_evs es len tmo left t = (r, es', t', tr) -> nosend tr.
Proof.
  induction es as [|e es IH]; intros len tmo left t r es' t' tr H; cbn [tr_recv_evs] in H.
  - injection H as _ _ _ <-. nosend_tac.
  - destruct e as [d|c|v|].
    + destruct d; [eapply IH; eauto|]. injection H as _ _ _ <-. nosend_tac.
    + injection H as _ _ _ <-. nosend_tac.
    + destruct (v <=? left); [eapply IH; eauto|]. injection H as _ _ _ <-. nosend_tac.
    + injection H as _ _ _ <-. nosend_tac.
Qed.

Lemma tr_recv_S len t w : relS (tr_recv len t) w.
Proof.
  unfold rel. pose proof (tr_recv_bytes len t w) as Hm. unfold tr_recv in *.
  destruct (tr_recv_evs (evs w) len t (Z.max 0 t) (now w)) as [[[r es] t'] tr] eqn:E.
  apply tr_recv_evs_nosend in E.
  destruct r as [[c|b]|].
  - destruct (c =? -99); (apply (S_intro _ _ (rev tr)); [exact Hm|cbn [out]; now rewrite rev_involutive|nosend_tac|vred; lia]).
  - apply (S_intro _ _ (rev tr)); [unfold M in *; cbn [evs] in *; lia|cbn [out]; now rewrite rev_involutive|nosend_tac|vred; lia].
  - apply (S_intro _ _ (rev tr ++ [TEnd 1])); [exact Hm|cbn [out]; rewrite rev_app_distr, rev_involutive; reflexivity|nosend_tac|vred; lia].
Qed.

Lemma tr_recv_all_loop_S fuel : forall len e acc w, relS (tr_recv_all_loop fuel len e acc) w.
Proof.
  induction fuel as [|f IH]; intros; cbn [tr_recv_all_loop]; [apply (rel_ret S S_refl)|].
  repeat sstep; try apply tr_recv_S; try apply IH.
Qed.
Lemma tr_recv_all_S len t w : relS (tr_recv_all len t) w.
Proof. unfold tr_recv_all. repeat sstep. apply tr_recv_all_loop_S. Qed.

(* one PDU handed to send_pdu = one send attempt (or nothing at all when the socket is shut down) *)
Lemma send_pdu_S b w : wf_pdu (version (sk w) mod 256) b -> relS (send_pdu b) w.
Proof.
  intros Hwf. unfold rel.
  destruct (Z.eq_dec (st (sk w)) c_RTR_SHUTDOWN) as [Hs|Hs].
  - rewrite send_pdu_shut by exact Hs. apply S_refl.
  - assert (Hne : b <> []) by (destruct Hwf as (H8 & _); destruct b; [rewrite zlen_nil in H8; lia|discriminate]).
    pose proof (send_pdu_spec b w Hne Hs) as H. destruct (send_pdu b w) as [r w'|]; [|contradiction].
    destruct H as (Hfr & g & c & Hout & Ha & _). split; [now apply frame_send_M|].
    exists g. split; [exact Hout|]. destruct Hfr as (Hsk & _). rewrite Hsk.
    eapply sent_ok_one; eauto. lia.
Qed.

Lemma send_error_pdu_S enc code text w : rep_ok enc text -> relS (send_error_pdu enc code text) w.
Proof.
  intros Hok. unfold send_error_pdu. repeat sstep.
  apply send_pdu_S. apply (error_report_wf (version (sk w)) code enc text Hok).
Qed.

Lemma rep_ok_nil enc text : rep_ok enc text -> rep_ok [] text.
Proof. unfold rep_ok. rewrite zlen_nil. pose proof (zlen_nonneg enc). lia. Qed.

Lemma send_error_from_host_S enc code text w : rep_ok enc text -> relS (send_error_from_host enc code text) w.
Proof.
  intros Hok. unfold send_error_from_host. repeat sstep; apply send_error_pdu_S; auto. eapply rep_ok_nil; eauto.
Qed.

Lemma send_serial_query_S w : relS send_serial_query w.
Proof. unfold send_serial_query. repeat sstep; try apply change_state_S. apply send_pdu_S, serial_query_wf. Qed.
Lemma send_reset_query_S w : relS send_reset_query w.
Proof. unfold send_reset_query. repeat sstep; try apply change_state_S. apply send_pdu_S, reset_query_wf. Qed.

Lemma recv_err_S c w : relS (recv_err c) w.
Proof. unfold recv_err. repeat sstep; apply change_state_S. Qed.

Lemma tr_open_S w : relS tr_open w.
Proof.
  unfold rel, tr_open. destruct (opens w).
  - apply (S_intro _ _ [TEnd 2]); [mfin|reflexivity|nosend_tac|vred; lia].
  - apply (S_intro _ _ [TOpen b (now w)]); [mfin|reflexivity|nosend_tac|vred; lia].
Qed.

(* the fixed texts *)
Lemma len_too_small : zlen txt_too_small = 56. Proof. reflexivity. Qed.
Lemma len_too_big : zlen txt_too_big = 42. Proof. reflexivity. Qed.
Lemma len_pfx_flags : zlen txt_pfx_flags = 45. Proof. reflexivity. Qed.
Lemma len_key_flags : zlen txt_key_flags = 49. Proof. reflexivity. Qed.
Lemma len_pfx_len : zlen txt_pfx_len = 72. Proof. reflexivity. Qed.
Lemma len_unexp_store : zlen txt_unexp_store = 52. Proof. reflexivity. Qed.
Lemma len_unexp_sync : zlen txt_unexp_sync = 48. Proof. reflexivity. Qed.
Lemma len_wrong_session : zlen txt_wrong_session = 39. Proof. reflexivity. Qed.

Lemma dec_digits_len fuel : forall v acc, (length (dec_digits fuel v acc) <= fuel + length acc)%nat.
Proof.
  induction fuel as [|f IH]; intros v acc; cbn [dec_digits]; [lia|].
  destruct (v / 10 =? 0); [cbn [length]; lia|]. specialize (IH (v / 10) ((48 + v mod 10) :: acc)). cbn [length] in IH. lia.
Qed.
Lemma len_eod_session a b : zlen (txt_eod_session a b) <= 81.
Proof.
  unfold txt_eod_session, zlen. rewrite !app_length.
  pose proof (dec_digits_len 12 a []). pose proof (dec_digits_len 12 b []). unfold dec.
  change (length (str_bytes "Expected session_id: ")) with 21%nat.
  change (length (str_bytes ", received session_id. ")) with 23%nat.
  change (length (str_bytes " in EOD PDU")) with 11%nat. cbn [length] in *. lia.
Qed.

Ltac rep_tac :=
  unfold rep_ok; change c_RTR_MAX_PDU_LEN with 3248;
  rewrite ?len_too_small, ?len_too_big, ?len_pfx_flags, ?len_key_flags, ?len_pfx_len, ?len_unexp_store, ?len_unexp_sync,
          ?len_wrong_session, ?zlen_nil;
  try lia.

Theorem receive_pdu_S t w : relS (receive_pdu t) w.
Proof.
  unfold receive_pdu.
  sstep. sstep; [sstep|]. sstep; [apply tr_recv_all_S|].
  pose proof (tr_recv_all_spec 8 t w ltac:(lia)) as H8. rewrite Heq in H8.
  destruct a as [c|h]; [apply recv_err_S|]. destruct H8 as [Hh _].
  repeat sstep; try apply recv_err_S; try apply change_state_S; try apply tr_recv_all_S;
    try (apply send_error_pdu_S; rep_tac); try (sprim; fail).
  (* the live downgrade: version 1 -> 0 only *)
  all: unfold rel; unfold_prims;
       repeat match goal with |- context [if ?c then _ else _] => destruct c eqn:? end;
       (apply (S_intro _ _ []); [mfin|reflexivity|nosend_tac|vred]);
       repeat match goal with H : _ && _ = true |- _ => apply andb_true_iff in H as [? ?] end;
       repeat match goal with H : (_ =? _) = true |- _ => apply Z.eqb_eq in H end; lia.
Qed.

Lemma handle_error_pdu_S p w : relS (handle_error_pdu p) w.
Proof.
  unfold handle_error_pdu. repeat sstep; try apply change_state_S.
  unfold rel; unfold_prims. apply (S_intro _ _ []); [mfin|reflexivity|nosend_tac|vred].
  repeat match goal with H : _ && _ = true |- _ => apply andb_true_iff in H as [? ?] end.
  repeat match goal with H : (_ <? _) = true |- _ => apply Z.ltb_lt in H end. lia.
Qed.

Definition small (p : list byte) : Prop := zlen p <= 123.

Lemma small_rep_ok p text : small p -> zlen text <= 100 -> rep_ok p text.
Proof. unfold small, rep_ok. change c_RTR_MAX_PDU_LEN with 3248. lia. Qed.

Lemma report_update_failure_S p c k w : small p -> relS (report_update_failure p c k) w.
Proof.
  intros Hs. unfold report_update_failure. destruct k.
  all: repeat sstep; try apply change_state_S; apply send_error_from_host_S; apply small_rep_ok; auto;
    rewrite ?len_pfx_flags, ?len_key_flags, ?zlen_nil; lia.
Qed.

Lemma src_remove_all_S w : relS src_remove_all w.
Proof. unfold src_remove_all. repeat sstep; try sprim. Qed.
Lemma purge_after_failed_undo_S w : relS purge_after_failed_undo w.
Proof. unfold purge_after_failed_undo. repeat sstep; try apply src_remove_all_S; try sprim. Qed.

(* traces of the table updates contain no send items; a failing update names a PDU of the list *)
Lemma upd_pfx_nosend live f r X : nosend (snd (upd_pfx live f r X)).
Proof. unfold upd_pfx. repeat match goal with |- context [if ?c then _ else _] => destruct c end; cbn [snd]; nosend_tac. Qed.
Lemma upd_key_nosend live f r X : nosend (snd (upd_key live f r X)).
Proof. unfold upd_key. repeat match goal with |- context [if ?c then _ else _] => destruct c end; cbn [snd]; nosend_tac. Qed.

Lemma apply_pfx_facts live ps : forall X done X' t f,
  apply_pfx live ps X done = (X', t, f) ->
  nosend t /\ match f with Some (bad, _, _) => In bad ps | None => True end.
Proof.
  induction ps as [|p ps IH]; intros X done X' t f H; cbn [apply_pfx] in H.
  - injection H as _ <- <-. split; [nosend_tac|exact I].
  - pose proof (upd_pfx_nosend live (pdu_flags p) (prec_of_pdu p) X) as Hn.
    destruct (upd_pfx live (pdu_flags p) (prec_of_pdu p) X) as [[X1 c] t1]. cbn [snd] in Hn.
    destruct (c =? 0).
    + destruct (apply_pfx live ps X1 (p :: done)) as [[X2 t2] f2] eqn:E. injection H as _ <- <-.
      apply IH in E. destruct E as [Hn2 Hf]. split; [nosend_tac|]. destruct f2 as [[[bad ?] ?]|]; [now right|exact I].
    + injection H as _ <- <-. split; [nosend_tac|now left].
Qed.
Lemma apply_keys_facts live ps : forall X done X' t f,
  apply_keys live ps X done = (X', t, f) ->
  nosend t /\ match f with Some (bad, _, _) => In bad ps | None => True end.
Proof.
  induction ps as [|p ps IH]; intros X done X' t f H; cbn [apply_keys] in H.
  - injection H as _ <- <-. split; [nosend_tac|exact I].
  - pose proof (upd_key_nosend live (pdu_flags p) (krec_of_pdu p) X) as Hn.
    destruct (upd_key live (pdu_flags p) (krec_of_pdu p) X) as [[X1 c] t1]. cbn [snd] in Hn.
    destruct (c =? 0).
    + destruct (apply_keys live ps X1 (p :: done)) as [[X2 t2] f2] eqn:E. injection H as _ <- <-.
      apply IH in E. destruct E as [Hn2 Hf]. split; [nosend_tac|]. destruct f2 as [[[bad ?] ?]|]; [now right|exact I].
    + injection H as _ <- <-. split; [nosend_tac|now left].
Qed.
Lemma undo_pfx_nosend live done : forall X X' t ok, undo_pfx live done X = (X', t, ok) -> nosend t.
Proof.
  induction done as [|p done IH]; intros X X' t ok H; cbn [undo_pfx] in H.
  - injection H as _ <- _. nosend_tac.
  - pose proof (upd_pfx_nosend live (1 - pdu_flags p) (prec_of_pdu p) X) as Hn.
    destruct (upd_pfx live (1 - pdu_flags p) (prec_of_pdu p) X) as [[X1 c] t1]. cbn [snd] in Hn.
    destruct (c =? 0).
    + destruct (undo_pfx live done X1) as [[X2 t2] ok2] eqn:E. injection H as _ <- _. apply IH in E. nosend_tac.
    + injection H as _ <- _. nosend_tac.
Qed.
Lemma undo_keys_nosend live done : forall X X' t ok, undo_keys live done X = (X', t, ok) -> nosend t.
Proof.
  induction done as [|p done IH]; intros X X' t ok H; cbn [undo_keys] in H.
  - injection H as _ <- _. nosend_tac.
  - pose proof (upd_key_nosend live (1 - pdu_flags p) (krec_of_pdu p) X) as Hn.
    destruct (upd_key live (1 - pdu_flags p) (krec_of_pdu p) X) as [[X1 c] t1]. cbn [snd] in Hn.
    destruct (c =? 0).
    + destruct (undo_keys live done X1) as [[X2 t2] ok2] eqn:E. injection H as _ <- _. apply IH in E. nosend_tac.
    + injection H as _ <- _. nosend_tac.
Qed.

Lemma apply_eod_intervals_version s p : version (apply_eod_intervals s p) = version s.
Proof. unfold apply_eod_intervals. destruct (_ && _); reflexivity. Qed.

(* hypotheses about the traces of the pure table functions, brought into the context by [sstep]'s destructs *)
Ltac trace_facts :=
  repeat match goal with
  | H : apply_pfx _ _ _ _ = (_, _, _) |- _ => apply apply_pfx_facts in H; destruct H as [? ?]
  | H : apply_keys _ _ _ _ = (_, _, _) |- _ => apply apply_keys_facts in H; destruct H as [? ?]
  | H : undo_pfx _ _ _ = (_, _, _) |- _ => apply undo_pfx_nosend in H
  | H : undo_keys _ _ _ = (_, _, _) |- _ => apply undo_keys_nosend in H
  | H : (if ?b then _ else _) = (_, _, _) |- _ => destruct b
  | H : (_, @nil titem, _) = (_, _, _) |- _ => inversion H; subst; clear H
  end.

Lemma Forall_small_in l bad : Forall small l -> In bad l -> small bad.
Proof. intros H Hi. rewrite Forall_forall in H. now apply H. Qed.

(* lemma dispatch by syntactic head (never [try apply] a lemma on a goal with another head) *)
Ltac slem0 :=
  match goal with
  | |- relS (change_state _) _ => apply change_state_S
  | |- relS (purge_after_failed_undo) _ => apply purge_after_failed_undo_S
  | |- relS (src_remove_all) _ => apply src_remove_all_S
  | |- relS (tr_recv_all _ _) _ => apply tr_recv_all_S
  | |- relS (recv_err _) _ => apply recv_err_S
  | |- relS (receive_pdu _) _ => apply receive_pdu_S
  | |- relS (handle_error_pdu _) _ => apply handle_error_pdu_S
  | |- relS (send_serial_query) _ => apply send_serial_query_S
  | |- relS (send_reset_query) _ => apply send_reset_query_S
  | |- relS (tr_open) _ => apply tr_open_S
  end.

Theorem process_eod_S p v4 v6 ks w :
  small p -> Forall small v4 -> Forall small v6 -> Forall small ks -> relS (process_eod p v4 v6 ks) w.
Proof.
  intros Hp H4 H6 Hk. unfold process_eod.
  repeat sstep. all: subst; trace_facts. all: try slem0.
  all: try match goal with |- relS (report_update_failure _ _ _) _ =>
         apply report_update_failure_S;
         first [eapply Forall_small_in; [exact H4|eassumption] | eapply Forall_small_in; [exact H6|eassumption]
               | eapply Forall_small_in; [exact Hk|eassumption]] end.
  all: try match goal with |- relS (send_error_from_host _ _ _) _ =>
         apply send_error_from_host_S; apply small_rep_ok; [exact Hp|pose proof (len_eod_session (session_id (sk w)) (get16 p 2)); lia] end.
  all: sprim; rewrite ?apply_eod_intervals_version; lia.
Qed.

Lemma Forall_small_snoc l p : Forall small l -> small p -> Forall small (l ++ [p]).
Proof. intros. apply Forall_app. split; [assumption|now constructor]. Qed.

Lemma pdu_ok_is_small p : pdu_ok p -> (nthb p 1 =? c_ERROR) = false -> small p.
Proof. intros Hok He. apply Z.eqb_neq in He. unfold small. now apply pdu_ok_small. Qed.

Lemma firstn8_rep_ok (p text : list byte) : zlen text <= 100 -> rep_ok (firstn 8 p) text.
Proof. intros. unfold rep_ok. pose proof (zlen_firstn_le p 8). change c_RTR_MAX_PDU_LEN with 3248. lia. Qed.

Theorem store_loop_S fuel : forall v4 v6 ks w,
  Forall small v4 -> Forall small v6 -> Forall small ks -> relS (store_loop fuel v4 v6 ks) w.
Proof.
  induction fuel as [|f IH]; intros v4 v6 ks w H4 H6 Hk; cbn [store_loop]; [apply (rel_ret S S_refl)|].
  sstep; [apply receive_pdu_S|].
  destruct a as [c|p]; [repeat sstep; slem0|].
  apply receive_pdu_ok in Heq.
  assert (Hsm : (nthb p 1 =? c_ERROR) = false -> small p) by (apply pdu_ok_is_small; exact Heq).
  repeat sstep. all: try slem0.
  all: try match goal with |- relS (store_loop _ _ _ _) _ => apply IH; auto; apply Forall_small_snoc; auto; apply Hsm end.
  all: try match goal with |- relS (process_eod _ _ _ _) _ => apply process_eod_S; auto; apply Hsm end.
  all: try match goal with |- relS (send_error_from_host (firstn 8 _) _ _) _ =>
             apply send_error_from_host_S; apply firstn8_rep_ok; rewrite ?len_unexp_store; lia end.
  all: try match goal with |- relS (send_error_from_host _ _ _) _ =>
             apply send_error_from_host_S; apply small_rep_ok; [apply Hsm|rewrite ?len_pfx_len; lia] end.
  (* the type tests in the context decide that the PDU is not an Error Report *)
  all: repeat match goal with H : (_ || _) && _ = true |- _ => apply andb_true_iff in H; destruct H as [H _] end;
       repeat match goal with H : _ || _ = true |- _ => apply orb_true_iff in H; destruct H as [H|H] end;
       repeat match goal with H : (nthb _ 1 =? _) = true |- _ => apply Z.eqb_eq in H; rewrite H end; reflexivity.
Qed.

Lemma receive_and_store_S fuel w : relS (receive_and_store fuel) w.
Proof.
  unfold receive_and_store. repeat sstep.
  - apply store_loop_S; constructor.
  - sprim. destruct (resetting _); vred; lia.
Qed.

Lemma sync_first_S fuel : forall w, relS (sync_first fuel) w.
Proof.
  induction fuel as [|f IH]; intros; cbn [sync_first]; [apply (rel_ret S S_refl)|].
  repeat sstep. all: try slem0. all: try apply IH.
  unfold rel; unfold_prims. apply (S_intro _ _ []); [mfin|reflexivity|nosend_tac|vred; lia].
Qed.

Theorem rtr_sync_S fuel w : relS (rtr_sync fuel) w.
Proof.
  unfold rtr_sync. repeat sstep. all: try slem0.
  all: try match goal with |- relS (sync_first _) _ => apply sync_first_S end.
  all: try match goal with |- relS (receive_and_store _) _ => apply receive_and_store_S end.
  all: try match goal with |- relS (send_error_from_host (firstn 8 _) _ _) _ =>
             apply send_error_from_host_S; apply firstn8_rep_ok; rewrite ?len_unexp_sync; lia end.
  all: try match goal with |- relS (send_error_from_host [] _ _) _ =>
             apply send_error_from_host_S; rep_tac end.
  all: try (sprim; fail).
  all: unfold rel; unfold_prims; destruct (negb _); (apply (S_intro _ _ []); [mfin|reflexivity|nosend_tac|vred; lia]).
Qed.

Lemma wait_for_sync_S w : relS wait_for_sync w.
Proof. unfold wait_for_sync. repeat sstep. all: slem0. Qed.

Lemma purge_outdated_S w : relS purge_outdated w.
Proof. unfold purge_outdated. repeat sstep. all: try slem0. all: sprim. Qed.

Theorem fsm_step_S fuel w : relS (fsm_step fuel) w.
Proof.
  unfold fsm_step. repeat sstep. all: try slem0.
  all: try match goal with |- relS (purge_outdated) _ => apply purge_outdated_S end.
  all: try match goal with |- relS (rtr_sync _) _ => apply rtr_sync_S end.
  all: try match goal with |- relS (wait_for_sync) _ => apply wait_for_sync_S end.
  all: sprim.
Qed.

Lemma rtr_stop_S w : relS rtr_stop w.
Proof. unfold rtr_stop. repeat sstep. all: try slem0. all: sprim. Qed.
Lemma dump_S tag w : relS (dump tag) w.
Proof. unfold rel, dump. sprim. Qed.

Theorem run_fsm_S n fuel : forall w, S w (run_fsm n fuel w).
Proof.
  induction n as [|n IH]; intros w; cbn [run_fsm]; [apply S_refl|].
  pose proof (fsm_step_S fuel w) as H. unfold rel in H.
  destruct (fsm_step fuel w) as [[] w'|[why|] w'].
  - eapply S_trans; [exact H|apply IH].
  - exact H.
  - assert (Hs : relS (mdo _ <- rtr_stop; mdo _ <- dump 1; modify_sk (fun s => upd_st s c_RTR_CONNECTING)) w').
    { repeat sstep; [apply rtr_stop_S|apply dump_S|sprim]. }
    unfold rel in Hs.
    destruct ((mdo _ <- rtr_stop; mdo _ <- dump 1; modify_sk (fun s => upd_st s c_RTR_CONNECTING)) w') as [[] w2|e w2].
    + eapply S_trans; [exact H|]. eapply S_trans; [exact Hs|apply IH].
    + eapply S_trans; eauto.
Qed.

(* ---------- whole runs ---------- *)
From RtrV Require Import Rtr.VersionProofs.

(* the bytes handed to the transport, forgetting how they were split into writes *)
Inductive sent_stream (hi lo : Z) : list byte -> Prop :=
| ss_nil : sent_stream hi lo []
| ss_pdu v b rest : lo <= v <= hi -> wf_pdu (v mod 256) b -> sent_stream hi lo rest -> sent_stream hi lo (b ++ rest)
| ss_trunc v b pre missing rest : lo <= v <= hi -> wf_pdu (v mod 256) b -> b = pre ++ missing -> missing <> [] ->
    sent_stream hi lo rest -> sent_stream hi lo (pre ++ rest).

Lemma sent_stream_mono hi hi' lo l : hi <= hi' -> sent_stream hi lo l -> sent_stream hi' lo l.
Proof.
  intros Hh H. induction H.
  - constructor.
  - apply (ss_pdu hi' lo v); [lia|assumption|assumption].
  - apply (ss_trunc hi' lo v b pre missing); [lia|assumption|assumption|assumption|assumption].
Qed.

Theorem sent_ok_stream hi lo l : sent_ok hi lo l -> sent_stream hi lo (sent_of l).
Proof.
  induction 1 as [hi lo Hl|hi lo x r Hx H IH|hi lo v b c g r Hv Hwf Ha H IH].
  - constructor.
  - destruct x; try discriminate; exact IH.
  - rewrite sent_of_app. pose proof (sent_ok_le _ _ _ H) as Hlo.
    apply (sent_stream_mono v hi) in IH; [|exact Hv].
    destruct (attempt_sent _ _ _ Ha) as (rest & Hb & Hc & Hf). destruct c.
    + rewrite (Hc eq_refl), app_nil_r in Hb. rewrite <- Hb. apply (ss_pdu hi lo v); [lia|assumption|assumption].
    + apply (ss_trunc hi lo v b (sent_of g) rest); [lia|assumption|assumption|auto|assumption].
Qed.

Lemma dump_out tag w : exists d, (match dump tag w with Ok _ w' => w' | Exc _ w' => w' end) =
  mkW (sk w) (pfx w) (keys w) (evs w) (opens w) (sends w) (now w) (d :: out w) /\ is_send d = false.
Proof. unfold dump, emit. eexists. split; reflexivity. Qed.

(* C14 (3): every run of the whole model, for every environment *)
Theorem run_script_sent n fuel refresh expire retry mode P K es os ss :
  exists lo, 0 <= lo <= c_RTR_PROTOCOL_MAX_SUPPORTED_VERSION /\
    sent_ok c_RTR_PROTOCOL_MAX_SUPPORTED_VERSION lo (run_script n fuel refresh expire retry mode P K es os ss).
Proof.
  unfold run_script. destruct (negb (init_ok refresh expire retry)).
  { exists 1. split; [change c_RTR_PROTOCOL_MAX_SUPPORTED_VERSION with 1; lia|apply so_nil; change c_RTR_PROTOCOL_MAX_SUPPORTED_VERSION with 1; lia]. }
  cbv zeta.
  set (w0 := mkW (init_sock refresh expire retry mode) P K es os ss 1000 []).
  destruct (dump_out 0 w0) as (d0 & -> & Hd0). cbn [sk pfx keys evs opens sends now out].
  set (w1 := mkW (upd_st (sk w0) c_RTR_CONNECTING) (pfx w0) (keys w0) (evs w0) (opens w0) (sends w0) (now w0) (d0 :: out w0)).
  pose proof (run_fsm_S n fuel w1) as (_ & items & Hout & Hs).
  pose proof (run_fsm_V n fuel w1) as (Hv1 & Hv2).
  destruct (dump_out 2 (run_fsm n fuel w1)) as (d2 & -> & Hd2). cbn [out]. rewrite Hout.
  exists (version (sk (run_fsm n fuel w1))).
  assert (Hver : version (sk w1) = c_RTR_PROTOCOL_MAX_SUPPORTED_VERSION) by reflexivity.
  rewrite Hver in *. split; [change c_RTR_PROTOCOL_MAX_SUPPORTED_VERSION with 1 in *; lia|].
  cbn [rev out w1 w0 app]. rewrite !rev_app_distr, rev_involutive. cbn [rev app].
  apply so_other; [exact Hd0|].
  eapply sent_ok_app; [exact Hs|]. apply so_other; [exact Hd2|]. apply so_nil. lia.
Qed.

Theorem run_script_stream n fuel refresh expire retry mode P K es os ss :
  sent_stream 1 0 (sent_of (run_script n fuel refresh expire retry mode P K es os ss)).
Proof.
  destruct (run_script_sent n fuel refresh expire retry mode P K es os ss) as (lo & Hlo & H).
  apply sent_ok_stream in H. change c_RTR_PROTOCOL_MAX_SUPPORTED_VERSION with 1 in *.
  clear -H Hlo. induction H.
  - constructor.
  - apply (ss_pdu 1 0 v); [lia|assumption|assumption].
  - apply (ss_trunc 1 0 v b pre missing); [lia|assumption|assumption|assumption|assumption].
Qed.

(* fuel independence of whole runs: the receive script bounds the number of PDUs *)
Lemma fsm_step_fuel f1 f2 w : (ev_bytes (evs w) < 8 * f1)%nat -> (f1 <= f2)%nat -> fsm_step f1 w = fsm_step f2 w.
Proof.
  intros Hb Hf. unfold fsm_step. apply bind_cong2; [reflexivity|]. intros s w1 Hs. unfold get_sk in Hs. injection Hs as <- <-.
  repeat match goal with |- (if ?c then _ else _) _ = (if ?c then _ else _) _ => destruct c; try reflexivity end.
  apply bind_cong2; [|reflexivity]. now apply rtr_sync_fuel.
Qed.

Theorem run_fsm_fuel n : forall f1 f2 w, (ev_bytes (evs w) < 8 * f1)%nat -> (f1 <= f2)%nat -> run_fsm n f1 w = run_fsm n f2 w.
Proof.
  induction n as [|n IH]; intros f1 f2 w Hb Hf; [reflexivity|]. cbn [run_fsm].
  rewrite (fsm_step_fuel f1 f2 w Hb Hf).
  pose proof (fsm_step_S f2 w) as H. unfold rel in H.
  destruct (fsm_step f2 w) as [[] w'|[why|] w']; [apply IH; [destruct H as [Hm _]; unfold M in Hm; lia|exact Hf]|reflexivity|].
  assert (Hs : relS (mdo _ <- rtr_stop; mdo _ <- dump 1; modify_sk (fun s => upd_st s c_RTR_CONNECTING)) w').
  { repeat sstep; [apply rtr_stop_S|apply dump_S|sprim]. }
  unfold rel in Hs.
  destruct ((mdo _ <- rtr_stop; mdo _ <- dump 1; modify_sk (fun s => upd_st s c_RTR_CONNECTING)) w') as [[] w2|e w2]; [|reflexivity].
  apply IH; [destruct H as [Hm _]; destruct Hs as [Hm2 _]; unfold M in *; lia|exact Hf].
Qed.

Theorem run_script_fuel n f1 f2 refresh expire retry mode P K es os ss :
  (ev_bytes es < 8 * f1)%nat -> (f1 <= f2)%nat ->
  run_script n f1 refresh expire retry mode P K es os ss = run_script n f2 refresh expire retry mode P K es os ss.
Proof.
  intros Hb Hf. unfold run_script. destruct (negb (init_ok refresh expire retry)); [reflexivity|]. cbv zeta.
  set (w0 := mkW (init_sock refresh expire retry mode) P K es os ss 1000 []).
  destruct (dump_out 0 w0) as (d0 & -> & _). cbn [sk pfx keys evs opens sends now out].
  rewrite (run_fsm_fuel n f1 f2); [reflexivity|exact Hb|exact Hf].
Qed.
