(* RecvProofs.v - C04: what receive_pdu accepts, the receive-buffer discipline, rejection of
   malformed PDUs, fuel sufficiency of the PDU loops. *)
From RtrV Require Import Base.CSem Gen.Generated Rtr.RtrModel Rtr.RelFrame Rtr.RecvBase Rtr.SendBase.
Local Open Scope Z_scope.

Notation length := List.length.

(* ---------- bytes ---------- *)
Lemma nthb_ok (p : list byte) i : Forall byte_ok p -> byte_ok (nthb p i).
Proof.
  intros H. unfold nthb. destruct (Nat.lt_ge_cases i (length p)) as [Hi|Hi].
  - rewrite Forall_forall in H. apply H. now apply nth_In.
  - rewrite nth_overflow by lia. unfold byte_ok. lia.
Qed.
Lemma get32_bounds (p : list byte) off : Forall byte_ok p -> 0 <= get32 p off < 4294967296.
Proof.
  intros H. unfold get32, be32.
  pose proof (nthb_ok p off H). pose proof (nthb_ok p (1 + off) H).
  pose proof (nthb_ok p (2 + off) H). pose proof (nthb_ok p (3 + off) H). unfold byte_ok in *. lia.
Qed.
Lemma get16_bounds (p : list byte) off : Forall byte_ok p -> 0 <= get16 p off < 65536.
Proof.
  intros H. unfold get16, be16.
  pose proof (nthb_ok p off H). pose proof (nthb_ok p (S off) H). unfold byte_ok in *. lia.
Qed.

(* ---------- what a PDU accepted by receive_pdu satisfies ---------- *)
Definition pdu_ok (p : list byte) : Prop :=
  check_size p = true /\ zlen p = get32 p 4 /\ 8 <= zlen p <= c_RTR_MAX_PDU_LEN.

(* a computation that never yields a PDU *)
Definition never_pdu (m : world -> res (Z + list byte)) : Prop :=
  forall w r w', m w = Ok r w' -> exists c, r = inl c.
Lemma never_pdu_ret c : never_pdu (ret (inl c)).
Proof. intros w r w' H. injection H as <- _. now exists c. Qed.
Lemma never_pdu_bind {A} (m : world -> res A) f : (forall a, never_pdu (f a)) -> never_pdu (bind m f).
Proof. intros Hf w r w' H. unfold bind in H. destruct (m w) as [a w1|]; [|discriminate]. eapply Hf; eauto. Qed.
Lemma never_pdu_if (c : bool) a b : never_pdu a -> never_pdu b -> never_pdu (if c then a else b).
Proof. destruct c; auto. Qed.
Lemma recv_err_never c : never_pdu (recv_err c).
Proof.
  unfold recv_err. repeat (apply never_pdu_if); try apply never_pdu_ret; apply never_pdu_bind; intros; apply never_pdu_ret.
Qed.
Ltac npdu := repeat first [apply never_pdu_ret | apply recv_err_never | apply never_pdu_bind; intros | apply never_pdu_if].

Lemma never_pdu_elim m w p w' : never_pdu m -> m w = Ok (inr p) w' -> False.
Proof. intros Hn H. destruct (Hn _ _ _ H) as (c & Hc). discriminate. Qed.

Theorem receive_pdu_ok t w p w' : receive_pdu t w = Ok (inr p) w' -> pdu_ok p.
Proof.
  unfold receive_pdu. unfold bind at 1. unfold get_sk.
  destruct (st (sk w) =? c_RTR_SHUTDOWN); [discriminate|].
  unfold bind at 1.
  pose proof (tr_recv_all_spec 8 t w ltac:(lia)) as H8.
  destruct (tr_recv_all 8 t w) as [[c|h] w1|]; [ | |discriminate].
  { intros H. exfalso. eapply never_pdu_elim; [apply recv_err_never|exact H]. }
  destruct H8 as [Hh _].
  destruct (get32 h 4 <? 8) eqn:E1.
  { intros H. exfalso. eapply never_pdu_elim; [|exact H]. npdu. }
  destruct (get32 h 4 >? c_RTR_MAX_PDU_LEN) eqn:E2.
  { intros H. exfalso. eapply never_pdu_elim; [|exact H]. npdu. }
  apply Z.ltb_ge in E1. rewrite Z.gtb_ltb in E2. apply Z.ltb_ge in E2.
  unfold bind at 1.
  match goal with |- match ?m w1 with _ => _ end = _ -> _ => destruct (m w1) as [[] w2|]; [|discriminate] end.
  unfold bind at 1. unfold get_sk.
  match goal with |- (if ?c then _ else _) w2 = _ -> _ => destruct c end.
  { intros H. exfalso. eapply never_pdu_elim; [|exact H]. npdu. }
  unfold bind at 1.
  destruct (get32 h 4 - 8 >? 0) eqn:E3.
  - unfold bind at 1. unfold get_sk.
    destruct (st (sk w2) =? c_RTR_SHUTDOWN).
    { unfold ret at 1. intros H. exfalso. eapply never_pdu_elim; [apply recv_err_never|exact H]. }
    pose proof (tr_recv_all_spec (get32 h 4 - 8) c_RTR_RECV_TIMEOUT w2 ltac:(lia)) as Hb.
    destruct (tr_recv_all (get32 h 4 - 8) c_RTR_RECV_TIMEOUT w2) as [[c|body] w3|]; [ | |discriminate].
    { intros H. exfalso. eapply never_pdu_elim; [apply recv_err_never|exact H]. }
    destruct Hb as [Hb _].
    destruct (check_size (h ++ body)) eqn:Ec.
    + unfold ret. intros H. injection H as <- _.
      assert (Hl : (length h = 8)%nat) by (unfold zlen in Hh; lia).
      split; [exact Ec|]. rewrite zlen_app, get32_app_l by lia. split; lia.
    + intros H. exfalso. eapply never_pdu_elim; [|exact H]. npdu.
  - unfold ret at 1. rewrite Z.gtb_ltb in E3. apply Z.ltb_ge in E3.
    destruct (check_size (h ++ [])) eqn:Ec.
    + unfold ret. intros H. injection H as <- _.
      assert (Hl : (length h = 8)%nat) by (unfold zlen in Hh; lia).
      split; [exact Ec|]. rewrite zlen_app, get32_app_l by lia. rewrite zlen_nil. split; lia.
    + intros H. exfalso. eapply never_pdu_elim; [|exact H]. npdu.
Qed.

(* ---------- receive_pdu never touches the tables (frame relation, in the style of VersionProofs) ---------- *)
Definition T (w w' : world) : Prop := pfx w' = pfx w /\ keys w' = keys w.
Lemma T_refl w : T w w. Proof. now split. Qed.
Lemma T_trans a b c : T a b -> T b c -> T a c. Proof. unfold T. intros [? ?] [? ?]. split; congruence. Qed.
Notation relT := (rel T).
Ltac tfin := unfold T; cbn [pfx keys]; try (split; reflexivity).
Ltac tbind := apply (rel_bind T T_trans).
Ltac tprim := unfold rel; unfold_prims; tfin.
Ltac tstep :=
  match goal with
  | |- relT (ret _) _ => apply (rel_ret T T_refl)
  | |- relT (bind get_sk _) ?w => tbind; [tprim | let H := fresh "Heq" in intros ? ? H; unfold_prims_in H; injection H as <- <-]
  | |- relT (bind get_now _) ?w => tbind; [tprim | let H := fresh "Heq" in intros ? ? H; unfold_prims_in H; injection H as <- <-]
  | |- relT (bind _ _) ?w => tbind; [ | intros ? ? ?Heq]
  | |- relT (if ?c then _ else _) _ => destruct c eqn:?
  | |- relT (match ?x with _ => _ end) _ => destruct x eqn:?
  | |- relT ((fun _ => _) _) _ => cbv beta
  | |- relT (let _ := _ in _) _ => cbv zeta
  end.

Lemma change_state_T ns w : relT (change_state ns) w.
Proof. unfold rel. rewrite change_state_eq. destruct (_ || _); tfin. Qed.
Lemma tr_recv_T len t w : relT (tr_recv len t) w.
Proof.
  unfold rel, tr_recv. destruct (tr_recv_evs _ _ _ _ _) as [[[[[c|b]|] es] t'] tr]; try destruct (c =? -99); tfin.
Qed.
Lemma tr_recv_all_loop_T fuel : forall len e acc w, relT (tr_recv_all_loop fuel len e acc) w.
Proof.
  induction fuel as [|f IH]; intros; cbn [tr_recv_all_loop]; [apply (rel_ret T T_refl)|].
  repeat tstep; try apply tr_recv_T; try apply IH.
Qed.
Lemma tr_recv_all_T len t w : relT (tr_recv_all len t) w.
Proof. unfold tr_recv_all. repeat tstep. apply tr_recv_all_loop_T. Qed.
Lemma frame_send_T w w' : frame_send w w' -> T w w'.
Proof. intros (_ & ? & ? & _). now split. Qed.
Lemma send_pdu_T b w : relT (send_pdu b) w.
Proof.
  unfold send_pdu. repeat tstep.
  unfold rel, tr_send_all. pose proof (tr_send_all_loop_spec (length b) b 0 w (le_n _)) as H.
  destruct (tr_send_all_loop (length b) b 0 w); [|contradiction]. apply frame_send_T, H.
Qed.
Lemma send_error_pdu_T enc c t w : relT (send_error_pdu enc c t) w.
Proof. unfold send_error_pdu. repeat tstep. apply send_pdu_T. Qed.
Lemma recv_err_T c w : relT (recv_err c) w.
Proof. unfold recv_err. repeat tstep; apply change_state_T. Qed.

Ltac tlem :=
  match goal with
  | |- relT (change_state _) _ => apply change_state_T
  | |- relT (tr_recv_all _ _) _ => apply tr_recv_all_T
  | |- relT (send_error_pdu _ _ _) _ => apply send_error_pdu_T
  | |- relT (recv_err _) _ => apply recv_err_T
  end.

Theorem receive_pdu_T t w : relT (receive_pdu t) w.
Proof. unfold receive_pdu. repeat tstep; try tlem; try (tprim; fail). Qed.

(* ---------- rtr_pdu_check_size: what it establishes ---------- *)
Lemma check_size_cases p : check_size p = true ->
  let ty := nthb p 1 in let len := get32 p 4 in
  (ty = 0 /\ len = 12) \/ (ty = 3 /\ len = 8) \/ (ty = 4 /\ len = 20) \/ (ty = 6 /\ len = 32) \/
  (ty = 7 /\ ((nthb p 0 = 0 /\ len = 12) \/ (nthb p 0 = 1 /\ len = 24))) \/ (ty = 8 /\ len = 8) \/ (ty = 9 /\ len = 123) \/
  (ty = 10 /\ 16 <= len /\ 16 + get32 p 8 <= len /\ len = 16 + get32 p 8 + get32 p (Z.to_nat (12 + get32 p 8))) \/
  (ty = 1 /\ len = 12) \/ (ty = 2 /\ len = 8).
Proof.
  intros H ty len. unfold check_size in H. fold ty len in H.
  destruct (ty =? c_SERIAL_NOTIFY) eqn:E0. { apply Z.eqb_eq in E0, H. left. now split. }
  destruct (ty =? c_CACHE_RESPONSE) eqn:E3. { apply Z.eqb_eq in E3, H. right; left. now split. }
  destruct (ty =? c_IPV4_PREFIX) eqn:E4. { apply Z.eqb_eq in E4, H. do 2 right; left. now split. }
  destruct (ty =? c_IPV6_PREFIX) eqn:E6. { apply Z.eqb_eq in E6, H. do 3 right; left. now split. }
  destruct (ty =? c_EOD) eqn:E7.
  { apply Z.eqb_eq in E7. do 4 right; left. split; [exact E7|].
    apply orb_true_iff in H. destruct H as [H|H]; apply andb_true_iff in H; destruct H as [Ha Hb]; apply Z.eqb_eq in Ha, Hb; [left|right]; now split. }
  destruct (ty =? c_CACHE_RESET) eqn:E8. { apply Z.eqb_eq in E8, H. do 5 right; left. now split. }
  destruct (ty =? c_ROUTER_KEY) eqn:E9. { apply Z.eqb_eq in E9, H. do 6 right; left. now split. }
  destruct (ty =? c_ERROR) eqn:E10.
  { apply Z.eqb_eq in E10. do 7 right; left. split; [exact E10|].
    destruct (len <? 16) eqn:L1; [discriminate|]. apply Z.ltb_ge in L1.
    destruct (len <? 16 + get32 p 8) eqn:L2; [discriminate|]. apply Z.ltb_ge in L2.
    apply Z.eqb_eq in H. repeat split; assumption. }
  destruct (ty =? c_SERIAL_QUERY) eqn:E1. { apply Z.eqb_eq in E1, H. do 8 right; left. now split. }
  destruct (ty =? c_RESET_QUERY) eqn:E2. { apply Z.eqb_eq in E2, H. do 9 right. now split. }
  discriminate.
Qed.

(* unknown / reserved types never pass *)
Lemma check_size_type p : check_size p = true -> In (nthb p 1) [0; 1; 2; 3; 4; 6; 7; 8; 9; 10].
Proof.
  intros H. pose proof (check_size_cases p H) as C. cbv zeta in C. cbn [In].
  repeat destruct C as [C|C]; destruct C as [-> _]; auto 12.
Qed.
Lemma check_size_reserved p : nthb p 1 = c_RESERVED \/ nthb p 1 > c_MAX_SUPPORTED_PDU_TYPE \/ nthb p 1 < 0 -> check_size p = false.
Proof.
  intros H. destruct (check_size p) eqn:E; [|reflexivity]. apply check_size_type in E. cbn [In] in E.
  change c_RESERVED with 5 in H. change c_MAX_SUPPORTED_PDU_TYPE with 10 in H. lia.
Qed.

(* a PDU accepted by receive_pdu that is not an Error Report is at most 123 bytes long *)
Lemma pdu_ok_small p : pdu_ok p -> nthb p 1 <> c_ERROR -> zlen p <= 123.
Proof.
  intros (Hc & Hl & _) Hne. pose proof (check_size_cases p Hc) as C. cbv zeta in C. rewrite Hl.
  change c_ERROR with 10 in Hne. repeat destruct C as [C|C]; lia.
Qed.
Lemma pdu_ok_len p k : pdu_ok p -> nthb p 1 = k ->
  (k = c_IPV4_PREFIX -> zlen p = 20) /\ (k = c_IPV6_PREFIX -> zlen p = 32) /\ (k = c_ROUTER_KEY -> zlen p = 123) /\
  (k = c_EOD -> (nthb p 0 = 0 /\ zlen p = 12) \/ (nthb p 0 = 1 /\ zlen p = 24)) /\ (k = c_CACHE_RESPONSE -> zlen p = 8) /\
  (k = c_SERIAL_NOTIFY -> zlen p = 12).
Proof.
  intros (Hc & Hl & _) Hk. pose proof (check_size_cases p Hc) as C. cbv zeta in C. rewrite Hl, Hk in *.
  change c_IPV4_PREFIX with 4. change c_IPV6_PREFIX with 6. change c_ROUTER_KEY with 9. change c_EOD with 7.
  change c_CACHE_RESPONSE with 3. change c_SERIAL_NOTIFY with 0.
  repeat destruct C as [C|C]; repeat split; intros; try lia.
Qed.

(* ---------- the receive buffer discipline ---------- *)
(* (offset, count) of every byte range a consumer of an accepted PDU reads, per type: the header
   (receive_pdu, check_size, every dispatch on the type), then
   Serial Notify: serial (byte-order conversion in the C);  Prefix PDUs: flags, prefix length, max length,
   address, AS number (prec_of_pdu, pdu_flags, prefix_lengths_valid);  End of Data: session, serial and
   for version 1 the three intervals (process_eod, apply_eod_intervals);  Router Key: flags, SKI, AS, SPKI
   (krec_of_pdu);  Error Report: code, length of the encapsulated PDU, the encapsulated PDU, the text length
   found behind it, the text (check_size, handle_error_pdu and the C's debug output). *)
Definition reads (p : list byte) : list (Z * Z) :=
  let ty := nthb p 1 in
  (0, 8) ::
  (if ty =? c_SERIAL_NOTIFY then [(8, 4)]
   else if ty =? c_SERIAL_QUERY then [(8, 4)]
   else if ty =? c_IPV4_PREFIX then [(8, 3); (12, 4); (16, 4)]
   else if ty =? c_IPV6_PREFIX then [(8, 3); (12, 16); (28, 4)]
   else if ty =? c_EOD then (8, 4) :: (if nthb p 0 =? 1 then [(12, 4); (16, 4); (20, 4)] else [])
   else if ty =? c_ROUTER_KEY then [(2, 1); (8, 20); (28, 4); (32, 91)]
   else if ty =? c_ERROR then
     let el := get32 p 8 in let tl := get32 p (Z.to_nat (12 + el)) in
     [(8, 4); (12, el); (12 + el, 4); (16 + el, tl)]
   else []).
Definition range_ok (n : Z) (r : Z * Z) : bool := (0 <=? fst r) && (0 <=? snd r) && (fst r + snd r <=? n).
Definition safe_reads (p : list byte) : bool :=
  forallb (range_ok (zlen p)) (reads p) && (zlen p <=? c_RTR_MAX_PDU_LEN).

Theorem check_size_safe_reads (p : list byte) : Forall byte_ok p -> pdu_ok p -> safe_reads p = true.
Proof.
  intros Hb (Hc & Hl & Hr). pose proof (check_size_cases p Hc) as C. cbv zeta in C.
  unfold safe_reads. apply andb_true_iff. split; [|apply Z.leb_le; lia].
  unfold reads.
  repeat destruct C as [C|C].
  1-4, 6-7, 9-10: destruct C as [Ht Hn]; rewrite Hl, Ht, Hn; vm_compute; reflexivity.
  - destruct C as [Ht [[Hv Hn]|[Hv Hn]]]; rewrite Hl, Ht, Hv, Hn; vm_compute; reflexivity.
  - destruct C as (Ht & H16 & Hel & Htot). rewrite Ht. cbn [Z.eqb Pos.eqb c_SERIAL_NOTIFY c_SERIAL_QUERY c_IPV4_PREFIX c_IPV6_PREFIX c_EOD c_ROUTER_KEY c_ERROR].
    pose proof (get32_bounds p 8 Hb) as B1. pose proof (get32_bounds p (Z.to_nat (12 + get32 p 8)) Hb) as B2.
    cbn [forallb]. unfold range_ok. cbn [fst snd]. rewrite Hl.
    repeat (apply andb_true_iff; split); try apply Z.leb_le; try lia.
Qed.

(* ---------- no consumer depends on anything beyond the received bytes ----------
   The model reads list positions with a default ([nthb] = nth _ _ 0).  The following lemmas show
   the default is never what a result depends on: appending ARBITRARY junk behind an accepted PDU
   changes nothing, i.e. no position >= length p is read. *)
Lemma skipn_app_l {A} n (a b : list A) : (n <= length a)%nat -> skipn n (a ++ b) = skipn n a ++ b.
Proof. intros. rewrite skipn_app. replace (n - length a)%nat with 0%nat by lia. reflexivity. Qed.
Lemma firstn_app_l {A} n (a b : list A) : (n <= length a)%nat -> firstn n (a ++ b) = firstn n a.
Proof. intros. rewrite firstn_app. replace (n - length a)%nat with 0%nat by lia. cbn [firstn]. now rewrite app_nil_r. Qed.

Theorem check_size_local (p junk : list byte) :
  Forall byte_ok p -> zlen p = get32 p 4 -> 8 <= zlen p -> check_size (p ++ junk) = check_size p.
Proof.
  intros Hb Hl H8. assert (L : (8 <= length p)%nat) by (unfold zlen in H8; lia).
  unfold check_size. rewrite !nthb_app_l by lia. rewrite (get32_app_l p junk 4) by lia.
  repeat match goal with |- (if ?c then _ else _) = (if ?c then _ else _) => destruct c; [reflexivity|] end.
  destruct (nthb p 1 =? c_ERROR); [|reflexivity].
  destruct (get32 p 4 <? 16) eqn:L1; [reflexivity|]. apply Z.ltb_ge in L1.
  rewrite (get32_app_l p junk 8) by (unfold zlen in *; lia).
  destruct (get32 p 4 <? 16 + get32 p 8) eqn:L2; [reflexivity|]. apply Z.ltb_ge in L2.
  pose proof (get32_bounds p 8 Hb).
  rewrite (get32_app_l p junk (Z.to_nat (12 + get32 p 8))) by (unfold zlen in *; lia). reflexivity.
Qed.

Theorem consumers_local (p junk : list byte) :
  Forall byte_ok p -> pdu_ok p ->
  check_size (p ++ junk) = check_size p /\
  nthb (p ++ junk) 0 = nthb p 0 /\ nthb (p ++ junk) 1 = nthb p 1 /\ get16 (p ++ junk) 2 = get16 p 2 /\
  firstn 8 (p ++ junk) = firstn 8 p /\
  (nthb p 1 = c_IPV4_PREFIX \/ nthb p 1 = c_IPV6_PREFIX ->
     prec_of_pdu (p ++ junk) = prec_of_pdu p /\ pdu_flags (p ++ junk) = pdu_flags p /\
     prefix_lengths_valid (p ++ junk) = prefix_lengths_valid p) /\
  (nthb p 1 = c_ROUTER_KEY -> krec_of_pdu (p ++ junk) = krec_of_pdu p /\ pdu_flags (p ++ junk) = pdu_flags p) /\
  (nthb p 1 = c_EOD -> get32 (p ++ junk) 8 = get32 p 8 /\ forall s, apply_eod_intervals s (p ++ junk) = apply_eod_intervals s p) /\
  (nthb p 1 = c_ERROR -> handle_error_pdu (p ++ junk) = handle_error_pdu p).
Proof.
  intros Hb Hok. pose proof Hok as (Hc & Hl & Hr).
  assert (L : (8 <= length p)%nat) by (unfold zlen in Hr; lia).
  split; [apply check_size_local; auto; lia|].
  split; [apply nthb_app_l; lia|]. split; [apply nthb_app_l; lia|]. split; [apply get16_app_l; lia|].
  split; [apply firstn_app_l; lia|].
  split; [|split; [|split]].
  - intros Ht.
    assert (Hn : (20 <= length p)%nat /\ (nthb p 1 = c_IPV6_PREFIX -> (32 <= length p)%nat)).
    { destruct Ht as [Ht|Ht]; pose proof (pdu_ok_len p _ Hok Ht) as (H4 & H6 & _); unfold zlen in *.
      - specialize (H4 eq_refl). split; [lia|]. rewrite Ht. discriminate.
      - specialize (H6 eq_refl). split; [lia|]. intros _. lia. }
    destruct Hn as [Hn4 Hn6].
    unfold prec_of_pdu, pdu_flags, prefix_lengths_valid, prefix_host_bits_zero. rewrite !nthb_app_l by lia.
    destruct (nthb p 1 =? c_IPV6_PREFIX) eqn:E6.
    + apply Z.eqb_eq in E6. specialize (Hn6 E6).
      rewrite skipn_app_l, firstn_app_l, get32_app_l by (rewrite ?skipn_length; lia).
      split; [reflexivity|split; reflexivity].
    + rewrite skipn_app_l, firstn_app_l, get32_app_l by (rewrite ?skipn_length; lia).
      split; [reflexivity|split; reflexivity].
  - intros Ht. pose proof (pdu_ok_len p _ Hok Ht) as (_ & _ & H9 & _). specialize (H9 eq_refl).
    assert (Hn : (length p = 123)%nat) by (unfold zlen in H9; lia).
    unfold krec_of_pdu, pdu_flags. rewrite !nthb_app_l by lia.
    rewrite !skipn_app_l, !firstn_app_l, get32_app_l by (rewrite ?skipn_length; lia). split; reflexivity.
  - intros Ht. pose proof (pdu_ok_len p _ Hok Ht) as (_ & _ & _ & H7 & _). specialize (H7 eq_refl).
    assert (Hn : (12 <= length p)%nat /\ (nthb p 0 = 1 -> (24 <= length p)%nat)) by (unfold zlen in H7; lia).
    destruct Hn as [Hn Hn1]. split; [apply get32_app_l; lia|].
    intros s. unfold apply_eod_intervals. rewrite nthb_app_l by lia.
    destruct (nthb p 0 =? 1) eqn:E1; [|reflexivity]. apply Z.eqb_eq in E1. specialize (Hn1 E1).
    rewrite !get32_app_l by lia. reflexivity.
  - intros Ht. unfold handle_error_pdu. rewrite get16_app_l, nthb_app_l by lia. reflexivity.
Qed.

(* ---------- the records handed to the prefix table ---------- *)
Lemma bits_of_bytes_length l : length (bits_of_bytes l) = (8 * length l)%nat.
Proof. induction l as [|b l IH]; [reflexivity|]. cbn [bits_of_bytes]. rewrite app_length, IH. cbn [map length]. lia. Qed.

(* a prefix PDU that reaches the store (accepted by receive_pdu and by prefix_lengths_valid) yields a record
   with an address of exactly the family's width and both lengths within [0, width] *)
Theorem stored_prefix_lengths (p : list byte) :
  Forall byte_ok p -> pdu_ok p -> nthb p 1 = c_IPV4_PREFIX \/ nthb p 1 = c_IPV6_PREFIX -> prefix_lengths_valid p = true ->
  let '(v6, bits, len, mx, asn, _) := prec_of_pdu p in
  let width := if v6 then 128 else 32 in
  Z.of_nat (length bits) = width /\ 0 <= len <= width /\ 0 <= mx <= width /\ 0 <= asn < 4294967296.
Proof.
  intros Hb Hok Ht Hv. unfold prec_of_pdu.
  pose proof (nthb_ok p 9 Hb) as B9. pose proof (nthb_ok p 10 Hb) as B10. unfold byte_ok in B9, B10.
  unfold prefix_lengths_valid in Hv. apply andb_true_iff in Hv. destruct Hv as [Hv _].
  apply andb_true_iff in Hv. destruct Hv as [V1 V2]. apply Z.leb_le in V1, V2.
  destruct Ht as [Ht|Ht]; pose proof (pdu_ok_len p _ Hok Ht) as (H4 & H6 & _); rewrite Ht in *.
  - specialize (H4 eq_refl). change (c_IPV4_PREFIX =? c_IPV6_PREFIX) with false. change (c_IPV4_PREFIX =? c_IPV4_PREFIX) with true in *.
    rewrite bits_of_bytes_length, firstn_length, skipn_length. unfold zlen in H4. cbv iota in V1, V2. unfold byte in *.
    split; [lia|]. split; [lia|]. split; [lia|]. apply (get32_bounds p), Hb.
  - specialize (H6 eq_refl). change (c_IPV6_PREFIX =? c_IPV6_PREFIX) with true. change (c_IPV6_PREFIX =? c_IPV4_PREFIX) with false in *.
    rewrite bits_of_bytes_length, firstn_length, skipn_length. unfold zlen in H6. cbv iota in V1, V2. unfold byte in *.
    split; [lia|]. split; [lia|]. split; [lia|]. apply (get32_bounds p), Hb.
Qed.

(* ---------- fuel: the receive script is the only thing that ends the PDU loops ---------- *)
Fixpoint ev_bytes (es : list ev) : nat :=
  match es with
  | [] => 0
  | EvData b :: r => length b + ev_bytes r
  | _ :: r => ev_bytes r
  end.

Definition M (w w' : world) : Prop := (ev_bytes (evs w') <= ev_bytes (evs w))%nat.
Lemma M_refl w : M w w. Proof. unfold M. lia. Qed.
Lemma M_trans a b c : M a b -> M b c -> M a c. Proof. unfold M. lia. Qed.

Lemma tr_recv_evs_bytes es : forall len tmo left t r es' t' tr,
  tr_recv_evs es len tmo left t = (r, es', t', tr) ->
  match r with
  | Some (inr b) => ev_bytes es = (length b + ev_bytes es')%nat
  | _ => (ev_bytes es' <= ev_bytes es)%nat
  end.
Proof.
  induction es as [|e es IH]; intros len tmo left t r es' t' tr H; cbn [tr_recv_evs] in H.
  - injection H as <- <- _ _. cbn. lia.
  - destruct e as [d|c|v|].
    + destruct d as [|x d]; [apply IH in H; auto|].
      injection H as <- <- _ _.
      set (b := x :: d) in *. set (n := Z.min len (zlen b)).
      assert (Hs : (length (firstn (Z.to_nat n) b) + length (skipn (Z.to_nat n) b) = length b)%nat).
      { rewrite <- app_length, firstn_skipn. reflexivity. }
      cbn [ev_bytes]. fold b.
      destruct (skipn (Z.to_nat n) b) as [|y l] eqn:Ek.
      * cbn [length] in Hs. lia.
      * cbn [ev_bytes]. lia.
    + injection H as <- <- _ _. cbn [ev_bytes]. lia.
    + destruct (v <=? left); [apply IH in H; auto|]. injection H as <- <- _ _. cbn [ev_bytes]. lia.
    + injection H as <- <- _ _. cbn [ev_bytes]. lia.
Qed.

Lemma tr_recv_bytes len tmo w :
  match tr_recv len tmo w with
  | Ok (inr b) w' => ev_bytes (evs w) = (length b + ev_bytes (evs w'))%nat
  | Ok (inl _) w' => M w w'
  | Exc _ w' => M w w'
  end.
Proof.
  unfold tr_recv.
  destruct (tr_recv_evs (evs w) len tmo (Z.max 0 tmo) (now w)) as [[[r es] t'] tr] eqn:E.
  apply tr_recv_evs_bytes in E.
  destruct r as [[c|b]|]; [destruct (c =? -99)| |]; unfold M; cbn [evs]; exact E.
Qed.

Lemma tr_recv_all_loop_bytes fuel : forall len e acc w,
  match tr_recv_all_loop fuel len e acc w with
  | Ok (inr r) w' => (ev_bytes (evs w) + length acc = length r + ev_bytes (evs w'))%nat
  | Ok (inl _) w' => M w w'
  | Exc _ w' => M w w'
  end.
Proof.
  induction fuel as [|f IH]; intros len e acc w; cbn [tr_recv_all_loop]; [unfold ret; lia|].
  destruct (zlen acc >=? len) eqn:Eg; [unfold ret; lia|].
  rewrite Z.geb_leb in Eg. apply Z.leb_gt in Eg.
  unfold bind at 1. unfold get_now. unfold bind at 1.
  pose proof (tr_recv_bytes (len - zlen acc) (e - now w) w) as Hr.
  destruct (tr_recv (len - zlen acc) (e - now w) w) as [[c|b] w1|x w1]; try exact Hr.
  specialize (IH len e (acc ++ b) w1).
  destruct (tr_recv_all_loop f len e (acc ++ b) w1) as [[c|r] w2|x w2]; unfold M in *; rewrite ?app_length in IH; lia.
Qed.

Lemma tr_recv_all_bytes len tmo w :
  match tr_recv_all len tmo w with
  | Ok (inr r) w' => (ev_bytes (evs w) = length r + ev_bytes (evs w'))%nat
  | Ok (inl _) w' => M w w'
  | Exc _ w' => M w w'
  end.
Proof.
  unfold tr_recv_all, bind, get_now.
  pose proof (tr_recv_all_loop_bytes (Z.to_nat len) len (now w + tmo) [] w) as H.
  destruct (tr_recv_all_loop (Z.to_nat len) len (now w + tmo) [] w) as [[c|r] w'|x w']; cbn [length] in H; try exact H. lia.
Qed.

Notation relM := (rel M).
Ltac mfin := unfold M; cbn [evs]; try lia.
Ltac mbind := apply (rel_bind M M_trans).
Ltac mprim := unfold rel; unfold_prims; mfin.
Ltac mstep :=
  match goal with
  | |- relM (ret _) _ => apply (rel_ret M M_refl)
  | |- relM (bind get_sk _) ?w => mbind; [mprim | let H := fresh "Heq" in intros ? ? H; unfold_prims_in H; injection H as <- <-]
  | |- relM (bind get_now _) ?w => mbind; [mprim | let H := fresh "Heq" in intros ? ? H; unfold_prims_in H; injection H as <- <-]
  | |- relM (bind _ _) ?w => mbind; [ | intros ? ? ?Heq]
  | |- relM (if ?c then _ else _) _ => destruct c eqn:?
  | |- relM (match ?x with _ => _ end) _ => destruct x eqn:?
  | |- relM ((fun _ => _) _) _ => cbv beta
  | |- relM (let _ := _ in _) _ => cbv zeta
  end.

Lemma change_state_M ns w : relM (change_state ns) w.
Proof. unfold rel. rewrite change_state_eq. destruct (_ || _); mfin. Qed.
Lemma tr_recv_all_M len t w : relM (tr_recv_all len t) w.
Proof.
  unfold rel. pose proof (tr_recv_all_bytes len t w) as H.
  destruct (tr_recv_all len t w) as [[c|r] w'|x w']; try exact H. unfold M. lia.
Qed.
Lemma frame_send_M w w' : frame_send w w' -> M w w'.
Proof. intros (_ & _ & _ & He & _). unfold M. rewrite He. lia. Qed.
Lemma send_pdu_M b w : relM (send_pdu b) w.
Proof.
  unfold send_pdu. repeat mstep.
  unfold rel, tr_send_all. pose proof (tr_send_all_loop_spec (length b) b 0 w (le_n _)) as H.
  destruct (tr_send_all_loop (length b) b 0 w); [|contradiction]. apply frame_send_M, H.
Qed.
Lemma send_error_pdu_M enc c t w : relM (send_error_pdu enc c t) w.
Proof. unfold send_error_pdu. repeat mstep. apply send_pdu_M. Qed.
Lemma send_error_from_host_M enc c t w : relM (send_error_from_host enc c t) w.
Proof. unfold send_error_from_host. repeat mstep; apply send_error_pdu_M. Qed.
Lemma recv_err_M c w : relM (recv_err c) w.
Proof. unfold recv_err. repeat mstep; apply change_state_M. Qed.
Ltac mlem :=
  match goal with
  | |- relM (change_state _) _ => apply change_state_M
  | |- relM (tr_recv_all _ _) _ => apply tr_recv_all_M
  | |- relM (send_error_pdu _ _ _) _ => apply send_error_pdu_M
  | |- relM (send_error_from_host _ _ _) _ => apply send_error_from_host_M
  | |- relM (recv_err _) _ => apply recv_err_M
  end.

(* a PDU handed out by receive_pdu cost the script at least its 8 header bytes *)
Theorem receive_pdu_consumes t w :
  match receive_pdu t w with
  | Ok (inr p) w' => (ev_bytes (evs w') + 8 <= ev_bytes (evs w))%nat
  | Ok (inl _) w' => M w w'
  | Exc _ w' => M w w'
  end.
Proof.
  unfold receive_pdu. unfold bind at 1. unfold get_sk.
  destruct (st (sk w) =? c_RTR_SHUTDOWN); [unfold ret; apply M_refl|].
  unfold bind at 1.
  pose proof (tr_recv_all_bytes 8 t w) as H8. pose proof (tr_recv_all_spec 8 t w ltac:(lia)) as H8'.
  destruct (tr_recv_all 8 t w) as [[c|h] w1|x w1]; [ | |exact H8].
  - pose proof (recv_err_M c w1) as Hk. unfold rel in Hk.
    destruct (recv_err c w1) as [[c'|p'] w2|x w2] eqn:Er; try (eapply M_trans; eauto).
    exfalso. eapply never_pdu_elim; [apply recv_err_never|exact Er].
  - destruct H8' as [Hh _]. assert (Hl : length h = 8%nat) by (unfold zlen in Hh; lia).
    match goal with |- match ?m w1 with _ => _ end => assert (Hk : relM m w1) end.
    { repeat mstep; try mlem; try (mprim; fail). }
    unfold rel in Hk.
    match goal with |- match ?m w1 with _ => _ end => destruct (m w1) as [[c'|p'] w2|x w2] end; unfold M in *; lia.
Qed.

Lemma receive_pdu_M t w : relM (receive_pdu t) w.
Proof.
  unfold rel. pose proof (receive_pdu_consumes t w) as H.
  destruct (receive_pdu t w) as [[c|p] w'|x w']; try exact H. unfold M. lia.
Qed.

Lemma bind_cong2 {A B} (m1 m2 : world -> res A) (f g : A -> world -> res B) w :
  m1 w = m2 w -> (forall a w', m2 w = Ok a w' -> f a w' = g a w') -> bind m1 f w = bind m2 g w.
Proof. intros Hm Hf. unfold bind. rewrite Hm. destruct (m2 w) as [a w'|]; [now apply Hf|reflexivity]. Qed.

(* more fuel than the script can pay for changes nothing: [store_loop] and [sync_first] stop because
   of what the script delivers, never because the fuel ran out *)
Theorem store_loop_fuel f1 : forall f2 v4 v6 ks w,
  (ev_bytes (evs w) < 8 * f1)%nat -> (f1 <= f2)%nat -> store_loop f1 v4 v6 ks w = store_loop f2 v4 v6 ks w.
Proof.
  induction f1 as [|f1 IH]; intros f2 v4 v6 ks w Hb Hf; [lia|].
  destruct f2 as [|f2]; [lia|]. cbn [store_loop].
  apply bind_cong2; [reflexivity|]. intros r w1 Hr.
  pose proof (receive_pdu_consumes c_RTR_RECV_TIMEOUT w) as Hc. rewrite Hr in Hc.
  destruct r as [c|p]; [reflexivity|].
  assert (Hb1 : (ev_bytes (evs w1) < 8 * f1)%nat) by lia.
  repeat match goal with |- (if ?c then _ else _) _ = (if ?c then _ else _) _ => destruct c; try reflexivity end;
    apply IH; auto; lia.
Qed.

Theorem sync_first_fuel f1 : forall f2 w,
  (ev_bytes (evs w) < 8 * f1)%nat -> (f1 <= f2)%nat -> sync_first f1 w = sync_first f2 w.
Proof.
  induction f1 as [|f1 IH]; intros f2 w Hb Hf; [lia|].
  destruct f2 as [|f2]; [lia|]. cbn [sync_first].
  apply bind_cong2; [reflexivity|]. intros r w1 Hr.
  pose proof (receive_pdu_consumes c_RTR_RECV_TIMEOUT w) as Hc. rewrite Hr in Hc.
  destruct r as [c|p]; [reflexivity|].
  destruct (nthb p 1 =? c_SERIAL_NOTIFY); [|reflexivity]. apply IH; lia.
Qed.

Lemma sync_first_M fuel : forall w, relM (sync_first fuel) w.
Proof.
  induction fuel as [|f IH]; intros; cbn [sync_first]; [apply (rel_ret M M_refl)|].
  repeat mstep; try mlem; try apply receive_pdu_M; try apply IH; try (mprim; fail).
Qed.

Theorem rtr_sync_fuel f1 f2 w :
  (ev_bytes (evs w) < 8 * f1)%nat -> (f1 <= f2)%nat -> rtr_sync f1 w = rtr_sync f2 w.
Proof.
  intros Hb Hf. unfold rtr_sync.
  apply bind_cong2; [apply sync_first_fuel; auto|]. intros fp w1 H1.
  pose proof (sync_first_M f2 w) as M1. unfold rel in M1. rewrite H1 in M1.
  destruct fp as [p|]; [|reflexivity].
  repeat match goal with |- (if ?c then _ else _) _ = (if ?c then _ else _) _ => destruct c; try reflexivity end.
  apply bind_cong2; [reflexivity|]. intros s w1' Hs. unfold get_sk in Hs. injection Hs as <- <-.
  apply bind_cong2; [reflexivity|]. intros ok w2 H2.
  match type of H2 with ?m w1 = _ => assert (Hk : relM m w1) by (repeat mstep; try mlem; try (mprim; fail)) end.
  unfold rel in Hk. rewrite H2 in Hk.
  destruct (negb ok); [reflexivity|].
  apply bind_cong2; [|reflexivity].
  unfold receive_and_store. apply bind_cong2; [|reflexivity].
  apply store_loop_fuel; [unfold M in *; lia|exact Hf].
Qed.
