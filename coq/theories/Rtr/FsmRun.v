(* FsmRun.v - the translated loop of rtr_fsm_start, iterated, IS the model's run.

   Rtr/FsmTie.v proves one iteration of the translated loop body (Gen/GeneratedFsm.v, regenerated from /repo on every run) equal to
   the hand-written fsm_step.  Here the iterations are composed: [run_c n fuel w] (FsmTie: iterate the translated body, stop at the
   first exception) equals [run_fsm n fuel w] for every run in which the socket's fields stay in the ranges of their C types and no
   stop event arrives ([ranges_ok]; a stop event makes run_fsm call rtr_stop and go on, which is the harness's doing, not the loop's -
   rtr_stop has its own tie, FsmTie2.stop_tie). *)
From RtrV Require Import Base.CSem Base.Eff Gen.Generated Gen.GeneratedFsm Rtr.RtrModel Rtr.FsmTie.
From RtrV Require Import Rtr.ConvergeStutter Rtr.ExpiryProofs.
Local Open Scope Z_scope.

Fixpoint ranges_ok (n fuel : nat) (w : world) : Prop :=
  match n with
  | O => True
  | S n' =>
    c_range w /\ st (sk w) <> c_RTR_SHUTDOWN /\
    match fsm_step fuel w with
    | Ok _ w' => ranges_ok n' fuel w'
    | Exc (XEnd _) _ => True
    | Exc XStop _ => False
    end
  end.

Theorem run_c_tie : forall n fuel w, ranges_ok n fuel w -> run_c n fuel w = Some (run_fsm n fuel w).
Proof.
  induction n as [|n IH]; intros fuel w H; [reflexivity|].
  cbn [ranges_ok] in H. destruct H as (HC & HS & HN).
  cbn [run_c run_fsm]. rewrite (fsm_step_tie_c_range fuel w HC HS).
  unfold as_eff, bind. destruct (fsm_step fuel w) as [u w'|x w'].
  - apply IH. exact HN.
  - destruct x as [k|]; [reflexivity|exact (False_ind _ HN)].
Qed.

(* non-vacuity: the ranges hold along the ten-iteration run of the C08 example world (a cache that answers every query with
   Cache Reset) and along six iterations of the C07 example world (a full synchronisation) *)
Example ranges_ok_st_w0 : ranges_ok 10 100 st_w0.
Proof. vm_compute. repeat split; congruence. Qed.
Example ranges_ok_ex_w0 : ranges_ok 6 100 ex_w0.
Proof. vm_compute. repeat split; congruence. Qed.

Print Assumptions run_c_tie.
