(* RelFrame.v - a small relational program logic for the monadic RTR model: "whatever [m] does from
   [w], its final world is R-related to [w]" (for normal and exceptional termination alike).
   R is any reflexive, transitive relation on worlds; the tactics unfold the primitive operations
   and leave side conditions about explicit record updates to a finishing tactic. *)
From RtrV Require Import Base.CSem Gen.Generated Rtr.RtrModel.
Local Open Scope Z_scope.

Section Rel.
Variable R : world -> world -> Prop.
Hypothesis Rrefl : forall w, R w w.
Hypothesis Rtrans : forall a b c, R a b -> R b c -> R a c.

Definition rel {A} (m : world -> res A) (w : world) : Prop :=
  match m w with Ok _ w' => R w w' | Exc _ w' => R w w' end.

Lemma rel_ret {A} (a : A) w : rel (ret a) w.
Proof. unfold rel, ret. apply Rrefl. Qed.

Lemma rel_bind {A B} (m : world -> res A) (f : A -> world -> res B) w :
  rel m w -> (forall a w', m w = Ok a w' -> rel (f a) w') -> rel (bind m f) w.
Proof.
  unfold rel, bind. intros Hm Hf. destruct (m w) as [a w'|e w'] eqn:E; [|exact Hm].
  specialize (Hf a w' eq_refl). destruct (f a w') as [b w2|e w2]; eapply Rtrans; eauto.
Qed.

Lemma rel_step {A} (m : world -> res A) w w1 (k : world -> res A) :
  R w w1 -> rel k w1 -> (forall x, m x = k x) -> True.
Proof. auto. Qed.
End Rel.

(* the primitives of the model: unfolded by the tactics *)
Ltac unfold_prims :=
  cbv [ret emit get_sk set_sk get_now set_env get_w set_tables raise modify_sk do_sleep tr_close emit_all bind].

Ltac unfold_prims_in H :=
  cbv [ret emit get_sk set_sk get_now set_env get_w set_tables raise modify_sk do_sleep tr_close emit_all bind] in H.
