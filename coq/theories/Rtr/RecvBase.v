(* RecvBase.v - C04, first part: the receive path of the RTR model.
   - tr_recv returns at least one byte or an error (the transport contract holds in the model by
     construction: the mock skips empty data events, as harness/rtr_run.c drops them when parsing);
   - tr_recv_all returns an error or EXACTLY the requested number of bytes: its fuel (= the length
     asked for) is never the reason for stopping;
   - a PDU accepted by receive_pdu passed check_size, has exactly the length its header says,
     8 <= length <= RTR_MAX_PDU_LEN;  receive_pdu never touches the tables. *)
From RtrV Require Import Base.CSem Gen.Generated Rtr.RtrModel Rtr.RelFrame.
Local Open Scope Z_scope.

Notation length := List.length.

(* ---------- lists ---------- *)
Lemma zlen_nonneg {A} (l : list A) : 0 <= zlen l.
Proof. unfold zlen. lia. Qed.
Lemma zlen_app {A} (a b : list A) : zlen (a ++ b) = zlen a + zlen b.
Proof. unfold zlen. rewrite app_length. lia. Qed.
Lemma zlen_nil {A} : zlen (@nil A) = 0.
Proof. reflexivity. Qed.
Lemma zlen_cons {A} (x : A) l : zlen (x :: l) = 1 + zlen l.
Proof. unfold zlen. cbn [length]. lia. Qed.
Lemma zlen_firstn {A} (l : list A) n : 0 <= n <= zlen l -> zlen (firstn (Z.to_nat n) l) = n.
Proof. unfold zlen. intros. rewrite firstn_length. lia. Qed.
Lemma zlen_firstn_le {A} (l : list A) n : zlen (firstn n l) <= Z.of_nat n.
Proof. unfold zlen. rewrite firstn_length. lia. Qed.
Lemma zlen_skipn {A} (l : list A) n : 0 <= n <= zlen l -> zlen (skipn (Z.to_nat n) l) = zlen l - n.
Proof. unfold zlen. intros. rewrite skipn_length. lia. Qed.

Lemma nthb_app_l (a b : list byte) i : (i < length a)%nat -> nthb (a ++ b) i = nthb a i.
Proof. intros. unfold nthb. now rewrite app_nth1. Qed.
Lemma nthb_app_r (a b : list byte) i : (length a <= i)%nat -> nthb (a ++ b) i = nthb b (i - length a).
Proof. intros. unfold nthb. now rewrite app_nth2. Qed.

Lemma get32_app_l (a b : list byte) off : (off + 4 <= length a)%nat -> get32 (a ++ b) off = get32 a off.
Proof. intros. unfold get32. rewrite !nthb_app_l by lia. reflexivity. Qed.
Lemma get16_app_l (a b : list byte) off : (off + 2 <= length a)%nat -> get16 (a ++ b) off = get16 a off.
Proof. intros. unfold get16. rewrite !nthb_app_l by lia. reflexivity. Qed.

(* ---------- frame of the receive primitives ---------- *)
Definition frame_recv (w w' : world) : Prop :=
  sk w' = sk w /\ pfx w' = pfx w /\ keys w' = keys w /\ opens w' = opens w /\ sends w' = sends w.
Lemma frame_recv_refl w : frame_recv w w.
Proof. repeat split. Qed.
Lemma frame_recv_trans a b c : frame_recv a b -> frame_recv b c -> frame_recv a c.
Proof. unfold frame_recv. intros (?&?&?&?&?) (?&?&?&?&?). repeat split; congruence. Qed.

(* ---------- tr_recv: >= 1 byte or an error ---------- *)
Lemma tr_recv_evs_data es : forall len tmo left t b es' t' tr,
  1 <= len -> tr_recv_evs es len tmo left t = (Some (inr b), es', t', tr) -> 1 <= zlen b <= len.
Proof.
  induction es as [|e es IH]; intros len tmo left t b es' t' tr Hl H; cbn [tr_recv_evs] in H; [discriminate|].
  destruct e as [d|c|v|].
  - destruct d as [|x d]; [eapply IH; eauto|].
    injection H as <- _ _ _.
    assert (Hz : 1 <= zlen (x :: d)) by (rewrite zlen_cons; pose proof (zlen_nonneg d); lia).
    rewrite zlen_firstn by lia. lia.
  - discriminate.
  - destruct (v <=? left); [eapply IH; eauto|discriminate].
  - discriminate.
Qed.

Lemma tr_recv_spec len tmo w :
  1 <= len ->
  match tr_recv len tmo w with
  | Ok (inr b) w' => 1 <= zlen b <= len /\ frame_recv w w'
  | Ok (inl c) w' => frame_recv w w'
  | Exc _ w' => frame_recv w w'
  end.
Proof.
  intros Hl. unfold tr_recv.
  destruct (tr_recv_evs (evs w) len tmo (Z.max 0 tmo) (now w)) as [[[r es] t'] tr] eqn:E.
  destruct r as [[c|b]|].
  - destruct (c =? -99); repeat split.
  - split; [eapply tr_recv_evs_data; eauto|repeat split].
  - repeat split.
Qed.

(* ---------- tr_recv_all: an error or exactly len bytes; fuel is never the reason to stop ---------- *)
Lemma tr_recv_all_loop_spec fuel : forall len e acc w,
  zlen acc <= len -> len - zlen acc <= Z.of_nat fuel ->
  match tr_recv_all_loop fuel len e acc w with
  | Ok (inr r) w' => zlen r = len /\ (exists more, r = acc ++ more) /\ frame_recv w w'
  | Ok (inl c) w' => frame_recv w w'
  | Exc _ w' => frame_recv w w'
  end.
Proof.
  induction fuel as [|f IH]; intros len e acc w Ha Hf; cbn [tr_recv_all_loop].
  - unfold ret. split; [lia|]. split; [exists []; now rewrite app_nil_r|apply frame_recv_refl].
  - destruct (zlen acc >=? len) eqn:Eg.
    + rewrite Z.geb_leb in Eg. apply Z.leb_le in Eg. unfold ret.
      split; [lia|]. split; [exists []; now rewrite app_nil_r|apply frame_recv_refl].
    + rewrite Z.geb_leb in Eg. apply Z.leb_gt in Eg.
      unfold bind at 1. unfold get_now. unfold bind at 1.
      pose proof (tr_recv_spec (len - zlen acc) (e - now w) w ltac:(lia)) as Hr.
      destruct (tr_recv (len - zlen acc) (e - now w) w) as [[c|b] w1|x w1].
      * unfold ret. exact Hr.
      * destruct Hr as [Hb Hfr].
        specialize (IH len e (acc ++ b) w1).
        rewrite zlen_app in IH. specialize (IH ltac:(lia) ltac:(lia)).
        destruct (tr_recv_all_loop f len e (acc ++ b) w1) as [[c|r] w2|x w2].
        -- eapply frame_recv_trans; eauto.
        -- destruct IH as (Hlen & (more & ->) & Hfr2). split; [exact Hlen|]. split.
           ++ exists (b ++ more). now rewrite app_assoc.
           ++ eapply frame_recv_trans; eauto.
        -- eapply frame_recv_trans; eauto.
      * exact Hr.
Qed.

Theorem tr_recv_all_spec len tmo w :
  0 <= len ->
  match tr_recv_all len tmo w with
  | Ok (inr r) w' => zlen r = len /\ frame_recv w w'
  | Ok (inl c) w' => frame_recv w w'
  | Exc _ w' => frame_recv w w'
  end.
Proof.
  intros Hl. unfold tr_recv_all. unfold bind, get_now.
  pose proof (tr_recv_all_loop_spec (Z.to_nat len) len (now w + tmo) [] w) as H.
  rewrite zlen_nil in H. specialize (H ltac:(lia) ltac:(lia)).
  destruct (tr_recv_all_loop (Z.to_nat len) len (now w + tmo) [] w) as [[c|r] w'|x w']; try exact H.
  destruct H as (? & _ & ?). now split.
Qed.
