(* FsmTie2.v - second stage of the translated RTR state machine (Gen/GeneratedFsm2.v, tools/c2v.py class TrEff2):
   rtr_stop, rtr_set_last_update, rtr_handle_error_pdu, rtr_handle_cache_response_pdu and rtr_sync, interpreted in the
   monad of the hand-written model and proved equal to its rtr_stop / handle_error_pdu / rtr_sync.  Builds on
   Rtr/FsmTie.v (sock_store, store_sock, ext_call, as_eff, xbind ...). *)
From Coq Require Import ZifyBool.
From RtrV Require Import Base.CSem Base.Mem Base.Eff Gen.Generated Gen.GeneratedMem Gen.GeneratedFsm2
  Rtr.RtrModel Rtr.RelFrame Rtr.ExpiryTac Rtr.SyncSets Rtr.ExpiryFrames Rtr.ConvergeStutter Rtr.ExpiryProofs
  Rtr.CheckSizeTie Rtr.FsmTie.
Require RtrV.Rtr.RecvProofs.
Local Open Scope string_scope.
Local Open Scope Z_scope.

(* ====================================================================================================== *)
(* 1. interpretation                                                                                        *)
(* ====================================================================================================== *)
(* After a call the fields the model knows are read back from the world; every other key of the store (thread_id,
   which rtr_stop tests) keeps its value: no callee of the translated functions writes it. *)
Definition store_after (s : store) (k : sock) : store :=
  fold_left (fun acc kv => sset (fst kv) (snd kv) acc) (sock_store k) s.
Definition sock_store_t (tid : Z) (k : sock) : store := (sock_store k ++ [("thread_id", tid)])%list.

Lemma store_after_plain x k : store_after (sock_store x) k = sock_store k. Proof. reflexivity. Qed.
Lemma store_after_t t x k : store_after (sock_store_t t x) k = sock_store_t t k. Proof. reflexivity. Qed.
Lemma store_sock_t t x : store_sock (sock_store_t t x) = x.
Proof. destruct x as [a b c d e f g h i j k l]. destruct d, k, l; reflexivity. Qed.

(* rtr_send_error_pdu_from_host(socket, pdu, len, code, txt, txt_len): the argument list as the translator lays it
   out - [length of the pdu object; its bytes...; len; code; length of the text object; its bytes...; txt_len], a null
   pdu being the single 0.  The PDU lies in memory with its header in host byte order; the C converts a copy back
   (to_host is its own inverse) and sends the first len bytes, and txt_len bytes of text. *)
Definition decode_err_args (args : list Z) : list byte * Z * list byte :=
  let n := Z.to_nat (nth 0 args 0) in
  let obj := firstn n (skipn 1 args) in
  let r := skipn (S n) args in
  let len := nth 0 r 0 in
  let code := nth 1 r 0 in
  let tn := Z.to_nat (nth 2 r 0) in
  let txt := firstn tn (skipn 3 r) in
  let tlen := nth tn (skipn 3 r) 0 in
  (to_host (firstn (Z.to_nat len) obj), code, firstn (Z.to_nat tlen) txt).

(* the untranslated functions of stage 2; everything else as in stage 1 (FsmTie.ext_call), except that
   rtr_receive_pdu now delivers the buffer AS IT LIES IN MEMORY: header fields in host byte order (to_host), since
   the translated readers load error_code / session_id from it.
     rtr_sync_receive_and_store_pdus  the model's receive_and_store; its result is RTR_SUCCESS 0 or RTR_ERROR -1 in C -
                          the model additionally has -77 for "fuel exhausted in the store loop", which its rtr_sync
                          treats as failure: reported as -1 here (identity on 0 and -1);
     pthread_cancel / pthread_join   nothing in the model (its rtr_stop runs "while the socket thread is parked in recv");
     c2v_out_of_fuel      the translator's marker for an exhausted loop bound: nothing. *)
Definition ext_call2 (fuel : nat) (f : string) (args : list Z) : option (world -> res (list Z)) :=
  let a0 := nth 0 args 0 in
  let a1 := nth 1 args 0 in
  if String.eqb f "rtr_receive_pdu" then
    if a0 <? c_RTR_MAX_PDU_LEN then None
    else Some (mdo r <- receive_pdu a1;
               ret (match r with inr p => 0 :: pad_buf a0 (to_host p) | inl c => [c] end))
  else if String.eqb f "rtr_sync_receive_and_store_pdus" then
    Some (mdo r <- receive_and_store fuel; ret [if r =? 0 then 0 else -1])
  else if String.eqb f "rtr_send_error_pdu_from_host" then
    let '(enc, code, txt) := decode_err_args args in
    Some (mdo r <- send_error_from_host enc code txt; ret [r])
  else if String.eqb f "pthread_cancel" then Some (ret [0])
  else if String.eqb f "pthread_join" then Some (ret [0])
  else if String.eqb f "c2v_out_of_fuel" then Some (ret [])
  else ext_call fuel f args.

Fixpoint interp2 (fuel : nat) (e : eff) (w : world) {struct e} : option (res (Z * store)) :=
  match e with
  | ERet r s => Some (Ok (r, s) (with_sk w (store_sock s)))
  | EUndef => None
  | ECall f args s k =>
    match ext_call2 fuel f args with
    | None => None
    | Some m =>
      match m (with_sk w (store_sock s)) with
      | Ok rs w' => interp2 fuel (k rs (store_after s (sk w'))) w'
      | Exc x w' => Some (Exc x w')
      end
    end
  end.

Lemma interp2_sk fuel e : forall w s, interp2 fuel e (with_sk w s) = interp2 fuel e w.
Proof. induction e as [r t|f a t k IH|]; intros w s; reflexivity. Qed.

Lemma interp2_ebind fuel e : forall k w,
  interp2 fuel (ebind e k) w =
  match interp2 fuel e w with
  | Some (Ok (r, s) w') => interp2 fuel (k r s) w'
  | Some (Exc x w') => Some (Exc x w')
  | None => None
  end.
Proof.
  induction e as [r t|f a t k' IH|]; intros k w; cbn [ebind interp2].
  - rewrite interp2_sk. reflexivity.
  - destruct (ext_call2 fuel f a) as [m|]; [|reflexivity].
    destruct (m (with_sk w (store_sock t))) as [rs w'|x w']; [apply IH|reflexivity].
  - reflexivity.
Qed.

Lemma interp2_ebind_model {A} fuel e (conv : A -> Z) (m : world -> res A) k w :
  interp2 fuel e w = Some (as_eff conv m w) ->
  interp2 fuel (ebind e k) w = xbind m (fun a w' => interp2 fuel (k (conv a) (sock_store (sk w'))) w') w.
Proof.
  intros H. rewrite interp2_ebind, H. unfold as_eff, xbind, bind. destruct (m w); reflexivity.
Qed.

Section Calls2.
Variable fuel : nat.
Variables (s : store) (k : list Z -> store -> eff) (w : world).
Let w0 := with_sk w (store_sock s).
Let K (rs : list Z) (w' : world) := interp2 fuel (k rs (store_after s (sk w'))) w'.

Lemma i2_time a : interp2 fuel (ECall "lrtr_get_monotonic_time" a s k) w = K [0; now w0] w0.
Proof. reflexivity. Qed.
Lemma i2_pfx_remove a : interp2 fuel (ECall "pfx_table_src_remove" a s k) w = K [0] (pfx_removed w0).
Proof. reflexivity. Qed.
Lemma i2_spki_remove a : interp2 fuel (ECall "spki_table_src_remove" a s k) w = K [0] (spki_removed w0).
Proof. reflexivity. Qed.
Lemma i2_change_state n : interp2 fuel (ECall "rtr_change_socket_state" [n] s k) w = K [] (state_changed n w0).
Proof. cbn [interp2]. change (ext_call2 fuel "rtr_change_socket_state" [n]) with (Some (mdo _ <- change_state n; ret (@nil Z))).
  cbv beta iota. fold w0. unfold bind. rewrite change_state_eq'. reflexivity. Qed.
Lemma i2_tr_close a : interp2 fuel (ECall "tr_close" a s k) w = K [] (with_out w0 (TClose :: out w0)).
Proof. reflexivity. Qed.
Lemma i2_cancel a : interp2 fuel (ECall "pthread_cancel" a s k) w = K [0] w0.
Proof. reflexivity. Qed.
Lemma i2_join a : interp2 fuel (ECall "pthread_join" a s k) w = K [0] w0.
Proof. reflexivity. Qed.
Lemma i2_out_of_fuel a : interp2 fuel (ECall "c2v_out_of_fuel" a s k) w = K [] w0.
Proof. reflexivity. Qed.
Lemma i2_receive len t : (len <? c_RTR_MAX_PDU_LEN) = false ->
  interp2 fuel (ECall "rtr_receive_pdu" [len; t] s k) w =
  xbind (receive_pdu t) (fun r => K (match r with inr p => 0 :: pad_buf len (to_host p) | inl c => [c] end)) w0.
Proof.
  intros Hl. cbn [interp2].
  change (ext_call2 fuel "rtr_receive_pdu" [len; t]) with
    (if len <? c_RTR_MAX_PDU_LEN then None
     else Some (mdo r <- receive_pdu t; ret (match r with inr p => 0 :: pad_buf len (to_host p) | inl c => [c] end))).
  rewrite Hl. unfold xbind, bind. fold w0. destruct (receive_pdu t w0); reflexivity.
Qed.
Lemma i2_store a : interp2 fuel (ECall "rtr_sync_receive_and_store_pdus" a s k) w =
  xbind (receive_and_store fuel) (fun r => K [if r =? 0 then 0 else -1]) w0.
Proof. cbn [interp2].
  change (ext_call2 fuel "rtr_sync_receive_and_store_pdus" a) with (Some (mdo r <- receive_and_store fuel; ret [if r =? 0 then 0 else -1])).
  cbv beta iota. unfold xbind, bind. fold w0. destruct (receive_and_store fuel w0); reflexivity. Qed.
Lemma i2_send_error args enc code txt : decode_err_args args = (enc, code, txt) ->
  interp2 fuel (ECall "rtr_send_error_pdu_from_host" args s k) w =
  xbind (send_error_from_host enc code txt) (fun r => K [r]) w0.
Proof.
  intros Hd. cbn [interp2].
  change (ext_call2 fuel "rtr_send_error_pdu_from_host" args) with
    (let '(enc, code, txt) := decode_err_args args in Some (mdo r <- send_error_from_host enc code txt; ret [r])).
  rewrite Hd. cbv beta iota. unfold xbind, bind. fold w0. destruct (send_error_from_host enc code txt w0); reflexivity.
Qed.
End Calls2.

Lemma sg_version s : sget "version" (sock_store s) = version s. Proof. reflexivity. Qed.
Lemma sg_session s : sget "session_id" (sock_store s) = session_id s. Proof. reflexivity. Qed.
Lemma ss_version s v : sset "version" v (sock_store s) = sock_store (upd_version s v). Proof. reflexivity. Qed.
Lemma ss_session s v : sset "session_id" v (sock_store s) = sock_store (upd_session s v). Proof. reflexivity. Qed.

Definition fin2 {A} (z : Z) : A -> world -> res (Z * store) := fun _ w => Ok (z, sock_store (sk w)) w.

(* ====================================================================================================== *)
(* 2. rtr_stop                                                                                              *)
(* ====================================================================================================== *)
(* The model's rtr_stop begins with a trace item of the harness (TStopping) that the C function does not write; the
   rest is the C function - for a socket whose thread runs (thread_id <> 0). *)
Definition rtr_stop_body : world -> res unit :=
  mdo _ <- change_state c_RTR_SHUTDOWN;
  mdo _ <- tr_close;
  mdo _ <- modify_sk (fun s => upd_last (upd_serial (upd_req s true) 0) 0);
  mdo _ <- src_remove_all;
  modify_sk (fun s => upd_st s c_RTR_CLOSED).
Lemma rtr_stop_split w : rtr_stop w = (mdo _ <- emit TStopping; rtr_stop_body) w.
Proof. reflexivity. Qed.

Theorem stop_tie fuel tid w : tid <> 0 ->
  interp2 fuel (rtr_stop_gen (sock_store_t tid (sk w))) w =
  Some (bind rtr_stop_body (fun _ w' => Ok (0, sock_store_t 0 (sk w')) w') w).
Proof.
  intros Ht. unfold rtr_stop_gen, rtr_stop_body.
  rewrite i2_change_state, store_sock_t, with_sk_same, store_after_t. cbv beta.
  change (sget "thread_id" (sock_store_t tid ?x)) with tid. change (wrapu 64 0) with 0.
  replace (tid =? 0) with false by lia. cbn [negb].
  rewrite i2_cancel, store_sock_t, with_sk_same, store_after_t. cbv beta.
  rewrite i2_join, store_sock_t, with_sk_same, store_after_t. cbv beta.
  rewrite i2_tr_close, store_sock_t, with_sk_same, store_after_t. cbv beta.
  set (w1 := with_out _ _).
  change (b2z (z2b 1)) with (b2z true). change (wrapu 32 0) with 0. change (wraps 64 0) with 0. cbv zeta.
  change (sset "last_update" 0 (sset "serial_number" 0 (sset "request_session_id" (b2z true) (sock_store_t tid (sk w1)))))
    with (sock_store_t tid (upd_last (upd_serial (upd_req (sk w1) true) 0) 0)).
  rewrite i2_pfx_remove, store_sock_t, store_after_t. cbv beta.
  rewrite i2_spki_remove, store_sock_t, store_after_t. cbv beta.
  change (wrapu 32 10) with c_RTR_CLOSED.
  match goal with |- context [sset "state" c_RTR_CLOSED (sset "thread_id" 0 (sock_store_t tid ?x))] =>
    change (sset "state" c_RTR_CLOSED (sset "thread_id" 0 (sock_store_t tid x))) with (sock_store_t 0 (upd_st x c_RTR_CLOSED)) end.
  cbn [interp2]. rewrite store_sock_t.
  unfold bind at 1 2. rewrite change_state_eq'. change (wrapu 32 9) with c_RTR_SHUTDOWN in *.
  reflexivity.
Qed.

(* thread_id = 0 ("never started"): the C only changes the state; the model's rtr_stop does everything regardless.
   The harness only stops started sockets, so the model is never asked. *)
Theorem stop_tie_not_started fuel w :
  interp2 fuel (rtr_stop_gen (sock_store_t 0 (sk w))) w =
  Some (bind (change_state c_RTR_SHUTDOWN) (fun _ w' => Ok (0, sock_store_t 0 (sk w')) w') w).
Proof.
  unfold rtr_stop_gen. rewrite i2_change_state, store_sock_t, with_sk_same, store_after_t. cbv beta.
  change (sget "thread_id" (sock_store_t 0 ?x)) with 0. change (wrapu 64 0) with 0. cbn [Z.eqb negb].
  cbn [interp2]. rewrite store_sock_t, with_sk_same. unfold bind. rewrite change_state_eq'. reflexivity.
Qed.

(* ====================================================================================================== *)
(* 3. rtr_set_last_update                                                                                   *)
(* ====================================================================================================== *)
(* the model: read the clock, store it (the tail of its rtr_sync); lrtr_get_monotonic_time cannot fail there, so the
   C's failure branch (state RTR_ERROR_FATAL, RTR_ERROR) has no counterpart *)
Definition set_last_update : world -> res Z :=
  mdo t <- get_now; mdo _ <- modify_sk (fun s => upd_last s t); ret 0.

Theorem set_last_update_tie fuel w :
  interp2 fuel (rtr_set_last_update_gen (sock_store (sk w))) w = Some (as_eff (fun r => r) set_last_update w).
Proof.
  unfold rtr_set_last_update_gen. rewrite i2_time, with_sk_store, store_after_plain. cbv beta zeta. cbn [nth].
  rewrite ss_last. change (0 =? - (1)) with false. cbv iota. cbn [interp2]. rewrite store_sock_store. reflexivity.
Qed.

(* ====================================================================================================== *)
(* 4. rtr_handle_error_pdu                                                                                  *)
(* ====================================================================================================== *)
Lemma leaf2_change fuel n z w :
  interp2 fuel (ECall "rtr_change_socket_state" [wrapu 32 n] (sock_store (sk w)) (fun _ s => ERet z s)) w =
  Some (bind (change_state (wrapu 32 n)) (fin2 z) w).
Proof.
  rewrite i2_change_state, with_sk_store, store_after_plain. cbv beta. cbn [interp2]. rewrite with_sk_store.
  unfold bind. rewrite change_state_eq'. reflexivity.
Qed.
Lemma leaf2_ret fuel z w : interp2 fuel (ERet z (sock_store (sk w))) w = Some (Ok (z, sock_store (sk w)) w).
Proof. cbn [interp2]. rewrite with_sk_store. reflexivity. Qed.

(* the received PDU as it lies in the receive buffer: header fields in host byte order, zeros behind it *)
Definition in_buffer (len : Z) (p : list byte) : list Z := pad_buf len (to_host p).

Lemma to_host_hdr p : 8 <= zlen p ->
  nthb (to_host p) 0 = nthb p 0 /\ nthb (to_host p) 1 = nthb p 1 /\ nthb (to_host p) 2 = nthb p 3 /\ nthb (to_host p) 3 = nthb p 2.
Proof.
  unfold zlen. intros H. do 8 (destruct p as [|? p]; [cbn [List.length] in H; lia|]). repeat split; reflexivity.
Qed.
Lemma buf_ld_ok len p o n : 0 <= o -> 0 <= n -> o + n <= len -> ld_ok (in_buffer len p) (Some o) n = true.
Proof. intros. unfold ld_ok, in_buffer. rewrite pad_buf_length by lia. lia. Qed.
Lemma buf_ld16 len p : 8 <= zlen p -> 8 <= len -> ldu (in_buffer len p) (Some 2) 2 = get16 p 2.
Proof.
  intros Hp Hl. unfold ldu, in_buffer. change (Z.to_nat 2) with 2%nat. cbn [le_load]. change (2 + 1) with 3.
  rewrite !pad_buf_byte by lia. change (Z.to_nat 2) with 2%nat. change (Z.to_nat 3) with 3%nat.
  destruct (to_host_hdr p Hp) as (_ & _ & -> & ->). unfold get16, be16. lia.
Qed.
Lemma buf_ld8_ver len p : 8 <= zlen p -> 8 <= len -> ldu (in_buffer len p) (Some 0) 1 = nthb p 0.
Proof.
  intros Hp Hl. unfold ldu, in_buffer. change (Z.to_nat 1) with 1%nat. cbn [le_load].
  rewrite pad_buf_byte by lia. change (Z.to_nat 0) with 0%nat.
  destruct (to_host_hdr p Hp) as (-> & _). lia.
Qed.
Lemma get16_range p o : Forall byte_ok p -> 0 <= get16 p o < 65536.
Proof.
  intros H. unfold get16, be16. pose proof (ExpiryFrames.nthb_ok p o H). pose proof (ExpiryFrames.nthb_ok p (S o) H).
  unfold byte_ok in *. lia.
Qed.

Theorem handle_error_tie fuel len p w :
  Forall byte_ok p -> 8 <= zlen p -> 8 <= len -> 0 <= version (sk w) < 2^32 ->
  interp2 fuel (rtr_handle_error_pdu_gen (in_buffer len p) (Some 0) (sock_store (sk w))) w =
  Some (as_eff (fun _ => 0) (handle_error_pdu p) w).
Proof.
  intros Hb Hp Hl Hv. unfold rtr_handle_error_pdu_gen. cbv zeta.
  change offsetof_pdu_error__error_code with 2. change offsetof_pdu_error__ver with 0. cbn [ptr_add]. change (0 + 2) with 2. change (0 + 0) with 0.
  rewrite !buf_ld_ok by lia. rewrite buf_ld16, buf_ld8_ver by assumption.
  pose proof (get16_range p 2 Hb) as Hc. pose proof (ExpiryFrames.nthb_ok p 0 Hb) as Hver. unfold byte_ok in Hver.
  rewrite (wraps32_small (get16 p 2)) by lia. rewrite (wraps32_small (nthb p 0)) by lia.
  rewrite (wrapu32_id (nthb p 0)) by (change (2 ^ 32) with 4294967296; lia).
  cbn [eguard implb]. rewrite !Bool.implb_true_r. cbn [eguard].
  rewrite sg_version.
  change (wraps 32 c_RTR_PROTOCOL_MAX_SUPPORTED_VERSION) with c_RTR_PROTOCOL_MAX_SUPPORTED_VERSION.
  change (wraps 32 c_RTR_PROTOCOL_MIN_SUPPORTED_VERSION) with c_RTR_PROTOCOL_MIN_SUPPORTED_VERSION.
  unfold as_eff, handle_error_pdu. cbv zeta. change c_NO_DATA_AVAIL with 2. change c_UNSUPPORTED_PROTOCOL_VER with 4.
  set (c := get16 p 2) in *. set (v := nthb p 0) in *.
  change (fun w0 : world => Ok (0, sock_store (sk w0)) w0) with (fun w0 => @fin2 unit 0 tt w0).
  destruct (c =? 2) eqn:E2.
  { assert (c = 2) by lia. subst c. replace (get16 p 2) with 2 by lia. cbn [Z.eqb Pos.eqb]. cbv iota. apply leaf2_change. }
  destruct (c =? 4) eqn:E4.
  { assert (c = 4) by lia. replace (c =? 0) with false by lia. replace (c =? 1) with false by lia. replace (c =? 3) with false by lia.
    rewrite bind_assoc, bind_get_sk.
    destruct ((v <=? c_RTR_PROTOCOL_MAX_SUPPORTED_VERSION) && (v >=? c_RTR_PROTOCOL_MIN_SUPPORTED_VERSION) && (v <? version (sk w))) eqn:Ed.
    - rewrite ss_version. rewrite <- (interp2_sk fuel _ w (upd_version (sk w) v)).
      rewrite bind_assoc. change (bind (set_sk ?s) ?f w) with (f tt (with_sk w s)). cbv beta.
      apply (leaf2_change fuel 4 0 (with_sk w (upd_version (sk w) v))).
    - apply leaf2_change. }
  replace (c =? 0) with (c =? 0) by reflexivity.
  destruct (c =? 0); [apply leaf2_change|]. destruct (c =? 1); [apply leaf2_change|]. destruct (c =? 3); [apply leaf2_change|].
  destruct (c =? 5); apply leaf2_change.
Qed.

(* ====================================================================================================== *)
(* 5. rtr_handle_cache_response_pdu                                                                         *)
(* ====================================================================================================== *)
(* in the model this is a block inside rtr_sync; as a function of its own (rtr_sync_split below puts it back) *)
Definition handle_cache_response (p : list byte) : world -> res Z :=
  mdo s <- get_sk;
  if req_sess s
  then mdo _ <- set_sk (upd_session (if negb (last_update s =? 0) then upd_resetting s true else s) (get16 p 2)); ret 0
  else if negb (session_id s =? get16 p 2)
       then mdo _ <- send_error_from_host [] c_CORRUPT_DATA txt_wrong_session;
            mdo _ <- change_state c_RTR_ERROR_FATAL; ret (-1)
       else ret 0.

Lemma ret_at fuel z x w : interp2 fuel (ERet z (sock_store x)) w = Some (Ok (z, sock_store x) (with_sk w x)).
Proof. cbn [interp2]. rewrite store_sock_store. reflexivity. Qed.

Theorem cache_response_tie fuel len p w :
  Forall byte_ok p -> 8 <= zlen p -> 8 <= len ->
  interp2 fuel (rtr_handle_cache_response_pdu_gen (in_buffer len p) (Some 0) (sock_store (sk w))) w =
  Some (as_eff (fun r => r) (handle_cache_response p) w).
Proof.
  intros Hb Hp Hl. unfold rtr_handle_cache_response_pdu_gen. cbv zeta.
  change offsetof_pdu_cache_response__session_id with 2. cbn [ptr_add]. change (0 + 2) with 2.
  rewrite !buf_ld_ok by lia. rewrite buf_ld16 by assumption. cbn [eguard].
  pose proof (get16_range p 2 Hb) as Hc.
  rewrite (wrapu32_id (get16 p 2)) by (change (2 ^ 32) with 4294967296; lia).
  rewrite sg_req, z2b_b2z, sg_last, sg_session. change (wraps 64 0) with 0.
  unfold as_eff, handle_cache_response. rewrite bind_assoc, bind_get_sk.
  destruct (req_sess (sk w)).
  - change (b2z (z2b 1)) with (b2z true). rewrite ss_resetting.
    rewrite bind_assoc. change (bind (set_sk ?s) ?f w) with (f tt (with_sk w s)). cbv beta.
    destruct (negb (last_update (sk w) =? 0)); rewrite ss_session, ret_at; reflexivity.
  - destruct (negb (session_id (sk w) =? get16 p 2)).
    + rewrite (i2_send_error fuel _ _ _ _ [] c_CORRUPT_DATA txt_wrong_session) by (vm_compute; reflexivity).
      rewrite with_sk_store. rewrite !bind_assoc. apply xbind_some. intros r w1 E1. cbv beta.
      rewrite store_after_plain. change (wrapu 32 7) with c_RTR_ERROR_FATAL.
      rewrite i2_change_state, with_sk_store, store_after_plain. cbv beta. rewrite leaf2_ret.
      unfold bind. rewrite change_state_eq'. reflexivity.
    + rewrite leaf2_ret. reflexivity.
Qed.

(* ====================================================================================================== *)
(* 6. rtr_sync                                                                                              *)
(* ====================================================================================================== *)
(* ---------- frame: receiving keeps the version inside unsigned int (it only ever sets it to 0) ---------- *)
Definition V (w w' : world) : Prop := 0 <= version (sk w) < 2^32 -> 0 <= version (sk w') < 2^32.
Lemma V_refl w : V w w. Proof. unfold V; auto. Qed.
Lemma V_trans a b c : V a b -> V b c -> V a c. Proof. unfold V; auto. Qed.
Notation relV := (rel V).
Ltac vstep := rstep V V_refl V_trans.
Ltac vfin := unfold V; sk_simpl; auto; try (intros _; change (2 ^ 32) with 4294967296; lia).
Ltac vprim := unfold rel; unfold_prims; vfin.
Lemma change_state_V ns w : relV (change_state ns) w.
Proof. unfold change_state. repeat vstep; try vprim. Qed.
Lemma tr_recv_V len t w : relV (tr_recv len t) w.
Proof.
  unfold rel, tr_recv. destruct (tr_recv_evs _ _ _ _ _) as [[[[[c|b]|] es] t'] tr]; try destruct (c =? -99); vfin.
Qed.
Lemma tr_recv_all_loop_V fuel : forall len e acc w, relV (tr_recv_all_loop fuel len e acc) w.
Proof.
  induction fuel as [|f IH]; intros; cbn [tr_recv_all_loop]; [apply (rel_ret V V_refl)|].
  repeat vstep; try apply change_state_V; try apply tr_recv_V; try apply IH.
Qed.
Lemma tr_recv_all_V len t w : relV (tr_recv_all len t) w.
Proof. unfold tr_recv_all. repeat vstep. apply tr_recv_all_loop_V. Qed.
Lemma tr_send_V b w : relV (tr_send b) w.
Proof. unfold rel, tr_send. destruct (sends w); destruct (_ <? 0); vfin. Qed.
Lemma tr_send_all_loop_V fuel : forall b tot w, relV (tr_send_all_loop fuel b tot) w.
Proof.
  induction fuel as [|f IH]; intros; cbn [tr_send_all_loop]; [apply (rel_ret V V_refl)|].
  repeat vstep; try apply tr_send_V; try apply IH.
Qed.
Lemma send_pdu_V b w : relV (send_pdu b) w.
Proof. unfold send_pdu, tr_send_all. repeat vstep; try apply tr_send_all_loop_V. Qed.
Lemma send_error_pdu_V enc c t w : relV (send_error_pdu enc c t) w.
Proof. unfold send_error_pdu. repeat vstep; try apply send_pdu_V. Qed.
Ltac vlem := match goal with
  | |- relV (change_state _) _ => apply change_state_V
  | |- relV (tr_recv_all _ _) _ => apply tr_recv_all_V
  | |- relV (send_pdu _) _ => apply send_pdu_V
  | |- relV (send_error_pdu _ _ _) _ => apply send_error_pdu_V end.
Lemma recv_err_V c w : relV (recv_err c) w.
Proof. unfold recv_err. repeat vstep; try vlem. Qed.
Lemma receive_pdu_V t w : relV (receive_pdu t) w.
Proof.
  unfold receive_pdu. repeat vstep; try vlem; try apply recv_err_V. all: try (vprim; fail).
  all: try (unfold rel; unfold_prims; repeat match goal with |- context [if ?c then _ else _] => destruct c eqn:? end; vfin).
Qed.
Lemma receive_pdu_version t w r w' : receive_pdu t w = Ok r w' -> 0 <= version (sk w) < 2^32 -> 0 <= version (sk w') < 2^32.
Proof. intros E. pose proof (receive_pdu_V t w) as H. unfold rel in H. rewrite E in H. exact H. Qed.
Lemma receive_pdu_Tm t w r w' : receive_pdu t w = Ok r w' -> Tm w -> Tm w'.
Proof. intros E HT. pose proof (receive_pdu_T t w) as H. unfold rel in H. rewrite E in H. apply H, HT. Qed.

(* ---------- the model's rtr_sync, cut where the C is cut ---------- *)
Definition sync_tail (fuel : nat) (p : list byte) : world -> res Z :=
  let ty := nthb p 1 in
  if ty =? c_ERROR then mdo _ <- handle_error_pdu p; ret (-1)
  else if ty =? c_CACHE_RESET then mdo _ <- change_state c_RTR_ERROR_NO_INCR_UPDATE_AVAIL; ret (-1)
  else if ty =? c_CACHE_RESPONSE then
    mdo c <- handle_cache_response p;
    if c =? -1 then ret (-1)
    else mdo r <- receive_and_store fuel;
         if r =? 0 then mdo _ <- modify_sk (fun s => upd_req s false); set_last_update else ret (-1)
  else mdo _ <- send_error_from_host (firstn 8 p) c_CORRUPT_DATA txt_unexp_sync; ret (-1).
Definition sync_rest (fuel : nat) (fp : option (list byte)) : world -> res Z :=
  match fp with None => ret (-1) | Some p => sync_tail fuel p end.

Lemma bind_ext {A B} (m : world -> res A) (f g : A -> world -> res B) w :
  (forall a w', f a w' = g a w') -> bind m f w = bind m g w.
Proof. intros H. unfold bind. destruct (m w); [apply H|reflexivity]. Qed.

Lemma rtr_sync_split fuel w : rtr_sync fuel w = bind (sync_first fuel) (sync_rest fuel) w.
Proof.
  unfold rtr_sync. apply bind_ext. intros [p|] w1; [|reflexivity].
  unfold sync_rest, sync_tail. cbv zeta.
  destruct (nthb p 1 =? c_ERROR); [reflexivity|]. destruct (nthb p 1 =? c_CACHE_RESET); [reflexivity|].
  destruct (nthb p 1 =? c_CACHE_RESPONSE); [|reflexivity].
  unfold handle_cache_response, set_last_update. unfold bind, get_sk, set_sk, ret, modify_sk, get_now. cbn [negb].
  destruct (req_sess (sk w1)).
  - cbn [Z.eqb negb]. destruct (receive_and_store fuel _) as [r w2|x w2]; [|reflexivity]. destruct (r =? 0); reflexivity.
  - destruct (negb (session_id (sk w1) =? get16 p 2)).
    + destruct (send_error_from_host _ _ _ w1) as [r w2|x w2]; [|reflexivity].
      destruct (change_state c_RTR_ERROR_FATAL w2) as [u w3|x w3]; reflexivity.
    + cbn [Z.eqb negb]. destruct (receive_and_store fuel _) as [r w2|x w2]; [|reflexivity]. destruct (r =? 0); reflexivity.
Qed.

(* ---------- arguments and reads of the translated code ---------- *)
Lemma decode_err_args_buf (B : list Z) len code (T : list Z) tlen :
  decode_err_args ((Z.of_nat (List.length B) :: B) ++ [len; code] ++ (Z.of_nat (List.length T) :: T) ++ [tlen])%list =
  (to_host (firstn (Z.to_nat len) B), code, firstn (Z.to_nat tlen) T).
Proof.
  unfold decode_err_args. cbn [app nth skipn]. rewrite Nat2Z.id.
  rewrite firstn_app, firstn_all, Nat.sub_diag. cbn [firstn]. rewrite app_nil_r.
  rewrite skipn_app, skipn_all, Nat.sub_diag. cbn [skipn app nth]. rewrite Nat2Z.id.
  rewrite firstn_app, firstn_all, Nat.sub_diag. cbn [firstn]. rewrite app_nil_r.
  rewrite app_nth2 by lia. rewrite Nat.sub_diag. reflexivity.
Qed.
Lemma to_host_first8 len p : 8 <= zlen p -> 8 <= len -> to_host (firstn 8 (in_buffer len p)) = firstn 8 p.
Proof.
  unfold zlen, in_buffer, pad_buf. intros Hp Hl. rewrite firstn_firstn.
  replace (Nat.min 8 (Z.to_nat len)) with 8%nat by lia.
  do 8 (destruct p as [|? p]; [cbn [List.length] in Hp; lia|]). reflexivity.
Qed.
Lemma buf_pdu_type len p : 8 <= zlen p -> 8 <= len ->
  rtr_get_pdu_type_gen (in_buffer len p) (Some 0) = Some (wrapu 32 (wrapu 32 (wraps 8 (nthb p 1)))).
Proof.
  intros Hp Hl. unfold in_buffer. rewrite get_pdu_type_pad by lia.
  destruct (to_host_hdr p Hp) as (_ & -> & _). reflexivity.
Qed.
Lemma type_byte_eq b k : 0 <= b < 256 -> 0 <= k < 128 ->
  (wrapu 32 (wrapu 32 (wrapu 32 (wraps 8 b))) =? wrapu 32 k) = (b =? k).
Proof.
  intros H Hk. rewrite (wrapu32_id k) by (change (2 ^ 32) with 4294967296; lia). rewrite wrapu32_idem.
  unfold wraps. change (2 ^ 8) with 256. change (2 ^ (8 - 1)) with 128.
  rewrite (Z.mod_small b 256) by lia. destruct (b <? 128) eqn:E.
  - rewrite (wrapu32_id b), (wrapu32_id b) by (change (2 ^ 32) with 4294967296; lia). reflexivity.
  - assert (E1 : wrapu 32 (b - 256) = b - 256 + 4294967296).
    { unfold wrapu. change (2 ^ 32) with 4294967296. symmetry. apply (Z.mod_unique _ _ (-1)); lia. }
    rewrite E1. rewrite wrapu32_id by (change (2 ^ 32) with 4294967296; lia). lia.
Qed.
Lemma z2b_wraps_b2z b : z2b (wraps 32 (b2z b)) = b. Proof. destruct b; reflexivity. Qed.
Lemma set_last_update_eq w : set_last_update w = Ok 0 (with_sk w (upd_last (sk w) (now w))). Proof. reflexivity. Qed.

Lemma ret_m1 fuel w : interp2 fuel (ERet (-1) (sock_store (sk w))) w = Some (bind (ret (-1)) (fun a w' => Ok (a, sock_store (sk w')) w') w).
Proof. apply leaf2_ret. Qed.

Theorem sync_loop_tie F : forall f m t o w, Tm w -> 0 <= version (sk w) < 2^32 ->
  interp2 F (rtr_sync__loop0 f m t o (sock_store (sk w))) w =
  Some (as_eff (fun r => r) (bind (sync_first f) (sync_rest F)) w).
Proof.
  induction f as [|f IH]; intros m t o w HT HV.
  { cbn [rtr_sync__loop0]. rewrite i2_out_of_fuel, with_sk_store, store_after_plain. apply leaf2_ret. }
  cbn [rtr_sync__loop0].
  rewrite i2_receive by reflexivity. rewrite with_sk_store.
  unfold as_eff. cbn [sync_first]. rewrite !bind_assoc.
  change (wraps 64 c_RTR_RECV_TIMEOUT) with c_RTR_RECV_TIMEOUT.
  apply xbind_some. intros r w1 E1. cbv beta. rewrite store_after_plain.
  pose proof (receive_pdu_Tm _ _ _ _ E1 HT) as HT1. pose proof (receive_pdu_version _ _ _ _ E1 HV) as HV1.
  destruct r as [c|p].
  - pose proof (receive_pdu_neg _ _ _ _ E1) as Hc. cbv zeta. cbn [nth skipn].
    rewrite sg_req, z2b_wraps_b2z, sg_version. rewrite bind_assoc, bind_get_sk.
    replace (c <? 0) with true by lia.
    change (wrapu 32 c_RTR_PROTOCOL_MIN_SUPPORTED_VERSION) with c_RTR_PROTOCOL_MIN_SUPPORTED_VERSION.
    destruct ((c =? -4) && req_sess (sk w1)) eqn:Ea.
    + destruct (version (sk w1) >? c_RTR_PROTOCOL_MIN_SUPPORTED_VERSION) eqn:Ev.
      * cbn [andb]. change (wrapu 32 1) with 1.
        rewrite (wrapu32_id (version (sk w1) - 1)) by (change c_RTR_PROTOCOL_MIN_SUPPORTED_VERSION with 0 in Ev; lia).
        rewrite ss_version. rewrite <- (interp2_sk F _ w1 (upd_version (sk w1) (version (sk w1) - 1))).
        rewrite !bind_assoc. change (bind (set_sk ?s) ?f w1) with (f tt (with_sk w1 s)). cbv beta.
        rewrite bind_assoc.
        etransitivity; [apply (leaf2_change F 4 (-1) (with_sk w1 (upd_version (sk w1) (version (sk w1) - 1))))|reflexivity].
      * cbn [andb]. replace ((c =? -2) || (c =? -4)) with true by lia.
        rewrite bind_assoc. rewrite leaf2_change. reflexivity.
    + replace ((c =? -4) && req_sess (sk w1) && (version (sk w1) >? c_RTR_PROTOCOL_MIN_SUPPORTED_VERSION)) with false
        by (rewrite Ea; reflexivity).
      cbn [andb]. destruct ((c =? -2) || (c =? -4)).
      * rewrite bind_assoc. rewrite leaf2_change. reflexivity.
      * apply leaf2_ret.
  - destruct (RecvProofs.receive_pdu_ok _ _ _ _ E1) as (Hcs & _ & Hp8 & _).
    pose proof (receive_pdu_bytes _ _ _ _ HT E1) as Hb.
    pose proof (check_size_type _ Hcs) as Hty.
    assert (H8 : 8 <= c_RTR_MAX_PDU_LEN) by (vm_compute; discriminate).
    cbv zeta. cbn [nth skipn]. change (wrapu 64 c_RTR_MAX_PDU_LEN) with c_RTR_MAX_PDU_LEN.
    fold (in_buffer c_RTR_MAX_PDU_LEN p).
    closed_eqb. change (0 <? 0) with false. cbv iota.
    rewrite buf_pdu_type by assumption. cbn [eopt].
    rewrite !type_byte_eq by lia.
    change c_SERIAL_NOTIFY with 0. destruct (nthb p 1 =? 0).
    { rewrite (IH _ _ o w1 HT1 HV1). unfold as_eff. rewrite bind_assoc. reflexivity. }
    rewrite bind_ret. cbn [sync_rest]. unfold sync_tail. cbv zeta.
    change c_ERROR with 10. change c_CACHE_RESET with 8. change c_CACHE_RESPONSE with 3.
    destruct (nthb p 1 =? 10).
    { rewrite (interp2_ebind_model F _ _ _ _ w1 (handle_error_tie F _ p w1 Hb Hp8 H8 HV1)).
      rewrite bind_assoc. apply xbind_some. intros [] w2 E2. apply leaf2_ret. }
    destruct (nthb p 1 =? 8).
    { rewrite bind_assoc. rewrite leaf2_change. reflexivity. }
    destruct (nthb p 1 =? 3).
    { rewrite (interp2_ebind_model F _ _ _ _ w1 (cache_response_tie F _ p w1 Hb Hp8 H8)).
      rewrite bind_assoc. apply xbind_some. intros c w2 E2. cbv beta.
      destruct (c =? -1); [apply leaf2_ret|].
      rewrite i2_store, with_sk_store, bind_assoc. apply xbind_some. intros r w3 E3. cbv beta.
      rewrite store_after_plain. cbn [nth].
      destruct (r =? 0).
      - change (0 =? -1) with false. cbv iota. change (b2z (z2b 0)) with (b2z false). rewrite ss_req.
        rewrite <- (interp2_sk F _ w3 (upd_req (sk w3) false)).
        set (w4 := with_sk w3 (upd_req (sk w3) false)).
        change (sock_store (upd_req (sk w3) false)) with (sock_store (sk w4)).
        rewrite (interp2_ebind_model F _ _ _ _ w4 (set_last_update_tie F w4)).
        unfold xbind. rewrite set_last_update_eq. change (0 =? -1) with false. cbv iota.
        etransitivity; [apply leaf2_ret|reflexivity].
      - change (-1 =? -1) with true. cbv iota. apply leaf2_ret. }
    erewrite i2_send_error;
      [|rewrite decode_err_args_buf; change (Z.to_nat (wrapu 32 8)) with 8%nat; rewrite to_host_first8 by assumption; reflexivity].
    rewrite with_sk_store, bind_assoc. apply xbind_some. intros r w2 E2. cbv beta.
    rewrite store_after_plain. apply leaf2_ret.
Qed.

Theorem sync_tie fuel w : Tm w -> 0 <= version (sk w) < 2^32 ->
  interp2 fuel (rtr_sync_gen fuel (sock_store (sk w))) w = Some (as_eff (fun r => r) (rtr_sync fuel) w).
Proof.
  intros HT HV. unfold rtr_sync_gen. cbv zeta. rewrite sync_loop_tie by assumption.
  unfold as_eff. unfold bind at 1 3. rewrite rtr_sync_split. reflexivity.
Qed.

(* ====================================================================================================== *)
(* 7. world-level corollaries, examples                                                                     *)
(* ====================================================================================================== *)
Definition run_eff2 (fuel : nat) (e : eff) (w : world) : option (res Z) :=
  match interp2 fuel e w with
  | Some (Ok (r, _) w') => Some (Ok r w')
  | Some (Exc x w') => Some (Exc x w')
  | None => None
  end.
Lemma run_eff2_as_eff fuel e (m : world -> res Z) w :
  interp2 fuel e w = Some (as_eff (fun r => r) m w) -> run_eff2 fuel e w = Some (m w).
Proof. intros H. unfold run_eff2. rewrite H. unfold as_eff, bind. destruct (m w); reflexivity. Qed.

Corollary sync_tie_world fuel w : Tm w -> 0 <= version (sk w) < 2^32 ->
  run_eff2 fuel (rtr_sync_gen fuel (sock_store (sk w))) w = Some (rtr_sync fuel w).
Proof. intros. apply run_eff2_as_eff, sync_tie; assumption. Qed.
Corollary cache_response_tie_world fuel len p w : Forall byte_ok p -> 8 <= zlen p -> 8 <= len ->
  run_eff2 fuel (rtr_handle_cache_response_pdu_gen (in_buffer len p) (Some 0) (sock_store (sk w))) w = Some (handle_cache_response p w).
Proof. intros. apply run_eff2_as_eff, cache_response_tie; assumption. Qed.
Corollary set_last_update_tie_world fuel w :
  run_eff2 fuel (rtr_set_last_update_gen (sock_store (sk w))) w = Some (set_last_update w).
Proof. apply run_eff2_as_eff, set_last_update_tie. Qed.
Corollary handle_error_tie_world fuel len p w :
  Forall byte_ok p -> 8 <= zlen p -> 8 <= len -> 0 <= version (sk w) < 2^32 ->
  run_eff2 fuel (rtr_handle_error_pdu_gen (in_buffer len p) (Some 0) (sock_store (sk w))) w =
  Some (match handle_error_pdu p w with Ok _ w' => Ok 0 w' | Exc x w' => Exc x w' end).
Proof.
  intros Hb Hp Hl Hv. unfold run_eff2. rewrite (handle_error_tie fuel len p w Hb Hp Hl Hv).
  unfold as_eff, bind. destruct (handle_error_pdu p w); reflexivity.
Qed.
Corollary stop_tie_world fuel tid w : tid <> 0 ->
  run_eff2 fuel (rtr_stop_gen (sock_store_t tid (sk w))) w =
  Some (match rtr_stop_body w with Ok _ w' => Ok 0 w' | Exc x w' => Exc x w' end).
Proof.
  intros Ht. unfold run_eff2. rewrite (stop_tie fuel tid w Ht). unfold bind. destruct (rtr_stop_body w); reflexivity.
Qed.

(* --- closed worlds: the C07 example script (Cache Response + IPv4 prefix + End of Data first): after two iterations
       the socket is in RTR_SYNC with the response waiting on the transport --- *)
Definition sync_w : world := run_fsm 2 100 ex_w0.
Example sync_w_ready : st (sk sync_w) = c_RTR_SYNC /\ 0 <= version (sk sync_w) < 2^32.
Proof. vm_compute. repeat split; congruence. Qed.
Example sync_on_ex_w0 :
  interp2 100 (rtr_sync_gen 100 (sock_store (sk sync_w))) sync_w = Some (as_eff (fun r => r) (rtr_sync 100) sync_w) /\
  (exists w', rtr_sync 100 sync_w = Ok 0 w' /\ req_sess (sk w') = false /\ last_update (sk w') = now w' /\ pfx w' <> []).
Proof.
  split; [vm_compute; reflexivity|]. eexists. split; [vm_compute; reflexivity|]. vm_compute. repeat split; congruence.
Qed.
(* later on the same script: a Cache Reset answers the serial query (state RTR_ERROR_NO_INCR_UPDATE_AVAIL), and the
   reload that follows is cut short by a transport error *)
Example sync_later_on_ex_w0 :
  forall n, In n [4; 5; 6; 7; 8; 9]%nat ->
  let w := run_fsm n 100 ex_w0 in
  interp2 100 (rtr_sync_gen 100 (sock_store (sk w))) w = Some (as_eff (fun r => r) (rtr_sync 100) w).
Proof. intros n Hn. repeat (destruct Hn as [<-|Hn]; [vm_compute; reflexivity|]). destruct Hn. Qed.
(* rtr_stop on a running socket with data, thread id 77 *)
Example stop_on_ex_w0 :
  let w := run_fsm 3 100 ex_w0 in
  interp2 0 (rtr_stop_gen (sock_store_t 77 (sk w))) w = Some (bind rtr_stop_body (fun _ w' => Ok (0, sock_store_t 0 (sk w')) w') w) /\
  pfx w <> [] /\ (exists w', rtr_stop_body w = Ok tt w' /\ pfx w' = [] /\ st (sk w') = c_RTR_CLOSED).
Proof.
  split; [vm_compute; reflexivity|]. split; [vm_compute; congruence|]. eexists. split; [vm_compute; reflexivity|].
  vm_compute. split; reflexivity.
Qed.
(* the out-of-fuel marker: with fuel 0 the tree returns -1 as the model does *)
Example sync_no_fuel : run_eff2 0 (rtr_sync_gen 0 (sock_store (sk sync_w))) sync_w = Some (rtr_sync 0 sync_w).
Proof. vm_compute. reflexivity. Qed.

Example no_translator_problems2 : fsm2_translator_problems = []. Proof. reflexivity. Qed.

Print Assumptions stop_tie.
Print Assumptions stop_tie_not_started.
Print Assumptions set_last_update_tie.
Print Assumptions handle_error_tie.
Print Assumptions cache_response_tie.
Print Assumptions sync_loop_tie.
Print Assumptions sync_tie.
Print Assumptions sync_tie_world.
Print Assumptions rtr_sync_split.
Print Assumptions sync_on_ex_w0.
Print Assumptions stop_on_ex_w0.
