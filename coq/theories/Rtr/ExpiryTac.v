(* ExpiryTac.v - tactics shared by the C07 / C08 proofs: the relational driver of Rtr/VersionProofs.v
   made generic in the relation, and a variant for specifications that also speak about the result. *)
From RtrV Require Import Base.CSem Gen.Generated Rtr.RtrModel Rtr.RelFrame.
Local Open Scope Z_scope.

(* peel one bind / if / match of a goal [rel R m w] *)
Ltac rstep R Rr Rt :=
  match goal with
  | |- rel R (ret _) _ => apply (rel_ret R Rr)
  | |- rel R (bind get_sk _) ?w => apply (rel_bind R Rt); [unfold rel; unfold_prims; apply Rr | let H := fresh "Heq" in intros ? ? H; unfold_prims_in H; injection H as <- <-]
  | |- rel R (bind get_now _) ?w => apply (rel_bind R Rt); [unfold rel; unfold_prims; apply Rr | let H := fresh "Heq" in intros ? ? H; unfold_prims_in H; injection H as <- <-]
  | |- rel R (bind get_w _) ?w => apply (rel_bind R Rt); [unfold rel; unfold_prims; apply Rr | let H := fresh "Heq" in intros ? ? H; unfold_prims_in H; injection H as <- <-]
  | |- rel R (bind _ _) ?w => apply (rel_bind R Rt); [ | intros ? ? ?Heq]
  | |- rel R (if ?c then _ else _) _ => destruct c eqn:?
  | |- rel R (match ?x with _ => _ end) _ => destruct x eqn:?
  | |- rel R ((fun _ => _) _) _ => cbv beta
  | |- rel R (let _ := _ in _) _ => cbv zeta
  end.

Ltac sk_simpl :=
  cbn [sk pfx keys evs opens sends now out
       st version session_id req_sess serial last_update refresh_iv expire_iv retry_iv iv_mode has_recv resetting
       upd_st upd_version upd_session upd_req upd_serial upd_last upd_ivs upd_hasrecv upd_resetting].

Ltac sk_simpl_in H :=
  cbn [sk pfx keys evs opens sends now out
       st version session_id req_sess serial last_update refresh_iv expire_iv retry_iv iv_mode has_recv resetting
       upd_st upd_version upd_session upd_req upd_serial upd_last upd_ivs upd_hasrecv upd_resetting] in H.

(* result of a monadic computation: final world, whatever the outcome *)
Definition final {A} (r : res A) : world := match r with Ok _ w => w | Exc _ w => w end.

Lemma rel_final R {A} (m : world -> res A) w : rel R m w <-> R w (final (m w)).
Proof. unfold rel, final. destruct (m w); tauto. Qed.

(* the eleven states of the socket by name (Generated.v gives the numbers) *)
Lemma bool_if_eq {A} (b : bool) (x y : A) : (if b then x else y) = if b then x else y. Proof. reflexivity. Qed.

(* ---------- a small Hoare logic for result-dependent facts ----------
   [hoare m w Q QX]: if [m] terminates normally from [w] the result and final world satisfy [Q]; if it is
   interrupted by a stop event the world satisfies [QX]; nothing is claimed when the scripts ran out
   (the run ends there). *)
Definition hoare {A} (m : world -> res A) (w : world) (Q : A -> world -> Prop) (QX : world -> Prop) : Prop :=
  match m w with
  | Ok a w' => Q a w'
  | Exc XStop w' => QX w'
  | Exc (XEnd _) _ => True
  end.

Lemma hoare_bind {A B} (m : world -> res A) (f : A -> world -> res B) w Q1 Q QX :
  hoare m w Q1 QX -> (forall a w', m w = Ok a w' -> Q1 a w' -> hoare (f a) w' Q QX) -> hoare (bind m f) w Q QX.
Proof.
  unfold hoare, bind. intros H1 H2. destruct (m w) as [a w'|[why|] w'] eqn:E; auto.
  apply (H2 a w' eq_refl H1).
Qed.

Lemma hoare_conseq {A} (m : world -> res A) w (Q Q' : A -> world -> Prop) (QX QX' : world -> Prop) :
  hoare m w Q QX -> (forall a w', Q a w' -> Q' a w') -> (forall w', QX w' -> QX' w') -> hoare m w Q' QX'.
Proof. unfold hoare. intros H H1 H2. destruct (m w) as [a w'|[why|] w']; auto. Qed.

Lemma hoare_ret {A} (a : A) w (Q : A -> world -> Prop) QX : Q a w -> hoare (ret a) w Q QX.
Proof. unfold hoare, ret. auto. Qed.

Lemma hoare_of_rel R {A} (m : world -> res A) w : rel R m w -> hoare m w (fun _ w' => R w w') (fun w' => R w w').
Proof. unfold rel, hoare. destruct (m w) as [a w'|[why|] w']; auto. Qed.

(* two relations at once *)
Lemma hoare_of_rel2 R1 R2 {A} (m : world -> res A) w :
  rel R1 m w -> rel R2 m w -> hoare m w (fun _ w' => R1 w w' /\ R2 w w') (fun w' => R1 w w' /\ R2 w w').
Proof. unfold rel, hoare. destruct (m w) as [a w'|[why|] w']; auto. Qed.

(* ---------- explicit world updates ---------- *)
Definition with_sk (w : world) (s : sock) : world := mkW s (pfx w) (keys w) (evs w) (opens w) (sends w) (now w) (out w).
Definition with_out (w : world) (o : list titem) : world := mkW (sk w) (pfx w) (keys w) (evs w) (opens w) (sends w) (now w) o.
Definition with_tables (w : world) (p : list prec) (k : list krec) : world :=
  mkW (sk w) p k (evs w) (opens w) (sends w) (now w) (out w).

(* ---------- computations that always terminate normally ---------- *)
Definition total {A} (m : world -> res A) : Prop := forall w, exists a w', m w = Ok a w'.
Lemma total_ret {A} (a : A) : total (ret a). Proof. intros w. unfold ret. eauto. Qed.
Lemma total_bind {A B} (m : world -> res A) (f : A -> world -> res B) :
  total m -> (forall a, total (f a)) -> total (bind m f).
Proof. intros Hm Hf w. unfold bind. destruct (Hm w) as (a & w' & ->). apply Hf. Qed.
Lemma total_get_sk : total get_sk. Proof. intros w; unfold get_sk; eauto. Qed.
Lemma total_get_now : total get_now. Proof. intros w; unfold get_now; eauto. Qed.
Lemma total_get_w : total get_w. Proof. intros w; unfold get_w; eauto. Qed.
Lemma total_set_sk s : total (set_sk s). Proof. intros w; unfold set_sk; eauto. Qed.
Lemma total_emit t : total (emit t). Proof. intros w; unfold emit; eauto. Qed.
Lemma total_emit_all l : total (emit_all l). Proof. intros w; unfold emit_all; eauto. Qed.
Lemma total_set_tables p k : total (set_tables p k). Proof. intros w; unfold set_tables; eauto. Qed.
Lemma total_modify_sk g : total (modify_sk g). Proof. intros w; unfold modify_sk, bind, get_sk, set_sk; eauto. Qed.
Lemma total_if {A} (b : bool) (m1 m2 : world -> res A) : total m1 -> total m2 -> total (if b then m1 else m2).
Proof. destruct b; auto. Qed.

Ltac ttac :=
  repeat match goal with
  | |- total (ret _) => apply total_ret
  | |- total get_sk => apply total_get_sk
  | |- total get_now => apply total_get_now
  | |- total get_w => apply total_get_w
  | |- total (set_sk _) => apply total_set_sk
  | |- total (emit _) => apply total_emit
  | |- total tr_close => apply total_emit
  | |- total (emit_all _) => apply total_emit_all
  | |- total (set_tables _ _) => apply total_set_tables
  | |- total (modify_sk _) => apply total_modify_sk
  | |- total (bind _ _) => apply total_bind; [|intros ?]
  | |- total (if _ then _ else _) => apply total_if
  | |- total (match ?x with _ => _ end) => destruct x
  | |- total (let _ := _ in _) => cbv zeta
  | |- total ((fun _ => _) _) => cbv beta
  end.

Lemma total_change_state ns : total (change_state ns).
Proof. unfold change_state. ttac. Qed.
Lemma total_tr_send b : total (tr_send b).
Proof. intros w. unfold tr_send. destruct (sends w); destruct (_ <? 0); eauto. Qed.
Lemma total_tr_send_all_loop fuel : forall b tot, total (tr_send_all_loop fuel b tot).
Proof.
  induction fuel as [|f IH]; intros; cbn [tr_send_all_loop]; [apply total_ret|].
  destruct b as [|x b]; [apply total_ret|]. apply total_bind; [apply total_tr_send|]. intros r. ttac. apply IH.
Qed.
Lemma total_send_pdu b : total (send_pdu b).
Proof. unfold send_pdu, tr_send_all. ttac. apply total_tr_send_all_loop. Qed.
Lemma total_send_error_pdu enc c t : total (send_error_pdu enc c t).
Proof. unfold send_error_pdu. ttac. apply total_send_pdu. Qed.
Lemma total_send_error_from_host enc c t : total (send_error_from_host enc c t).
Proof. unfold send_error_from_host. ttac; apply total_send_error_pdu. Qed.
Lemma total_report_update_failure p c k : total (report_update_failure p c k).
Proof. unfold report_update_failure. ttac; first [apply total_send_error_from_host | apply total_change_state]. Qed.
Lemma total_src_remove_all : total src_remove_all.
Proof. unfold src_remove_all. ttac. Qed.
Lemma total_purge_after_failed_undo : total purge_after_failed_undo.
Proof. unfold purge_after_failed_undo. ttac. apply total_src_remove_all. Qed.
Lemma total_purge_outdated : total purge_outdated.
Proof. unfold purge_outdated. ttac. apply total_src_remove_all. Qed.
Lemma total_send_serial_query : total send_serial_query.
Proof. unfold send_serial_query. ttac; first [apply total_send_pdu | apply total_change_state]. Qed.
Lemma total_send_reset_query : total send_reset_query.
Proof. unfold send_reset_query. ttac; first [apply total_send_pdu | apply total_change_state]. Qed.
Lemma total_handle_error_pdu p : total (handle_error_pdu p).
Proof. unfold handle_error_pdu. ttac; apply total_change_state. Qed.

(* ---------- [okay m w Q]: m terminates normally from w and Q holds of result and final world ---------- *)
Definition okay {A} (m : world -> res A) (w : world) (Q : A -> world -> Prop) : Prop :=
  match m w with Ok a w' => Q a w' | Exc _ _ => False end.

Lemma okay_ret {A} (a : A) w (Q : A -> world -> Prop) : Q a w -> okay (ret a) w Q.
Proof. unfold okay, ret. auto. Qed.
Lemma okay_bind {A B} (m : world -> res A) (f : A -> world -> res B) w (Q1 : A -> world -> Prop) (Q : B -> world -> Prop) :
  okay m w Q1 -> (forall a w', Q1 a w' -> okay (f a) w' Q) -> okay (bind m f) w Q.
Proof. unfold okay, bind. intros H1 H2. destruct (m w) as [a w'|e w']; [apply H2, H1|contradiction]. Qed.
Lemma okay_conseq {A} (m : world -> res A) w (Q Q' : A -> world -> Prop) :
  okay m w Q -> (forall a w', Q a w' -> Q' a w') -> okay m w Q'.
Proof. unfold okay. intros H H1. destruct (m w); auto. Qed.
Lemma okay_frame R {A} (m : world -> res A) w : total m -> rel R m w -> okay m w (fun _ w' => R w w').
Proof. unfold okay, rel. intros Ht H. destruct (Ht w) as (a & w' & E). rewrite E in *. exact H. Qed.
Lemma okay_eq {A} (m : world -> res A) w (Q : A -> world -> Prop) :
  okay m w Q -> exists a w', m w = Ok a w' /\ Q a w'.
Proof. unfold okay. destruct (m w) as [a w'|e w']; [eauto|contradiction]. Qed.
Lemma okay_hoare {A} (m : world -> res A) w (Q : A -> world -> Prop) QX : okay m w Q -> hoare m w Q QX.
Proof. unfold okay, hoare. destruct (m w) as [a w'|[why|] w']; tauto. Qed.

Lemma okay_get_sk {B} w (f : sock -> world -> res B) (Q : B -> world -> Prop) : okay (f (sk w)) w Q -> okay (bind get_sk f) w Q.
Proof. intros H; exact H. Qed.
Lemma okay_get_now {B} w (f : Z -> world -> res B) (Q : B -> world -> Prop) : okay (f (now w)) w Q -> okay (bind get_now f) w Q.
Proof. intros H; exact H. Qed.
Lemma okay_get_w {B} w (f : world -> world -> res B) (Q : B -> world -> Prop) : okay (f w) w Q -> okay (bind get_w f) w Q.
Proof. intros H; exact H. Qed.
Lemma okay_set_sk {B} w s (f : unit -> world -> res B) (Q : B -> world -> Prop) :
  okay (f tt) (with_sk w s) Q -> okay (bind (set_sk s) f) w Q.
Proof. intros H; exact H. Qed.
Lemma okay_modify_sk {B} w g (f : unit -> world -> res B) (Q : B -> world -> Prop) :
  okay (f tt) (with_sk w (g (sk w))) Q -> okay (bind (modify_sk g) f) w Q.
Proof. intros H; exact H. Qed.
Lemma okay_emit_all {B} w l (f : unit -> world -> res B) (Q : B -> world -> Prop) :
  okay (f tt) (with_out w (rev l ++ out w)) Q -> okay (bind (emit_all l) f) w Q.
Proof. intros H; exact H. Qed.
Lemma okay_set_tables {B} w p k (f : unit -> world -> res B) (Q : B -> world -> Prop) :
  okay (f tt) (with_tables w p k) Q -> okay (bind (set_tables p k) f) w Q.
Proof. intros H; exact H. Qed.
Lemma okay_ret_bind {A B} w (a : A) (f : A -> world -> res B) (Q : B -> world -> Prop) :
  okay (f a) w Q -> okay (bind (ret a) f) w Q.
Proof. intros H; exact H. Qed.
Lemma okay_assoc {A B C} (m : world -> res A) (g : A -> world -> res B) (f : B -> world -> res C) w (Q : C -> world -> Prop) :
  okay (bind m (fun a => bind (g a) f)) w Q -> okay (bind (bind m g) f) w Q.
Proof. unfold okay, bind. destruct (m w); auto. Qed.

(* ---------- [hoareE m w Q QE]: normal termination satisfies Q, any interruption (stop event, scripts
   exhausted) leaves a world satisfying QE ---------- *)
Definition hoareE {A} (m : world -> res A) (w : world) (Q : A -> world -> Prop) (QE : world -> Prop) : Prop :=
  match m w with Ok a w' => Q a w' | Exc _ w' => QE w' end.
Lemma hoareE_bind {A B} (m : world -> res A) (f : A -> world -> res B) w (Q1 : A -> world -> Prop) (Q : B -> world -> Prop) (QE : world -> Prop) :
  hoareE m w Q1 QE -> (forall a w', Q1 a w' -> hoareE (f a) w' Q QE) -> hoareE (bind m f) w Q QE.
Proof. unfold hoareE, bind. intros H1 H2. destruct (m w) as [a w'|e w']; [apply H2, H1|exact H1]. Qed.
Lemma hoareE_conseq {A} (m : world -> res A) w (Q Q' : A -> world -> Prop) (QE QE' : world -> Prop) :
  hoareE m w Q QE -> (forall a w', Q a w' -> Q' a w') -> (forall w', QE w' -> QE' w') -> hoareE m w Q' QE'.
Proof. unfold hoareE. intros H H1 H2. destruct (m w); auto. Qed.
Lemma hoareE_ret {A} (a : A) w (Q : A -> world -> Prop) (QE : world -> Prop) : Q a w -> hoareE (ret a) w Q QE.
Proof. unfold hoareE, ret. auto. Qed.
Lemma hoareE_of_rel R {A} (m : world -> res A) w : rel R m w -> hoareE m w (fun _ w' => R w w') (fun w' => R w w').
Proof. unfold rel, hoareE. destruct (m w); auto. Qed.
Lemma hoareE_of_rel2 R1 R2 {A} (m : world -> res A) w :
  rel R1 m w -> rel R2 m w -> hoareE m w (fun _ w' => R1 w w' /\ R2 w w') (fun w' => R1 w w' /\ R2 w w').
Proof. unfold rel, hoareE. destruct (m w); auto. Qed.
Lemma hoareE_of_rel3 R1 R2 R3 {A} (m : world -> res A) w :
  rel R1 m w -> rel R2 m w -> rel R3 m w ->
  hoareE m w (fun _ w' => R1 w w' /\ R2 w w' /\ R3 w w') (fun w' => R1 w w' /\ R2 w w' /\ R3 w w').
Proof. unfold rel, hoareE. destruct (m w); auto. Qed.
Lemma okay_hoareE {A} (m : world -> res A) w (Q : A -> world -> Prop) (QE : world -> Prop) : okay m w Q -> hoareE m w Q QE.
Proof. unfold okay, hoareE. destruct (m w); tauto. Qed.
Lemma hoareE_get_sk {B} w (f : sock -> world -> res B) (Q : B -> world -> Prop) (QE : world -> Prop) :
  hoareE (f (sk w)) w Q QE -> hoareE (bind get_sk f) w Q QE.
Proof. intros H; exact H. Qed.
Lemma hoareE_get_now {B} w (f : Z -> world -> res B) (Q : B -> world -> Prop) (QE : world -> Prop) :
  hoareE (f (now w)) w Q QE -> hoareE (bind get_now f) w Q QE.
Proof. intros H; exact H. Qed.
Lemma hoareE_set_sk {B} w s (f : unit -> world -> res B) (Q : B -> world -> Prop) (QE : world -> Prop) :
  hoareE (f tt) (with_sk w s) Q QE -> hoareE (bind (set_sk s) f) w Q QE.
Proof. intros H; exact H. Qed.
Lemma hoareE_modify_sk {B} w g (f : unit -> world -> res B) (Q : B -> world -> Prop) (QE : world -> Prop) :
  hoareE (f tt) (with_sk w (g (sk w))) Q QE -> hoareE (bind (modify_sk g) f) w Q QE.
Proof. intros H; exact H. Qed.
Lemma hoareE_emit {B} w t (f : unit -> world -> res B) (Q : B -> world -> Prop) (QE : world -> Prop) :
  hoareE (f tt) (with_out w (t :: out w)) Q QE -> hoareE (bind (emit t) f) w Q QE.
Proof. intros H; exact H. Qed.
Lemma hoareE_ret_bind {A B} w (a : A) (f : A -> world -> res B) (Q : B -> world -> Prop) (QE : world -> Prop) :
  hoareE (f a) w Q QE -> hoareE (bind (ret a) f) w Q QE.
Proof. intros H; exact H. Qed.
Lemma hoareE_assoc {A B C} (m : world -> res A) (g : A -> world -> res B) (f : B -> world -> res C) w (Q : C -> world -> Prop) (QE : world -> Prop) :
  hoareE (bind m (fun a => bind (g a) f)) w Q QE -> hoareE (bind (bind m g) f) w Q QE.
Proof. unfold hoareE, bind. destruct (m w); auto. Qed.
Lemma hoareE_and {A} (m : world -> res A) w (Q1 Q2 : A -> world -> Prop) (QE1 QE2 : world -> Prop) :
  hoareE m w Q1 QE1 -> hoareE m w Q2 QE2 -> hoareE m w (fun a w' => Q1 a w' /\ Q2 a w') (fun w' => QE1 w' /\ QE2 w').
Proof. unfold hoareE. destruct (m w); auto. Qed.
Lemma hoareE_bind2 {A B} (m : world -> res A) (f : A -> world -> res B) w (Q1 : A -> world -> Prop) (QE1 : world -> Prop)
      (Q : B -> world -> Prop) (QE : world -> Prop) :
  hoareE m w Q1 QE1 -> (forall w', QE1 w' -> QE w') -> (forall a w', Q1 a w' -> hoareE (f a) w' Q QE) -> hoareE (bind m f) w Q QE.
Proof. unfold hoareE, bind. intros H1 HE H2. destruct (m w) as [a w'|e w']; [apply H2, H1|apply HE, H1]. Qed.

(* decide comparisons between named constants (state numbers, PDU types) *)
Ltac const_dec :=
  repeat match goal with
  | |- context [Z.eqb ?a ?b] => is_const a; is_const b;
      let v := eval vm_compute in (Z.eqb a b) in change (Z.eqb a b) with v
  end; cbv iota; cbn [orb andb negb].

Lemma bind_eq {A B} (m : world -> res A) (f : A -> world -> res B) w a w' : m w = Ok a w' -> bind m f w = f a w'.
Proof. unfold bind. intros ->. reflexivity. Qed.
