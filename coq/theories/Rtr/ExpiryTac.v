(* ExpiryTac.v - tactics shared by the C07 / C08 proofs: the relational driver of Rtr/VersionProofs.v
   made generic in the relation, and a variant for specifications that also speak about the result. *)
From RtrV Require Import Base.CSem Gen.Generated Rtr.RtrModel Rtr.RelFrame.
Local Open Scope Z_scope.

(* peel one bind / if / match of a goal [rel R m w] *)
Ltac rstep R Rr Rt :=
  match goal with
  | |- rel R (ret _) _ => apply (rel_ret R Rr)
  | |- rel R (bind get_sk _) ?w => apply (rel_bind R Rt); [unfold rel; unfold_prims; apply Rr | let H := fresh "Heq" in intros ? ? H; unfold_prims_in H; injection H as <- <-]
  | |- rel R (bind get_now _) ?w => apply (rel_bind R Rt); [unfold rel; unfold_prims; apply Rr | let H := fresh "Heq" in intros ? ? H; unfold_prims_in H; injection H as <- <-]
  | |- rel R (bind get_w _) ?w => apply (rel_bind R Rt); [unfold rel; unfold_prims; apply Rr | let H := fresh "Heq" in intros ? ? H; unfold_prims_in H; injection H as <- <-]
  | |- rel R (bind _ _) ?w => apply (rel_bind R Rt); [ | intros ? ? ?Heq]
  | |- rel R (if ?c then _ else _) _ => destruct c eqn:?
  | |- rel R (match ?x with _ => _ end) _ => destruct x eqn:?
  | |- rel R ((fun _ => _) _) _ => cbv beta
  | |- rel R (let _ := _ in _) _ => cbv zeta
  end.

Ltac sk_simpl :=
  cbn [sk pfx keys evs opens sends now out
       st version session_id req_sess serial last_update refresh_iv expire_iv retry_iv iv_mode has_recv resetting
       upd_st upd_version upd_session upd_req upd_serial upd_last upd_ivs upd_hasrecv upd_resetting].

Ltac sk_simpl_in H :=
  cbn [sk pfx keys evs opens sends now out
       st version session_id req_sess serial last_update refresh_iv expire_iv retry_iv iv_mode has_recv resetting
       upd_st upd_version upd_session upd_req upd_serial upd_last upd_ivs upd_hasrecv upd_resetting] in H.

(* result of a monadic computation: final world, whatever the outcome *)
Definition final {A} (r : res A) : world := match r with Ok _ w => w | Exc _ w => w end.

Lemma rel_final R {A} (m : world -> res A) w : rel R m w <-> R w (final (m w)).
Proof. unfold rel, final. destruct (m w); tauto. Qed.

(* the eleven states of the socket by name (Generated.v gives the numbers) *)
Lemma bool_if_eq {A} (b : bool) (x y : A) : (if b then x else y) = if b then x else y. Proof. reflexivity. Qed.

(* ---------- a small Hoare logic for result-dependent facts ----------
   [hoare m w Q QX]: if [m] terminates normally from [w] the result and final world satisfy [Q]; if it is
   interrupted by a stop event the world satisfies [QX]; nothing is claimed when the scripts ran out
   (the run ends there). *)
Definition hoare {A} (m : world -> res A) (w : world) (Q : A -> world -> Prop) (QX : world -> Prop) : Prop :=
  match m w with
  | Ok a w' => Q a w'
  | Exc XStop w' => QX w'
  | Exc (XEnd _) _ => True
  end.

Lemma hoare_bind {A B} (m : world -> res A) (f : A -> world -> res B) w Q1 Q QX :
  hoare m w Q1 QX -> (forall a w', m w = Ok a w' -> Q1 a w' -> hoare (f a) w' Q QX) -> hoare (bind m f) w Q QX.
Proof.
  unfold hoare, bind. intros H1 H2. destruct (m w) as [a w'|[why|] w'] eqn:E; auto.
  apply (H2 a w' eq_refl H1).
Qed.

Lemma hoare_conseq {A} (m : world -> res A) w (Q Q' : A -> world -> Prop) (QX QX' : world -> Prop) :
  hoare m w Q QX -> (forall a w', Q a w' -> Q' a w') -> (forall w', QX w' -> QX' w') -> hoare m w Q' QX'.
Proof. unfold hoare. intros H H1 H2. destruct (m w) as [a w'|[why|] w']; auto. Qed.

Lemma hoare_ret {A} (a : A) w (Q : A -> world -> Prop) QX : Q a w -> hoare (ret a) w Q QX.
Proof. unfold hoare, ret. auto. Qed.

Lemma hoare_of_rel R {A} (m : world -> res A) w : rel R m w -> hoare m w (fun _ w' => R w w') (fun w' => R w w').
Proof. unfold rel, hoare. destruct (m w) as [a w'|[why|] w']; auto. Qed.

(* two relations at once *)
Lemma hoare_of_rel2 R1 R2 {A} (m : world -> res A) w :
  rel R1 m w -> rel R2 m w -> hoare m w (fun _ w' => R1 w w' /\ R2 w w') (fun w' => R1 w w' /\ R2 w w').
Proof. unfold rel, hoare. destruct (m w) as [a w'|[why|] w']; auto. Qed.
