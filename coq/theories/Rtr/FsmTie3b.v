(* FsmTie3b.v - rtr_receive_pdu, translated (Gen/GeneratedFsm3.v), against the model's receive_pdu on the paths AFTER a
   header has been read - for arbitrary worlds.  Continues Rtr/FsmTie3.v (interp3, as_recv).

   Common hypotheses: c_RTR_MAX_PDU_LEN <= len (the C's assert), 8 <= zlen m (the buffer; c_RTR_MAX_PDU_LEN <= zlen m for
   the payload phase), 0 <= st (sk w) < 2^32, st (sk w) <> c_RTR_SHUTDOWN, Tm w (byte-valued input), and
   tr_recv_all 8 t w = Ok (inr h) w1 (the header has been read).  Conclusion, every time:
     interp3 fuel (rtr_receive_pdu_gen m (Some 0) len t (sock_store (sk w))) [] w = Some (as_recv (fun _ => st_list m 0 h) (receive_pdu t) w)
   (result code, final socket fields, final world with its trace; the buffer holds the header as received).
   PROVED:
     recv_too_small         get32 h 4 < 8: Corrupt Data report with the too-small text, RTR_ERROR_FATAL;
     recv_too_big           get32 h 4 > RTR_MAX_PDU_LEN: the same with the snprintf text;
     recv_version_mismatch  lengths fine, 0 <= version < 2^32: first PDU of a connection -> has_received_pdus and the
                            live downgrade 1 -> 0 (after_first); then another version than the socket's, not an Error
                            Report: Unexpected Protocol Version report, RTR_ERROR, state unchanged;
     recv_header_phase      the three together (header_rejects);
     recv_payload_fails     header accepted, 8 < get32 h 4, the payload read yields a negative code: the transport
                            part of the error label (as recv_header_fails of FsmTie3, now with the updated socket).
   NOT PROVED for arbitrary worlds (checked on the closed scripts of FsmTie3 only): payload read succeeds - the
   rtr_pdu_check_size rejection (3) and the success path with the footer conversion (4); and the header-only PDU
   (get32 h 4 = 8: no payload read) which goes straight to those.  What is missing: rtr_pdu_check_size_gen on the PADDED
   buffer with a header_host header (CheckSizeTie.check_size_translated is about the unpadded to_host p, and
   to_host differs from header_host on Router Key PDUs), rtr_pdu_header_to_network_byte_order_gen restoring the header,
   FooterTie.footer_translated lifted to the padded buffer.  Hence no combined receive_pdu_tie yet. *)
From Coq Require Import ZifyBool.
From RtrV Require Import Base.CSem Base.Mem Base.MemW Base.Eff Base.EffMem Gen.Generated Gen.GeneratedMem Gen.GeneratedMemW
  Gen.GeneratedFsm3 Rtr.RtrModel Rtr.RelFrame Rtr.ExpiryTac Rtr.SyncSets Rtr.ExpiryFrames Rtr.ConvergeStutter
  Rtr.ExpiryProofs Rtr.CheckSizeTie Rtr.FooterTie Rtr.FsmTie Rtr.FsmTie2 Rtr.FsmTie3.
Require RtrV.Rtr.RecvBase RtrV.Rtr.RecvProofs.
Local Open Scope string_scope.
Local Open Scope Z_scope.

(* ====================================================================================================== *)
(* 1. calls                                                                                                 *)
(* ====================================================================================================== *)
Lemma decode_net_args_txt (B : list Z) len code (T : list Z) tlen :
  decode_net_args ((Z.of_nat (List.length B) :: B) ++ [len] ++ [code] ++ (Z.of_nat (List.length T) :: T) ++ [tlen])%list =
  (firstn (Z.to_nat len) B, code, firstn (Z.to_nat tlen) T).
Proof.
  unfold decode_net_args. cbn [app nth skipn]. rewrite Nat2Z.id.
  rewrite firstn_app, firstn_all, Nat.sub_diag. cbn [firstn]. rewrite app_nil_r.
  rewrite skipn_app, skipn_all, Nat.sub_diag. cbn [skipn app nth]. rewrite Nat2Z.id.
  rewrite firstn_app, firstn_all, Nat.sub_diag. cbn [firstn]. rewrite app_nil_r.
  rewrite app_nth2 by lia. rewrite Nat.sub_diag. reflexivity.
Qed.
Lemma decode_net_args_null (B : list Z) len code tlen :
  decode_net_args ((Z.of_nat (List.length B) :: B) ++ [len] ++ [code] ++ [0] ++ [tlen])%list =
  (firstn (Z.to_nat len) B, code, firstn (Z.to_nat tlen) []).
Proof.
  unfold decode_net_args. cbn [app nth skipn]. rewrite Nat2Z.id.
  rewrite firstn_app, firstn_all, Nat.sub_diag. cbn [firstn]. rewrite app_nil_r.
  rewrite skipn_app, skipn_all, Nat.sub_diag. cbn [skipn app nth]. reflexivity.
Qed.

Section Calls3b.
Variable fuel : nat.
Variables (s : store) (k : list Z -> store -> eff) (buf : list Z) (w : world).
Let w0 := with_sk w (store_sock s).
Lemma i3_send_net args enc code txt : decode_net_args args = (enc, code, txt) ->
  interp3 fuel (ECall "rtr_send_error_pdu_from_network" args s k) buf w =
  xbind (send_error_pdu enc code txt) (fun r w' => interp3 fuel (k [r] (store_after s (sk w'))) buf w') w0.
Proof.
  intros Hd. cbn [interp3]. change (String.eqb "rtr_send_error_pdu_from_network" "c2v_ret_buffer") with false. cbv iota.
  change (ext_call3 fuel "rtr_send_error_pdu_from_network" args) with
    (let '(enc, code, txt) := decode_net_args args in Some (mdo r <- send_error_pdu enc code txt; ret [r])).
  rewrite Hd. cbv beta iota. unfold xbind, bind. fold w0. destruct (send_error_pdu enc code txt w0); reflexivity.
Qed.
Lemma i3_snprintf fmt :
  interp3 fuel (ECall "snprintf" ([42] ++ fmt ++ [c_RTR_MAX_PDU_LEN])%list s k) buf w =
  interp3 fuel (k (41 :: txt_too_big) (store_after s (sk w0))) buf w0.
Proof.
  cbn [interp3]. change (String.eqb "snprintf" "c2v_ret_buffer") with false. cbv iota.
  change (ext_call3 fuel "snprintf" ([42] ++ fmt ++ [c_RTR_MAX_PDU_LEN])%list) with
    (if (nth 0 ([42] ++ fmt ++ [c_RTR_MAX_PDU_LEN])%list 0 =? 42) && (last ([42] ++ fmt ++ [c_RTR_MAX_PDU_LEN])%list 0 =? c_RTR_MAX_PDU_LEN)
     then Some (ret (41 :: txt_too_big)) else None).
  cbn [app nth]. change (42 =? 42) with true. cbn [andb].
  change (42 :: fmt ++ [c_RTR_MAX_PDU_LEN])%list with ((42 :: fmt) ++ [c_RTR_MAX_PDU_LEN])%list.
  rewrite last_last, Z.eqb_refl. reflexivity.
Qed.
End Calls3b.

(* ====================================================================================================== *)
(* 2. the header in memory                                                                                  *)
(* ====================================================================================================== *)
(* a buffer of at least 8 bytes and a header of exactly 8, both spelled out *)
Lemma list8 (l : list Z) : zlen l = 8 -> exists a b c d e f g i, l = [a; b; c; d; e; f; g; i].
Proof.
  unfold zlen. intros H. do 8 (destruct l as [|? l]; [cbn [List.length] in H; lia|]).
  destruct l; [|cbn [List.length] in H; lia]. repeat eexists.
Qed.
Lemma list8r (l : list Z) : 8 <= zlen l -> exists a b c d e f g i r, l = (a :: b :: c :: d :: e :: f :: g :: i :: r).
Proof.
  unfold zlen. intros H. do 8 (destruct l as [|? l]; [cbn [List.length] in H; lia|]). repeat eexists.
Qed.

Section Header.
Variables a b c d e f g i : Z.
Variables m0 m1 m2 m3 m4 m5 m6 m7 : Z.
Variable mr : list Z.
Let H := [a; b; c; d; e; f; g; i].
Let M := m0 :: m1 :: m2 :: m3 :: m4 :: m5 :: m6 :: m7 :: mr.
Let M1 := a :: b :: c :: d :: e :: f :: g :: i :: mr.

Lemma hdr_written : mwrite M (Some 0) (firstn (Z.to_nat 8) (skipn 1 (zlen H :: H))) = M1.
Proof. reflexivity. Qed.
Lemma hdr_copied : mcopy (zeros 8) (Some 0) M1 (Some 0) 8 = H.
Proof. reflexivity. Qed.
Lemma hdr_ld_ok : ld_ok M1 (Some 0) 8 = true.
Proof. unfold ld_ok, M1. cbn [List.length]. lia. Qed.
Lemma hdr_from : mfrom M1 (Some 0) = M1. Proof. reflexivity. Qed.
Lemma hdr_first8 : firstn (Z.to_nat (wrapu 32 8)) M1 = H. Proof. reflexivity. Qed.

Hypothesis Hb : Forall byte_ok H.
Lemma hdr_converted : rtr_pdu_header_to_host_byte_order_gen H (Some 0) = Some (header_host H).
Proof.
  unfold rtr_pdu_header_to_host_byte_order_gen. change (wrapu 32 1) with c_TO_HOST_HOST_BYTE_ORDER.
  rewrite header_translated; [reflexivity|exact Hb|reflexivity].
Qed.
Lemma hh_len : ldu (header_host H) (Some 4) 4 = get32 H 4.
Proof.
  unfold ldu. change (Z.to_nat 4) with 4%nat. rewrite le_load_4. unfold mbyte.
  change (Z.to_nat 4) with 4%nat. change (Z.to_nat (4 + 1)) with 5%nat. change (Z.to_nat (4 + 2)) with 6%nat.
  change (Z.to_nat (4 + 3)) with 7%nat. unfold get32, be32, nthb, H, header_host.
  destruct (b =? c_ROUTER_KEY); cbn [nth Nat.add]; lia.
Qed.
Lemma hh_ver : ldu (header_host H) (Some 0) 1 = a.
Proof.
  unfold ldu. change (Z.to_nat 1) with 1%nat. cbn [le_load]. unfold mbyte. change (Z.to_nat 0) with 0%nat.
  unfold H, header_host. destruct (b =? c_ROUTER_KEY); cbn [nth]; lia.
Qed.
Lemma hh_type : ldu (header_host H) (Some 1) 1 = b.
Proof.
  unfold ldu. change (Z.to_nat 1) with 1%nat. cbn [le_load]. unfold mbyte. change (Z.to_nat 1) with 1%nat.
  unfold H, header_host. destruct (b =? c_ROUTER_KEY); cbn [nth]; lia.
Qed.
Lemma hh_ld_ok o n : 0 <= o -> 0 <= n -> o + n <= 8 -> ld_ok (header_host H) (Some o) n = true.
Proof. intros. unfold H, header_host, ld_ok. destruct (b =? c_ROUTER_KEY); cbn [List.length]; lia. Qed.
End Header.

(* ====================================================================================================== *)
(* 3. the header phase                                                                                      *)
(* ====================================================================================================== *)
Lemma header_facts t w h w1 : Tm w -> tr_recv_all 8 t w = Ok (inr h) w1 ->
  zlen h = 8 /\ Forall byte_ok h /\ sk w1 = sk w /\ Tm w1.
Proof.
  intros HT E. pose proof (RecvBase.tr_recv_all_spec 8 t w ltac:(lia)) as Hs. rewrite E in Hs. destruct Hs as [Hz (Hk & _)].
  split; [exact Hz|]. split; [eapply tr_recv_all_bytes; eassumption|]. split; [exact Hk|].
  pose proof (tr_recv_all_T 8 t w) as HR. unfold rel in HR. rewrite E in HR. apply HR, HT.
Qed.

Ltac walk_header Hl Hm Hr Hs E Hb :=
  unfold rtr_receive_pdu_gen; cbv zeta; change (wrapu 64 c_RTR_MAX_PDU_LEN) with c_RTR_MAX_PDU_LEN;
  match goal with |- context [?l >=? c_RTR_MAX_PDU_LEN] => replace (l >=? c_RTR_MAX_PDU_LEN) with true by lia end;
  cbn [eguard]; rewrite sg_state, wrapu32_id by exact Hr; change (wrapu 32 9) with c_RTR_SHUTDOWN;
  match goal with |- context [?x =? c_RTR_SHUTDOWN] => replace (x =? c_RTR_SHUTDOWN) with false by lia end;
  unfold st_ok at 1; unfold ld_ok at 1; cbn [List.length];
  match goal with |- context [eguard ?g _] => replace g with true by lia end;
  cbn [eguard]; rewrite i3_recv_all, with_sk_store; unfold xbind; rewrite E; rewrite store_after_plain;
  cbn [nth]; rewrite hdr_written;
  match goal with |- context [zlen ?l <? 0] => change (zlen l <? 0) with false end; cbv iota;
  rewrite hdr_ld_ok; change (st_ok (zeros 8) (Some 0) 8) with true; cbn [eguard];
  rewrite hdr_copied; rewrite hdr_converted by exact Hb; cbn [eopt];
  change offsetof_pdu_header__len with 4; change offsetof_pdu_header__ver with 0; change offsetof_pdu_header__type with 1;
  cbn [ptr_add]; change (0 + 4) with 4; change (0 + 0) with 0; change (0 + 1) with 1;
  rewrite !hh_ld_ok by lia; rewrite !hh_len, ?hh_ver, ?hh_type; cbn [eguard].

Ltac model_header E :=
  unfold as_recv, receive_pdu; rewrite bind_assoc, bind_get_sk;
  match goal with |- context [?x =? c_RTR_SHUTDOWN] => replace (x =? c_RTR_SHUTDOWN) with false by lia end;
  rewrite bind_assoc; unfold bind at 1; rewrite E; cbv zeta.

(* the last steps of the error label: state RTR_ERROR_FATAL, buffer handed back, RTR_ERROR *)
Lemma fatal_leaf fuel buf0 M w :
  interp3 fuel (ECall "rtr_change_socket_state" [wrapu 32 7] (sock_store (sk w))
                 (fun _ s => ECall "c2v_ret_buffer" M s (fun _ s' => ERet (-1) s'))) buf0 w =
  Some (bind (change_state c_RTR_ERROR_FATAL) (fun _ w' => Ok (-1, sock_store (sk w'), M) w') w).
Proof.
  change (wrapu 32 7) with c_RTR_ERROR_FATAL. rewrite i3_change_state, with_sk_store, store_after_plain, i3_ret_buffer.
  cbn [interp3]. rewrite with_sk_store. unfold bind. rewrite change_state_eq'. reflexivity.
Qed.
Lemma ret_leaf fuel buf0 M z w :
  interp3 fuel (ECall "c2v_ret_buffer" M (sock_store (sk w)) (fun _ s' => ERet z s')) buf0 w =
  Some (Ok (z, sock_store (sk w), M) w).
Proof. rewrite i3_ret_buffer. cbn [interp3]. rewrite with_sk_store. reflexivity. Qed.

Section HeaderPhase.
Variables (fuel : nat) (m : list Z) (len t : Z) (w : world) (h : list byte) (w1 : world).
Hypothesis Hl : c_RTR_MAX_PDU_LEN <= len.
Hypothesis Hm : 8 <= zlen m.
Hypothesis Hr : 0 <= st (sk w) < 2^32.
Hypothesis Hs : st (sk w) <> c_RTR_SHUTDOWN.
Hypothesis HT : Tm w.
Hypothesis E : tr_recv_all 8 t w = Ok (inr h) w1.

Theorem recv_too_small : get32 h 4 < 8 ->
  interp3 fuel (rtr_receive_pdu_gen m (Some 0) len t (sock_store (sk w))) [] w =
  Some (as_recv (fun _ => st_list m 0 h) (receive_pdu t) w).
Proof.
  intros Hsmall.
  destruct (header_facts _ _ _ _ HT E) as (Hz & Hb & Hk & HT1).
  destruct (list8 h Hz) as (a & b & c & d & e & f & g & i & ->).
  destruct (list8r m Hm) as (m0 & m1 & m2 & m3 & m4 & m5 & m6 & m7 & mr & ->).
  walk_header Hl Hm Hr Hs E Hb.
  pose proof (get32_range [a; b; c; d; e; f; g; i] 4 Hb) as Hg.
  rewrite (wrapu64_small (get32 _ 4)) by lia.
  replace (get32 [a; b; c; d; e; f; g; i] 4 <? 8) with true by lia. closed_eqb.
  rewrite (i3_send_net fuel _ _ _ _ _ [a; b; c; d; e; f; g; i] c_CORRUPT_DATA txt_too_small)
    by (etransitivity; [exact (decode_net_args_txt (a :: b :: c :: d :: e :: f :: g :: i :: mr) (wrapu 32 8) (wrapu 32 0) txt_too_small (wrapu 32 56))|reflexivity]).
  rewrite with_sk_store.
  model_header E. replace (get32 [a; b; c; d; e; f; g; i] 4 <? 8) with true by lia.
  rewrite !bind_assoc. apply xbind_some. intros r w2 E2. rewrite store_after_plain.
  rewrite fatal_leaf. rewrite bind_assoc. reflexivity.
Qed.

Theorem recv_too_big : c_RTR_MAX_PDU_LEN < get32 h 4 ->
  interp3 fuel (rtr_receive_pdu_gen m (Some 0) len t (sock_store (sk w))) [] w =
  Some (as_recv (fun _ => st_list m 0 h) (receive_pdu t) w).
Proof.
  intros Hbig.
  destruct (header_facts _ _ _ _ HT E) as (Hz & Hb & Hk & HT1).
  destruct (list8 h Hz) as (a & b & c & d & e & f & g & i & ->).
  destruct (list8r m Hm) as (m0 & m1 & m2 & m3 & m4 & m5 & m6 & m7 & mr & ->).
  walk_header Hl Hm Hr Hs E Hb.
  pose proof (get32_range [a; b; c; d; e; f; g; i] 4 Hb) as Hg.
  assert (HM : c_RTR_MAX_PDU_LEN = 3248) by reflexivity.
  rewrite (wrapu64_small (get32 _ 4)) by lia.
  replace (get32 [a; b; c; d; e; f; g; i] 4 <? 8) with false by lia. cbv iota.
  replace (get32 [a; b; c; d; e; f; g; i] 4 >? c_RTR_MAX_PDU_LEN) with true by lia. closed_eqb.
  rewrite i3_snprintf, with_sk_store, store_after_plain. cbv zeta. cbn [skipn].
  rewrite (i3_send_net fuel _ _ _ _ _ [a; b; c; d; e; f; g; i] c_CORRUPT_DATA txt_too_big)
    by (etransitivity; [exact (decode_net_args_txt (a :: b :: c :: d :: e :: f :: g :: i :: mr) (wrapu 32 8) (wrapu 32 0) txt_too_big (wrapu 32 42))|reflexivity]).
  rewrite with_sk_store.
  model_header E. replace (get32 [a; b; c; d; e; f; g; i] 4 <? 8) with false by lia.
  replace (get32 [a; b; c; d; e; f; g; i] 4 >? c_RTR_MAX_PDU_LEN) with true by lia.
  rewrite !bind_assoc. apply xbind_some. intros r w2 E2. rewrite store_after_plain.
  rewrite fatal_leaf. rewrite bind_assoc. reflexivity.
Qed.

End HeaderPhase.

(* ---------- the "first PDU of the connection" logic (C13) ---------- *)
Definition after_first (s : sock) (h : list byte) : sock :=
  if has_recv s then s
  else upd_hasrecv (if (version s =? 1) && (nthb h 0 =? 0) && negb (nthb h 1 =? c_ERROR) then upd_version s 0 else s) true.

Lemma sg_hasrecv s : sget "has_received_pdus" (sock_store s) = b2z (has_recv s). Proof. reflexivity. Qed.

Lemma first_store s a b : 0 <= a < 256 -> 0 <= b < 256 -> has_recv s = false -> forall r,
  sset "has_received_pdus" (b2z (z2b 1))
    (if (sget "version" (sock_store s) =? wrapu 32 c_RTR_PROTOCOL_VERSION_1) &&
        (wraps 32 a =? wraps 32 c_RTR_PROTOCOL_VERSION_0) && negb (wraps 32 b =? 10)
     then sset "version" (wrapu 32 c_RTR_PROTOCOL_VERSION_0) (sock_store s) else sock_store s) =
  sock_store (after_first s (a :: b :: r)).
Proof.
  intros Ha Hb Hh r. unfold after_first. rewrite Hh, sg_version. rewrite (wraps32_small a), (wraps32_small b) by lia.
  change (wrapu 32 c_RTR_PROTOCOL_VERSION_1) with 1. change (wraps 32 c_RTR_PROTOCOL_VERSION_0) with 0.
  change (wrapu 32 c_RTR_PROTOCOL_VERSION_0) with 0. change c_ERROR with 10. change (b2z (z2b 1)) with (b2z true).
  change (nthb (a :: b :: r) 0) with a. change (nthb (a :: b :: r) 1) with b.
  destruct ((version s =? 1) && (a =? 0) && negb (b =? 10)); cbv iota; [rewrite ss_version|]; rewrite ss_hasrecv; reflexivity.
Qed.

(* the model's receive_pdu from the version check on, for a header h that passed the length checks *)
Definition recv_rest (h : list byte) : world -> res (Z + list byte) :=
  let ver := nthb h 0 in let ty := nthb h 1 in let len := get32 h 4 in
  mdo s <- get_sk;
  if negb (ver =? version s) && negb (ty =? c_ERROR) then
    mdo _ <- send_error_pdu h c_UNEXPECTED_PROTOCOL_VERSION []; ret (inl (-1))
  else
  mdo rest <- (if len - 8 >? 0
               then (mdo s2 <- get_sk;
                     if st s2 =? c_RTR_SHUTDOWN then ret (inl (-1)) else tr_recv_all (len - 8) c_RTR_RECV_TIMEOUT)
               else ret (inr []));
  match rest with
  | inl c => recv_err c
  | inr body =>
    let p := (h ++ body)%list in
    if check_size p then ret (inr p)
    else mdo _ <- send_error_pdu h c_CORRUPT_DATA txt_too_small; mdo _ <- change_state c_RTR_ERROR_FATAL; ret (inl (-1))
  end.

Lemma model_after_header t w h w1 :
  st (sk w) <> c_RTR_SHUTDOWN -> tr_recv_all 8 t w = Ok (inr h) w1 -> sk w1 = sk w ->
  8 <= get32 h 4 <= c_RTR_MAX_PDU_LEN ->
  receive_pdu t w = recv_rest h (with_sk w1 (after_first (sk w) h)).
Proof.
  intros Hs E Hk Hlen. unfold receive_pdu. rewrite bind_get_sk.
  replace (st (sk w) =? c_RTR_SHUTDOWN) with false by lia. unfold bind at 1. rewrite E. cbv zeta.
  replace (get32 h 4 <? 8) with false by lia. replace (get32 h 4 >? c_RTR_MAX_PDU_LEN) with false by lia.
  unfold bind at 1. unfold bind at 1. unfold get_sk at 1. rewrite Hk. unfold after_first.
  destruct (has_recv (sk w)).
  - rewrite <- Hk. rewrite with_sk_same. reflexivity.
  - reflexivity.
Qed.

Definition fin_recv (bufk : Z + list byte -> list Z) (r : Z + list byte) (w : world) : res (Z * store * list Z) :=
  Ok (match r with inr _ => 0 | inl c => c end, sock_store (sk w), bufk r) w.
Lemma as_recv_rest bufk t w h w1 :
  st (sk w) <> c_RTR_SHUTDOWN -> tr_recv_all 8 t w = Ok (inr h) w1 -> sk w1 = sk w ->
  8 <= get32 h 4 <= c_RTR_MAX_PDU_LEN ->
  as_recv bufk (receive_pdu t) w = bind (recv_rest h) (fin_recv bufk) (with_sk w1 (after_first (sk w) h)).
Proof.
  intros Hs E Hk Hlen. unfold as_recv, bind. rewrite (model_after_header t w h w1 Hs E Hk Hlen). reflexivity.
Qed.

Section VersionPhase.
Variables (fuel : nat) (m : list Z) (len t : Z) (w : world) (h : list byte) (w1 : world).
Hypothesis Hl : c_RTR_MAX_PDU_LEN <= len.
Hypothesis Hm : 8 <= zlen m.
Hypothesis Hr : 0 <= st (sk w) < 2^32.
Hypothesis Hs : st (sk w) <> c_RTR_SHUTDOWN.
Hypothesis HT : Tm w.
Hypothesis E : tr_recv_all 8 t w = Ok (inr h) w1.
Hypothesis Hlen : 8 <= get32 h 4 <= c_RTR_MAX_PDU_LEN.
Hypothesis HV : 0 <= version (sk w) < 2^32.

Ltac walk_first a b r Hk Hb :=
  rewrite ?Hk; rewrite sg_hasrecv, z2b_b2z;
  let Ehr := fresh "Ehr" in
  destruct (has_recv (sk w)) eqn:Ehr; cbn [negb]; cbv iota;
  [ let HS := fresh "HS" in
    assert (HS : after_first (sk w) (a :: b :: r) = sk w) by (unfold after_first; rewrite Ehr; reflexivity);
    rewrite ?HS; rewrite <- HS
  | rewrite !Bool.implb_true_r; cbn [eguard];
    rewrite (first_store (sk w) a b ltac:(inversion Hb; assumption)
                         ltac:(inversion Hb as [|? ? ? Hb2]; inversion Hb2; assumption) Ehr r) ].

Theorem recv_version_mismatch :
  negb (nthb h 0 =? version (after_first (sk w) h)) && negb (nthb h 1 =? c_ERROR) = true ->
  interp3 fuel (rtr_receive_pdu_gen m (Some 0) len t (sock_store (sk w))) [] w =
  Some (as_recv (fun _ => st_list m 0 h) (receive_pdu t) w).
Proof.
  intros Hmis.
  destruct (header_facts _ _ _ _ HT E) as (Hz & Hb & Hk & HT1).
  rewrite (as_recv_rest _ t w h w1 Hs E Hk Hlen).
  destruct (list8 h Hz) as (a & b & c & d & e & f & g & i & Eh).
  destruct (list8r m Hm) as (m0 & m1 & m2 & m3 & m4 & m5 & m6 & m7 & mr & ->).
  rewrite Eh in E, Hb, Hlen |- *. rewrite Eh in Hmis.
  walk_header Hl Hm Hr Hs E Hb.
  pose proof (get32_range [a; b; c; d; e; f; g; i] 4 Hb) as Hg.
  rewrite !(wrapu64_small (get32 _ 4)) by lia.
  replace (get32 [a; b; c; d; e; f; g; i] 4 <? 8) with false by lia. cbv iota.
  replace (get32 [a; b; c; d; e; f; g; i] 4 >? c_RTR_MAX_PDU_LEN) with false by lia. cbv iota.
  walk_first a b [c; d; e; f; g; i] Hk Hb.
  all: set (S1 := after_first (sk w) [a; b; c; d; e; f; g; i]) in *.
  all: rewrite sg_version.
  all: assert (Ha : 0 <= a < 256) by (inversion Hb; assumption).
  all: assert (Hbb : 0 <= b < 256) by (inversion Hb as [|? ? ? Hb2]; inversion Hb2; assumption).
  all: rewrite !(wrapu32_id a) by (change (2 ^ 32) with 4294967296; lia).
  all: rewrite !(wraps32_small b) by lia.
  all: rewrite ?Bool.implb_true_r; cbn [eguard].
  all: change (nthb [a; b; c; d; e; f; g; i] 0) with a in Hmis; change (nthb [a; b; c; d; e; f; g; i] 1) with b in Hmis;
       change c_ERROR with 10 in Hmis.
  all: rewrite Hmis; closed_eqb.
  all: rewrite (i3_send_net fuel _ _ _ _ _ [a; b; c; d; e; f; g; i] c_UNEXPECTED_PROTOCOL_VERSION [])
    by (etransitivity; [exact (decode_net_args_null (a :: b :: c :: d :: e :: f :: g :: i :: mr) (wrapu 32 8) (wrapu 32 8) (wrapu 32 0))|reflexivity]).
  all: rewrite store_sock_store.
  all: unfold recv_rest; cbv zeta; rewrite bind_assoc, bind_get_sk; cbn [sk with_sk]; fold S1.
  all: change (nthb [a; b; c; d; e; f; g; i] 0) with a; change (nthb [a; b; c; d; e; f; g; i] 1) with b; change c_ERROR with 10.
  all: rewrite Hmis; rewrite !bind_assoc; apply xbind_some; intros r w2 E2; rewrite store_after_plain.
  all: rewrite ret_leaf; reflexivity.
Qed.

(* ---------- the payload phase ---------- *)
Lemma after_first_st s hh : st (after_first s hh) = st s.
Proof. unfold after_first. destruct (has_recv s); [reflexivity|]. destruct (_ && _); reflexivity. Qed.

Lemma transport_leaf buf0 M w' :
  interp3 fuel (ECall "rtr_change_socket_state" [wrapu 32 8] (sock_store (sk w'))
                 (fun _ s => ECall "c2v_ret_buffer" M s (fun _ s' => ERet (-1) s'))) buf0 w' =
  Some (bind (change_state c_RTR_ERROR_TRANSPORT) (fun _ w2 => Ok (-1, sock_store (sk w2), M) w2) w').
Proof.
  change (wrapu 32 8) with c_RTR_ERROR_TRANSPORT. rewrite i3_change_state, with_sk_store, store_after_plain, i3_ret_buffer.
  cbn [interp3]. rewrite with_sk_store. unfold bind. rewrite change_state_eq'. reflexivity.
Qed.

Hypothesis Hmx : c_RTR_MAX_PDU_LEN <= zlen m.
Hypothesis Hver : negb (nthb h 0 =? version (after_first (sk w) h)) && negb (nthb h 1 =? c_ERROR) = false.

Theorem recv_payload_fails c w2 : 8 < get32 h 4 ->
  tr_recv_all (get32 h 4 - 8) c_RTR_RECV_TIMEOUT (with_sk w1 (after_first (sk w) h)) = Ok (inl c) w2 -> c < 0 ->
  interp3 fuel (rtr_receive_pdu_gen m (Some 0) len t (sock_store (sk w))) [] w =
  Some (as_recv (fun _ => st_list m 0 h) (receive_pdu t) w).
Proof.
  intros Hrem E2 Hc.
  destruct (header_facts _ _ _ _ HT E) as (Hz & Hb & Hk & HT1).
  rewrite (as_recv_rest _ t w h w1 Hs E Hk Hlen).
  destruct (list8 h Hz) as (a & b & c0 & d & e & f & g & i & Eh).
  destruct (list8r m Hm) as (m0 & m1 & m2 & m3 & m4 & m5 & m6 & m7 & mr & Em).
  rewrite Em in Hmx |- *. clear Em.
  rewrite Eh in E, Hb, Hlen, Hver, E2, Hrem |- *.
  walk_header Hl Hm Hr Hs E Hb.
  pose proof (get32_range [a; b; c0; d; e; f; g; i] 4 Hb) as Hg.
  assert (HM : c_RTR_MAX_PDU_LEN = 3248) by reflexivity.
  rewrite !(wrapu64_small (get32 _ 4)) by lia.
  replace (get32 [a; b; c0; d; e; f; g; i] 4 <? 8) with false by lia. cbv iota.
  replace (get32 [a; b; c0; d; e; f; g; i] 4 >? c_RTR_MAX_PDU_LEN) with false by lia. cbv iota.
  walk_first a b [c0; d; e; f; g; i] Hk Hb.
  all: set (S1 := after_first (sk w) [a; b; c0; d; e; f; g; i]) in *.
  all: rewrite sg_version.
  all: assert (Ha : 0 <= a < 256) by (inversion Hb; assumption).
  all: assert (Hbb : 0 <= b < 256) by (inversion Hb as [|? ? ? Hb2]; inversion Hb2; assumption).
  all: rewrite !(wrapu32_id a) by (change (2 ^ 32) with 4294967296; lia).
  all: rewrite !(wraps32_small b) by lia.
  all: rewrite ?Bool.implb_true_r; cbn [eguard].
  all: change (nthb [a; b; c0; d; e; f; g; i] 0) with a in Hver; change (nthb [a; b; c0; d; e; f; g; i] 1) with b in Hver;
       change c_ERROR with 10 in Hver.
  all: rewrite Hver; cbv iota.
  all: cbv zeta.
  all: rewrite (wrapu64_small (get32 _ 4 - 8)) by lia.
  all: rewrite (wrapu32_id (get32 _ 4 - 8)) by (change (2 ^ 32) with 4294967296; lia).
  all: change (wrapu 32 0) with 0; replace (get32 [a; b; c0; d; e; f; g; i] 4 - 8 >? 0) with true by lia; cbv iota.
  all: rewrite sg_state; unfold S1 at 1; rewrite after_first_st; fold S1.
  all: rewrite wrapu32_id by exact Hr; change (wrapu 32 9) with c_RTR_SHUTDOWN.
  all: replace (st (sk w) =? c_RTR_SHUTDOWN) with false by lia; cbv iota.
  all: rewrite (wrapu64_small (get32 _ 4 - 8)) by lia.
  all: cbn [ptr_add]; change (0 + 8) with 8.
  all: match goal with |- context [eguard (st_ok ?M ?p ?n) _] =>
         replace (st_ok M p n) with true by (unfold st_ok, ld_ok; unfold zlen in Hmx; cbn [List.length] in Hmx |- *; lia) end.
  all: cbn [eguard].
  all: change (wraps 64 c_RTR_RECV_TIMEOUT) with c_RTR_RECV_TIMEOUT.
  all: rewrite i3_recv_all, store_sock_store; unfold xbind; rewrite E2; rewrite store_after_plain.
  all: cbn [nth skipn]; rewrite firstn_nil.
  all: change (mwrite ?M (Some 8) []) with M.
  all: replace (c <? 0) with true by lia; cbv iota.
  all: unfold recv_rest; cbv zeta; rewrite bind_assoc, bind_get_sk; cbn [sk with_sk]; fold S1.
  all: change (nthb [a; b; c0; d; e; f; g; i] 0) with a; change (nthb [a; b; c0; d; e; f; g; i] 1) with b; change c_ERROR with 10.
  all: rewrite Hver.
  all: replace (get32 [a; b; c0; d; e; f; g; i] 4 - 8 >? 0) with true by lia.
  all: rewrite !bind_assoc, bind_get_sk; cbn [sk with_sk]; unfold S1 at 1; rewrite after_first_st; fold S1.
  all: replace (st (sk w) =? c_RTR_SHUTDOWN) with false by lia.
  all: fold (with_sk w1 S1).
  all: unfold bind at 1; rewrite E2; cbv beta iota.
  all: unfold recv_err; change (- (1)) with (-1).
  all: destruct (c =? -1); [rewrite transport_leaf, bind_assoc; reflexivity|].
  all: destruct (c =? -2); [rewrite ret_leaf; reflexivity|].
  all: destruct (c =? -3); [rewrite ret_leaf; reflexivity|].
  all: destruct (c =? -4); [rewrite ret_leaf; reflexivity|].
  all: replace (c =? 0) with false by lia; replace (c =? 32) with false by lia; replace (c =? 5) with false by lia.
  all: replace (c =? 4) with false by lia; replace (c =? 8) with false by lia.
  all: rewrite fatal_leaf, bind_assoc; reflexivity.
Qed.
End VersionPhase.

(* ====================================================================================================== *)
(* 4. summary theorems                                                                                      *)
(* ====================================================================================================== *)
(* (1) everything that is decided on the header alone: too short, too long, wrong version (after the live downgrade
   of the first PDU of a connection; Error Reports exempt) *)
Definition header_rejects (s : sock) (h : list byte) : bool :=
  (get32 h 4 <? 8) || (get32 h 4 >? c_RTR_MAX_PDU_LEN) ||
  (negb (nthb h 0 =? version (after_first s h)) && negb (nthb h 1 =? c_ERROR)).

Theorem recv_header_phase fuel m len t w h w1 :
  c_RTR_MAX_PDU_LEN <= len -> 8 <= zlen m -> 0 <= st (sk w) < 2^32 -> st (sk w) <> c_RTR_SHUTDOWN -> Tm w ->
  0 <= version (sk w) < 2^32 ->
  tr_recv_all 8 t w = Ok (inr h) w1 -> header_rejects (sk w) h = true ->
  interp3 fuel (rtr_receive_pdu_gen m (Some 0) len t (sock_store (sk w))) [] w =
  Some (as_recv (fun _ => st_list m 0 h) (receive_pdu t) w).
Proof.
  intros Hl Hm Hr Hs HT HV E Hrej. unfold header_rejects in Hrej.
  destruct (get32 h 4 <? 8) eqn:E1; [eapply recv_too_small; eauto; lia|].
  destruct (get32 h 4 >? c_RTR_MAX_PDU_LEN) eqn:E2; [eapply recv_too_big; eauto; lia|].
  cbn [orb] in Hrej. eapply recv_version_mismatch; eauto. lia.
Qed.

(* what stage 2 assumes about the buffer (FsmTie2.in_buffer: to_host) and what the function leaves there agree on the
   header of every PDU that is not a Router Key - in particular on the bytes stage 2 loads (version, type, and the
   16-bit field of Error Report and Cache Response PDUs) *)
Lemma header_host_to_host p : nthb p 1 <> c_ROUTER_KEY -> header_host p = to_host p.
Proof.
  intros Hk. unfold header_host, to_host.
  destruct p as [|x0 p]; [reflexivity|]. destruct p as [|x1 p]; [reflexivity|].
  do 6 (destruct p as [|? p]; [reflexivity|]).
  change (nthb (x0 :: x1 :: ?r) 1) with x1 in Hk.
  replace (x1 =? c_ROUTER_KEY) with false by lia. reflexivity.
Qed.

Print Assumptions recv_too_small.
Print Assumptions recv_too_big.
Print Assumptions recv_version_mismatch.
Print Assumptions recv_header_phase.
Print Assumptions recv_payload_fails.
Print Assumptions header_host_to_host.
