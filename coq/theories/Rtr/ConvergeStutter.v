(* ConvergeStutter.v - C08, safety half: the state machine never iterates without consuming input or
   letting (virtual) time pass.

   Progress measure of a world: 4 * input_left + rank(state), where input_left counts what the scripted
   environment can still deliver (every receive event, every byte of a data event, every entry of the
   open script) and rank orders the control states along the zero-time transitions
        NO_DATA, NO_INCR (3) > RESET, ESTABLISHED (2) > ERROR_*, FAST_RECONNECT (1) > CONNECTING, SYNC (0).
   Theorem no_stutter: an iteration of the loop of rtr_fsm_start that ends with the clock where it was
   has strictly decreased the measure.  No hypothesis on the environment at all. *)
From RtrV Require Import Base.CSem Gen.Generated Rtr.RtrModel Rtr.RelFrame Rtr.ExpiryTac.
Local Open Scope Z_scope.

(* ---------- what the environment can still deliver ---------- *)
Fixpoint evs_size (es : list ev) : nat :=
  match es with
  | [] => O
  | EvData b :: r => S (List.length b + evs_size r)
  | _ :: r => S (evs_size r)
  end.

Definition input_left (w : world) : nat := (evs_size (evs w) + List.length (opens w))%nat.

Definition rank (s : Z) : nat :=
  if (s =? c_RTR_ERROR_NO_DATA_AVAIL) || (s =? c_RTR_ERROR_NO_INCR_UPDATE_AVAIL) then 3
  else if (s =? c_RTR_RESET) || (s =? c_RTR_ESTABLISHED) then 2
  else if (s =? c_RTR_ERROR_TRANSPORT) || (s =? c_RTR_ERROR_FATAL) || (s =? c_RTR_FAST_RECONNECT) then 1
  else 0.

Definition measure (w : world) : nat := (4 * input_left w + rank (st (sk w)))%nat.

(* the states in which the loop of rtr_fsm_start does something (all but SHUTDOWN and CLOSED) *)
Definition live_b (s : Z) : bool :=
  (s =? c_RTR_CONNECTING) || (s =? c_RTR_ESTABLISHED) || (s =? c_RTR_RESET) || (s =? c_RTR_SYNC) ||
  (s =? c_RTR_FAST_RECONNECT) || (s =? c_RTR_ERROR_NO_DATA_AVAIL) || (s =? c_RTR_ERROR_NO_INCR_UPDATE_AVAIL) ||
  (s =? c_RTR_ERROR_FATAL) || (s =? c_RTR_ERROR_TRANSPORT).
Definition live (w : world) : Prop := live_b (st (sk w)) = true.

(* ---------- frame F: input never grows, live states stay live ---------- *)
Definition F (w w' : world) : Prop :=
  (input_left w' <= input_left w)%nat /\ (live w -> live w').

Lemma F_refl w : F w w. Proof. unfold F; auto. Qed.
Lemma F_trans a b c : F a b -> F b c -> F a c.
Proof. unfold F; intros [H1 H2] [H3 H4]; split; [lia|auto]. Qed.

Notation relF := (rel F).
Ltac fstep := rstep F F_refl F_trans.
Ltac ffin := unfold F, input_left, live; sk_simpl; try (split; [lia|auto]).
Ltac fprim := unfold rel; unfold_prims; ffin.
Ltac flem := fail.
Ltac fIH IH := match goal with
  | |- relF (tr_recv_all_loop _ _ _ _) _ => apply IH
  | |- relF (tr_send_all_loop _ _ _) _ => apply IH
  | |- relF (store_loop _ _ _ _) _ => apply IH
  | |- relF (sync_first _) _ => apply IH end.

(* change_state: only to live states (every call site passes a constant) *)
Lemma change_state_F ns w : live_b ns = true -> relF (change_state ns) w.
Proof. intros Hn. unfold change_state. repeat fstep; try fprim. Qed.
Ltac flem1 := match goal with |- relF (change_state _) _ => apply change_state_F; reflexivity end.
Ltac flem ::= first [ flem1 ].

Lemma tr_recv_evs_size es : forall len timeout left t,
  (evs_size (snd (fst (fst (tr_recv_evs es len timeout left t)))) <= evs_size es)%nat.
Proof.
  induction es as [|e es IH]; intros; cbn [tr_recv_evs]; [cbn; lia|].
  destruct e as [b|c|v|].
  - destruct b as [|x b]; [specialize (IH len timeout left t); cbn [evs_size] in *; lia|].
    cbn [fst snd].
    set (n := Z.to_nat (Z.min len (zlen (x :: b)))).
    pose proof (skipn_length n (x :: b)) as Hl.
    destruct (skipn n (x :: b)) as [|y l] eqn:E; cbn [evs_size] in *; lia.
  - cbn [fst snd evs_size]. lia.
  - destruct (v <=? left).
    + specialize (IH len timeout (left - v) (t + v)). cbn [evs_size]. lia.
    + cbn [fst snd evs_size]. lia.
  - cbn [fst snd evs_size]. lia.
Qed.

Lemma tr_recv_F len t w : relF (tr_recv len t) w.
Proof.
  unfold rel, tr_recv.
  pose proof (tr_recv_evs_size (evs w) len t (Z.max 0 t) (now w)) as H.
  destruct (tr_recv_evs _ _ _ _ _) as [[[[[c|b]|] es] t'] tr]; cbn [fst snd] in H; try destruct (c =? -99); ffin.
Qed.
Ltac flem2 := match goal with |- relF (tr_recv _ _) _ => apply tr_recv_F end.
Ltac flem ::= first [ flem1 | flem2 ].

Lemma tr_recv_all_loop_F fuel : forall len e acc w, relF (tr_recv_all_loop fuel len e acc) w.
Proof.
  induction fuel as [|f IH]; intros; cbn [tr_recv_all_loop]; [apply (rel_ret F F_refl)|].
  repeat fstep; try flem; try fIH IH.
Qed.
Ltac flem3 := match goal with |- relF (tr_recv_all_loop _ _ _ _) _ => apply tr_recv_all_loop_F end.
Ltac flem ::= first [ flem1 | flem2 | flem3 ].

Lemma tr_recv_all_F len t w : relF (tr_recv_all len t) w.
Proof. unfold tr_recv_all. repeat fstep. apply tr_recv_all_loop_F. Qed.
Ltac flem4 := match goal with |- relF (tr_recv_all _ _) _ => apply tr_recv_all_F end.
Ltac flem ::= first [ flem1 | flem2 | flem3 | flem4 ].

Lemma tr_send_F b w : relF (tr_send b) w.
Proof. unfold rel, tr_send. destruct (sends w); destruct (_ <? 0); ffin. Qed.
Ltac flem5 := match goal with |- relF (tr_send _) _ => apply tr_send_F end.
Ltac flem ::= first [ flem1 | flem2 | flem3 | flem4 | flem5 ].

Lemma tr_send_all_loop_F fuel : forall b tot w, relF (tr_send_all_loop fuel b tot) w.
Proof.
  induction fuel as [|f IH]; intros; cbn [tr_send_all_loop]; [apply (rel_ret F F_refl)|].
  repeat fstep; try flem; try fIH IH.
Qed.
Ltac flem6 := match goal with |- relF (tr_send_all_loop _ _ _) _ => apply tr_send_all_loop_F end.
Ltac flem ::= first [ flem1 | flem2 | flem3 | flem4 | flem5 | flem6 ].

Lemma send_pdu_F b w : relF (send_pdu b) w.
Proof. unfold send_pdu, tr_send_all. repeat fstep; try flem. Qed.
Ltac flem7 := match goal with |- relF (send_pdu _) _ => apply send_pdu_F end.
Ltac flem ::= first [ flem1 | flem2 | flem3 | flem4 | flem5 | flem6 | flem7 ].

Lemma send_error_pdu_F enc c t w : relF (send_error_pdu enc c t) w.
Proof. unfold send_error_pdu. repeat fstep; try flem. Qed.
Ltac flem8 := match goal with |- relF (send_error_pdu _ _ _) _ => apply send_error_pdu_F end.
Ltac flem ::= first [ flem1 | flem2 | flem3 | flem4 | flem5 | flem6 | flem7 | flem8 ].

Lemma send_error_from_host_F enc c t w : relF (send_error_from_host enc c t) w.
Proof. unfold send_error_from_host. repeat fstep; try flem. Qed.
Ltac flem9 := match goal with |- relF (send_error_from_host _ _ _) _ => apply send_error_from_host_F end.
Ltac flem ::= first [ flem1 | flem2 | flem3 | flem4 | flem5 | flem6 | flem7 | flem8 | flem9 ].

Lemma send_serial_query_F w : relF send_serial_query w.
Proof. unfold send_serial_query. repeat fstep; try flem. Qed.
Ltac flem10 := match goal with |- relF (send_serial_query) _ => apply send_serial_query_F end.
Ltac flem ::= first [ flem1 | flem2 | flem3 | flem4 | flem5 | flem6 | flem7 | flem8 | flem9 | flem10 ].

Lemma send_reset_query_F w : relF send_reset_query w.
Proof. unfold send_reset_query. repeat fstep; try flem. Qed.
Ltac flem11 := match goal with |- relF (send_reset_query) _ => apply send_reset_query_F end.
Ltac flem ::= first [ flem1 | flem2 | flem3 | flem4 | flem5 | flem6 | flem7 | flem8 | flem9 | flem10 | flem11 ].

Lemma recv_err_F c w : relF (recv_err c) w.
Proof. unfold recv_err. repeat fstep; try flem. Qed.
Ltac flem12 := match goal with |- relF (recv_err _) _ => apply recv_err_F end.
Ltac flem ::= first [ flem1 | flem2 | flem3 | flem4 | flem5 | flem6 | flem7 | flem8 | flem9 | flem10 | flem11 | flem12 ].

Lemma tr_open_F w : relF tr_open w.
Proof. unfold rel, tr_open, F, input_left, live. destruct (opens w) as [|b r]; sk_simpl; cbn [List.length]; (split; [lia|auto]). Qed.
Ltac flem13 := match goal with |- relF (tr_open) _ => apply tr_open_F end.
Ltac flem ::= first [ flem1 | flem2 | flem3 | flem4 | flem5 | flem6 | flem7 | flem8 | flem9 | flem10 | flem11 | flem12 | flem13 ].

Lemma receive_pdu_F t w : relF (receive_pdu t) w.
Proof.
  unfold receive_pdu.
  repeat fstep; try flem.
  all: try (fprim; fail).
  all: try (unfold rel; unfold_prims; repeat match goal with |- context [if ?c then _ else _] => destruct c eqn:? end; ffin).
Qed.
Ltac flem14 := match goal with |- relF (receive_pdu _) _ => apply receive_pdu_F end.
Ltac flem ::= first [ flem1 | flem2 | flem3 | flem4 | flem5 | flem6 | flem7 | flem8 | flem9 | flem10 | flem11 | flem12 | flem13 | flem14 ].

Lemma handle_error_pdu_F p w : relF (handle_error_pdu p) w.
Proof. unfold handle_error_pdu. repeat fstep; try flem; try fprim. Qed.
Ltac flem15 := match goal with |- relF (handle_error_pdu _) _ => apply handle_error_pdu_F end.
Ltac flem ::= first [ flem1 | flem2 | flem3 | flem4 | flem5 | flem6 | flem7 | flem8 | flem9 | flem10 | flem11 | flem12 | flem13 | flem14 | flem15 ].

Lemma report_update_failure_F p c k w : relF (report_update_failure p c k) w.
Proof. unfold report_update_failure. repeat fstep; try flem. Qed.
Ltac flem16 := match goal with |- relF (report_update_failure _ _ _) _ => apply report_update_failure_F end.
Ltac flem ::= first [ flem1 | flem2 | flem3 | flem4 | flem5 | flem6 | flem7 | flem8 | flem9 | flem10 | flem11 | flem12 | flem13 | flem14 | flem15 | flem16 ].

Lemma src_remove_all_F w : relF src_remove_all w.
Proof. unfold src_remove_all. repeat fstep; try fprim. Qed.
Ltac flem17 := match goal with |- relF (src_remove_all) _ => apply src_remove_all_F end.
Ltac flem ::= first [ flem1 | flem2 | flem3 | flem4 | flem5 | flem6 | flem7 | flem8 | flem9 | flem10 | flem11 | flem12 | flem13 | flem14 | flem15 | flem16 | flem17 ].

Lemma purge_after_failed_undo_F w : relF purge_after_failed_undo w.
Proof. unfold purge_after_failed_undo. repeat fstep; try flem; try fprim. Qed.
Ltac flem18 := match goal with |- relF (purge_after_failed_undo) _ => apply purge_after_failed_undo_F end.
Ltac flem ::= first [ flem1 | flem2 | flem3 | flem4 | flem5 | flem6 | flem7 | flem8 | flem9 | flem10 | flem11 | flem12 | flem13 | flem14 | flem15 | flem16 | flem17 | flem18 ].

Lemma apply_eod_intervals_st s p : st (apply_eod_intervals s p) = st s.
Proof. unfold apply_eod_intervals. destruct (_ && _); reflexivity. Qed.

Lemma process_eod_F p v4 v6 ks w : relF (process_eod p v4 v6 ks) w.
Proof.
  unfold process_eod.
  repeat fstep; try flem; try (fprim; fail).
  all: try (unfold rel; unfold_prims; ffin; rewrite ?apply_eod_intervals_st; auto).
Qed.
Ltac flem19 := match goal with |- relF (process_eod _ _ _ _) _ => apply process_eod_F end.
Ltac flem ::= first [ flem1 | flem2 | flem3 | flem4 | flem5 | flem6 | flem7 | flem8 | flem9 | flem10 | flem11 | flem12 | flem13 | flem14 | flem15 | flem16 | flem17 | flem18 | flem19 ].

Lemma store_loop_F fuel : forall v4 v6 ks w, relF (store_loop fuel v4 v6 ks) w.
Proof.
  induction fuel as [|f IH]; intros; cbn [store_loop]; [apply (rel_ret F F_refl)|].
  repeat fstep; try flem; try fIH IH; try flem.
Qed.
Ltac flem20 := match goal with |- relF (store_loop _ _ _ _) _ => apply store_loop_F end.
Ltac flem ::= first [ flem1 | flem2 | flem3 | flem4 | flem5 | flem6 | flem7 | flem8 | flem9 | flem10 | flem11 | flem12 | flem13 | flem14 | flem15 | flem16 | flem17 | flem18 | flem19 | flem20 ].

Lemma receive_and_store_F fuel w : relF (receive_and_store fuel) w.
Proof. unfold receive_and_store. repeat fstep; try flem; try (unfold rel; unfold_prims; destruct (resetting _); ffin). Qed.
Ltac flem21 := match goal with |- relF (receive_and_store _) _ => apply receive_and_store_F end.
Ltac flem ::= first [ flem1 | flem2 | flem3 | flem4 | flem5 | flem6 | flem7 | flem8 | flem9 | flem10 | flem11 | flem12 | flem13 | flem14 | flem15 | flem16 | flem17 | flem18 | flem19 | flem20 | flem21 ].

Lemma sync_first_F fuel : forall w, relF (sync_first fuel) w.
Proof.
  induction fuel as [|f IH]; intros; cbn [sync_first]; [apply (rel_ret F F_refl)|].
  repeat fstep; try flem; try fIH IH; try fprim.
Qed.
Ltac flem22 := match goal with |- relF (sync_first _) _ => apply sync_first_F end.
Ltac flem ::= first [ flem1 | flem2 | flem3 | flem4 | flem5 | flem6 | flem7 | flem8 | flem9 | flem10 | flem11 | flem12 | flem13 | flem14 | flem15 | flem16 | flem17 | flem18 | flem19 | flem20 | flem21 | flem22 ].

Lemma rtr_sync_F fuel w : relF (rtr_sync fuel) w.
Proof.
  unfold rtr_sync.
  repeat fstep; try flem; try (fprim; fail).
  all: try (unfold rel; unfold_prims; destruct (negb _); ffin).
Qed.
Ltac flem23 := match goal with |- relF (rtr_sync _) _ => apply rtr_sync_F end.
Ltac flem ::= first [ flem1 | flem2 | flem3 | flem4 | flem5 | flem6 | flem7 | flem8 | flem9 | flem10 | flem11 | flem12 | flem13 | flem14 | flem15 | flem16 | flem17 | flem18 | flem19 | flem20 | flem21 | flem22 | flem23 ].

Lemma wait_for_sync_F w : relF wait_for_sync w.
Proof. unfold wait_for_sync. repeat fstep; try flem. Qed.
Ltac flem24 := match goal with |- relF (wait_for_sync) _ => apply wait_for_sync_F end.
Ltac flem ::= first [ flem1 | flem2 | flem3 | flem4 | flem5 | flem6 | flem7 | flem8 | flem9 | flem10 | flem11 | flem12 | flem13 | flem14 | flem15 | flem16 | flem17 | flem18 | flem19 | flem20 | flem21 | flem22 | flem23 | flem24 ].

Lemma purge_outdated_F w : relF purge_outdated w.
Proof. unfold purge_outdated. repeat fstep; try flem; try fprim. Qed.
Ltac flem25 := match goal with |- relF (purge_outdated) _ => apply purge_outdated_F end.
Ltac flem ::= first [ flem1 | flem2 | flem3 | flem4 | flem5 | flem6 | flem7 | flem8 | flem9 | flem10 | flem11 | flem12 | flem13 | flem14 | flem15 | flem16 | flem17 | flem18 | flem19 | flem20 | flem21 | flem22 | flem23 | flem24 | flem25 ].

Lemma fsm_step_F fuel w : relF (fsm_step fuel) w.
Proof.
  unfold fsm_step.
  repeat fstep; try flem; try (fprim; fail).
Qed.

(* ---------- frame S0: sending touches nothing but the send script and the trace ---------- *)
Definition S0 (w w' : world) : Prop :=
  sk w' = sk w /\ pfx w' = pfx w /\ keys w' = keys w /\ now w' = now w /\ evs w' = evs w /\ opens w' = opens w.
Lemma S0_refl w : S0 w w. Proof. unfold S0; auto 10. Qed.
Lemma S0_trans a b c : S0 a b -> S0 b c -> S0 a c.
Proof. unfold S0. intros (A1 & A2 & A3 & A4 & A5 & A6) (B1 & B2 & B3 & B4 & B5 & B6). repeat split; congruence. Qed.
Notation relS := (rel S0).
Ltac sstep := rstep S0 S0_refl S0_trans.
Ltac sfin := unfold S0; sk_simpl; auto 10.
Ltac sprim := unfold rel; unfold_prims; sfin.

Lemma tr_send_S b w : relS (tr_send b) w.
Proof. unfold rel, tr_send. destruct (sends w); destruct (_ <? 0); sfin. Qed.
Lemma tr_send_all_loop_S fuel : forall b tot w, relS (tr_send_all_loop fuel b tot) w.
Proof.
  induction fuel as [|f IH]; intros; cbn [tr_send_all_loop]; [apply (rel_ret S0 S0_refl)|].
  repeat sstep; try apply tr_send_S; try apply IH.
Qed.
Lemma send_pdu_S b w : relS (send_pdu b) w.
Proof. unfold send_pdu, tr_send_all. repeat sstep; try apply tr_send_all_loop_S. Qed.
Lemma send_error_pdu_S enc c t w : relS (send_error_pdu enc c t) w.
Proof. unfold send_error_pdu. repeat sstep; try apply send_pdu_S. Qed.
Lemma send_error_from_host_S enc c t w : relS (send_error_from_host enc c t) w.
Proof. unfold send_error_from_host. repeat sstep; try apply send_error_pdu_S. Qed.

(* ---------- frame N: no interaction with the clock, the receive script or the open script ---------- *)
Definition N (w w' : world) : Prop := now w' = now w /\ evs w' = evs w /\ opens w' = opens w.
Lemma N_refl w : N w w. Proof. unfold N; auto. Qed.
Lemma N_trans a b c : N a b -> N b c -> N a c.
Proof. unfold N. intros (A1 & A2 & A3) (B1 & B2 & B3). repeat split; congruence. Qed.
Lemma S0_N a b : S0 a b -> N a b. Proof. unfold S0, N. tauto. Qed.
Notation relN := (rel N).
Ltac nstep := rstep N N_refl N_trans.
Ltac nfin := unfold N; sk_simpl; auto.
Ltac nprim := unfold rel; unfold_prims; nfin.
Lemma relS_N {A} (m : world -> res A) w : relS m w -> relN m w.
Proof. unfold rel. destruct (m w); apply S0_N. Qed.

Lemma change_state_N ns w : relN (change_state ns) w.
Proof. unfold change_state. repeat nstep; try nprim. Qed.
Ltac nlem := match goal with
  | |- relN (change_state _) _ => apply change_state_N
  | |- relN (send_pdu _) _ => apply relS_N, send_pdu_S
  | |- relN (send_error_pdu _ _ _) _ => apply relS_N, send_error_pdu_S
  | |- relN (send_error_from_host _ _ _) _ => apply relS_N, send_error_from_host_S
  end.
Lemma send_serial_query_N w : relN send_serial_query w.
Proof. unfold send_serial_query. repeat nstep; try nlem. Qed.
Lemma send_reset_query_N w : relN send_reset_query w.
Proof. unfold send_reset_query. repeat nstep; try nlem. Qed.
Lemma recv_err_N c w : relN (recv_err c) w.
Proof. unfold recv_err. repeat nstep; try nlem. Qed.
Lemma handle_error_pdu_N p w : relN (handle_error_pdu p) w.
Proof. unfold handle_error_pdu. repeat nstep; try nlem; try nprim. Qed.
Lemma report_update_failure_N p c k w : relN (report_update_failure p c k) w.
Proof. unfold report_update_failure. repeat nstep; try nlem. Qed.
Lemma src_remove_all_N w : relN src_remove_all w.
Proof. unfold src_remove_all. repeat nstep; try nprim. Qed.
Lemma purge_after_failed_undo_N w : relN purge_after_failed_undo w.
Proof. unfold purge_after_failed_undo. repeat nstep; try apply src_remove_all_N; try nprim. Qed.
Ltac nlem2 := match goal with
  | |- relN (report_update_failure _ _ _) _ => apply report_update_failure_N
  | |- relN (purge_after_failed_undo) _ => apply purge_after_failed_undo_N
  | |- relN (src_remove_all) _ => apply src_remove_all_N
  | |- relN (send_serial_query) _ => apply send_serial_query_N
  | |- relN (send_reset_query) _ => apply send_reset_query_N
  | |- relN (handle_error_pdu _) _ => apply handle_error_pdu_N
  | |- relN (recv_err _) _ => apply recv_err_N
  | _ => nlem
  end.
Lemma process_eod_N p v4 v6 ks w : relN (process_eod p v4 v6 ks) w.
Proof. unfold process_eod. repeat nstep; try nlem2; try (nprim; fail). Qed.
Lemma purge_outdated_N w : relN purge_outdated w.
Proof. unfold purge_outdated. repeat nstep; try nlem2; try nprim. Qed.

(* ---------- progress: input consumed ---------- *)
Definition prog (w w' : world) : Prop := (input_left w' < input_left w)%nat.
Lemma F_prog a b c : F a b -> prog b c -> prog a c. Proof. unfold F, prog. intros [H _] ?. lia. Qed.
Lemma prog_F a b c : prog a b -> F b c -> prog a c. Proof. unfold F, prog. intros ? [H _]. lia. Qed.

(* a receive either consumed something, or found nothing for exactly its timeout *)
Definition quiet {A} (w : world) (t : Z) (v : A) (a : A) (w' : world) : Prop :=
  prog w w' \/ (a = v /\ sk w' = sk w /\ now w' = now w + Z.max 0 t /\ F w w').

Lemma hoare_get_now {B} w (f : Z -> world -> res B) (Q : B -> world -> Prop) (QX : world -> Prop) :
  hoare (f (now w)) w Q QX -> hoare (bind get_now f) w Q QX.
Proof. intros H. exact H. Qed.
Lemma hoare_get_sk {B} w (f : sock -> world -> res B) (Q : B -> world -> Prop) (QX : world -> Prop) :
  hoare (f (sk w)) w Q QX -> hoare (bind get_sk f) w Q QX.
Proof. intros H. exact H. Qed.

Lemma tr_recv_evs_spec es len timeout left t : 0 < len ->
  match tr_recv_evs es len timeout left t with
  | (None, _, _, _) => True
  | (Some (inr b), es', t', _) => (evs_size es' < evs_size es)%nat
  | (Some (inl c), es', t', _) => (evs_size es' < evs_size es)%nat \/ (c = -2 /\ t' = t + left)
  end.
Proof.
  intros Hlen. destruct es as [|e es]; cbn [tr_recv_evs]; [exact I|].
  destruct e as [b|c|v|].
  - destruct b as [|x b].
    + pose proof (tr_recv_evs_size es len timeout left t) as H.
      destruct (tr_recv_evs es len timeout left t) as [[[[[c|b]|] es'] t'] tr]; cbn [fst snd evs_size] in *; try lia; try exact I.
    + set (n := Z.to_nat (Z.min len (zlen (x :: b)))).
      assert (Hn : (1 <= n)%nat) by (unfold n, zlen; cbn [List.length]; lia).
      pose proof (skipn_length n (x :: b)) as Hl.
      destruct (skipn n (x :: b)) as [|y l] eqn:E; cbn [evs_size List.length] in *; lia.
  - left. cbn [evs_size]. lia.
  - destruct (v <=? left) eqn:Ev.
    + pose proof (tr_recv_evs_size es len timeout (left - v) (t + v)) as H.
      destruct (tr_recv_evs es len timeout (left - v) (t + v)) as [[[[[c|b]|] es'] t'] tr]; cbn [fst snd evs_size] in *; try lia; try exact I.
    + right. auto.
  - left. cbn [evs_size]. lia.
Qed.

Lemma tr_recv_spec len timeout w : 0 < len ->
  hoare (tr_recv len timeout) w (quiet w timeout (inl (-2))) (prog w).
Proof.
  intros Hlen. unfold hoare, tr_recv.
  pose proof (tr_recv_evs_spec (evs w) len timeout (Z.max 0 timeout) (now w) Hlen) as H.
  pose proof (tr_recv_F len timeout w) as HF. unfold rel, tr_recv in HF.
  destruct (tr_recv_evs _ _ _ _ _) as [[[[[c|b]|] es] t'] tr]; [| |exact I].
  - destruct (c =? -99) eqn:Ec.
    + apply Z.eqb_eq in Ec. subst c. destruct H as [H|[H _]]; [|discriminate]. unfold prog, input_left. sk_simpl. lia.
    + destruct H as [H|[-> ->]]; [left; unfold prog, input_left; sk_simpl; lia|].
      right. sk_simpl. auto.
  - left. unfold prog, input_left. sk_simpl. lia.
Qed.

Lemma tr_recv_all_spec len timeout w : 0 < len ->
  hoare (tr_recv_all len timeout) w (quiet w timeout (inl (-2))) (prog w).
Proof.
  intros Hlen. unfold tr_recv_all.
  destruct (Z.to_nat len) as [|f] eqn:E; [lia|].
  apply hoare_get_now. cbn [tr_recv_all_loop].
  assert (Hz : zlen (@nil byte) >=? len = false) by (unfold zlen; cbn [List.length]; rewrite Z.geb_leb; apply Z.leb_gt; lia).
  rewrite Hz.
  apply hoare_get_now.
  eapply hoare_bind; [apply tr_recv_spec; unfold zlen; cbn [List.length]; lia|].
  intros a w1 E1 Hq. destruct a as [c|b].
  - apply hoare_ret. destruct Hq as [Hq|(Ha & Hs & Hn & HF)]; [left; exact Hq|right].
    split; [exact Ha|split; [exact Hs|split; [|exact HF]]]. rewrite Hn. f_equal. f_equal. lia.
  - assert (Hp : prog w w1) by (destruct Hq as [Hq|(Ha & _)]; [exact Hq|discriminate]).
    eapply hoare_conseq; [apply (hoare_of_rel F), tr_recv_all_loop_F| |]; cbv beta; intros; [left|]; eapply prog_F; eauto.
Qed.

(* the rest of rtr_receive_pdu after the header, as one computation (only its frame matters) *)
Lemma receive_pdu_spec timeout w : st (sk w) <> c_RTR_SHUTDOWN ->
  hoare (receive_pdu timeout) w (quiet w timeout (inl (-2))) (prog w).
Proof.
  intros Hst. unfold receive_pdu.
  apply hoare_get_sk.
  destruct (st (sk w) =? c_RTR_SHUTDOWN) eqn:Es; [apply Z.eqb_eq in Es; contradiction|].
  eapply hoare_bind; [apply tr_recv_all_spec; lia|].
  intros a w1 E1 Hq.
  match goal with |- hoare ?m _ _ _ => assert (HF : relF m w1) end.
  { destruct a as [c|h]; [apply recv_err_F|].
    repeat fstep; try flem.
    all: try (fprim; fail).
    all: try (unfold rel; unfold_prims; repeat match goal with |- context [if ?c then _ else _] => destruct c eqn:? end; ffin). }
  destruct Hq as [Hq|(-> & Hs & Hn & HF0)].
  - eapply hoare_conseq; [apply (hoare_of_rel F), HF| |]; cbv beta; intros; [left|]; eapply prog_F; eauto.
  - (* nothing arrived: recv_err (-2) returns at once *)
    unfold recv_err. cbn [Z.eqb Pos.eqb Z.opp]. apply hoare_ret. right. auto.
Qed.

Lemma recv_timeout_pos : Z.max 0 c_RTR_RECV_TIMEOUT = c_RTR_RECV_TIMEOUT /\ 0 < c_RTR_RECV_TIMEOUT.
Proof. split; reflexivity. Qed.

Lemma change_state_eq ns w : st (sk w) <> c_RTR_SHUTDOWN ->
  exists w', change_state ns w = Ok tt w' /\ st (sk w') = ns /\ N w w' /\ (live_b ns = true -> F w w').
Proof.
  intros Hst. unfold change_state. unfold_prims.
  destruct (st (sk w) =? ns) eqn:E1.
  - apply Z.eqb_eq in E1. eexists. split; [reflexivity|]. split; [exact E1|]. split; [apply N_refl|intros; apply F_refl].
  - destruct (st (sk w) =? c_RTR_SHUTDOWN) eqn:E2; [apply Z.eqb_eq in E2; contradiction|].
    eexists. split; [reflexivity|]. sk_simpl. split; [reflexivity|]. split; [nfin|]. intros Hl. ffin.
Qed.

(* rtr_sync: its first receive decides *)
Lemma sync_first_spec f w : st (sk w) <> c_RTR_SHUTDOWN ->
  hoare (sync_first (S f)) w
    (fun a w' => prog w w' \/ (a = None /\ now w' = now w + c_RTR_RECV_TIMEOUT /\ F w w')) (prog w).
Proof.
  intros Hst. cbn [sync_first].
  eapply hoare_bind; [apply receive_pdu_spec; exact Hst|].
  intros a w1 E1 Hq. destruct Hq as [Hp|(-> & Hs & Hn & HF)].
  - match goal with |- hoare ?m _ _ _ => assert (HF : relF m w1) end.
    { destruct a; repeat fstep; try flem; try apply sync_first_F; try fprim. }
    eapply hoare_conseq; [apply (hoare_of_rel F), HF| |]; cbv beta; intros; [left|]; eapply prog_F; eauto.
  - apply hoare_get_sk. cbn [Z.eqb Pos.eqb Z.opp andb orb].
    assert (Hst1 : st (sk w1) <> c_RTR_SHUTDOWN) by (rewrite Hs; exact Hst).
    destruct (change_state_eq c_RTR_ERROR_TRANSPORT w1 Hst1) as (w2 & E2 & _ & (Hn2 & _) & HF2).
    unfold hoare, bind. rewrite E2. unfold ret. right.
    split; [reflexivity|]. split; [|eapply F_trans; [exact HF|apply HF2; reflexivity]].
    rewrite Hn2, Hn. reflexivity.
Qed.

Lemma rtr_sync_spec f w : st (sk w) <> c_RTR_SHUTDOWN ->
  hoare (rtr_sync (S f)) w
    (fun a w' => prog w w' \/ (now w' = now w + c_RTR_RECV_TIMEOUT)) (prog w).
Proof.
  intros Hst. unfold rtr_sync.
  eapply hoare_bind; [apply sync_first_spec; exact Hst|].
  cbv beta. intros a w1 E1 Hq. destruct Hq as [Hp|(-> & Hn & HF)].
  - match goal with |- hoare ?m _ _ _ => assert (HF : relF m w1) end.
    { destruct a; repeat fstep; try flem; try (fprim; fail).
      all: try (unfold rel; unfold_prims; destruct (negb _); ffin). }
    eapply hoare_conseq; [apply (hoare_of_rel F), HF| |]; cbv beta; intros; [left|]; eapply prog_F; eauto.
  - apply hoare_ret. right. exact Hn.
Qed.

Lemma wait_for_sync_spec w : st (sk w) <> c_RTR_SHUTDOWN ->
  hoare wait_for_sync w
    (fun a w' => prog w w' \/
       (a = 0 /\ sk w' = sk w /\ now w' = now w + Z.max 0 (last_update (sk w) + refresh_iv (sk w) - now w) /\ F w w'))
    (prog w).
Proof.
  intros Hst. unfold wait_for_sync. apply hoare_get_sk. apply hoare_get_now.
  eapply hoare_bind; [apply receive_pdu_spec; exact Hst|].
  intros a w1 E1 Hq. destruct Hq as [Hp|(-> & Hs & Hn & HF)].
  - match goal with |- hoare ?m _ _ _ => assert (HF : relF m w1) end.
    { destruct a; repeat fstep; try flem. }
    eapply hoare_conseq; [apply (hoare_of_rel F), HF| |]; cbv beta; intros; [left|]; eapply prog_F; eauto.
  - cbn [Z.eqb Pos.eqb Z.opp]. apply hoare_ret. right.
    split; [reflexivity|]. split; [exact Hs|]. split; [|exact HF]. rewrite Hn. f_equal. lia.
Qed.

(* sending never raises an exception; a failed query leaves the socket in ERROR_TRANSPORT *)
Lemma tr_send_ok b w : exists r w', tr_send b w = Ok r w'.
Proof. unfold tr_send. destruct (sends w); destruct (_ <? 0); eauto. Qed.
Lemma tr_send_all_loop_ok fuel : forall b tot w, exists r w', tr_send_all_loop fuel b tot w = Ok r w'.
Proof.
  induction fuel as [|f IH]; intros; cbn [tr_send_all_loop]; [unfold ret; eauto|].
  destruct b as [|x b]; [unfold ret; eauto|].
  unfold bind. destruct (tr_send_ok (x :: b) w) as (r & w' & ->).
  destruct (r <? 0); [unfold ret; eauto|]. destruct (r =? 0); [unfold ret; eauto|]. apply IH.
Qed.
Lemma send_pdu_ok b w : exists r w', send_pdu b w = Ok r w' /\ S0 w w' /\ (r = 0 \/ r = -1).
Proof.
  pose proof (send_pdu_S b w) as HS. unfold rel in HS.
  assert (H : exists r w', send_pdu b w = Ok r w' /\ (r = 0 \/ r = -1)).
  { unfold send_pdu. unfold bind at 1, get_sk.
    destruct (st (sk w) =? c_RTR_SHUTDOWN); [unfold ret; eauto|].
    unfold bind, tr_send_all. destruct (tr_send_all_loop_ok (List.length b) b 0 w) as (r & w' & ->).
    unfold ret. destruct (r >? 0); eauto. }
  destruct H as (r & w' & E & Hr). rewrite E in HS. eauto.
Qed.

Lemma send_query_spec (q : world -> res Z) (bytes : sock -> list byte) w :
  (q = fun w => (mdo s <- get_sk; mdo r <- send_pdu (bytes s);
                 if r =? 0 then ret 0 else mdo _ <- change_state c_RTR_ERROR_TRANSPORT; ret (-1)) w) ->
  st (sk w) <> c_RTR_SHUTDOWN ->
  exists r w', q w = Ok r w' /\ N w w' /\ F w w' /\
               ((r = 0 /\ st (sk w') = st (sk w)) \/ (r <> 0 /\ st (sk w') = c_RTR_ERROR_TRANSPORT)).
Proof.
  intros -> Hst. unfold bind at 1, get_sk.
  destruct (send_pdu_ok (bytes (sk w)) w) as (r & w1 & E & HS & Hr).
  unfold bind at 1. rewrite E.
  assert (HF1 : F w w1) by (pose proof (send_pdu_F (bytes (sk w)) w) as H; unfold rel in H; rewrite E in H; exact H).
  destruct Hr as [-> | ->]; cbn [Z.eqb].
  - unfold ret. eexists _, _. split; [reflexivity|]. split; [apply S0_N, HS|]. split; [exact HF1|]. left. split; [reflexivity|].
    destruct HS as (-> & _). reflexivity.
  - assert (Hst1 : st (sk w1) <> c_RTR_SHUTDOWN) by (destruct HS as (-> & _); exact Hst).
    destruct (change_state_eq c_RTR_ERROR_TRANSPORT w1 Hst1) as (w2 & E2 & Hs2 & HN2 & HF2).
    unfold bind. rewrite E2. unfold ret. eexists _, _. split; [reflexivity|].
    split; [eapply N_trans; [apply S0_N, HS|exact HN2]|]. split; [eapply F_trans; [exact HF1|apply HF2; reflexivity]|].
    right. split; [discriminate|exact Hs2].
Qed.

Lemma send_serial_query_spec w : st (sk w) <> c_RTR_SHUTDOWN ->
  exists r w', send_serial_query w = Ok r w' /\ N w w' /\ F w w' /\
               ((r = 0 /\ st (sk w') = st (sk w)) \/ (r <> 0 /\ st (sk w') = c_RTR_ERROR_TRANSPORT)).
Proof.
  apply (send_query_spec send_serial_query
           (fun s => [version s mod 256; c_SERIAL_QUERY] ++ enc16 (session_id s mod 65536) ++ enc32 12 ++ enc32 (serial s))).
  reflexivity.
Qed.
Lemma send_reset_query_spec w : st (sk w) <> c_RTR_SHUTDOWN ->
  exists r w', send_reset_query w = Ok r w' /\ N w w' /\ F w w' /\
               ((r = 0 /\ st (sk w') = st (sk w)) \/ (r <> 0 /\ st (sk w') = c_RTR_ERROR_TRANSPORT)).
Proof.
  apply (send_query_spec send_reset_query (fun s => [version s mod 256; c_RESET_QUERY] ++ enc16 0 ++ enc32 8)).
  reflexivity.
Qed.

(* ---------- the measure ---------- *)
Lemma rank_le3 s : (rank s <= 3)%nat.
Proof. unfold rank. repeat match goal with |- context [if ?c then _ else _] => destruct c end; lia. Qed.

Lemma prog_measure w w' : prog w w' -> (measure w' < measure w)%nat.
Proof. unfold prog, measure. pose proof (rank_le3 (st (sk w'))). lia. Qed.

Lemma F_rank_measure w w' : F w w' -> (rank (st (sk w')) < rank (st (sk w)))%nat -> (measure w' < measure w)%nat.
Proof. unfold F, measure. intros [H _] ?. lia. Qed.

Lemma purge_outdated_eq w :
  exists w', purge_outdated w = Ok tt w' /\ st (sk w') = st (sk w) /\ N w w' /\ F w w'.
Proof.
  pose proof (purge_outdated_N w) as HN. pose proof (purge_outdated_F w) as HF. unfold rel in HN, HF.
  unfold purge_outdated, src_remove_all in *. unfold_prims. unfold_prims_in HN. unfold_prims_in HF.
  destruct (last_update (sk w) =? 0); [eexists; split; [reflexivity|]; auto|].
  destruct (last_update (sk w) + expire_iv (sk w) <? now w); eexists; (split; [reflexivity|]); auto.
Qed.

Lemma live_not_shutdown w : live w -> st (sk w) <> c_RTR_SHUTDOWN.
Proof. unfold live. intros H E. rewrite E in H. discriminate. Qed.

Ltac state_eq := repeat match goal with H : (_ =? _) = true |- _ => apply Z.eqb_eq in H end.

Lemma hoare_set_sk {B} w s (f : unit -> world -> res B) (Q : B -> world -> Prop) (QX : world -> Prop) :
  hoare (f tt) (with_sk w s) Q QX -> hoare (bind (set_sk s) f) w Q QX.
Proof. intros H. exact H. Qed.
Lemma hoare_emit {B} w t (f : unit -> world -> res B) (Q : B -> world -> Prop) (QX : world -> Prop) :
  hoare (f tt) (with_out w (t :: out w)) Q QX -> hoare (bind (emit t) f) w Q QX.
Proof. intros H. exact H. Qed.
Lemma F_with_sk w s : st s = st (sk w) -> F w (with_sk w s).
Proof. intros H. unfold with_sk. ffin. rewrite H. auto. Qed.
Lemma F_with_out w o : F w (with_out w o).
Proof. unfold with_out. ffin. Qed.

(* C08_no_stutter *)
Theorem no_stutter f w : live w ->
  hoare (fsm_step (S f)) w (fun _ w' => now w' = now w -> (measure w' < measure w)%nat) (prog w).
Proof.
  intros Hl. pose proof (live_not_shutdown w Hl) as Hns.
  unfold fsm_step. apply hoare_get_sk. cbv zeta.
  destruct (st (sk w) =? c_RTR_CONNECTING) eqn:E0.
  { (* CONNECTING: an entry of the open script is consumed *)
    apply hoare_set_sk. set (w1' := with_sk w _).
    assert (HF1 : F w w1') by (apply F_with_sk; reflexivity).
    destruct (purge_outdated_eq w1') as (w2 & E2 & _ & _ & HF2).
    unfold hoare, bind at 1. rewrite E2.
    unfold bind at 1, tr_open. destruct (opens w2) as [|b r] eqn:Eo; [exact I|].
    match goal with |- match ?m ?w3 with _ => _ end => set (w3' := w3); assert (HF3 : relF m w3') end.
    { repeat fstep; try flem. }
    assert (Hp : prog w w3').
    { assert (H2 : F w w2) by exact (F_trans _ _ _ HF1 HF2). destruct H2 as [H2 _].
      unfold prog, input_left in *. subst w3'. sk_simpl. rewrite Eo in H2. cbn [List.length] in H2. lia. }
    unfold rel in HF3.
    match goal with |- match ?x with _ => _ end => destruct x as [a w4|[why|] w4] end; auto.
    - intros _. apply prog_measure. eapply prog_F; eauto.
    - eapply prog_F; eauto. }
  destruct (st (sk w) =? c_RTR_RESET) eqn:E1.
  { state_eq. destruct (send_reset_query_spec w Hns) as (r & w1 & Eq & HN1 & HF1 & Hr).
    unfold hoare, bind at 1. rewrite Eq.
    destruct Hr as [[-> Hs]|[Hr Hs]].
    - cbn [Z.eqb]. destruct (change_state_eq c_RTR_SYNC w1 ltac:(rewrite Hs; exact Hns)) as (w2 & E2 & Hs2 & _ & HF2).
      rewrite E2. intros _. apply F_rank_measure; [eapply F_trans; [exact HF1|apply HF2; reflexivity]|]. rewrite Hs2, E1. cbn. lia.
    - destruct (r =? 0) eqn:Er; [apply Z.eqb_eq in Er; contradiction|]. unfold ret. intros _.
      apply F_rank_measure; [exact HF1|]. rewrite Hs, E1. cbn. lia. }
  destruct (st (sk w) =? c_RTR_SYNC) eqn:E2.
  { (* SYNC: the first receive consumes input or waits out its 60 s *)
    eapply hoare_bind; [apply rtr_sync_spec; exact Hns|].
    cbv beta. intros r w1 Er Hq.
    destruct Hq as [Hp|Hn].
    - assert (HF : relF (if r =? 0 then change_state c_RTR_ESTABLISHED else ret tt) w1) by (repeat fstep; try flem).
      eapply hoare_conseq; [apply (hoare_of_rel F), HF| |]; cbv beta; intros.
      + apply prog_measure. eapply prog_F; eauto.
      + eapply prog_F; eauto.
    - assert (HN : relN (if r =? 0 then change_state c_RTR_ESTABLISHED else ret tt) w1)
        by (destruct (r =? 0); [apply change_state_N|apply (rel_ret N N_refl)]).
      unfold rel in HN. unfold hoare.
      destruct ((if r =? 0 then change_state c_RTR_ESTABLISHED else ret tt) w1) as [a w2|[why|] w2] eqn:Ek.
      + destruct HN as (HN & _). intros Hc. pose proof recv_timeout_pos. lia.
      + exact I.
      + (* neither change_state nor ret raises *)
        destruct (r =? 0); [|discriminate].
        unfold change_state in Ek. unfold_prims_in Ek.
        repeat match type of Ek with context [if ?c then _ else _] => destruct c end; discriminate. }
  destruct (st (sk w) =? c_RTR_ESTABLISHED) eqn:E3.
  { state_eq.
    eapply hoare_bind; [apply wait_for_sync_spec; exact Hns|].
    cbv beta. intros r w1 Er Hq.
    destruct Hq as [Hp|(-> & Hs & Hn & HF0)].
    - match goal with |- hoare ?m _ _ _ => assert (HF : relF m w1) by (repeat fstep; try flem) end.
      eapply hoare_conseq; [apply (hoare_of_rel F), HF| |]; cbv beta; intros.
      + apply prog_measure. eapply prog_F; eauto.
      + eapply prog_F; eauto.
    - (* the refresh timer had already run out and nothing was pending: the query goes out *)
      cbn [Z.eqb].
      assert (Hns1 : st (sk w1) <> c_RTR_SHUTDOWN) by (rewrite Hs; exact Hns).
      destruct (send_serial_query_spec w1 Hns1) as (q & w2 & Eq & HN2 & HF2 & Hq).
      unfold hoare, bind at 1. rewrite Eq.
      destruct Hq as [[-> Hs2]|[Hq Hs2]].
      + cbn [Z.eqb]. destruct (change_state_eq c_RTR_SYNC w2 ltac:(rewrite Hs2; exact Hns1)) as (w3 & E3' & Hs3 & _ & HF3).
        rewrite E3'. intros _. apply F_rank_measure.
        * eapply F_trans; [exact HF0|]. eapply F_trans; [exact HF2|apply HF3; reflexivity].
        * rewrite Hs3, E3. cbn. lia.
      + destruct (q =? 0) eqn:Eq0; [apply Z.eqb_eq in Eq0; contradiction|]. unfold ret. intros _.
        apply F_rank_measure; [eapply F_trans; eauto|]. rewrite Hs2, E3. cbn. lia. }
  destruct (st (sk w) =? c_RTR_FAST_RECONNECT) eqn:E4.
  { state_eq. unfold tr_close. apply hoare_emit. set (w1' := with_out w _).
    destruct (change_state_eq c_RTR_CONNECTING w1' Hns) as (w2 & Ec & Hs2 & _ & HF2).
    unfold hoare. rewrite Ec. intros _. apply F_rank_measure.
    - eapply F_trans; [|apply HF2; reflexivity]. apply F_with_out.
    - rewrite Hs2, E4. cbn. lia. }
  destruct (st (sk w) =? c_RTR_ERROR_NO_DATA_AVAIL) eqn:E5.
  { state_eq. apply hoare_set_sk. set (w1' := with_sk w _).
    assert (Hns1 : st (sk w1') <> c_RTR_SHUTDOWN) by exact Hns.
    destruct (change_state_eq c_RTR_RESET w1' Hns1) as (w2 & Ec & Hs2 & _ & HF2).
    unfold hoare, bind at 1. rewrite Ec. unfold bind at 1, do_sleep.
    match goal with |- match purge_outdated ?w3 with _ => _ end => set (w3' := w3) end.
    destruct (purge_outdated_eq w3') as (w4 & E4' & Hs4 & _ & HF4). rewrite E4'. intros _.
    apply F_rank_measure.
    - eapply F_trans; [apply (F_with_sk w); reflexivity|]. fold w1'.
      eapply F_trans; [apply HF2; reflexivity|]. eapply F_trans; [|exact HF4]. subst w3'. ffin.
    - rewrite Hs4. subst w3'. sk_simpl. rewrite Hs2, E5. cbn. lia. }
  destruct (st (sk w) =? c_RTR_ERROR_NO_INCR_UPDATE_AVAIL) eqn:E6.
  { state_eq. apply hoare_set_sk. set (w1' := with_sk w _).
    assert (Hns1 : st (sk w1') <> c_RTR_SHUTDOWN) by exact Hns.
    destruct (change_state_eq c_RTR_RESET w1' Hns1) as (w2 & Ec & Hs2 & _ & HF2).
    unfold hoare, bind at 1. rewrite Ec.
    destruct (purge_outdated_eq w2) as (w4 & E4' & Hs4 & _ & HF4). rewrite E4'. intros _.
    apply F_rank_measure.
    - eapply F_trans; [|exact HF4]. eapply F_trans; [|apply HF2; reflexivity]. apply F_with_sk. reflexivity.
    - rewrite Hs4, Hs2, E6. cbn. lia. }
  destruct ((st (sk w) =? c_RTR_ERROR_TRANSPORT) || (st (sk w) =? c_RTR_ERROR_FATAL)) eqn:E7.
  { unfold tr_close. apply hoare_emit. set (w1' := with_out w _).
    destruct (change_state_eq c_RTR_CONNECTING w1' Hns) as (w2 & Ec & Hs2 & _ & HF2).
    unfold hoare, bind at 1. rewrite Ec. unfold do_sleep. intros _.
    apply F_rank_measure.
    - eapply F_trans; [apply F_with_out|]. eapply F_trans; [apply HF2; reflexivity|]. ffin.
    - sk_simpl. rewrite Hs2. apply orb_true_iff in E7. destruct E7 as [E7|E7]; apply Z.eqb_eq in E7; rewrite E7; cbn; lia. }
  (* no other state is live *)
  exfalso. apply orb_false_iff in E7. destruct E7 as [E7 E8].
  unfold live, live_b in Hl. rewrite E0, E1, E2, E3, E4, E5, E6, E7, E8 in Hl. discriminate.
Qed.

(* ---------- one iteration of run_fsm (including the application's stop / start) ---------- *)
Definition stop_restart : world -> res unit :=
  mdo _ <- rtr_stop; mdo _ <- dump 1; modify_sk (fun s => upd_st s c_RTR_CONNECTING).

(* next world, and whether the run goes on *)
Definition fsm_iter (fuel : nat) (w : world) : world * bool :=
  match fsm_step fuel w with
  | Ok _ w' => (w', true)
  | Exc (XEnd _) w' => (w', false)
  | Exc XStop w' => match stop_restart w' with Ok _ w2 => (w2, true) | Exc _ w2 => (w2, false) end
  end.

Lemma run_fsm_iter n fuel w :
  run_fsm (S n) fuel w = let '(w', go) := fsm_iter fuel w in if go then run_fsm n fuel w' else w'.
Proof.
  cbn [run_fsm]. unfold fsm_iter, stop_restart.
  destruct (fsm_step fuel w) as [a w'|[why|] w']; try reflexivity.
  destruct ((mdo _ <- rtr_stop; mdo _ <- dump 1; modify_sk (fun s => upd_st s c_RTR_CONNECTING)) w'); reflexivity.
Qed.

Lemma change_state_ok ns w : exists w', change_state ns w = Ok tt w' /\ N w w' /\ (st (sk w') = st (sk w) \/ st (sk w') = ns).
Proof.
  unfold change_state. unfold_prims.
  destruct (st (sk w) =? ns); [eexists; split; [reflexivity|split; [apply N_refl|auto]]|].
  destruct (st (sk w) =? c_RTR_SHUTDOWN); eexists; (split; [reflexivity|split; [nfin|sk_simpl; auto]]).
Qed.

Lemma src_remove_all_eq w : exists w', src_remove_all w = Ok tt w' /\ N w w' /\ sk w' = sk w.
Proof. unfold src_remove_all. unfold_prims. eexists. split; [reflexivity|]. split; [nfin|reflexivity]. Qed.

Lemma rtr_stop_eq w : exists w', rtr_stop w = Ok tt w' /\ st (sk w') = c_RTR_CLOSED /\ N w w'.
Proof.
  unfold rtr_stop. unfold bind at 1, emit.
  match goal with |- exists _, bind (change_state ?ns) _ ?w0 = _ /\ _ => destruct (change_state_ok ns w0) as (w1 & E1 & N1 & _) end.
  unfold bind at 1. rewrite E1. unfold bind at 1, tr_close, emit. unfold bind at 1, modify_sk, bind at 1, get_sk, set_sk.
  match goal with |- exists _, bind src_remove_all _ ?w0 = _ /\ _ => destruct (src_remove_all_eq w0) as (w2 & E2 & N2 & S2) end.
  unfold bind at 1. rewrite E2. unfold bind, get_sk. eexists. split; [reflexivity|]. sk_simpl. split; [reflexivity|].
  unfold N in *. sk_simpl_in N1. sk_simpl_in N2. sk_simpl. destruct N1 as (? & ? & ?), N2 as (? & ? & ?). repeat split; congruence.
Qed.

Lemma stop_restart_eq w :
  exists w', stop_restart w = Ok tt w' /\ st (sk w') = c_RTR_CONNECTING /\ N w w'.
Proof.
  unfold stop_restart. destruct (rtr_stop_eq w) as (w1 & E1 & _ & N1).
  unfold bind at 1. rewrite E1. unfold bind, dump, emit, modify_sk, bind, get_sk, set_sk.
  eexists. split; [reflexivity|]. sk_simpl. split; [reflexivity|]. unfold N in *. sk_simpl. exact N1.
Qed.

Theorem no_stutter_iter f w : live w ->
  match fsm_iter (S f) w with
  | (w', true) => live w' /\ (now w' = now w -> (measure w' < measure w)%nat)
  | (_, false) => True
  end.
Proof.
  intros Hl. pose proof (no_stutter f w Hl) as H. pose proof (fsm_step_F (S f) w) as HF.
  unfold hoare in H. unfold rel in HF. unfold fsm_iter.
  destruct (fsm_step (S f) w) as [a w'|[why|] w']; [split; [apply HF, Hl|exact H]|exact I|].
  destruct (stop_restart_eq w') as (w2 & -> & Hs & (Hn & He & Ho)).
  split; [unfold live; rewrite Hs; reflexivity|].
  intros _. apply prog_measure. unfold prog, input_left in *. rewrite He, Ho. exact H.
Qed.

(* between two clock advances the loop iterates at most [measure] times *)
Fixpoint zero_time_run (n : nat) (fuel : nat) (w : world) : Prop :=
  match n with
  | O => True
  | S n' => match fsm_iter fuel w with
            | (w', true) => now w' = now w /\ zero_time_run n' fuel w'
            | (_, false) => False
            end
  end.

Theorem zero_time_bounded n : forall f w, live w -> zero_time_run n (S f) w -> (n <= measure w)%nat.
Proof.
  induction n as [|n IH]; intros f w Hl Hz; [lia|].
  cbn [zero_time_run] in Hz. pose proof (no_stutter_iter f w Hl) as H.
  destruct (fsm_iter (S f) w) as [w' [|]]; [|contradiction].
  destruct Hz as [Hn Hz]. destruct H as [Hl' Hm]. specialize (IH f w' Hl' Hz). specialize (Hm Hn). lia.
Qed.


(* ---------- Example: a cache that answers instantly ----------
   Every Serial/Reset Query is answered at once by Cache Reset: RESET -> SYNC -> NO_INCR -> RESET -> ... without the
   clock moving.  Legitimate (each round consumes a PDU), and bounded: the measure falls at every iteration. *)
Definition st_CRST : list byte := [1;8;0;0;0;0;0;8].
Definition st_w0 : world :=
  mkW (upd_st (init_sock 3600 7200 600 0) c_RTR_CONNECTING) [] [] [EvData st_CRST; EvData st_CRST; EvData st_CRST] [true] [] 1000 [].

Example zero_time_chain :
  live st_w0 /\ zero_time_run 10 100 st_w0 /\
  map (fun n => measure (run_fsm n 100 st_w0)) (seq 0 11) = [112; 110; 108; 75; 74; 72; 39; 38; 36; 3; 2]%nat /\
  map (fun n => now (run_fsm n 100 st_w0)) (seq 0 11) = repeat 1000 11.
Proof. vm_compute. repeat split; reflexivity. Qed.
