(* ConvergeStutter.v - C08, safety half: the state machine never iterates without consuming input or
   letting (virtual) time pass.

   Progress measure of a world: 4 * input_left + rank(state), where input_left counts what the scripted
   environment can still deliver (every receive event, every byte of a data event, every entry of the
   open script) and rank orders the control states along the zero-time transitions
        NO_DATA, NO_INCR (3) > RESET, ESTABLISHED (2) > ERROR_*, FAST_RECONNECT (1) > CONNECTING, SYNC (0).
   Theorem no_stutter: an iteration of the loop of rtr_fsm_start that ends with the clock where it was
   has strictly decreased the measure.  No hypothesis on the environment at all. *)
From RtrV Require Import Base.CSem Gen.Generated Rtr.RtrModel Rtr.RelFrame Rtr.ExpiryTac.
Local Open Scope Z_scope.

(* ---------- what the environment can still deliver ---------- *)
Fixpoint evs_size (es : list ev) : nat :=
  match es with
  | [] => O
  | EvData b :: r => S (List.length b + evs_size r)
  | _ :: r => S (evs_size r)
  end.

Definition input_left (w : world) : nat := (evs_size (evs w) + List.length (opens w))%nat.

Definition rank (s : Z) : nat :=
  if (s =? c_RTR_ERROR_NO_DATA_AVAIL) || (s =? c_RTR_ERROR_NO_INCR_UPDATE_AVAIL) then 3
  else if (s =? c_RTR_RESET) || (s =? c_RTR_ESTABLISHED) then 2
  else if (s =? c_RTR_ERROR_TRANSPORT) || (s =? c_RTR_ERROR_FATAL) || (s =? c_RTR_FAST_RECONNECT) then 1
  else 0.

Definition measure (w : world) : nat := (4 * input_left w + rank (st (sk w)))%nat.

(* the states in which the loop of rtr_fsm_start does something (all but SHUTDOWN and CLOSED) *)
Definition live_b (s : Z) : bool :=
  (s =? c_RTR_CONNECTING) || (s =? c_RTR_ESTABLISHED) || (s =? c_RTR_RESET) || (s =? c_RTR_SYNC) ||
  (s =? c_RTR_FAST_RECONNECT) || (s =? c_RTR_ERROR_NO_DATA_AVAIL) || (s =? c_RTR_ERROR_NO_INCR_UPDATE_AVAIL) ||
  (s =? c_RTR_ERROR_FATAL) || (s =? c_RTR_ERROR_TRANSPORT).
Definition live (w : world) : Prop := live_b (st (sk w)) = true.

(* ---------- frame F: input never grows, live states stay live ---------- *)
Definition F (w w' : world) : Prop :=
  (input_left w' <= input_left w)%nat /\ (live w -> live w').

Lemma F_refl w : F w w. Proof. unfold F; auto. Qed.
Lemma F_trans a b c : F a b -> F b c -> F a c.
Proof. unfold F; intros [H1 H2] [H3 H4]; split; [lia|auto]. Qed.

Notation relF := (rel F).
Ltac fstep := rstep F F_refl F_trans.
Ltac ffin := unfold F, input_left, live; sk_simpl; try (split; [lia|auto]).
Ltac fprim := unfold rel; unfold_prims; ffin.
Ltac flem := fail.
Ltac fIH IH := match goal with
  | |- relF (tr_recv_all_loop _ _ _ _) _ => apply IH
  | |- relF (tr_send_all_loop _ _ _) _ => apply IH
  | |- relF (store_loop _ _ _ _) _ => apply IH
  | |- relF (sync_first _) _ => apply IH end.

(* change_state: only to live states (every call site passes a constant) *)
Lemma change_state_F ns w : live_b ns = true -> relF (change_state ns) w.
Proof. intros Hn. unfold change_state. repeat fstep; try fprim. Qed.
Ltac flem1 := match goal with |- relF (change_state _) _ => apply change_state_F; reflexivity end.
Ltac flem ::= first [ flem1 ].

Lemma tr_recv_evs_size es : forall len timeout left t,
  (evs_size (snd (fst (fst (tr_recv_evs es len timeout left t)))) <= evs_size es)%nat.
Proof.
  induction es as [|e es IH]; intros; cbn [tr_recv_evs]; [cbn; lia|].
  destruct e as [b|c|v|].
  - destruct b as [|x b]; [specialize (IH len timeout left t); cbn [evs_size] in *; lia|].
    cbn [fst snd].
    set (n := Z.to_nat (Z.min len (zlen (x :: b)))).
    pose proof (skipn_length n (x :: b)) as Hl.
    destruct (skipn n (x :: b)) as [|y l] eqn:E; cbn [evs_size] in *; lia.
  - cbn [fst snd evs_size]. lia.
  - destruct (v <=? left).
    + specialize (IH len timeout (left - v) (t + v)). cbn [evs_size]. lia.
    + cbn [fst snd evs_size]. lia.
  - cbn [fst snd evs_size]. lia.
Qed.

Lemma tr_recv_F len t w : relF (tr_recv len t) w.
Proof.
  unfold rel, tr_recv.
  pose proof (tr_recv_evs_size (evs w) len t (Z.max 0 t) (now w)) as H.
  destruct (tr_recv_evs _ _ _ _ _) as [[[[[c|b]|] es] t'] tr]; cbn [fst snd] in H; try destruct (c =? -99); ffin.
Qed.
Ltac flem2 := match goal with |- relF (tr_recv _ _) _ => apply tr_recv_F end.
Ltac flem ::= first [ flem1 | flem2 ].

Lemma tr_recv_all_loop_F fuel : forall len e acc w, relF (tr_recv_all_loop fuel len e acc) w.
Proof.
  induction fuel as [|f IH]; intros; cbn [tr_recv_all_loop]; [apply (rel_ret F F_refl)|].
  repeat fstep; try flem; try fIH IH.
Qed.
Ltac flem3 := match goal with |- relF (tr_recv_all_loop _ _ _ _) _ => apply tr_recv_all_loop_F end.
Ltac flem ::= first [ flem1 | flem2 | flem3 ].

Lemma tr_recv_all_F len t w : relF (tr_recv_all len t) w.
Proof. unfold tr_recv_all. repeat fstep. apply tr_recv_all_loop_F. Qed.
Ltac flem4 := match goal with |- relF (tr_recv_all _ _) _ => apply tr_recv_all_F end.
Ltac flem ::= first [ flem1 | flem2 | flem3 | flem4 ].

Lemma tr_send_F b w : relF (tr_send b) w.
Proof. unfold rel, tr_send. destruct (sends w); destruct (_ <? 0); ffin. Qed.
Ltac flem5 := match goal with |- relF (tr_send _) _ => apply tr_send_F end.
Ltac flem ::= first [ flem1 | flem2 | flem3 | flem4 | flem5 ].

Lemma tr_send_all_loop_F fuel : forall b tot w, relF (tr_send_all_loop fuel b tot) w.
Proof.
  induction fuel as [|f IH]; intros; cbn [tr_send_all_loop]; [apply (rel_ret F F_refl)|].
  repeat fstep; try flem; try fIH IH.
Qed.
Ltac flem6 := match goal with |- relF (tr_send_all_loop _ _ _) _ => apply tr_send_all_loop_F end.
Ltac flem ::= first [ flem1 | flem2 | flem3 | flem4 | flem5 | flem6 ].

Lemma send_pdu_F b w : relF (send_pdu b) w.
Proof. unfold send_pdu, tr_send_all. repeat fstep; try flem. Qed.
Ltac flem7 := match goal with |- relF (send_pdu _) _ => apply send_pdu_F end.
Ltac flem ::= first [ flem1 | flem2 | flem3 | flem4 | flem5 | flem6 | flem7 ].

Lemma send_error_pdu_F enc c t w : relF (send_error_pdu enc c t) w.
Proof. unfold send_error_pdu. repeat fstep; try flem. Qed.
Ltac flem8 := match goal with |- relF (send_error_pdu _ _ _) _ => apply send_error_pdu_F end.
Ltac flem ::= first [ flem1 | flem2 | flem3 | flem4 | flem5 | flem6 | flem7 | flem8 ].

Lemma send_error_from_host_F enc c t w : relF (send_error_from_host enc c t) w.
Proof. unfold send_error_from_host. repeat fstep; try flem. Qed.
Ltac flem9 := match goal with |- relF (send_error_from_host _ _ _) _ => apply send_error_from_host_F end.
Ltac flem ::= first [ flem1 | flem2 | flem3 | flem4 | flem5 | flem6 | flem7 | flem8 | flem9 ].

Lemma send_serial_query_F w : relF send_serial_query w.
Proof. unfold send_serial_query. repeat fstep; try flem. Qed.
Ltac flem10 := match goal with |- relF (send_serial_query) _ => apply send_serial_query_F end.
Ltac flem ::= first [ flem1 | flem2 | flem3 | flem4 | flem5 | flem6 | flem7 | flem8 | flem9 | flem10 ].

Lemma send_reset_query_F w : relF send_reset_query w.
Proof. unfold send_reset_query. repeat fstep; try flem. Qed.
Ltac flem11 := match goal with |- relF (send_reset_query) _ => apply send_reset_query_F end.
Ltac flem ::= first [ flem1 | flem2 | flem3 | flem4 | flem5 | flem6 | flem7 | flem8 | flem9 | flem10 | flem11 ].

Lemma recv_err_F c w : relF (recv_err c) w.
Proof. unfold recv_err. repeat fstep; try flem. Qed.
Ltac flem12 := match goal with |- relF (recv_err _) _ => apply recv_err_F end.
Ltac flem ::= first [ flem1 | flem2 | flem3 | flem4 | flem5 | flem6 | flem7 | flem8 | flem9 | flem10 | flem11 | flem12 ].

Lemma tr_open_F w : relF tr_open w.
Proof. unfold rel, tr_open, F, input_left, live. destruct (opens w) as [|b r]; sk_simpl; cbn [List.length]; (split; [lia|auto]). Qed.
Ltac flem13 := match goal with |- relF (tr_open) _ => apply tr_open_F end.
Ltac flem ::= first [ flem1 | flem2 | flem3 | flem4 | flem5 | flem6 | flem7 | flem8 | flem9 | flem10 | flem11 | flem12 | flem13 ].

Lemma receive_pdu_F t w : relF (receive_pdu t) w.
Proof.
  unfold receive_pdu.
  repeat fstep; try flem.
  all: try (fprim; fail).
  all: try (unfold rel; unfold_prims; repeat match goal with |- context [if ?c then _ else _] => destruct c eqn:? end; ffin).
Qed.
Ltac flem14 := match goal with |- relF (receive_pdu _) _ => apply receive_pdu_F end.
Ltac flem ::= first [ flem1 | flem2 | flem3 | flem4 | flem5 | flem6 | flem7 | flem8 | flem9 | flem10 | flem11 | flem12 | flem13 | flem14 ].

Lemma handle_error_pdu_F p w : relF (handle_error_pdu p) w.
Proof. unfold handle_error_pdu. repeat fstep; try flem; try fprim. Qed.
Ltac flem15 := match goal with |- relF (handle_error_pdu _) _ => apply handle_error_pdu_F end.
Ltac flem ::= first [ flem1 | flem2 | flem3 | flem4 | flem5 | flem6 | flem7 | flem8 | flem9 | flem10 | flem11 | flem12 | flem13 | flem14 | flem15 ].

Lemma report_update_failure_F p c k w : relF (report_update_failure p c k) w.
Proof. unfold report_update_failure. repeat fstep; try flem. Qed.
Ltac flem16 := match goal with |- relF (report_update_failure _ _ _) _ => apply report_update_failure_F end.
Ltac flem ::= first [ flem1 | flem2 | flem3 | flem4 | flem5 | flem6 | flem7 | flem8 | flem9 | flem10 | flem11 | flem12 | flem13 | flem14 | flem15 | flem16 ].

Lemma src_remove_all_F w : relF src_remove_all w.
Proof. unfold src_remove_all. repeat fstep; try fprim. Qed.
Ltac flem17 := match goal with |- relF (src_remove_all) _ => apply src_remove_all_F end.
Ltac flem ::= first [ flem1 | flem2 | flem3 | flem4 | flem5 | flem6 | flem7 | flem8 | flem9 | flem10 | flem11 | flem12 | flem13 | flem14 | flem15 | flem16 | flem17 ].

Lemma purge_after_failed_undo_F w : relF purge_after_failed_undo w.
Proof. unfold purge_after_failed_undo. repeat fstep; try flem; try fprim. Qed.
Ltac flem18 := match goal with |- relF (purge_after_failed_undo) _ => apply purge_after_failed_undo_F end.
Ltac flem ::= first [ flem1 | flem2 | flem3 | flem4 | flem5 | flem6 | flem7 | flem8 | flem9 | flem10 | flem11 | flem12 | flem13 | flem14 | flem15 | flem16 | flem17 | flem18 ].

Lemma apply_eod_intervals_st s p : st (apply_eod_intervals s p) = st s.
Proof. unfold apply_eod_intervals. destruct (_ && _); reflexivity. Qed.

Lemma process_eod_F p v4 v6 ks w : relF (process_eod p v4 v6 ks) w.
Proof.
  unfold process_eod.
  repeat fstep; try flem; try (fprim; fail).
  all: try (unfold rel; unfold_prims; ffin; rewrite ?apply_eod_intervals_st; auto).
Qed.
Ltac flem19 := match goal with |- relF (process_eod _ _ _ _) _ => apply process_eod_F end.
Ltac flem ::= first [ flem1 | flem2 | flem3 | flem4 | flem5 | flem6 | flem7 | flem8 | flem9 | flem10 | flem11 | flem12 | flem13 | flem14 | flem15 | flem16 | flem17 | flem18 | flem19 ].

Lemma store_loop_F fuel : forall v4 v6 ks w, relF (store_loop fuel v4 v6 ks) w.
Proof.
  induction fuel as [|f IH]; intros; cbn [store_loop]; [apply (rel_ret F F_refl)|].
  repeat fstep; try flem; try fIH IH; try flem.
Qed.
Ltac flem20 := match goal with |- relF (store_loop _ _ _ _) _ => apply store_loop_F end.
Ltac flem ::= first [ flem1 | flem2 | flem3 | flem4 | flem5 | flem6 | flem7 | flem8 | flem9 | flem10 | flem11 | flem12 | flem13 | flem14 | flem15 | flem16 | flem17 | flem18 | flem19 | flem20 ].

Lemma receive_and_store_F fuel w : relF (receive_and_store fuel) w.
Proof. unfold receive_and_store. repeat fstep; try flem; try (unfold rel; unfold_prims; destruct (resetting _); ffin). Qed.
Ltac flem21 := match goal with |- relF (receive_and_store _) _ => apply receive_and_store_F end.
Ltac flem ::= first [ flem1 | flem2 | flem3 | flem4 | flem5 | flem6 | flem7 | flem8 | flem9 | flem10 | flem11 | flem12 | flem13 | flem14 | flem15 | flem16 | flem17 | flem18 | flem19 | flem20 | flem21 ].

Lemma sync_first_F fuel : forall w, relF (sync_first fuel) w.
Proof.
  induction fuel as [|f IH]; intros; cbn [sync_first]; [apply (rel_ret F F_refl)|].
  repeat fstep; try flem; try fIH IH; try fprim.
Qed.
Ltac flem22 := match goal with |- relF (sync_first _) _ => apply sync_first_F end.
Ltac flem ::= first [ flem1 | flem2 | flem3 | flem4 | flem5 | flem6 | flem7 | flem8 | flem9 | flem10 | flem11 | flem12 | flem13 | flem14 | flem15 | flem16 | flem17 | flem18 | flem19 | flem20 | flem21 | flem22 ].

Lemma rtr_sync_F fuel w : relF (rtr_sync fuel) w.
Proof.
  unfold rtr_sync.
  repeat fstep; try flem; try (fprim; fail).
  all: try (unfold rel; unfold_prims; destruct (negb _); ffin).
Qed.
Ltac flem23 := match goal with |- relF (rtr_sync _) _ => apply rtr_sync_F end.
Ltac flem ::= first [ flem1 | flem2 | flem3 | flem4 | flem5 | flem6 | flem7 | flem8 | flem9 | flem10 | flem11 | flem12 | flem13 | flem14 | flem15 | flem16 | flem17 | flem18 | flem19 | flem20 | flem21 | flem22 | flem23 ].

Lemma wait_for_sync_F w : relF wait_for_sync w.
Proof. unfold wait_for_sync. repeat fstep; try flem. Qed.
Ltac flem24 := match goal with |- relF (wait_for_sync) _ => apply wait_for_sync_F end.
Ltac flem ::= first [ flem1 | flem2 | flem3 | flem4 | flem5 | flem6 | flem7 | flem8 | flem9 | flem10 | flem11 | flem12 | flem13 | flem14 | flem15 | flem16 | flem17 | flem18 | flem19 | flem20 | flem21 | flem22 | flem23 | flem24 ].

Lemma purge_outdated_F w : relF purge_outdated w.
Proof. unfold purge_outdated. repeat fstep; try flem; try fprim. Qed.
Ltac flem25 := match goal with |- relF (purge_outdated) _ => apply purge_outdated_F end.
Ltac flem ::= first [ flem1 | flem2 | flem3 | flem4 | flem5 | flem6 | flem7 | flem8 | flem9 | flem10 | flem11 | flem12 | flem13 | flem14 | flem15 | flem16 | flem17 | flem18 | flem19 | flem20 | flem21 | flem22 | flem23 | flem24 | flem25 ].

Lemma fsm_step_F fuel w : relF (fsm_step fuel) w.
Proof.
  unfold fsm_step.
  repeat fstep; try flem; try (fprim; fail).
Qed.

(* ---------- frame S0: sending touches nothing but the send script and the trace ---------- *)
Definition S0 (w w' : world) : Prop :=
  sk w' = sk w /\ pfx w' = pfx w /\ keys w' = keys w /\ now w' = now w /\ evs w' = evs w /\ opens w' = opens w.
Lemma S0_refl w : S0 w w. Proof. unfold S0; auto 10. Qed.
Lemma S0_trans a b c : S0 a b -> S0 b c -> S0 a c.
Proof. unfold S0. intros (A1 & A2 & A3 & A4 & A5 & A6) (B1 & B2 & B3 & B4 & B5 & B6). repeat split; congruence. Qed.
Notation relS := (rel S0).
Ltac sstep := rstep S0 S0_refl S0_trans.
Ltac sfin := unfold S0; sk_simpl; auto 10.
Ltac sprim := unfold rel; unfold_prims; sfin.

Lemma tr_send_S b w : relS (tr_send b) w.
Proof. unfold rel, tr_send. destruct (sends w); destruct (_ <? 0); sfin. Qed.
Lemma tr_send_all_loop_S fuel : forall b tot w, relS (tr_send_all_loop fuel b tot) w.
Proof.
  induction fuel as [|f IH]; intros; cbn [tr_send_all_loop]; [apply (rel_ret S0 S0_refl)|].
  repeat sstep; try apply tr_send_S; try apply IH.
Qed.
Lemma send_pdu_S b w : relS (send_pdu b) w.
Proof. unfold send_pdu, tr_send_all. repeat sstep; try apply tr_send_all_loop_S. Qed.
Lemma send_error_pdu_S enc c t w : relS (send_error_pdu enc c t) w.
Proof. unfold send_error_pdu. repeat sstep; try apply send_pdu_S. Qed.
Lemma send_error_from_host_S enc c t w : relS (send_error_from_host enc c t) w.
Proof. unfold send_error_from_host. repeat sstep; try apply send_error_pdu_S. Qed.

(* ---------- frame N: no interaction with the clock, the receive script or the open script ---------- *)
Definition N (w w' : world) : Prop := now w' = now w /\ evs w' = evs w /\ opens w' = opens w.
Lemma N_refl w : N w w. Proof. unfold N; auto. Qed.
Lemma N_trans a b c : N a b -> N b c -> N a c.
Proof. unfold N. intros (A1 & A2 & A3) (B1 & B2 & B3). repeat split; congruence. Qed.
Lemma S0_N a b : S0 a b -> N a b. Proof. unfold S0, N. tauto. Qed.
Notation relN := (rel N).
Ltac nstep := rstep N N_refl N_trans.
Ltac nfin := unfold N; sk_simpl; auto.
Ltac nprim := unfold rel; unfold_prims; nfin.
Lemma relS_N {A} (m : world -> res A) w : relS m w -> relN m w.
Proof. unfold rel. destruct (m w); apply S0_N. Qed.

Lemma change_state_N ns w : relN (change_state ns) w.
Proof. unfold change_state. repeat nstep; try nprim. Qed.
Ltac nlem := match goal with
  | |- relN (change_state _) _ => apply change_state_N
  | |- relN (send_pdu _) _ => apply relS_N, send_pdu_S
  | |- relN (send_error_pdu _ _ _) _ => apply relS_N, send_error_pdu_S
  | |- relN (send_error_from_host _ _ _) _ => apply relS_N, send_error_from_host_S
  end.
Lemma send_serial_query_N w : relN send_serial_query w.
Proof. unfold send_serial_query. repeat nstep; try nlem. Qed.
Lemma send_reset_query_N w : relN send_reset_query w.
Proof. unfold send_reset_query. repeat nstep; try nlem. Qed.
Lemma recv_err_N c w : relN (recv_err c) w.
Proof. unfold recv_err. repeat nstep; try nlem. Qed.
Lemma handle_error_pdu_N p w : relN (handle_error_pdu p) w.
Proof. unfold handle_error_pdu. repeat nstep; try nlem; try nprim. Qed.
Lemma report_update_failure_N p c k w : relN (report_update_failure p c k) w.
Proof. unfold report_update_failure. repeat nstep; try nlem. Qed.
Lemma src_remove_all_N w : relN src_remove_all w.
Proof. unfold src_remove_all. repeat nstep; try nprim. Qed.
Lemma purge_after_failed_undo_N w : relN purge_after_failed_undo w.
Proof. unfold purge_after_failed_undo. repeat nstep; try apply src_remove_all_N; try nprim. Qed.
Ltac nlem2 := match goal with
  | |- relN (report_update_failure _ _ _) _ => apply report_update_failure_N
  | |- relN (purge_after_failed_undo) _ => apply purge_after_failed_undo_N
  | |- relN (src_remove_all) _ => apply src_remove_all_N
  | |- relN (send_serial_query) _ => apply send_serial_query_N
  | |- relN (send_reset_query) _ => apply send_reset_query_N
  | |- relN (handle_error_pdu _) _ => apply handle_error_pdu_N
  | |- relN (recv_err _) _ => apply recv_err_N
  | _ => nlem
  end.
Lemma process_eod_N p v4 v6 ks w : relN (process_eod p v4 v6 ks) w.
Proof. unfold process_eod. repeat nstep; try nlem2; try (nprim; fail). Qed.
Lemma purge_outdated_N w : relN purge_outdated w.
Proof. unfold purge_outdated. repeat nstep; try nlem2; try nprim. Qed.

(* ---------- progress: input consumed ---------- *)
Definition prog (w w' : world) : Prop := (input_left w' < input_left w)%nat.
Lemma F_prog a b c : F a b -> prog b c -> prog a c. Proof. unfold F, prog. intros [H _] ?. lia. Qed.
Lemma prog_F a b c : prog a b -> F b c -> prog a c. Proof. unfold F, prog. intros ? [H _]. lia. Qed.

(* a receive either consumed something, or found nothing for exactly its timeout *)
Definition quiet {A} (w : world) (t : Z) (v : A) (a : A) (w' : world) : Prop :=
  prog w w' \/ (a = v /\ sk w' = sk w /\ now w' = now w + Z.max 0 t /\ F w w').

Lemma hoare_get_now {B} w (f : Z -> world -> res B) (Q : B -> world -> Prop) (QX : world -> Prop) :
  hoare (f (now w)) w Q QX -> hoare (bind get_now f) w Q QX.
Proof. intros H. exact H. Qed.
Lemma hoare_get_sk {B} w (f : sock -> world -> res B) (Q : B -> world -> Prop) (QX : world -> Prop) :
  hoare (f (sk w)) w Q QX -> hoare (bind get_sk f) w Q QX.
Proof. intros H. exact H. Qed.

Lemma tr_recv_evs_spec es len timeout left t : 0 < len ->
  match tr_recv_evs es len timeout left t with
  | (None, _, _, _) => True
  | (Some (inr b), es', t', _) => (evs_size es' < evs_size es)%nat
  | (Some (inl c), es', t', _) => (evs_size es' < evs_size es)%nat \/ (c = -2 /\ t' = t + left)
  end.
Proof.
  intros Hlen. destruct es as [|e es]; cbn [tr_recv_evs]; [exact I|].
  destruct e as [b|c|v|].
  - destruct b as [|x b].
    + pose proof (tr_recv_evs_size es len timeout left t) as H.
      destruct (tr_recv_evs es len timeout left t) as [[[[[c|b]|] es'] t'] tr]; cbn [fst snd evs_size] in *; try lia; try exact I.
    + set (n := Z.to_nat (Z.min len (zlen (x :: b)))).
      assert (Hn : (1 <= n)%nat) by (unfold n, zlen; cbn [List.length]; lia).
      pose proof (skipn_length n (x :: b)) as Hl.
      destruct (skipn n (x :: b)) as [|y l] eqn:E; cbn [evs_size List.length] in *; lia.
  - left. cbn [evs_size]. lia.
  - destruct (v <=? left) eqn:Ev.
    + pose proof (tr_recv_evs_size es len timeout (left - v) (t + v)) as H.
      destruct (tr_recv_evs es len timeout (left - v) (t + v)) as [[[[[c|b]|] es'] t'] tr]; cbn [fst snd evs_size] in *; try lia; try exact I.
    + right. auto.
  - left. cbn [evs_size]. lia.
Qed.

Lemma tr_recv_spec len timeout w : 0 < len ->
  hoare (tr_recv len timeout) w (quiet w timeout (inl (-2))) (prog w).
Proof.
  intros Hlen. unfold hoare, tr_recv.
  pose proof (tr_recv_evs_spec (evs w) len timeout (Z.max 0 timeout) (now w) Hlen) as H.
  pose proof (tr_recv_F len timeout w) as HF. unfold rel, tr_recv in HF.
  destruct (tr_recv_evs _ _ _ _ _) as [[[[[c|b]|] es] t'] tr]; [| |exact I].
  - destruct (c =? -99) eqn:Ec.
    + apply Z.eqb_eq in Ec. subst c. destruct H as [H|[H _]]; [|discriminate]. unfold prog, input_left. sk_simpl. lia.
    + destruct H as [H|[-> ->]]; [left; unfold prog, input_left; sk_simpl; lia|].
      right. sk_simpl. auto.
  - left. unfold prog, input_left. sk_simpl. lia.
Qed.

Lemma tr_recv_all_spec len timeout w : 0 < len ->
  hoare (tr_recv_all len timeout) w (quiet w timeout (inl (-2))) (prog w).
Proof.
  intros Hlen. unfold tr_recv_all.
  destruct (Z.to_nat len) as [|f] eqn:E; [lia|].
  apply hoare_get_now. cbn [tr_recv_all_loop].
  assert (Hz : zlen (@nil byte) >=? len = false) by (unfold zlen; cbn [List.length]; rewrite Z.geb_leb; apply Z.leb_gt; lia).
  rewrite Hz.
  apply hoare_get_now.
  eapply hoare_bind; [apply tr_recv_spec; unfold zlen; cbn [List.length]; lia|].
  intros a w1 E1 Hq. destruct a as [c|b].
  - apply hoare_ret. destruct Hq as [Hq|(Ha & Hs & Hn & HF)]; [left; exact Hq|right].
    split; [exact Ha|split; [exact Hs|split; [|exact HF]]]. rewrite Hn. f_equal. f_equal. lia.
  - assert (Hp : prog w w1) by (destruct Hq as [Hq|(Ha & _)]; [exact Hq|discriminate]).
    eapply hoare_conseq; [apply (hoare_of_rel F), tr_recv_all_loop_F| |]; cbv beta; intros; [left|]; eapply prog_F; eauto.
Qed.

(* the rest of rtr_receive_pdu after the header, as one computation (only its frame matters) *)
Lemma receive_pdu_spec timeout w : st (sk w) <> c_RTR_SHUTDOWN ->
  hoare (receive_pdu timeout) w (quiet w timeout (inl (-2))) (prog w).
Proof.
  intros Hst. unfold receive_pdu.
  apply hoare_get_sk.
  destruct (st (sk w) =? c_RTR_SHUTDOWN) eqn:Es; [apply Z.eqb_eq in Es; contradiction|].
  eapply hoare_bind; [apply tr_recv_all_spec; lia|].
  intros a w1 E1 Hq.
  match goal with |- hoare ?m _ _ _ => assert (HF : relF m w1) end.
  { destruct a as [c|h]; [apply recv_err_F|].
    repeat fstep; try flem.
    all: try (fprim; fail).
    all: try (unfold rel; unfold_prims; repeat match goal with |- context [if ?c then _ else _] => destruct c eqn:? end; ffin). }
  destruct Hq as [Hq|(-> & Hs & Hn & HF0)].
  - eapply hoare_conseq; [apply (hoare_of_rel F), HF| |]; cbv beta; intros; [left|]; eapply prog_F; eauto.
  - (* nothing arrived: recv_err (-2) returns at once *)
    unfold recv_err. cbn [Z.eqb Pos.eqb Z.opp]. apply hoare_ret. right. auto.
Qed.
